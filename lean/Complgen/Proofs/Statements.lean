/-
C05 (whole grammars): the round trip of `Proofs/Ladder.lean` / `Proofs/LadderLayout.lean` lifted from
expressions to statements and to whole `.usage` files.

A grammar of the fragment (`StmtNF`: call statements `name expr;` whose name is a literal of regular
characters, definitions `<NAME> ::= expr;` and `<NAME@SHELL> ::= expr;`, expressions in `NF`) printed with
any admissible layout (`GLayout`, `GLayout.Adm`: blanks and comments at the beginning of the file, after
the command name, around `::=` / `=`, inside the expressions, before `;`, between the statements and at
the end of the file; the last `;` optional) is read back by `Parse.parse` as the same grammar up to
spans (`grammar_roundtrip_layout`); the plain printer (`ppGrammar`: one blank, statements separated by
line feeds) is one of the layouts (`grammar_roundtrip`); two layouts of one grammar parse to grammars
that differ in spans only (`grammar_layout_irrelevant`).

Fuel.  `Parse.parse` gives the ladder `fuelFor n = 10 * n + 20` units for an input of `n` characters.
The bound `fuelNeeded e = 10 * size e` of `Proofs/Ladder.lean` is too coarse for that (`a b|c d` has
size 13 and 7 characters; `exDeep` at the end of the file, plainly printed), so the induction over the five levels is redone here with the sharper
measure `need` (the depth of the descent: 6 or 7 per node on the path plus the number of list items passed),
for which `need e + 4 ≤ 10 * (ppL lay ctx e).length` (`need_le_length`) and `need e ≤ fuelNeeded e`
(`need_le_fuelNeeded`).
-/
import Complgen.Proofs.LadderLayout
namespace Complgen.Parse
open Complgen

/-! ### a sharper fuel measure -/

mutual
/-- fuel that the ladder needs for a printed tree: 6 for the descent to an atom, 6 or 7 for every node
above it, 1 for every item of a list read before the descent goes on -/
def need : Expr → Nat
  | .term _ _ _ _ => 6
  | .nonterm _ _ _ => 6
  | .cmd _ _ _ _ => 6
  | .seq cs _ => needL cs + 6
  | .alt cs _ => needL cs + 6
  | .fb cs _ => needL cs + 6
  | .opt c _ => need c + 7
  | .many1 c _ => need c + 7
  | .dd c _ _ => need c + 7
  | .sub c _ _ => need c + 7
def needL : ExprL → Nat
  | .nil => 0
  | .cons e es => max (need e) (needL es) + 1
end

/-- the five texts of an expression are read back at the five levels, with `need e` fuel -/
def AllTN (e : Expr) : Prop := ∀ lay : Layout, lay.Adm →
  AllT (need e) (ppL lay 0 e) (ppL lay 1 e) (ppL lay 2 e) (ppL lay 3 e) (ppL lay 4 e) e.eraseSpans

def TailsN (es : ExprL) : Prop := ∀ lay : Layout, lay.Adm →
  LT sequenceLoop SCont (needL es) (ppTailL lay 3 es) es.eraseSpans ∧
  LT alternativeLoop ACont (needL es) (ppTailL lay 2 es) es.eraseSpans ∧
  LT fallbackLoop FCont (needL es) (ppTailL lay 1 es) es.eraseSpans

/-- the components of a list, for the list operators -/
def PartsN (es : ExprL) : Prop := ∀ e1 es1, es = .cons e1 es1 → AllTN e1 ∧ TailsN es1

theorem starter_ppL (e : Expr) (hnf : NF e) (lay : Layout) (adm : lay.Adm) (k : Nat) :
    StarterHead (ppL lay k e) := (all_levels_lay e hnf lay adm).2 k

theorem tailS_cont_nf (es : ExprL) (h : NFL es) (lay : Layout) (adm : lay.Adm) :
    ∀ rest, SCont rest → UCont (ppTailL lay 3 es ++ rest) := by
  intro rest hrest
  cases es with
  | nil => simpa [ppTailL] using hrest.u
  | cons e es' =>
    simp only [NFL] at h
    have := UCont_layout_starter (lay.sep []) (ppL (lay.sub 0) 3 e) (ppTailL (lay.sub 1) 3 es' ++ rest)
      (adm.sep []).1 (adm.sep []).2 (starter_ppL e h.1 _ (adm.sub 0) 3)
    simpa [ppTailL, sepL] using this

theorem caseN_nil : TailsN .nil ∧ PartsN .nil := by
  refine ⟨fun lay _ => ⟨?_, ?_, ?_⟩, fun e1 es1 h => by cases h⟩
  · simpa [ppTailL, needL, ExprL.eraseSpans] using seqLoop_nil
  · simpa [ppTailL, needL, ExprL.eraseSpans] using altLoop_nil
  · simpa [ppTailL, needL, ExprL.eraseSpans] using fbLoop_nil

theorem caseN_cons (e : Expr) (es : ExprL) (hnf : NFL (.cons e es)) (he : AllTN e) (hes : TailsN es) :
    TailsN (.cons e es) ∧ PartsN (.cons e es) := by
  simp only [NFL] at hnf
  refine ⟨fun lay adm => ?_, fun e1 es1 h => by cases h; exact ⟨he, hes⟩⟩
  have he0 := he (lay.sub 0) (adm.sub 0)
  have hes1 := hes (lay.sub 1) (adm.sub 1)
  have hst : ∀ k, StarterHead (ppL (lay.sub 0) k e) := starter_ppL e hnf.1 _ (adm.sub 0)
  refine ⟨?_, ?_, ?_⟩
  · have := seqLoop_cons_lay (adm.sep []).1.1 (adm.sep []).2 (hst 3) he0.2.2.2.1 hes1.1
      (tailS_cont_nf es hnf.2 _ (adm.sub 1))
    simpa [ppTailL, sepL, ExprL.eraseSpans, needL] using this
  · have := altLoop_cons_lay (adm.barL []).1 (adm.barR []) (hst 2) he0.2.2.1 hes1.2.1
      (tailA_cont_lay es _ (adm.sub 1))
    simpa [ppTailL, sepL, ExprL.eraseSpans, needL] using this
  · have := fbLoop_cons_lay (adm.barL []).1 (adm.barR []) (hst 1) he0.2.1 hes1.2.2
      (tailF_cont_lay es _ (adm.sub 1))
    simpa [ppTailL, sepL, ExprL.eraseSpans, needL] using this

theorem caseN_term (t : String) (d : Option String) (l : Nat) (sp : Span) (h : NF (.term t d l sp)) :
    AllTN (.term t d l sp) := by
  simp only [NF] at h
  obtain ⟨rfl, rfl, h1, h2, _⟩ := h
  intro lay _
  have := assemble4 (lit_PT t.toList h1 h2)
  rw [String.ofList_toList] at this
  simpa [ppL, Expr.eraseSpans, need] using this

theorem caseN_nonterm (n : String) (l : Nat) (sp : Span) (h : NF (.nonterm n l sp)) :
    AllTN (.nonterm n l sp) := by
  simp only [NF] at h
  obtain ⟨rfl, h1, h2⟩ := h
  intro lay _
  have := assemble4 (nonterm_PT n.toList h1 h2)
  rw [String.ofList_toList] at this
  simpa [ppL, Expr.eraseSpans, need] using this

theorem caseN_cmd (c : String) (a : Bool) (l : Nat) (sp : Span) (h : NF (.cmd c a l sp)) :
    AllTN (.cmd c a l sp) := by
  simp only [NF] at h
  obtain ⟨rfl, rfl, h1, h2, h3⟩ := h
  intro lay _
  have := assemble4 (cmd_PT c.toList h1 h2 h3)
  rw [String.ofList_toList] at this
  simpa [ppL, Expr.eraseSpans, need] using this

theorem caseN_opt (c : Expr) (sp : Span) (ih : NF c → AllTN c) (h : NF (.opt c sp)) : AllTN (.opt c sp) := by
  simp only [NF] at h
  have hc := ih h
  intro lay adm
  have hc0 := hc (lay.sub 0) (adm.sub 0)
  have := assemble4 (bracket_PT_lay (adm.opn []) (adm.cls []) (starter_ppL c h _ (adm.sub 0) 0) hc0.1)
  simpa [ppL, Expr.eraseSpans, need] using this

theorem caseN_many1 (c : Expr) (sp : Span) (ih : NF c → AllTN c) (h : NF (.many1 c sp)) :
    AllTN (.many1 c sp) := by
  simp only [NF] at h
  have hc := ih h
  intro lay adm
  have hc0 := hc (lay.sub 0) (adm.sub 0)
  have hT : StarterHead (ppL (lay.sub 0) 4 c ++ lay.dots [] ++ ['.', '.', '.']) :=
    ((starter_ppL c h _ (adm.sub 0) 4).append _).append _
  have := assemble3_lay (adm.opn []) (adm.cls []) hT (lift_B_many1_lay (adm.dots []) hc0.2.2.2.2)
  simpa [ppL, parenIfL, Expr.eraseSpans, need] using this

theorem caseN_seq (cs : ExprL) (sp : Span) (ih : NFL cs → TailsN cs ∧ PartsN cs) (h : NF (.seq cs sp)) :
    AllTN (.seq cs sp) := by
  simp only [NF] at h
  obtain ⟨e1, e2, es, rfl⟩ := two_le_length h.1
  obtain ⟨h1, h2⟩ := (ih h.2).2 _ _ rfl
  have hnf := h.2
  simp only [NFL] at hnf
  intro lay adm
  have a0 := adm.sub 0
  have h1' := h1 ((lay.sub 0).sub 0) (a0.sub 0)
  have h2' := h2 ((lay.sub 0).sub 1) (a0.sub 1)
  have hT : StarterHead (ppL ((lay.sub 0).sub 0) 3 e1 ++ ppTailL ((lay.sub 0).sub 1) 3 (.cons e2 es)) :=
    (starter_ppL e1 hnf.1 _ (a0.sub 0) 3).append _
  have hn := seq_native h1'.2.2.2.1 h2'.1 (tailS_cont_nf _ (by simpa only [NFL] using hnf.2) _ (a0.sub 1))
  have := assemble2_lay (adm.opn []) (adm.cls []) hT hn
  simpa [ppL, ppListL, parenIfL, Expr.eraseSpans, ExprL.eraseSpans, need, needL] using this

theorem caseN_alt (cs : ExprL) (sp : Span) (ih : NFL cs → TailsN cs ∧ PartsN cs) (h : NF (.alt cs sp)) :
    AllTN (.alt cs sp) := by
  simp only [NF] at h
  obtain ⟨e1, e2, es, rfl⟩ := two_le_length h.1
  obtain ⟨h1, h2⟩ := (ih h.2).2 _ _ rfl
  have hnf := h.2
  simp only [NFL] at hnf
  intro lay adm
  have a0 := adm.sub 0
  have h1' := h1 ((lay.sub 0).sub 0) (a0.sub 0)
  have h2' := h2 ((lay.sub 0).sub 1) (a0.sub 1)
  have hT : StarterHead (ppL ((lay.sub 0).sub 0) 2 e1 ++ ppTailL ((lay.sub 0).sub 1) 2 (.cons e2 es)) :=
    (starter_ppL e1 hnf.1 _ (a0.sub 0) 2).append _
  have hn := alt_native h1'.2.2.1 h2'.2.1 (tailA_cont_lay _ _ (a0.sub 1))
  have := assemble1_lay (adm.opn []) (adm.cls []) hT hn
  simpa [ppL, ppListL, parenIfL, Expr.eraseSpans, ExprL.eraseSpans, need, needL] using this

theorem caseN_fb (cs : ExprL) (sp : Span) (ih : NFL cs → TailsN cs ∧ PartsN cs) (h : NF (.fb cs sp)) :
    AllTN (.fb cs sp) := by
  simp only [NF] at h
  obtain ⟨e1, e2, es, rfl⟩ := two_le_length h.1
  obtain ⟨h1, h2⟩ := (ih h.2).2 _ _ rfl
  have hnf := h.2
  simp only [NFL] at hnf
  intro lay adm
  have a0 := adm.sub 0
  have h1' := h1 ((lay.sub 0).sub 0) (a0.sub 0)
  have h2' := h2 ((lay.sub 0).sub 1) (a0.sub 1)
  have hT : StarterHead (ppL ((lay.sub 0).sub 0) 1 e1 ++ ppTailL ((lay.sub 0).sub 1) 1 (.cons e2 es)) :=
    (starter_ppL e1 hnf.1 _ (a0.sub 0) 1).append _
  have hn := fb_native h1'.2.1 h2'.2.2 (tailF_cont_lay _ _ (a0.sub 1))
  have := assemble0_lay (adm.opn []) (adm.cls []) hT hn
  simpa [ppL, ppListL, parenIfL, Expr.eraseSpans, ExprL.eraseSpans, need, needL] using this

theorem all_levels_need (e : Expr) : NF e → AllTN e := by
  refine Expr.rec (motive_1 := fun e => NF e → AllTN e) (motive_2 := fun es => NFL es → TailsN es ∧ PartsN es)
    ?_ ?_ ?_ ?_ ?_ ?_ ?_ ?_ ?_ ?_ ?_ ?_ e
  · exact caseN_term
  · exact caseN_nonterm
  · exact caseN_cmd
  · exact caseN_seq
  · exact caseN_alt
  · exact caseN_fb
  · exact caseN_opt
  · exact caseN_many1
  · intro c d sp _ h; simp [NF] at h
  · intro c l sp _ h; simp [NF] at h
  · intro _; exact caseN_nil
  · intro e es ihe ihes h
    have h' := h
    simp only [NFL] at h'
    exact caseN_cons e es h (ihe h'.1) (ihes h'.2).1

/-- `fallback_roundtrip_layout` with the sharper fuel bound `need e` -/
theorem fallback_roundtrip_need (e : Expr) (hnf : NF e) (lay : Layout) (adm : lay.Adm)
    (rest : List Char) (hrest : Follows rest) (s : PState) (hs : s.rest = ppL lay 0 e ++ rest)
    (fuel : Nat) (hfuel : need e ≤ fuel) :
    ∃ e', fallback fuel s = some (s.adv (ppL lay 0 e).length, e') ∧ e'.eraseSpans = e.eraseSpans :=
  (all_levels_need e hnf lay adm).1 rest hrest s hs fuel hfuel

/-! ### the measure against the printed length and against `fuelNeeded` -/

theorem length_parenIfL_ge (lay : Layout) (b : Bool) (T : List Char) : T.length ≤ (parenIfL lay b T).length := by
  cases b <;> simp [parenIfL, parenL] <;> omega

theorem length_sepL_pos (lay : Layout) (adm : lay.Adm) (ctx : Nat) : 1 ≤ (sepL lay ctx).length := by
  unfold sepL
  split
  · have := (adm.sep []).2
    cases h : lay.sep [] with
    | nil => exact absurd h this
    | cons _ _ => simp
  · simp; omega
  · simp; omega

def LenE (e : Expr) : Prop := ∀ lay : Layout, lay.Adm → ∀ ctx, need e + 4 ≤ 10 * (ppL lay ctx e).length
def LenT (es : ExprL) : Prop := ∀ lay : Layout, lay.Adm → ∀ ctx,
  needL es + 9 ≤ 10 * (ppTailL lay ctx es).length ∨ es = .nil
def LenParts (es : ExprL) : Prop := ∀ e1 es1, es = .cons e1 es1 → LenE e1 ∧ LenT es1

theorem lenT_cons (e : Expr) (es : ExprL) (he : LenE e) (hes : LenT es) : LenT (.cons e es) := by
  intro lay adm ctx
  left
  have h1 := he (lay.sub 0) (adm.sub 0) ctx
  have h3 := length_sepL_pos lay adm ctx
  simp only [ppTailL, needL, List.length_append]
  rcases hes (lay.sub 1) (adm.sub 1) ctx with h2 | rfl
  · omega
  · simp only [needL]; omega

theorem lenE_list (lay : Layout) (adm : lay.Adm) (ctx : Nat) (e1 e2 : Expr) (es : ExprL)
    (h : LenParts (.cons e1 (.cons e2 es))) :
    needL (.cons e1 (.cons e2 es)) + 10 ≤ 10 * (ppListL lay ctx (.cons e1 (.cons e2 es))).length := by
  obtain ⟨he1, hes⟩ := h _ _ rfl
  have h1 := he1 (lay.sub 0) (adm.sub 0) ctx
  rcases hes (lay.sub 1) (adm.sub 1) ctx with hT | hT
  · simp only [ppListL, List.length_append]
    rw [needL]
    omega
  · cases hT

theorem lenE_seq (cs : ExprL) (sp : Span) (ih : NFL cs → LenT cs ∧ LenParts cs) (h : NF (.seq cs sp)) :
    LenE (.seq cs sp) := by
  simp only [NF] at h
  obtain ⟨e1, e2, es, rfl⟩ := two_le_length h.1
  intro lay adm ctx
  have h1 := lenE_list (lay.sub 0) (adm.sub 0) 3 e1 e2 es (ih h.2).2
  have h2 := length_parenIfL_ge lay (decide (3 ≤ ctx)) (ppListL (lay.sub 0) 3 (.cons e1 (.cons e2 es)))
  simp only [ppL, need]
  omega

theorem lenE_alt (cs : ExprL) (sp : Span) (ih : NFL cs → LenT cs ∧ LenParts cs) (h : NF (.alt cs sp)) :
    LenE (.alt cs sp) := by
  simp only [NF] at h
  obtain ⟨e1, e2, es, rfl⟩ := two_le_length h.1
  intro lay adm ctx
  have h1 := lenE_list (lay.sub 0) (adm.sub 0) 2 e1 e2 es (ih h.2).2
  have h2 := length_parenIfL_ge lay (decide (2 ≤ ctx)) (ppListL (lay.sub 0) 2 (.cons e1 (.cons e2 es)))
  simp only [ppL, need]
  omega

theorem lenE_fb (cs : ExprL) (sp : Span) (ih : NFL cs → LenT cs ∧ LenParts cs) (h : NF (.fb cs sp)) :
    LenE (.fb cs sp) := by
  simp only [NF] at h
  obtain ⟨e1, e2, es, rfl⟩ := two_le_length h.1
  intro lay adm ctx
  have h1 := lenE_list (lay.sub 0) (adm.sub 0) 1 e1 e2 es (ih h.2).2
  have h2 := length_parenIfL_ge lay (decide (1 ≤ ctx)) (ppListL (lay.sub 0) 1 (.cons e1 (.cons e2 es)))
  simp only [ppL, need]
  omega

/-- **the fuel of `Grammar::parse` suffices**: ten units of fuel for every printed character cover the
descent into any tree of the fragment, whatever the layout -/
theorem need_le_length (e : Expr) : NF e → LenE e := by
  refine Expr.rec (motive_1 := fun e => NF e → LenE e) (motive_2 := fun es => NFL es → LenT es ∧ LenParts es)
    ?_ ?_ ?_ ?_ ?_ ?_ ?_ ?_ ?_ ?_ ?_ ?_ e
  · intro t d l sp h lay _ ctx
    simp only [NF] at h
    have : 1 ≤ t.toList.length := by
      cases ht : t.toList with
      | nil => exact absurd ht h.2.2.1
      | cons _ _ => simp
    simp only [ppL, need]; omega
  · intro n l sp _ lay _ ctx
    simp only [ppL, need, List.length_cons, List.length_append, List.length_nil]; omega
  · intro c a l sp _ lay _ ctx
    simp only [ppL, need, cmdText, List.length_cons, List.length_append, List.length_nil]; omega
  · exact lenE_seq
  · exact lenE_alt
  · exact lenE_fb
  · intro c sp ih h lay adm ctx
    simp only [NF] at h
    have := ih h (lay.sub 0) (adm.sub 0) 0
    simp only [ppL, need, List.length_cons, List.length_append, List.length_nil]; omega
  · intro c sp ih h lay adm ctx
    simp only [NF] at h
    have := ih h (lay.sub 0) (adm.sub 0) 4
    have h2 := length_parenIfL_ge lay (decide (4 ≤ ctx)) (ppL (lay.sub 0) 4 c ++ lay.dots [] ++ ['.', '.', '.'])
    simp only [List.length_cons, List.length_append, List.length_nil] at h2
    simp only [ppL, need]; omega
  · intro c d sp _ h; simp [NF] at h
  · intro c l sp _ h; simp [NF] at h
  · intro _; exact ⟨fun _ _ _ => .inr rfl, fun _ _ h => by cases h⟩
  · intro e es ihe ihes h
    simp only [NFL] at h
    exact ⟨lenT_cons e es (ihe h.1) (ihes h.2).1, fun _ _ e => by cases e; exact ⟨ihe h.1, (ihes h.2).1⟩⟩

mutual
theorem need_le_size : ∀ e : Expr, need e ≤ 10 * size e
  | .term _ _ _ _ => by simp [need, size]
  | .nonterm _ _ _ => by simp [need, size]
  | .cmd _ _ _ _ => by simp [need, size]
  | .seq cs _ => by have := needL_le_sizeL cs; simp only [need, size]; omega
  | .alt cs _ => by have := needL_le_sizeL cs; simp only [need, size]; omega
  | .fb cs _ => by have := needL_le_sizeL cs; simp only [need, size]; omega
  | .opt c _ => by have := need_le_size c; simp only [need, size]; omega
  | .many1 c _ => by have := need_le_size c; simp only [need, size]; omega
  | .dd c _ _ => by have := need_le_size c; simp only [need, size]; omega
  | .sub c _ _ => by have := need_le_size c; simp only [need, size]; omega
theorem needL_le_sizeL : ∀ es : ExprL, needL es ≤ 10 * sizeL es
  | .nil => by simp [needL, sizeL]
  | .cons e es => by
    have := need_le_size e; have := needL_le_sizeL es; simp only [needL, sizeL]; omega
end

/-- the sharper measure is below the one of `Proofs/Ladder.lean` -/
theorem need_le_fuelNeeded (e : Expr) : need e ≤ fuelNeeded e := need_le_size e

/-! ### statements: the fragment, the layout, the printer -/

/-- the same statement with every source location erased -/
def _root_.Complgen.Stmt.eraseSpans : Stmt → Stmt
  | .call n _ e => .call n default e.eraseSpans
  | .defn n _ none e => .defn n default none e.eraseSpans
  | .defn n _ (some (sh, _)) e => .defn n default (some (sh, default)) e.eraseSpans

/-- the expression of a statement -/
def _root_.Complgen.Stmt.expr : Stmt → Expr
  | .call _ _ e => e
  | .defn _ _ _ e => e

def _root_.Complgen.Stmt.isCall : Stmt → Bool
  | .call _ _ _ => true
  | .defn _ _ _ _ => false

/-- the statements of the fragment: the name of a command is a literal of regular characters that
does not begin with `#` (at the beginning of a statement the parser would read a comment); the name of
a nonterminal contains neither `>` nor `@` (`<A@B>` is the nonterminal `A` specialised for the shell
`B`), the name of a shell no `>`; the expression is in `NF` -/
def StmtNF : Stmt → Prop
  | .call n _ e => n.toList ≠ [] ∧ (∀ c ∈ n.toList, isRegular c = true) ∧ n.toList.head? ≠ some '#' ∧ NF e
  | .defn n _ none e => n.toList ≠ [] ∧ (∀ c ∈ n.toList, c ≠ '>' ∧ c ≠ '@') ∧ NF e
  | .defn n _ (some (sh, _)) e => n.toList ≠ [] ∧ (∀ c ∈ n.toList, c ≠ '>' ∧ c ≠ '@') ∧
      sh.toList ≠ [] ∧ (∀ c ∈ sh.toList, c ≠ '>') ∧ NF e

/-- the layout of a printed statement: `=` instead of `::=`; the strings after the name (of the command
or of the nonterminal), after the sign, inside the expression, before `;` (or before the end of the
file), after `;` -/
structure StmtLayout where
  eq : Bool
  name : List Char
  sign : List Char
  expr : Layout
  semi : List Char
  next : List Char

/-- an admissible layout of the statement `st`: blanks and closed comments everywhere; something that
does not begin with `#` between the name of a command and its expression; no `#` directly after the
expression -/
structure StmtLayout.Adm (L : StmtLayout) (st : Stmt) : Prop where
  name : IsLayout L.name
  nameCall : st.isCall = true → L.name ≠ [] ∧ ∀ r, L.name ≠ '#' :: r
  sign : IsLayout L.sign
  expr : L.expr.Adm
  semi : IsLayoutW L.semi
  next : IsLayout L.next

def signText (b : Bool) : List Char := if b then ['='] else [':', ':', '=']

/-- what ends a statement: `;` and what follows it, or the end of the file -/
def endText (semi : Bool) (r : List Char) : List Char := if semi then ';' :: r else []

/-- a statement without its end -/
def ppBodyL (L : StmtLayout) : Stmt → List Char
  | .call n _ e => n.toList ++ L.name ++ ppL L.expr 0 e
  | .defn n _ none e => '<' :: n.toList ++ '>' :: L.name ++ signText L.eq ++ L.sign ++ ppL L.expr 0 e
  | .defn n _ (some (sh, _)) e =>
    '<' :: n.toList ++ '@' :: sh.toList ++ '>' :: L.name ++ signText L.eq ++ L.sign ++ ppL L.expr 0 e

/-- a statement with the layout `L`; `semi = false`: the last statement of a file, without `;` -/
def ppStmtL (L : StmtLayout) (semi : Bool) (st : Stmt) : List Char :=
  ppBodyL L st ++ L.semi ++ endText semi L.next

/-! ### the parts of a statement -/

theorem NBHead_endText (semi : Bool) (r : List Char) : NBHead (endText semi r) := by
  cases semi
  · exact NBHead_nil
  · exact NBHead_cons _ _ (by decide)

theorem Follows_endText (l : List Char) (hl : IsLayoutW l) (semi : Bool) (r : List Char) :
    Follows (l ++ endText semi r) := by
  cases semi
  · refine Follows_blanks _ (hl.stop (.inl rfl)) (.inl ?_)
    exact afterBlanks_layout_nb l [] hl.1 NBHead_nil
  · exact FCont_layout_close l ';' r hl (by decide) (by decide) (by decide)

theorem endOfStatement_endText (s : PState) (semi : Bool) (r : List Char) (hs : s.rest = endText semi r) :
    endOfStatement s = some (s.adv semi.toNat) := by
  unfold endOfStatement
  cases semi
  · simp only [endText, Bool.false_eq_true, if_false] at hs
    rw [hs]; simp [adv_zero]
  · simp only [endText, if_true] at hs
    rw [hs]; simp

theorem endText_rest (s : PState) (semi : Bool) (r : List Char) (hs : s.rest = endText semi r) :
    (s.adv semi.toNat).rest = if semi then r else [] := by
  cases semi
  · simp only [endText, Bool.false_eq_true, if_false] at hs
    simp [adv_zero, hs]
  · simp only [endText, if_true] at hs
    rw [adv_rest', hs]; rfl

/-- the expression of a statement and its end: the ladder reads the expression, `multiblanks0` the
layout before `;`, `end_of_statement` the `;` if there is one -/
theorem exprEnd_ok (e : Expr) (hnf : NF e) (lay : Layout) (adm : lay.Adm) (l : List Char) (hl : IsLayoutW l)
    (semi : Bool) (r : List Char) (s : PState) (hs : s.rest = ppL lay 0 e ++ (l ++ endText semi r))
    (fuel : Nat) (hf : need e ≤ fuel) :
    ∃ e', fallback fuel s = some (s.adv (ppL lay 0 e).length, e') ∧ e'.eraseSpans = e.eraseSpans ∧
      endOfStatement (mb0 (s.adv (ppL lay 0 e).length)) =
        some (s.adv ((ppL lay 0 e).length + l.length + semi.toNat)) := by
  obtain ⟨e', he', hE⟩ := fallback_roundtrip_need e hnf lay adm _ (Follows_endText l hl semi r) s hs fuel hf
  have hr3 := adv_rest_append s _ _ hs
  have hmb0 := mb0_layout _ l _ hl.1 (NBHead_endText semi r) hr3
  have hr4 := adv_rest_append _ l _ hr3
  refine ⟨e', he', hE, ?_⟩
  rw [hmb0, endOfStatement_endText _ semi r hr4, adv_add', adv_add', Nat.add_assoc]

theorem terminal_name (n rest : List Char) (s : PState) (hn : n ≠ []) (hreg : ∀ c ∈ n, isRegular c = true)
    (hrest : StopHead rest) (hs : s.rest = n ++ rest) :
    terminal s = some (s.adv n.length, String.ofList n) := by
  rw [terminal_eq_dec, hs, dec'_regular_run n rest hreg, hrest.dec]
  have : n.isEmpty = false := by cases n with | nil => exact absurd rfl hn | cons _ _ => rfl
  simp [this]

theorem isNot_ok (stop run t : List Char) (s : PState) (hne : run ≠ [])
    (hrun : ∀ c ∈ run, stop.contains c = false)
    (ht : t = [] ∨ ∃ x t', t = x :: t' ∧ stop.contains x = true) (hs : s.rest = run ++ t) :
    isNot stop s = some (s.adv run.length, run) := by
  have h : s.rest.takeWhile (fun c => !stop.contains c) = run := by
    rw [hs]
    refine takeWhile_run _ run t (fun c hc => by show (!stop.contains c) = true; rw [hrun c hc]; rfl) ?_
    rcases ht with rfl | ⟨x, t', rfl, hx⟩
    · exact .inl rfl
    · exact .inr ⟨x, t', rfl, by show (!stop.contains x) = false; rw [hx]; rfl⟩
  unfold isNot
  simp only [h]
  cases run with
  | nil => exact absurd rfl hne
  | cons _ _ => simp

theorem sign_ok (b : Bool) (s : PState) (r : List Char) (hs : s.rest = signText b ++ r) :
    ((tag? "::=" s).orElse fun _ => tag? "=" s) = some (s.adv (signText b).length) := by
  have e1 : "::=".toList = [':', ':', '='] := by rfl
  have e2 : "=".toList = ['='] := by rfl
  cases b
  · simp only [signText, Bool.false_eq_true, if_false] at hs ⊢
    rw [tag?_some "::=" 3 (by decide) s (by rw [e1, hs]; simp [List.isPrefixOf])]
    rfl
  · simp only [signText, if_true] at hs ⊢
    rw [tag?_none "::=" s (by rw [e1, hs]; simp [List.isPrefixOf]),
      tag?_some "=" 1 (by decide) s (by rw [e2, hs]; simp [List.isPrefixOf])]
    rfl

theorem NBHead_signText (b : Bool) (r : List Char) : NBHead (signText b ++ r) := by
  cases b <;> exact NBHead_cons _ _ (by decide)

/-! ### `call_variant` -/

theorem callVariant_ok (n : List Char) (hn : n ≠ []) (hreg : ∀ c ∈ n, isRegular c = true)
    (l1 : List Char) (hl1 : IsLayoutW l1) (hne : l1 ≠ []) (e : Expr) (hnf : NF e) (lay : Layout)
    (adm : lay.Adm) (l2 : List Char) (hl2 : IsLayoutW l2) (semi : Bool) (r : List Char) (s : PState)
    (hs : s.rest = n ++ (l1 ++ (ppL lay 0 e ++ (l2 ++ endText semi r)))) (fuel : Nat) (hf : need e ≤ fuel) :
    ∃ sp e', callVariant fuel s =
        some (s.adv (n.length + l1.length + (ppL lay 0 e).length + l2.length + semi.toNat),
          .call (String.ofList n) sp e') ∧ e'.eraseSpans = e.eraseSpans := by
  have hstop : StopHead (l1 ++ (ppL lay 0 e ++ (l2 ++ endText semi r))) := by
    cases l1 with
    | nil => exact absurd rfl hne
    | cons c cs => exact .inr ⟨c, _, rfl, blank_stop hl1.head⟩
  have hterm := terminal_name n _ s hn hreg hstop hs
  have hr1 := adv_rest_append s n _ hs
  have hmb1 := mb1_layout_some _ l1 _ hl1.1 hne ((starter_ppL e hnf lay adm 0).nb _) hr1
  have hr2 := adv_rest_append _ l1 _ hr1
  obtain ⟨e', he', hE, hend⟩ := exprEnd_ok e hnf lay adm l2 hl2 semi r _ hr2 fuel hf
  refine ⟨fromRange s (s.adv n.length), e', ?_, hE⟩
  unfold callVariant
  simp only [hterm, hmb1, he', hend, Option.bind_eq_bind, Option.bind_some]
  simp only [adv_add']
  congr 3
  omega

theorem callVariant_none (fuel : Nat) (s : PState) (r : List Char) (hs : s.rest = '<' :: r) :
    callVariant fuel s = none := by
  have : terminal s = none :=
    terminal_none s (by rw [hs]; exact dec'_other '<' r (by decide) (by decide) (by decide))
  unfold callVariant
  simp [this]

/-! ### `nonterm_def_statement` -/

theorem nontermSpec_none (n rest : List Char) (s : PState) (hn : n ≠ [])
    (hgt : ∀ c ∈ n, c ≠ '>' ∧ c ≠ '@') (hs : s.rest = '<' :: n ++ '>' :: rest) :
    nontermSpecialization s = none := by
  have h1 := char?_some '<' s _ hs
  have hr1 : (s.adv 1).rest = n ++ '>' :: rest := by rw [adv_rest', hs]; rfl
  have h2 := isNot_ok ['>', '@'] n ('>' :: rest) (s.adv 1) hn
    (fun c hc => by simp [(hgt c hc).1, (hgt c hc).2])
    (.inr ⟨'>', rest, rfl, by decide⟩) hr1
  have hr2 := adv_rest_append _ n _ hr1
  have h3 := char?_none '@' ((s.adv 1).adv n.length) (by rw [hr2]; intro r e; cases e)
  unfold nontermSpecialization
  simp only [h1, h2, h3, Option.bind_eq_bind, Option.bind_some, Option.bind_none]

theorem nontermSpec_some (n sh rest : List Char) (s : PState) (hn : n ≠ [])
    (hgt : ∀ c ∈ n, c ≠ '>' ∧ c ≠ '@') (hsh : sh ≠ []) (hgt' : ∀ c ∈ sh, c ≠ '>')
    (hs : s.rest = '<' :: n ++ '@' :: sh ++ '>' :: rest) :
    ∃ sp shsp, nontermSpecialization s =
      some (s.adv (n.length + sh.length + 3), String.ofList n, sp, String.ofList sh, shsp) := by
  have hs' : s.rest = '<' :: (n ++ '@' :: (sh ++ '>' :: rest)) := by rw [hs]; simp
  have h1 := char?_some '<' s _ hs'
  have hr1 : (s.adv 1).rest = n ++ '@' :: (sh ++ '>' :: rest) := by rw [adv_rest', hs']; rfl
  have h2 := isNot_ok ['>', '@'] n _ (s.adv 1) hn
    (fun c hc => by simp [(hgt c hc).1, (hgt c hc).2])
    (.inr ⟨'@', _, rfl, by decide⟩) hr1
  have hr2 := adv_rest_append _ n _ hr1
  have h3 := char?_some '@' _ _ hr2
  have hr3 : (((s.adv 1).adv n.length).adv 1).rest = sh ++ '>' :: rest := by rw [adv_rest', hr2]; rfl
  have h4 := isNot_ok ['>'] sh _ _ hsh (fun c hc => by simp [hgt' c hc]) (.inr ⟨'>', rest, rfl, by decide⟩) hr3
  have hr4 := adv_rest_append _ sh _ hr3
  have h5 := char?_some '>' _ _ hr4
  have hadv : ((((s.adv 1).adv n.length).adv 1).adv sh.length).adv 1 = s.adv (n.length + sh.length + 3) := by
    simp only [adv_add']; congr 1; omega
  refine ⟨fromRange s (s.adv (n.length + sh.length + 3)), fromRange (((s.adv 1).adv n.length).adv 1)
    ((((s.adv 1).adv n.length).adv 1).adv sh.length), ?_⟩
  unfold nontermSpecialization
  simp only [h1, h2, h3, h4, h5, Option.bind_eq_bind, Option.bind_some, hadv]

/-- the name of a definition as printed: `<NAME>` or `<NAME@SHELL>` -/
def headText (n : String) : Option (String × Span) → List Char
  | none => '<' :: n.toList ++ ['>']
  | some (sh, _) => '<' :: n.toList ++ '@' :: sh.toList ++ ['>']

/-- the first step of `nonterm_def_statement`: `alt((nonterm_specialization, nonterm))` -/
def defHead (s : PState) : Option (PState × String × Span × Option (String × Span)) :=
  match nontermSpecialization s with
  | some (s1, n, sp, sh, shsp) => some (s1, n, sp, some (sh, shsp))
  | none =>
    match nonterm s with
    | some (s1, n, sp) => some (s1, n, sp, none)
    | none => none

theorem nontermDefStatement_eq (fuel : Nat) (s : PState) : nontermDefStatement fuel s =
    (defHead s).bind fun (s1, name, sp, shell) =>
      (((tag? "::=" (mb0 s1)).orElse fun _ => tag? "=" (mb0 s1))).bind fun s3 =>
        (fallback fuel (mb0 s3)).bind fun (s4, e) =>
          (endOfStatement (mb0 s4)).bind fun s5 => some (s5, .defn name sp shell e) := by
  unfold nontermDefStatement defHead
  cases nontermSpecialization s with
  | some p => rfl
  | none =>
    cases nonterm s with
    | some q => rfl
    | none => rfl

theorem defHead_ok (n : String) (shell : Option (String × Span)) (rest : List Char) (s : PState)
    (hn : n.toList ≠ []) (hgt : ∀ c ∈ n.toList, c ≠ '>' ∧ c ≠ '@')
    (hsh : ∀ sh x, shell = some (sh, x) → sh.toList ≠ [] ∧ ∀ c ∈ sh.toList, c ≠ '>')
    (hs : s.rest = headText n shell ++ rest) :
    ∃ sp shell', defHead s = some (s.adv (headText n shell).length, n, sp, shell') ∧
      shell'.map (fun p => (p.1, (default : Span))) = shell.map (fun p => (p.1, (default : Span))) := by
  cases shell with
  | none =>
    have hs' : s.rest = '<' :: n.toList ++ '>' :: rest := by rw [hs]; simp [headText]
    have h1 := nontermSpec_none n.toList rest s hn hgt hs'
    obtain ⟨sp, h2⟩ := nonterm_ok n.toList rest s hn (fun c hc => (hgt c hc).1) hs'
    refine ⟨sp, none, ?_, rfl⟩
    unfold defHead
    rw [h1, h2, String.ofList_toList]
    simp [headText]
  | some p =>
    obtain ⟨sh, x⟩ := p
    obtain ⟨h1, h2⟩ := hsh sh x rfl
    have hs' : s.rest = '<' :: n.toList ++ '@' :: sh.toList ++ '>' :: rest := by rw [hs]; simp [headText]
    obtain ⟨sp, shsp, h⟩ := nontermSpec_some n.toList sh.toList rest s hn hgt h1 h2 hs'
    refine ⟨sp, some (sh, shsp), ?_, rfl⟩
    unfold defHead
    rw [h, String.ofList_toList, String.ofList_toList]
    simp only [headText, List.length_cons, List.length_append, List.length_nil]
    congr 3
    omega

theorem nontermDef_ok (n : String) (shell : Option (String × Span)) (hn : n.toList ≠ [])
    (hgt : ∀ c ∈ n.toList, c ≠ '>' ∧ c ≠ '@')
    (hsh : ∀ sh x, shell = some (sh, x) → sh.toList ≠ [] ∧ ∀ c ∈ sh.toList, c ≠ '>')
    (l0 : List Char) (hl0 : IsLayout l0) (b : Bool) (l1 : List Char) (hl1 : IsLayout l1)
    (e : Expr) (hnf : NF e) (lay : Layout) (adm : lay.Adm) (l2 : List Char) (hl2 : IsLayoutW l2)
    (semi : Bool) (r : List Char) (s : PState)
    (hs : s.rest = headText n shell ++ (l0 ++ (signText b ++ (l1 ++ (ppL lay 0 e ++ (l2 ++ endText semi r))))))
    (fuel : Nat) (hf : need e ≤ fuel) :
    ∃ sp shell' e', nontermDefStatement fuel s =
        some (s.adv ((headText n shell).length + l0.length + (signText b).length + l1.length +
            (ppL lay 0 e).length + l2.length + semi.toNat), .defn n sp shell' e') ∧
      shell'.map (fun p => (p.1, (default : Span))) = shell.map (fun p => (p.1, (default : Span))) ∧
      e'.eraseSpans = e.eraseSpans := by
  obtain ⟨sp, shell', hhead, hshell⟩ := defHead_ok n shell _ s hn hgt hsh hs
  have hr1 := adv_rest_append s _ _ hs
  have hm1 := mb0_layout _ l0 _ hl0 (NBHead_signText b _) hr1
  have hr2 := adv_rest_append _ l0 _ hr1
  have hsign := sign_ok b _ _ hr2
  have hr3 := adv_rest_append _ (signText b) _ hr2
  have hm2 := mb0_layout _ l1 _ hl1 ((starter_ppL e hnf lay adm 0).nb _) hr3
  have hr4 := adv_rest_append _ l1 _ hr3
  obtain ⟨e', he', hE, hend⟩ := exprEnd_ok e hnf lay adm l2 hl2 semi r _ hr4 fuel hf
  refine ⟨sp, shell', e', ?_, hshell, hE⟩
  rw [nontermDefStatement_eq, hhead]
  simp only [Option.bind_some, hm1, hsign, hm2, he', hend]
  simp only [adv_add']
  congr 3
  omega

/-! ### `statement` -/

theorem endText_append (semi : Bool) (r rest : List Char) (h : semi = false → rest = []) :
    endText semi r ++ rest = endText semi (r ++ rest) := by
  cases semi
  · simp [endText, h rfl]
  · simp [endText]

/-- `alt((call_variant, nonterm_def_statement))` on a printed statement -/
theorem variant_ok (st : Stmt) (hst : StmtNF st) (L : StmtLayout) (adm : L.Adm st) (semi : Bool)
    (r : List Char) (s : PState) (hs : s.rest = ppBodyL L st ++ (L.semi ++ endText semi r))
    (fuel : Nat) (hf : need st.expr ≤ fuel) :
    ∃ st', ((callVariant fuel s).orElse fun _ => nontermDefStatement fuel s) =
        some (s.adv ((ppBodyL L st).length + L.semi.length + semi.toNat), st') ∧
      st'.eraseSpans = st.eraseSpans := by
  cases st with
  | call n sp e =>
    simp only [StmtNF] at hst
    obtain ⟨h1, h2, _, hnf⟩ := hst
    have hcall := adm.nameCall rfl
    have hs' : s.rest = n.toList ++ (L.name ++ (ppL L.expr 0 e ++ (L.semi ++ endText semi r))) := by
      rw [hs]; simp [ppBodyL]
    obtain ⟨sp', e', h, hE⟩ := callVariant_ok n.toList h1 h2 L.name ⟨adm.name, hcall.2⟩ hcall.1 e hnf L.expr
      adm.expr L.semi adm.semi semi r s hs' fuel hf
    refine ⟨.call (String.ofList n.toList) sp' e', ?_, ?_⟩
    · rw [h]
      simp only [Option.orElse, ppBodyL, List.length_append]
    · rw [String.ofList_toList]
      simp only [Stmt.eraseSpans, hE]
  | defn n sp shell e =>
    have hparts : n.toList ≠ [] ∧ (∀ c ∈ n.toList, c ≠ '>' ∧ c ≠ '@') ∧
        (∀ sh x, shell = some (sh, x) → sh.toList ≠ [] ∧ ∀ c ∈ sh.toList, c ≠ '>') ∧ NF e := by
      cases shell with
      | none =>
        simp only [StmtNF] at hst
        exact ⟨hst.1, hst.2.1, fun _ _ h => (by cases h), hst.2.2⟩
      | some p =>
        obtain ⟨sh, x⟩ := p
        simp only [StmtNF] at hst
        exact ⟨hst.1, hst.2.1, fun _ _ h => (by cases h; exact ⟨hst.2.2.1, hst.2.2.2.1⟩), hst.2.2.2.2⟩
    obtain ⟨h1, h2, h3, hnf⟩ := hparts
    have hbody : ppBodyL L (.defn n sp shell e) =
        headText n shell ++ (L.name ++ (signText L.eq ++ (L.sign ++ ppL L.expr 0 e))) := by
      cases shell with
      | none => simp [ppBodyL, headText]
      | some p => obtain ⟨sh, x⟩ := p; simp [ppBodyL, headText]
    have hs' : s.rest = headText n shell ++ (L.name ++ (signText L.eq ++ (L.sign ++
        (ppL L.expr 0 e ++ (L.semi ++ endText semi r))))) := by
      rw [hs, hbody]; simp
    have hlt : ∃ r', s.rest = '<' :: r' := by
      rw [hs']; cases shell with
      | none => exact ⟨_, rfl⟩
      | some p => exact ⟨_, rfl⟩
    obtain ⟨r', hr'⟩ := hlt
    obtain ⟨sp', shell', e', h, hsh, hE⟩ := nontermDef_ok n shell h1 h2 h3 L.name adm.name L.eq L.sign adm.sign
      e hnf L.expr adm.expr L.semi adm.semi semi r s hs' fuel hf
    refine ⟨.defn n sp' shell' e', ?_, ?_⟩
    · rw [callVariant_none fuel s r' hr', h, hbody]
      simp only [Option.orElse, List.length_append]
      congr 3
      omega
    · cases shell with
      | none =>
        cases shell' with
        | none => simp only [Stmt.eraseSpans, hE]
        | some q => simp at hsh
      | some p =>
        obtain ⟨sh, x⟩ := p
        cases shell' with
        | none => simp at hsh
        | some q =>
          obtain ⟨sh', x'⟩ := q
          simp only [Option.map_some, Option.some.injEq, Prod.mk.injEq, and_true] at hsh
          subst hsh
          simp only [Stmt.eraseSpans, hE]

/-- **`statement` reads back a printed statement**: the statement `st` of the fragment printed with the
admissible layout `L` (with its `;` and the layout after it, or, `semi = false`, as the last statement of
a file that does not end in `;`), followed by a text `rest` at which `multiblanks0` stops (the end of
the file, or a character that is neither a blank nor `#`: the next statement), is parsed by `statement`
as `st` up to spans; exactly the printed text, with the layout that follows `;`, is consumed. -/
theorem statement_roundtrip_layout (st : Stmt) (hst : StmtNF st) (L : StmtLayout) (adm : L.Adm st)
    (semi : Bool) (rest : List Char) (hrest : NBHead rest) (hsemi : semi = false → rest = [])
    (s : PState) (hs : s.rest = ppStmtL L semi st ++ rest) (fuel : Nat) (hf : need st.expr ≤ fuel) :
    ∃ st', statement fuel s = some (s.adv (ppStmtL L semi st).length, st') ∧
      st'.eraseSpans = st.eraseSpans := by
  have hs' : s.rest = ppBodyL L st ++ (L.semi ++ endText semi (L.next ++ rest)) := by
    rw [hs, ← endText_append semi L.next rest hsemi]; simp [ppStmtL]
  obtain ⟨st', hv, hE⟩ := variant_ok st hst L adm semi (L.next ++ rest) s hs' fuel hf
  have hs2 : s.rest = (ppBodyL L st ++ L.semi) ++ endText semi (L.next ++ rest) := by rw [hs']; simp
  have hr1 := adv_rest_append s _ _ hs2
  have hr2 := endText_rest _ semi _ hr1
  rw [adv_add', List.length_append] at hr2
  refine ⟨st', ?_, hE⟩
  unfold statement
  rw [hv]
  simp only
  cases semi
  · simp only [Bool.false_eq_true, if_false] at hr2
    rw [mb0_nil _ hr2]
    simp [ppStmtL, endText]
  · simp only [if_true] at hr2
    rw [mb0_layout _ L.next rest adm.next hrest hr2, adv_add']
    simp only [ppStmtL, endText, if_true, List.length_append, List.length_cons, Bool.toNat_true]
    congr 3
    omega

/-! ### whole files -/

/-- the layout of a printed file: the string at the beginning of the file, the layout of the `i`-th
statement, whether `;` stands after the last statement -/
structure GLayout where
  lead : List Char
  stmt : Nat → StmtLayout
  semi : Bool

/-- an admissible layout of the grammar `g` -/
structure GLayout.Adm (G : GLayout) (g : Grammar) : Prop where
  lead : IsLayout G.lead
  stmt : ∀ i st, g[i]? = some st → (G.stmt i).Adm st

/-- the statements one after the other; every statement but the last has its `;`, the last one if `fin` -/
def ppStmtsL (fin : Bool) : (Nat → StmtLayout) → List Stmt → List Char
  | _, [] => []
  | L, st :: sts => ppStmtL (L 0) (fin || !sts.isEmpty) st ++ ppStmtsL fin (fun i => L (i + 1)) sts

/-- the printer of grammars with layout -/
def ppGrammarL (G : GLayout) (g : Grammar) : List Char := G.lead ++ ppStmtsL G.semi G.stmt g

/-- a printed statement begins with a character at which `multiblanks0` stops -/
theorem ppBodyL_head (L : StmtLayout) (st : Stmt) (hst : StmtNF st) :
    ∃ c r, ppBodyL L st = c :: r ∧ notBlank c = true := by
  cases st with
  | call n sp e =>
    simp only [StmtNF] at hst
    obtain ⟨h1, h2, h3, _⟩ := hst
    cases hn : n.toList with
    | nil => exact absurd hn h1
    | cons x t =>
      rw [hn] at h2 h3
      refine ⟨x, t ++ L.name ++ ppL L.expr 0 e, by simp [ppBodyL, hn], ?_⟩
      exact (starter_spec (regular_starter (h2 x (by simp)) (by simpa using h3))).1
  | defn n sp shell e =>
    cases shell with
    | none => exact ⟨'<', _, rfl, by decide⟩
    | some p => obtain ⟨sh, x⟩ := p; exact ⟨'<', _, rfl, by decide⟩

theorem NBHead_ppStmtL (L : StmtLayout) (semi : Bool) (st : Stmt) (hst : StmtNF st) (X : List Char) :
    NBHead (ppStmtL L semi st ++ X) := by
  obtain ⟨c, r, h, hc⟩ := ppBodyL_head L st hst
  unfold ppStmtL
  rw [h]
  exact NBHead_cons c _ hc

theorem NBHead_ppStmtsL (fin : Bool) (L : Nat → StmtLayout) (g : List Stmt) (hg : ∀ st ∈ g, StmtNF st) :
    NBHead (ppStmtsL fin L g) := by
  cases g with
  | nil => exact NBHead_nil
  | cons st sts => exact NBHead_ppStmtL _ _ st (hg st (by simp)) _

theorem length_ppStmtL_pos (L : StmtLayout) (semi : Bool) (st : Stmt) (hst : StmtNF st) :
    1 ≤ (ppStmtL L semi st).length := by
  obtain ⟨c, r, h, _⟩ := ppBodyL_head L st hst
  simp only [ppStmtL, h, List.length_append, List.length_cons]; omega

theorem length_expr_le (L : StmtLayout) (semi : Bool) (st : Stmt) :
    (ppL L.expr 0 st.expr).length ≤ (ppStmtL L semi st).length := by
  have : (ppL L.expr 0 st.expr).length ≤ (ppBodyL L st).length := by
    cases st with
    | call n sp e => simp only [ppBodyL, Stmt.expr, List.length_append]; omega
    | defn n sp shell e =>
      cases shell with
      | none => simp only [ppBodyL, Stmt.expr, List.length_append, List.length_cons]; omega
      | some p => obtain ⟨sh, x⟩ := p; simp only [ppBodyL, Stmt.expr, List.length_append, List.length_cons]; omega
  simp only [ppStmtL, List.length_append]; omega

theorem adm_tail {L : Nat → StmtLayout} {st : Stmt} {sts : List Stmt}
    (h : ∀ i x, (st :: sts)[i]? = some x → (L i).Adm x) :
    ∀ i x, sts[i]? = some x → (L (i + 1)).Adm x :=
  fun i x hx => h (i + 1) x (by simpa using hx)

/-- ten units of fuel for every character of the file cover every expression of the file -/
theorem need_le_stmts (fin : Bool) : ∀ (g : List Stmt) (L : Nat → StmtLayout), (∀ st ∈ g, StmtNF st) →
    (∀ i st, g[i]? = some st → (L i).Adm st) →
    ∀ st ∈ g, need st.expr + 4 ≤ 10 * (ppStmtsL fin L g).length
  | [], _, _, _, st, h => by cases h
  | x :: xs, L, hg, hadm, st, h => by
    simp only [ppStmtsL, List.length_append]
    rcases List.mem_cons.mp h with rfl | h'
    · have hnf : NF st.expr := by
        have := hg st (by simp)
        cases st with
        | call n sp e => simp only [StmtNF] at this; exact this.2.2.2
        | defn n sp shell e =>
          cases shell with
          | none => simp only [StmtNF] at this; exact this.2.2
          | some p => obtain ⟨sh, y⟩ := p; simp only [StmtNF] at this; exact this.2.2.2.2
      have h1 := need_le_length st.expr hnf (L 0).expr (hadm 0 st (by simp)).expr 0
      have h2 := length_expr_le (L 0) (fin || !xs.isEmpty) st
      omega
    · have := need_le_stmts fin xs (fun i => L (i + 1)) (fun y hy => hg y (by simp [hy])) (adm_tail hadm) st h'
      omega

theorem length_le_ppStmtsL (fin : Bool) : ∀ (g : List Stmt) (L : Nat → StmtLayout), (∀ st ∈ g, StmtNF st) →
    g.length ≤ (ppStmtsL fin L g).length
  | [], _, _ => by simp
  | x :: xs, L, hg => by
    have h1 := length_ppStmtL_pos (L 0) (fin || !xs.isEmpty) x (hg x (by simp))
    have h2 := length_le_ppStmtsL fin xs (fun i => L (i + 1)) (fun y hy => hg y (by simp [hy]))
    simp only [ppStmtsL, List.length_append, List.length_cons]; omega

theorem statements_succ (n fuel : Nat) (s : PState) (acc : List Stmt) : statements (n + 1) fuel s acc =
    match statement fuel s with
    | some (s', st) =>
      if s'.rest.length < s.rest.length then statements n fuel s' (acc ++ [st]) else (s, acc)
    | none => (s, acc) := by
  rw [statements]
  cases statement fuel s with
  | none => rfl
  | some p => rfl

theorem statement_nil (fuel : Nat) (s : PState) (hs : s.rest = []) : statement fuel s = none := by
  have h1 : terminal s = none := terminal_none s (by rw [hs]; rfl)
  have h2 : char? '<' s = none := char?_none _ s (by rw [hs]; intro r e; cases e)
  have h3 : callVariant fuel s = none := by unfold callVariant; simp [h1]
  have h4 : defHead s = none := by
    unfold defHead nontermSpecialization nonterm
    simp [h2]
  unfold statement
  rw [h3, nontermDefStatement_eq, h4]
  rfl

theorem statements_end (n fuel : Nat) (s : PState) (acc : List Stmt) (hs : s.rest = []) :
    statements n fuel s acc = (s, acc) := by
  cases n with
  | zero => rw [statements]
  | succ n => rw [statements_succ, statement_nil fuel s hs]

/-- `many0(statement)` reads back the printed statements -/
theorem statements_roundtrip (fin : Bool) : ∀ (g : List Stmt) (L : Nat → StmtLayout), (∀ st ∈ g, StmtNF st) →
    (∀ i st, g[i]? = some st → (L i).Adm st) → ∀ (n : Nat), g.length ≤ n →
    ∀ (fuel : Nat), (∀ st ∈ g, need st.expr ≤ fuel) → ∀ (s : PState), s.rest = ppStmtsL fin L g →
    ∀ acc : List Stmt, ∃ g', statements n fuel s acc = (s.adv (ppStmtsL fin L g).length, acc ++ g') ∧
      g'.map Stmt.eraseSpans = g.map Stmt.eraseSpans
  | [], L, _, _, n, _, fuel, _, s, hs, acc => by
    refine ⟨[], ?_, rfl⟩
    rw [statements_end n fuel s acc hs]
    simp [ppStmtsL, adv_zero]
  | x :: xs, L, hg, hadm, n, hn, fuel, hfuel, s, hs, acc => by
    obtain ⟨n, rfl⟩ : ∃ n', n = n' + 1 := ⟨n - 1, by simp at hn; omega⟩
    have hg' : ∀ st ∈ xs, StmtNF st := fun y hy => hg y (by simp [hy])
    have hs' : s.rest = ppStmtL (L 0) (fin || !xs.isEmpty) x ++ ppStmtsL fin (fun i => L (i + 1)) xs := by
      rw [hs]; rfl
    have hsemi : (fin || !xs.isEmpty) = false → ppStmtsL fin (fun i => L (i + 1)) xs = [] := by
      intro h
      cases xs with
      | nil => rfl
      | cons _ _ => simp at h
    obtain ⟨st', hst', hE⟩ := statement_roundtrip_layout x (hg x (by simp)) (L 0) (hadm 0 x (by simp))
      (fin || !xs.isEmpty) _ (NBHead_ppStmtsL fin _ xs hg') hsemi s hs' fuel (hfuel x (by simp))
    have hr := adv_rest_append s _ _ hs'
    obtain ⟨g', hg'', hE'⟩ := statements_roundtrip fin xs (fun i => L (i + 1)) hg' (adm_tail hadm) n
      (by simp at hn; omega) fuel (fun y hy => hfuel y (by simp [hy])) _ hr (acc ++ [st'])
    have hpos := length_ppStmtL_pos (L 0) (fin || !xs.isEmpty) x (hg x (by simp))
    have hlt : (s.adv (ppStmtL (L 0) (fin || !xs.isEmpty) x).length).rest.length < s.rest.length := by
      rw [hr, hs', List.length_append]; omega
    refine ⟨st' :: g', ?_, by simp [hE, hE']⟩
    rw [statements_succ, hst']
    simp only [hlt, if_true]
    rw [hg'', adv_add']
    simp [ppStmtsL]

/-- **`Grammar::parse` reads back a printed grammar, whatever the layout**: a grammar of the fragment
printed with any admissible layout is parsed as the same grammar up to spans. -/
theorem grammar_roundtrip_layout (g : Grammar) (hg : ∀ st ∈ g, StmtNF st) (G : GLayout) (adm : G.Adm g) :
    ∃ g', parse (ppGrammarL G g) = .ok g' ∧ g'.map Stmt.eraseSpans = g.map Stmt.eraseSpans := by
  have hnb := NBHead_ppStmtsL G.semi G.stmt g hg
  have hs0 : (PState.init (ppGrammarL G g)).rest = G.lead ++ ppStmtsL G.semi G.stmt g := rfl
  have hm0 := mb0_layout _ G.lead _ adm.lead hnb hs0
  have hr0 := adv_rest_append _ G.lead _ hs0
  have hlen : (ppGrammarL G g).length = G.lead.length + (ppStmtsL G.semi G.stmt g).length := by
    simp [ppGrammarL]
  have hfuel : ∀ st ∈ g, need st.expr ≤ fuelFor (ppGrammarL G g).length := by
    intro st hst
    have := need_le_stmts G.semi g G.stmt hg adm.stmt st hst
    unfold fuelFor; omega
  have hn : g.length ≤ (ppGrammarL G g).length + 1 := by
    have := length_le_ppStmtsL G.semi g G.stmt hg
    omega
  obtain ⟨g', h, hE⟩ := statements_roundtrip G.semi g G.stmt hg adm.stmt _ hn _ hfuel _ hr0 []
  have hr1 := adv_rest_append _ (ppStmtsL G.semi G.stmt g) [] (by rw [hr0]; simp)
  refine ⟨g', ?_, hE⟩
  unfold parse
  simp only [hm0, h, List.nil_append]
  rw [mb0_nil _ hr1, hr1]
  rfl

/-- **The layout of a file does not matter**: two printed forms of one grammar, under two admissible
layouts, are parsed as grammars that differ in their spans only. -/
theorem grammar_layout_irrelevant (g : Grammar) (hg : ∀ st ∈ g, StmtNF st) (G₁ G₂ : GLayout)
    (adm₁ : G₁.Adm g) (adm₂ : G₂.Adm g) :
    ∃ g₁ g₂, parse (ppGrammarL G₁ g) = .ok g₁ ∧ parse (ppGrammarL G₂ g) = .ok g₂ ∧
      g₁.map Stmt.eraseSpans = g₂.map Stmt.eraseSpans := by
  obtain ⟨g₁, h₁, e₁⟩ := grammar_roundtrip_layout g hg G₁ adm₁
  obtain ⟨g₂, h₂, e₂⟩ := grammar_roundtrip_layout g hg G₂ adm₂
  exact ⟨g₁, g₂, h₁, h₂, e₁.trans e₂.symm⟩

/-! ### the plain printer -/

/-- a statement as the plain printer writes it: one blank after the name and around `::=`, the
expression printed by `pp`, `;` -/
def ppStmt : Stmt → List Char
  | .call n _ e => n.toList ++ ' ' :: pp 0 e ++ [';']
  | .defn n _ none e => '<' :: n.toList ++ '>' :: ' ' :: ':' :: ':' :: '=' :: ' ' :: pp 0 e ++ [';']
  | .defn n _ (some (sh, _)) e =>
    '<' :: n.toList ++ '@' :: sh.toList ++ '>' :: ' ' :: ':' :: ':' :: '=' :: ' ' :: pp 0 e ++ [';']

/-- the plain printer of grammars: the statements, separated by line feeds -/
def ppGrammar : Grammar → List Char
  | [] => []
  | st :: sts => ppStmt st ++ (if sts.isEmpty then [] else ['\n']) ++ ppGrammar sts

/-- the layout of `ppStmt`; `nl`: a line feed after `;` -/
def plainStmt (nl : Bool) : StmtLayout :=
  ⟨false, [' '], [' '], plainLayout, [], if nl then ['\n'] else []⟩

/-- the layout of `ppGrammar` for a grammar of `k` statements -/
def plainG (k : Nat) : GLayout := ⟨[], fun i => plainStmt (decide (i + 1 < k)), true⟩

theorem plainStmt_adm (nl : Bool) (st : Stmt) : (plainStmt nl).Adm st where
  name := by show IsLayout [' ']; decide
  nameCall := fun _ => ⟨by simp [plainStmt], fun r e => by cases e⟩
  sign := by show IsLayout [' ']; decide
  expr := plainLayout_adm
  semi := IsLayoutW.nil
  next := by cases nl <;> (simp only [plainStmt]; decide)

theorem plainG_adm (g : Grammar) : (plainG g.length).Adm g :=
  ⟨rfl, fun _ st _ => plainStmt_adm _ st⟩

theorem ppStmtL_plain (nl : Bool) (st : Stmt) :
    ppStmtL (plainStmt nl) true st = ppStmt st ++ (if nl then ['\n'] else []) := by
  cases st with
  | call n sp e => simp [ppStmtL, ppBodyL, ppStmt, plainStmt, endText, pp_eq_ppL]
  | defn n sp shell e =>
    cases shell with
    | none => simp [ppStmtL, ppBodyL, ppStmt, plainStmt, endText, signText, pp_eq_ppL]
    | some p => obtain ⟨sh, x⟩ := p; simp [ppStmtL, ppBodyL, ppStmt, plainStmt, endText, signText, pp_eq_ppL]

theorem ppStmtsL_plain : ∀ (g : List Stmt) (L : Nat → StmtLayout),
    (∀ i, L i = plainStmt (decide (i + 1 < g.length))) → ppStmtsL true L g = ppGrammar g
  | [], _, _ => rfl
  | st :: sts, L, h => by
    have ih := ppStmtsL_plain sts (fun i => L (i + 1)) (fun i => by rw [h (i + 1)]; simp)
    simp only [ppStmtsL, ppGrammar, ih, h 0, Bool.true_or, ppStmtL_plain]
    cases sts <;> simp

/-- **the plain printer is one of the layouts** -/
theorem ppGrammar_eq (g : Grammar) : ppGrammar g = ppGrammarL (plainG g.length) g := by
  simp only [ppGrammarL, plainG, List.nil_append]
  exact (ppStmtsL_plain g _ (fun _ => rfl)).symm

/-- **`statement` reads back a plainly printed statement** followed by a text at which `multiblanks0`
stops (instance of `statement_roundtrip_layout`; `need e ≤ fuelNeeded e` by `need_le_fuelNeeded`) -/
theorem statement_roundtrip (st : Stmt) (hst : StmtNF st) (rest : List Char) (hrest : NBHead rest)
    (s : PState) (hs : s.rest = ppStmt st ++ rest) (fuel : Nat) (hf : need st.expr ≤ fuel) :
    ∃ st', statement fuel s = some (s.adv (ppStmt st).length, st') ∧ st'.eraseSpans = st.eraseSpans := by
  have e := ppStmtL_plain false st
  simp only [Bool.false_eq_true, if_false, List.append_nil] at e
  rw [← e] at hs ⊢
  exact statement_roundtrip_layout st hst (plainStmt false) (plainStmt_adm false st) true rest hrest
    (fun h => by cases h) s hs fuel hf

/-- **`Grammar::parse` reads back what the plain printer writes**, up to spans -/
theorem grammar_roundtrip (g : Grammar) (hg : ∀ st ∈ g, StmtNF st) :
    ∃ g', parse (ppGrammar g) = .ok g' ∧ g'.map Stmt.eraseSpans = g.map Stmt.eraseSpans := by
  rw [ppGrammar_eq]
  exact grammar_roundtrip_layout g hg (plainG g.length) (plainG_adm g)

/-- any admissible layout of a grammar is read as its plain text is -/
theorem grammar_layout_vs_plain (g : Grammar) (hg : ∀ st ∈ g, StmtNF st) (G : GLayout) (adm : G.Adm g) :
    ∃ g₁ g₂, parse (ppGrammarL G g) = .ok g₁ ∧ parse (ppGrammar g) = .ok g₂ ∧
      g₁.map Stmt.eraseSpans = g₂.map Stmt.eraseSpans := by
  rw [ppGrammar_eq]
  exact grammar_layout_irrelevant g hg G (plainG g.length) adm (plainG_adm g)

/-! ### examples (the theorems are not vacuous) -/

/-- `cmd a <X>;` and `<X> ::= b | [c];` -/
def exGrammar : Grammar :=
  [.call "cmd" default (.seq (.cons (.term "a" none 0 default) (.cons (.nonterm "X" 0 default) .nil)) default),
   .defn "X" default none
     (.alt (.cons (.term "b" none 0 default) (.cons (.opt (.term "c" none 0 default) default) .nil)) default)]

theorem exGrammar_nf : ∀ st ∈ exGrammar, StmtNF st := by
  have e1 : "cmd".toList = ['c', 'm', 'd'] := by rfl
  have e2 : "a".toList = ['a'] := by rfl
  have e3 : "X".toList = ['X'] := by rfl
  have e4 : "b".toList = ['b'] := by rfl
  have e5 : "c".toList = ['c'] := by rfl
  intro st hst
  simp only [exGrammar, List.mem_cons, List.not_mem_nil, or_false] at hst
  rcases hst with rfl | rfl
  · simp only [StmtNF, NF, NFL, ExprL.length, e1, e2, e3]
    decide
  · simp only [StmtNF, NF, NFL, ExprL.length, e3, e4, e5]
    decide

example : ppGrammar exGrammar = "cmd a <X>;\n<X> ::= b | [c];".toList := by decide

/-- the plain text of the example is parsed as the example, up to spans -/
example : ∃ g', parse "cmd a <X>;\n<X> ::= b | [c];".toList = .ok g' ∧
    g'.map Stmt.eraseSpans = exGrammar.map Stmt.eraseSpans := by
  have h := grammar_roundtrip exGrammar exGrammar_nf
  rwa [show ppGrammar exGrammar = "cmd a <X>;\n<X> ::= b | [c];".toList by decide] at h

/-- a layout of a statement: a tab after the name, `=` for `::=`, a blank before `;`, a comment after it -/
def exStmtLayout : StmtLayout := ⟨true, ['\t'], [], plainLayout, [' '], "\n\n# next\n".toList⟩

theorem exStmtLayout_adm (st : Stmt) : exStmtLayout.Adm st where
  name := by show IsLayout ['\t']; decide
  nameCall := fun _ => by
    show (['\t'] : List Char) ≠ [] ∧ ∀ r, (['\t'] : List Char) ≠ '#' :: r
    exact ⟨by simp, fun r e => by cases e⟩
  sign := IsLayout.nil
  expr := plainLayout_adm
  semi := by
    show IsLayoutW [' ']
    exact ⟨by decide, fun r e => by cases e⟩
  next := by show IsLayout "\n\n# next\n".toList; decide

/-- a layout of the example: a comment at the beginning of the file, `exStmtLayout` for both statements,
no `;` at the end of the file -/
def exLayout : GLayout := ⟨"# example\n".toList, fun _ => exStmtLayout, false⟩

theorem exLayout_adm : exLayout.Adm exGrammar where
  lead := by show IsLayout "# example\n".toList; decide
  stmt := fun _ st _ => exStmtLayout_adm st

example : ppGrammarL exLayout exGrammar =
    "# example\ncmd\ta <X> ;\n\n# next\n<X>\t=b | [c] ".toList := by decide

example : ∃ g', parse "# example\ncmd\ta <X> ;\n\n# next\n<X>\t=b | [c] ".toList = .ok g' ∧
    g'.map Stmt.eraseSpans = exGrammar.map Stmt.eraseSpans := by
  have h := grammar_roundtrip_layout exGrammar exGrammar_nf exLayout exLayout_adm
  rwa [show ppGrammarL exLayout exGrammar =
    "# example\ncmd\ta <X> ;\n\n# next\n<X>\t=b | [c] ".toList by decide] at h

/-- `statement_roundtrip_layout` under the fuel bound of `Proofs/Ladder.lean` -/
theorem statement_roundtrip_layout_fuelNeeded (st : Stmt) (hst : StmtNF st) (L : StmtLayout) (adm : L.Adm st)
    (semi : Bool) (rest : List Char) (hrest : NBHead rest) (hsemi : semi = false → rest = [])
    (s : PState) (hs : s.rest = ppStmtL L semi st ++ rest) (fuel : Nat) (hf : fuelNeeded st.expr ≤ fuel) :
    ∃ st', statement fuel s = some (s.adv (ppStmtL L semi st).length, st') ∧
      st'.eraseSpans = st.eraseSpans :=
  statement_roundtrip_layout st hst L adm semi rest hrest hsemi s hs fuel
    (Nat.le_trans (need_le_fuelNeeded _) hf)

/-- why `need`: for `c a b | c d || a b | c d;` the bound `fuelNeeded` of `Proofs/Ladder.lean` exceeds the
fuel `Grammar::parse` provides, `need` does not -/
def exDeep : Expr :=
  let ab : Expr := .seq (.cons (.term "a" none 0 default) (.cons (.term "b" none 0 default) .nil)) default
  let cd : Expr := .seq (.cons (.term "c" none 0 default) (.cons (.term "d" none 0 default) .nil)) default
  let alt : Expr := .alt (.cons ab (.cons cd .nil)) default
  .fb (.cons alt (.cons alt .nil)) default

example : ppGrammar [.call "c" default exDeep] = "c a b | c d || a b | c d;".toList := by decide
example : fuelFor (ppGrammar [.call "c" default exDeep]).length < fuelNeeded exDeep := by decide
example : need exDeep ≤ fuelFor (ppGrammar [.call "c" default exDeep]).length := by decide

end Complgen.Parse
