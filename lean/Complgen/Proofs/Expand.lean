/-
C02 / C15: the dependency-ordered expansion of check.rs (`get_nonterminals_resolution_order` +
`resolve_nonterminals`) computes the fixpoint expansion of the specification (`Spec.expand`).
-/
import Complgen.Proofs.Warn
import Complgen.Proofs.Topo
import Complgen.Spec.Den
namespace Complgen.Check
open Complgen

mutual
/-- the fuel `Spec.expand` needs for the structure of an expression (not counting definitions) -/
def depth : Expr → Nat
  | .seq cs _ | .alt cs _ | .fb cs _ => depthL cs + 1
  | .opt c _ | .many1 c _ | .sub c _ _ | .dd c _ _ => depth c + 1
  | _ => 1
def depthL : ExprL → Nat
  | .nil => 0
  | .cons e es => max (depth e + 1) (depthL es)
end

/-- what the expansion loop has to have established about a name before an expression that refers to
it is expanded: the table holds the complete expansion of its definition -/
def Good (sh : Shell) (g : Grammar) (acc : AList (Span × Expr)) (H : Nat) (n : String) : Prop :=
  match Spec.pick sh g n with
  | .expr d => ∃ sp b, acc.get? n = some (sp, b) ∧ ∀ k, H ≤ k → Spec.expand sh g k (Spec.distr d none).1 = b
  | .anyWord => acc.get? n = none
  | .command _ _ => True

theorem expandL_nil (sh : Shell) (g : Grammar) (k : Nat) : Spec.expandL sh g k .nil = .nil := by
  cases k <;> simp [Spec.expandL]

mutual
theorem resolve_eq_expand (sh : Shell) (g : Grammar) (acc : AList (Span × Expr)) (H : Nat) :
    ∀ (e : Expr) (u : AList Span), NoDD e = true → (∀ n ∈ Spec.names e, Good sh g acc H n) →
      ∀ k, depth e + H ≤ k → Spec.expand sh g k e = (resolve acc (applyPick sh g e) u).1
  | .term t d l s, u, _, _, k, _ => by
    cases k <;> simp [Spec.expand, applyPick, resolve]
  | .cmd c a l s, u, _, _, k, _ => by
    cases k <;> simp [Spec.expand, applyPick, resolve]
  | .dd c d s, u, h, _, _, _ => by simp [NoDD] at h
  | .nonterm n l s, u, _, hg, k, hk => by
    have hgood := hg n (by simp [Spec.names])
    obtain ⟨k', rfl⟩ : ∃ k', k = k' + 1 := ⟨k - 1, by simp [depth] at hk; omega⟩
    unfold Good at hgood
    simp only [Spec.expand, applyPick]
    cases hp : Spec.pick sh g n with
    | command c a => simp [resolve]
    | anyWord =>
      rw [hp] at hgood
      simp [resolve, hgood]
    | expr d =>
      rw [hp] at hgood
      obtain ⟨sp, b, hget, hst⟩ := hgood
      simp only [resolve, hget]
      exact hst k' (by simp [depth] at hk; omega)
  | .sub c l s, u, h, hg, k, hk => by
    obtain ⟨k', rfl⟩ : ∃ k', k = k' + 1 := ⟨k - 1, by simp [depth] at hk; omega⟩
    have := resolve_eq_expand sh g acc H c u (by simpa [NoDD] using h) (by simpa [Spec.names] using hg) k'
      (by simp [depth] at hk; omega)
    simp [Spec.expand, applyPick, resolve, this]
  | .opt c s, u, h, hg, k, hk => by
    obtain ⟨k', rfl⟩ : ∃ k', k = k' + 1 := ⟨k - 1, by simp [depth] at hk; omega⟩
    have := resolve_eq_expand sh g acc H c u (by simpa [NoDD] using h) (by simpa [Spec.names] using hg) k'
      (by simp [depth] at hk; omega)
    simp [Spec.expand, applyPick, resolve, this]
  | .many1 c s, u, h, hg, k, hk => by
    obtain ⟨k', rfl⟩ : ∃ k', k = k' + 1 := ⟨k - 1, by simp [depth] at hk; omega⟩
    have := resolve_eq_expand sh g acc H c u (by simpa [NoDD] using h) (by simpa [Spec.names] using hg) k'
      (by simp [depth] at hk; omega)
    simp [Spec.expand, applyPick, resolve, this]
  | .seq cs s, u, h, hg, k, hk => by
    obtain ⟨k', rfl⟩ : ∃ k', k = k' + 1 := ⟨k - 1, by simp [depth] at hk; omega⟩
    have := resolveL_eq_expand sh g acc H cs u (by simpa [NoDD] using h) (by simpa [Spec.names] using hg) k'
      (by simp [depth] at hk; omega)
    simp [Spec.expand, applyPick, resolve, this]
  | .alt cs s, u, h, hg, k, hk => by
    obtain ⟨k', rfl⟩ : ∃ k', k = k' + 1 := ⟨k - 1, by simp [depth] at hk; omega⟩
    have := resolveL_eq_expand sh g acc H cs u (by simpa [NoDD] using h) (by simpa [Spec.names] using hg) k'
      (by simp [depth] at hk; omega)
    simp [Spec.expand, applyPick, resolve, this]
  | .fb cs s, u, h, hg, k, hk => by
    obtain ⟨k', rfl⟩ : ∃ k', k = k' + 1 := ⟨k - 1, by simp [depth] at hk; omega⟩
    have := resolveL_eq_expand sh g acc H cs u (by simpa [NoDD] using h) (by simpa [Spec.names] using hg) k'
      (by simp [depth] at hk; omega)
    simp [Spec.expand, applyPick, resolve, this]
theorem resolveL_eq_expand (sh : Shell) (g : Grammar) (acc : AList (Span × Expr)) (H : Nat) :
    ∀ (es : ExprL) (u : AList Span), NoDDL es = true → (∀ n ∈ Spec.namesL es, Good sh g acc H n) →
      ∀ k, depthL es + H ≤ k → Spec.expandL sh g k es = (resolveL acc (applyPickL sh g es) u).1
  | .nil, u, _, _, k, _ => by simp [expandL_nil, applyPickL, resolveL]
  | .cons e es, u, h, hg, k, hk => by
    simp only [NoDDL, Bool.and_eq_true] at h
    obtain ⟨k', rfl⟩ : ∃ k', k = k' + 1 := ⟨k - 1, by simp [depthL] at hk; omega⟩
    have h1 := resolve_eq_expand sh g acc H e u h.1
      (fun n hn => hg n (by simp [Spec.namesL, hn])) k' (by simp [depthL] at hk; omega)
    have h2 := resolveL_eq_expand sh g acc H es (resolve acc (applyPick sh g e) u).2 h.2
      (fun n hn => hg n (by simp [Spec.namesL, hn])) (k' + 1) (by simp [depthL] at hk; omega)
    simp [Spec.expandL, applyPickL, resolveL, h1, h2]
end


/-! ### the table of definitions the expansion loop starts from -/

def tableOf (sh : Shell) (g : Grammar) : AList (Span × Expr) :=
  (plainDefs g).map fun x => (x.1, (x.2.1, applyPick sh g (distribute x.2.2)))

/-- the definition of `m` is completely expanded in `acc`, for every fuel from `H` on -/
def Done (sh : Shell) (g : Grammar) (acc : AList (Span × Expr)) (H : Nat) (m : String) : Prop :=
  ∀ x, (plainDefs g).find? (·.1 == m) = some x →
    ∃ sp b, acc.get? m = some (sp, b) ∧ ∀ k, H ≤ k → Spec.expand sh g k (Spec.distr x.2.2 none).1 = b

def wOf (g : Grammar) (m : String) : Nat :=
  match (plainDefs g).find? (·.1 == m) with
  | some x => depth (distribute x.2.2) + 1
  | none => 0

def Hb (g : Grammar) (P : List String) : Nat := (P.map (wOf g)).sum

def depNames (D : AList (Span × Expr)) (n : String) : List String :=
  match D.get? n with
  | some (_, b) => (Spec.names b).filter fun m => D.contains m
  | none => []

theorem findSome_plainFor (n : String) : ∀ g : Grammar,
    g.findSome? (plainFor n) = ((plainDefs g).find? (·.1 == n)).map (·.2.2)
  | [] => by simp [plainDefs]
  | st :: rest => by
    have ih := findSome_plainFor n rest
    cases st with
    | call c s e =>
      have : plainDefs (Stmt.call c s e :: rest) = plainDefs rest := by simp [plainDefs]
      rw [this, ← ih]; simp [List.findSome?, plainFor]
    | defn m s shell rhs =>
      cases shell with
      | some p =>
        have : plainDefs (Stmt.defn m s (some p) rhs :: rest) = plainDefs rest := by simp [plainDefs]
        rw [this, ← ih]; simp [List.findSome?, plainFor]
      | none =>
        have : plainDefs (Stmt.defn m s none rhs :: rest) = (m, s, rhs) :: plainDefs rest := by simp [plainDefs]
        rw [this]
        by_cases hn : m = n
        · subst hn; simp [List.findSome?, plainFor]
        · have hb : (m == n) = false := by simpa using hn
          simp [List.findSome?, plainFor, hb, List.find?_cons, ih]

theorem tableOf_get (sh : Shell) (g : Grammar) (n : String) :
    (tableOf sh g).get? n =
      ((plainDefs g).find? (·.1 == n)).map fun x => (x.2.1, applyPick sh g (distribute x.2.2)) := by
  unfold tableOf AList.get?
  have := find?_map_key (fun x : String × Span × Expr => (x.1, (x.2.1, applyPick sh g (distribute x.2.2))))
    (fun _ => rfl) n (plainDefs g)
  rw [this]
  simp [Option.map_map, Function.comp_def]

mutual
theorem names_applyPick (sh : Shell) (g : Grammar) : ∀ (e : Expr) (n : String), NoDD e = true → n ∈ Spec.names e →
    (∀ c a, Spec.pick sh g n ≠ .command c a) → n ∈ Spec.names (applyPick sh g e)
  | .term .., n, _, h, _ => by simp [Spec.names] at h
  | .cmd .., n, _, h, _ => by simp [Spec.names] at h
  | .dd c d s, n, hd, _, _ => by simp [NoDD] at hd
  | .nonterm m l s, n, _, h, hp => by
    simp only [Spec.names, List.mem_singleton] at h
    subst h
    unfold applyPick
    cases hpk : Spec.pick sh g n with
    | command c a => exact absurd hpk (hp c a)
    | expr d => simp [Spec.names]
    | anyWord => simp [Spec.names]
  | .sub c l s, n, hd, h, hp => by
    simp only [applyPick, Spec.names] at h ⊢
    exact names_applyPick sh g c n (by simpa [NoDD] using hd) h hp
  | .opt c s, n, hd, h, hp => by
    simp only [applyPick, Spec.names] at h ⊢
    exact names_applyPick sh g c n (by simpa [NoDD] using hd) h hp
  | .many1 c s, n, hd, h, hp => by
    simp only [applyPick, Spec.names] at h ⊢
    exact names_applyPick sh g c n (by simpa [NoDD] using hd) h hp
  | .seq cs s, n, hd, h, hp => by
    simp only [applyPick, Spec.names] at h ⊢
    exact namesL_applyPick sh g cs n (by simpa [NoDD] using hd) h hp
  | .alt cs s, n, hd, h, hp => by
    simp only [applyPick, Spec.names] at h ⊢
    exact namesL_applyPick sh g cs n (by simpa [NoDD] using hd) h hp
  | .fb cs s, n, hd, h, hp => by
    simp only [applyPick, Spec.names] at h ⊢
    exact namesL_applyPick sh g cs n (by simpa [NoDD] using hd) h hp
theorem namesL_applyPick (sh : Shell) (g : Grammar) : ∀ (es : ExprL) (n : String), NoDDL es = true → n ∈ Spec.namesL es →
    (∀ c a, Spec.pick sh g n ≠ .command c a) → n ∈ Spec.namesL (applyPickL sh g es)
  | .nil, n, _, h, _ => by simp [Spec.namesL] at h
  | .cons e es, n, hd, h, hp => by
    simp only [NoDDL, Bool.and_eq_true] at hd
    simp only [applyPickL, Spec.namesL, List.mem_append] at h ⊢
    rcases h with h | h
    · exact .inl (names_applyPick sh g e n hd.1 h hp)
    · exact .inr (namesL_applyPick sh g es n hd.2 h hp)
end

/-- what the loop maintains: same keys as the start table; names outside `P` still hold their start
entry; names in `P` are completely expanded -/
structure LoopInv (sh : Shell) (g : Grammar) (P : List String) (acc : AList (Span × Expr)) : Prop where
  keys : ∀ k, (acc.get? k).isSome = ((tableOf sh g).get? k).isSome
  rest : ∀ m, m ∉ P → acc.get? m = (tableOf sh g).get? m
  done : ∀ m ∈ P, Done sh g acc (Hb g P) m

theorem good_of_inv (sh : Shell) (g : Grammar) (P : List String) (acc : AList (Span × Expr))
    (inv : LoopInv sh g P acc) (e : Expr) (hd : NoDD e = true)
    (hdeps : ∀ m ∈ Spec.names (applyPick sh g e), (tableOf sh g).contains m = true → m ∈ P) :
    ∀ n ∈ Spec.names e, Good sh g acc (Hb g P) n := by
  intro n hn
  unfold Good
  have hpu := pick_unfold sh g n
  cases hp : Spec.pick sh g n with
  | command c a => trivial
  | anyWord =>
    simp only
    rw [hp] at hpu
    -- no plain definition
    have hnone : g.findSome? (plainFor n) = none := by
      cases h1 : g.findSome? (specFor sh n) with
      | some c => rw [h1] at hpu; cases hpu
      | none =>
        rw [h1] at hpu
        cases h2 : g.findSome? (plainFor n) with
        | some e' => rw [h2] at hpu; cases hpu
        | none => rfl
    rw [findSome_plainFor] at hnone
    have hk := inv.keys n
    rw [tableOf_get] at hk
    cases hf : (plainDefs g).find? (·.1 == n) with
    | some x => rw [hf] at hnone; cases hnone
    | none =>
      rw [hf] at hk
      cases hg : acc.get? n with
      | none => rfl
      | some v => rw [hg] at hk; cases hk
  | expr d =>
    simp only
    rw [hp] at hpu
    have hsome : g.findSome? (plainFor n) = some d := by
      cases h1 : g.findSome? (specFor sh n) with
      | some c => rw [h1] at hpu; cases hpu
      | none =>
        rw [h1] at hpu
        cases h2 : g.findSome? (plainFor n) with
        | some e' => rw [h2] at hpu; cases hpu; rfl
        | none =>
          rw [h2] at hpu
          simp only at hpu
          generalize (Option.map (fun x => x.2.2) (List.find? (fun r => r.1 == n && r.2.1 == sh) Gen.builtinTable)) = o at hpu
          cases o <;> cases hpu
    rw [findSome_plainFor] at hsome
    cases hf : (plainDefs g).find? (·.1 == n) with
    | none => rw [hf] at hsome; cases hsome
    | some x =>
      rw [hf] at hsome
      simp only [Option.map_some, Option.some.injEq] at hsome
      have hmem : n ∈ Spec.names (applyPick sh g e) :=
        names_applyPick sh g e n hd hn (by intro c a h; rw [hp] at h; cases h)
      have hcont : (tableOf sh g).contains n = true := by
        have := tableOf_get sh g n
        rw [hf] at this
        unfold AList.contains
        unfold AList.get? at this
        cases hfd : List.find? (fun p => p.1 == n) (tableOf sh g) with
        | none => rw [hfd] at this; cases this
        | some p =>
          have := List.find?_some hfd
          exact List.any_eq_true.mpr ⟨p, List.mem_of_find?_eq_some hfd, this⟩
      obtain ⟨sp, b, hget, hst⟩ := inv.done n (hdeps n hmem hcont) x hf
      exact ⟨sp, b, hget, by rw [← hsome]; exact hst⟩


/-! ### one step of the loop, the loop -/

theorem get?_map_replace {α} (n : String) (v : α) : ∀ (m : AList α) (k : String),
    AList.get? (m.map fun p => if p.1 == n then (n, v) else p) k =
      if k = n then (m.get? n).map (fun _ => v) else m.get? k
  | [], k => by simp [AList.get?]
  | x :: xs, k => by
    have ih := get?_map_replace n v xs k
    unfold AList.get? at ih ⊢
    simp only [List.map_cons, List.find?_cons]
    by_cases hxn : x.1 = n
    · have hb : (x.1 == n) = true := by simpa using hxn
      simp only [hb, if_true]
      by_cases hkn : k = n
      · subst hkn; simp
      · have : (n == k) = false := by simpa using (Ne.symm hkn)
        have h2 : (x.1 == k) = false := by rw [hxn]; exact this
        simp only [this, h2, hkn, if_false] at ih ⊢
        exact ih
    · have hb : (x.1 == n) = false := by simpa using hxn
      simp only [hb, Bool.false_eq_true, if_false]
      by_cases hxk : x.1 = k
      · have hb2 : (x.1 == k) = true := by simpa using hxk
        have hkn : ¬ k = n := by rw [← hxk]; exact hxn
        simp [hb2, hkn]
      · have hb2 : (x.1 == k) = false := by simpa using hxk
        simp only [hb2] at ih ⊢
        exact ih

theorem Hb_cons (g : Grammar) (n : String) (P : List String) : Hb g (n :: P) = wOf g n + Hb g P := by
  simp [Hb]

theorem le_Hb (g : Grammar) (m : String) : ∀ P : List String, m ∈ P → wOf g m ≤ Hb g P
  | [], h => by simp at h
  | p :: P, h => by
    rw [Hb_cons]
    rcases List.mem_cons.mp h with rfl | h
    · omega
    · have := le_Hb g m P h; omega

theorem Done_mono (sh : Shell) (g : Grammar) (acc : AList (Span × Expr)) (H H' : Nat) (m : String)
    (hle : H ≤ H') (h : Done sh g acc H m) : Done sh g acc H' m := by
  intro x hx
  obtain ⟨sp, b, hg, hst⟩ := h x hx
  exact ⟨sp, b, hg, fun k hk => hst k (Nat.le_trans hle hk)⟩

theorem resStep_loop (sh : Shell) (g : Grammar) (P : List String) (acc : AList (Span × Expr)) (u : AList Span)
    (n : String) (inv : LoopInv sh g P acc) (hn : n ∉ P) (hkey : ((tableOf sh g).get? n).isSome = true)
    (hdeps : ∀ m ∈ depNames (tableOf sh g) n, m ∈ P) :
    LoopInv sh g (n :: P) (resStep (acc, u) n).1 := by
  have htab := tableOf_get sh g n
  cases hf : (plainDefs g).find? (·.1 == n) with
  | none => rw [htab, hf] at hkey; cases hkey
  | some x =>
    rw [hf] at htab
    simp only [Option.map_some] at htab
    have hacc : acc.get? n = some (x.2.1, applyPick sh g (distribute x.2.2)) := by
      rw [inv.rest n hn, htab]
    have hdd : NoDD (distribute x.2.2) = true := distribute_noDD _
    have hgood : ∀ m ∈ Spec.names (distribute x.2.2), Good sh g acc (Hb g P) m := by
      apply good_of_inv sh g P acc inv (distribute x.2.2) hdd
      intro m hm hc
      apply hdeps
      unfold depNames
      rw [htab]
      exact List.mem_filter.mpr ⟨hm, hc⟩
    unfold resStep
    simp only [hacc]
    refine ⟨?_, ?_, ?_⟩
    · intro k
      rw [get?_map_replace, ← inv.keys k]
      by_cases hk : k = n
      · subst hk; simp [hacc]
      · simp [hk]
    · intro m hm
      have hmn : m ≠ n := fun e => hm (by simp [e])
      have hmP : m ∉ P := fun e => hm (List.mem_cons_of_mem _ e)
      rw [get?_map_replace]
      simp only [hmn, if_false]
      exact inv.rest m hmP
    · intro m hm
      by_cases hmn : m = n
      · subst hmn
        intro x' hx'
        rw [hf] at hx'
        cases hx'
        refine ⟨x.2.1, (resolve acc (applyPick sh g (distribute x.2.2)) u).1, ?_, ?_⟩
        · rw [get?_map_replace]; simp [hacc]
        · intro k hk
          rw [← distribute_eq_spec]
          apply resolve_eq_expand sh g acc (Hb g P) (distribute x.2.2) u hdd hgood k
          rw [Hb_cons] at hk
          unfold wOf at hk
          rw [hf] at hk
          simp only at hk
          omega
      · have hmP : m ∈ P := by
          rcases List.mem_cons.mp hm with h | h
          · exact absurd h hmn
          · exact h
        have := Done_mono sh g acc (Hb g P) (Hb g (n :: P)) m (by rw [Hb_cons]; omega) (inv.done m hmP)
        intro x' hx'
        obtain ⟨sp, b, hg, hst⟩ := this x' hx'
        refine ⟨sp, b, ?_, hst⟩
        rw [get?_map_replace]
        simp only [hmn, if_false]
        exact hg

/-- a schedule: every name is processed once, is a key, and after the names it depends on -/
def Sched (D : AList (Span × Expr)) : List String → List String → Prop
  | _, [] => True
  | P, n :: rest => n ∉ P ∧ (D.get? n).isSome = true ∧ (∀ m ∈ depNames D n, m ∈ P) ∧ Sched D (n :: P) rest

theorem resFold_loop (sh : Shell) (g : Grammar) :
    ∀ (order P : List String) (acc : AList (Span × Expr)) (u : AList Span), LoopInv sh g P acc →
      Sched (tableOf sh g) P order → LoopInv sh g (order.reverse ++ P) (order.foldl resStep (acc, u)).1
  | [], P, acc, u, inv, _ => by simpa using inv
  | n :: rest, P, acc, u, inv, hs => by
    obtain ⟨hn, hkey, hdeps, hs'⟩ := hs
    have h1 := resStep_loop sh g P acc u n inv hn hkey hdeps
    have h2 := resFold_loop sh g rest (n :: P) (resStep (acc, u) n).1 (resStep (acc, u) n).2 h1 hs'
    simp only [List.foldl_cons, List.reverse_cons, List.append_assoc, List.singleton_append]
    exact h2


/-! ### definitions that refer to no other definition; the call variants -/

mutual
theorem resolve_noop (D : AList (Span × Expr)) : ∀ (x : Expr) (u : AList Span),
    (∀ n ∈ Spec.names x, D.get? n = none) → (resolve D x u).1 = x
  | .term .., u, _ => by simp [resolve]
  | .cmd .., u, _ => by simp [resolve]
  | .dd .., u, _ => by simp [resolve]
  | .nonterm n l s, u, h => by
    have := h n (by simp [Spec.names])
    simp [resolve, this]
  | .sub c l s, u, h => by
    have := resolve_noop D c u (by simpa [Spec.names] using h)
    simp [resolve, this]
  | .opt c s, u, h => by
    have := resolve_noop D c u (by simpa [Spec.names] using h)
    simp [resolve, this]
  | .many1 c s, u, h => by
    have := resolve_noop D c u (by simpa [Spec.names] using h)
    simp [resolve, this]
  | .seq cs s, u, h => by
    have := resolveL_noop D cs u (by simpa [Spec.names] using h)
    simp [resolve, this]
  | .alt cs s, u, h => by
    have := resolveL_noop D cs u (by simpa [Spec.names] using h)
    simp [resolve, this]
  | .fb cs s, u, h => by
    have := resolveL_noop D cs u (by simpa [Spec.names] using h)
    simp [resolve, this]
theorem resolveL_noop (D : AList (Span × Expr)) : ∀ (xs : ExprL) (u : AList Span),
    (∀ n ∈ Spec.namesL xs, D.get? n = none) → (resolveL D xs u).1 = xs
  | .nil, u, _ => by simp [resolveL]
  | .cons e es, u, h => by
    have h1 := resolve_noop D e u (fun n hn => h n (by simp [Spec.namesL, hn]))
    have h2 := resolveL_noop D es (resolve D e u).2 (fun n hn => h n (by simp [Spec.namesL, hn]))
    simp [resolveL, h1, h2]
end

theorem contains_false_get? {α} (m : AList α) (k : String) (h : m.contains k = false) : m.get? k = none := by
  unfold AList.contains at h
  unfold AList.get?
  have : m.find? (fun p => p.1 == k) = none := by
    apply List.find?_eq_none.mpr
    intro p hp
    have := List.any_eq_false.mp h p hp
    simpa using this
  simp [this]

theorem loop_init (sh : Shell) (g : Grammar) (P0 : List String)
    (hclosed : ∀ m ∈ P0, depNames (tableOf sh g) m = []) : LoopInv sh g P0 (tableOf sh g) := by
  refine ⟨fun _ => rfl, fun _ _ => rfl, ?_⟩
  intro m hm x hx
  have htab := tableOf_get sh g m
  rw [hx] at htab
  simp only [Option.map_some] at htab
  refine ⟨x.2.1, applyPick sh g (distribute x.2.2), htab, ?_⟩
  intro k hk
  have hdd : NoDD (distribute x.2.2) = true := distribute_noDD _
  have hcl := hclosed m hm
  unfold depNames at hcl
  rw [htab] at hcl
  simp only at hcl
  have hno : ∀ n ∈ Spec.names (applyPick sh g (distribute x.2.2)), (tableOf sh g).contains n = false := by
    intro n hn
    cases hc : (tableOf sh g).contains n with
    | false => rfl
    | true =>
      have : n ∈ (Spec.names (applyPick sh g (distribute x.2.2))).filter fun m => (tableOf sh g).contains m :=
        List.mem_filter.mpr ⟨hn, hc⟩
      rw [hcl] at this; cases this
  have inv0 : LoopInv sh g [] (tableOf sh g) := ⟨fun _ => rfl, fun _ _ => rfl, fun _ h => by cases h⟩
  have hgood := good_of_inv sh g [] (tableOf sh g) inv0 (distribute x.2.2) hdd
    (fun n hn hc => by rw [hno n hn] at hc; cases hc)
  have hw : depth (distribute x.2.2) + 1 ≤ Hb g P0 := by
    have := le_Hb g m P0 hm
    unfold wOf at this
    rw [hx] at this
    exact this
  rw [← distribute_eq_spec,
    resolve_eq_expand sh g (tableOf sh g) (Hb g []) (distribute x.2.2) [] hdd hgood k (by simp [Hb]; omega)]
  exact resolve_noop _ _ _ (fun n hn => contains_false_get? _ _ (hno n hn))

/-- **The expansion loop computes the specification's expansion**: after the loop has run over a
schedule that covers every definition, resolving the (specialised) call variants against its table
gives `Spec.expand` of the call variants, for every fuel from an explicit bound on. -/
theorem loop_top (sh : Shell) (g : Grammar) (P : List String) (acc : AList (Span × Expr))
    (inv : LoopInv sh g P acc) (hall : ∀ m, (tableOf sh g).contains m = true → m ∈ P)
    (e : Expr) (hd : NoDD e = true) (u : AList Span) (k : Nat) (hk : depth e + Hb g P ≤ k) :
    Spec.expand sh g k e = (resolve acc (applyPick sh g e) u).1 :=
  resolve_eq_expand sh g acc (Hb g P) e u hd
    (good_of_inv sh g P acc inv e hd (fun m _ hc => hall m hc)) k hk


/-! ### the fuel `Spec.meaning` provides is enough -/

mutual
theorem depth_le_size : ∀ e : Expr, depth e + 1 ≤ 2 * Spec.size e
  | .term .. => by simp [depth, Spec.size]
  | .cmd .. => by simp [depth, Spec.size]
  | .nonterm .. => by simp [depth, Spec.size]
  | .dd c d s => by have := depth_le_size c; simp only [depth, Spec.size]; omega
  | .sub c l s => by have := depth_le_size c; simp only [depth, Spec.size]; omega
  | .opt c s => by have := depth_le_size c; simp only [depth, Spec.size]; omega
  | .many1 c s => by have := depth_le_size c; simp only [depth, Spec.size]; omega
  | .seq cs s => by have := depthL_le_size cs; simp only [depth, Spec.size]; omega
  | .alt cs s => by have := depthL_le_size cs; simp only [depth, Spec.size]; omega
  | .fb cs s => by have := depthL_le_size cs; simp only [depth, Spec.size]; omega
theorem depthL_le_size : ∀ es : ExprL, depthL es ≤ 2 * Spec.sizeL es
  | .nil => by simp [depthL, Spec.sizeL]
  | .cons e es => by
    have h1 := depth_le_size e
    have h2 := depthL_le_size es
    simp only [depthL, Spec.sizeL]
    omega
end

mutual
theorem size_distr : ∀ (e : Expr) (p : Option String), Spec.size (distr e p).1 ≤ Spec.size e
  | .dd c d s, p => by have := size_distr c (some d); simp only [distr, Spec.size]; omega
  | .term t none l s, some d => by simp [distr, Spec.size]
  | .term t (some d') l s, some d => by simp [distr, Spec.size]
  | .term t d l s, none => by cases d <;> simp [distr, Spec.size]
  | .nonterm n l s, p => by simp [distr, Spec.size]
  | .cmd c a l s, p => by simp [distr, Spec.size]
  | .seq cs s, p => by have := sizeL_distrSeq cs p; simp only [distr, Spec.size]; omega
  | .fb cs s, p => by have := sizeL_distrSeq cs p; simp only [distr, Spec.size]; omega
  | .alt cs s, p => by have := sizeL_distrAlt cs p; simp only [distr, Spec.size]; omega
  | .opt c s, p => by have := size_distr c p; simp only [distr, Spec.size]; omega
  | .many1 c s, p => by have := size_distr c p; simp only [distr, Spec.size]; omega
  | .sub c l s, p => by have := size_distr c p; simp only [distr, Spec.size]; omega
theorem sizeL_distrSeq : ∀ (es : ExprL) (p : Option String), Spec.sizeL (distrSeq es p).1 ≤ Spec.sizeL es
  | .nil, p => by simp [distrSeq, Spec.sizeL]
  | .cons e es, p => by
    have h1 := size_distr e p
    have h2 := sizeL_distrSeq es (distr e p).2
    simp only [distrSeq, Spec.sizeL]; omega
theorem sizeL_distrAlt : ∀ (es : ExprL) (p : Option String), Spec.sizeL (distrAlt es p).1 ≤ Spec.sizeL es
  | .nil, p => by simp [distrAlt, Spec.sizeL]
  | .cons e es, p => by
    have h1 := size_distr e p
    have h2 := sizeL_distrAlt es p
    simp only [distrAlt, Spec.sizeL]; omega
end

theorem depth_distribute (e : Expr) : depth (distribute e) + 1 ≤ 2 * Spec.size e := by
  have h1 := depth_le_size (distribute e)
  have h2 : Spec.size (distribute e) ≤ Spec.size e := size_distr e none
  omega

/-- the weight of a name w.r.t. a list of definitions -/
def wOfL (L : List (String × Span × Expr)) (m : String) : Nat :=
  match L.find? (·.1 == m) with
  | some x => depth (distribute x.2.2) + 1
  | none => 0

theorem wOf_eq (g : Grammar) : wOf g = wOfL (plainDefs g) := rfl

theorem wOfL_cons_ne (x : String × Span × Expr) (L : List (String × Span × Expr)) (m : String) (h : x.1 ≠ m) :
    wOfL (x :: L) m = wOfL L m := by
  have : (x.1 == m) = false := by simpa using h
  simp [wOfL, List.find?_cons, this]

theorem sum_wOfL_step (x : String × Span × Expr) (L : List (String × Span × Expr)) :
    ∀ P : List String, P.Nodup →
      (P.map (wOfL (x :: L))).sum ≤ (depth (distribute x.2.2) + 1) + ((P.filter (· != x.1)).map (wOfL L)).sum
  | [], _ => by simp
  | m :: Q, hnd => by
    have hQ := (List.nodup_cons.mp hnd).2
    have hm := (List.nodup_cons.mp hnd).1
    by_cases h : x.1 = m
    · -- `m` is the key of `x`; it does not occur in `Q`
      have hall : ∀ q ∈ Q, x.1 ≠ q := fun q hq e => hm (by rw [← h, e]; exact hq)
      have h1 : (Q.map (wOfL (x :: L))) = Q.map (wOfL L) :=
        List.map_congr_left fun q hq => wOfL_cons_ne x L q (hall q hq)
      have h2 : Q.filter (· != x.1) = Q := by
        apply List.filter_eq_self.mpr
        intro q hq
        have := hall q hq
        simpa using (Ne.symm this)
      have h3 : wOfL (x :: L) m = depth (distribute x.2.2) + 1 := by
        have : (x.1 == m) = true := by simpa using h
        simp [wOfL, List.find?_cons, this]
      have h4 : (m != x.1) = false := by simp [h]
      simp only [List.map_cons, List.sum_cons, List.filter_cons, h4, Bool.false_eq_true, if_false, h1, h2, h3]
      omega
    · have ih := sum_wOfL_step x L Q hQ
      have h4 : (m != x.1) = true := by simpa using (Ne.symm h)
      simp only [List.map_cons, List.sum_cons, List.filter_cons, h4, if_true, wOfL_cons_ne x L m h]
      omega

theorem sum_wOfL_le : ∀ (L : List (String × Span × Expr)) (P : List String), P.Nodup →
    (P.map (wOfL L)).sum ≤ (L.map fun x => 2 * Spec.size x.2.2).sum
  | [], P, _ => by
    have : ∀ Q : List String, (Q.map (wOfL [])).sum = 0 := by
      intro Q
      induction Q with
      | nil => rfl
      | cons q Q ih => simp [List.sum_cons, ih, wOfL]
    rw [this]; simp
  | x :: L, P, hnd => by
    have h1 := sum_wOfL_step x L P hnd
    have h2 := sum_wOfL_le L (P.filter (· != x.1)) (hnd.filter _)
    have h3 := depth_distribute x.2.2
    simp only [List.map_cons, List.sum_cons]
    omega

theorem Hb_le (g : Grammar) (P : List String) (hnd : P.Nodup) :
    Hb g P ≤ ((plainDefs g).map fun x => 2 * Spec.size x.2.2).sum := by
  unfold Hb; rw [wOf_eq]; exact sum_wOfL_le _ P hnd

end Complgen.Check
