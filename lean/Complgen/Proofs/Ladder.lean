/-
C05 (operator ladder): a normal-form expression tree printed with the fewest parentheses the
precedences require (`||` loosest, then `|`, then juxtaposition with blanks, then postfix `...`;
`[ ]` and `( )` group) is read back by the expression ladder of `Model/Parse.lean` as the same tree
up to spans, consuming exactly the printed characters (`fallback_roundtrip`).

Fragment: nonterminals `<n>`, commands `{{{ c }}}`, literals of regular characters (no escapes, no
descriptions), `.seq`/`.alt`/`.fb` with at least two children, `.opt`, `.many1`; no `.sub`, no `.dd`.
A literal must not begin with `#` (`NF`): after a blank, `[` or `(` the parser would read it as a comment.

Structure: `PT L C n T E` says that the parser `L` with fuel at least `n` reads the text `T` followed by
any continuation of class `C` as `E`; the classes `BCont ⊇ UCont ⊇ SCont ⊇ ACont ⊇ FCont` say what the
level must not see next (`...` / a description / another word / `|` / `||`), directly or after blanks
and comments.  `lift_*` carry a result one level up the ladder, `paren_PT`/`bracket_PT` go from the
top of the ladder back to the bottom, `*_native` and `*Loop_cons` read the three list operators;
`all_levels` proves, by induction on the tree, all five levels at once.
-/
import Complgen.Proofs.Lexer
namespace Complgen.Parse
open Complgen

/-! ### states -/

theorem adv_rest_append (s : PState) (T r : List Char) (h : s.rest = T ++ r) :
    (s.adv T.length).rest = r := by
  rw [adv_rest', h]; simp

/-- the text that remains after blanks and comments -/
def afterBlanks (l : List Char) : List Char := l.drop (mb0Aux false l)

theorem mb0_eq (s : PState) : mb0 s = s.adv (mb0Aux false s.rest) := rfl

theorem mb0_rest (s : PState) : (mb0 s).rest = afterBlanks s.rest := by
  rw [mb0_eq, adv_rest']; rfl

/-- a character at which `multiblanks0` stops -/
def notBlank (c : Char) : Bool := !(isSpace c || c = '\x0c' || c = '#')

theorem mb0Aux_notBlank (c : Char) (r : List Char) (h : notBlank c = true) : mb0Aux false (c :: r) = 0 := by
  simp only [notBlank, Bool.not_eq_true', Bool.or_eq_false_iff, decide_eq_false_iff_not] at h
  simp [mb0Aux, h.1.1, h.1.2, h.2]

theorem afterBlanks_notBlank (c : Char) (r : List Char) (h : notBlank c = true) :
    afterBlanks (c :: r) = c :: r := by
  simp [afterBlanks, mb0Aux_notBlank c r h]

theorem afterBlanks_nil : afterBlanks [] = [] := rfl

theorem mb0Aux_space (r : List Char) : mb0Aux false (' ' :: r) = 1 + mb0Aux false r := by
  simp [mb0Aux, isSpace]

theorem afterBlanks_space (r : List Char) : afterBlanks (' ' :: r) = afterBlanks r := by
  simp [afterBlanks, mb0Aux_space, Nat.add_comm 1]

theorem mb0_notBlank (s : PState) (c : Char) (r : List Char) (hs : s.rest = c :: r) (h : notBlank c = true) :
    mb0 s = s := by
  rw [mb0_eq, hs, mb0Aux_notBlank c r h, adv_zero]

theorem mb0_nil (s : PState) (hs : s.rest = []) : mb0 s = s := by
  rw [mb0_eq, hs]; simp [mb0Aux, adv_zero]

/-! ### the equations of the ladder -/

/-- the alternatives of `unary_expr` before the postfix `...` -/
def baseP (fuel : Nat) (s : PState) : Option (PState × Expr) :=
  match nonterm s with
  | some (s', n, sp) => some (s', .nonterm n 0 sp)
  | none =>
  match optional fuel s with
  | some r => some r
  | none =>
  match parenthesized fuel s with
  | some r => some r
  | none =>
  match tripleBracketCommand s with
  | some (s', c) => some (s', .cmd c false 0 (fromRange s s'))
  | none =>
  match terminal s with
  | some (s', t) =>
    let (s'', d) := optDescription s'
    some (s'', .term t d 0 (fromRange s s''))
  | none => none

theorem unary_succ (fuel : Nat) (s : PState) : unary (fuel + 1) s =
    match baseP fuel s with
    | none => none
    | some (s', e) =>
      match many1Tag s' with
      | some s'' => some (s'', .many1 e (fromRange s s''))
      | none => some (s', e) := by
  rw [unary]; rfl

theorem optional_succ (fuel : Nat) (s : PState) : optional (fuel + 1) s =
    match char? '[' s with
    | none => none
    | some s1 =>
      match fallback fuel (mb0 s1) with
      | none => none
      | some (s2, e) =>
        match char? ']' (mb0 s2) with
        | none => none
        | some s3 => some (s3, .opt e (fromRange s s3)) := by
  rw [optional]; rfl

theorem parenthesized_succ (fuel : Nat) (s : PState) : parenthesized (fuel + 1) s =
    match char? '(' s with
    | none => none
    | some s1 =>
      match fallback fuel (mb0 s1) with
      | none => none
      | some (s2, e) =>
        match char? ')' (mb0 s2) with
        | none => none
        | some s3 => some (s3, e) := by
  rw [parenthesized]; rfl

theorem subwordLoop_succ (fuel : Nat) (s : PState) (acc : List Expr) : subwordLoop (fuel + 1) s acc =
    match unary fuel s with
    | some (s', e) => subwordLoop fuel s' (acc ++ [e])
    | none => (s, acc) := by
  rw [subwordLoop]; rfl

theorem subwordSeq_succ (fuel : Nat) (s : PState) : subwordSeq (fuel + 1) s =
    match unary fuel s with
    | none => none
    | some (s1, left) =>
      let (s2, factors) := subwordLoop fuel s1 [left]
      match factors with
      | [e] => some (s2, e)
      | _ =>
        let sp := fromRange s s2
        some (s2, .sub (.seq (ExprL.ofList (factors.map Check.flatten)) sp) 0 sp) := by
  rw [subwordSeq]; rfl

theorem sseod_succ (fuel : Nat) (s : PState) : sseod (fuel + 1) s =
    match subwordSeq fuel s with
    | none => none
    | some (s1, e) =>
      match optDescription s1 with
      | (s2, some d) => some (s2, .dd e d (fromRange s s2))
      | (_, none) => some (s1, e) := by
  rw [sseod]; rfl

theorem sequenceLoop_succ (fuel : Nat) (s : PState) (acc : List Expr) : sequenceLoop (fuel + 1) s acc =
    match mb1 s with
    | none => (s, acc)
    | some s1 =>
      match sseod fuel s1 with
      | some (s2, e) => sequenceLoop fuel s2 (acc ++ [e])
      | none => (s, acc) := by
  rw [sequenceLoop]; rfl

theorem sequence_succ (fuel : Nat) (s : PState) : sequence (fuel + 1) s =
    match sseod fuel s with
    | none => none
    | some (s1, left) =>
      let (s2, factors) := sequenceLoop fuel s1 [left]
      match factors with
      | [e] => some (s2, e)
      | _ => some (s2, .seq (ExprL.ofList factors) (fromRange s s2)) := by
  rw [sequence]; rfl

theorem alternativeLoop_succ (fuel : Nat) (s : PState) (acc : List Expr) : alternativeLoop (fuel + 1) s acc =
    match char? '|' (mb0 s) with
    | none => (s, acc)
    | some s1 =>
      match sequence fuel (mb0 s1) with
      | some (s2, e) => alternativeLoop fuel s2 (acc ++ [e])
      | none => (s, acc) := by
  rw [alternativeLoop]; rfl

theorem alternative_succ (fuel : Nat) (s : PState) : alternative (fuel + 1) s =
    match sequence fuel s with
    | none => none
    | some (s1, left) =>
      let (s2, elems) := alternativeLoop fuel s1 [left]
      match elems with
      | [e] => some (s2, e)
      | _ => some (s2, .alt (ExprL.ofList elems) (fromRange s s2)) := by
  rw [alternative]; rfl

theorem fallbackLoop_succ (fuel : Nat) (s : PState) (acc : List Expr) : fallbackLoop (fuel + 1) s acc =
    match tag? "||" (mb0 s) with
    | none => (s, acc)
    | some s1 =>
      match alternative fuel (mb0 s1) with
      | some (s2, e) => fallbackLoop fuel s2 (acc ++ [e])
      | none => (s, acc) := by
  rw [fallbackLoop]; rfl

theorem fallback_succ (fuel : Nat) (s : PState) : fallback (fuel + 1) s =
    match alternative fuel s with
    | none => none
    | some (s1, left) =>
      let (s2, fbs) := fallbackLoop fuel s1 [left]
      match fbs with
      | [e] => some (s2, e)
      | _ => some (s2, .fb (ExprL.ofList fbs) (fromRange s s2)) := by
  rw [fallback]; rfl

theorem unary_zero (s : PState) : unary 0 s = none := by rw [unary]
theorem optional_zero (s : PState) : optional 0 s = none := by rw [optional]
theorem parenthesized_zero (s : PState) : parenthesized 0 s = none := by rw [parenthesized]
theorem subwordLoop_zero (s : PState) (acc : List Expr) : subwordLoop 0 s acc = (s, acc) := by rw [subwordLoop]
theorem subwordSeq_zero (s : PState) : subwordSeq 0 s = none := by rw [subwordSeq]
theorem sseod_zero (s : PState) : sseod 0 s = none := by rw [sseod]
theorem sequenceLoop_zero (s : PState) (acc : List Expr) : sequenceLoop 0 s acc = (s, acc) := by rw [sequenceLoop]
theorem sequence_zero (s : PState) : sequence 0 s = none := by rw [sequence]
theorem alternativeLoop_zero (s : PState) (acc : List Expr) : alternativeLoop 0 s acc = (s, acc) := by rw [alternativeLoop]
theorem alternative_zero (s : PState) : alternative 0 s = none := by rw [alternative]
theorem fallbackLoop_zero (s : PState) (acc : List Expr) : fallbackLoop 0 s acc = (s, acc) := by rw [fallbackLoop]
theorem fallback_zero (s : PState) : fallback 0 s = none := by rw [fallback]

/-! ### what may follow a printed expression -/

/-- a character that can neither continue nor start a unary expression -/
def stopCh (c : Char) : Bool :=
  !isRegular c && c ≠ '\\' && c ≠ '.' && c ≠ '<' && c ≠ '[' && c ≠ '(' && c ≠ '{' && c ≠ '"'

def StopHead (l : List Char) : Prop := l = [] ∨ ∃ c r, l = c :: r ∧ stopCh c = true

/-- after a unary expression / a word: no unary expression can follow directly, and after blanks
neither `...` nor a description follows -/
def UCont (rest : List Char) : Prop :=
  StopHead rest ∧ ∀ c r, afterBlanks rest = c :: r → c ≠ '.' ∧ c ≠ '"'
/-- after a sequence: no word follows, directly or after blanks -/
def SCont (rest : List Char) : Prop := StopHead rest ∧ StopHead (afterBlanks rest)
/-- after an alternative: moreover no single `|` follows -/
def ACont (rest : List Char) : Prop := SCont rest ∧ ∀ r, afterBlanks rest = '|' :: r → ∃ r', r = '|' :: r'
/-- after a whole expression: moreover no `|` at all -/
def FCont (rest : List Char) : Prop := SCont rest ∧ ∀ r, afterBlanks rest ≠ '|' :: r
/-- after the operand of a postfix `...` (or any base expression): a literal ends here and no
description follows -/
def BCont (rest : List Char) : Prop := dec' rest = some ([], 0) ∧ ∀ r, afterBlanks rest ≠ '"' :: r

theorem stopCh_spec {c : Char} (h : stopCh c = true) :
    isRegular c = false ∧ c ≠ '\\' ∧ c ≠ '.' ∧ c ≠ '<' ∧ c ≠ '[' ∧ c ≠ '(' ∧ c ≠ '{' ∧ c ≠ '"' := by
  simpa [stopCh, and_assoc] using h

theorem StopHead.ne {l : List Char} (h : StopHead l) (x : Char) (hx : stopCh x = false) :
    ∀ r, l ≠ x :: r := by
  intro r e
  rcases h with rfl | ⟨c, r', rfl, hc⟩
  · cases e
  · cases e; rw [hc] at hx; cases hx

theorem StopHead.dec {l : List Char} (h : StopHead l) : dec' l = some ([], 0) := by
  rcases h with rfl | ⟨c, r, rfl, hc⟩
  · rfl
  · obtain ⟨h1, h2, h3, _⟩ := stopCh_spec hc
    exact dec'_other c r h1 h2 h3

theorem SCont.u {rest : List Char} (h : SCont rest) : UCont rest := by
  refine ⟨h.1, ?_⟩
  intro c r e
  rcases h.2 with h2 | ⟨c', r', h2, hc⟩
  · rw [h2] at e; cases e
  · rw [h2] at e; cases e
    obtain ⟨_, _, h3, _, _, _, _, h8⟩ := stopCh_spec hc
    exact ⟨h3, h8⟩

theorem ACont.s {rest : List Char} (h : ACont rest) : SCont rest := h.1
theorem FCont.s {rest : List Char} (h : FCont rest) : SCont rest := h.1
theorem FCont.a {rest : List Char} (h : FCont rest) : ACont rest :=
  ⟨h.1, fun r e => absurd e (h.2 r)⟩

theorem UCont.b {rest : List Char} (h : UCont rest) : BCont rest := by
  refine ⟨h.1.dec, ?_⟩
  intro r e
  exact (h.2 _ _ e).2 rfl

theorem dots_BCont (rest : List Char) : BCont ('.' :: '.' :: '.' :: rest) := by
  constructor
  · rw [dec'_dot]
    have : dotRun ('.' :: '.' :: '.' :: rest) ≥ 3 := by
      rw [dotRun_cons_dot, dotRun_cons_dot, dotRun_cons_dot]; omega
    simp [this]
  · intro r e
    rw [afterBlanks_notBlank _ _ (by decide)] at e
    cases e

/-! ### failing parsers -/

theorem char?_none (x : Char) (s : PState) (h : ∀ r, s.rest ≠ x :: r) : char? x s = none := by
  unfold char?
  cases hr : s.rest with
  | nil => rfl
  | cons c r =>
    by_cases hc : c = x
    · subst hc; exact absurd hr (h r)
    · simp [hc]

theorem char?_some (x : Char) (s : PState) (r : List Char) (h : s.rest = x :: r) :
    char? x s = some (s.adv 1) := by
  unfold char?; rw [h]; simp

theorem nonterm_none (s : PState) (h : ∀ r, s.rest ≠ '<' :: r) : nonterm s = none := by
  unfold nonterm; rw [char?_none _ s h]; rfl

theorem optional_none (f : Nat) (s : PState) (h : ∀ r, s.rest ≠ '[' :: r) : optional f s = none := by
  cases f with
  | zero => exact optional_zero s
  | succ f => rw [optional_succ, char?_none _ s h]

theorem parenthesized_none (f : Nat) (s : PState) (h : ∀ r, s.rest ≠ '(' :: r) : parenthesized f s = none := by
  cases f with
  | zero => exact parenthesized_zero s
  | succ f => rw [parenthesized_succ, char?_none _ s h]

theorem triple_none (s : PState) (h : ∀ r, s.rest ≠ '{' :: r) : tripleBracketCommand s = none := by
  unfold tripleBracketCommand tag? startsWith
  have : "{{{".toList = ['{', '{', '{'] := by rfl
  rw [this]
  cases hr : s.rest with
  | nil => rfl
  | cons c r =>
    by_cases hc : c = '{'
    · subst hc; exact absurd hr (h r)
    · have : ('{' == c) = false := by simpa using fun e => hc e.symm
      simp [List.isPrefixOf, this]

theorem terminal_none (s : PState) (h : dec' s.rest = some ([], 0)) : terminal s = none := by
  rw [terminal_eq_dec, h]; rfl

theorem baseP_none (f : Nat) (s : PState) (h : StopHead s.rest) : baseP f s = none := by
  unfold baseP
  rw [nonterm_none s (h.ne _ (by decide)), optional_none f s (h.ne _ (by decide)),
    parenthesized_none f s (h.ne _ (by decide)), triple_none s (h.ne _ (by decide)),
    terminal_none s h.dec]

theorem unary_none (f : Nat) (s : PState) (h : StopHead s.rest) : unary f s = none := by
  cases f with
  | zero => exact unary_zero s
  | succ f => rw [unary_succ, baseP_none f s h]

theorem subwordSeq_none (f : Nat) (s : PState) (h : StopHead s.rest) : subwordSeq f s = none := by
  cases f with
  | zero => exact subwordSeq_zero s
  | succ f => rw [subwordSeq_succ, unary_none f s h]

theorem sseod_none (f : Nat) (s : PState) (h : StopHead s.rest) : sseod f s = none := by
  cases f with
  | zero => exact sseod_zero s
  | succ f => rw [sseod_succ, subwordSeq_none f s h]

theorem sequence_none (f : Nat) (s : PState) (h : StopHead s.rest) : sequence f s = none := by
  cases f with
  | zero => exact sequence_zero s
  | succ f => rw [sequence_succ, sseod_none f s h]

/-! ### the statements: a parser reads back a printed text -/

/-- the parser `L`, given at least `n` fuel, reads the text `T` followed by any continuation of class
`C` as the tree `E` (spans erased), consuming exactly `T` -/
def PT (L : Nat → PState → Option (PState × Expr)) (C : List Char → Prop) (n : Nat) (T : List Char)
    (E : Expr) : Prop :=
  ∀ rest, C rest → ∀ s : PState, s.rest = T ++ rest → ∀ f, n ≤ f →
    ∃ e', L f s = some (s.adv T.length, e') ∧ e'.eraseSpans = E

/-- the loop `L`, given at least `n` fuel, reads the text `T` (separators and items) followed by any
continuation of class `C` as the items `Es` (spans erased), appended to the accumulator -/
def LT (L : Nat → PState → List Expr → PState × List Expr) (C : List Char → Prop) (n : Nat)
    (T : List Char) (Es : ExprL) : Prop :=
  ∀ rest, C rest → ∀ s : PState, s.rest = T ++ rest → ∀ (acc : List Expr) (f : Nat), n ≤ f →
    ∃ es', L f s acc = (s.adv T.length, acc ++ es') ∧ (ExprL.ofList es').eraseSpans = Es

/-! ### atoms -/

theorem regular_ne {x : Char} (h : isRegular x = true) (y : Char) (hy : isRegular y = false) : x ≠ y := by
  intro e; subst e; rw [h] at hy; cases hy

theorem nonterm_ok (n rest : List Char) (s : PState) (hn : n ≠ []) (hgt : ∀ c ∈ n, c ≠ '>')
    (hs : s.rest = '<' :: n ++ '>' :: rest) :
    ∃ sp, nonterm s = some (s.adv (n.length + 2), String.ofList n, sp) := by
  have h1 := char?_some '<' s _ hs
  have hr1 : (s.adv 1).rest = n ++ '>' :: rest := by rw [adv_rest', hs]; rfl
  have hrun : (s.adv 1).rest.takeWhile (fun c => !['>'].contains c) = n := by
    rw [hr1]
    exact takeWhile_run _ n _ (by simpa using hgt) (.inr ⟨'>', rest, rfl, by simp⟩)
  have h2 : isNot ['>'] (s.adv 1) = some ((s.adv 1).adv n.length, n) := by
    unfold isNot
    simp only [hrun]
    cases n with
    | nil => exact absurd rfl hn
    | cons _ _ => simp
  have hr2 : ((s.adv 1).adv n.length).rest = '>' :: rest := adv_rest_append _ _ _ hr1
  have h3 := char?_some '>' _ _ hr2
  unfold nonterm
  simp only [h1, h2, h3, Option.bind_eq_bind, Option.bind_some]
  rw [adv_add', adv_add']
  rw [show 1 + (n.length + 1) = n.length + 2 by omega]
  exact ⟨_, rfl⟩

theorem nonterm_PT (n : List Char) (hn : n ≠ []) (hgt : ∀ c ∈ n, c ≠ '>') :
    PT baseP BCont 0 ('<' :: n ++ ['>']) (.nonterm (String.ofList n) 0 default) := by
  intro rest _ s hs f _
  obtain ⟨sp, h⟩ := nonterm_ok n rest s hn hgt (by simpa using hs)
  refine ⟨.nonterm (String.ofList n) 0 sp, ?_, rfl⟩
  unfold baseP
  rw [h]
  simp

/-- no `}}}` starts anywhere in the text -/
def noTriple : List Char → Bool
  | [] => true
  | c :: cs => !(['}', '}', '}'].isPrefixOf (c :: cs)) && noTriple cs

theorem triple_prefix_append (l r : List Char) :
    ['}', '}', '}'].isPrefixOf (l ++ ' ' :: r) = ['}', '}', '}'].isPrefixOf l := by
  rcases l with _ | ⟨a, _ | ⟨b, _ | ⟨c, l⟩⟩⟩ <;> simp [List.isPrefixOf]

theorem findTriple_cons (c : Char) (cs : List Char) : findTriple (c :: cs) =
    if ['}', '}', '}'].isPrefixOf (c :: cs) then some 0 else (findTriple cs).map (· + 1) := by
  rw [findTriple]; rfl

theorem findTriple_ok (rest : List Char) : ∀ c : List Char, noTriple c = true →
    findTriple (c ++ ' ' :: '}' :: '}' :: '}' :: rest) = some (c.length + 1)
  | [], _ => by
    simp [findTriple_cons, List.isPrefixOf]
  | x :: c, h => by
    simp only [noTriple, Bool.and_eq_true, Bool.not_eq_true'] at h
    rw [List.cons_append, findTriple_cons, ← List.cons_append, triple_prefix_append, h.1]
    simp [findTriple_ok rest c h.2]

theorem trim_ok (c : List Char) (h1 : ∀ x, c.head? = some x → isWs x = false)
    (h2 : ∀ x, c.getLast? = some x → isWs x = false) : trim (' ' :: c ++ [' ']) = c := by
  have hsp : isWs ' ' = true := by decide
  unfold trim
  cases c with
  | nil => simp [List.dropWhile, hsp]
  | cons x c' =>
    have hx := h1 x rfl
    have e1 : (' ' :: (x :: c') ++ [' ']).dropWhile isWs = x :: c' ++ [' '] := by
      simp [List.dropWhile, hsp, hx]
    rw [e1]
    have e2 : (x :: c' ++ [' ']).reverse = ' ' :: (x :: c').reverse := by simp
    rw [e2]
    have e3 : (' ' :: (x :: c').reverse).dropWhile isWs = ((x :: c').reverse).dropWhile isWs := by
      simp [List.dropWhile, hsp]
    rw [e3]
    have hh : (x :: c').reverse.head? = (x :: c').getLast? := List.head?_reverse
    cases hrv : (x :: c').reverse with
    | nil => simp at hrv
    | cons y ys =>
      rw [hrv] at hh
      have hy := h2 y hh.symm
      have : (y :: ys).dropWhile isWs = y :: ys := by simp [List.dropWhile, hy]
      rw [this, ← hrv, List.reverse_reverse]

theorem tag?_some (t : String) (k : Nat) (hk : t.length = k) (s : PState)
    (h : t.toList.isPrefixOf s.rest = true) : tag? t s = some (s.adv k) := by
  unfold tag? startsWith; simp [h, hk]

theorem cmd_ok (c rest : List Char) (s : PState) (h1 : ∀ x, c.head? = some x → isWs x = false)
    (h2 : ∀ x, c.getLast? = some x → isWs x = false) (h3 : noTriple c = true)
    (hs : s.rest = '{' :: '{' :: '{' :: ' ' :: c ++ ' ' :: '}' :: '}' :: '}' :: rest) :
    tripleBracketCommand s = some (s.adv (c.length + 8), String.ofList c) := by
  have hl1 : "{{{".length = 3 := by decide
  have hl2 : "}}}".length = 3 := by decide
  have ht1 : tag? "{{{" s = some (s.adv 3) := by
    apply tag?_some _ _ hl1
    have : "{{{".toList = ['{', '{', '{'] := by rfl
    rw [this, hs]; simp [List.isPrefixOf]
  have hr1 : (s.adv 3).rest = ' ' :: c ++ ' ' :: '}' :: '}' :: '}' :: rest := by
    rw [adv_rest', hs]; rfl
  have hf : findTriple (s.adv 3).rest = some (c.length + 2) := by
    rw [hr1, List.cons_append, findTriple_cons]
    simp [List.isPrefixOf, findTriple_ok rest c h3]
  have hr1' : (s.adv 3).rest = (' ' :: c ++ [' ']) ++ '}' :: '}' :: '}' :: rest := by rw [hr1]; simp
  have hlen : (' ' :: c ++ [' ']).length = c.length + 2 := by simp
  have htake : (s.adv 3).rest.take (c.length + 2) = ' ' :: c ++ [' '] := by
    rw [hr1', ← hlen]; exact List.take_left' rfl
  have hr2 : ((s.adv 3).adv (c.length + 2)).rest = '}' :: '}' :: '}' :: rest := by
    rw [← hlen]; exact adv_rest_append _ _ _ hr1'
  have ht2 : tag? "}}}" ((s.adv 3).adv (c.length + 2)) = some (((s.adv 3).adv (c.length + 2)).adv 3) := by
    apply tag?_some _ _ hl2
    have : "}}}".toList = ['}', '}', '}'] := by rfl
    rw [this, hr2]; simp [List.isPrefixOf]
  unfold tripleBracketCommand
  simp only [ht1, hf, ht2, htake, Option.bind_eq_bind, Option.bind_some, trim_ok c h1 h2]
  rw [adv_add', adv_add']
  rw [show 3 + (c.length + 2 + 3) = c.length + 8 by omega]

/-- the printed form of a command -/
def cmdText (c : List Char) : List Char := '{' :: '{' :: '{' :: ' ' :: c ++ [' ', '}', '}', '}']

theorem cmd_PT (c : List Char) (h1 : ∀ x, c.head? = some x → isWs x = false)
    (h2 : ∀ x, c.getLast? = some x → isWs x = false) (h3 : noTriple c = true) :
    PT baseP BCont 0 (cmdText c) (.cmd (String.ofList c) false 0 default) := by
  intro rest _ s hs f _
  have hs' : s.rest = '{' :: '{' :: '{' :: ' ' :: c ++ ' ' :: '}' :: '}' :: '}' :: rest := by
    rw [hs]; simp [cmdText]
  have h := cmd_ok c rest s h1 h2 h3 hs'
  have hne : ∀ x, x ≠ '{' → ∀ r, s.rest ≠ x :: r := by
    intro x hx r e; rw [hs'] at e; cases e; exact hx rfl
  have hlen : (cmdText c).length = c.length + 8 := by simp [cmdText]
  refine ⟨.cmd (String.ofList c) false 0 (fromRange s (s.adv (c.length + 8))), ?_, rfl⟩
  unfold baseP
  rw [nonterm_none s (hne _ (by decide)), optional_none f s (hne _ (by decide)),
    parenthesized_none f s (hne _ (by decide)), h, hlen]

theorem optDescription_none (s : PState) (h : ∀ r, afterBlanks s.rest ≠ '"' :: r) :
    optDescription s = (s, none) := by
  unfold optDescription description
  rw [char?_none '"' (mb0 s) (by rw [mb0_rest]; exact h)]
  rfl

theorem lit_PT (t : List Char) (ht : t ≠ []) (hreg : ∀ c ∈ t, isRegular c = true) :
    PT baseP BCont 0 t (.term (String.ofList t) none 0 default) := by
  intro rest hrest s hs f _
  have hterm : terminal s = some (s.adv t.length, String.ofList t) := by
    rw [terminal_eq_dec, hs, dec'_regular_run t rest hreg, hrest.1]
    have : t.isEmpty = false := by cases t with | nil => exact absurd rfl ht | cons _ _ => rfl
    simp [this]
  have hod : optDescription (s.adv t.length) = (s.adv t.length, none) :=
    optDescription_none _ (by rw [adv_rest_append s t rest hs]; exact hrest.2)
  obtain ⟨x, t', rfl⟩ : ∃ x t', t = x :: t' := by
    cases t with | nil => exact absurd rfl ht | cons x t' => exact ⟨x, t', rfl⟩
  have hx : isRegular x = true := hreg x (by simp)
  have hne : ∀ y, isRegular y = false → ∀ r, s.rest ≠ y :: r := by
    intro y hy r e; rw [hs] at e; cases e; exact regular_ne hx _ hy rfl
  refine ⟨.term (String.ofList (x :: t')) none 0 (fromRange s (s.adv (x :: t').length)), ?_, rfl⟩
  unfold baseP
  rw [nonterm_none s (hne _ (by decide)), optional_none f s (hne _ (by decide)),
    parenthesized_none f s (hne _ (by decide)), triple_none s (hne _ (by decide)), hterm]
  simp only [hod]

/-! ### from one level of the ladder to the next -/

theorem many1Tag_none (s : PState) (h : ∀ c r, afterBlanks s.rest = c :: r → c ≠ '.') :
    many1Tag s = none := by
  unfold many1Tag tag? startsWith
  have : "...".toList = ['.', '.', '.'] := by rfl
  rw [this, mb0_rest]
  cases hr : afterBlanks s.rest with
  | nil => rfl
  | cons c r =>
    have := h c r hr
    have : ('.' == c) = false := by simpa using fun e => this e.symm
    simp [List.isPrefixOf, this]

theorem many1Tag_some (s : PState) (r : List Char) (h : s.rest = '.' :: '.' :: '.' :: r) :
    many1Tag s = some (s.adv 3) := by
  unfold many1Tag
  rw [mb0_notBlank s _ _ h (by decide)]
  apply tag?_some _ _ (by decide)
  have : "...".toList = ['.', '.', '.'] := by rfl
  rw [this, h]; simp [List.isPrefixOf]

/-- a base expression not followed by `...` is a unary expression -/
theorem lift_B_U {n : Nat} {T : List Char} {E : Expr} (h : PT baseP BCont n T E) :
    PT unary UCont (n + 1) T E := by
  intro rest hrest s hs f hf
  obtain ⟨f, rfl⟩ : ∃ f', f = f' + 1 := ⟨f - 1, by omega⟩
  obtain ⟨e', he, hE⟩ := h rest hrest.b s hs f (by omega)
  refine ⟨e', ?_, hE⟩
  rw [unary_succ, he]
  simp only
  rw [many1Tag_none _ (by
    rw [adv_rest_append s T rest hs]
    intro c r e; exact (hrest.2 c r e).1)]

/-- a base expression followed by `...` -/
theorem lift_B_many1 {n : Nat} {T : List Char} {E : Expr} (h : PT baseP BCont n T E) :
    PT unary UCont (n + 1) (T ++ ['.', '.', '.']) (.many1 E default) := by
  intro rest hrest s hs f hf
  obtain ⟨f, rfl⟩ : ∃ f', f = f' + 1 := ⟨f - 1, by omega⟩
  have hs' : s.rest = T ++ '.' :: '.' :: '.' :: rest := by rw [hs]; simp
  obtain ⟨e', he, hE⟩ := h _ (dots_BCont rest) s hs' f (by omega)
  refine ⟨.many1 e' (fromRange s ((s.adv T.length).adv 3)), ?_, by simp [Expr.eraseSpans, hE]⟩
  rw [unary_succ, he]
  simp only
  rw [many1Tag_some _ rest (adv_rest_append s T _ hs'), adv_add']
  simp

theorem subwordLoop_stop (f : Nat) (s : PState) (acc : List Expr) (h : StopHead s.rest) :
    subwordLoop f s acc = (s, acc) := by
  cases f with
  | zero => exact subwordLoop_zero s acc
  | succ f => rw [subwordLoop_succ, unary_none f s h]

/-- a unary expression after which no other follows directly is a word without description -/
theorem lift_U_D {n : Nat} {T : List Char} {E : Expr} (h : PT unary UCont n T E) :
    PT sseod UCont (n + 2) T E := by
  intro rest hrest s hs f hf
  obtain ⟨f, rfl⟩ : ∃ f', f = f' + 2 := ⟨f - 2, by omega⟩
  obtain ⟨e', he, hE⟩ := h rest hrest s hs f (by omega)
  have hr := adv_rest_append s T rest hs
  refine ⟨e', ?_, hE⟩
  rw [sseod_succ, subwordSeq_succ, he]
  simp only
  rw [subwordLoop_stop f _ _ (by rw [hr]; exact hrest.1)]
  simp only
  rw [optDescription_none _ (by rw [hr]; intro r e; exact (hrest.2 _ _ e).2 rfl)]

theorem mb1_eq (s : PState) : mb1 s =
    if mb0Aux false s.rest = 0 then none else some (s.adv (mb0Aux false s.rest)) := rfl

theorem sequenceLoop_stop (f : Nat) (s : PState) (acc : List Expr) (h : StopHead (afterBlanks s.rest)) :
    sequenceLoop f s acc = (s, acc) := by
  cases f with
  | zero => exact sequenceLoop_zero s acc
  | succ f =>
    rw [sequenceLoop_succ, mb1_eq]
    by_cases hz : mb0Aux false s.rest = 0
    · simp [hz]
    · simp only [hz, if_false]
      rw [sseod_none f _ (by rw [adv_rest']; exact h)]

/-- a word after which no other follows is a sequence -/
theorem lift_D_S {n : Nat} {T : List Char} {E : Expr} (h : PT sseod UCont n T E) :
    PT sequence SCont (n + 1) T E := by
  intro rest hrest s hs f hf
  obtain ⟨f, rfl⟩ : ∃ f', f = f' + 1 := ⟨f - 1, by omega⟩
  obtain ⟨e', he, hE⟩ := h rest hrest.u s hs f (by omega)
  have hr := adv_rest_append s T rest hs
  refine ⟨e', ?_, hE⟩
  rw [sequence_succ, he]
  simp only
  rw [sequenceLoop_stop f _ _ (by rw [hr]; exact hrest.2)]

theorem alternativeLoop_stop (f : Nat) (s : PState) (acc : List Expr) (h : ACont s.rest) :
    alternativeLoop f s acc = (s, acc) := by
  cases f with
  | zero => exact alternativeLoop_zero s acc
  | succ f =>
    rw [alternativeLoop_succ]
    cases hc : char? '|' (mb0 s) with
    | none => rfl
    | some s1 =>
      simp only
      have hmr := mb0_rest s
      cases hab : afterBlanks s.rest with
      | nil =>
        rw [char?_none _ _ (by rw [hmr, hab]; intro r e; cases e)] at hc; cases hc
      | cons c r =>
        by_cases hcb : c = '|'
        · subst hcb
          obtain ⟨r', rfl⟩ := h.2 r hab
          rw [char?_some '|' (mb0 s) _ (by rw [hmr, hab])] at hc
          cases hc
          have hr1 : ((mb0 s).adv 1).rest = '|' :: r' := by rw [adv_rest', hmr, hab]; rfl
          rw [mb0_notBlank _ _ _ hr1 (by decide),
            sequence_none f _ (by rw [hr1]; exact .inr ⟨'|', r', rfl, by decide⟩)]
        · rw [char?_none _ _ (by rw [hmr, hab]; intro r e; cases e; exact hcb rfl)] at hc; cases hc

/-- a sequence after which no `|` follows is an alternative -/
theorem lift_S_A {n : Nat} {T : List Char} {E : Expr} (h : PT sequence SCont n T E) :
    PT alternative ACont (n + 1) T E := by
  intro rest hrest s hs f hf
  obtain ⟨f, rfl⟩ : ∃ f', f = f' + 1 := ⟨f - 1, by omega⟩
  obtain ⟨e', he, hE⟩ := h rest hrest.s s hs f (by omega)
  have hr := adv_rest_append s T rest hs
  refine ⟨e', ?_, hE⟩
  rw [alternative_succ, he]
  simp only
  rw [alternativeLoop_stop f _ _ (by rw [hr]; exact hrest)]

theorem tag?_none (t : String) (s : PState) (h : t.toList.isPrefixOf s.rest = false) :
    tag? t s = none := by
  unfold tag? startsWith; simp [h]

theorem fallbackLoop_stop (f : Nat) (s : PState) (acc : List Expr) (h : FCont s.rest) :
    fallbackLoop f s acc = (s, acc) := by
  cases f with
  | zero => exact fallbackLoop_zero s acc
  | succ f =>
    rw [fallbackLoop_succ, tag?_none]
    have : "||".toList = ['|', '|'] := by rfl
    rw [this, mb0_rest]
    cases hab : afterBlanks s.rest with
    | nil => rfl
    | cons c r =>
      have hc : c ≠ '|' := fun e => h.2 r (by rw [hab, e])
      have : ('|' == c) = false := by simpa using fun e => hc e.symm
      simp [List.isPrefixOf, this]

/-- an alternative after which no `||` follows is an expression -/
theorem lift_A_F {n : Nat} {T : List Char} {E : Expr} (h : PT alternative ACont n T E) :
    PT fallback FCont (n + 1) T E := by
  intro rest hrest s hs f hf
  obtain ⟨f, rfl⟩ : ∃ f', f = f' + 1 := ⟨f - 1, by omega⟩
  obtain ⟨e', he, hE⟩ := h rest hrest.a s hs f (by omega)
  have hr := adv_rest_append s T rest hs
  refine ⟨e', ?_, hE⟩
  rw [fallback_succ, he]
  simp only
  rw [fallbackLoop_stop f _ _ (by rw [hr]; exact hrest)]

/-! ### groups -/

/-- a character that can begin a printed expression: blanks stop at it, and it begins neither a
description nor `...` -/
def starter (c : Char) : Bool := notBlank c && c ≠ '"' && c ≠ '.'

def StarterHead (T : List Char) : Prop := ∃ c r, T = c :: r ∧ starter c = true

theorem starter_spec {c : Char} (h : starter c = true) : notBlank c = true ∧ c ≠ '"' ∧ c ≠ '.' := by
  simpa [starter, and_assoc] using h

theorem mb0_starter (s : PState) (T r : List Char) (hT : StarterHead T) (hs : s.rest = T ++ r) :
    mb0 s = s := by
  obtain ⟨c, r', rfl, hc⟩ := hT
  exact mb0_notBlank s c (r' ++ r) hs (starter_spec hc).1

theorem FCont_close (c : Char) (rest : List Char) (h1 : stopCh c = true) (h2 : notBlank c = true)
    (h3 : c ≠ '|') : FCont (c :: rest) := by
  have hsh : StopHead (c :: rest) := .inr ⟨c, rest, rfl, h1⟩
  refine ⟨⟨hsh, ?_⟩, ?_⟩
  · rw [afterBlanks_notBlank c rest h2]; exact hsh
  · rw [afterBlanks_notBlank c rest h2]; intro r e; cases e; exact h3 rfl

theorem paren_PT {n : Nat} {T : List Char} {E : Expr} (hT : StarterHead T) (h : PT fallback FCont n T E) :
    PT baseP BCont (n + 1) ('(' :: T ++ [')']) E := by
  intro rest _ s hs f hf
  obtain ⟨f, rfl⟩ : ∃ f', f = f' + 1 := ⟨f - 1, by omega⟩
  have hs' : s.rest = '(' :: T ++ ')' :: rest := by rw [hs]; simp
  have hne : ∀ x, x ≠ '(' → ∀ r, s.rest ≠ x :: r := by
    intro x hx r e; rw [hs'] at e; cases e; exact hx rfl
  have hr1 : (s.adv 1).rest = T ++ ')' :: rest := by rw [adv_rest', hs']; rfl
  obtain ⟨e', he, hE⟩ := h (')' :: rest) (FCont_close _ _ (by decide) (by decide) (by decide))
    (s.adv 1) hr1 f (by omega)
  have hr2 : ((s.adv 1).adv T.length).rest = ')' :: rest := adv_rest_append _ _ _ hr1
  refine ⟨e', ?_, hE⟩
  unfold baseP
  rw [nonterm_none s (hne _ (by decide)), optional_none _ s (hne _ (by decide)), parenthesized_succ,
    char?_some '(' s _ hs']
  simp only
  rw [mb0_starter _ T _ hT hr1, he]
  simp only
  rw [mb0_notBlank _ _ _ hr2 (by decide), char?_some ')' _ _ hr2]
  simp only [adv_add']
  rw [show ('(' :: T ++ [')']).length = 1 + T.length + 1 by simp; omega]

theorem bracket_PT {n : Nat} {T : List Char} {E : Expr} (hT : StarterHead T) (h : PT fallback FCont n T E) :
    PT baseP BCont (n + 1) ('[' :: T ++ [']']) (.opt E default) := by
  intro rest _ s hs f hf
  obtain ⟨f, rfl⟩ : ∃ f', f = f' + 1 := ⟨f - 1, by omega⟩
  have hs' : s.rest = '[' :: T ++ ']' :: rest := by rw [hs]; simp
  have hne : ∀ x, x ≠ '[' → ∀ r, s.rest ≠ x :: r := by
    intro x hx r e; rw [hs'] at e; cases e; exact hx rfl
  have hr1 : (s.adv 1).rest = T ++ ']' :: rest := by rw [adv_rest', hs']; rfl
  obtain ⟨e', he, hE⟩ := h (']' :: rest) (FCont_close _ _ (by decide) (by decide) (by decide))
    (s.adv 1) hr1 f (by omega)
  have hr2 : ((s.adv 1).adv T.length).rest = ']' :: rest := adv_rest_append _ _ _ hr1
  refine ⟨.opt e' (fromRange s (s.adv (1 + T.length + 1))), ?_, by simp [Expr.eraseSpans, hE]⟩
  unfold baseP
  rw [nonterm_none s (hne _ (by decide)), optional_succ, char?_some '[' s _ hs']
  simp only
  rw [mb0_starter _ T _ hT hr1, he]
  simp only
  rw [mb0_notBlank _ _ _ hr2 (by decide), char?_some ']' _ _ hr2]
  simp only [adv_add']
  rw [show ('[' :: T ++ [']']).length = 1 + T.length + 1 by simp; omega]

/-! ### the three loops -/

theorem mb0Aux_space_starter (T r : List Char) (hT : StarterHead T) : mb0Aux false (' ' :: T ++ r) = 1 := by
  obtain ⟨c, r', rfl, hc⟩ := hT
  rw [List.cons_append, mb0Aux_space, List.cons_append, mb0Aux_notBlank c _ (starter_spec hc).1]

theorem mb0_space_nb (s : PState) (c : Char) (r : List Char) (hc : notBlank c = true)
    (hs : s.rest = ' ' :: c :: r) : mb0 s = s.adv 1 := by
  rw [mb0_eq, hs, mb0Aux_space, mb0Aux_notBlank c r hc]

theorem mb0_space_starter (s : PState) (T r : List Char) (hT : StarterHead T)
    (hs : s.rest = ' ' :: T ++ r) : mb0 s = s.adv 1 := by
  rw [mb0_eq, hs, mb0Aux_space_starter T r hT]

theorem ofList_erase_ne_nil {es : List Expr} {E : Expr} {Es : ExprL}
    (h : (ExprL.ofList es).eraseSpans = .cons E Es) : ∃ x xs, es = x :: xs := by
  cases es with
  | nil => simp [ExprL.ofList, ExprL.eraseSpans] at h
  | cons x xs => exact ⟨x, xs, rfl⟩

theorem seqLoop_nil : LT sequenceLoop SCont 0 [] .nil := by
  intro rest hrest s hs acc f _
  refine ⟨[], ?_, rfl⟩
  rw [sequenceLoop_stop f s acc (by rw [hs]; exact hrest.2)]
  simp [adv_zero]

theorem seqLoop_cons {n1 n2 : Nat} {T1 T2 : List Char} {E1 : Expr} {Es : ExprL} (hT1 : StarterHead T1)
    (h1 : PT sseod UCont n1 T1 E1) (h2 : LT sequenceLoop SCont n2 T2 Es)
    (hc : ∀ rest, SCont rest → UCont (T2 ++ rest)) :
    LT sequenceLoop SCont (max n1 n2 + 1) (' ' :: T1 ++ T2) (.cons E1 Es) := by
  intro rest hrest s hs acc f hf
  obtain ⟨f, rfl⟩ : ∃ f', f = f' + 1 := ⟨f - 1, by omega⟩
  have hs' : s.rest = ' ' :: T1 ++ (T2 ++ rest) := by rw [hs]; simp
  have hmb : mb1 s = some (s.adv 1) := by
    rw [mb1_eq, hs', mb0Aux_space_starter T1 _ hT1]; rfl
  have hr1 : (s.adv 1).rest = T1 ++ (T2 ++ rest) := by rw [adv_rest', hs']; rfl
  obtain ⟨e1, he1, hE1⟩ := h1 (T2 ++ rest) (hc rest hrest) (s.adv 1) hr1 f (by omega)
  have hr2 : ((s.adv 1).adv T1.length).rest = T2 ++ rest := adv_rest_append _ _ _ hr1
  obtain ⟨es', hes, hEs⟩ := h2 rest hrest _ hr2 (acc ++ [e1]) f (by omega)
  refine ⟨e1 :: es', ?_, by simp [ExprL.ofList, ExprL.eraseSpans, hE1, hEs]⟩
  rw [sequenceLoop_succ, hmb]
  simp only
  rw [he1]
  simp only
  rw [hes, adv_add', adv_add']
  simp [Nat.add_assoc]
  congr 1; omega

theorem altLoop_nil : LT alternativeLoop ACont 0 [] .nil := by
  intro rest hrest s hs acc f _
  refine ⟨[], ?_, rfl⟩
  rw [alternativeLoop_stop f s acc (by rw [hs]; exact hrest)]
  simp [adv_zero]

theorem altLoop_cons {n1 n2 : Nat} {T1 T2 : List Char} {E1 : Expr} {Es : ExprL} (hT1 : StarterHead T1)
    (h1 : PT sequence SCont n1 T1 E1) (h2 : LT alternativeLoop ACont n2 T2 Es)
    (hc : ∀ rest, ACont rest → SCont (T2 ++ rest)) :
    LT alternativeLoop ACont (max n1 n2 + 1) (' ' :: '|' :: ' ' :: T1 ++ T2) (.cons E1 Es) := by
  intro rest hrest s hs acc f hf
  obtain ⟨f, rfl⟩ : ∃ f', f = f' + 1 := ⟨f - 1, by omega⟩
  have hs' : s.rest = ' ' :: '|' :: ' ' :: T1 ++ (T2 ++ rest) := by rw [hs]; simp
  have hm1 : mb0 s = s.adv 1 := mb0_space_nb s '|' _ (by decide) hs'
  have hr1 : (s.adv 1).rest = '|' :: ' ' :: T1 ++ (T2 ++ rest) := by rw [adv_rest', hs']; rfl
  have hr2 : ((s.adv 1).adv 1).rest = ' ' :: T1 ++ (T2 ++ rest) := by rw [adv_rest', hr1]; rfl
  have hm2 : mb0 ((s.adv 1).adv 1) = ((s.adv 1).adv 1).adv 1 := mb0_space_starter _ T1 _ hT1 hr2
  have hr3 : (((s.adv 1).adv 1).adv 1).rest = T1 ++ (T2 ++ rest) := by rw [adv_rest', hr2]; rfl
  obtain ⟨e1, he1, hE1⟩ := h1 (T2 ++ rest) (hc rest hrest) _ hr3 f (by omega)
  have hr4 : ((((s.adv 1).adv 1).adv 1).adv T1.length).rest = T2 ++ rest := adv_rest_append _ _ _ hr3
  obtain ⟨es', hes, hEs⟩ := h2 rest hrest _ hr4 (acc ++ [e1]) f (by omega)
  refine ⟨e1 :: es', ?_, by simp [ExprL.ofList, ExprL.eraseSpans, hE1, hEs]⟩
  rw [alternativeLoop_succ, hm1, char?_some '|' _ _ hr1]
  simp only
  rw [hm2, he1]
  simp only
  rw [hes]
  simp only [adv_add']
  simp [Nat.add_assoc]
  congr 1; omega

theorem fbLoop_nil : LT fallbackLoop FCont 0 [] .nil := by
  intro rest hrest s hs acc f _
  refine ⟨[], ?_, rfl⟩
  rw [fallbackLoop_stop f s acc (by rw [hs]; exact hrest)]
  simp [adv_zero]

theorem fbLoop_cons {n1 n2 : Nat} {T1 T2 : List Char} {E1 : Expr} {Es : ExprL} (hT1 : StarterHead T1)
    (h1 : PT alternative ACont n1 T1 E1) (h2 : LT fallbackLoop FCont n2 T2 Es)
    (hc : ∀ rest, FCont rest → ACont (T2 ++ rest)) :
    LT fallbackLoop FCont (max n1 n2 + 1) (' ' :: '|' :: '|' :: ' ' :: T1 ++ T2) (.cons E1 Es) := by
  intro rest hrest s hs acc f hf
  obtain ⟨f, rfl⟩ : ∃ f', f = f' + 1 := ⟨f - 1, by omega⟩
  have hs' : s.rest = ' ' :: '|' :: '|' :: ' ' :: T1 ++ (T2 ++ rest) := by rw [hs]; simp
  have hm1 : mb0 s = s.adv 1 := mb0_space_nb s '|' _ (by decide) hs'
  have hr1 : (s.adv 1).rest = '|' :: '|' :: ' ' :: T1 ++ (T2 ++ rest) := by rw [adv_rest', hs']; rfl
  have htag : tag? "||" (s.adv 1) = some ((s.adv 1).adv 2) := by
    apply tag?_some _ _ (by decide)
    have : "||".toList = ['|', '|'] := by rfl
    rw [this, hr1]; simp [List.isPrefixOf]
  have hr2 : ((s.adv 1).adv 2).rest = ' ' :: T1 ++ (T2 ++ rest) := by rw [adv_rest', hr1]; rfl
  have hm2 : mb0 ((s.adv 1).adv 2) = ((s.adv 1).adv 2).adv 1 := mb0_space_starter _ T1 _ hT1 hr2
  have hr3 : (((s.adv 1).adv 2).adv 1).rest = T1 ++ (T2 ++ rest) := by rw [adv_rest', hr2]; rfl
  obtain ⟨e1, he1, hE1⟩ := h1 (T2 ++ rest) (hc rest hrest) _ hr3 f (by omega)
  have hr4 : ((((s.adv 1).adv 2).adv 1).adv T1.length).rest = T2 ++ rest := adv_rest_append _ _ _ hr3
  obtain ⟨es', hes, hEs⟩ := h2 rest hrest _ hr4 (acc ++ [e1]) f (by omega)
  refine ⟨e1 :: es', ?_, by simp [ExprL.ofList, ExprL.eraseSpans, hE1, hEs]⟩
  rw [fallbackLoop_succ, hm1, htag]
  simp only
  rw [hm2, he1]
  simp only
  rw [hes]
  simp only [adv_add']
  simp [Nat.add_assoc]
  congr 1; omega

/-! ### the three list operators at their own level -/

theorem seq_native {n1 n2 : Nat} {T1 T2 : List Char} {E1 E2 : Expr} {Es : ExprL}
    (h1 : PT sseod UCont n1 T1 E1) (h2 : LT sequenceLoop SCont n2 T2 (.cons E2 Es))
    (hc : ∀ rest, SCont rest → UCont (T2 ++ rest)) :
    PT sequence SCont (max n1 n2 + 1) (T1 ++ T2) (.seq (.cons E1 (.cons E2 Es)) default) := by
  intro rest hrest s hs f hf
  obtain ⟨f, rfl⟩ : ∃ f', f = f' + 1 := ⟨f - 1, by omega⟩
  have hs' : s.rest = T1 ++ (T2 ++ rest) := by rw [hs]; simp
  obtain ⟨e1, he1, hE1⟩ := h1 (T2 ++ rest) (hc rest hrest) s hs' f (by omega)
  have hr1 : (s.adv T1.length).rest = T2 ++ rest := adv_rest_append _ _ _ hs'
  obtain ⟨es', hes, hEs⟩ := h2 rest hrest _ hr1 [e1] f (by omega)
  obtain ⟨x, xs, rfl⟩ := ofList_erase_ne_nil hEs
  refine ⟨.seq (ExprL.ofList (e1 :: x :: xs)) (fromRange s (s.adv (T1 ++ T2).length)), ?_, ?_⟩
  · rw [sequence_succ, he1]
    simp only
    rw [hes, adv_add']
    simp
  · simp only [ExprL.ofList, Expr.eraseSpans, ExprL.eraseSpans, hE1]
    simp only [ExprL.ofList, ExprL.eraseSpans] at hEs
    rw [hEs]

theorem alt_native {n1 n2 : Nat} {T1 T2 : List Char} {E1 E2 : Expr} {Es : ExprL}
    (h1 : PT sequence SCont n1 T1 E1) (h2 : LT alternativeLoop ACont n2 T2 (.cons E2 Es))
    (hc : ∀ rest, ACont rest → SCont (T2 ++ rest)) :
    PT alternative ACont (max n1 n2 + 1) (T1 ++ T2) (.alt (.cons E1 (.cons E2 Es)) default) := by
  intro rest hrest s hs f hf
  obtain ⟨f, rfl⟩ : ∃ f', f = f' + 1 := ⟨f - 1, by omega⟩
  have hs' : s.rest = T1 ++ (T2 ++ rest) := by rw [hs]; simp
  obtain ⟨e1, he1, hE1⟩ := h1 (T2 ++ rest) (hc rest hrest) s hs' f (by omega)
  have hr1 : (s.adv T1.length).rest = T2 ++ rest := adv_rest_append _ _ _ hs'
  obtain ⟨es', hes, hEs⟩ := h2 rest hrest _ hr1 [e1] f (by omega)
  obtain ⟨x, xs, rfl⟩ := ofList_erase_ne_nil hEs
  refine ⟨.alt (ExprL.ofList (e1 :: x :: xs)) (fromRange s (s.adv (T1 ++ T2).length)), ?_, ?_⟩
  · rw [alternative_succ, he1]
    simp only
    rw [hes, adv_add']
    simp
  · simp only [ExprL.ofList, Expr.eraseSpans, ExprL.eraseSpans, hE1]
    simp only [ExprL.ofList, ExprL.eraseSpans] at hEs
    rw [hEs]

theorem fb_native {n1 n2 : Nat} {T1 T2 : List Char} {E1 E2 : Expr} {Es : ExprL}
    (h1 : PT alternative ACont n1 T1 E1) (h2 : LT fallbackLoop FCont n2 T2 (.cons E2 Es))
    (hc : ∀ rest, FCont rest → ACont (T2 ++ rest)) :
    PT fallback FCont (max n1 n2 + 1) (T1 ++ T2) (.fb (.cons E1 (.cons E2 Es)) default) := by
  intro rest hrest s hs f hf
  obtain ⟨f, rfl⟩ : ∃ f', f = f' + 1 := ⟨f - 1, by omega⟩
  have hs' : s.rest = T1 ++ (T2 ++ rest) := by rw [hs]; simp
  obtain ⟨e1, he1, hE1⟩ := h1 (T2 ++ rest) (hc rest hrest) s hs' f (by omega)
  have hr1 : (s.adv T1.length).rest = T2 ++ rest := adv_rest_append _ _ _ hs'
  obtain ⟨es', hes, hEs⟩ := h2 rest hrest _ hr1 [e1] f (by omega)
  obtain ⟨x, xs, rfl⟩ := ofList_erase_ne_nil hEs
  refine ⟨.fb (ExprL.ofList (e1 :: x :: xs)) (fromRange s (s.adv (T1 ++ T2).length)), ?_, ?_⟩
  · rw [fallback_succ, he1]
    simp only
    rw [hes, adv_add']
    simp
  · simp only [ExprL.ofList, Expr.eraseSpans, ExprL.eraseSpans, hE1]
    simp only [ExprL.ofList, ExprL.eraseSpans] at hEs
    rw [hEs]

/-! ### the printer, the normal form -/

def parenIf (b : Bool) (T : List Char) : List Char := if b then '(' :: T ++ [')'] else T

def sepS : List Char := [' ']
def sepA : List Char := [' ', '|', ' ']
def sepF : List Char := [' ', '|', '|', ' ']

mutual
/-- the printer; the context is the level of the ladder the text has to be read at:
0 `fallback` (anything), 1 `alternative` (operand of `||`), 2 `sequence` (operand of `|`),
3 a word of a sequence, 4 the operand of a postfix `...` -/
def pp : Nat → Expr → List Char
  | _, .term t _ _ _ => t.toList
  | _, .nonterm n _ _ => '<' :: n.toList ++ ['>']
  | _, .cmd c _ _ _ => cmdText c.toList
  | ctx, .seq cs _ => parenIf (decide (3 ≤ ctx)) (ppList 3 sepS cs)
  | ctx, .alt cs _ => parenIf (decide (2 ≤ ctx)) (ppList 2 sepA cs)
  | ctx, .fb cs _ => parenIf (decide (1 ≤ ctx)) (ppList 1 sepF cs)
  | _, .opt c _ => '[' :: pp 0 c ++ [']']
  | ctx, .many1 c _ => parenIf (decide (4 ≤ ctx)) (pp 4 c ++ ['.', '.', '.'])
  | _, .dd _ _ _ => []
  | _, .sub _ _ _ => []
def ppList : Nat → List Char → ExprL → List Char
  | _, _, .nil => []
  | ctx, sep, .cons e es => pp ctx e ++ ppTail ctx sep es
def ppTail : Nat → List Char → ExprL → List Char
  | _, _, .nil => []
  | ctx, sep, .cons e es => sep ++ pp ctx e ++ ppTail ctx sep es
end

mutual
/-- the trees of the fragment, in the shape the parser returns them -/
def NF : Expr → Prop
  | .term t d l _ => d = none ∧ l = 0 ∧ t.toList ≠ [] ∧ (∀ c ∈ t.toList, isRegular c = true) ∧
      t.toList.head? ≠ some '#'
  | .nonterm n l _ => l = 0 ∧ n.toList ≠ [] ∧ ∀ c ∈ n.toList, c ≠ '>'
  | .cmd c a l _ => a = false ∧ l = 0 ∧ (∀ x, c.toList.head? = some x → isWs x = false) ∧
      (∀ x, c.toList.getLast? = some x → isWs x = false) ∧ noTriple c.toList = true
  | .seq cs _ => 2 ≤ cs.length ∧ NFL cs
  | .alt cs _ => 2 ≤ cs.length ∧ NFL cs
  | .fb cs _ => 2 ≤ cs.length ∧ NFL cs
  | .opt c _ => NF c
  | .many1 c _ => NF c
  | .dd _ _ _ => False
  | .sub _ _ _ => False
def NFL : ExprL → Prop
  | .nil => True
  | .cons e es => NF e ∧ NFL es
end

mutual
def size : Expr → Nat
  | .term _ _ _ _ => 1
  | .nonterm _ _ _ => 1
  | .cmd _ _ _ _ => 1
  | .seq cs _ => 1 + sizeL cs
  | .alt cs _ => 1 + sizeL cs
  | .fb cs _ => 1 + sizeL cs
  | .opt c _ => 1 + size c
  | .many1 c _ => 1 + size c
  | .dd c _ _ => 1 + size c
  | .sub c _ _ => 1 + size c
def sizeL : ExprL → Nat
  | .nil => 0
  | .cons e es => 1 + size e + sizeL es
end

def fuelNeeded (e : Expr) : Nat := 10 * size e

/-- what may follow the printed expression: directly and after blanks and comments, the end of the
input or a character other than `|` that can neither continue nor start an expression -/
def Follows (rest : List Char) : Prop := FCont rest

theorem Follows_nil : Follows [] :=
  ⟨⟨.inl rfl, .inl rfl⟩, fun r e => by cases e⟩

theorem Follows_semicolon (r : List Char) : Follows (';' :: r) :=
  FCont_close _ _ (by decide) (by decide) (by decide)
theorem Follows_rparen (r : List Char) : Follows (')' :: r) :=
  FCont_close _ _ (by decide) (by decide) (by decide)
theorem Follows_rbracket (r : List Char) : Follows (']' :: r) :=
  FCont_close _ _ (by decide) (by decide) (by decide)

/-- blanks and comments, then the end of the input or `;`, `)`, `]` -/
theorem Follows_blanks (rest : List Char) (h1 : StopHead rest)
    (h2 : afterBlanks rest = [] ∨ ∃ c r, afterBlanks rest = c :: r ∧ (c = ';' ∨ c = ')' ∨ c = ']')) :
    Follows rest := by
  rcases h2 with h2 | ⟨c, r, h2, hc⟩
  · exact ⟨⟨h1, .inl h2⟩, fun r e => by rw [h2] at e; cases e⟩
  · have : stopCh c = true ∧ c ≠ '|' := by
      rcases hc with rfl | rfl | rfl <;> exact ⟨by decide, by decide⟩
    exact ⟨⟨h1, .inr ⟨c, r, h2, this.1⟩⟩, fun r' e => by rw [h2] at e; cases e; exact this.2 rfl⟩

/-! ### all levels at once -/

theorem PT.mono {L : Nat → PState → Option (PState × Expr)} {C : List Char → Prop} {n m : Nat}
    {T : List Char} {E : Expr} (h : PT L C n T E) (hnm : n ≤ m) : PT L C m T E :=
  fun rest hr s hs f hf => h rest hr s hs f (Nat.le_trans hnm hf)

theorem LT.mono {L : Nat → PState → List Expr → PState × List Expr} {C : List Char → Prop} {n m : Nat}
    {T : List Char} {Es : ExprL} (h : LT L C n T Es) (hnm : n ≤ m) : LT L C m T Es :=
  fun rest hr s hs acc f hf => h rest hr s hs acc f (Nat.le_trans hnm hf)

def paren (T : List Char) : List Char := '(' :: T ++ [')']

/-- the five texts `T0 … T4` of an expression are read back at the five levels -/
def AllT (N : Nat) (T0 T1 T2 T3 T4 : List Char) (E : Expr) : Prop :=
  PT fallback FCont N T0 E ∧ PT alternative ACont N T1 E ∧ PT sequence SCont N T2 E ∧
  PT sseod UCont N T3 E ∧ PT baseP BCont N T4 E

theorem AllT.mono {n m : Nat} {T0 T1 T2 T3 T4 : List Char} {E : Expr} (h : AllT n T0 T1 T2 T3 T4 E)
    (hnm : n ≤ m) : AllT m T0 T1 T2 T3 T4 E :=
  ⟨h.1.mono hnm, h.2.1.mono hnm, h.2.2.1.mono hnm, h.2.2.2.1.mono hnm, h.2.2.2.2.mono hnm⟩

theorem assemble4 {n : Nat} {T : List Char} {E : Expr} (h : PT baseP BCont n T E) :
    AllT (n + 6) T T T T T E := by
  have h3 := lift_U_D (lift_B_U h)
  have h2 := lift_D_S h3
  have h1 := lift_S_A h2
  have h0 := lift_A_F h1
  exact ⟨h0.mono (by omega), h1.mono (by omega), h2.mono (by omega), h3.mono (by omega), h.mono (by omega)⟩

theorem assemble3 {n : Nat} {T : List Char} {E : Expr} (hT : StarterHead T) (h : PT unary UCont n T E) :
    AllT (n + 6) T T T T (paren T) E := by
  have h3 := lift_U_D h
  have h2 := lift_D_S h3
  have h1 := lift_S_A h2
  have h0 := lift_A_F h1
  have hB := paren_PT hT h0
  exact ⟨h0.mono (by omega), h1.mono (by omega), h2.mono (by omega), h3.mono (by omega), hB.mono (by omega)⟩

theorem assemble2 {n : Nat} {T : List Char} {E : Expr} (hT : StarterHead T) (h2 : PT sequence SCont n T E) :
    AllT (n + 6) T T T (paren T) (paren T) E := by
  have h1 := lift_S_A h2
  have h0 := lift_A_F h1
  have hB := paren_PT hT h0
  have h3 := lift_U_D (lift_B_U hB)
  exact ⟨h0.mono (by omega), h1.mono (by omega), h2.mono (by omega), h3.mono (by omega), hB.mono (by omega)⟩

theorem assemble1 {n : Nat} {T : List Char} {E : Expr} (hT : StarterHead T) (h1 : PT alternative ACont n T E) :
    AllT (n + 6) T T (paren T) (paren T) (paren T) E := by
  have h0 := lift_A_F h1
  have hB := paren_PT hT h0
  have h3 := lift_U_D (lift_B_U hB)
  have h2 := lift_D_S h3
  exact ⟨h0.mono (by omega), h1.mono (by omega), h2.mono (by omega), h3.mono (by omega), hB.mono (by omega)⟩

theorem assemble0 {n : Nat} {T : List Char} {E : Expr} (hT : StarterHead T) (h0 : PT fallback FCont n T E) :
    AllT (n + 6) T (paren T) (paren T) (paren T) (paren T) E := by
  have hB := paren_PT hT h0
  have h3 := lift_U_D (lift_B_U hB)
  have h2 := lift_D_S h3
  have h1 := lift_S_A h2
  exact ⟨h0.mono (by omega), h1.mono (by omega), h2.mono (by omega), h3.mono (by omega), hB.mono (by omega)⟩

/-! ### what follows an item of a list -/

theorem StarterHead.append {T : List Char} (h : StarterHead T) (X : List Char) : StarterHead (T ++ X) := by
  obtain ⟨c, r, rfl, hc⟩ := h
  exact ⟨c, r ++ X, rfl, hc⟩

theorem StarterHead.parenIf {T : List Char} (h : StarterHead T) (b : Bool) : StarterHead (parenIf b T) := by
  cases b
  · exact h
  · exact ⟨'(', T ++ [')'], rfl, by decide⟩

theorem UCont_space_starter (T X : List Char) (hT : StarterHead T) : UCont (' ' :: T ++ X) := by
  obtain ⟨c, r, rfl, hc⟩ := hT
  obtain ⟨h1, h2, h3⟩ := starter_spec hc
  refine ⟨.inr ⟨' ', _, rfl, by decide⟩, ?_⟩
  intro c' r' e
  rw [List.cons_append, afterBlanks_space, List.cons_append, afterBlanks_notBlank c _ h1] at e
  cases e
  exact ⟨h3, h2⟩

theorem SCont_bar (X : List Char) : SCont (' ' :: '|' :: X) := by
  refine ⟨.inr ⟨' ', _, rfl, by decide⟩, ?_⟩
  rw [afterBlanks_space, afterBlanks_notBlank _ _ (by decide)]
  exact .inr ⟨'|', X, rfl, by decide⟩

theorem ACont_barbar (X : List Char) : ACont (' ' :: '|' :: '|' :: X) := by
  refine ⟨SCont_bar _, ?_⟩
  rw [afterBlanks_space, afterBlanks_notBlank _ _ (by decide)]
  intro r e; cases e; exact ⟨X, rfl⟩

/-! ### the induction -/

def All (e : Expr) : Prop :=
  AllT (10 * size e) (pp 0 e) (pp 1 e) (pp 2 e) (pp 3 e) (pp 4 e) e.eraseSpans ∧
  ∀ k, StarterHead (pp k e)

def Tails (es : ExprL) : Prop :=
  LT sequenceLoop SCont (10 * sizeL es) (ppTail 3 sepS es) es.eraseSpans ∧
  LT alternativeLoop ACont (10 * sizeL es) (ppTail 2 sepA es) es.eraseSpans ∧
  LT fallbackLoop FCont (10 * sizeL es) (ppTail 1 sepF es) es.eraseSpans

def AllL : ExprL → Prop
  | .nil => True
  | .cons e es => All e ∧ Tails es ∧ AllL es

theorem tailS_cont (es : ExprL) (h : AllL es) : ∀ rest, SCont rest → UCont (ppTail 3 sepS es ++ rest) := by
  intro rest hrest
  cases es with
  | nil => simpa [ppTail] using hrest.u
  | cons e es' =>
    have := UCont_space_starter (pp 3 e) (ppTail 3 sepS es' ++ rest) (h.1.2 3)
    simpa [ppTail, sepS] using this

theorem tailA_cont (es : ExprL) : ∀ rest, ACont rest → SCont (ppTail 2 sepA es ++ rest) := by
  intro rest hrest
  cases es with
  | nil => simpa [ppTail] using hrest.s
  | cons e es' =>
    have := SCont_bar (' ' :: pp 2 e ++ (ppTail 2 sepA es' ++ rest))
    simpa [ppTail, sepA] using this

theorem tailF_cont (es : ExprL) : ∀ rest, FCont rest → ACont (ppTail 1 sepF es ++ rest) := by
  intro rest hrest
  cases es with
  | nil => simpa [ppTail] using hrest.a
  | cons e es' =>
    have := ACont_barbar (' ' :: pp 1 e ++ (ppTail 1 sepF es' ++ rest))
    simpa [ppTail, sepF] using this

theorem case_nil : Tails .nil ∧ AllL .nil := by
  refine ⟨⟨?_, ?_, ?_⟩, trivial⟩
  · simpa [ppTail, sizeL, ExprL.eraseSpans] using seqLoop_nil
  · simpa [ppTail, sizeL, ExprL.eraseSpans] using altLoop_nil
  · simpa [ppTail, sizeL, ExprL.eraseSpans] using fbLoop_nil

theorem case_cons (e : Expr) (es : ExprL) (he : All e) (hes : Tails es ∧ AllL es) :
    Tails (.cons e es) ∧ AllL (.cons e es) := by
  refine ⟨⟨?_, ?_, ?_⟩, he, hes.1, hes.2⟩
  · have := seqLoop_cons (he.2 3) he.1.2.2.2.1 hes.1.1 (tailS_cont es hes.2)
    have := this.mono (m := 10 * sizeL (.cons e es)) (by simp only [sizeL]; omega)
    simpa [ppTail, sepS, ExprL.eraseSpans] using this
  · have := altLoop_cons (he.2 2) he.1.2.2.1 hes.1.2.1 (tailA_cont es)
    have := this.mono (m := 10 * sizeL (.cons e es)) (by simp only [sizeL]; omega)
    simpa [ppTail, sepA, ExprL.eraseSpans] using this
  · have := fbLoop_cons (he.2 1) he.1.2.1 hes.1.2.2 (tailF_cont es)
    have := this.mono (m := 10 * sizeL (.cons e es)) (by simp only [sizeL]; omega)
    simpa [ppTail, sepF, ExprL.eraseSpans] using this

theorem regular_starter {x : Char} (h : isRegular x = true) (hx : x ≠ '#') : starter x = true := by
  have h1 := regular_ne h ' ' (by decide)
  have h2 := regular_ne h '\t' (by decide)
  have h3 := regular_ne h '\r' (by decide)
  have h4 := regular_ne h '\n' (by decide)
  have h5 := regular_ne h '\x0c' (by decide)
  have h6 := regular_ne h '"' (by decide)
  have h7 := regular_ne h '.' (by decide)
  simp [starter, notBlank, isSpace, h1, h2, h3, h4, h5, h6, h7, hx]

theorem case_term (t : String) (d : Option String) (l : Nat) (sp : Span) (h : NF (.term t d l sp)) :
    All (.term t d l sp) := by
  simp only [NF] at h
  obtain ⟨rfl, rfl, h1, h2, h3⟩ := h
  constructor
  · have := assemble4 (lit_PT t.toList h1 h2)
    rw [String.ofList_toList] at this
    simpa [pp, Expr.eraseSpans, size] using this.mono (m := 10) (by omega)
  · intro k
    simp only [pp]
    cases ht : t.toList with
    | nil => exact absurd ht h1
    | cons x t' =>
      rw [ht] at h2 h3
      exact ⟨x, t', rfl, regular_starter (h2 x (by simp)) (by simpa using h3)⟩

theorem case_nonterm (n : String) (l : Nat) (sp : Span) (h : NF (.nonterm n l sp)) :
    All (.nonterm n l sp) := by
  simp only [NF] at h
  obtain ⟨rfl, h1, h2⟩ := h
  constructor
  · have := assemble4 (nonterm_PT n.toList h1 h2)
    rw [String.ofList_toList] at this
    simpa [pp, Expr.eraseSpans, size] using this.mono (m := 10) (by omega)
  · intro k
    exact ⟨'<', n.toList ++ ['>'], by simp [pp], by decide⟩

theorem case_cmd (c : String) (a : Bool) (l : Nat) (sp : Span) (h : NF (.cmd c a l sp)) :
    All (.cmd c a l sp) := by
  simp only [NF] at h
  obtain ⟨rfl, rfl, h1, h2, h3⟩ := h
  constructor
  · have := assemble4 (cmd_PT c.toList h1 h2 h3)
    rw [String.ofList_toList] at this
    simpa [pp, Expr.eraseSpans, size] using this.mono (m := 10) (by omega)
  · intro k
    exact ⟨'{', _, by simp only [pp, cmdText]; rfl, by decide⟩

theorem case_opt (c : Expr) (sp : Span) (ih : NF c → All c) (h : NF (.opt c sp)) : All (.opt c sp) := by
  simp only [NF] at h
  have hc := ih h
  constructor
  · have := assemble4 (bracket_PT (hc.2 0) hc.1.1)
    simpa [pp, Expr.eraseSpans, size] using this.mono (m := 10 * size (.opt c sp)) (by simp only [size]; omega)
  · intro k
    exact ⟨'[', _, by simp only [pp]; rfl, by decide⟩

theorem case_many1 (c : Expr) (sp : Span) (ih : NF c → All c) (h : NF (.many1 c sp)) : All (.many1 c sp) := by
  simp only [NF] at h
  have hc := ih h
  have hT : StarterHead (pp 4 c ++ ['.', '.', '.']) := (hc.2 4).append _
  constructor
  · have := assemble3 hT (lift_B_many1 hc.1.2.2.2.2)
    simpa [pp, parenIf, paren, Expr.eraseSpans, size] using
      this.mono (m := 10 * size (.many1 c sp)) (by simp only [size]; omega)
  · intro k
    simp only [pp]
    exact hT.parenIf _

theorem two_le_length {cs : ExprL} (h : 2 ≤ cs.length) : ∃ e1 e2 es, cs = .cons e1 (.cons e2 es) := by
  cases cs with
  | nil => simp [ExprL.length] at h
  | cons e1 cs =>
    cases cs with
    | nil => simp [ExprL.length] at h
    | cons e2 es => exact ⟨e1, e2, es, rfl⟩

theorem case_seq (cs : ExprL) (sp : Span) (ih : NFL cs → Tails cs ∧ AllL cs) (h : NF (.seq cs sp)) :
    All (.seq cs sp) := by
  simp only [NF] at h
  obtain ⟨e1, e2, es, rfl⟩ := two_le_length h.1
  obtain ⟨_, h1, h2, h3⟩ := ih h.2
  have hT : StarterHead (pp 3 e1 ++ ppTail 3 sepS (.cons e2 es)) := (h1.2 3).append _
  have hn := seq_native h1.1.2.2.2.1 h2.1 (tailS_cont _ h3)
  constructor
  · have := assemble2 hT hn
    simpa [pp, ppList, parenIf, paren, Expr.eraseSpans, ExprL.eraseSpans, size] using
      this.mono (m := 10 * size (.seq (.cons e1 (.cons e2 es)) sp)) (by simp only [size, sizeL]; omega)
  · intro k
    simp only [pp, ppList]
    exact hT.parenIf _

theorem case_alt (cs : ExprL) (sp : Span) (ih : NFL cs → Tails cs ∧ AllL cs) (h : NF (.alt cs sp)) :
    All (.alt cs sp) := by
  simp only [NF] at h
  obtain ⟨e1, e2, es, rfl⟩ := two_le_length h.1
  obtain ⟨_, h1, h2, h3⟩ := ih h.2
  have hT : StarterHead (pp 2 e1 ++ ppTail 2 sepA (.cons e2 es)) := (h1.2 2).append _
  have hn := alt_native h1.1.2.2.1 h2.2.1 (tailA_cont _)
  constructor
  · have := assemble1 hT hn
    simpa [pp, ppList, parenIf, paren, Expr.eraseSpans, ExprL.eraseSpans, size] using
      this.mono (m := 10 * size (.alt (.cons e1 (.cons e2 es)) sp)) (by simp only [size, sizeL]; omega)
  · intro k
    simp only [pp, ppList]
    exact hT.parenIf _

theorem case_fb (cs : ExprL) (sp : Span) (ih : NFL cs → Tails cs ∧ AllL cs) (h : NF (.fb cs sp)) :
    All (.fb cs sp) := by
  simp only [NF] at h
  obtain ⟨e1, e2, es, rfl⟩ := two_le_length h.1
  obtain ⟨_, h1, h2, h3⟩ := ih h.2
  have hT : StarterHead (pp 1 e1 ++ ppTail 1 sepF (.cons e2 es)) := (h1.2 1).append _
  have hn := fb_native h1.1.2.1 h2.2.2 (tailF_cont _)
  constructor
  · have := assemble0 hT hn
    simpa [pp, ppList, parenIf, paren, Expr.eraseSpans, ExprL.eraseSpans, size] using
      this.mono (m := 10 * size (.fb (.cons e1 (.cons e2 es)) sp)) (by simp only [size, sizeL]; omega)
  · intro k
    simp only [pp, ppList]
    exact hT.parenIf _

theorem all_levels (e : Expr) : NF e → All e := by
  refine Expr.rec (motive_1 := fun e => NF e → All e) (motive_2 := fun es => NFL es → Tails es ∧ AllL es)
    ?_ ?_ ?_ ?_ ?_ ?_ ?_ ?_ ?_ ?_ ?_ ?_ e
  · exact case_term
  · exact case_nonterm
  · exact case_cmd
  · exact case_seq
  · exact case_alt
  · exact case_fb
  · exact case_opt
  · exact case_many1
  · intro c d sp _ h; simp [NF] at h
  · intro c l sp _ h; simp [NF] at h
  · intro _; exact case_nil
  · intro e es ihe ihes h
    simp only [NFL] at h
    exact case_cons e es (ihe h.1) (ihes h.2)

/-- **The operator ladder reads back what the printer writes**: a normal-form tree printed with the
fewest parentheses, followed by the end of the input, `;`, `)`, `]` (possibly after blanks and
comments), is parsed by `fallback_expr` as the same tree up to spans, and exactly the printed
characters are consumed. -/
theorem fallback_roundtrip (e : Expr) (hnf : NF e) (rest : List Char) (hrest : Follows rest) (s : PState)
    (hs : s.rest = pp 0 e ++ rest) (fuel : Nat) (hfuel : fuelNeeded e ≤ fuel) :
    ∃ e', fallback fuel s = some (s.adv (pp 0 e).length, e') ∧ e'.eraseSpans = e.eraseSpans :=
  (all_levels e hnf).1.1 rest hrest s hs fuel hfuel

end Complgen.Parse
