/-
The `--dfa` dump (`Model/DotEmit.lean`: `emitDfa`, the transcription of `DFA::to_dot` /
`do_to_dot` / `diagnostic_display_input`) read back by the DOT reader (`Model/Dot.lean`).

* `emitDfa_parse` (T2): for every automaton, pool of within-word automata and `array_start`, and
  whatever characters the literals, descriptions and commands contain, the reader accepts the dump
  and returns exactly `expectedStmts`: the node defaults, one node statement per state, one
  `subgraph cluster_…` per within-word automaton, one edge per transition whose `label` attribute
  has the value `labelValue (displayInput inp)`.
* `emitDfa_wellFormed` (T1): the dump is a well-formed DOT file — without any hypothesis.
* `display_labelValue`, `escLabel_decode`: what a label shows is the text of
  `diagnostic_display_input`, unaltered.

Method: `Lexes text toks` (the lexer reads `text` as `toks` whatever follows, in at most
`text.length` steps) and `Steps toks sts` (the statement reader reads `toks` as `sts` whatever
follows, given `2 * toks.length + 4` units of fuel) both compose under `++`; every emitted line has
both, and `Reads` packs the two.
-/
import Complgen.Model.DotEmit
import Complgen.Proofs.Quote
import Complgen.Gen.Chains
namespace Complgen.Dot
open Complgen.Quote

/-! ## the lexer -/

/-- `text` is read as the tokens `toks`, whatever follows, in at most `text.length` steps -/
def Lexes (text : List Char) (toks : List Tok) : Prop :=
  ∃ k, k ≤ text.length ∧
    ∀ n rest acc, lex (n + k) (text ++ rest) acc = lex n rest (acc ++ toks)

theorem Lexes.nil : Lexes [] [] := ⟨0, by simp, by simp⟩

theorem Lexes.append {t₁ t₂ : List Char} {k₁ k₂ : List Tok} (h₁ : Lexes t₁ k₁) (h₂ : Lexes t₂ k₂) :
    Lexes (t₁ ++ t₂) (k₁ ++ k₂) := by
  obtain ⟨a, ha, h₁⟩ := h₁
  obtain ⟨b, hb, h₂⟩ := h₂
  refine ⟨b + a, by simp; omega, fun n rest acc => ?_⟩
  rw [← Nat.add_assoc, List.append_assoc, h₁, h₂, List.append_assoc]

theorem Lexes.cast {t t' : List Char} {k k' : List Tok} (h : Lexes t k) (ht : t' = t)
    (hk : k' = k) : Lexes t' k' := by
  subst ht; subst hk; exact h

abbrev IsWs (c : Char) : Prop := c = ' ' ∨ c = '\t' ∨ c = '\n'

theorem Lexes.ws (c : Char) (h : IsWs c) : Lexes [c] [] := by
  refine ⟨1, by simp, fun n rest acc => ?_⟩
  rcases h with rfl | rfl | rfl <;> simp [lex]

theorem Lexes.wsList (l : List Char) (h : ∀ c ∈ l, IsWs c) : Lexes l [] := by
  induction l with
  | nil => exact Lexes.nil
  | cons c l ih =>
    exact ((Lexes.ws c (h c (by simp))).append (ih fun x hx => h x (by simp [hx]))).cast
      (by simp) (by simp)

abbrev IsPunct (c : Char) : Prop := c = '{' ∨ c = '}' ∨ c = '[' ∨ c = ']' ∨ c = ';' ∨ c = '='

theorem Lexes.punct (c : Char) (h : IsPunct c) : Lexes [c] [.punct (String.singleton c)] := by
  refine ⟨1, by simp, fun n rest acc => ?_⟩
  rcases h with rfl | rfl | rfl | rfl | rfl | rfl <;> simp [lex]

theorem Lexes.arrow : Lexes ['-', '>'] [.punct "->"] :=
  ⟨1, by simp, fun n rest acc => by simp [lex]⟩

/-! ### identifiers -/

theorem isIdChar_of_isIdStart {c : Char} (h : isIdStart c = true) : isIdChar c = true := by
  simp only [isIdStart, isIdChar, Char.isAlphanum, Bool.or_eq_true, decide_eq_true_eq] at h ⊢
  rcases h with (h | h) | h
  · exact .inl (.inl (.inl h))
  · exact .inl (.inr h)
  · exact .inr h

theorem isIdChar_of_isDigit {c : Char} (h : c.isDigit = true) : isIdChar c = true := by
  simp [isIdChar, Char.isAlphanum, h]

theorem takeWhile_append_stop {α} (p : α → Bool) (w : List α) (d : α) (rest : List α)
    (hw : ∀ x ∈ w, p x = true) (hd : p d = false) : (w ++ d :: rest).takeWhile p = w := by
  induction w with
  | nil => simp [hd]
  | cons x w ih =>
    simp only [List.cons_append, List.takeWhile, hw x (by simp)]
    rw [ih (fun y hy => hw y (by simp [hy]))]

theorem lex_id (c : Char) (w : List Char) (d : Char) (rest : List Char) (acc : List Tok) (n : Nat)
    (hc : isIdStart c = true) (hw : ∀ x ∈ w, isIdChar x = true) (hd : isIdChar d = false) :
    lex (n + 1) (c :: w ++ d :: rest) acc
      = lex n (d :: rest) (acc ++ [.id (String.ofList (c :: w))]) := by
  have ne : ∀ x : Char, isIdStart x = false → c ≠ x := fun x hx e => by
    subst e; rw [hc] at hx; cases hx
  have h1 := ne ' ' (by decide)
  have h2 := ne '\t' (by decide)
  have h3 := ne '\n' (by decide)
  have h4 := ne '\r' (by decide)
  have h5 := ne '/' (by decide)
  have h6 := ne '#' (by decide)
  have h7 := ne '"' (by decide)
  have h8 := ne '-' (by decide)
  have h9 := ne '{' (by decide)
  have h10 := ne '}' (by decide)
  have h11 := ne '[' (by decide)
  have h12 := ne ']' (by decide)
  have h13 := ne ';' (by decide)
  have h14 := ne ',' (by decide)
  have h15 := ne '=' (by decide)
  have htw : (c :: (w ++ d :: rest)).takeWhile isIdChar = c :: w := by
    have := takeWhile_append_stop isIdChar (c :: w) d rest
      (by intro x hx; rcases List.mem_cons.mp hx with rfl | hx
          · exact isIdChar_of_isIdStart hc
          · exact hw x hx) hd
    simpa using this
  simp only [List.cons_append, lex, h1, h2, h3, h4, h5, h6, h7, h8, h9, h10, h11, h12, h13, h14, h15,
    decide_false, Bool.or_false, Bool.false_eq_true, if_false, hc, if_true, htw]
  simp

/-- an identifier followed by a delimiter `d` (a blank or a punctuation character) -/
theorem Lexes.idThen (c : Char) (w : List Char) (d : Char) {toks : List Tok}
    (hc : isIdStart c = true) (hw : ∀ x ∈ w, isIdChar x = true) (hd : isIdChar d = false)
    (h : Lexes [d] toks) : Lexes (c :: w ++ [d]) (.id (String.ofList (c :: w)) :: toks) := by
  obtain ⟨k, hk, h⟩ := h
  refine ⟨k + 1, by simp at hk ⊢; omega, fun n rest acc => ?_⟩
  have e : (c :: w ++ [d]) ++ rest = c :: w ++ d :: rest := by simp
  rw [e, ← Nat.add_assoc, lex_id c w d rest acc (n + k) hc hw hd]
  have := h n rest (acc ++ [.id (String.ofList (c :: w))])
  simpa using this

theorem Lexes.idWs (c : Char) (w : List Char)
    (hc : isIdStart c = true) (hw : ∀ x ∈ w, isIdChar x = true) :
    Lexes (c :: w ++ [' ']) [.id (String.ofList (c :: w))] :=
  Lexes.idThen c w ' ' hc hw (by decide) (Lexes.ws ' ' (.inl rfl))

theorem Lexes.idPunct (c : Char) (w : List Char) (d : Char)
    (hc : isIdStart c = true) (hw : ∀ x ∈ w, isIdChar x = true) (hd : IsPunct d) :
    Lexes (c :: w ++ [d]) [.id (String.ofList (c :: w)), .punct (String.singleton d)] :=
  Lexes.idThen c w d hc hw
    (by rcases hd with rfl | rfl | rfl | rfl | rfl | rfl <;> decide) (Lexes.punct d hd)

/-! ### quoted strings -/

theorem lexQuoted_plain (c : Char) (r acc : List Char) (h1 : c ≠ '"') (h2 : c ≠ '\\') :
    lexQuoted (c :: r) acc = lexQuoted r (acc ++ [c]) := by
  conv => lhs; unfold lexQuoted
  split <;> simp_all

theorem escLabel_cons (c : Char) (s : List Char) : escLabel (c :: s) = escLabel [c] ++ escLabel s :=
  applyChain_cons _ _ _

theorem escLabel_single (c : Char) : escLabel [c] =
    if c = '\\' then ['\\', '\\'] else if c = '"' then ['\\', '"'] else [c] := by
  by_cases h1 : c = '\\'
  · subst h1; decide
  · by_cases h2 : c = '"'
    · subst h2; decide
    · simp [escLabel, dotLabelChain, applyChain, rep1, h1, h2]

theorem labelValue_cons (c : Char) (s : List Char) :
    labelValue (c :: s) = (if c = '\\' then ['\\', '\\'] else [c]) ++ labelValue s := by
  simp [labelValue, rep1]

/-- the reader of quoted strings on an escaped label: it ends at the closing quote the emitter
wrote, not before, and keeps `labelValue s` -/
theorem lexQuoted_escLabel (s rest acc : List Char) :
    lexQuoted (escLabel s ++ '"' :: rest) acc = some (acc ++ labelValue s, rest) := by
  induction s generalizing acc with
  | nil => simp [escLabel, applyChain_nil, labelValue, rep1, lexQuoted]
  | cons c s ih =>
    rw [escLabel_cons, escLabel_single, labelValue_cons]
    by_cases h1 : c = '\\'
    · subst h1
      simp only [if_true, List.cons_append, List.nil_append]
      rw [lexQuoted, ih]; simp
    · by_cases h2 : c = '"'
      · subst h2
        simp only [if_neg h1, if_true, List.cons_append, List.nil_append]
        rw [lexQuoted, ih]; simp
      · simp only [if_neg h1, if_neg h2, List.cons_append, List.nil_append]
        rw [lexQuoted_plain _ _ _ h2 h1, ih]; simp

theorem Lexes.quoted (s : List Char) :
    Lexes ('"' :: escLabel s ++ ['"']) [.qid (String.ofList (labelValue s))] := by
  refine ⟨1, by simp, fun n rest acc => ?_⟩
  have e : ('"' :: escLabel s ++ ['"']) ++ rest = '"' :: (escLabel s ++ '"' :: rest) := by simp
  rw [e]
  simp [lex, lexQuoted_escLabel]

/-- no quote, no backslash -/
def Plain (s : List Char) : Prop := ∀ c ∈ s, c ≠ '"' ∧ c ≠ '\\'

theorem escLabel_plain (s : List Char) (h : Plain s) : escLabel s = s := by
  induction s with
  | nil => simp [escLabel, applyChain_nil]
  | cons c s ih =>
    have := h c (by simp)
    rw [escLabel_cons, escLabel_single, ih fun x hx => h x (by simp [hx])]
    simp [this.1, this.2]

theorem labelValue_plain (s : List Char) (h : Plain s) : labelValue s = s := by
  induction s with
  | nil => simp [labelValue, rep1]
  | cons c s ih =>
    have := h c (by simp)
    rw [labelValue_cons, ih fun x hx => h x (by simp [hx])]
    simp [this.2]

theorem Lexes.quotedPlain (s : List Char) (h : Plain s) :
    Lexes ('"' :: s ++ ['"']) [.qid (String.ofList s)] := by
  have := Lexes.quoted s
  rwa [escLabel_plain s h, labelValue_plain s h] at this

theorem plain_of_idChars (s : List Char) (h : ∀ c ∈ s, isIdChar c = true) : Plain s := by
  intro c hc
  have := h c hc
  constructor <;> (rintro rfl; revert this; decide)

/-! ## the statement reader -/

theorem keyword_eq_iff (s t : String) : keyword s = t ↔ s.toList.map Char.toLower = t.toList := by
  unfold keyword String.toLower
  rw [← String.toList_inj, String.toList_map]

/-- an identifier that is none of the statement keywords -/
def NotKw (s : String) : Prop :=
  (keyword s == "subgraph") = false ∧ (keyword s == "node") = false ∧
  (keyword s == "edge") = false ∧ (keyword s == "graph") = false

theorem notKw_underscore (w : List Char) : NotKw (String.ofList ('_' :: w)) := by
  refine ⟨?_, ?_, ?_, ?_⟩ <;> (rw [beq_eq_false_iff_ne, Ne, keyword_eq_iff]; simp)

theorem notKw_of_toList (s : String) (l : List Char) (h : s.toList = l)
    (h' : l.map Char.toLower ≠ "subgraph".toList ∧ l.map Char.toLower ≠ "node".toList ∧
      l.map Char.toLower ≠ "edge".toList ∧ l.map Char.toLower ≠ "graph".toList) : NotKw s := by
  subst h
  refine ⟨?_, ?_, ?_, ?_⟩ <;> rw [beq_eq_false_iff_ne, Ne, keyword_eq_iff]
  · exact h'.1
  · exact h'.2.1
  · exact h'.2.2.1
  · exact h'.2.2.2

theorem notKw_label : NotKw "label" := notKw_of_toList _ _ rfl (by decide)
theorem notKw_color : NotKw "color" := notKw_of_toList _ _ rfl (by decide)
theorem notKw_style : NotKw "style" := notKw_of_toList _ _ rfl (by decide)
theorem notKw_rankdir : NotKw "rankdir" := notKw_of_toList _ _ rfl (by decide)

theorem attrList_one (f : Nat) (k v : Tok) (ks vs : String) (hk : tokVal k = some ks)
    (hv : tokVal v = some vs) (rest : List Tok) (acc : List Attr) :
    attrList (f + 3) (.punct "[" :: k :: .punct "=" :: v :: .punct "]" :: .punct ";" :: rest) acc
      = some (acc ++ [⟨ks, vs⟩], .punct ";" :: rest) := by
  cases k <;> simp [tokVal] at hk <;> cases v <;> simp [tokVal] at hv <;> subst hk <;> subst hv <;>
    simp [attrList, attrList.inner, tokVal]

theorem stmts_semi (n : Nat) (rest : List Tok) (acc : List Stmt) :
    stmts (n + 1) (.punct ";" :: rest) acc = stmts n rest acc := by
  simp [stmts]

theorem stmts_close (n : Nat) (rest : List Tok) (acc : List Stmt) :
    stmts (n + 1) (.punct "}" :: rest) acc = some (acc, .punct "}" :: rest) := by
  simp [stmts]

theorem stmts_node (m : Nat) (name : String) (hn : NotKw name) (k v : Tok) (ks vs : String)
    (hk : tokVal k = some ks) (hv : tokVal v = some vs) (rest : List Tok) (acc : List Stmt) :
    stmts (m + 4 + 2)
        (.id name :: .punct "[" :: k :: .punct "=" :: v :: .punct "]" :: .punct ";" :: rest) acc
      = stmts (m + 4) rest (acc ++ [.node name [⟨ks, vs⟩]]) := by
  obtain ⟨h1, h2, h3, h4⟩ := hn
  rw [stmts]
  simp only [h1, h2, h3, h4, Bool.or_false, Bool.false_eq_true, if_false]
  rw [stmts.stmtFromId]
  · rw [show m + 4 + 1 = (m + 2) + 3 from rfl, attrList_one _ k v ks vs hk hv]
    simp only [List.nil_append]
    rw [show m + 2 + 3 = (m + 4) + 1 from rfl, stmts_semi]
  · simp
  · simp

theorem stmts_dflt (m : Nat) (k v : Tok) (ks vs : String)
    (hk : tokVal k = some ks) (hv : tokVal v = some vs) (rest : List Tok) (acc : List Stmt) :
    stmts (m + 4 + 2)
        (.id (String.ofList ['n', 'o', 'd', 'e']) :: .punct "[" :: k :: .punct "=" :: v ::
          .punct "]" :: .punct ";" :: rest) acc
      = stmts (m + 4) rest (acc ++ [.dflt "node" [⟨ks, vs⟩]]) := by
  have h1 : (("node" : String) == "subgraph") = false := by decide
  have h2 : keyword (String.ofList ['n', 'o', 'd', 'e']) = "node" := by
    rw [keyword_eq_iff]; decide
  rw [stmts]
  simp only [h2, h1, Bool.false_eq_true, if_false, beq_self_eq_true, Bool.true_or, if_true]
  rw [show m + 4 + 1 = (m + 2) + 3 from rfl, attrList_one _ k v ks vs hk hv]
  simp only [List.nil_append]
  rw [show m + 2 + 3 = (m + 4) + 1 from rfl, stmts_semi]

theorem stmts_assign (m : Nat) (name : String) (hn : NotKw name) (v : Tok) (vs : String)
    (hv : tokVal v = some vs) (rest : List Tok) (acc : List Stmt) :
    stmts (m + 2) (.id name :: .punct "=" :: v :: .punct ";" :: rest) acc
      = stmts m rest (acc ++ [.assign name vs]) := by
  obtain ⟨h1, h2, h3, h4⟩ := hn
  rw [stmts]
  simp only [h1, h2, h3, h4, Bool.or_false, Bool.false_eq_true, if_false]
  rw [stmts.stmtFromId]
  simp only [hv]
  rw [stmts_semi]

theorem edgePath_one (f : Nat) (t : Tok) (ts : String) (ht : tokVal t = some ts) (rest : List Tok)
    (acc : List String) :
    edgePath (f + 2) (.punct "->" :: t :: .punct "[" :: rest) acc
      = some (acc ++ [ts], .punct "[" :: rest) := by
  rw [edgePath]; simp only [ht]; rw [edgePath]; simp

theorem stmts_edge (m : Nat) (a : String) (hn : NotKw a) (b k v : Tok) (bs ks vs : String)
    (hb : tokVal b = some bs)
    (hk : tokVal k = some ks) (hv : tokVal v = some vs) (rest : List Tok) (acc : List Stmt) :
    stmts (m + 4 + 2)
        (.id a :: .punct "->" :: b :: .punct "[" :: k :: .punct "=" :: v :: .punct "]" ::
          .punct ";" :: rest) acc
      = stmts (m + 4) rest (acc ++ [.edge [a, bs] [⟨ks, vs⟩]]) := by
  obtain ⟨h1, h2, h3, h4⟩ := hn
  rw [stmts]
  simp only [h1, h2, h3, h4, Bool.or_false, Bool.false_eq_true, if_false]
  rw [stmts.stmtFromId]
  · rw [show m + 4 + 1 = (m + 3) + 2 from rfl, edgePath_one _ b bs hb]
    simp only [List.cons_append, List.nil_append]
    rw [show m + 3 + 2 = (m + 2) + 3 from rfl, attrList_one _ k v ks vs hk hv]
    simp only [List.nil_append]
    rw [show m + 2 + 3 = (m + 4) + 1 from rfl, stmts_semi]

theorem stmts_sub (n : Nat) (name : Tok) (ns : String) (hn : tokVal name = some ns)
    (body : List Tok) (bodySts : List Stmt) (rest : List Tok) (acc : List Stmt)
    (hb : stmts n (body ++ .punct "}" :: rest) [] = some (bodySts, .punct "}" :: rest)) :
    stmts (n + 1)
        (.id (String.ofList ['s', 'u', 'b', 'g', 'r', 'a', 'p', 'h']) :: name :: .punct "{" ::
          (body ++ .punct "}" :: rest)) acc
      = stmts n rest (acc ++ [.sub ns bodySts]) := by
  have h2 : keyword (String.ofList ['s', 'u', 'b', 'g', 'r', 'a', 'p', 'h']) = "subgraph" := by
    rw [keyword_eq_iff]; decide
  rw [stmts]
  simp only [h2, beq_self_eq_true, if_true, hn, hb]

/-- `toks` is read as the statements `sts`, whatever follows, given enough fuel -/
def Steps (toks : List Tok) (sts : List Stmt) : Prop :=
  ∃ c, c ≤ toks.length ∧ ∀ n rest acc, 2 * toks.length + 4 ≤ n →
    stmts n (toks ++ rest) acc = stmts (n - c) rest (acc ++ sts)

theorem Steps.nil : Steps [] [] := ⟨0, by simp, by simp⟩

theorem Steps.append {t₁ t₂ : List Tok} {s₁ s₂ : List Stmt} (h₁ : Steps t₁ s₁) (h₂ : Steps t₂ s₂) :
    Steps (t₁ ++ t₂) (s₁ ++ s₂) := by
  obtain ⟨a, ha, h₁⟩ := h₁
  obtain ⟨b, hb, h₂⟩ := h₂
  refine ⟨a + b, by simp; omega, fun n rest acc hn => ?_⟩
  simp only [List.length_append] at hn
  rw [List.append_assoc, h₁ _ _ _ (by omega), h₂ _ _ _ (by omega), List.append_assoc,
    Nat.sub_sub]

theorem Steps.cast {t t' : List Tok} {s s' : List Stmt} (h : Steps t s) (ht : t' = t)
    (hs : s' = s) : Steps t' s' := by
  subst ht; subst hs; exact h

theorem Steps.node (name : String) (hn : NotKw name) (k v : Tok) (ks vs : String)
    (hk : tokVal k = some ks) (hv : tokVal v = some vs) :
    Steps [.id name, .punct "[", k, .punct "=", v, .punct "]", .punct ";"]
      [.node name [⟨ks, vs⟩]] := by
  refine ⟨2, by simp, fun n rest acc h => ?_⟩
  obtain ⟨m, rfl⟩ : ∃ m, n = m + 4 + 2 := ⟨n - 6, by simp at h; omega⟩
  exact stmts_node m name hn k v ks vs hk hv rest acc

theorem Steps.dflt (k v : Tok) (ks vs : String)
    (hk : tokVal k = some ks) (hv : tokVal v = some vs) :
    Steps [.id (String.ofList ['n', 'o', 'd', 'e']), .punct "[", k, .punct "=", v, .punct "]",
        .punct ";"]
      [.dflt "node" [⟨ks, vs⟩]] := by
  refine ⟨2, by simp, fun n rest acc h => ?_⟩
  obtain ⟨m, rfl⟩ : ∃ m, n = m + 4 + 2 := ⟨n - 6, by simp at h; omega⟩
  exact stmts_dflt m k v ks vs hk hv rest acc

theorem Steps.assign (name : String) (hn : NotKw name) (v : Tok) (vs : String)
    (hv : tokVal v = some vs) :
    Steps [.id name, .punct "=", v, .punct ";"] [.assign name vs] := by
  refine ⟨2, by simp, fun n rest acc h => ?_⟩
  obtain ⟨m, rfl⟩ : ∃ m, n = m + 2 := ⟨n - 2, by simp at h; omega⟩
  exact stmts_assign m name hn v vs hv rest acc

theorem Steps.edge (a : String) (hn : NotKw a) (b k v : Tok) (bs ks vs : String)
    (hb : tokVal b = some bs) (hk : tokVal k = some ks) (hv : tokVal v = some vs) :
    Steps [.id a, .punct "->", b, .punct "[", k, .punct "=", v, .punct "]", .punct ";"]
      [.edge [a, bs] [⟨ks, vs⟩]] := by
  refine ⟨2, by simp, fun n rest acc h => ?_⟩
  obtain ⟨m, rfl⟩ : ∃ m, n = m + 4 + 2 := ⟨n - 6, by simp at h; omega⟩
  exact stmts_edge m a hn b k v bs ks vs hb hk hv rest acc

theorem Steps.sub (name : Tok) (ns : String) (hn : tokVal name = some ns)
    (body : List Tok) (bodySts : List Stmt) (hb : Steps body bodySts) :
    Steps (.id (String.ofList ['s', 'u', 'b', 'g', 'r', 'a', 'p', 'h']) :: name :: .punct "{" ::
        (body ++ [.punct "}"]))
      [.sub ns bodySts] := by
  obtain ⟨c, hc, hb⟩ := hb
  refine ⟨1, by simp, fun n rest acc h => ?_⟩
  simp only [List.length_cons, List.length_append, List.length_nil] at h
  have e : (Tok.id (String.ofList ['s', 'u', 'b', 'g', 'r', 'a', 'p', 'h']) :: name :: .punct "{" ::
        (body ++ [.punct "}"])) ++ rest
      = .id (String.ofList ['s', 'u', 'b', 'g', 'r', 'a', 'p', 'h']) :: name :: .punct "{" ::
        (body ++ .punct "}" :: rest) := by simp
  obtain ⟨m, rfl⟩ : ∃ m, n = m + 1 := ⟨n - 1, by omega⟩
  rw [e]
  apply stmts_sub m name ns hn
  rw [hb _ _ _ (by omega)]
  obtain ⟨j, hj⟩ : ∃ j, m - c = j + 1 := ⟨m - c - 1, by omega⟩
  rw [hj, stmts_close]
  simp
/-! ## lines -/

/-- `text` is read as the statements `sts`, whatever follows -/
def Reads (text : List Char) (sts : List Stmt) : Prop :=
  ∃ toks, Lexes text toks ∧ Steps toks sts

theorem Reads.nil : Reads [] [] := ⟨[], Lexes.nil, Steps.nil⟩

theorem Reads.append {t₁ t₂ : List Char} {s₁ s₂ : List Stmt} (h₁ : Reads t₁ s₁) (h₂ : Reads t₂ s₂) :
    Reads (t₁ ++ t₂) (s₁ ++ s₂) := by
  obtain ⟨k₁, l₁, p₁⟩ := h₁
  obtain ⟨k₂, l₂, p₂⟩ := h₂
  exact ⟨k₁ ++ k₂, l₁.append l₂, p₁.append p₂⟩

theorem Reads.cast {t t' : List Char} {s s' : List Stmt} (h : Reads t s) (ht : t' = t)
    (hs : s' = s) : Reads t' s' := by
  subst ht; subst hs; exact h

theorem Reads.ws (l : List Char) (h : ∀ c ∈ l, IsWs c) : Reads l [] :=
  ⟨[], Lexes.wsList l h, Steps.nil⟩

theorem Reads.flatMap {α} (l : List α) (f : α → List Char) (g : α → List Stmt)
    (h : ∀ x ∈ l, Reads (f x) (g x)) : Reads (l.flatMap f) (l.flatMap g) := by
  induction l with
  | nil => exact Reads.nil
  | cons x l ih =>
    simp only [List.flatMap_cons]
    exact (h x (by simp)).append (ih fun y hy => h y (by simp [hy]))

theorem map_eq_flatMap {α β} (g : α → β) (l : List α) :
    l.map g = l.flatMap (fun x => [g x]) := by
  induction l <;> simp_all

theorem Reads.flatMap_map {α} (l : List α) (f : α → List Char) (g : α → Stmt)
    (h : ∀ x ∈ l, Reads (f x) [g x]) : Reads (l.flatMap f) (l.map g) := by
  have := Reads.flatMap l f (fun x => [g x]) h
  exact this.cast rfl (map_eq_flatMap g l)

/-- a blank prefix -/
def Blank (ind : List Char) : Prop := ∀ c ∈ ind, IsWs c

theorem blank_indent (lvl : Nat) : Blank (indent lvl) := by
  intro c hc
  simp only [indent, List.mem_cons, List.mem_replicate] at hc
  rcases hc with rfl | ⟨_, rfl⟩ <;> exact .inr (.inl rfl)

/-- an identifier prefix -/
def PreOK (pre : List Char) : Prop := ∀ x ∈ pre, isIdChar x = true

theorem natChars_idChar (n : Nat) : ∀ x ∈ natChars n, isIdChar x = true := fun _ hx =>
  isIdChar_of_isDigit (Nat.isDigit_of_mem_toDigits (by decide) (by decide) hx)

theorem preOK_nil : PreOK [] := by intro x hx; cases hx

theorem preOK_subPrefix (id : Nat) : PreOK (subPrefix id) := by
  intro x hx
  simp only [subPrefix, List.mem_append, List.mem_singleton] at hx
  rcases hx with hx | rfl
  · exact natChars_idChar id x hx
  · decide

theorem idChars_append {a b : List Char} (ha : ∀ x ∈ a, isIdChar x = true)
    (hb : ∀ x ∈ b, isIdChar x = true) : ∀ x ∈ a ++ b, isIdChar x = true := by
  intro x hx
  rcases List.mem_append.mp hx with h | h
  · exact ha x h
  · exact hb x h

theorem Reads.shapeLine (ind : List Char) (hind : Blank ind) (shape : String) (c : Char)
    (w : List Char) (hs : shape.toList = c :: w) (hc : isIdStart c = true)
    (hw : ∀ x ∈ w, isIdChar x = true) :
    Reads (shapeLine ind shape.toList) [shapeStmt shape] := by
  refine ⟨[.id (String.ofList ['n', 'o', 'd', 'e']), .punct "[",
    .id (String.ofList ['s', 'h', 'a', 'p', 'e']), .punct "=", .id shape, .punct "]",
    .punct ";"], ?_, ?_⟩
  · have h := (Lexes.wsList ind hind).append <|
      (Lexes.idWs 'n' ['o', 'd', 'e'] (by decide) (by decide)).append <|
      (Lexes.punct '[' (by decide)).append <|
      (Lexes.idPunct 's' ['h', 'a', 'p', 'e'] '=' (by decide) (by decide) (by decide)).append <|
      (Lexes.idPunct c w ']' hc hw (by decide)).append <|
      (Lexes.punct ';' (by decide)).append (Lexes.ws '\n' (by decide))
    refine h.cast ?_ ?_
    · simp [Dot.shapeLine, hs]
    · simp [← hs]
  · exact Steps.dflt _ _ "shape" shape rfl rfl

theorem plain_append {a b : List Char} (ha : Plain a) (hb : Plain b) : Plain (a ++ b) := by
  intro x hx
  rcases List.mem_append.mp hx with h | h
  · exact ha x h
  · exact hb x h

theorem notKw_nodeName (pre : List Char) (n : Nat) : NotKw (nodeName pre n) :=
  notKw_underscore _

theorem Reads.nodeLine (ind : List Char) (hind : Blank ind) (pre : List Char) (hpre : PreOK pre)
    (n : Nat) : Reads (nodeLine ind pre n) [nodeStmt pre n] := by
  have hw := idChars_append hpre (natChars_idChar n)
  refine ⟨[.id (nodeName pre n), .punct "[", .id (String.ofList ['l', 'a', 'b', 'e', 'l']),
    .punct "=", .qid (String.ofList (pre ++ natChars n)), .punct "]", .punct ";"], ?_, ?_⟩
  · have h := (Lexes.wsList ind hind).append <|
      (Lexes.idPunct '_' (pre ++ natChars n) '[' (by decide) hw (by decide)).append <|
      (Lexes.idPunct 'l' ['a', 'b', 'e', 'l'] '=' (by decide) (by decide) (by decide)).append <|
      (Lexes.quotedPlain (pre ++ natChars n) (plain_of_idChars _ hw)).append <|
      (Lexes.punct ']' (by decide)).append <|
      (Lexes.punct ';' (by decide)).append (Lexes.ws '\n' (by decide))
    refine h.cast ?_ ?_
    · simp [Dot.nodeLine, nodeId]
    · simp [nodeName, nodeId]
  · exact Steps.node _ (notKw_nodeName pre n) _ _ "label" _ rfl rfl

theorem Reads.dashedLine (ind : List Char) (hind : Blank ind) (p₁ p₂ : List Char)
    (h₁ : PreOK p₁) (h₂ : PreOK p₂) (n₁ n₂ : Nat) :
    Reads (dashedLine ind (nodeId p₁ n₁) (nodeId p₂ n₂))
      [dashedStmt (nodeName p₁ n₁) (nodeName p₂ n₂)] := by
  have hw₁ := idChars_append h₁ (natChars_idChar n₁)
  have hw₂ := idChars_append h₂ (natChars_idChar n₂)
  refine ⟨[.id (nodeName p₁ n₁), .punct "->", .id (nodeName p₂ n₂), .punct "[",
    .id (String.ofList ['s', 't', 'y', 'l', 'e']), .punct "=",
    .qid (String.ofList ['d', 'a', 's', 'h', 'e', 'd']), .punct "]", .punct ";"], ?_, ?_⟩
  · have h := (Lexes.wsList ind hind).append <|
      (Lexes.idWs '_' (p₁ ++ natChars n₁) (by decide) hw₁).append <|
      Lexes.arrow.append <| (Lexes.ws ' ' (by decide)).append <|
      (Lexes.idWs '_' (p₂ ++ natChars n₂) (by decide) hw₂).append <|
      (Lexes.punct '[' (by decide)).append <|
      (Lexes.idPunct 's' ['t', 'y', 'l', 'e'] '=' (by decide) (by decide) (by decide)).append <|
      (Lexes.quotedPlain ['d', 'a', 's', 'h', 'e', 'd'] (plain_of_idChars _ (by decide))).append <|
      (Lexes.punct ']' (by decide)).append <|
      (Lexes.punct ';' (by decide)).append (Lexes.ws '\n' (by decide))
    refine h.cast ?_ ?_
    · simp [Dot.dashedLine, nodeId]
    · simp [nodeName, nodeId]
  · exact Steps.edge _ (notKw_nodeName p₁ n₁) _ _ _ _ "style" "dashed" rfl rfl rfl

theorem Reads.labelLine (ind : List Char) (hind : Blank ind) (p₁ p₂ : List Char)
    (h₁ : PreOK p₁) (h₂ : PreOK p₂) (n₁ n₂ : Nat) (label : List Char) :
    Reads (labelLine ind (nodeId p₁ n₁) (nodeId p₂ n₂) label)
      [labelStmt (nodeName p₁ n₁) (nodeName p₂ n₂) label] := by
  have hw₁ := idChars_append h₁ (natChars_idChar n₁)
  have hw₂ := idChars_append h₂ (natChars_idChar n₂)
  refine ⟨[.id (nodeName p₁ n₁), .punct "->", .id (nodeName p₂ n₂), .punct "[",
    .id (String.ofList ['l', 'a', 'b', 'e', 'l']), .punct "=",
    .qid (String.ofList (labelValue label)), .punct "]", .punct ";"], ?_, ?_⟩
  · have h := (Lexes.wsList ind hind).append <|
      (Lexes.idWs '_' (p₁ ++ natChars n₁) (by decide) hw₁).append <|
      Lexes.arrow.append <| (Lexes.ws ' ' (by decide)).append <|
      (Lexes.idWs '_' (p₂ ++ natChars n₂) (by decide) hw₂).append <|
      (Lexes.punct '[' (by decide)).append <|
      (Lexes.idPunct 'l' ['a', 'b', 'e', 'l'] '=' (by decide) (by decide) (by decide)).append <|
      (Lexes.quoted label).append <|
      (Lexes.punct ']' (by decide)).append <|
      (Lexes.punct ';' (by decide)).append (Lexes.ws '\n' (by decide))
    refine h.cast ?_ ?_
    · simp [Dot.labelLine, nodeId]
    · simp [nodeName, nodeId]
  · exact Steps.edge _ (notKw_nodeName p₁ n₁) _ _ _ _ "label" _ rfl rfl rfl

theorem Reads.transLines (pool : List Auto) (a : Auto) (base : Nat) (ids : List (Nat × Nat))
    (ind : List Char) (hind : Blank ind) (pre : List Char) (hpre : PreOK pre)
    (t : Nat × Nat × Nat) :
    Reads (transLines pool a base ids ind pre t) (transStmts pool a base ids pre t) := by
  unfold Dot.transLines transStmts
  generalize inputAt a t.2.1 = inp
  cases inp with
  | sub k l =>
    dsimp only
    exact (Reads.dashedLine ind hind _ _ hpre (preOK_subPrefix _) _ _).append
      (Reads.flatMap_map _ _ _ fun q _ =>
        Reads.dashedLine ind hind _ _ (preOK_subPrefix _) hpre _ _)
  | lit t d l => exact Reads.labelLine ind hind _ _ hpre hpre _ _ _
  | cmd c l => exact Reads.labelLine ind hind _ _ hpre hpre _ _ _
  | compadd c l => exact Reads.labelLine ind hind _ _ hpre hpre _ _ _
  | star => exact Reads.labelLine ind hind _ _ hpre hpre _ _ _

theorem clusterName_eq (pre : List Char) (id : Nat) : clusterName pre id =
    String.ofList ('c' :: (['l', 'u', 's', 't', 'e', 'r', '_'] ++ (pre ++ natChars id))) := by
  unfold clusterName
  simp only [String.reduceToList, List.cons_append, List.nil_append]

theorem subwordLabel_eq (id : Nat) : String.ofList ("subword ".toList ++ natChars id) =
    String.ofList (['s', 'u', 'b', 'w', 'o', 'r', 'd', ' '] ++ natChars id) := by
  simp only [String.reduceToList]

/-- the tokens of the three attribute lines of a cluster -/
def clusterAttrToks (id : Nat) : List Tok :=
  [.id (String.ofList ['l', 'a', 'b', 'e', 'l']), .punct "=",
   .qid (String.ofList (['s', 'u', 'b', 'w', 'o', 'r', 'd', ' '] ++ natChars id)), .punct ";",
   .id (String.ofList ['c', 'o', 'l', 'o', 'r']), .punct "=",
   .id (String.ofList ['g', 'r', 'e', 'y', '9', '1']), .punct ";",
   .id (String.ofList ['s', 't', 'y', 'l', 'e']), .punct "=",
   .id (String.ofList ['f', 'i', 'l', 'l', 'e', 'd']), .punct ";"]

theorem steps_clusterAttrs (id : Nat) : Steps (clusterAttrToks id) (clusterAttrs id) := by
  have h := (Steps.assign "label" notKw_label
      (.qid (String.ofList (['s', 'u', 'b', 'w', 'o', 'r', 'd', ' '] ++ natChars id))) _ rfl).append <|
    (Steps.assign "color" notKw_color (.id (String.ofList ['g', 'r', 'e', 'y', '9', '1']))
      "grey91" rfl).append
    (Steps.assign "style" notKw_style (.id (String.ofList ['f', 'i', 'l', 'l', 'e', 'd']))
      "filled" rfl)
  refine h.cast rfl ?_
  unfold clusterAttrs
  rw [subwordLabel_eq]
  rfl

theorem lexes_clusterHead (ind : List Char) (hind : Blank ind) (pre : List Char)
    (hpre : PreOK pre) (id : Nat) :
    Lexes (clusterHead ind pre id)
      (.id (String.ofList ['s', 'u', 'b', 'g', 'r', 'a', 'p', 'h']) :: .id (clusterName pre id) ::
        .punct "{" :: clusterAttrToks id) := by
  have hw := idChars_append hpre (natChars_idChar id)
  have hname : ∀ x ∈ ['l', 'u', 's', 't', 'e', 'r', '_'] ++ (pre ++ natChars id),
      isIdChar x = true := idChars_append (by decide) hw
  have hsub : Plain (['s', 'u', 'b', 'w', 'o', 'r', 'd', ' '] ++ natChars id) :=
    plain_append (by intro c hc; revert c; decide)
      (plain_of_idChars _ (natChars_idChar id))
  have hi := Lexes.wsList ind hind
  have tab := Lexes.ws '\t' (by decide)
  have nl := Lexes.ws '\n' (by decide)
  have h := hi.append <|
    (Lexes.idWs 's' ['u', 'b', 'g', 'r', 'a', 'p', 'h'] (by decide) (by decide)).append <|
    (Lexes.idWs 'c' _ (by decide) hname).append <|
    (Lexes.punct '{' (by decide)).append <| nl.append <|
    hi.append <| tab.append <|
    (Lexes.idPunct 'l' ['a', 'b', 'e', 'l'] '=' (by decide) (by decide) (by decide)).append <|
    (Lexes.quotedPlain _ hsub).append <| (Lexes.punct ';' (by decide)).append <| nl.append <|
    hi.append <| tab.append <|
    (Lexes.idPunct 'c' ['o', 'l', 'o', 'r'] '=' (by decide) (by decide) (by decide)).append <|
    (Lexes.idPunct 'g' ['r', 'e', 'y', '9', '1'] ';' (by decide) (by decide) (by decide)).append <|
    nl.append <| hi.append <| tab.append <|
    (Lexes.idPunct 's' ['t', 'y', 'l', 'e'] '=' (by decide) (by decide) (by decide)).append <|
    (Lexes.idPunct 'f' ['i', 'l', 'l', 'e', 'd'] ';' (by decide) (by decide) (by decide)).append nl
  refine h.cast ?_ ?_
  · simp only [Dot.clusterHead, String.reduceToList, List.cons_append, List.nil_append,
      List.append_assoc]
  · rw [clusterName_eq]
    simp only [clusterAttrToks, List.cons_append, List.nil_append, String.reduceSingleton]

theorem lexes_clusterTail (ind : List Char) (hind : Blank ind) :
    Lexes (clusterTail ind) [.punct "}"] := by
  have h := (Lexes.wsList ind hind).append <|
    (Lexes.punct '}' (by decide)).append (Lexes.ws '\n' (by decide))
  exact h.cast (by simp [Dot.clusterTail]) (by simp)

theorem Reads.cluster (ind : List Char) (hind : Blank ind) (pre : List Char) (hpre : PreOK pre)
    (id : Nat) (body : List Char) (bodySts : List Stmt) (hb : Reads body bodySts) :
    Reads (clusterHead ind pre id ++ body ++ clusterTail ind)
      [.sub (clusterName pre id) (clusterAttrs id ++ bodySts)] := by
  obtain ⟨bt, bl, bs⟩ := hb
  refine ⟨.id (String.ofList ['s', 'u', 'b', 'g', 'r', 'a', 'p', 'h']) :: .id (clusterName pre id) ::
    .punct "{" :: ((clusterAttrToks id ++ bt) ++ [.punct "}"]), ?_, ?_⟩
  · have h := ((lexes_clusterHead ind hind pre hpre id).append bl).append
      (lexes_clusterTail ind hind)
    refine h.cast rfl ?_
    simp only [List.cons_append, List.append_assoc]
  · exact Steps.sub (.id (clusterName pre id)) (clusterName pre id) rfl (clusterAttrToks id ++ bt)
      (clusterAttrs id ++ bodySts) ((steps_clusterAttrs id).append bs)

theorem Reads.startShapeLine (ind : List Char) (hind : Blank ind) (a : Auto) :
    Reads (Dot.shapeLine ind (startShape a).toList) [shapeStmt (startShape a)] := by
  unfold startShape
  split
  · exact Reads.shapeLine ind hind "doubleoctagon" 'd'
      ['o', 'u', 'b', 'l', 'e', 'o', 'c', 't', 'a', 'g', 'o', 'n'] rfl (by decide) (by decide)
  · exact Reads.shapeLine ind hind "octagon" 'o' ['c', 't', 'a', 'g', 'o', 'n'] rfl (by decide)
      (by decide)

/-- `emitAuto` / `expAuto` with the bodies of the clusters abstracted -/
theorem reads_autoBody (pool : List Auto) (a : Auto) (base : Nat) (pre : List Char)
    (hpre : PreOK pre) (lvl : Nat) (body : Nat × Nat → List Char) (bodySts : Nat × Nat → List Stmt)
    (hb : ∀ p, Reads (body p) (bodySts p)) :
    Reads
      (shapeLine (indent lvl) (startShape a).toList ++
        nodeLine (indent lvl) pre (a.start + base) ++
        shapeLine (indent lvl) "circle".toList ++
        (regularStates a).flatMap (fun q => nodeLine (indent lvl) pre (q + base)) ++
        ['\n'] ++
        shapeLine (indent lvl) "doublecircle".toList ++
        (acceptingStates a).flatMap (fun q => nodeLine (indent lvl) pre (q + base)) ++
        ['\n'] ++
        (subwordIds a base).flatMap (fun p =>
          clusterHead (indent lvl) pre p.2 ++ body p ++ clusterTail (indent lvl)) ++
        (grouped a).flatMap (transLines pool a base (subwordIds a base) (indent lvl) pre))
      ([shapeStmt (startShape a), nodeStmt pre (a.start + base), shapeStmt "circle"] ++
        (regularStates a).map (fun q => nodeStmt pre (q + base)) ++
        [shapeStmt "doublecircle"] ++
        (acceptingStates a).map (fun q => nodeStmt pre (q + base)) ++
        (subwordIds a base).map (fun p =>
          .sub (clusterName pre p.2) (clusterAttrs p.2 ++ bodySts p)) ++
        (grouped a).flatMap (transStmts pool a base (subwordIds a base) pre)) := by
  have hind := blank_indent lvl
  have nl : Reads ['\n'] [] := Reads.ws _ (by intro c hc; simp at hc; subst hc; decide)
  have h := (Reads.startShapeLine _ hind a).append <|
    (Reads.nodeLine _ hind pre hpre (a.start + base)).append <|
    (Reads.shapeLine _ hind "circle" 'c' ['i', 'r', 'c', 'l', 'e'] rfl (by decide)
      (by decide)).append <|
    (Reads.flatMap_map (regularStates a) _ _ fun q _ =>
      Reads.nodeLine _ hind pre hpre (q + base)).append <|
    nl.append <|
    (Reads.shapeLine _ hind "doublecircle" 'd'
      ['o', 'u', 'b', 'l', 'e', 'c', 'i', 'r', 'c', 'l', 'e'] rfl (by decide) (by decide)).append <|
    (Reads.flatMap_map (acceptingStates a) _ _ fun q _ =>
      Reads.nodeLine _ hind pre hpre (q + base)).append <|
    nl.append <|
    (Reads.flatMap_map (subwordIds a base) _ _ fun p _ =>
      Reads.cluster _ hind pre hpre p.2 (body p) (bodySts p) (hb p)).append <|
    Reads.flatMap (grouped a) _ _ fun t _ =>
      Reads.transLines pool a base (subwordIds a base) _ hind pre hpre t
  refine h.cast ?_ ?_
  · simp only [List.append_assoc]
  · simp only [List.append_assoc, List.cons_append, List.nil_append]

theorem reads_emitAuto (fuel : Nat) (pool : List Auto) (a : Auto) (base : Nat) (pre : List Char)
    (hpre : PreOK pre) (lvl : Nat) :
    Reads (emitAuto fuel pool a base pre lvl) (expAuto fuel pool a base pre) := by
  induction fuel generalizing a pre lvl with
  | zero =>
    unfold emitAuto expAuto
    exact reads_autoBody pool a base pre hpre lvl (fun _ => []) (fun _ => []) fun _ => Reads.nil
  | succ f ih =>
    unfold emitAuto expAuto
    exact reads_autoBody pool a base pre hpre lvl _ _ fun p =>
      ih (lookupSub pool p.1) (subPrefix p.2) (preOK_subPrefix p.2) (lvl + 1)

/-! ## the whole file -/

theorem Lexes.run {text : List Char} {toks : List Tok} (h : Lexes text toks) :
    lex (text.length + 1) text [] = some toks := by
  obtain ⟨k, hk, h⟩ := h
  have := h (text.length + 1 - k) [] []
  rw [show text.length + 1 - k + k = text.length + 1 by omega, List.append_nil] at this
  rw [this]
  obtain ⟨m, hm⟩ : ∃ m, text.length + 1 - k = m + 1 := ⟨text.length - k, by omega⟩
  rw [hm, lex]
  simp

theorem stmts_close' (n : Nat) (rest : List Tok) (acc : List Stmt) (h : 1 ≤ n) :
    stmts n (.punct "}" :: rest) acc = some (acc, .punct "}" :: rest) := by
  obtain ⟨m, rfl⟩ : ∃ m, n = m + 1 := ⟨n - 1, by omega⟩
  exact stmts_close m rest acc

theorem parse_digraph (body : List Char) (sts : List Stmt) (h : Reads body sts) :
    parse (String.ofList (['d', 'i', 'g', 'r', 'a', 'p', 'h', ' ', 'd', 'f', 'a', ' ', '{', '\n'] ++
      body ++ ['}', '\n'])) = some ("dfa", sts) := by
  obtain ⟨bt, bl, bs⟩ := h
  have hl : Lexes (['d', 'i', 'g', 'r', 'a', 'p', 'h', ' ', 'd', 'f', 'a', ' ', '{', '\n'] ++
      body ++ ['}', '\n'])
      (.id (String.ofList ['d', 'i', 'g', 'r', 'a', 'p', 'h']) :: .id "dfa" :: .punct "{" ::
        (bt ++ [.punct "}"])) := by
    have h := (Lexes.idWs 'd' ['i', 'g', 'r', 'a', 'p', 'h'] (by decide) (by decide)).append <|
      (Lexes.idWs 'd' ['f', 'a'] (by decide) (by decide)).append <|
      (Lexes.punct '{' (by decide)).append <| (Lexes.ws '\n' (by decide)).append <|
      bl.append <| (Lexes.punct '}' (by decide)).append (Lexes.ws '\n' (by decide))
    refine h.cast ?_ ?_
    · simp only [List.cons_append, List.nil_append]
    · simp only [List.cons_append, List.nil_append, List.append_nil, String.reduceSingleton,
        String.reduceOfList]
  have hk : keyword (String.ofList ['d', 'i', 'g', 'r', 'a', 'p', 'h']) = "digraph" := by
    rw [keyword_eq_iff]; decide
  obtain ⟨c, hc, bs⟩ := bs
  unfold parse
  simp only [String.toList_ofList, hl.run, hk]
  have e1 : (("digraph" : String) == "strict") = false := by decide
  simp only [e1, Bool.false_eq_true, if_false]
  rw [bs _ _ _ (by simp only [List.length_cons, List.length_append]; omega)]
  rw [stmts_close' _ _ _
    (by simp only [List.length_cons, List.length_append, List.length_nil]; omega)]
  have hk' : keyword "digraph" = "digraph" := by rw [keyword_eq_iff]; decide
  simp [tokVal, hk']

theorem reads_rankdir :
    Reads ['\t', 'r', 'a', 'n', 'k', 'd', 'i', 'r', '=', 'L', 'R', ';', '\n']
      [.assign "rankdir" "LR"] := by
  refine ⟨[.id (String.ofList ['r', 'a', 'n', 'k', 'd', 'i', 'r']), .punct "=",
    .id (String.ofList ['L', 'R']), .punct ";"], ?_, ?_⟩
  · have h := (Lexes.ws '\t' (by decide)).append <|
      (Lexes.idPunct 'r' ['a', 'n', 'k', 'd', 'i', 'r'] '=' (by decide) (by decide)
        (by decide)).append <|
      (Lexes.idPunct 'L' ['R'] ';' (by decide) (by decide) (by decide)).append
        (Lexes.ws '\n' (by decide))
    exact h.cast (by simp only [List.cons_append, List.nil_append])
      (by simp only [List.cons_append, List.nil_append, String.reduceSingleton])
  · exact Steps.assign "rankdir" notKw_rankdir _ "LR" rfl

theorem emitDfaChars_eq (d : Dfa) (base : Nat) : emitDfaChars d base =
    ['d', 'i', 'g', 'r', 'a', 'p', 'h', ' ', 'd', 'f', 'a', ' ', '{', '\n'] ++
      (['\t', 'r', 'a', 'n', 'k', 'd', 'i', 'r', '=', 'L', 'R', ';', '\n'] ++
        emitAuto (d.subs.length + 1) d.subs d.main base [] 0) ++ ['}', '\n'] := by
  unfold emitDfaChars
  simp only [String.reduceToList, List.append_assoc]

/-- **T2, faithfulness.**  For every automaton, every pool of within-word automata and every
`array_start`, whatever the literals, descriptions and commands contain: the DOT reader accepts the
dump of `DFA::to_dot` and reads exactly the graph `expectedStmts` — `rankdir`, the node defaults,
one node per state, one cluster per within-word automaton (recursively), one edge per transition
carrying the label `labelValue (displayInput inp)`, dashed edges in and out of the clusters. -/
theorem emitDfa_parse (d : Dfa) (base : Nat) :
    parse (emitDfa d base) = some ("dfa", expectedStmts d base) := by
  unfold emitDfa expectedStmts
  rw [emitDfaChars_eq]
  exact parse_digraph _ _
    (reads_rankdir.append (reads_emitAuto (d.subs.length + 1) d.subs d.main base [] preOK_nil 0))

/-- **T1, well-formedness**: the dump is always a syntactically valid DOT file.  No hypothesis on
the texts: quotes, backslashes (also at the end of a label, also in front of a newline), newlines,
braces, `*/`, `//`, `#`, `<`, `>` are all inside a quoted string that ends where the emitter ends
it. -/
theorem emitDfa_wellFormed (d : Dfa) (base : Nat) : (parse (emitDfa d base)).isSome = true := by
  rw [emitDfa_parse]; rfl

/-! ## what a label shows -/

/-- the chain of the model is the chain regenerated from dfa.rs -/
theorem dotLabelChain_eq_gen : dotLabelChain = Complgen.Gen.dotDfaLabelChain := by decide

theorem display_cons_plain (c : Char) (r : List Char) (h : c ≠ '\\') :
    display (c :: r) = c :: display r := by
  conv => lhs; unfold display
  split <;> simp_all

/-- the label renderer (`escString`: `\\` is a backslash) shows the text of
`diagnostic_display_input` unaltered: nothing in it is taken for an escape sequence -/
theorem display_labelValue (s : List Char) : display (labelValue s) = s := by
  induction s with
  | nil => simp [labelValue, rep1, display]
  | cons c s ih =>
    rw [labelValue_cons]
    by_cases h : c = '\\'
    · subst h
      simp only [if_true, List.cons_append, List.nil_append]
      rw [display, ih]
    · simp only [if_neg h, List.cons_append, List.nil_append]
      rw [display_cons_plain c _ h, ih]

/-- the decimal numbers of the model are Rust's `{}` / Lean's `toString` -/
theorem ofList_natChars (n : Nat) : String.ofList (natChars n) = toString n :=
  Nat.toString_eq_ofList_toDigits.symm

/-- in the canonical dump of `Model/Dot.lean` (`attrOf`: the displayed text of an attribute), the
label of the edge of a transition is the text of `diagnostic_display_input` -/
theorem attrOf_labelStmt (label : List Char) :
    attrOf [⟨"label", String.ofList (labelValue label)⟩] "label"
      = Hex.encode (String.ofList label) := by
  simp [attrOf, display_labelValue]

/-- the same through the string-level reader of `Model/Quote.lean` (`dot_dfa_label_roundtrip` of
C16, for the chain of the model) -/
theorem escLabel_decode (s : List Char) : dotDialect.decode (escLabel s) = some s :=
  chain_roundtrip dotDialect dotLabelChain (by decide) s

/-- an escaped label never contains a backslash in front of a newline that the reader would drop
as a line continuation, nor a quote that would end the string: the reader goes through the whole
label (instance: the label `a\⏎"`) -/
example : lexQuoted (escLabel ['a', '\\', '\n', '"'] ++ ['"', ']']) [] =
    some (['a', '\\', '\\', '\n', '"'], [']']) := by decide

/-- without the chain the same label ends its string early -/
example : lexQuoted (['a', '\\', '\n', '"'] ++ ['"', ']']) [] = some (['a'], ['"', ']']) := by
  decide

end Complgen.Dot
