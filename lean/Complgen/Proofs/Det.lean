import Complgen.Cert.Det
import Complgen.Proofs.Cert
namespace Complgen.Cert

theorem det_sound (a : KAuto) (h : detCheck a = true) :
    ∀ t ∈ a.trans, ∀ u ∈ a.trans, t.1 = u.1 → t.2.1 = u.2.1 → t.2.2 = u.2.2 := by
  intro t ht u hu h1 h2
  unfold detCheck at h
  rw [List.all_eq_true] at h
  have h' := h t ht
  rw [List.all_eq_true] at h'
  have h'' := h' u hu
  simp only [Bool.or_eq_true, Bool.not_eq_eq_eq_not, Bool.not_true, Bool.and_eq_false_imp,
    beq_iff_eq] at h''
  rcases h'' with h'' | h''
  · simp [h1, h2] at h''
  · exact h''

/-- a word-deterministic automaton never has, at one state, two items that match a common word
(same class) and lead to different states -/
theorem wordDet_sound (a : KAuto) (cls : String → String) (h : wordDetCheck a cls = true) :
    ∀ q k₁ k₂ q₁ q₂, (q, k₁, q₁) ∈ a.trans → (q, k₂, q₂) ∈ a.trans → cls k₁ = cls k₂ → q₁ = q₂ := by
  intro q k₁ k₂ q₁ q₂ h1 h2 hc
  have := det_sound (a.mapKeys cls) h (q, cls k₁, q₁)
    (by simp only [KAuto.mapKeys]; exact List.mem_map.mpr ⟨_, h1, rfl⟩)
    (q, cls k₂, q₂)
    (by simp only [KAuto.mapKeys]; exact List.mem_map.mpr ⟨_, h2, rfl⟩) rfl hc
  exact this

/-- consequently reading a word sequence (by what the words match) is a function of the sequence:
the renamed automaton takes at most one path -/
theorem wordDet_step_unique (a : KAuto) (cls : String → String) (h : wordDetCheck a cls = true)
    (q : Nat) (c : String) (q₁ q₂ : Nat)
    (h1 : (q, c, q₁) ∈ (a.mapKeys cls).trans) (h2 : (q, c, q₂) ∈ (a.mapKeys cls).trans) : q₁ = q₂ :=
  det_sound (a.mapKeys cls) h _ h1 _ h2 rfl rfl

end Complgen.Cert
