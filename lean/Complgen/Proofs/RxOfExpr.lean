/-
`rxOfExpr` (the model of `do_from_expr`) numbers the leaves of an expression left to right and
yields a regular expression with the same meaning; with `Glushkov.lean` and `Subset.lean` this
gives the correctness of the raw automaton built from an expression.
-/
import Complgen.Proofs.Glushkov
import Complgen.Proofs.Subset
namespace Complgen

private theorem pair_eta {α β : Type} (p : α × β) : (p.1, p.2) = p := rfl

/-! ## unfolding equations in projection form -/

theorem rxOfExpr_seq (cs : ExprL) (s : Span) (st : List RxInput × RxPool) :
    rxOfExpr (.seq cs s) st = (.cat (rxOfExprL cs st).1, (rxOfExprL cs st).2) := by
  simp only [rxOfExpr]

theorem rxOfExpr_alt (cs : ExprL) (s : Span) (st : List RxInput × RxPool) :
    rxOfExpr (.alt cs s) st = (.or (rxOfExprL cs st).1, (rxOfExprL cs st).2) := by
  simp only [rxOfExpr]

theorem rxOfExpr_fb (cs : ExprL) (s : Span) (st : List RxInput × RxPool) :
    rxOfExpr (.fb cs s) st = (.or (rxOfExprL cs st).1, (rxOfExprL cs st).2) := by
  simp only [rxOfExpr]

theorem rxOfExpr_opt (c : Expr) (s : Span) (st : List RxInput × RxPool) :
    rxOfExpr (.opt c s) st
      = (.or (.cons (rxOfExpr c st).1 (.cons .eps .nil)), (rxOfExpr c st).2) := by
  simp only [rxOfExpr]

theorem rxOfExpr_many1 (c : Expr) (s : Span) (st : List RxInput × RxPool) :
    rxOfExpr (.many1 c s) st = (.plus (rxOfExpr c st).1, (rxOfExpr c st).2) := by
  simp only [rxOfExpr]

theorem rxOfExpr_dd (c : Expr) (d : String) (s : Span) (st : List RxInput × RxPool) :
    rxOfExpr (.dd c d s) st = (.eps, st) := by
  simp only [rxOfExpr]

theorem rxOfExpr_sub_fst (c : Expr) (l : Nat) (s : Span) (ins : List RxInput) (pool : RxPool) :
    (rxOfExpr (.sub c l s) (ins, pool)).1 = .sym ins.length := by
  simp only [rxOfExpr]

theorem rxOfExpr_sub_len (c : Expr) (l : Nat) (s : Span) (ins : List RxInput) (pool : RxPool) :
    (rxOfExpr (.sub c l s) (ins, pool)).2.1.length = ins.length + 1 := by
  simp only [rxOfExpr, List.length_append, List.length_singleton]

theorem rxOfExprL_nil (st : List RxInput × RxPool) : rxOfExprL .nil st = (.nil, st) := by
  simp only [rxOfExprL]

theorem rxOfExprL_cons (e : Expr) (es : ExprL) (st : List RxInput × RxPool) :
    rxOfExprL (.cons e es) st
      = (.cons (rxOfExpr e st).1 (rxOfExprL es (rxOfExpr e st).2).1,
          (rxOfExprL es (rxOfExpr e st).2).2) := by
  simp only [rxOfExprL]

/-! ## numbering -/

mutual
theorem rxOfExpr_num : (e : Expr) → (ins : List RxInput) → (pool : RxPool) →
    (rxOfExpr e (ins, pool)).1.positions = List.range' ins.length e.leafCount ∧
    (rxOfExpr e (ins, pool)).2.1.length = ins.length + e.leafCount
  | .term .., ins, pool => by
    simp [rxOfExpr, Rx.positions, Expr.leafCount]
  | .nonterm .., ins, pool => by
    simp [rxOfExpr, Rx.positions, Expr.leafCount]
  | .cmd .., ins, pool => by
    simp [rxOfExpr, Rx.positions, Expr.leafCount]
  | .sub c l s, ins, pool => by
    rw [rxOfExpr_sub_fst, rxOfExpr_sub_len]
    simp [Rx.positions, Expr.leafCount]
  | .seq cs s, ins, pool => by
    rw [rxOfExpr_seq]
    simpa only [Rx.positions, Expr.leafCount] using rxOfExprL_num cs ins pool
  | .alt cs s, ins, pool => by
    rw [rxOfExpr_alt]
    simpa only [Rx.positions, Expr.leafCount] using rxOfExprL_num cs ins pool
  | .fb cs s, ins, pool => by
    rw [rxOfExpr_fb]
    simpa only [Rx.positions, Expr.leafCount] using rxOfExprL_num cs ins pool
  | .opt c s, ins, pool => by
    rw [rxOfExpr_opt]
    have := rxOfExpr_num c ins pool
    simpa only [Rx.positions, Rx.positionsL, Expr.leafCount, List.append_nil] using this
  | .many1 c s, ins, pool => by
    rw [rxOfExpr_many1]
    simpa only [Rx.positions, Expr.leafCount] using rxOfExpr_num c ins pool
  | .dd c d s, ins, pool => by
    rw [rxOfExpr_dd]
    simp [Rx.positions, Expr.leafCount]
theorem rxOfExprL_num : (es : ExprL) → (ins : List RxInput) → (pool : RxPool) →
    Rx.positionsL (rxOfExprL es (ins, pool)).1 = List.range' ins.length es.leafCount ∧
    (rxOfExprL es (ins, pool)).2.1.length = ins.length + es.leafCount
  | .nil, ins, pool => by
    rw [rxOfExprL_nil]
    simp [Rx.positionsL, ExprL.leafCount]
  | .cons e es, ins, pool => by
    rw [rxOfExprL_cons]
    have h1 := rxOfExpr_num e ins pool
    have h2 := rxOfExprL_num es (rxOfExpr e (ins, pool)).2.1 (rxOfExpr e (ins, pool)).2.2
    simp only [pair_eta] at h2
    simp only [Rx.positionsL, ExprL.leafCount, h1.1, h2.1, h2.2, h1.2]
    constructor
    · rw [List.range'_append_1]
    · omega
end

/-- numbering: the expression built from `e` with `ins` already allocated uses exactly the
positions ins.length, …, ins.length + leafCount e - 1, in order, and appends that many inputs -/
theorem rxOfExpr_positions (e : Expr) (ins : List RxInput) (pool : RxPool) :
    (rxOfExpr e (ins, pool)).1.positions = List.range' ins.length e.leafCount ∧
    (rxOfExpr e (ins, pool)).2.1.length = ins.length + e.leafCount :=
  rxOfExpr_num e ins pool

/-! ## meaning -/

mutual
theorem rxOfExpr_lang' : (e : Expr) → (ins : List RxInput) → (pool : RxPool) → (ps : List Nat) →
    ((rxOfExpr e (ins, pool)).1.Lang ps ↔ e.denPos ins.length ps)
  | .term .., ins, pool, ps => by
    simp [rxOfExpr, Rx.Lang, Expr.denPos]
  | .nonterm .., ins, pool, ps => by
    simp [rxOfExpr, Rx.Lang, Expr.denPos]
  | .cmd .., ins, pool, ps => by
    simp [rxOfExpr, Rx.Lang, Expr.denPos]
  | .sub c l s, ins, pool, ps => by
    rw [rxOfExpr_sub_fst]
    simp [Rx.Lang, Expr.denPos]
  | .seq cs s, ins, pool, ps => by
    rw [rxOfExpr_seq]
    simpa only [Rx.Lang, Expr.denPos] using rxOfExprL_langCat cs ins pool ps
  | .alt cs s, ins, pool, ps => by
    rw [rxOfExpr_alt]
    simpa only [Rx.Lang, Expr.denPos] using rxOfExprL_langOr cs ins pool ps
  | .fb cs s, ins, pool, ps => by
    rw [rxOfExpr_fb]
    simpa only [Rx.Lang, Expr.denPos] using rxOfExprL_langOr cs ins pool ps
  | .opt c s, ins, pool, ps => by
    rw [rxOfExpr_opt]
    have := rxOfExpr_lang' c ins pool ps
    simp only [Rx.Lang, RxL.LangOr, Expr.denPos, this, or_false]
    exact Or.comm
  | .many1 c s, ins, pool, ps => by
    rw [rxOfExpr_many1]
    simp only [Rx.Lang, Expr.denPos]
    constructor
    · rintro ⟨ws, hne, hw, hall⟩
      exact ⟨ws, hne, hw, fun u hu => (rxOfExpr_lang' c ins pool u).1 (hall u hu)⟩
    · rintro ⟨ws, hne, hw, hall⟩
      exact ⟨ws, hne, hw, fun u hu => (rxOfExpr_lang' c ins pool u).2 (hall u hu)⟩
  | .dd c d s, ins, pool, ps => by
    rw [rxOfExpr_dd]
    simp only [Rx.Lang, Expr.denPos]
theorem rxOfExprL_langCat : (es : ExprL) → (ins : List RxInput) → (pool : RxPool) →
    (ps : List Nat) →
    (RxL.LangCat (rxOfExprL es (ins, pool)).1 ps ↔ es.denSeq ins.length ps)
  | .nil, ins, pool, ps => by
    rw [rxOfExprL_nil]
    simp only [RxL.LangCat, ExprL.denSeq]
  | .cons e es, ins, pool, ps => by
    rw [rxOfExprL_cons]
    have hlen := (rxOfExpr_num e ins pool).2
    simp only [RxL.LangCat, ExprL.denSeq]
    constructor
    · rintro ⟨u, v, hw, hu, hv⟩
      refine ⟨u, v, hw, (rxOfExpr_lang' e ins pool u).1 hu, ?_⟩
      have := (rxOfExprL_langCat es (rxOfExpr e (ins, pool)).2.1 (rxOfExpr e (ins, pool)).2.2 v).1
      simp only [pair_eta, hlen] at this
      exact this hv
    · rintro ⟨u, v, hw, hu, hv⟩
      refine ⟨u, v, hw, (rxOfExpr_lang' e ins pool u).2 hu, ?_⟩
      have := (rxOfExprL_langCat es (rxOfExpr e (ins, pool)).2.1 (rxOfExpr e (ins, pool)).2.2 v).2
      simp only [pair_eta, hlen] at this
      exact this hv
theorem rxOfExprL_langOr : (es : ExprL) → (ins : List RxInput) → (pool : RxPool) →
    (ps : List Nat) →
    (RxL.LangOr (rxOfExprL es (ins, pool)).1 ps ↔ es.denAlt ins.length ps)
  | .nil, ins, pool, ps => by
    rw [rxOfExprL_nil]
    simp only [RxL.LangOr, ExprL.denAlt]
  | .cons e es, ins, pool, ps => by
    rw [rxOfExprL_cons]
    have hlen := (rxOfExpr_num e ins pool).2
    have h1 := rxOfExpr_lang' e ins pool ps
    have h2 := rxOfExprL_langOr es (rxOfExpr e (ins, pool)).2.1 (rxOfExpr e (ins, pool)).2.2 ps
    simp only [pair_eta, hlen] at h2
    simp only [RxL.LangOr, ExprL.denAlt, h1, h2]
end

/-- the regular expression means what the grammar expression means -/
theorem rxOfExpr_lang (e : Expr) (ins : List RxInput) (pool : RxPool) (ps : List Nat) :
    (rxOfExpr e (ins, pool)).1.Lang ps ↔ e.denPos ins.length ps :=
  rxOfExpr_lang' e ins pool ps

/-! ## the top-level regex -/

theorem Regex.ofExpr_root (e : Expr) (pool : RxPool) :
    (Regex.ofExpr e pool).1.root = (rxOfExpr e ([], pool)).1 := by
  simp only [Regex.ofExpr]

theorem Regex.ofExpr_inputs (e : Expr) (pool : RxPool) :
    (Regex.ofExpr e pool).1.inputs = (rxOfExpr e ([], pool)).2.1 := by
  simp only [Regex.ofExpr]

theorem Regex.ofExpr_positions (e : Expr) (pool : RxPool) :
    (Regex.ofExpr e pool).1.root.positions = List.range' 0 e.leafCount := by
  rw [Regex.ofExpr_root]
  simpa using (rxOfExpr_positions e [] pool).1

theorem Regex.ofExpr_endPos (e : Expr) (pool : RxPool) :
    (Regex.ofExpr e pool).1.endPos = e.leafCount := by
  rw [Regex.endPos, Regex.ofExpr_inputs]
  simpa using (rxOfExpr_positions e [] pool).2

/-- `Regex.ofExpr` yields a linear expression whose end marker is fresh -/
theorem Regex.ofExpr_linear (e : Expr) (pool : RxPool) :
    (Regex.ofExpr e pool).1.root.Linear ∧
    (Regex.ofExpr e pool).1.endPos ∉ (Regex.ofExpr e pool).1.root.positions ∧
    (Regex.ofExpr e pool).1.inputs.length = e.leafCount := by
  refine ⟨?_, ?_, ?_⟩
  · rw [Rx.Linear, Regex.ofExpr_positions]
    exact List.nodup_range'
  · rw [Regex.ofExpr_positions, Regex.ofExpr_endPos]
    simp [List.mem_range'_1]
  · exact Regex.ofExpr_endPos e pool

theorem Regex.ofExpr_full_positions_le (e : Expr) (pool : RxPool) :
    ∀ q ∈ (Regex.ofExpr e pool).1.full.positions, q ≤ (Regex.ofExpr e pool).1.endPos := by
  intro q hq
  simp only [Regex.full, Rx.positions, Rx.positionsL, List.append_nil, List.mem_append,
    List.mem_singleton] at hq
  rw [Regex.ofExpr_positions, List.mem_range'_1] at hq
  rw [Regex.ofExpr_endPos] at hq ⊢
  omega

/-- **C02, raw automaton of the model**: for every work-list order, the automaton built from the
expression accepts exactly the label sequences of the expression's words (labels = `symOf` of the
leaf numbers). -/
theorem raw_automaton_correct (σ : Schedule) (e : Expr) (pool : RxPool) (symOf : Nat → Option Inp)
    (a : Auto)
    (hsym : ∀ p, p < e.leafCount → (symOf p).isSome)
    (hend : symOf e.leafCount = none)
    (h : buildAuto σ (Regex.ofExpr e pool).1 symOf = some a) :
    ∀ w : List Inp, a.acceptsInp w = true ↔ ∃ ps, e.denPos 0 ps ∧ ps.map symOf = w.map some := by
  intro w
  obtain ⟨hlin, hfresh, hlen⟩ := Regex.ofExpr_linear e pool
  have hendPos := Regex.ofExpr_endPos e pool
  have hcorr := buildAuto_correct σ (Regex.ofExpr e pool).1 symOf a
    (by rw [hlen]; exact hsym) (by rw [hendPos]; exact hend)
    (fun p q hq => Regex.ofExpr_full_positions_le e pool q (Rx.follow_sub _ p q hq))
    (fun q hq => Regex.ofExpr_full_positions_le e pool q (Rx.first_sub _ q hq))
    h w
  rw [hcorr]
  have hden : ∀ ps, (Regex.ofExpr e pool).1.root.Lang ps ↔ e.denPos 0 ps := by
    intro ps
    rw [Regex.ofExpr_root]
    simpa using rxOfExpr_lang e [] pool ps
  unfold PosAccepts
  constructor
  · rintro ⟨ps, cur, hpath, hcur, _, hmap⟩
    exact ⟨ps, (hden ps).1 ((Regex.posPath_endPos_iff _ hlin hfresh ps).1 ⟨cur, hpath, hcur⟩), hmap⟩
  · rintro ⟨ps, hps, hmap⟩
    obtain ⟨cur, hpath, hcur⟩ := (Regex.posPath_endPos_iff _ hlin hfresh ps).2 ((hden ps).2 hps)
    refine ⟨ps, cur, hpath, hcur, ?_, hmap⟩
    intro p hp heq
    have hmem : symOf p ∈ ps.map symOf := List.mem_map_of_mem hp
    rw [hmap, List.mem_map] at hmem
    obtain ⟨x, _, hx⟩ := hmem
    rw [heq, hendPos, hend] at hx
    cases hx

end Complgen
