/-
The automaton returned by `minimize` is REDUCED (no two different states accept the same words)
and ACCESSIBLE (every state is reachable from the start state), for EVERY work-list schedule.
-/
import Complgen.Proofs.Hopcroft
import Complgen.Proofs.BuildWF
import Complgen.Proofs.Glushkov
import Complgen.Proofs.RxOfExpr
namespace Complgen.Min
open Complgen

/-! ### 0. The two extra hypotheses on the input automaton -/

/-- every state of `a` can reach an accepting state (`a` is co-accessible) -/
def CoAcc (a : Auto) : Prop := ∀ q ∈ a.states, ∃ w, accFrom a q w = true

/-- every state of `a` is reachable from the start state (`a` is accessible) -/
def Access (a : Auto) : Prop := ∀ q ∈ a.states, ∃ w, a.run a.start w = some q

/-! ### 1. The distinguishability invariant of the refinement -/

/-- some word tells `p` and `q` apart in the completed automaton -/
def Dist (a : Auto) (p q : Nat) : Prop := ∃ w, accC a p w ≠ accC a q w

theorem Dist.symm {a : Auto} {p q : Nat} (h : Dist a p q) : Dist a q p := by
  obtain ⟨w, hw⟩ := h
  exact ⟨w, fun e => hw e.symm⟩

/-- states in different blocks are distinguishable -/
def DInv (a : Auto) (P : List Block) : Prop :=
  ∀ B ∈ P, ∀ C ∈ P, B ≠ C → ∀ p ∈ B, ∀ q ∈ C, Dist a p q

theorem uncut_of_block {a : Auto} {P : List Block} (hP : PInv a P) {X B : Block} (hX : X ∈ P)
    (hB : B ∈ P) : Uncut X B := by
  intro p hp q hq
  constructor
  · intro h
    have := hP.disj X hX B hB p h hp
    subst this; exact hq
  · intro h
    have := hP.disj X hX B hB q h hq
    subst this; exact hp

/-- The heart of the matter: a splitter `g` that is a union of blocks of a partition whose blocks
are pairwise distinguishable separates only distinguishable states.  A state outside `froms` goes
to the dead state on every input, a state of `froms` has a transition to a state that can reach
acceptance (this is where co-accessibility is needed). -/
theorem dist_of_cut {a : Auto} {P : List Block} (hwf : WF a) (hco : CoAcc a) (hP : PInv a P)
    (hD : DInv a P) {g : Block} (hg : ∀ B ∈ P, Uncut g B) {i p q : Nat}
    (hp : p ∈ preimage a (normSet (a.trans.map (·.1))) g i)
    (hq : q ∉ preimage a (normSet (a.trans.map (·.1))) g i) : Dist a p q := by
  obtain ⟨hpf, hpg⟩ := mem_preimage.1 hp
  by_cases hqf : q ∈ normSet (a.trans.map (·.1))
  · have hqg : stepC a q i ∉ g := fun h => hq (mem_preimage.2 ⟨hqf, h⟩)
    obtain ⟨B1, hB1, h1⟩ := hP.cover _ (stepC_mem_all a p i)
    obtain ⟨B2, hB2, h2⟩ := hP.cover _ (stepC_mem_all a q i)
    have hne : B1 ≠ B2 := by
      intro e; subst e
      exact hqg ((hg B1 hB1 _ h1 _ h2).1 hpg)
    obtain ⟨w, hw⟩ := hD B1 hB1 B2 hB2 hne _ h1 _ h2
    exact ⟨i :: w, by rw [accC_cons, accC_cons]; exact hw⟩
  · have hq0 : ∀ j, stepC a q j = 0 := by
      intro j; apply Classical.byContradiction; intro h; exact hqf (stepC_froms h)
    obtain ⟨t, ht, e⟩ : ∃ t ∈ a.trans, t.1 = p := by
      have := mem_normSet.1 hpf
      simpa using this
    have hs : a.step p t.2.1 = some t.2.2 :=
      step_some_of ⟨t, ht, e, rfl⟩ (fun t' ht' e1 e2 => hwf.2.1 t' ht' t ht (e1.trans e.symm) e2)
    obtain ⟨w, hw⟩ := hco t.2.2 (mem_states.2 (.inr ⟨t, ht, .inr rfl⟩))
    rw [hwf.accFrom_eq_accC] at hw
    refine ⟨t.2.1 :: w, ?_⟩
    rw [accC_cons, accC_cons, hwf.stepC_of_step hs, hq0, accC_dead hwf.zero_not_acc, hw]
    simp

/-- the invariant of the refinement: a partition with pairwise distinguishable blocks, and every
splitter of the work-list (and the splitter `E` being processed) is a union of blocks -/
structure DI (a : Auto) (E : Block → Prop) (st : HState) : Prop where
  pinv : PInv a st.parts
  dist : DInv a st.parts
  uncut : ∀ X, (X ∈ st.work ∨ E X) → ∀ B ∈ st.parts, Uncut X B

theorem mem_splitWork {W : List Block} {y y1 y2 X : Block} (h : X ∈ splitWork W y y1 y2) :
    X ∈ W ∨ X = y1 ∨ X = y2 := by
  unfold splitWork at h
  split at h
  · simp only [List.mem_append, List.mem_filter, List.mem_cons, List.not_mem_nil, or_false] at h
    rcases h with h | h | h
    · exact .inl h.1
    · exact .inr (.inl h)
    · exact .inr (.inr h)
  · split at h
    · simp only [List.mem_append, List.mem_singleton] at h
      rcases h with h | h
      · exact .inl h
      · exact .inr (.inl h)
    · simp only [List.mem_append, List.mem_singleton] at h
      rcases h with h | h
      · exact .inl h
      · exact .inr (.inr h)

theorem split_DI {a : Auto} {E : Block → Prop} {st : HState} {y x : Block} (h : DI a E st)
    (hy : y ∈ st.parts)
    (hx : ∀ p ∈ inter y x, ∀ q ∈ diff y (inter y x), Dist a p q) :
    DI a E ⟨splitParts st.parts y (inter y x) (diff y (inter y x)),
      splitWork st.work y (inter y x) (diff y (inter y x))⟩ := by
  have hsub1 : ∀ u ∈ inter y x, u ∈ y := fun u hu => (mem_inter.1 hu).1
  have hsub2 : ∀ u ∈ diff y (inter y x), u ∈ y := fun u hu => (mem_diff.1 hu).1
  have hcov : ∀ u ∈ y, u ∈ inter y x ∨ u ∈ diff y (inter y x) := by
    intro u hu
    by_cases h1 : u ∈ inter y x
    · exact .inl h1
    · exact .inr (mem_diff.2 ⟨hu, h1⟩)
  have hdj : ∀ u, u ∈ inter y x → u ∈ diff y (inter y x) → False :=
    fun u h1 h2 => (mem_diff.1 h2).2 h1
  have hold := split_sub_old (P := st.parts) hsub1 hsub2 hy
  have hP' : PInv a (splitParts st.parts y (inter y x) (diff y (inter y x))) :=
    split_PInv hsub1 hsub2 hcov hdj h.pinv hy
  refine ⟨hP', ?_, ?_⟩
  · intro B hB C hC hne p hp q hq
    rcases mem_splitParts.1 hB with ⟨hBP, hBy⟩ | rfl | rfl <;>
      rcases mem_splitParts.1 hC with ⟨hCP, hCy⟩ | rfl | rfl
    · exact h.dist B hBP C hCP hne p hp q hq
    · exact h.dist B hBP y hy hBy p hp q (hsub1 q hq)
    · exact h.dist B hBP y hy hBy p hp q (hsub2 q hq)
    · exact h.dist y hy C hCP (Ne.symm hCy) p (hsub1 p hp) q hq
    · exact absurd rfl hne
    · exact hx p hp q hq
    · exact h.dist y hy C hCP (Ne.symm hCy) p (hsub2 p hp) q hq
    · exact (hx q hq p hp).symm
    · exact absurd rfl hne
  · intro X hX B' hB'
    have old : (X ∈ st.work ∨ E X) → Uncut X B' := by
      intro hX p hp q hq
      obtain ⟨B, hB, hs⟩ := hold B' hB'
      exact h.uncut X hX B hB p (hs p hp) q (hs q hq)
    rcases hX with hX | hE
    · rcases mem_splitWork hX with hW | rfl | rfl
      · exact old (.inl hW)
      · exact uncut_of_block hP' (mem_splitParts.2 (.inr (.inl rfl))) hB'
      · exact uncut_of_block hP' (mem_splitParts.2 (.inr (.inr rfl))) hB'
    · exact old (.inr hE)

theorem splitAll_DI {a : Auto} {E : Block → Prop} (x : Block)
    (hx : ∀ st : HState, DI a E st → ∀ y ∈ st.parts, ∀ p ∈ inter y x,
      ∀ q ∈ diff y (inter y x), Dist a p q) :
    ∀ (ys : List Block) (st : HState), DI a E st → DI a E (splitAll x ys st) := by
  intro ys
  induction ys with
  | nil => intro st h; simpa [splitAll] using h
  | cons y rest ih =>
    intro st h
    rw [splitAll_cons]
    split
    · exact ih st h
    · rename_i hy
      have hy : y ∈ st.parts := by simpa using hy
      split
      · exact ih st h
      · exact ih _ (split_DI h hy (hx st h y hy))

theorem foldBody_DI {a : Auto} (hwf : WF a) (hco : CoAcc a) (g : Block) (st : HState) (i : Nat)
    (h : DI a (· = g) st) :
    DI a (· = g) (foldBody a (normSet (a.trans.map (·.1))) g st i) := by
  unfold foldBody
  simp only
  split
  · exact h
  · apply splitAll_DI _ _ _ _ h
    intro st' h' y _ p hp q hq
    apply dist_of_cut hwf hco h'.pinv h'.dist (h'.uncut g (.inr rfl)) (mem_inter.1 hp).2
    intro hq'
    exact (mem_diff.1 hq).2 (mem_inter.2 ⟨(mem_diff.1 hq).1, hq'⟩)

theorem fold_DI {a : Auto} (hwf : WF a) (hco : CoAcc a) (g : Block) :
    ∀ (is : List Nat) (st : HState), DI a (· = g) st →
      DI a (· = g) (is.foldl (foldBody a (normSet (a.trans.map (·.1))) g) st) := by
  intro is
  induction is with
  | nil => intro st h; exact h
  | cons i rest ih =>
    intro st h
    rw [List.foldl_cons]
    exact ih _ (foldBody_DI hwf hco g st i h)

theorem mem_of_mem_removeNth {α} {x : α} : ∀ {l : List α} {k : Nat}, x ∈ removeNth l k → x ∈ l
  | [], _, h => by simp [removeNth] at h
  | y :: ys, 0, h => by
    simp only [removeNth] at h
    exact List.mem_cons_of_mem _ h
  | y :: ys, k + 1, h => by
    simp only [removeNth] at h
    rcases List.mem_cons.1 h with rfl | h
    · simp
    · exact List.mem_cons_of_mem _ (mem_of_mem_removeNth h)

theorem refineLoop_DI {σ : Schedule} {a : Auto} {n : Nat} (hwf : WF a) (hco : CoAcc a) :
    ∀ (fuel step : Nat) (st st' : HState), DI a (fun _ => False) st →
      refineLoop σ a (normSet (a.trans.map (·.1))) n fuel step st = some st' →
      DI a (fun _ => False) st' := by
  intro fuel
  induction fuel with
  | zero =>
    intro step st st' h hr
    simp only [refineLoop] at hr
    split at hr
    · cases hr; exact h
    · cases hr
  | succ fuel ih =>
    intro step st st' h hr
    rw [refineLoop] at hr
    split at hr
    · cases hr; exact h
    · simp only at hr
      split at hr
      · cases hr
      · rename_i g hg
        refine ih _ _ st' ?_ hr
        have := fold_DI hwf hco g (List.range n)
          { st with work := removeNth st.work (σ step st.work.length % st.work.length) } ?_
        · exact ⟨this.pinv, this.dist, fun X hX => this.uncut X (.inl (hX.resolve_right id))⟩
        · refine ⟨h.pinv, h.dist, ?_⟩
          intro X hX
          rcases hX with hX | rfl
          · exact h.uncut X (.inl (mem_of_mem_removeNth hX))
          · exact h.uncut X (.inl (List.mem_of_getElem? hg))

theorem initParts_DInv {a : Auto} (hwf : WF a) (hco : CoAcc a) : DInv a (initParts a) := by
  have h0 := hwf.zero_not_acc
  have mA : ∀ x, x ∈ normSet a.acc ↔ x ∈ a.acc := fun x => mem_normSet
  have mN : ∀ x, x ∈ diff (diff (allStates a) (normSet a.acc)) [0] ↔
      x ∈ allStates a ∧ x ∉ a.acc ∧ x ≠ 0 := by
    intro x; simp only [mem_diff, mA, List.mem_singleton, and_assoc]
  -- the three kinds of pairs
  have zero_acc : ∀ q ∈ a.acc, Dist a 0 q := by
    intro q hq
    refine ⟨[], ?_⟩
    rw [accC_nil, accC_nil]
    have e1 : a.acc.contains 0 = false := by simpa using h0
    have e2 : a.acc.contains q = true := by simpa using hq
    rw [e1, e2]; simp
  have zero_non : ∀ q, q ∈ allStates a → q ≠ 0 → Dist a 0 q := by
    intro q hq hq0
    have hqs : q ∈ a.states := by
      rcases mem_allStates.1 hq with h | h
      · exact absurd h hq0
      · exact h
    obtain ⟨w, hw⟩ := hco q hqs
    rw [hwf.accFrom_eq_accC] at hw
    refine ⟨w, ?_⟩
    rw [accC_dead h0, hw]; simp
  have acc_non : ∀ p ∈ a.acc, ∀ q, q ∉ a.acc → Dist a p q := by
    intro p hp q hq
    refine ⟨[], ?_⟩
    rw [accC_nil, accC_nil]
    have e1 : a.acc.contains q = false := by simpa using hq
    have e2 : a.acc.contains p = true := by simpa using hp
    rw [e1, e2]; simp
  intro B hB C hC hne p hp q hq
  rcases (mem_initParts.1 hB).2 with rfl | rfl | rfl <;>
    rcases (mem_initParts.1 hC).2 with rfl | rfl | rfl
  · exact absurd rfl hne
  · have : p = 0 := by simpa using hp
    subst this; exact zero_acc q ((mA q).1 hq)
  · have : p = 0 := by simpa using hp
    subst this; exact zero_non q ((mN q).1 hq).1 ((mN q).1 hq).2.2
  · have : q = 0 := by simpa using hq
    subst this; exact (zero_acc p ((mA p).1 hp)).symm
  · exact absurd rfl hne
  · exact acc_non p ((mA p).1 hp) q ((mN q).1 hq).2.1
  · have : q = 0 := by simpa using hq
    subst this; exact (zero_non p ((mN p).1 hp).1 ((mN p).1 hp).2.2).symm
  · exact (acc_non q ((mA q).1 hq) p ((mN p).1 hp).2.1).symm
  · exact absurd rfl hne

/-- **Distinguishability invariant of `partition`**: two states in different blocks of the final
partition are told apart by a word, in the completed automaton — for every schedule. -/
theorem partition_dist (σ : Schedule) (a : Auto) (P : List Block) (hwf : WF a) (hco : CoAcc a)
    (h : partition σ a = some P) : DInv a P := by
  unfold partition at h
  simp only [Option.map_eq_some_iff] at h
  obtain ⟨st', hr, rfl⟩ := h
  have hP := initParts_PInv hwf.zero_not_acc
  have hI : DI a (fun _ => False) { parts := initParts a, work := initParts a } := by
    refine ⟨hP, initParts_DInv hwf hco, ?_⟩
    intro X hX B hB
    exact uncut_of_block hP (hX.resolve_right id) hB
  exact (refineLoop_DI hwf hco _ _ _ _ hI hr).dist

/-! ### 2. From the final partition to the quotient and to the renumbered automaton -/

section QuotMin
variable {a : Auto} {P : List Block}

theorem quot_states_QR {r : Nat} (h : r ∈ (quot P a).states) : QR P a r := by
  rcases mem_states.1 h with h | ⟨t, ht, h | h⟩
  · exact .inl h
  · have ht : t ∈ qTrans3 P a := ht
    rw [h]; exact (mem_qTrans2.1 (mem_qTrans3.1 ht).1).2
  · have ht : t ∈ qTrans3 P a := ht
    obtain ⟨s, hs, rfl⟩ := mem_qTrans1.1 (mem_qTrans2.1 (mem_qTrans3.1 ht).1).1
    rw [h]; exact .inr (mem_qTargets.2 ⟨s, hs, rfl⟩)

/-- different states of the quotient are representatives of different blocks -/
theorem quot_dist (hP : PInv a P) (hD : DInv a P) {r1 r2 : Nat} (h1 : QR P a r1)
    (h2 : QR P a r2) (hne : r1 ≠ r2) : Dist a r1 r2 := by
  obtain ⟨q1, hq1, rfl⟩ := QR_rep h1
  obtain ⟨q2, hq2, rfl⟩ := QR_rep h2
  obtain ⟨B1, hB1, _, hr1⟩ := rep_same hP hq1
  obtain ⟨B2, hB2, _, hr2⟩ := rep_same hP hq2
  have hB : B1 ≠ B2 := by
    intro e; subst e
    have := rep_eq hP ⟨B1, hB1, hr1, hr2⟩
    rw [rep_idem hP hq1, rep_idem hP hq2] at this
    exact hne this
  exact hD B1 hB1 B2 hB2 hB _ hr1 _ hr2

end QuotMin

section Rename2
variable {b b' : Auto} {f : Nat → Nat} {S : Nat → Prop}
  (hinj : ∀ x y, S x → S y → f x = f y → x = y)
  (hsrc : ∀ t ∈ b.trans, S t.1) (htgt : ∀ t ∈ b.trans, S t.2.2)
  (htr : b'.trans = b.trans.map fun t => (f t.1, t.2.1, f t.2.2))
include hinj hsrc htgt htr

theorem rename_run : ∀ (w : List Nat) (q : Nat), S q → b'.run (f q) w = (b.run q w).map f
  | [], q, _ => rfl
  | i :: w, q, hq => by
    simp only [Auto.run]
    rw [rename_step hinj hsrc htr hq]
    cases hs : b.step q i with
    | none => rfl
    | some q' =>
      obtain ⟨t, ht, _, _, h3⟩ := step_eq_some hs
      simp only [Option.map_some]
      exact rename_run w q' (h3 ▸ htgt t ht)

end Rename2

/-- the renumbering function of `renum b` -/
def renumF (b : Auto) (q : Nat) : Nat := (List.idxOf? q b.states).getD 0

theorem renum_states {b : Auto} {q : Nat} (h : q ∈ (renum b).states) :
    ∃ r ∈ b.states, q = renumF b r := by
  rcases mem_states.1 h with h | ⟨t, ht, h⟩
  · exact ⟨b.start, mem_states.2 (.inl rfl), h⟩
  · have ht : t ∈ b.trans.map (fun t => (renumF b t.1, t.2.1, renumF b t.2.2)) := ht
    obtain ⟨s, hs, rfl⟩ := List.mem_map.1 ht
    rcases h with h | h
    · exact ⟨s.1, mem_states.2 (.inr ⟨s, hs, .inl rfl⟩), h⟩
    · exact ⟨s.2.2, mem_states.2 (.inr ⟨s, hs, .inr rfl⟩), h⟩

theorem renum_accFrom (b : Auto) (hacc : ∀ q ∈ b.acc, q ∈ b.states) (w : List Nat) {q : Nat}
    (hq : q ∈ b.states) : accFrom (renum b) (renumF b q) w = accFrom b q w :=
  rename_accFrom (b := b) (b' := renum b) (S := fun q => q ∈ b.states) (f := renumF b)
    (fun _ _ hx hy h => idx_inj _ hx hy h)
    (fun t ht => mem_states.2 (.inr ⟨t, ht, .inl rfl⟩))
    (fun t ht => mem_states.2 (.inr ⟨t, ht, .inr rfl⟩))
    hacc rfl (fun _ => mem_normSet) w q hq

theorem renum_run (b : Auto) (w : List Nat) {q : Nat} (hq : q ∈ b.states) :
    (renum b).run (renumF b q) w = (b.run q w).map (renumF b) :=
  rename_run (b := b) (b' := renum b) (S := fun q => q ∈ b.states) (f := renumF b)
    (fun _ _ hx hy h => idx_inj _ hx hy h)
    (fun t ht => mem_states.2 (.inr ⟨t, ht, .inl rfl⟩))
    (fun t ht => mem_states.2 (.inr ⟨t, ht, .inr rfl⟩))
    rfl w q hq

/-- **The minimised automaton is reduced**, for every schedule: no two different states accept
the same words.  `accFrom m q w` = "`m.run q w` ends in an accepting state".

`CoAcc a` cannot be dropped: in
`{start := 1, trans := [(1,0,2),(1,1,3),(1,2,4),(3,0,3),(4,0,4),(4,1,4)], acc := [2]}` the states
3 and 4 accept nothing, the splitter `[0]` on input 1 separates them (3 goes to the dead state,
4 does not), both have outgoing transitions and survive the clean-up passes: the result has two
states that accept no word (see `exNotReduced` below). -/
theorem minimize_reduced (σ : Schedule) (a m : Auto) (hwf : WF a) (hco : CoAcc a)
    (h : minimize σ a = some m) :
    ∀ p ∈ m.states, ∀ q ∈ m.states, p ≠ q → ∃ w : List Nat, accFrom m p w ≠ accFrom m q w := by
  rw [minimize_eq, Option.map_eq_some_iff] at h
  obtain ⟨P, hpart, rfl⟩ := h
  obtain ⟨hP, hS⟩ := partition_stable σ a P hwf hpart
  have hD := partition_dist σ a P hwf hco hpart
  intro p hp q hq hne
  obtain ⟨r1, hr1, rfl⟩ := renum_states hp
  obtain ⟨r2, hr2, rfl⟩ := renum_states hq
  have hr : r1 ≠ r2 := fun e => hne (by rw [e])
  have hQ1 := quot_states_QR hr1
  have hQ2 := quot_states_QR hr2
  obtain ⟨w, hw⟩ := quot_dist hP hD hQ1 hQ2 hr
  refine ⟨w, ?_⟩
  have hacc := quot_acc_states hwf hP hS
  rw [renum_accFrom _ hacc w hr1, renum_accFrom _ hacc w hr2,
    quot_accFrom hwf hP hS w r1 hQ1, quot_accFrom hwf hP hS w r2 hQ2]
  exact hw

/-! ### 3. Accessibility -/

section AccessQ
variable {a : Auto} {P : List Block} (hwf : WF a) (hP : PInv a P) (hS : Stable a P)
include hwf hP

omit hP in
/-- a transition of `a` out of a state of the quotient into a state kept by the last pass
survives -/
theorem quot_step_kept {r i q' : Nat} (hr : QR P a r) (hs : a.step r i = some q')
    (keep : repOf P q' ∈ qAcc2 P a ∨ repOf P q' ∈ qSources P a) :
    (quot P a).step r i = some (repOf P q') := by
  obtain ⟨s0, hs0, h1, h2, h3⟩ := step_eq_some hs
  have htgt : ∀ t ∈ qTrans3 P a, t.1 = r → t.2.1 = i → t.2.2 = repOf P q' := by
    intro t ht e1 e2
    obtain ⟨s, hsm, rfl⟩ := mem_qTrans1.1 (mem_qTrans2.1 (mem_qTrans3.1 ht).1).1
    simp only at e1 e2 ⊢
    rw [← h3, hwf.2.1 s hsm s0 hs0 (e1.trans h1.symm) (e2.trans h2.symm)]
  have ht0 : (r, i, repOf P q') ∈ qTrans2 P a :=
    mem_qTrans2.2 ⟨mem_qTrans1.2 ⟨s0, hs0, by rw [h1, h2, h3]⟩, hr⟩
  exact step_some_of (b := quot P a) ⟨_, mem_qTrans3.2 ⟨ht0, keep⟩, rfl, rfl⟩ htgt

include hS

/-- the representative of `p` has the transitions of `p`, up to representatives -/
theorem rep_step {p i p' : Nat} (hpa : p ∈ allStates a) (hs : a.step p i = some p') :
    ∃ p'', a.step (repOf P p) i = some p'' ∧ repOf P p'' = repOf P p' := by
  obtain ⟨s0, hs0, _, _, h3⟩ := step_eq_some hs
  obtain ⟨B, hB, h1, h2⟩ := rep_same hP hpa
  obtain ⟨C, hC, c1, c2⟩ := hS B hB _ h1 _ h2 i
  rw [hwf.stepC_of_step hs] at c1
  have hp'0 : p' ≠ 0 := h3 ▸ hwf.tgt_ne_zero s0 hs0
  have hne : stepC a (repOf P p) i ≠ 0 := by
    intro e
    rw [e] at c2
    exact hp'0 (hP.zero C hC c2 p' c1)
  exact ⟨_, (stepC_ne_zero hne).2, (rep_eq hP ⟨C, hC, c1, c2⟩).symm⟩

/-- a state with an outgoing transition whose representative is a state of the quotient: the
representative is a source of the first clean-up pass -/
theorem rep_source {p i p' : Nat} (hpa : p ∈ allStates a) (hQ : QR P a (repOf P p))
    (hs : a.step p i = some p') : repOf P p ∈ qSources P a := by
  obtain ⟨p'', hs', _⟩ := rep_step hwf hP hS hpa hs
  obtain ⟨s, hsm, e1, _, _⟩ := step_eq_some hs'
  exact mem_qSources.2 ⟨_, mem_qTrans2.2 ⟨mem_qTrans1.2 ⟨s, hsm, rfl⟩, e1 ▸ hQ⟩, e1⟩

/-- a path of `a` whose end is kept by the last clean-up pass is a path of the quotient -/
theorem quot_reach : ∀ (w : List Nat) (p q : Nat), a.run p w = some q → p ∈ allStates a →
    QR P a (repOf P p) → (∃ u, (quot P a).run (qStart P a) u = some (repOf P p)) →
    (repOf P q ∈ qAcc2 P a ∨ repOf P q ∈ qSources P a) →
    ∃ u, (quot P a).run (qStart P a) u = some (repOf P q)
  | [], p, q, h, _, _, hu, _ => by
    simp only [Auto.run, Option.some.injEq] at h
    subst h; exact hu
  | i :: w, p, q, h, hpa, hQ, hu, keep => by
    simp only [Auto.run] at h
    cases hs : a.step p i with
    | none => simp [hs] at h
    | some p' =>
      simp only [hs] at h
      obtain ⟨s0, hs0, _, _, h3⟩ := step_eq_some hs
      have hp'a : p' ∈ allStates a := h3 ▸ tgt_mem_all hs0
      have hQ' : QR P a (repOf P p') := .inr (mem_qTargets.2 ⟨s0, hs0, by rw [h3]⟩)
      have keep' : repOf P p' ∈ qAcc2 P a ∨ repOf P p' ∈ qSources P a := by
        cases w with
        | nil =>
          simp only [Auto.run, Option.some.injEq] at h
          subst h; exact keep
        | cons j w' =>
          simp only [Auto.run] at h
          cases hs2 : a.step p' j with
          | none => simp [hs2] at h
          | some p2 => exact .inr (rep_source hwf hP hS hp'a hQ' hs2)
      obtain ⟨p'', hs', e⟩ := rep_step hwf hP hS hpa hs
      have hst : (quot P a).step (repOf P p) i = some (repOf P p') := by
        rw [← e]
        exact quot_step_kept hwf hQ hs' (e ▸ keep')
      obtain ⟨u, hu⟩ := hu
      exact quot_reach w p' q h hp'a hQ' ⟨u ++ [i], BuildWF.run_snoc _ u _ _ i _ hu hst⟩ keep

/-- every state of the quotient is reachable from its start state -/
theorem quot_accessible (hacc : Access a) :
    ∀ r ∈ (quot P a).states, ∃ u, (quot P a).run (quot P a).start u = some r := by
  intro r hr
  have hstart : a.start ∈ allStates a := mem_allStates.2 (.inr (mem_states.2 (.inl rfl)))
  have main : ∀ q0 ∈ a.states, (repOf P q0 ∈ qAcc2 P a ∨ repOf P q0 ∈ qSources P a) →
      ∃ u, (quot P a).run (qStart P a) u = some (repOf P q0) := by
    intro q0 hq0 keep
    obtain ⟨w, hw⟩ := hacc q0 hq0
    exact quot_reach hwf hP hS w a.start q0 hw hstart (.inl rfl) ⟨[], rfl⟩ keep
  rcases mem_states.1 hr with h | ⟨t, ht, h | h⟩
  · exact ⟨[], by rw [h]; rfl⟩
  · have ht : t ∈ qTrans3 P a := ht
    have ht2 := (mem_qTrans3.1 ht).1
    have hsrc : r ∈ qSources P a := mem_qSources.2 ⟨t, ht2, h.symm⟩
    rcases (mem_qTrans2.1 ht2).2 with e | e
    · exact ⟨[], by rw [h, e]; rfl⟩
    · obtain ⟨s, hs, e⟩ := mem_qTargets.1 e
      rw [← h] at e
      rw [e] at hsrc ⊢
      exact main s.2.2 (mem_states.2 (.inr ⟨s, hs, .inr rfl⟩)) (.inr hsrc)
  · have ht : t ∈ qTrans3 P a := ht
    have keep := (mem_qTrans3.1 ht).2
    obtain ⟨s, hs, e⟩ := mem_qTrans1.1 (mem_qTrans2.1 (mem_qTrans3.1 ht).1).1
    have e : r = repOf P s.2.2 := by rw [h, e]
    rw [← h] at keep
    rw [e] at keep ⊢
    exact main s.2.2 (mem_states.2 (.inr ⟨s, hs, .inr rfl⟩)) keep

end AccessQ

/-- **The minimised automaton is accessible**, for every schedule: every state is reachable from
the start state.

`Access a` (which subsumes the fourth clause of `WF a`) cannot be dropped: the first clean-up pass
keeps the transitions out of *targets* of transitions, not out of reachable states.  In
`{start := 1, trans := [(1,0,2),(7,0,8),(8,0,7),(7,1,2)], acc := [2]}` the states 7 and 8 are
targets of each other, are kept, and are unreachable (see `exNotAccessible` below). -/
theorem minimize_accessible (σ : Schedule) (a m : Auto) (hwf : WF a) (hacc : Access a)
    (h : minimize σ a = some m) :
    ∀ q ∈ m.states, ∃ w : List Nat, m.run m.start w = some q := by
  rw [minimize_eq, Option.map_eq_some_iff] at h
  obtain ⟨P, hpart, rfl⟩ := h
  obtain ⟨hP, hS⟩ := partition_stable σ a P hwf hpart
  intro q hq
  obtain ⟨r, hr, rfl⟩ := renum_states hq
  obtain ⟨u, hu⟩ := quot_accessible hwf hP hS hacc r hr
  refine ⟨u, ?_⟩
  show (renum (quot P a)).run (renumF (quot P a) (quot P a).start) u = _
  rw [renum_run _ u (mem_states.2 (.inl rfl)), hu]
  rfl

end Complgen.Min

/-! ### 4. The automata of the subset construction satisfy the two hypotheses -/

namespace Complgen
namespace BuildMin
open Subset BuildWF

/-- what the loop invariants of Subset.lean and BuildWF.lean give for a terminated run from the
initial state of `buildAuto` -/
theorem buildLoop_facts (σ : Schedule) (start : List Nat) (follow : Nat → List Nat)
    (symOf : Nat → Option Inp) (inputs : List Inp) (fuel : Nat) (st : BuildState)
    (h : buildLoop σ follow symOf (indexed inputs) fuel 0
      { ids := [(start, 1)], next := 2, work := [start], trans := [] } = some st) :
    Base follow symOf (indexed inputs) st ∧ Closed follow symOf (indexed inputs) st ∧
      st.work = [] ∧ (start, 1) ∈ st.ids ∧ Inv2 st := by
  have hb0 : Base follow symOf (indexed inputs)
      { ids := [(start, 1)], next := 2, work := [start], trans := [] } := by
    refine ⟨?_, ?_, ?_, ?_⟩
    · intro e he
      simp only [List.mem_singleton] at he
      subst he
      simp
    · intro e he e' he' _
      simp only [List.mem_singleton] at he he'
      rw [he, he']
    · intro e he e' he' _
      simp only [List.mem_singleton] at he he'
      rw [he, he']
    · intro t ht
      simp at ht
  have hc0 : Closed follow symOf (indexed inputs)
      { ids := [(start, 1)], next := 2, work := [start], trans := [] } := by
    intro S i hSi hSw
    simp only [List.mem_singleton, Prod.mk.injEq] at hSi
    simp only [List.mem_singleton] at hSw
    exact absurd hSi.1 hSw
  have hi0 : Inv2 { ids := [(start, 1)], next := 2, work := [start], trans := [] } := by
    refine ⟨by simp, ?_, ?_⟩
    · intro e he
      simp only [List.mem_singleton] at he
      subst he
      simp
    · intro e he
      simp only [List.mem_singleton] at he
      subst he
      exact Reach.refl
  obtain ⟨hb, hc, hw, hids⟩ := buildLoop_spec follow symOf (indexed inputs) σ fuel 0 _ st hb0 hc0 h
  exact ⟨hb, hc, hw, hids _ (by simp),
    buildLoop_inv2 follow symOf (indexed inputs) σ fuel 0 _ st hi0 h⟩

/-- every state of the assembled automaton is the name of a set of positions -/
theorem state_named {follow : Nat → List Nat} {symOf : Nat → Option Inp} {inps : List (Nat × Inp)}
    {st : BuildState} {start : List Nat} (hb : Base follow symOf inps st)
    (hstart : (start, 1) ∈ st.ids) {a : Auto} (hst : a.start = 1) (htr : a.trans = st.trans)
    {q : Nat} (hq : q ∈ a.states) : ∃ S, (S, q) ∈ st.ids := by
  rw [Min.mem_states, hst, htr] at hq
  rcases hq with rfl | ⟨t, ht, rfl | rfl⟩
  · exact ⟨start, hstart⟩
  · obtain ⟨S, x, a1, _, _, _⟩ := hb.tr t ht
    exact ⟨S, a1⟩
  · obtain ⟨S, x, _, _, _, d1⟩ := hb.tr t ht
    exact ⟨_, d1⟩

theorem buildLoop_access (σ : Schedule) (start : List Nat) (follow : Nat → List Nat)
    (symOf : Nat → Option Inp) (endPos : Nat) (inputs : List Inp) (fuel : Nat)
    (st : BuildState) (a : Auto)
    (h : buildLoop σ follow symOf (indexed inputs) fuel 0
      { ids := [(start, 1)], next := 2, work := [start], trans := [] } = some st)
    (ha : a = { start := 1, trans := st.trans,
                acc := (st.ids.filter (fun p => p.1.contains endPos)).map (·.2),
                inputs := inputs }) : Min.Access a := by
  obtain ⟨hb, _, _, hstart, hi⟩ := buildLoop_facts σ start follow symOf inputs fuel st h
  have hwf := buildLoop_WF σ start follow symOf endPos inputs fuel st a h ha
  have htr : a.trans = st.trans := by subst ha; rfl
  have hst : a.start = 1 := by subst ha; rfl
  intro q hq
  obtain ⟨S, hS⟩ := state_named hb hstart hst htr hq
  rw [hst]
  exact run_of_reach a hwf.2.1 (htr ▸ hi.reach _ hS)

theorem forall2_of_forall {α β : Type} {R : α → β → Prop} :
    ∀ (w : List α), (∀ x ∈ w, ∃ k, R x k) → ∃ ks, Forall2 R w ks
  | [], _ => ⟨[], Forall2.nil⟩
  | x :: w, h => by
    obtain ⟨k, hk⟩ := h x (by simp)
    obtain ⟨ks, hks⟩ := forall2_of_forall w (fun y hy => h y (List.mem_cons_of_mem _ hy))
    exact ⟨k :: ks, Forall2.cons hk hks⟩

/-- Co-accessibility of the assembled automaton, for abstract `first`/`follow`: it is enough that
`first` is not empty and that every position that occurs in `first` or in some `follow` set can
reach the end marker in the position automaton (`Subset.Acc`). -/
theorem buildLoop_coacc (σ : Schedule) (first : List Nat) (follow : Nat → List Nat)
    (symOf : Nat → Option Inp) (endPos : Nat) (inputs : List Inp) (fuel : Nat)
    (st : BuildState) (a : Auto)
    (hinputs : ∀ x, x ∈ inputs ↔ ∃ p, p < endPos ∧ symOf p = some x)
    (hend : symOf endPos = none)
    (hfollow : ∀ p q, q ∈ follow p → q ≤ endPos)
    (hfirst : ∀ q ∈ first, q ≤ endPos)
    (hne : first ≠ [])
    (hpos : ∀ q, (q ∈ first ∨ ∃ p, q ∈ follow p) → ∃ w, Acc follow symOf endPos q w)
    (h : buildLoop σ follow symOf (indexed inputs) fuel 0
      { ids := [(normSet first, 1)], next := 2, work := [normSet first], trans := [] } = some st)
    (ha : a = { start := 1, trans := st.trans,
                acc := (st.ids.filter (fun p => p.1.contains endPos)).map (·.2),
                inputs := inputs }) : Min.CoAcc a := by
  obtain ⟨hb, hc, hw, hstart, _⟩ := buildLoop_facts σ _ follow symOf inputs fuel st h
  have hwf := buildLoop_WF σ _ follow symOf endPos inputs fuel st a h ha
  have hfun : ∀ k x y, (k, x) ∈ indexed inputs → (k, y) ∈ indexed inputs → x = y := by
    intro k x y hx hy
    rw [mem_indexed] at hx hy
    rw [hx] at hy
    exact Option.some.inj hy
  have hacc : ∀ S q, (S, q) ∈ st.ids → (a.acc.contains q = true ↔ endPos ∈ S) := by
    intro S q hSq
    subst ha
    simp only [List.contains_iff_mem, List.mem_map, List.mem_filter]
    constructor
    · rintro ⟨e, ⟨he, hcont⟩, heq⟩
      have : e.1 = S := hb.inj2 e he _ hSq heq
      rw [← this]
      exact hcont
    · intro hS
      exact ⟨(S, q), ⟨hSq, hS⟩, rfl⟩
  have htr : a.trans = st.trans := by subst ha; rfl
  have hst : a.start = 1 := by subst ha; rfl
  -- a named set with a position that reaches the end marker: its state reaches acceptance
  have key : ∀ S i, (S, i) ∈ st.ids →
      (∃ q, q ∈ S ∧ q ≤ endPos ∧ ∃ w, Acc follow symOf endPos q w) →
      ∃ ks, Min.accFrom a i ks = true := by
    rintro S i hS ⟨q, hqS, hqe, w, hAcc⟩
    have hks : ∀ x ∈ w, ∃ k, (k, x) ∈ indexed inputs := by
      intro x hx
      have := acc_syms follow symOf endPos hend hfollow hqe hAcc x hx
      rw [← hinputs, List.mem_iff_getElem?] at this
      obtain ⟨k, hk⟩ := this
      exact ⟨k, mem_indexed.2 hk⟩
    obtain ⟨ks, hks⟩ := forall2_of_forall w hks
    exact ⟨ks, (run_spec follow symOf endPos (indexed inputs) a st hfun htr hb hc hw hacc w ks hks
      S i hS).2 ⟨q, hqS, hAcc⟩⟩
  have tgt : ∀ t ∈ a.trans, ∃ ks, Min.accFrom a t.2.2 ks = true := by
    intro t ht
    obtain ⟨S, x, _, _, hne', d1⟩ := hb.tr t (htr ▸ ht)
    obtain ⟨q, hq⟩ := List.exists_mem_of_ne_nil _ hne'
    obtain ⟨p, _, _, hqp⟩ := (mem_targetSet follow symOf).1 hq
    exact key _ _ d1 ⟨q, hq, hfollow p q hqp, hpos q (.inr ⟨p, hqp⟩)⟩
  intro q hq
  rw [Min.mem_states] at hq
  rcases hq with rfl | ⟨t, ht, rfl | rfl⟩
  · obtain ⟨q, hq⟩ := List.exists_mem_of_ne_nil _ hne
    rw [hst]
    exact key _ _ hstart ⟨q, mem_normSet.2 hq, hfirst q hq, hpos q (.inl hq)⟩
  · obtain ⟨ks, hks⟩ := tgt t ht
    refine ⟨t.2.1 :: ks, ?_⟩
    rw [Min.accFrom_cons, Min.step_some_of (b := a) (q' := t.2.2) ⟨t, ht, rfl, rfl⟩
      (fun t' ht' e1 e2 => hwf.2.1 t' ht' t ht e1 e2)]
    exact hks
  · exact tgt t ht

end BuildMin

/-- **The automaton built by the subset construction is accessible**, for every work-list schedule;
no hypothesis on `r` or `symOf`. -/
theorem buildAuto_access (σ : Schedule) (r : Regex) (symOf : Nat → Option Inp) (a : Auto)
    (h : buildAuto σ r symOf = some a) : Min.Access a := by
  simp only [buildAuto] at h
  split at h
  · cases h
  · rename_i st hloop
    exact BuildMin.buildLoop_access σ _ r.follow symOf r.endPos _ _ st a hloop
      (Option.some.inj h).symm

/-- hence: the minimised automaton of what the construction builds is accessible, for all
schedules of both -/
theorem minimize_buildAuto_accessible (σ σ' : Schedule) (r : Regex) (symOf : Nat → Option Inp)
    (a m : Auto) (h : buildAuto σ r symOf = some a) (hm : Min.minimize σ' a = some m) :
    ∀ q ∈ m.states, ∃ w : List Nat, m.run m.start w = some q :=
  Min.minimize_accessible σ' a m (buildAuto_WF σ r symOf a h) (buildAuto_access σ r symOf a h) hm

/-! ### 5. Co-accessibility of the position automaton of a regular expression -/

mutual
/-- no alternation without alternatives (the language of `or []` is empty) -/
def Rx.NoEmptyOr : Rx → Prop
  | .eps => True
  | .sym _ => True
  | .cat cs => RxL.NoEmptyOr cs
  | .or cs => cs ≠ .nil ∧ RxL.NoEmptyOr cs
  | .plus c => Rx.NoEmptyOr c
def RxL.NoEmptyOr : RxL → Prop
  | .nil => True
  | .cons c cs => Rx.NoEmptyOr c ∧ RxL.NoEmptyOr cs
end

mutual
theorem Rx.lang_nonempty : (r : Rx) → r.NoEmptyOr → ∃ w, r.Lang w
  | .eps, _ => ⟨[], by simp [Rx.Lang]⟩
  | .sym p, _ => ⟨[p], by simp [Rx.Lang]⟩
  | .cat cs, h => by
    simp only [Rx.NoEmptyOr] at h
    obtain ⟨w, hw⟩ := RxL.langCat_nonempty cs h
    exact ⟨w, by simp only [Rx.Lang]; exact hw⟩
  | .or cs, h => by
    simp only [Rx.NoEmptyOr] at h
    obtain ⟨w, hw⟩ := RxL.langOr_nonempty cs h.1 h.2
    exact ⟨w, by simp only [Rx.Lang]; exact hw⟩
  | .plus c, h => by
    simp only [Rx.NoEmptyOr] at h
    obtain ⟨w, hw⟩ := Rx.lang_nonempty c h
    refine ⟨w, ?_⟩
    simp only [Rx.Lang]
    exact ⟨[w], by simp, by simp, by simpa using hw⟩
theorem RxL.langCat_nonempty : (cs : RxL) → cs.NoEmptyOr → ∃ w, RxL.LangCat cs w
  | .nil, _ => ⟨[], by simp [RxL.LangCat]⟩
  | .cons c cs, h => by
    simp only [RxL.NoEmptyOr] at h
    obtain ⟨u, hu⟩ := Rx.lang_nonempty c h.1
    obtain ⟨v, hv⟩ := RxL.langCat_nonempty cs h.2
    exact ⟨u ++ v, by simp only [RxL.LangCat]; exact ⟨u, v, rfl, hu, hv⟩⟩
theorem RxL.langOr_nonempty : (cs : RxL) → cs ≠ .nil → cs.NoEmptyOr → ∃ w, RxL.LangOr cs w
  | .nil, h, _ => absurd rfl h
  | .cons c cs, _, h => by
    simp only [RxL.NoEmptyOr] at h
    obtain ⟨u, hu⟩ := Rx.lang_nonempty c h.1
    exact ⟨u, by simp only [RxL.LangOr]; exact .inl hu⟩
end

mutual
/-- every position of an expression without empty alternations has a continuation -/
theorem Rx.after_nonempty : (r : Rx) → r.NoEmptyOr → ∀ p ∈ r.positions, ∃ w, Rx.After r p w
  | .eps, _, p, hp => by simp [Rx.positions] at hp
  | .sym q, _, p, hp => by
    simp only [Rx.positions, List.mem_singleton] at hp
    exact ⟨[], by simp [Rx.After, hp]⟩
  | .cat cs, h, p, hp => by
    simp only [Rx.NoEmptyOr] at h
    simp only [Rx.positions] at hp
    obtain ⟨w, hw⟩ := RxL.afterCat_nonempty cs h p hp
    exact ⟨w, by simp only [Rx.After]; exact hw⟩
  | .or cs, h, p, hp => by
    simp only [Rx.NoEmptyOr] at h
    simp only [Rx.positions] at hp
    obtain ⟨w, hw⟩ := RxL.afterOr_nonempty cs h.2 p hp
    exact ⟨w, by simp only [Rx.After]; exact hw⟩
  | .plus c, h, p, hp => by
    simp only [Rx.NoEmptyOr] at h
    simp only [Rx.positions] at hp
    obtain ⟨u, hu⟩ := Rx.after_nonempty c h p hp
    exact ⟨u ++ [], by simp only [Rx.After]; exact ⟨u, [], rfl, hu, Rx.star_nil c⟩⟩
theorem RxL.afterCat_nonempty : (cs : RxL) → cs.NoEmptyOr → ∀ p ∈ Rx.positionsL cs,
    ∃ w, RxL.AfterCat cs p w
  | .nil, _, p, hp => by simp [Rx.positionsL] at hp
  | .cons c cs, h, p, hp => by
    simp only [RxL.NoEmptyOr] at h
    simp only [Rx.positionsL, List.mem_append] at hp
    rcases hp with hp | hp
    · obtain ⟨u, hu⟩ := Rx.after_nonempty c h.1 p hp
      obtain ⟨v, hv⟩ := RxL.langCat_nonempty cs h.2
      exact ⟨u ++ v, by simp only [RxL.AfterCat]; exact .inl ⟨u, v, rfl, hu, hv⟩⟩
    · obtain ⟨w, hw⟩ := RxL.afterCat_nonempty cs h.2 p hp
      exact ⟨w, by simp only [RxL.AfterCat]; exact .inr hw⟩
theorem RxL.afterOr_nonempty : (cs : RxL) → cs.NoEmptyOr → ∀ p ∈ Rx.positionsL cs,
    ∃ w, RxL.AfterOr cs p w
  | .nil, _, p, hp => by simp [Rx.positionsL] at hp
  | .cons c cs, h, p, hp => by
    simp only [RxL.NoEmptyOr] at h
    simp only [Rx.positionsL, List.mem_append] at hp
    rcases hp with hp | hp
    · obtain ⟨u, hu⟩ := Rx.after_nonempty c h.1 p hp
      exact ⟨u, by simp only [RxL.AfterOr]; exact .inl hu⟩
    · obtain ⟨w, hw⟩ := RxL.afterOr_nonempty cs h.2 p hp
      exact ⟨w, by simp only [RxL.AfterOr]; exact .inr hw⟩
end

/-- a walk along `follow` to the end marker is a run of the position automaton, when every
position below the end marker carries a symbol -/
theorem walk_acc (fo : Nat → List Nat) (symOf : Nat → Option Inp) (e : Nat)
    (hsym : ∀ p, p < e → (symOf p).isSome) (hfo : ∀ p q, q ∈ fo p → q ≤ e) :
    ∀ (w : List Nat) (p : Nat), p ≤ e → Walk fo [e] p w → ∃ w', Subset.Acc fo symOf e p w'
  | [], p, _, h => by
    simp only [Walk, List.mem_singleton] at h
    exact ⟨[], by simp [Subset.Acc, h]⟩
  | x :: w, p, hp, h => by
    simp only [Walk] at h
    rcases Nat.lt_or_eq_of_le hp with hlt | heq
    · obtain ⟨s, hs⟩ := Option.isSome_iff_exists.1 (hsym p hlt)
      obtain ⟨w', hw'⟩ := walk_acc fo symOf e hsym hfo w x (hfo p x h.1) h.2
      exact ⟨s :: w', by simp only [Subset.Acc]; exact ⟨hs, x, h.1, hw'⟩⟩
    · exact ⟨[], by simp [Subset.Acc, heq]⟩

/-- In the position automaton of a linear expression without empty alternations (end marker
appended), `first` is not empty and every position reaches the end marker. -/
theorem Regex.pos_coacc (r : Regex) (symOf : Nat → Option Inp) (hl : r.root.Linear)
    (hpos : ∀ q ∈ r.root.positions, q < r.endPos) (hne : r.root.NoEmptyOr)
    (hsym : ∀ p, p < r.endPos → (symOf p).isSome) :
    r.first ≠ [] ∧ (∀ q ∈ r.full.positions, q ≤ r.endPos) ∧
      ∀ q ∈ r.full.positions, ∃ w, Subset.Acc r.follow symOf r.endPos q w := by
  have he : r.endPos ∉ r.root.positions := fun h => Nat.lt_irrefl _ (hpos _ h)
  have hfl : r.full.Linear := by
    simp only [Regex.full, Rx.Linear, Rx.positions, Rx.positionsL, List.append_nil]
    rw [List.nodup_append]
    refine ⟨hl, by simp, ?_⟩
    intro a ha b hb
    simp only [List.mem_singleton] at hb
    subst hb
    rintro rfl
    exact he ha
  have hfne : r.full.NoEmptyOr := by
    simp only [Regex.full, Rx.NoEmptyOr, RxL.NoEmptyOr, and_true]
    exact hne
  have hple : ∀ q ∈ r.full.positions, q ≤ r.endPos := by
    intro q hq
    simp only [Regex.full, Rx.positions, Rx.positionsL, List.append_nil, List.mem_append,
      List.mem_singleton] at hq
    rcases hq with hq | hq
    · exact Nat.le_of_lt (hpos q hq)
    · exact Nat.le_of_eq hq
  have hlast : r.full.last = [r.endPos] := by
    simp [Regex.full, Rx.last, Rx.lastCat, Rx.nullableAll, Rx.nullable]
  refine ⟨?_, hple, ?_⟩
  · obtain ⟨w, hw⟩ := Rx.lang_nonempty r.full hfne
    cases w with
    | nil =>
      have := (Rx.lang_nil_iff r.full).1 hw
      simp [Regex.full, Rx.nullable, Rx.nullableAll] at this
    | cons x w =>
      have := ((Rx.lang_cons r.full hfl x w).1 hw).1
      exact List.ne_nil_of_mem this
  · intro q hq
    obtain ⟨w, hw⟩ := Rx.after_nonempty r.full hfne q hq
    rw [Rx.after_iff_walk r.full hfl, hlast] at hw
    exact walk_acc r.follow symOf r.endPos hsym
      (fun p q hq => hple q (Rx.follow_sub _ p q hq)) w q (hple q hq) hw

/-- **The automaton built by the subset construction is co-accessible**, for every work-list
schedule, when the expression is linear, numbered below the end marker, has no empty alternation
(`or []` has the empty language: a position before it could not reach the end marker), and every
position carries a symbol. -/
theorem buildAuto_coacc (σ : Schedule) (r : Regex) (symOf : Nat → Option Inp) (a : Auto)
    (hl : r.root.Linear) (hpos : ∀ q ∈ r.root.positions, q < r.endPos) (hne : r.root.NoEmptyOr)
    (hsym : ∀ p, p < r.inputs.length → (symOf p).isSome)
    (hend : symOf r.endPos = none)
    (h : buildAuto σ r symOf = some a) : Min.CoAcc a := by
  obtain ⟨h1, h2, h3⟩ := Regex.pos_coacc r symOf hl hpos hne hsym
  simp only [buildAuto] at h
  split at h
  · cases h
  · rename_i st hloop
    refine BuildMin.buildLoop_coacc σ r.first r.follow symOf r.endPos _ _ st a ?_ hend
      (fun p q hq => h2 q (Rx.follow_sub _ p q hq))
      (fun q hq => h2 q (Rx.first_sub _ q hq)) h1 ?_ hloop (Option.some.inj h).symm
    · intro x
      rw [Subset.mem_internInps, List.mem_filterMap]
      simp only [List.mem_range, Regex.endPos]
    · rintro q (hq | ⟨p, hq⟩)
      · exact h3 q (Rx.first_sub _ q hq)
      · exact h3 q (Rx.follow_sub _ p q hq)

/-- hence: the minimised automaton of what the construction builds is reduced, for all schedules
of both -/
theorem minimize_buildAuto_reduced (σ σ' : Schedule) (r : Regex) (symOf : Nat → Option Inp)
    (a m : Auto) (hl : r.root.Linear) (hpos : ∀ q ∈ r.root.positions, q < r.endPos)
    (hne : r.root.NoEmptyOr) (hsym : ∀ p, p < r.inputs.length → (symOf p).isSome)
    (hend : symOf r.endPos = none)
    (h : buildAuto σ r symOf = some a) (hm : Min.minimize σ' a = some m) :
    ∀ p ∈ m.states, ∀ q ∈ m.states, p ≠ q →
      ∃ w : List Nat, Min.accFrom m p w ≠ Min.accFrom m q w :=
  Min.minimize_reduced σ' a m (buildAuto_WF σ r symOf a h)
    (buildAuto_coacc σ r symOf a hl hpos hne hsym hend h) hm

/-! ### 6. The same for the expression-level entry point `Regex.ofExpr` -/

mutual
/-- no `alt`/`fb` node without alternatives (outside subwords, which are compiled separately) -/
def Expr.NoEmptyAlt : Expr → Prop
  | .term .. => True
  | .nonterm .. => True
  | .cmd .. => True
  | .seq cs _ => ExprL.NoEmptyAlt cs
  | .alt cs _ => cs ≠ .nil ∧ ExprL.NoEmptyAlt cs
  | .fb cs _ => cs ≠ .nil ∧ ExprL.NoEmptyAlt cs
  | .opt c _ => Expr.NoEmptyAlt c
  | .many1 c _ => Expr.NoEmptyAlt c
  | .dd .. => True
  | .sub .. => True
def ExprL.NoEmptyAlt : ExprL → Prop
  | .nil => True
  | .cons e es => Expr.NoEmptyAlt e ∧ ExprL.NoEmptyAlt es
end

mutual
theorem rxOfExpr_noEmptyOr : (e : Expr) → (st : List RxInput × RxPool) → e.NoEmptyAlt →
    (rxOfExpr e st).1.NoEmptyOr
  | .term t d l s, (ins, pool), _ => by simp only [rxOfExpr, Rx.NoEmptyOr]
  | .nonterm n l s, (ins, pool), _ => by simp only [rxOfExpr, Rx.NoEmptyOr]
  | .cmd c a l s, (ins, pool), _ => by simp only [rxOfExpr, Rx.NoEmptyOr]
  | .sub c l s, (ins, pool), _ => by rw [rxOfExpr_sub_fst]; simp only [Rx.NoEmptyOr]
  | .seq cs s, st, h => by
    simp only [Expr.NoEmptyAlt] at h
    rw [rxOfExpr_seq]
    simp only [Rx.NoEmptyOr]
    exact (rxOfExprL_noEmptyOr cs st h).1
  | .alt cs s, st, h => by
    simp only [Expr.NoEmptyAlt] at h
    rw [rxOfExpr_alt]
    simp only [Rx.NoEmptyOr]
    exact ⟨(rxOfExprL_noEmptyOr cs st h.2).2 h.1, (rxOfExprL_noEmptyOr cs st h.2).1⟩
  | .fb cs s, st, h => by
    simp only [Expr.NoEmptyAlt] at h
    rw [rxOfExpr_fb]
    simp only [Rx.NoEmptyOr]
    exact ⟨(rxOfExprL_noEmptyOr cs st h.2).2 h.1, (rxOfExprL_noEmptyOr cs st h.2).1⟩
  | .opt c s, st, h => by
    simp only [Expr.NoEmptyAlt] at h
    rw [rxOfExpr_opt]
    simp only [Rx.NoEmptyOr, RxL.NoEmptyOr, and_true]
    exact ⟨by simp, rxOfExpr_noEmptyOr c st h⟩
  | .many1 c s, st, h => by
    simp only [Expr.NoEmptyAlt] at h
    rw [rxOfExpr_many1]
    simp only [Rx.NoEmptyOr]
    exact rxOfExpr_noEmptyOr c st h
  | .dd c d s, st, _ => by rw [rxOfExpr_dd]; simp only [Rx.NoEmptyOr]
theorem rxOfExprL_noEmptyOr : (es : ExprL) → (st : List RxInput × RxPool) → es.NoEmptyAlt →
    (rxOfExprL es st).1.NoEmptyOr ∧ (es ≠ .nil → (rxOfExprL es st).1 ≠ .nil)
  | .nil, st, _ => by
    rw [rxOfExprL_nil]
    exact ⟨by simp only [RxL.NoEmptyOr], fun h => absurd rfl h⟩
  | .cons e es, st, h => by
    simp only [ExprL.NoEmptyAlt] at h
    rw [rxOfExprL_cons]
    refine ⟨?_, fun _ => by simp⟩
    simp only [RxL.NoEmptyOr]
    exact ⟨rxOfExpr_noEmptyOr e st h.1, (rxOfExprL_noEmptyOr es _ h.2).1⟩
end

/-- **Reduced and accessible, from the expression**: for an expression without empty alternations
whose leaves all carry a symbol, the minimised automaton of the automaton built from
`Regex.ofExpr e` is reduced and accessible — for every schedule of the subset construction and
every schedule of the minimiser. -/
theorem minimize_raw_reduced_accessible (σ σ' : Schedule) (e : Expr) (pool : RxPool)
    (symOf : Nat → Option Inp) (a m : Auto) (hne : e.NoEmptyAlt)
    (hsym : ∀ p, p < e.leafCount → (symOf p).isSome)
    (hend : symOf e.leafCount = none)
    (h : buildAuto σ (Regex.ofExpr e pool).1 symOf = some a)
    (hm : Min.minimize σ' a = some m) :
    (∀ p ∈ m.states, ∀ q ∈ m.states, p ≠ q →
      ∃ w : List Nat, Min.accFrom m p w ≠ Min.accFrom m q w) ∧
    (∀ q ∈ m.states, ∃ w : List Nat, m.run m.start w = some q) := by
  obtain ⟨hlin, _, hlen⟩ := Regex.ofExpr_linear e pool
  have hendPos := Regex.ofExpr_endPos e pool
  refine ⟨minimize_buildAuto_reduced σ σ' _ symOf a m hlin ?_ ?_ (by rw [hlen]; exact hsym)
      (by rw [hendPos]; exact hend) h hm,
    minimize_buildAuto_accessible σ σ' _ symOf a m h hm⟩
  · intro q hq
    rw [Regex.ofExpr_positions, List.mem_range'_1] at hq
    rw [hendPos]
    omega
  · rw [Regex.ofExpr_root]
    exact rxOfExpr_noEmptyOr e _ hne

end Complgen

/-! ### 7. The two hypotheses cannot be dropped -/

namespace Complgen.Min
open Complgen

/-- well-formed and accessible, but the states 3 and 4 cannot reach the accepting state 2 -/
def exNotReduced : Auto :=
  { start := 1, trans := [(1,0,2),(1,1,3),(1,2,4),(3,0,3),(4,0,4),(4,1,4)], acc := [2],
    inputs := [.star, .star, .star] }

theorem exNotReduced_WF : WF exNotReduced := by
  refine ⟨by decide, by decide, by decide, ?_⟩
  intro q hq
  have : q = 2 := by simpa [exNotReduced] using hq
  subst this
  exact ⟨[0], rfl⟩

theorem exNotReduced_access : Access exNotReduced := by
  intro q hq
  have hs : exNotReduced.states = [1, 2, 3, 4] := by decide
  rw [hs] at hq
  simp only [List.mem_cons, List.not_mem_nil, or_false] at hq
  rcases hq with rfl | rfl | rfl | rfl
  · exact ⟨[], rfl⟩
  · exact ⟨[0], rfl⟩
  · exact ⟨[1], rfl⟩
  · exact ⟨[2], rfl⟩

theorem exNotReduced_min :
    (minimize fifo exNotReduced).map (fun m => (m.start, m.trans, m.acc)) =
      some (0, [(0,0,1),(0,1,2),(0,2,3),(2,0,2),(3,0,3),(3,1,3)], [1]) := by decide

theorem exNotReduced_dead (ins : List Inp) : ∀ (w : List Nat),
    accFrom { start := 0, trans := [(0,0,1),(0,1,2),(0,2,3),(2,0,2),(3,0,3),(3,1,3)], acc := [1],
              inputs := ins } 2 w = false ∧
    accFrom { start := 0, trans := [(0,0,1),(0,1,2),(0,2,3),(2,0,2),(3,0,3),(3,1,3)], acc := [1],
              inputs := ins } 3 w = false
  | [] => ⟨rfl, rfl⟩
  | i :: w => by
    obtain ⟨h2, h3⟩ := exNotReduced_dead ins w
    rw [accFrom_cons, accFrom_cons]
    match i with
    | 0 => exact ⟨h2, h3⟩
    | 1 => exact ⟨rfl, h3⟩
    | n + 2 =>
      constructor
      · simp [Auto.step]
      · simp [Auto.step]

/-- **`CoAcc` is needed for `minimize_reduced`**: the minimised automaton of `exNotReduced` (a
well-formed, accessible automaton) has two different states, 2 and 3, that accept the same words
(none). -/
theorem exNotReduced_spec : ∀ m, minimize fifo exNotReduced = some m →
    2 ∈ m.states ∧ 3 ∈ m.states ∧ ∀ w, accFrom m 2 w = accFrom m 3 w := by
  intro m hm
  have h := exNotReduced_min
  rw [hm] at h
  obtain ⟨s, t, ac, ins⟩ := m
  simp only [Option.map_some, Option.some.injEq, Prod.mk.injEq] at h
  obtain ⟨rfl, rfl, rfl⟩ := h
  refine ⟨mem_states.2 (.inr ⟨(2, 0, 2), by simp, .inl rfl⟩),
    mem_states.2 (.inr ⟨(3, 0, 3), by simp, .inl rfl⟩), fun w => ?_⟩
  obtain ⟨h2, h3⟩ := exNotReduced_dead ins w
  rw [h2, h3]

/-- well-formed and co-accessible, but the states 7 and 8 are not reachable from the start -/
def exNotAccessible : Auto :=
  { start := 1, trans := [(1,0,2),(7,0,8),(8,0,7),(7,1,2)], acc := [2],
    inputs := [.star, .star] }

theorem exNotAccessible_WF : WF exNotAccessible := by
  refine ⟨by decide, by decide, by decide, ?_⟩
  intro q hq
  have : q = 2 := by simpa [exNotAccessible] using hq
  subst this
  exact ⟨[0], rfl⟩

theorem exNotAccessible_coacc : CoAcc exNotAccessible := by
  intro q hq
  have hs : exNotAccessible.states = [1, 2, 7, 8] := by decide
  rw [hs] at hq
  simp only [List.mem_cons, List.not_mem_nil, or_false] at hq
  rcases hq with rfl | rfl | rfl | rfl
  · exact ⟨[0], rfl⟩
  · exact ⟨[], rfl⟩
  · exact ⟨[1], rfl⟩
  · exact ⟨[0, 1], rfl⟩

theorem exNotAccessible_min :
    (minimize fifo exNotAccessible).map (fun m => (m.start, m.trans, m.acc)) =
      some (0, [(0,0,1),(2,0,3),(3,0,2),(2,1,1)], [1]) := by decide

theorem exNotAccessible_closed (ins : List Inp) : ∀ (w : List Nat) (q q' : Nat), (q = 0 ∨ q = 1) →
    Auto.run { start := 0, trans := [(0,0,1),(2,0,3),(3,0,2),(2,1,1)], acc := [1],
               inputs := ins } q w = some q' → (q' = 0 ∨ q' = 1)
  | [], q, q', hq, h => by
    simp only [Auto.run, Option.some.injEq] at h
    rw [← h]; exact hq
  | i :: w, q, q', hq, h => by
    simp only [Auto.run] at h
    rcases hq with rfl | rfl
    · match i with
      | 0 => exact exNotAccessible_closed ins w 1 q' (.inr rfl) h
      | n + 1 => simp [Auto.step] at h
    · simp [Auto.step] at h

/-- **`Access` is needed for `minimize_accessible`**: the minimised automaton of `exNotAccessible`
(a well-formed, co-accessible automaton) has a state, 2, that is not reachable from the start. -/
theorem exNotAccessible_spec : ∀ m, minimize fifo exNotAccessible = some m →
    2 ∈ m.states ∧ ∀ w, m.run m.start w ≠ some 2 := by
  intro m hm
  have h := exNotAccessible_min
  rw [hm] at h
  obtain ⟨s, t, ac, ins⟩ := m
  simp only [Option.map_some, Option.some.injEq, Prod.mk.injEq] at h
  obtain ⟨rfl, rfl, rfl⟩ := h
  refine ⟨mem_states.2 (.inr ⟨(2, 0, 3), by simp, .inl rfl⟩), fun w hw => ?_⟩
  have := exNotAccessible_closed ins w 0 2 (.inl rfl) hw
  omega

end Complgen.Min
