/-
C08: a grammar whose definitions refer to each other in a circle is rejected — the depth-first
traversal cannot succeed on a graph with a cycle (`Proofs/Topo.lean`: a successful traversal orders
every vertex after its children).
-/
import Complgen.Proofs.Meaning
namespace Complgen.Check
open Complgen

/-- `b` can be reached from `a` along one or more dependency edges -/
inductive Reach (G : Graph) : String → String → Prop
  | step {a b : String} : b ∈ kids G a → Reach G a b
  | trans {a b c : String} : Reach G a b → Reach G b c → Reach G a c

/-- `c` stands before `n` in the list -/
def Before (R : List String) (c n : String) : Prop := ∃ pre post, R = pre ++ n :: post ∧ c ∈ pre

theorem split_unique {n : String} : ∀ (a a' b b' : List String), (a ++ n :: b).Nodup →
    a ++ n :: b = a' ++ n :: b' → a = a'
  | [], [], _, _, _, _ => rfl
  | [], x :: a', b, b', hnd, h => by
    simp only [List.nil_append, List.cons_append, List.cons.injEq] at h
    obtain ⟨rfl, h2⟩ := h
    rw [h2] at hnd
    have := (List.nodup_cons.mp hnd).1
    exact absurd (by simp) this
  | x :: a, [], b, b', hnd, h => by
    simp only [List.nil_append, List.cons_append, List.cons.injEq] at h
    obtain ⟨rfl, _⟩ := h
    have := (List.nodup_cons.mp hnd).1
    exact absurd (by simp) this
  | x :: a, y :: a', b, b', hnd, h => by
    simp only [List.cons_append, List.cons.injEq] at h
    obtain ⟨rfl, h2⟩ := h
    rw [split_unique a a' b b' (List.nodup_cons.mp hnd).2 h2]

theorem before_trans (R : List String) (hnd : R.Nodup) (c n m : String) (h1 : Before R c n) (h2 : Before R n m) :
    Before R c m := by
  obtain ⟨pre1, post1, e1, hc⟩ := h1
  obtain ⟨pre2, post2, e2, hn⟩ := h2
  obtain ⟨p, q, hpq⟩ := List.append_of_mem hn
  refine ⟨pre2, post2, e2, ?_⟩
  have e3 : R = p ++ n :: (q ++ m :: post2) := by rw [e2, hpq]; simp
  have : pre1 = p := split_unique pre1 p post1 _ (by rw [← e1]; exact hnd) (by rw [← e1, ← e3])
  rw [hpq, ← this]
  exact List.mem_append_left _ hc

theorem before_irrefl (R : List String) (hnd : R.Nodup) (n : String) : ¬ Before R n n := by
  rintro ⟨pre, post, e, hn⟩
  rw [e] at hnd
  have := (List.nodup_append.mp hnd).2.2 n hn n (by simp)
  exact this rfl

theorem mem_of_before_right (R : List String) (c n : String) (h : Before R c n) : n ∈ R := by
  obtain ⟨pre, post, e, _⟩ := h
  rw [e]; simp

theorem reach_before (G : Graph) (R : List String) (hnd : R.Nodup) (hcl : Closed G R)
    (hall : ∀ v ∈ verts G, v ∈ R) (hk : KidsIn G) : ∀ a b, Reach G a b → a ∈ R → Before R b a := by
  intro a b h
  induction h with
  | step hkid =>
    intro ha
    obtain ⟨pre, post, e⟩ := List.append_of_mem ha
    exact ⟨pre, post, e, hcl pre _ post e _ hkid⟩
  | @trans x y z h1 h2 ih1 ih2 =>
    intro ha
    have hb := ih1 ha
    -- the intermediate vertex is in `R`
    have hbR : y ∈ R := by
      obtain ⟨pre, post, e, hm⟩ := hb
      rw [e]; exact List.mem_append_left _ hm
    exact before_trans R hnd z y x (ih2 hbR) hb

theorem reach_source_vertex (G : Graph) (a b : String) (h : Reach G a b) : a ∈ verts G := by
  induction h with
  | step hkid =>
    rename_i a b
    unfold kids at hkid
    cases hg : G.get? a with
    | none => rw [hg] at hkid; simp at hkid
    | some v =>
      unfold AList.get? at hg
      cases hf : List.find? (fun p => p.1 == a) G with
      | none => rw [hf] at hg; cases hg
      | some p =>
        have h1 := List.find?_some hf
        have h2 := List.mem_of_find?_eq_some hf
        have : p.1 = a := by simpa using h1
        exact List.mem_map.mpr ⟨p, h2, this⟩
  | trans _ _ ih1 _ => exact ih1

/-- **A table of definitions with a circular reference has no resolution order.** -/
theorem cycle_no_order (D : AList (Span × Expr)) (v : String) (hcyc : Reach (depGraph D) v v) :
    ∀ order, resolutionOrder D ≠ .ok order := by
  intro order h
  obtain ⟨R, _, hnd, hcl, hall⟩ := resolutionOrder_ok D order h
  have hv : v ∈ R := hall v (reach_source_vertex _ v v hcyc)
  exact before_irrefl R hnd v (reach_before _ R hnd hcl hall (kidsIn_depGraph D) v v hcyc hv)


/-- the part of `finishValidate` up to the resolution order, when the traversal fails -/
theorem finishValidate_cycle (g : Grammar) (sh : Shell) (command : String) (specs : AList UserSpec)
    (fbs : AList String) (hgs : getSpecializations g sh = .ok (specs, fbs)) (spans : List Span)
    (hro : resolutionOrder (tableOf sh g) = .error spans) :
    finishValidate g sh command ((plainDefs g).map fun x => (x.1, (x.2.1, x.2.2))) specs fbs =
      .err .nonterminalDefinitionsCycle spans := by
  unfold finishValidate
  simp only
  have hD : (((plainDefs g).map fun x => (x.1, (x.2.1, x.2.2))).map fun x => (x.1, x.2.1, distribute x.2.2)) =
      (plainDefs g).map fun x => (x.1, (x.2.1, distribute x.2.2)) := by
    simp [List.map_map, Function.comp_def]
  rw [hD]
  have hdefined : (((plainDefs g).map fun x => (x.1, (x.2.1, distribute x.2.2))).map (·.1)) =
      (plainDefs g).map (·.1) := by simp [List.map_map, Function.comp_def]
  rw [hdefined]
  have hb0 : SameCmds specs (⟨specs, ((plainDefs g).map fun x => (x.1, (x.2.1, distribute x.2.2))).map
      fun x => (x.1, x.2.1)⟩ : Book) := fun _ => rfl
  have hf1 := specFold_table g sh specs fbs hgs ((plainDefs g).map fun x => (x.1, (x.2.1, distribute x.2.2)))
    ([], ⟨specs, ((plainDefs g).map fun x => (x.1, (x.2.1, distribute x.2.2))).map fun x => (x.1, x.2.1)⟩) hb0
  generalize hr1 : ((plainDefs g).map fun x => (x.1, (x.2.1, distribute x.2.2))).foldl
    (specStep sh fbs ((plainDefs g).map (·.1)))
    ([], ⟨specs, ((plainDefs g).map fun x => (x.1, (x.2.1, distribute x.2.2))).map fun x => (x.1, x.2.1)⟩) = r1 at hf1 ⊢
  have htable : r1.1 = tableOf sh g := by
    rw [hf1.1]
    unfold tableOf
    simp [List.map_map, Function.comp_def]
  rw [htable, hro]

/-- **Definitions that refer to each other in a circle are rejected as such**, whenever none of the
mistakes checked earlier is present. -/
theorem validate_cycle (g : Grammar) (sh : Shell) (n : String) (h : commandOf g = .ok n)
    (hd : ((plainDefs g).map (·.1)).Nodup) (specs : AList UserSpec) (fbs : AList String)
    (hgs : getSpecializations g sh = .ok (specs, fbs))
    (v : String) (hcyc : Reach (depGraph (tableOf sh g)) v v) :
    ∃ spans, validate g sh = .err .nonterminalDefinitionsCycle spans := by
  rw [validate_after_plain g sh n h hd, hgs]
  simp only
  cases hro : resolutionOrder (tableOf sh g) with
  | error spans => exact ⟨spans, finishValidate_cycle g sh n specs fbs hgs spans hro⟩
  | ok order => exact absurd hro (cycle_no_order _ v hcyc order)

end Complgen.Check
