/-
C08: a grammar whose definitions refer to each other in a circle is rejected — the depth-first
traversal cannot succeed on a graph with a cycle (`Proofs/Topo.lean`: a successful traversal orders
every vertex after its children).
-/
import Complgen.Proofs.Meaning
namespace Complgen.Check
open Complgen

/-- `b` can be reached from `a` along one or more dependency edges -/
inductive Reach (G : Graph) : String → String → Prop
  | step {a b : String} : b ∈ kids G a → Reach G a b
  | trans {a b c : String} : Reach G a b → Reach G b c → Reach G a c

/-- `c` stands before `n` in the list -/
def Before (R : List String) (c n : String) : Prop := ∃ pre post, R = pre ++ n :: post ∧ c ∈ pre

theorem split_unique {n : String} : ∀ (a a' b b' : List String), (a ++ n :: b).Nodup →
    a ++ n :: b = a' ++ n :: b' → a = a'
  | [], [], _, _, _, _ => rfl
  | [], x :: a', b, b', hnd, h => by
    simp only [List.nil_append, List.cons_append, List.cons.injEq] at h
    obtain ⟨rfl, h2⟩ := h
    rw [h2] at hnd
    have := (List.nodup_cons.mp hnd).1
    exact absurd (by simp) this
  | x :: a, [], b, b', hnd, h => by
    simp only [List.nil_append, List.cons_append, List.cons.injEq] at h
    obtain ⟨rfl, _⟩ := h
    have := (List.nodup_cons.mp hnd).1
    exact absurd (by simp) this
  | x :: a, y :: a', b, b', hnd, h => by
    simp only [List.cons_append, List.cons.injEq] at h
    obtain ⟨rfl, h2⟩ := h
    rw [split_unique a a' b b' (List.nodup_cons.mp hnd).2 h2]

theorem before_trans (R : List String) (hnd : R.Nodup) (c n m : String) (h1 : Before R c n) (h2 : Before R n m) :
    Before R c m := by
  obtain ⟨pre1, post1, e1, hc⟩ := h1
  obtain ⟨pre2, post2, e2, hn⟩ := h2
  obtain ⟨p, q, hpq⟩ := List.append_of_mem hn
  refine ⟨pre2, post2, e2, ?_⟩
  have e3 : R = p ++ n :: (q ++ m :: post2) := by rw [e2, hpq]; simp
  have : pre1 = p := split_unique pre1 p post1 _ (by rw [← e1]; exact hnd) (by rw [← e1, ← e3])
  rw [hpq, ← this]
  exact List.mem_append_left _ hc

theorem before_irrefl (R : List String) (hnd : R.Nodup) (n : String) : ¬ Before R n n := by
  rintro ⟨pre, post, e, hn⟩
  rw [e] at hnd
  have := (List.nodup_append.mp hnd).2.2 n hn n (by simp)
  exact this rfl

theorem mem_of_before_right (R : List String) (c n : String) (h : Before R c n) : n ∈ R := by
  obtain ⟨pre, post, e, _⟩ := h
  rw [e]; simp

theorem reach_before (G : Graph) (R : List String) (hnd : R.Nodup) (hcl : Closed G R)
    (hall : ∀ v ∈ verts G, v ∈ R) (hk : KidsIn G) : ∀ a b, Reach G a b → a ∈ R → Before R b a := by
  intro a b h
  induction h with
  | step hkid =>
    intro ha
    obtain ⟨pre, post, e⟩ := List.append_of_mem ha
    exact ⟨pre, post, e, hcl pre _ post e _ hkid⟩
  | @trans x y z h1 h2 ih1 ih2 =>
    intro ha
    have hb := ih1 ha
    -- the intermediate vertex is in `R`
    have hbR : y ∈ R := by
      obtain ⟨pre, post, e, hm⟩ := hb
      rw [e]; exact List.mem_append_left _ hm
    exact before_trans R hnd z y x (ih2 hbR) hb

theorem reach_source_vertex (G : Graph) (a b : String) (h : Reach G a b) : a ∈ verts G := by
  induction h with
  | step hkid =>
    rename_i a b
    unfold kids at hkid
    cases hg : G.get? a with
    | none => rw [hg] at hkid; simp at hkid
    | some v =>
      unfold AList.get? at hg
      cases hf : List.find? (fun p => p.1 == a) G with
      | none => rw [hf] at hg; cases hg
      | some p =>
        have h1 := List.find?_some hf
        have h2 := List.mem_of_find?_eq_some hf
        have : p.1 = a := by simpa using h1
        exact List.mem_map.mpr ⟨p, h2, this⟩
  | trans _ _ ih1 _ => exact ih1

/-- **A table of definitions with a circular reference has no resolution order.** -/
theorem cycle_no_order (D : AList (Span × Expr)) (v : String) (hcyc : Reach (depGraph D) v v) :
    ∀ order, resolutionOrder D ≠ .ok order := by
  intro order h
  obtain ⟨R, _, hnd, hcl, hall⟩ := resolutionOrder_ok D order h
  have hv : v ∈ R := hall v (reach_source_vertex _ v v hcyc)
  exact before_irrefl R hnd v (reach_before _ R hnd hcl hall (kidsIn_depGraph D) v v hcyc hv)


/-- the part of `finishValidate` up to the resolution order, when the traversal fails -/
theorem finishValidate_cycle (g : Grammar) (sh : Shell) (command : String) (specs : AList UserSpec)
    (fbs : AList String) (hgs : getSpecializations g sh = .ok (specs, fbs)) (spans : List Span)
    (hro : resolutionOrder (tableOf sh g) = .error spans) :
    finishValidate g sh command ((plainDefs g).map fun x => (x.1, (x.2.1, x.2.2))) specs fbs =
      .err .nonterminalDefinitionsCycle spans := by
  unfold finishValidate
  simp only
  have hD : (((plainDefs g).map fun x => (x.1, (x.2.1, x.2.2))).map fun x => (x.1, x.2.1, distribute x.2.2)) =
      (plainDefs g).map fun x => (x.1, (x.2.1, distribute x.2.2)) := by
    simp [List.map_map, Function.comp_def]
  rw [hD]
  have hdefined : (((plainDefs g).map fun x => (x.1, (x.2.1, distribute x.2.2))).map (·.1)) =
      (plainDefs g).map (·.1) := by simp [List.map_map, Function.comp_def]
  rw [hdefined]
  have hb0 : SameCmds specs (⟨specs, ((plainDefs g).map fun x => (x.1, (x.2.1, distribute x.2.2))).map
      fun x => (x.1, x.2.1)⟩ : Book) := fun _ => rfl
  have hf1 := specFold_table g sh specs fbs hgs ((plainDefs g).map fun x => (x.1, (x.2.1, distribute x.2.2)))
    ([], ⟨specs, ((plainDefs g).map fun x => (x.1, (x.2.1, distribute x.2.2))).map fun x => (x.1, x.2.1)⟩) hb0
  generalize hr1 : ((plainDefs g).map fun x => (x.1, (x.2.1, distribute x.2.2))).foldl
    (specStep sh fbs ((plainDefs g).map (·.1)))
    ([], ⟨specs, ((plainDefs g).map fun x => (x.1, (x.2.1, distribute x.2.2))).map fun x => (x.1, x.2.1)⟩) = r1 at hf1 ⊢
  have htable : r1.1 = tableOf sh g := by
    rw [hf1.1]
    unfold tableOf
    simp [List.map_map, Function.comp_def]
  rw [htable, hro]

/-- **Definitions that refer to each other in a circle are rejected as such**, whenever none of the
mistakes checked earlier is present. -/
theorem validate_cycle (g : Grammar) (sh : Shell) (n : String) (h : commandOf g = .ok n)
    (hd : ((plainDefs g).map (·.1)).Nodup) (specs : AList UserSpec) (fbs : AList String)
    (hgs : getSpecializations g sh = .ok (specs, fbs))
    (v : String) (hcyc : Reach (depGraph (tableOf sh g)) v v) :
    ∃ spans, validate g sh = .err .nonterminalDefinitionsCycle spans := by
  rw [validate_after_plain g sh n h hd, hgs]
  simp only
  cases hro : resolutionOrder (tableOf sh g) with
  | error spans => exact ⟨spans, finishValidate_cycle g sh n specs fbs hgs spans hro⟩
  | ok order => exact absurd hro (cycle_no_order _ v hcyc order)

end Complgen.Check

/-! ### the converse: the traversal only fails on a real cycle -/
namespace Complgen.Check
open Complgen

/-- consecutive vertices of the list are joined by dependency edges -/
def IsPath (G : Graph) : List String → Prop
  | [] => True
  | [_] => True
  | a :: b :: rest => b ∈ kids G a ∧ IsPath G (b :: rest)

theorem isPath_snoc (G : Graph) : ∀ (l : List String) (v c : String), IsPath G l → l.getLast? = some v →
    c ∈ kids G v → IsPath G (l ++ [c])
  | [], v, c, _, h, _ => by simp at h
  | [a], v, c, _, h, hk => by
    simp at h; subst h
    exact ⟨hk, trivial⟩
  | a :: b :: rest, v, c, hp, h, hk => by
    have h' : (b :: rest).getLast? = some v := by simpa [List.getLast?_cons_cons] using h
    exact ⟨hp.1, isPath_snoc G (b :: rest) v c hp.2 h' hk⟩

/-- along a path, the first vertex reaches the last one -/
theorem reach_along (G : Graph) : ∀ (l : List String) (a v : String), IsPath G (a :: l) → l ≠ [] →
    (a :: l).getLast? = some v → Reach G a v
  | [], a, v, _, h, _ => absurd rfl h
  | [b], a, v, hp, _, hl => by
    simp at hl; subst hl
    exact .step hp.1
  | b :: c :: rest, a, v, hp, _, hl => by
    have h' : (b :: c :: rest).getLast? = some v := by simpa [List.getLast?_cons_cons] using hl
    exact .trans (.step hp.1) (reach_along G (c :: rest) b v hp.2 (by simp) h')

theorem isPath_suffix (G : Graph) : ∀ (pre l : List String), IsPath G (pre ++ l) → IsPath G l
  | [], l, h => h
  | [a], [], _ => trivial
  | [a], b :: rest, h => h.2
  | a :: b :: pre, l, h => isPath_suffix G (b :: pre) l h.2

/-- a child of the last vertex of a path that already lies on the path closes a cycle -/
theorem cycle_of_back_edge (G : Graph) (pn : List String) (v c : String) (hp : IsPath G pn)
    (hl : pn.getLast? = some v) (hk : c ∈ kids G v) (hc : c ∈ pn) : Reach G c c := by
  obtain ⟨pre, post, e⟩ := List.append_of_mem hc
  have hsuf : IsPath G (c :: post) := isPath_suffix G pre (c :: post) (by rw [← e]; exact hp)
  have hlast : (c :: post).getLast? = some v := by
    rw [e] at hl
    simpa [List.getLast?_append] using hl
  by_cases hpost : post = []
  · subst hpost
    simp at hlast; subst hlast
    exact .step hk
  · exact .trans (reach_along G post c v hsuf hpost hlast) (.step hk)

def DfsErrSpec (G : Graph) (fuel : Nat) : Prop :=
  ∀ (v : String) (path : List (String × Span)) (st : DfsState) (e : List Span),
    IsPath G (path.map (·.1)) → (path.map (·.1)).getLast? = some v →
    dfs G fuel v path st = .error e → ∃ u, Reach G u u

theorem go_err (G : Graph) (fuel : Nat) (ih : DfsErrSpec G fuel) (v : String) (path : List (String × Span))
    (hp : IsPath G (path.map (·.1))) (hl : (path.map (·.1)).getLast? = some v) :
    ∀ (rest : List (String × Span)) (st : DfsState) (e : List Span), (∀ c ∈ rest.map (·.1), c ∈ kids G v) →
      dfs.go G fuel v path rest st = .error e → ∃ u, Reach G u u
  | [], st, e, _, h => by rw [dfs.go.eq_1] at h; cases h
  | (c, sp) :: rest, st, e, hrest, h => by
    rw [dfs.go.eq_2] at h
    have hck : c ∈ kids G v := hrest c (by simp)
    have hrest' : ∀ c' ∈ rest.map (·.1), c' ∈ kids G v := fun c' hc' => hrest c' (by simp at hc' ⊢; exact .inr hc')
    by_cases hpa : (path.any fun x => x.1 == c) = true
    · exact ⟨c, cycle_of_back_edge G _ v c hp hl hck ((any_fst_iff path c).mp hpa)⟩
    · simp only [hpa, if_false] at h
      by_cases hv : st.visited.contains c = true
      · simp only [hv, if_true] at h
        exact go_err G fuel ih v path hp hl rest st e hrest' h
      · simp only [hv, if_false] at h
        cases hd : dfs G fuel c (path ++ [(c, sp)]) st with
        | error e' =>
          have hpn : (path ++ [(c, sp)]).map (·.1) = path.map (·.1) ++ [c] := by simp
          exact ih c (path ++ [(c, sp)]) st e' (by rw [hpn]; exact isPath_snoc G _ v c hp hl hck)
            (by rw [hpn]; simp) hd
        | ok st1 =>
          rw [hd] at h
          simp only at h
          exact go_err G fuel ih v path hp hl rest _ e hrest' h

theorem dfs_err : ∀ (G : Graph) (fuel : Nat), DfsErrSpec G fuel
  | G, 0 => by
    intro v path st e _ _ h
    rw [dfs.eq_1] at h; cases h
  | G, fuel + 1 => by
    intro v path st e hp hl h
    rw [dfs.eq_2] at h
    exact go_err G fuel (dfs_err G fuel) v path hp hl ((G.get? v).getD []) _ e (fun c hc => hc) h

theorem loop_err (defs : AList (Span × Expr)) (G : Graph) (n : Nat) :
    ∀ (l : List String) (st : DfsState) (e : List Span),
      resolutionOrder.loop defs G n l st = .error e → ∃ u, Reach G u u
  | [], st, e, h => by unfold resolutionOrder.loop at h; cases h
  | v :: rest, st, e, h => by
    unfold resolutionOrder.loop at h
    by_cases hv : st.visited.contains v = true
    · simp only [hv, if_true] at h
      exact loop_err defs G n rest st e h
    · simp only [hv, if_false] at h
      generalize hsp : (((defs.get? v).map (·.1)).getD default) = sp at h
      cases hd : dfs G n v [(v, sp)] st with
      | error e' => exact dfs_err G n v [(v, sp)] st e' trivial (by simp) hd
      | ok st1 =>
        rw [hd] at h
        simp only at h
        exact loop_err defs G n rest _ e h

/-- **The traversal fails only when the definitions really refer to each other in a circle.** -/
theorem resolutionOrder_error_cycle (D : AList (Span × Expr)) (spans : List Span)
    (h : resolutionOrder D = .error spans) : ∃ u, Reach (depGraph D) u u := by
  unfold resolutionOrder at h
  by_cases he : D.isEmpty = true
  · simp only [he, if_true] at h; cases h
  · have he' : D.isEmpty = false := by simpa using he
    simp only [he', Bool.false_eq_true, if_false] at h
    generalize hl : (roots (depGraph D) ++ List.filter (fun v => !(roots (depGraph D)).contains v)
      (List.map (fun x => x.1) (depGraph D))) = l at h
    cases hloop : resolutionOrder.loop D (depGraph D) ((depGraph D).length + 1) l ⟨[], []⟩ with
    | error e => exact loop_err D (depGraph D) _ l _ e hloop
    | ok st => rw [hloop] at h; cases h

end Complgen.Check

/-! ### the cycle verdict of `validate` -/
namespace Complgen.Check
open Complgen

theorem commandOf_not_cycle (g : Grammar) (c : ErrClass) (s : List Span) (h : commandOf g = .err c s) :
    c ≠ .nonterminalDefinitionsCycle := by
  unfold commandOf at h
  split at h
  · cases h; intro e; cases e
  · simp only at h
    split at h
    · cases h; intro e; cases e
    · split at h
      · cases h; intro e; cases e
      · split at h
        · cases h; intro e; cases e
        · cases h

theorem collectPlain_not_cycle : ∀ (l : List (String × Span × Expr)) (acc : AList (Span × Expr)) (c : ErrClass)
    (s : List Span), collectPlain l acc = .err c s → c ≠ .nonterminalDefinitionsCycle
  | [], acc, c, s, h => by unfold collectPlain at h; cases h
  | (n, sp, e) :: rest, acc, c, s, h => by
    unfold collectPlain at h
    split at h
    · cases h; intro e; cases e
    · exact collectPlain_not_cycle rest _ c s h

theorem loop1_not_cycle (target : Shell) : ∀ (l : List (String × Span × String × Span × Expr)) (acc : AList UserSpec)
    (c : ErrClass) (s : List Span), getSpecializations.loop1 target l acc = .err c s → c ≠ .nonterminalDefinitionsCycle
  | [], acc, c, s, h => by unfold getSpecializations.loop1 at h; cases h
  | (n, sp, shn, ss, rhs) :: rest, acc, c, s, h => by
    unfold getSpecializations.loop1 at h
    split at h
    · split at h
      · cases h; intro e; cases e
      · split at h
        · exact loop1_not_cycle target rest acc c s h
        · split at h
          · cases h; intro e; cases e
          · exact loop1_not_cycle target rest _ c s h
    · cases h; intro e; cases e

theorem loop2_not_cycle (specs : AList UserSpec) : ∀ (l : List (String × Span × Expr)) (acc : AList (String × Span))
    (c : ErrClass) (s : List Span), getSpecializations.loop2 specs l acc = .err c s → c ≠ .nonterminalDefinitionsCycle
  | [], acc, c, s, h => by unfold getSpecializations.loop2 at h; cases h
  | (n, sp, rhs) :: rest, acc, c, s, h => by
    unfold getSpecializations.loop2 at h
    split at h
    · exact loop2_not_cycle specs rest acc c s h
    · split at h
      · split at h
        · cases h; intro e; cases e
        · exact loop2_not_cycle specs rest _ c s h
      · cases h; intro e; cases e

theorem getSpecializations_not_cycle (g : Grammar) (sh : Shell) (c : ErrClass) (s : List Span)
    (h : getSpecializations g sh = .err c s) : c ≠ .nonterminalDefinitionsCycle := by
  unfold getSpecializations at h
  cases h1 : getSpecializations.loop1 sh (specDefs g) [] with
  | err c' s' => rw [h1] at h; simp only at h; cases h; exact loop1_not_cycle sh _ _ c s h1
  | crash s' => rw [h1] at h; cases h
  | ok sp =>
    rw [h1] at h
    simp only at h
    cases h2 : getSpecializations.loop2 sp (plainDefs g) [] with
    | err c' s' => rw [h2] at h; simp only at h; cases h; exact loop2_not_cycle sp _ _ c s h2
    | crash s' => rw [h2] at h; cases h
    | ok fbs => rw [h2] at h; cases h

/-- **The cycle verdict is only given for a real cycle**: when the model of check.rs rejects a grammar
with "nonterminal definitions cycle", the (specialised) definitions do refer to each other in a
circle. -/
theorem validate_cycle_real (g : Grammar) (sh : Shell) (spans : List Span)
    (h : validate g sh = .err .nonterminalDefinitionsCycle spans) :
    ∃ u, Reach (depGraph (tableOf sh g)) u u := by
  unfold validate at h
  cases hcmd : commandOf g with
  | err c s => rw [hcmd] at h; simp only at h; cases h; exact absurd rfl (commandOf_not_cycle g _ _ hcmd)
  | crash s => rw [hcmd] at h; cases h
  | ok command =>
    rw [hcmd] at h
    simp only at h
    by_cases hnd : ((plainDefs g).map (·.1)).Nodup
    · rw [collectPlain_spec (plainDefs g) [] (fun _ _ => rfl) hnd] at h
      simp only [List.nil_append] at h
      cases hgs : getSpecializations g sh with
      | err c s => rw [hgs] at h; simp only at h; cases h; exact absurd rfl (getSpecializations_not_cycle g sh _ _ hgs)
      | crash s => rw [hgs] at h; cases h
      | ok r =>
        obtain ⟨specs, fbs⟩ := r
        rw [hgs] at h
        simp only at h
        cases hro : resolutionOrder (tableOf sh g) with
        | error sp => exact resolutionOrder_error_cycle _ sp hro
        | ok order =>
          -- the traversal succeeded: the only other verdict of this stage is about spaces inside words
          exfalso
          unfold finishValidate at h
          simp only at h
          have hD : (((plainDefs g).map fun x => (x.1, (x.2.1, x.2.2))).map fun x => (x.1, x.2.1, distribute x.2.2)) =
              (plainDefs g).map fun x => (x.1, (x.2.1, distribute x.2.2)) := by
            simp [List.map_map, Function.comp_def]
          rw [hD] at h
          have hdefined : (((plainDefs g).map fun x => (x.1, (x.2.1, distribute x.2.2))).map (·.1)) =
              (plainDefs g).map (·.1) := by simp [List.map_map, Function.comp_def]
          rw [hdefined] at h
          have hb0 : SameCmds specs (⟨specs, ((plainDefs g).map fun x => (x.1, (x.2.1, distribute x.2.2))).map
              fun x => (x.1, x.2.1)⟩ : Book) := fun _ => rfl
          have hf1 := specFold_table g sh specs fbs hgs ((plainDefs g).map fun x => (x.1, (x.2.1, distribute x.2.2)))
            ([], ⟨specs, ((plainDefs g).map fun x => (x.1, (x.2.1, distribute x.2.2))).map fun x => (x.1, x.2.1)⟩) hb0
          generalize hr1 : ((plainDefs g).map fun x => (x.1, (x.2.1, distribute x.2.2))).foldl
            (specStep sh fbs ((plainDefs g).map (·.1)))
            ([], ⟨specs, ((plainDefs g).map fun x => (x.1, (x.2.1, distribute x.2.2))).map fun x => (x.1, x.2.1)⟩) = r1 at h hf1
          have htable : r1.1 = tableOf sh g := by
            rw [hf1.1]
            unfold tableOf
            simp [List.map_map, Function.comp_def]
          rw [htable, hro] at h
          simp only at h
          split at h <;> cases h
    · obtain ⟨sp, he⟩ := collectPlain_dup (plainDefs g) [] (.inr hnd)
      rw [he] at h
      simp only at h
      cases h

end Complgen.Check
