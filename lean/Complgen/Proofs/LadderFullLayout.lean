/-
C05 (operator ladder), the larger fragment under any admissible layout: the trees of `Proofs/LadderFull.lean`
(`NF'`: literals over all characters the lexer accepts printed with the fewest escapes, literals with descriptions,
descriptions distributed over groups `.dd`, words built by juxtaposition `.sub`) printed with *arbitrary*
blanks and comments wherever the syntax allows them (`ppL'`) are read back by `fallback` as the same tree up
to spans (`fallback_roundtrip_full_layout`); two layouts of one tree parse to the same tree up to spans
(`layout_irrelevant_full`); the plain printer `pp'` is the instance `plainLayout'` (`ppL'_plain`), and the
printer `ppL` of `Proofs/LadderLayout.lean` is the instance `Layout'.ofLayout` on the smaller fragment
(`ppL'_ofLayout`).

Positions of layout (`Layout'`): those of `Proofs/LadderLayout.lean` (`sep` between two items of a
sequence, non-empty; `barL`/`barR` around `|` and `||`; `opn` after `[` and `(`; `cls` before `]` and `)`;
`dots` before a postfix `...`) and one more, `descr`: before the `"` of a description, both the description of
a literal (`lit "d"`) and the description distributed over a group (`(a | b) "d"`).  The parser skips
`multiblanks0` there (`optDescription`), so the stretch may be empty (`a"d"`, `<X>"d"`); like every stretch
that stands directly after a word it must not begin with `#` (`IsLayoutW`: `#` is a regular character of
literals, `descr_hash_literal`, `descr_hash_group` at the end of the file).  Inside a word (juxtaposition)
no layout may stand: a blank there makes two items of a sequence (`blank_in_word`).

Fuel: the measure `needF` (the depth of the descent, as `need` of `Proofs/Statements.lean`): 6 for an atom,
9 for a literal without description (it is read inside parentheses where a description follows), 6 or 7 for
every node above, 1 for every item of a list passed; `needF e ≤ fuelNeeded e` (`needF_le_fuelNeeded`).

Proof: the induction of `Proofs/LadderFull.lean` (seven levels, the classes `Any`, `BL`, `WL`, `WD`, `UC` of
continuations) redone with the layout-aware lemmas of `Proofs/LadderLayout.lean`.  One class is wider than
in `LadderFull.lean`: after a word that may get a description (`UD'`) a `"` may follow directly (`StopQ`).
-/
import Complgen.Proofs.LadderFull
import Complgen.Proofs.LadderLayout
namespace Complgen.Parse.Full
open Complgen Complgen.Parse

/-! ### the layout, the printer -/

/-- the layout of a printed tree of the larger fragment: the positions of `Layout` and, for every node, the
string before the `"` of its description (`descr`) -/
structure Layout' where
  sep : List Nat → List Char
  barL : List Nat → List Char
  barR : List Nat → List Char
  opn : List Nat → List Char
  cls : List Nat → List Char
  dots : List Nat → List Char
  descr : List Nat → List Char

/-- the layout of the subtree under the step `i` -/
def Layout'.sub (lay : Layout') (i : Nat) : Layout' :=
  ⟨fun p => lay.sep (i :: p), fun p => lay.barL (i :: p), fun p => lay.barR (i :: p),
   fun p => lay.opn (i :: p), fun p => lay.cls (i :: p), fun p => lay.dots (i :: p),
   fun p => lay.descr (i :: p)⟩

/-- an admissible layout: blanks and closed comments everywhere; something between two words; no `#`
directly after a word -/
structure Layout'.Adm (lay : Layout') : Prop where
  sep : ∀ p, IsLayoutW (lay.sep p) ∧ lay.sep p ≠ []
  barL : ∀ p, IsLayoutW (lay.barL p)
  barR : ∀ p, IsLayout (lay.barR p)
  opn : ∀ p, IsLayout (lay.opn p)
  cls : ∀ p, IsLayoutW (lay.cls p)
  dots : ∀ p, IsLayoutW (lay.dots p)
  descr : ∀ p, IsLayoutW (lay.descr p)

theorem Layout'.Adm.sub {lay : Layout'} (h : lay.Adm) (i : Nat) : (lay.sub i).Adm :=
  ⟨fun p => h.sep (i :: p), fun p => h.barL (i :: p), fun p => h.barR (i :: p),
   fun p => h.opn (i :: p), fun p => h.cls (i :: p), fun p => h.dots (i :: p),
   fun p => h.descr (i :: p)⟩

/-- a layout of the smaller fragment with strings for the descriptions -/
def Layout'.ofLayout (lay : Layout) (d : List Nat → List Char) : Layout' :=
  ⟨lay.sep, lay.barL, lay.barR, lay.opn, lay.cls, lay.dots, d⟩

/-- the positions of the smaller fragment -/
def Layout'.toLayout (lay : Layout') : Layout := ⟨lay.sep, lay.barL, lay.barR, lay.opn, lay.cls, lay.dots⟩

theorem Layout'.Adm.toLayout {lay : Layout'} (h : lay.Adm) : lay.toLayout.Adm :=
  ⟨h.sep, h.barL, h.barR, h.opn, h.cls, h.dots⟩

theorem Layout'.ofLayout_adm {lay : Layout} (h : lay.Adm) {d : List Nat → List Char}
    (hd : ∀ p, IsLayoutW (d p)) : (Layout'.ofLayout lay d).Adm :=
  ⟨h.sep, h.barL, h.barR, h.opn, h.cls, h.dots, hd⟩

/-- the printed form of a description after the layout `l` -/
def descrTextL (l d : List Char) : List Char := l ++ '"' :: escD d ++ ['"']

def parenIfL' (lay : Layout') (b : Bool) (T : List Char) : List Char :=
  if b then parenL (lay.opn []) (lay.cls []) T else T

/-- the separator of the list operator read at level `ctx` (3 juxtaposition with blanks, 2 `|`, 1 `||`;
nothing between the factors of a word, 6) -/
def sepL' (lay : Layout') : Nat → List Char
  | 3 => lay.sep []
  | 2 => lay.barL [] ++ '|' :: lay.barR []
  | 1 => lay.barL [] ++ '|' :: '|' :: lay.barR []
  | _ => []

mutual
/-- the printer `pp'` of `Proofs/LadderFull.lean` with the layout `lay` instead of single blanks -/
def ppL' : Layout' → Nat → Expr → List Char
  | lay, ctx, .term t none _ _ =>
    parenIfL' lay (ctx == 5 || (ctx == 4 && endsDot t.toList)) (escT 0 t.toList)
  | lay, _, .term t (some d) _ _ => escT 0 t.toList ++ descrTextL (lay.descr []) d.toList
  | _, _, .nonterm n _ _ => '<' :: n.toList ++ ['>']
  | _, _, .cmd c _ _ _ => cmdText c.toList
  | lay, ctx, .seq cs _ => parenIfL' lay (decide (3 ≤ ctx)) (ppListL' (lay.sub 0) 3 cs)
  | lay, ctx, .alt cs _ => parenIfL' lay (decide (2 ≤ ctx)) (ppListL' (lay.sub 0) 2 cs)
  | lay, ctx, .fb cs _ => parenIfL' lay (decide (1 ≤ ctx)) (ppListL' (lay.sub 0) 1 cs)
  | lay, _, .opt c _ => '[' :: lay.opn [] ++ ppL' (lay.sub 0) 0 c ++ lay.cls [] ++ [']']
  | lay, ctx, .many1 c _ =>
    parenIfL' lay (ctx == 4) (ppL' (lay.sub 0) 4 c ++ lay.dots [] ++ ['.', '.', '.'])
  | lay, ctx, .dd c d _ =>
    parenIfL' lay (decide (4 ≤ ctx)) (ppL' (lay.sub 0) 5 c ++ descrTextL (lay.descr []) d.toList)
  | lay, ctx, .sub (.seq fs _) _ _ =>
    parenIfL' lay (ctx == 4 || ctx == 6 || (ctx == 5 && lastBare false fs)) (ppListL' (lay.sub 0) 6 fs)
  | _, _, .sub _ _ _ => []
def ppListL' : Layout' → Nat → ExprL → List Char
  | _, _, .nil => []
  | lay, ctx, .cons e es => ppL' (lay.sub 0) ctx e ++ ppTailL' (lay.sub 1) ctx es
def ppTailL' : Layout' → Nat → ExprL → List Char
  | _, _, .nil => []
  | lay, ctx, .cons e es => sepL' lay ctx ++ ppL' (lay.sub 0) ctx e ++ ppTailL' (lay.sub 1) ctx es
end

/-! ### the fuel -/

mutual
/-- fuel that the ladder needs for a printed tree of the larger fragment -/
def needF : Expr → Nat
  | .term _ none _ _ => 9
  | .term _ (some _) _ _ => 6
  | .nonterm _ _ _ => 6
  | .cmd _ _ _ _ => 6
  | .seq cs _ => needFL cs + 6
  | .alt cs _ => needFL cs + 6
  | .fb cs _ => needFL cs + 6
  | .opt c _ => needF c + 7
  | .many1 c _ => needF c + 7
  | .dd c _ _ => needF c + 7
  | .sub c _ _ => needF c + 1
def needFL : ExprL → Nat
  | .nil => 0
  | .cons e es => max (needF e) (needFL es) + 1
end

mutual
theorem needF_le_size : ∀ e : Expr, needF e ≤ 10 * size e
  | .term _ none _ _ => by simp [needF, size]
  | .term _ (some _) _ _ => by simp [needF, size]
  | .nonterm _ _ _ => by simp [needF, size]
  | .cmd _ _ _ _ => by simp [needF, size]
  | .seq cs _ => by have := needFL_le_sizeL cs; simp only [needF, size]; omega
  | .alt cs _ => by have := needFL_le_sizeL cs; simp only [needF, size]; omega
  | .fb cs _ => by have := needFL_le_sizeL cs; simp only [needF, size]; omega
  | .opt c _ => by have := needF_le_size c; simp only [needF, size]; omega
  | .many1 c _ => by have := needF_le_size c; simp only [needF, size]; omega
  | .dd c _ _ => by have := needF_le_size c; simp only [needF, size]; omega
  | .sub c _ _ => by have := needF_le_size c; simp only [needF, size]; omega
theorem needFL_le_sizeL : ∀ es : ExprL, needFL es ≤ 10 * sizeL es
  | .nil => by simp [needFL, sizeL]
  | .cons e es => by
    have := needF_le_size e; have := needFL_le_sizeL es; simp only [needFL, sizeL]; omega
end

/-- the measure is below the one of `Proofs/Ladder.lean` -/
theorem needF_le_fuelNeeded (e : Expr) : needF e ≤ fuelNeeded e := needF_le_size e

/-! ### what stops the loop of a word: a `"` too -/

/-- no unary expression begins here: the end of the input, a stop character, or `"` -/
def StopQ (l : List Char) : Prop := StopHead l ∨ ∃ r, l = '"' :: r

theorem StopQ.notDot {l : List Char} (h : StopQ l) : NotDotHead l := by
  rcases h with h | ⟨r, rfl⟩
  · exact h.notDot
  · exact .inr ⟨'"', r, rfl, by decide⟩

theorem baseP_none_quote (f : Nat) (s : PState) (r : List Char) (h : s.rest = '"' :: r) :
    baseP f s = none := by
  have hne : ∀ x, x ≠ '"' → ∀ r', s.rest ≠ x :: r' := by
    intro x hx r' e; rw [h] at e; cases e; exact hx rfl
  unfold baseP
  rw [nonterm_none s (hne _ (by decide)), optional_none f s (hne _ (by decide)),
    parenthesized_none f s (hne _ (by decide)), triple_none s (hne _ (by decide)),
    terminal_none s (by rw [h]; exact dec'_other '"' r (by decide) (by decide) (by decide))]

theorem unary_noneQ (f : Nat) (s : PState) (h : StopQ s.rest) : unary f s = none := by
  rcases h with h | ⟨r, h⟩
  · exact unary_none f s h
  · cases f with
    | zero => exact unary_zero s
    | succ f => rw [unary_succ, baseP_none_quote f s r h]

theorem subwordLoop_stopQ (f : Nat) (s : PState) (acc : List Expr) (h : StopQ s.rest) :
    subwordLoop f s acc = (s, acc) := by
  cases f with
  | zero => exact subwordLoop_zero s acc
  | succ f => rw [subwordLoop_succ, unary_noneQ f s h]

/-- after a word that may get a description: no unary expression follows directly, no `...` after blanks -/
def UD' (rest : List Char) : Prop := StopQ rest ∧ WD rest

theorem UC.d' {rest : List Char} (h : UC rest) : UD' rest := ⟨.inl h.1, h.2.2⟩
theorem UD.d' {rest : List Char} (h : UD rest) : UD' rest := ⟨.inl h.1, h.2⟩

/-- a unary expression after which no other follows directly is a word -/
theorem lift_U_W' {C C' : List Char → Prop} {n : Nat} {T : List Char} {E : Expr} (h : PT unary C n T E)
    (hc : ∀ r, C' r → C r ∧ StopQ r) : PT subwordSeq C' (n + 1) T E := by
  intro rest hrest s hs f hf
  obtain ⟨f, rfl⟩ : ∃ f', f = f' + 1 := ⟨f - 1, by omega⟩
  obtain ⟨e', he, hE⟩ := h rest (hc rest hrest).1 s hs f (by omega)
  have hr := adv_rest_append s T rest hs
  refine ⟨e', ?_, hE⟩
  rw [subwordSeq_succ, he]
  simp only
  rw [subwordLoop_stopQ f _ _ (by rw [hr]; exact (hc rest hrest).2)]

/-! ### layout after a word -/

theorem NBStart.nbh {T : List Char} (h : NBStart T) (X : List Char) : NBHead (T ++ X) := by
  obtain ⟨c, r, rfl, hc⟩ := h
  exact NBHead_cons c _ hc

theorem blank_ne_dot {c : Char} (h : blankCh c = true) : c ≠ '.' := (stopCh_spec (blank_stop h)).2.2.1

theorem _root_.Complgen.Parse.IsLayoutW.notDot {l : List Char} (hl : IsLayoutW l) {X : List Char} (hX : NotDotHead X) :
    NotDotHead (l ++ X) := by
  cases l with
  | nil => exact hX
  | cons c cs => exact .inr ⟨c, cs ++ X, rfl, blank_ne_dot hl.head⟩

theorem _root_.Complgen.Parse.IsLayoutW.notDot_ne {l : List Char} (hl : IsLayoutW l) (hne : l ≠ []) (X : List Char) :
    NotDotHead (l ++ X) := by
  cases l with
  | nil => exact absurd rfl hne
  | cons c cs => exact .inr ⟨c, cs ++ X, rfl, blank_ne_dot hl.head⟩

theorem notDot_bar (X : List Char) : NotDotHead ('|' :: X) := .inr ⟨'|', X, rfl, by decide⟩
theorem notDot_quote (X : List Char) : NotDotHead ('"' :: X) := .inr ⟨'"', X, rfl, by decide⟩

/-! ### descriptions with layout -/

theorem optDescription_someL (s : PState) (l d rest : List Char) (hl : IsLayout l)
    (hs : s.rest = descrTextL l d ++ rest) :
    optDescription s = (s.adv (descrTextL l d).length, some (String.ofList d)) := by
  have hs' : s.rest = l ++ ('"' :: escD d ++ '"' :: rest) := by rw [hs]; simp [descrTextL]
  have hm := mb0_layout s l _ hl (NBHead_cons '"' _ (by decide)) hs'
  have hr2 := adv_rest_append s l _ hs'
  have hd := description_roundtrip d rest _ hr2
  unfold optDescription
  rw [hm, hd]
  simp only [adv_add']
  congr 2
  simp [descrTextL]

theorem UD'_descr (l d rest : List Char) (hl : IsLayoutW l) : UD' (descrTextL l d ++ rest) := by
  have e : descrTextL l d ++ rest = l ++ '"' :: (escD d ++ '"' :: rest) := by simp [descrTextL]
  rw [e]
  constructor
  · cases l with
    | nil => exact .inr ⟨_, rfl⟩
    | cons c cs => exact .inl (.inr ⟨c, _, rfl, blank_stop hl.head⟩)
  · unfold WD
    rw [afterBlanks_layout_nb l _ hl.1 (NBHead_cons _ _ (by decide))]
    exact dots3_cons_ne _ _ (by decide)

theorem Terminates_descr (l d rest : List Char) (hl : IsLayoutW l) : Terminates (descrTextL l d ++ rest) := by
  have e : descrTextL l d ++ rest = l ++ '"' :: (escD d ++ '"' :: rest) := by simp [descrTextL]
  rw [e]
  cases l with
  | nil => exact .inr ⟨'"', _, rfl, by decide, by decide, by decide⟩
  | cons c cs =>
    obtain ⟨h1, h2, h3, _⟩ := stopCh_spec (blank_stop hl.head)
    exact .inr ⟨c, _, rfl, h1, h2, h3⟩

/-- a word followed by layout and a description: nothing is required of what follows -/
theorem lift_W_ddL {n : Nat} {T l : List Char} {E : Expr} (d : List Char) (hl : IsLayoutW l)
    (h : PT subwordSeq UD' n T E) :
    PT sseod Any (n + 1) (T ++ descrTextL l d) (.dd E (String.ofList d) default) := by
  intro rest _ s hs f hf
  obtain ⟨f, rfl⟩ : ∃ f', f = f' + 1 := ⟨f - 1, by omega⟩
  have hs' : s.rest = T ++ (descrTextL l d ++ rest) := by rw [hs]; simp
  obtain ⟨e', he, hE⟩ := h _ (UD'_descr l d rest hl) s hs' f (by omega)
  have hr := adv_rest_append s T _ hs'
  refine ⟨.dd e' (String.ofList d) (fromRange s ((s.adv T.length).adv (descrTextL l d).length)), ?_,
    by simp [Expr.eraseSpans, hE]⟩
  rw [sseod_succ, he]
  simp only
  rw [optDescription_someL _ l d rest hl.1 hr]
  simp [adv_add']

theorem lit_descr_PTL (t d l : List Char) (hl : IsLayoutW l) (ht : t ≠ [])
    (hperm : ∀ c ∈ t, isRegular c = true ∨ isEsc c = true) (hh : t.head? ≠ some '#') :
    PT baseP Any 0 (escT 0 t ++ descrTextL l d)
      (.term (String.ofList t) (some (String.ofList d)) 0 default) := by
  intro rest _ s hs f _
  have hs' : s.rest = escT 0 t ++ (descrTextL l d ++ rest) := by rw [hs]; simp
  have hterm := terminal_roundtrip t _ s ht hperm (Terminates_descr l d rest hl) hs'
  have hr1 := adv_rest_append s _ _ hs'
  have hod : optDescription (s.adv (escT 0 t).length) =
      (s.adv (escT 0 t ++ descrTextL l d).length, some (String.ofList d)) := by
    rw [optDescription_someL _ l d rest hl.1 hr1, adv_add', List.length_append]
  obtain ⟨x, r, hx, hstart⟩ := escT_head t ht hh
  obtain ⟨_, _, h3, h4, h5, h6⟩ := litStart_spec hstart
  have hne : ∀ y, x ≠ y → ∀ r', s.rest ≠ y :: r' := by
    intro y hy r' e; rw [hs', hx] at e; cases e; exact hy rfl
  refine ⟨.term (String.ofList t) (some (String.ofList d)) 0
    (fromRange s (s.adv (escT 0 t ++ descrTextL l d).length)), ?_, rfl⟩
  unfold baseP
  rw [nonterm_none s (hne _ h3), optional_none f s (hne _ h4),
    parenthesized_none f s (hne _ h5), triple_none s (hne _ h6), hterm]
  simp only [hod]

/-! ### the postfix `...`, the groups, the loops: with layout -/

/-- a base expression followed by layout and `...`: nothing is required of what follows -/
theorem lift_B_many1L {n : Nat} {T l : List Char} {E : Expr} (hl : IsLayoutW l)
    (h : PT baseP BCont n T E) :
    PT unary Any (n + 1) (T ++ l ++ ['.', '.', '.']) (.many1 E default) := by
  intro rest _ s hs f hf
  obtain ⟨f, rfl⟩ : ∃ f', f = f' + 1 := ⟨f - 1, by omega⟩
  have hs' : s.rest = T ++ (l ++ '.' :: '.' :: '.' :: rest) := by rw [hs]; simp
  obtain ⟨e', he, hE⟩ := h _ (BCont_layout_dots l rest hl) s hs' f (by omega)
  refine ⟨.many1 e' (fromRange s ((s.adv T.length).adv (l.length + 3))), ?_, by simp [Expr.eraseSpans, hE]⟩
  rw [unary_succ, he]
  simp only
  rw [many1Tag_layout _ l rest hl.1 (adv_rest_append s T _ hs'), adv_add']
  simp

theorem paren_PTL {n : Nat} {T l1 l2 : List Char} {E : Expr} (hl1 : IsLayout l1) (hl2 : IsLayoutW l2)
    (hT : NBStart T) (h : PT fallback FCont n T E) :
    PT baseP Any (n + 1) (parenL l1 l2 T) E := by
  intro rest _ s hs f hf
  obtain ⟨f, rfl⟩ : ∃ f', f = f' + 1 := ⟨f - 1, by omega⟩
  have hs' : s.rest = '(' :: (l1 ++ (T ++ (l2 ++ ')' :: rest))) := by rw [hs]; simp [parenL]
  have hne : ∀ x, x ≠ '(' → ∀ r, s.rest ≠ x :: r := by
    intro x hx r e; rw [hs'] at e; cases e; exact hx rfl
  have hr1 : (s.adv 1).rest = l1 ++ (T ++ (l2 ++ ')' :: rest)) := by rw [adv_rest', hs']; rfl
  have hm1 : mb0 (s.adv 1) = (s.adv 1).adv l1.length := mb0_layout _ l1 _ hl1 (hT.nbh _) hr1
  have hr2 : ((s.adv 1).adv l1.length).rest = T ++ (l2 ++ ')' :: rest) := adv_rest_append _ _ _ hr1
  obtain ⟨e', he, hE⟩ := h (l2 ++ ')' :: rest)
    (FCont_layout_close l2 _ _ hl2 (by decide) (by decide) (by decide)) _ hr2 f (by omega)
  have hr3 : (((s.adv 1).adv l1.length).adv T.length).rest = l2 ++ ')' :: rest := adv_rest_append _ _ _ hr2
  have hm2 := mb0_layout _ l2 _ hl2.1 (NBHead_cons ')' rest (by decide)) hr3
  have hr4 := adv_rest_append _ l2 _ hr3
  refine ⟨e', ?_, hE⟩
  unfold baseP
  rw [nonterm_none s (hne _ (by decide)), optional_none _ s (hne _ (by decide)), parenthesized_succ,
    char?_some '(' s _ hs']
  simp only
  rw [hm1, he]
  simp only
  rw [hm2, char?_some ')' _ _ hr4]
  simp only [adv_add']
  rw [show (parenL l1 l2 T).length = 1 + l1.length + T.length + l2.length + 1 by simp [parenL]; omega]

theorem bracket_PTL {n : Nat} {T l1 l2 : List Char} {E : Expr} (hl1 : IsLayout l1) (hl2 : IsLayoutW l2)
    (hT : NBStart T) (h : PT fallback FCont n T E) :
    PT baseP Any (n + 1) ('[' :: l1 ++ T ++ l2 ++ [']']) (.opt E default) := by
  intro rest _ s hs f hf
  obtain ⟨f, rfl⟩ : ∃ f', f = f' + 1 := ⟨f - 1, by omega⟩
  have hs' : s.rest = '[' :: (l1 ++ (T ++ (l2 ++ ']' :: rest))) := by rw [hs]; simp
  have hne : ∀ x, x ≠ '[' → ∀ r, s.rest ≠ x :: r := by
    intro x hx r e; rw [hs'] at e; cases e; exact hx rfl
  have hr1 : (s.adv 1).rest = l1 ++ (T ++ (l2 ++ ']' :: rest)) := by rw [adv_rest', hs']; rfl
  have hm1 : mb0 (s.adv 1) = (s.adv 1).adv l1.length := mb0_layout _ l1 _ hl1 (hT.nbh _) hr1
  have hr2 : ((s.adv 1).adv l1.length).rest = T ++ (l2 ++ ']' :: rest) := adv_rest_append _ _ _ hr1
  obtain ⟨e', he, hE⟩ := h (l2 ++ ']' :: rest)
    (FCont_layout_close l2 _ _ hl2 (by decide) (by decide) (by decide)) _ hr2 f (by omega)
  have hr3 : (((s.adv 1).adv l1.length).adv T.length).rest = l2 ++ ']' :: rest := adv_rest_append _ _ _ hr2
  have hm2 := mb0_layout _ l2 _ hl2.1 (NBHead_cons ']' rest (by decide)) hr3
  have hr4 := adv_rest_append _ l2 _ hr3
  refine ⟨.opt e' (fromRange s (s.adv (1 + l1.length + T.length + l2.length + 1))), ?_,
    by simp [Expr.eraseSpans, hE]⟩
  unfold baseP
  rw [nonterm_none s (hne _ (by decide)), optional_succ, char?_some '[' s _ hs']
  simp only
  rw [hm1, he]
  simp only
  rw [hm2, char?_some ']' _ _ hr4]
  simp only [adv_add']
  rw [show ('[' :: l1 ++ T ++ l2 ++ [']']).length = 1 + l1.length + T.length + l2.length + 1 by simp; omega]

theorem seqLoop_consL {n1 n2 : Nat} {l T1 T2 : List Char} {E1 : Expr} {Es : ExprL}
    (hl : IsLayout l) (hne : l ≠ []) (hT1 : NBStart T1)
    (h1 : PT sseod UC n1 T1 E1) (h2 : LT sequenceLoop SCont n2 T2 Es)
    (hc : ∀ rest, SCont rest → UC (T2 ++ rest)) :
    LT sequenceLoop SCont (max n1 n2 + 1) (l ++ T1 ++ T2) (.cons E1 Es) := by
  intro rest hrest s hs acc f hf
  obtain ⟨f, rfl⟩ : ∃ f', f = f' + 1 := ⟨f - 1, by omega⟩
  have hs' : s.rest = l ++ (T1 ++ (T2 ++ rest)) := by rw [hs]; simp
  have hmb : mb1 s = some (s.adv l.length) := mb1_layout_some s l _ hl hne (hT1.nbh _) hs'
  have hr1 : (s.adv l.length).rest = T1 ++ (T2 ++ rest) := adv_rest_append _ _ _ hs'
  obtain ⟨e1, he1, hE1⟩ := h1 (T2 ++ rest) (hc rest hrest) _ hr1 f (by omega)
  have hr2 : ((s.adv l.length).adv T1.length).rest = T2 ++ rest := adv_rest_append _ _ _ hr1
  obtain ⟨es', hes, hEs⟩ := h2 rest hrest _ hr2 (acc ++ [e1]) f (by omega)
  refine ⟨e1 :: es', ?_, by simp [ExprL.ofList, ExprL.eraseSpans, hE1, hEs]⟩
  rw [sequenceLoop_succ, hmb]
  simp only
  rw [he1]
  simp only
  rw [hes, adv_add', adv_add']
  simp

theorem altLoop_consL {n1 n2 : Nat} {l1 l2 T1 T2 : List Char} {E1 : Expr} {Es : ExprL}
    (hl1 : IsLayout l1) (hl2 : IsLayout l2) (hT1 : NBStart T1)
    (h1 : PT sequence SCont n1 T1 E1) (h2 : LT alternativeLoop ACont n2 T2 Es)
    (hc : ∀ rest, ACont rest → SCont (T2 ++ rest)) :
    LT alternativeLoop ACont (max n1 n2 + 1) (l1 ++ '|' :: l2 ++ T1 ++ T2) (.cons E1 Es) := by
  intro rest hrest s hs acc f hf
  obtain ⟨f, rfl⟩ : ∃ f', f = f' + 1 := ⟨f - 1, by omega⟩
  have hs' : s.rest = l1 ++ '|' :: (l2 ++ (T1 ++ (T2 ++ rest))) := by rw [hs]; simp
  have hm1 : mb0 s = s.adv l1.length := mb0_layout s l1 _ hl1 (NBHead_cons _ _ (by decide)) hs'
  have hr1 : (s.adv l1.length).rest = '|' :: (l2 ++ (T1 ++ (T2 ++ rest))) := adv_rest_append _ _ _ hs'
  have hr2 : ((s.adv l1.length).adv 1).rest = l2 ++ (T1 ++ (T2 ++ rest)) := by rw [adv_rest', hr1]; rfl
  have hm2 := mb0_layout _ l2 _ hl2 (hT1.nbh _) hr2
  have hr3 := adv_rest_append _ l2 _ hr2
  obtain ⟨e1, he1, hE1⟩ := h1 (T2 ++ rest) (hc rest hrest) _ hr3 f (by omega)
  have hr4 := adv_rest_append _ T1 _ hr3
  obtain ⟨es', hes, hEs⟩ := h2 rest hrest _ hr4 (acc ++ [e1]) f (by omega)
  refine ⟨e1 :: es', ?_, by simp [ExprL.ofList, ExprL.eraseSpans, hE1, hEs]⟩
  rw [alternativeLoop_succ, hm1, char?_some '|' _ _ hr1]
  simp only
  rw [hm2, he1]
  simp only
  rw [hes]
  simp only [adv_add']
  simp [Nat.add_assoc]
  congr 1; omega

theorem fbLoop_consL {n1 n2 : Nat} {l1 l2 T1 T2 : List Char} {E1 : Expr} {Es : ExprL}
    (hl1 : IsLayout l1) (hl2 : IsLayout l2) (hT1 : NBStart T1)
    (h1 : PT alternative ACont n1 T1 E1) (h2 : LT fallbackLoop FCont n2 T2 Es)
    (hc : ∀ rest, FCont rest → ACont (T2 ++ rest)) :
    LT fallbackLoop FCont (max n1 n2 + 1) (l1 ++ '|' :: '|' :: l2 ++ T1 ++ T2) (.cons E1 Es) := by
  intro rest hrest s hs acc f hf
  obtain ⟨f, rfl⟩ : ∃ f', f = f' + 1 := ⟨f - 1, by omega⟩
  have hs' : s.rest = l1 ++ '|' :: '|' :: (l2 ++ (T1 ++ (T2 ++ rest))) := by rw [hs]; simp
  have hm1 : mb0 s = s.adv l1.length := mb0_layout s l1 _ hl1 (NBHead_cons _ _ (by decide)) hs'
  have hr1 : (s.adv l1.length).rest = '|' :: '|' :: (l2 ++ (T1 ++ (T2 ++ rest))) :=
    adv_rest_append _ _ _ hs'
  have htag : tag? "||" (s.adv l1.length) = some ((s.adv l1.length).adv 2) := by
    apply tag?_some _ _ (by decide)
    have : "||".toList = ['|', '|'] := by rfl
    rw [this, hr1]; simp [List.isPrefixOf]
  have hr2 : ((s.adv l1.length).adv 2).rest = l2 ++ (T1 ++ (T2 ++ rest)) := by rw [adv_rest', hr1]; rfl
  have hm2 := mb0_layout _ l2 _ hl2 (hT1.nbh _) hr2
  have hr3 := adv_rest_append _ l2 _ hr2
  obtain ⟨e1, he1, hE1⟩ := h1 (T2 ++ rest) (hc rest hrest) _ hr3 f (by omega)
  have hr4 := adv_rest_append _ T1 _ hr3
  obtain ⟨es', hes, hEs⟩ := h2 rest hrest _ hr4 (acc ++ [e1]) f (by omega)
  refine ⟨e1 :: es', ?_, by simp [ExprL.ofList, ExprL.eraseSpans, hE1, hEs]⟩
  rw [fallbackLoop_succ, hm1, htag]
  simp only
  rw [hm2, he1]
  simp only
  rw [hes]
  simp only [adv_add']
  simp [Nat.add_assoc]
  congr 1; omega

/-! ### all levels at once -/

/-- the seven texts of an expression are read back at the seven levels; `W` is what may follow the
expression when it is a factor of a word -/
structure AllTL (N : Nat) (W : List Char → Prop) (T0 T1 T2 T3 T4 T5 T6 : List Char) (E : Expr) : Prop where
  p0 : PT fallback FCont N T0 E
  p1 : PT alternative ACont N T1 E
  p2 : PT sequence SCont N T2 E
  p3 : PT sseod UC N T3 E
  p4 : PT baseP BCont N T4 E
  p5 : PT subwordSeq UD' N T5 E
  p6 : PT unary W N T6 E

theorem AllTL.mono {n m : Nat} {W : List Char → Prop} {T0 T1 T2 T3 T4 T5 T6 : List Char} {E : Expr}
    (h : AllTL n W T0 T1 T2 T3 T4 T5 T6 E) (hnm : n ≤ m) : AllTL m W T0 T1 T2 T3 T4 T5 T6 E :=
  ⟨h.p0.mono hnm, h.p1.mono hnm, h.p2.mono hnm, h.p3.mono hnm, h.p4.mono hnm, h.p5.mono hnm, h.p6.mono hnm⟩

/-- a base expression after which nothing is required (a group), from the bottom of the ladder to its top -/
theorem groupLevels {m : Nat} {P : List Char} {E : Expr} (hB : PT baseP Any m P E) :
    PT unary WD (m + 1) P E ∧ PT subwordSeq UD' (m + 2) P E ∧ PT sseod UC (m + 3) P E ∧
    PT sequence SCont (m + 4) P E ∧ PT alternative ACont (m + 5) P E ∧ PT fallback FCont (m + 6) P E := by
  have h6 : PT unary WD (m + 1) P E := lift_B_U' hB (fun r hr => ⟨trivial, hr⟩)
  have h5 : PT subwordSeq UD' (m + 2) P E := lift_U_W' h6 (fun r hr => ⟨hr.2, hr.1⟩)
  obtain ⟨h3, h2, h1, h0⟩ := up_W h5 (fun r hr => hr.d')
  exact ⟨h6, h5, h3, h2, h1, h0⟩

/-- a base expression after which nothing is required, at every level -/
theorem asmBaseL {n : Nat} {T : List Char} {E : Expr} (h : PT baseP Any n T E) :
    AllTL (n + 6) WD T T T T T T T E := by
  obtain ⟨h6, h5, h3, h2, h1, h0⟩ := groupLevels h
  exact ⟨h0, h1.mono (by omega), h2.mono (by omega), h3.mono (by omega),
    (h.weaken (fun _ _ => trivial)).mono (by omega), h5.mono (by omega), h6.mono (by omega)⟩

theorem asm0L {n : Nat} {T l1 l2 : List Char} {E : Expr} (hl1 : IsLayout l1) (hl2 : IsLayoutW l2)
    (hT : NBStart T) (h0 : PT fallback FCont n T E) :
    AllTL (n + 6) WD T (parenL l1 l2 T) (parenL l1 l2 T) (parenL l1 l2 T) (parenL l1 l2 T)
      (parenL l1 l2 T) (parenL l1 l2 T) E := by
  have hB := paren_PTL hl1 hl2 hT h0
  obtain ⟨h6, h5, h3, h2, h1, _⟩ := groupLevels hB
  exact ⟨h0.mono (by omega), h1.mono (by omega), h2.mono (by omega), h3.mono (by omega),
    (hB.weaken (fun _ _ => trivial)).mono (by omega), h5.mono (by omega), h6.mono (by omega)⟩

theorem asm1L {n : Nat} {T l1 l2 : List Char} {E : Expr} (hl1 : IsLayout l1) (hl2 : IsLayoutW l2)
    (hT : NBStart T) (h1 : PT alternative ACont n T E) :
    AllTL (n + 6) WD T T (parenL l1 l2 T) (parenL l1 l2 T) (parenL l1 l2 T)
      (parenL l1 l2 T) (parenL l1 l2 T) E := by
  have h0 := lift_A_F h1
  have hB := paren_PTL hl1 hl2 hT h0
  obtain ⟨h6, h5, h3, h2, _, _⟩ := groupLevels hB
  exact ⟨h0.mono (by omega), h1.mono (by omega), h2.mono (by omega), h3.mono (by omega),
    (hB.weaken (fun _ _ => trivial)).mono (by omega), h5.mono (by omega), h6.mono (by omega)⟩

theorem asm2L {n : Nat} {T l1 l2 : List Char} {E : Expr} (hl1 : IsLayout l1) (hl2 : IsLayoutW l2)
    (hT : NBStart T) (h2 : PT sequence SCont n T E) :
    AllTL (n + 6) WD T T T (parenL l1 l2 T) (parenL l1 l2 T) (parenL l1 l2 T) (parenL l1 l2 T) E := by
  have h1 := lift_S_A h2
  have h0 := lift_A_F h1
  have hB := paren_PTL hl1 hl2 hT h0
  obtain ⟨h6, h5, h3, _, _, _⟩ := groupLevels hB
  exact ⟨h0.mono (by omega), h1.mono (by omega), h2.mono (by omega), h3.mono (by omega),
    (hB.weaken (fun _ _ => trivial)).mono (by omega), h5.mono (by omega), h6.mono (by omega)⟩

/-- a word with its description -/
theorem asmDL {n : Nat} {T l1 l2 : List Char} {E : Expr} (hl1 : IsLayout l1) (hl2 : IsLayoutW l2)
    (hT : NBStart T) (h3 : PT sseod Any n T E) :
    AllTL (n + 6) WD T T T T (parenL l1 l2 T) (parenL l1 l2 T) (parenL l1 l2 T) E := by
  have h3' : PT sseod UC n T E := h3.weaken (fun _ _ => trivial)
  have h2 := lift_D_S' h3' (fun r hr => hr.uc)
  have h1 := lift_S_A h2
  have h0 := lift_A_F h1
  have hB := paren_PTL hl1 hl2 hT h0
  obtain ⟨h6, h5, _, _, _, _⟩ := groupLevels hB
  exact ⟨h0.mono (by omega), h1.mono (by omega), h2.mono (by omega), h3'.mono (by omega),
    (hB.weaken (fun _ _ => trivial)).mono (by omega), h5.mono (by omega), h6.mono (by omega)⟩

/-- a unary expression after which nothing is required (a postfix `...`) -/
theorem asmUnaryL {n : Nat} {T l1 l2 : List Char} {E : Expr} (hl1 : IsLayout l1) (hl2 : IsLayoutW l2)
    (hT : NBStart T) (h6 : PT unary Any n T E) :
    AllTL (n + 6) WD T T T T (parenL l1 l2 T) T T E := by
  have h5 : PT subwordSeq UD' (n + 1) T E := lift_U_W' h6 (fun r hr => ⟨trivial, hr.1⟩)
  obtain ⟨h3, h2, h1, h0⟩ := up_W h5 (fun r hr => hr.d')
  have hB := paren_PTL hl1 hl2 hT h0
  exact ⟨h0.mono (by omega), h1.mono (by omega), h2.mono (by omega), h3.mono (by omega),
    (hB.weaken (fun _ _ => trivial)).mono (by omega), h5.mono (by omega),
    (h6.weaken (fun _ _ => trivial)).mono (by omega)⟩

/-- a literal without description -/
theorem asmBareL {t T l1 l2 : List Char} {E : Expr} (hl1 : IsLayout l1) (hl2 : IsLayoutW l2)
    (hT : NBStart T) (h : PT baseP (BL t) 0 T E) :
    AllTL 9 (WL t) T T T T (if endsDot t then parenL l1 l2 T else T) (parenL l1 l2 T) T E := by
  have h6 : PT unary (WL t) 1 T E := lift_B_U' h (fun r hr => ⟨hr.1, hr.2⟩)
  have h5 : PT subwordSeq UC 2 T E := lift_U_W h6 (fun r hr => ⟨hr.wl t, hr.1⟩)
  obtain ⟨h3, h2, h1, h0⟩ := up_W h5 (fun r hr => hr)
  have hB := paren_PTL hl1 hl2 hT h0
  obtain ⟨_, h5', _, _, _, _⟩ := groupLevels hB
  refine ⟨h0.mono (by omega), h1.mono (by omega), h2.mono (by omega), h3.mono (by omega), ?_, h5',
    h6.mono (by omega)⟩
  cases hd : endsDot t
  · simp only [Bool.false_eq_true, if_false]
    refine (h.weaken (fun r hr => ⟨hr, .inr ?_⟩)).mono (by omega)
    simpa [endsDot] using hd
  · simp only [if_true]
    exact (hB.weaken (fun _ _ => trivial)).mono (by omega)

/-- what must follow a word, according to whether its last factor is a literal without description -/
def EC' : Bool → List Char → Prop
  | true => UC
  | false => UD'

theorem EC'.d {b : Bool} {rest : List Char} (h : EC' b rest) : UD' rest := by
  cases b
  · exact h
  · exact UC.d' h

theorem EC'.of_uc (b : Bool) {rest : List Char} (h : UC rest) : EC' b rest := by
  cases b
  · exact h.d'
  · exact h

/-- a word of several factors, at every level -/
theorem asmWL {n : Nat} {T l1 l2 : List Char} {E : Expr} (lb : Bool) (hl1 : IsLayout l1) (hl2 : IsLayoutW l2)
    (hT : NBStart T) (h : PT subwordSeq (EC' lb) n T E) :
    AllTL (n + 7) WD T T T T (parenL l1 l2 T) (if lb then parenL l1 l2 T else T) (parenL l1 l2 T) E := by
  obtain ⟨h3, h2, h1, h0⟩ := up_W h (fun r hr => EC'.of_uc lb hr)
  have hB := paren_PTL hl1 hl2 hT h0
  obtain ⟨h6, h5, _, _, _, _⟩ := groupLevels hB
  refine ⟨h0.mono (by omega), h1.mono (by omega), h2.mono (by omega), h3.mono (by omega),
    (hB.weaken (fun _ _ => trivial)).mono (by omega), ?_, h6.mono (by omega)⟩
  cases lb
  · exact (h.mono (by omega) : PT subwordSeq UD' (n + 7) T E)
  · exact h5.mono (by omega)

/-! ### the first character of a printed tree -/

/-- the two texts begin with the same character, at which blanks and comments stop and that does not
open a description -/
def SameHead (T T' : List Char) : Prop :=
  ∃ c r r', T = c :: r ∧ T' = c :: r' ∧ notBlank c = true ∧ c ≠ '"'

theorem SameHead.starts {T T' : List Char} (h : SameHead T T') : Starts T := by
  obtain ⟨c, r, _, e, _, h1, h2⟩ := h; exact ⟨c, r, e, h1, h2⟩

theorem SameHead.nb {T T' : List Char} (h : SameHead T T') : NBStart T := h.starts.nb

theorem SameHead.append {T T' : List Char} (h : SameHead T T') (X Y : List Char) :
    SameHead (T ++ X) (T' ++ Y) := by
  obtain ⟨c, r, r', rfl, rfl, h1, h2⟩ := h
  exact ⟨c, r ++ X, r' ++ Y, rfl, rfl, h1, h2⟩

theorem SameHead.of_starts {T : List Char} (h : Starts T) : SameHead T T := by
  obtain ⟨c, r, e, h1, h2⟩ := h; exact ⟨c, r, r, e, e, h1, h2⟩

theorem SameHead.parenIf {T T' : List Char} (h : SameHead T T') (lay : Layout') (b : Bool) :
    SameHead (parenIfL' lay b T) (parenIf b T') := by
  cases b
  · exact h
  · exact ⟨'(', lay.opn [] ++ T ++ lay.cls [] ++ [')'], T' ++ [')'], by simp [parenIfL', parenL],
      by simp [Parse.parenIf], by decide, by decide⟩

theorem dots3_parenIfL' (lay : Layout') (b : Bool) (T X : List Char) (h : dots3 (T ++ X) = false) :
    dots3 (parenIfL' lay b T ++ X) = false := by
  cases b
  · exact h
  · have : parenIfL' lay true T ++ X = '(' :: (lay.opn [] ++ T ++ lay.cls [] ++ [')'] ++ X) := by
      simp [parenIfL', parenL]
    rw [this]; exact dots3_cons_ne _ _ (by decide)

theorem notDot_descr (l d X : List Char) (hl : IsLayoutW l) : NotDotHead (descrTextL l d ++ X) := by
  have e : descrTextL l d ++ X = l ++ '"' :: (escD d ++ '"' :: X) := by simp [descrTextL]
  rw [e]; exact hl.notDot (notDot_quote _)

/-! ### the induction -/

structure AllE (lay : Layout') (e : Expr) : Prop where
  t : AllTL (needF e) (WOf e) (ppL' lay 0 e) (ppL' lay 1 e) (ppL' lay 2 e) (ppL' lay 3 e) (ppL' lay 4 e)
    (ppL' lay 5 e) (ppL' lay 6 e) e.eraseSpans
  hd : ∀ k, SameHead (ppL' lay k e) (pp' k e)
  nd : ∀ k X, (bare e = true → NotDotHead X) → dots3 (ppL' lay k e ++ X) = false
  nd4 : ∀ X, dots3 (ppL' lay 4 e ++ X) = false

def AllG' (e : Expr) : Prop := ∀ lay : Layout', lay.Adm → AllE lay e

structure TailsE (lay : Layout') (es : ExprL) : Prop where
  s : LT sequenceLoop SCont (needFL es) (ppTailL' lay 3 es) es.eraseSpans
  a : LT alternativeLoop ACont (needFL es) (ppTailL' lay 2 es) es.eraseSpans
  f : LT fallbackLoop FCont (needFL es) (ppTailL' lay 1 es) es.eraseSpans

def TailsG' (es : ExprL) : Prop := ∀ lay : Layout', lay.Adm → TailsE lay es

def AllLG' : ExprL → Prop
  | .nil => True
  | .cons e es => AllG' e ∧ TailsG' es ∧ AllLG' es

theorem tailS_notDotL (es : ExprL) (lay : Layout') (adm : lay.Adm) (rest : List Char) (hrest : SCont rest) :
    NotDotHead (ppTailL' lay 3 es ++ rest) := by
  cases es with
  | nil => simpa [ppTailL'] using hrest.1.notDot
  | cons e es' =>
    have := (adm.sep []).1.notDot_ne (adm.sep []).2
      (ppL' (lay.sub 0) 3 e ++ (ppTailL' (lay.sub 1) 3 es' ++ rest))
    simpa [ppTailL', sepL'] using this

/-- the tail of a list with at least one more item does not begin with a dot -/
theorem tail_notDotL (lay : Layout') (adm : lay.Adm) (k : Nat) (hk : k = 1 ∨ k = 2 ∨ k = 3) (e : Expr)
    (es : ExprL) (X : List Char) : NotDotHead (ppTailL' lay k (.cons e es) ++ X) := by
  rcases hk with rfl | rfl | rfl
  · have := (adm.barL []).notDot
      (notDot_bar ('|' :: (lay.barR [] ++ (ppL' (lay.sub 0) 1 e ++ (ppTailL' (lay.sub 1) 1 es ++ X)))))
    simpa [ppTailL', sepL'] using this
  · have := (adm.barL []).notDot
      (notDot_bar (lay.barR [] ++ (ppL' (lay.sub 0) 2 e ++ (ppTailL' (lay.sub 1) 2 es ++ X))))
    simpa [ppTailL', sepL'] using this
  · have := (adm.sep []).1.notDot_ne (adm.sep []).2
      (ppL' (lay.sub 0) 3 e ++ (ppTailL' (lay.sub 1) 3 es ++ X))
    simpa [ppTailL', sepL'] using this

theorem UC_layout (l T X : List Char) (hl : IsLayoutW l) (hne : l ≠ []) (hT : Starts T)
    (hd : dots3 (T ++ X) = false) : UC (l ++ T ++ X) := by
  obtain ⟨c, r, rfl, h1, h2⟩ := hT
  have hab : afterBlanks (l ++ (c :: r) ++ X) = c :: (r ++ X) := by
    rw [List.append_assoc]; exact afterBlanks_layout_nb l _ hl.1 (NBHead_cons c _ h1)
  refine ⟨?_, ?_, ?_⟩
  · cases l with
    | nil => exact absurd rfl hne
    | cons b bs => exact .inr ⟨b, bs ++ (c :: r) ++ X, by simp, blank_stop hl.head⟩
  · intro r' e; rw [hab] at e; cases e; exact h2 rfl
  · unfold WD; rw [hab]; exact hd

theorem tailS_contL (es : ExprL) (h : AllLG' es) (lay : Layout') (adm : lay.Adm) :
    ∀ rest, SCont rest → UC (ppTailL' lay 3 es ++ rest) := by
  intro rest hrest
  cases es with
  | nil => simpa [ppTailL'] using hrest.uc
  | cons e es' =>
    have he := h.1 (lay.sub 0) (adm.sub 0)
    have := UC_layout (lay.sep []) (ppL' (lay.sub 0) 3 e) (ppTailL' (lay.sub 1) 3 es' ++ rest)
      (adm.sep []).1 (adm.sep []).2 (he.hd 3).starts
      (he.nd 3 _ (fun _ => tailS_notDotL es' _ (adm.sub 1) rest hrest))
    simpa [ppTailL', sepL'] using this

theorem tailA_contL (es : ExprL) (lay : Layout') (adm : lay.Adm) :
    ∀ rest, ACont rest → SCont (ppTailL' lay 2 es ++ rest) := by
  intro rest hrest
  cases es with
  | nil => simpa [ppTailL'] using hrest.s
  | cons e es' =>
    have := SCont_layout_bar (lay.barL [])
      (lay.barR [] ++ ppL' (lay.sub 0) 2 e ++ (ppTailL' (lay.sub 1) 2 es' ++ rest)) (adm.barL [])
    simpa [ppTailL', sepL'] using this

theorem tailF_contL (es : ExprL) (lay : Layout') (adm : lay.Adm) :
    ∀ rest, FCont rest → ACont (ppTailL' lay 1 es ++ rest) := by
  intro rest hrest
  cases es with
  | nil => simpa [ppTailL'] using hrest.a
  | cons e es' =>
    have := ACont_layout_barbar (lay.barL [])
      (lay.barR [] ++ ppL' (lay.sub 0) 1 e ++ (ppTailL' (lay.sub 1) 1 es' ++ rest)) (adm.barL [])
    simpa [ppTailL', sepL'] using this

theorem case_nilL : TailsG' .nil ∧ AllLG' .nil := by
  refine ⟨fun lay _ => ⟨?_, ?_, ?_⟩, trivial⟩
  · simpa [ppTailL', needFL, ExprL.eraseSpans] using seqLoop_nil
  · simpa [ppTailL', needFL, ExprL.eraseSpans] using altLoop_nil
  · simpa [ppTailL', needFL, ExprL.eraseSpans] using fbLoop_nil

theorem case_consL (e : Expr) (es : ExprL) (he : AllG' e) (hes : TailsG' es ∧ AllLG' es) :
    TailsG' (.cons e es) ∧ AllLG' (.cons e es) := by
  refine ⟨fun lay adm => ?_, he, hes.1, hes.2⟩
  have he0 := he (lay.sub 0) (adm.sub 0)
  have hes1 := hes.1 (lay.sub 1) (adm.sub 1)
  refine ⟨?_, ?_, ?_⟩
  · have := seqLoop_consL (adm.sep []).1.1 (adm.sep []).2 (he0.hd 3).nb he0.t.p3 hes1.s
      (tailS_contL es hes.2 _ (adm.sub 1))
    simpa [ppTailL', sepL', ExprL.eraseSpans, needFL] using this
  · have := altLoop_consL (adm.barL []).1 (adm.barR []) (he0.hd 2).nb he0.t.p2 hes1.a
      (tailA_contL es _ (adm.sub 1))
    simpa [ppTailL', sepL', ExprL.eraseSpans, needFL] using this
  · have := fbLoop_consL (adm.barL []).1 (adm.barR []) (he0.hd 1).nb he0.t.p1 hes1.f
      (tailF_contL es _ (adm.sub 1))
    simpa [ppTailL', sepL', ExprL.eraseSpans, needFL] using this

theorem ppL'_bare (lay : Layout') (k : Nat) (t : String) (l : Nat) (sp : Span) :
    ppL' lay k (.term t none l sp) =
      parenIfL' lay (k == 5 || (k == 4 && endsDot t.toList)) (escT 0 t.toList) := by rw [ppL']

theorem ppL'_descr (lay : Layout') (k : Nat) (t d : String) (l : Nat) (sp : Span) :
    ppL' lay k (.term t (some d) l sp) = escT 0 t.toList ++ descrTextL (lay.descr []) d.toList := by
  rw [ppL']

theorem case_bareL (t : String) (l : Nat) (sp : Span) (h : NF' (.term t none l sp)) :
    AllG' (.term t none l sp) := by
  simp only [NF'] at h
  obtain ⟨rfl, h1, h2, h3⟩ := h
  intro lay adm
  have hS := litStarts t.toList h1 h3
  have hB := lit_bare_PT t.toList h1 h2 h3
  rw [String.ofList_toList] at hB
  constructor
  · have := asmBareL (adm.opn []) (adm.cls []) hS.nb hB
    simp only [ppL'_bare]
    simpa [parenIfL', Expr.eraseSpans, needF, WOf] using this
  · intro k; rw [ppL'_bare, pp'_bare]; exact (SameHead.of_starts hS).parenIf lay _
  · intro k X hX
    rw [ppL'_bare]
    exact dots3_parenIfL' _ _ _ _ (escT_dots3 _ X (hX rfl))
  · intro X
    rw [ppL'_bare]
    cases hd : endsDot t.toList
    · simpa [parenIfL'] using escT_dots3' _ X h1 hd
    · have : parenIfL' lay (4 == 5 || (4 == 4 && true)) (escT 0 t.toList) =
          parenIfL' lay true (escT 0 t.toList) := rfl
      rw [this]
      have e : parenIfL' lay true (escT 0 t.toList) ++ X =
          '(' :: (lay.opn [] ++ escT 0 t.toList ++ lay.cls [] ++ [')'] ++ X) := by simp [parenIfL', parenL]
      rw [e]; exact dots3_cons_ne _ _ (by decide)

theorem case_descrL (t d : String) (l : Nat) (sp : Span) (h : NF' (.term t (some d) l sp)) :
    AllG' (.term t (some d) l sp) := by
  simp only [NF'] at h
  obtain ⟨rfl, h1, h2, h3⟩ := h
  intro lay adm
  have hS := litStarts t.toList h1 h3
  have hB := lit_descr_PTL t.toList d.toList (lay.descr []) (adm.descr []) h1 h2 h3
  rw [String.ofList_toList, String.ofList_toList] at hB
  have hnd : ∀ X, dots3 (escT 0 t.toList ++ descrTextL (lay.descr []) d.toList ++ X) = false := by
    intro X
    rw [List.append_assoc]
    exact escT_dots3 _ _ (notDot_descr _ _ X (adm.descr []))
  constructor
  · have := asmBaseL hB
    simp only [ppL'_descr]
    simpa [Expr.eraseSpans, needF, WOf] using this
  · intro k; rw [ppL'_descr, pp'_descr]; exact (SameHead.of_starts hS).append _ _
  · intro k X _; rw [ppL'_descr]; exact hnd X
  · intro X; rw [ppL'_descr]; exact hnd X

theorem case_termL (t : String) (d : Option String) (l : Nat) (sp : Span) (h : NF' (.term t d l sp)) :
    AllG' (.term t d l sp) := by
  cases d with
  | none => exact case_bareL t l sp h
  | some d => exact case_descrL t d l sp h

theorem case_nontermL (n : String) (l : Nat) (sp : Span) (h : NF' (.nonterm n l sp)) :
    AllG' (.nonterm n l sp) := by
  simp only [NF'] at h
  obtain ⟨rfl, h1, h2⟩ := h
  intro lay _
  have hB := nonterm_PT' n.toList h1 h2
  rw [String.ofList_toList] at hB
  constructor
  · have := asmBaseL hB
    simpa [ppL', Expr.eraseSpans, needF, WOf] using this
  · intro k
    exact ⟨'<', n.toList ++ ['>'], n.toList ++ ['>'], by simp [ppL'], by simp [pp'], by decide, by decide⟩
  · intro k X _; simp only [ppL']; exact dots3_cons_ne _ _ (by decide)
  · intro X; simp only [ppL']; exact dots3_cons_ne _ _ (by decide)

theorem case_cmdL (c : String) (a : Bool) (l : Nat) (sp : Span) (h : NF' (.cmd c a l sp)) :
    AllG' (.cmd c a l sp) := by
  simp only [NF'] at h
  obtain ⟨rfl, rfl, h1, h2, h3⟩ := h
  intro lay _
  have hB := cmd_PT' c.toList h1 h2 h3
  rw [String.ofList_toList] at hB
  constructor
  · have := asmBaseL hB
    simpa [ppL', Expr.eraseSpans, needF, WOf] using this
  · intro k
    exact ⟨'{', _, _, by simp only [ppL', cmdText]; rfl, by simp only [pp', cmdText]; rfl, by decide,
      by decide⟩
  · intro k X _; simp only [ppL', cmdText]; exact dots3_cons_ne _ _ (by decide)
  · intro X; simp only [ppL', cmdText]; exact dots3_cons_ne _ _ (by decide)

theorem case_optL (c : Expr) (sp : Span) (ih : NF' c → AllG' c) (h : NF' (.opt c sp)) : AllG' (.opt c sp) := by
  simp only [NF'] at h
  have hc := ih h
  intro lay adm
  have hc0 := hc (lay.sub 0) (adm.sub 0)
  constructor
  · have := asmBaseL (bracket_PTL (adm.opn []) (adm.cls []) (hc0.hd 0).nb hc0.t.p0)
    simpa [ppL', Expr.eraseSpans, WOf] using
      this.mono (m := needF (.opt c sp)) (by simp only [needF]; omega)
  · intro k
    exact ⟨'[', lay.opn [] ++ ppL' (lay.sub 0) 0 c ++ lay.cls [] ++ [']'], pp' 0 c ++ [']'],
      by simp [ppL'], by simp [pp'], by decide, by decide⟩
  · intro k X _; simp only [ppL']; exact dots3_cons_ne _ _ (by decide)
  · intro X; simp only [ppL']; exact dots3_cons_ne _ _ (by decide)

theorem case_many1L (c : Expr) (sp : Span) (ih : NF' c → AllG' c) (h : NF' (.many1 c sp)) :
    AllG' (.many1 c sp) := by
  simp only [NF'] at h
  have hc := ih h
  intro lay adm
  have hc0 := hc (lay.sub 0) (adm.sub 0)
  have hT : SameHead (ppL' (lay.sub 0) 4 c ++ lay.dots [] ++ ['.', '.', '.']) (pp' 4 c ++ ['.', '.', '.']) := by
    have := (hc0.hd 4).append (lay.dots [] ++ ['.', '.', '.']) ['.', '.', '.']
    simpa using this
  have hnd : ∀ X, dots3 (ppL' (lay.sub 0) 4 c ++ lay.dots [] ++ ['.', '.', '.'] ++ X) = false := by
    intro X; simp only [List.append_assoc]; exact hc0.nd4 _
  constructor
  · have := asmUnaryL (adm.opn []) (adm.cls []) hT.nb (lift_B_many1L (adm.dots []) hc0.t.p4)
    simpa [ppL', parenIfL', Expr.eraseSpans, WOf] using
      this.mono (m := needF (.many1 c sp)) (by simp only [needF]; omega)
  · intro k; simp only [ppL', pp']; exact hT.parenIf lay _
  · intro k X _; simp only [ppL']; exact dots3_parenIfL' _ _ _ _ (hnd X)
  · intro X; simp only [ppL']; exact dots3_parenIfL' _ _ _ _ (hnd X)

theorem case_ddL (c : Expr) (d : String) (sp : Span) (ih : NF' c → AllG' c) (h : NF' (.dd c d sp)) :
    AllG' (.dd c d sp) := by
  simp only [NF'] at h
  have hc := ih h
  intro lay adm
  have hc0 := hc (lay.sub 0) (adm.sub 0)
  have hT : SameHead (ppL' (lay.sub 0) 5 c ++ descrTextL (lay.descr []) d.toList)
      (pp' 5 c ++ descrText d.toList) := (hc0.hd 5).append _ _
  have hnd : ∀ X, dots3 (ppL' (lay.sub 0) 5 c ++ descrTextL (lay.descr []) d.toList ++ X) = false := by
    intro X; rw [List.append_assoc]
    exact hc0.nd 5 _ (fun _ => notDot_descr _ _ X (adm.descr []))
  have hD := lift_W_ddL d.toList (adm.descr []) hc0.t.p5
  rw [String.ofList_toList] at hD
  constructor
  · have := asmDL (adm.opn []) (adm.cls []) hT.nb hD
    simpa [ppL', parenIfL', Expr.eraseSpans, WOf] using
      this.mono (m := needF (.dd c d sp)) (by simp only [needF]; omega)
  · intro k; simp only [ppL', pp']; exact hT.parenIf lay _
  · intro k X _; simp only [ppL']; exact dots3_parenIfL' _ _ _ _ (hnd X)
  · intro X; simp only [ppL']; exact dots3_parenIfL' _ _ _ _ (hnd X)

theorem case_seqL (cs : ExprL) (sp : Span) (ih : NFL' cs → TailsG' cs ∧ AllLG' cs) (h : NF' (.seq cs sp)) :
    AllG' (.seq cs sp) := by
  simp only [NF'] at h
  obtain ⟨e1, e2, es, rfl⟩ := two_le_length h.1
  obtain ⟨_, h1, h2, h3⟩ := ih h.2
  intro lay adm
  have a0 := adm.sub 0
  have h1' := h1 ((lay.sub 0).sub 0) (a0.sub 0)
  have h2' := h2 ((lay.sub 0).sub 1) (a0.sub 1)
  have hT : SameHead (ppL' ((lay.sub 0).sub 0) 3 e1 ++ ppTailL' ((lay.sub 0).sub 1) 3 (.cons e2 es))
      (pp' 3 e1 ++ ppTail' 3 sepS (.cons e2 es)) := (h1'.hd 3).append _ _
  have hnd : ∀ X, dots3 (ppL' ((lay.sub 0).sub 0) 3 e1 ++ ppTailL' ((lay.sub 0).sub 1) 3 (.cons e2 es) ++ X)
      = false := by
    intro X; rw [List.append_assoc]
    exact h1'.nd 3 _ (fun _ => tail_notDotL _ (a0.sub 1) 3 (by omega) e2 es X)
  have hn := seq_native' h1'.t.p3 h2'.s (tailS_contL _ h3 _ (a0.sub 1))
  constructor
  · have := asm2L (adm.opn []) (adm.cls []) hT.nb hn
    simpa [ppL', ppListL', parenIfL', Expr.eraseSpans, ExprL.eraseSpans, WOf] using
      this.mono (m := needF (.seq (.cons e1 (.cons e2 es)) sp)) (by simp only [needF, needFL]; omega)
  · intro k; simp only [ppL', ppListL', pp', ppList']; exact hT.parenIf lay _
  · intro k X _; simp only [ppL', ppListL']; exact dots3_parenIfL' _ _ _ _ (hnd X)
  · intro X; simp only [ppL', ppListL']; exact dots3_parenIfL' _ _ _ _ (hnd X)

theorem case_altL (cs : ExprL) (sp : Span) (ih : NFL' cs → TailsG' cs ∧ AllLG' cs) (h : NF' (.alt cs sp)) :
    AllG' (.alt cs sp) := by
  simp only [NF'] at h
  obtain ⟨e1, e2, es, rfl⟩ := two_le_length h.1
  obtain ⟨_, h1, h2, h3⟩ := ih h.2
  intro lay adm
  have a0 := adm.sub 0
  have h1' := h1 ((lay.sub 0).sub 0) (a0.sub 0)
  have h2' := h2 ((lay.sub 0).sub 1) (a0.sub 1)
  have hT : SameHead (ppL' ((lay.sub 0).sub 0) 2 e1 ++ ppTailL' ((lay.sub 0).sub 1) 2 (.cons e2 es))
      (pp' 2 e1 ++ ppTail' 2 sepA (.cons e2 es)) := (h1'.hd 2).append _ _
  have hnd : ∀ X, dots3 (ppL' ((lay.sub 0).sub 0) 2 e1 ++ ppTailL' ((lay.sub 0).sub 1) 2 (.cons e2 es) ++ X)
      = false := by
    intro X; rw [List.append_assoc]
    exact h1'.nd 2 _ (fun _ => tail_notDotL _ (a0.sub 1) 2 (by omega) e2 es X)
  have hn := alt_native h1'.t.p2 h2'.a (tailA_contL _ _ (a0.sub 1))
  constructor
  · have := asm1L (adm.opn []) (adm.cls []) hT.nb hn
    simpa [ppL', ppListL', parenIfL', Expr.eraseSpans, ExprL.eraseSpans, WOf] using
      this.mono (m := needF (.alt (.cons e1 (.cons e2 es)) sp)) (by simp only [needF, needFL]; omega)
  · intro k; simp only [ppL', ppListL', pp', ppList']; exact hT.parenIf lay _
  · intro k X _; simp only [ppL', ppListL']; exact dots3_parenIfL' _ _ _ _ (hnd X)
  · intro X; simp only [ppL', ppListL']; exact dots3_parenIfL' _ _ _ _ (hnd X)

theorem case_fbL (cs : ExprL) (sp : Span) (ih : NFL' cs → TailsG' cs ∧ AllLG' cs) (h : NF' (.fb cs sp)) :
    AllG' (.fb cs sp) := by
  simp only [NF'] at h
  obtain ⟨e1, e2, es, rfl⟩ := two_le_length h.1
  obtain ⟨_, h1, h2, h3⟩ := ih h.2
  intro lay adm
  have a0 := adm.sub 0
  have h1' := h1 ((lay.sub 0).sub 0) (a0.sub 0)
  have h2' := h2 ((lay.sub 0).sub 1) (a0.sub 1)
  have hT : SameHead (ppL' ((lay.sub 0).sub 0) 1 e1 ++ ppTailL' ((lay.sub 0).sub 1) 1 (.cons e2 es))
      (pp' 1 e1 ++ ppTail' 1 sepF (.cons e2 es)) := (h1'.hd 1).append _ _
  have hnd : ∀ X, dots3 (ppL' ((lay.sub 0).sub 0) 1 e1 ++ ppTailL' ((lay.sub 0).sub 1) 1 (.cons e2 es) ++ X)
      = false := by
    intro X; rw [List.append_assoc]
    exact h1'.nd 1 _ (fun _ => tail_notDotL _ (a0.sub 1) 1 (by omega) e2 es X)
  have hn := fb_native h1'.t.p1 h2'.f (tailF_contL _ _ (a0.sub 1))
  constructor
  · have := asm0L (adm.opn []) (adm.cls []) hT.nb hn
    simpa [ppL', ppListL', parenIfL', Expr.eraseSpans, ExprL.eraseSpans, WOf] using
      this.mono (m := needF (.fb (.cons e1 (.cons e2 es)) sp)) (by simp only [needF, needFL]; omega)
  · intro k; simp only [ppL', ppListL', pp', ppList']; exact hT.parenIf lay _
  · intro k X _; simp only [ppL', ppListL']; exact dots3_parenIfL' _ _ _ _ (hnd X)
  · intro X; simp only [ppL', ppListL']; exact dots3_parenIfL' _ _ _ _ (hnd X)

/-! ### juxtaposition -/

theorem swLoop_nilQ {C : List Char → Prop} (hC : ∀ r, C r → StopQ r) : LTW C 0 [] .nil := by
  intro rest hrest s hs acc f _
  refine ⟨[], ?_, rfl⟩
  rw [subwordLoop_stopQ f s acc (by rw [hs]; exact hC rest hrest)]
  simp [adv_zero]

def TailsWG (b : Bool) (fs : ExprL) : Prop := ∀ lay : Layout', lay.Adm →
  LTW (EC' (lastBare b fs)) (needFL fs) (ppTailL' lay 6 fs) fs.eraseSpans

def AllWG : ExprL → Prop
  | .nil => True
  | .cons f fs => AllG' f ∧ TailsWG (bare f) fs ∧ AllWG fs

/-- the first character of the remaining factors does not depend on the layout -/
theorem bracketHead_transfer (fs : ExprL) (hall : AllWG fs) (lay : Layout') (adm : lay.Adm)
    (h : BracketHead (ppTail' 6 [] fs)) : BracketHead (ppTailL' lay 6 fs) := by
  cases fs with
  | nil =>
    obtain ⟨c, r, e, _⟩ := h
    simp [ppTail'] at e
  | cons g fs' =>
    obtain ⟨c, r, r', e1, e2, _, _⟩ := (hall.1 (lay.sub 0) (adm.sub 0)).hd 6
    obtain ⟨c', r'', e, hc⟩ := h
    simp only [ppTail', List.nil_append, e2, List.cons_append, List.cons.injEq] at e
    obtain ⟨rfl, _⟩ := e
    exact ⟨c, r ++ ppTailL' (lay.sub 1) 6 fs', by simp [ppTailL', sepL', e1], hc⟩

theorem tailW_notDotL (g : Expr) (fs : ExprL) (hN : NFW (.cons g fs)) (hg : bare g = true) (hall : AllWG fs)
    (lay : Layout') (adm : lay.Adm) (rest : List Char) (hrest : EC' (lastBare true fs) rest) :
    NotDotHead (ppTailL' lay 6 fs ++ rest) := by
  simp only [NFW] at hN
  rcases hN.2.2.1 hg with rfl | hb
  · simp only [ppTailL', List.nil_append]
    exact hrest.d.1.notDot
  · exact (bracketHead_transfer fs hall lay adm hb).notDot rest

theorem tailW_contL (f : Expr) (fs : ExprL) (hN : NFW (.cons f fs)) (hall : AllWG fs) (lay : Layout')
    (adm : lay.Adm) : ∀ rest, EC' (lastBare (bare f) fs) rest → WOf f (ppTailL' lay 6 fs ++ rest) := by
  intro rest hrest
  have hN' := hN
  simp only [NFW] at hN'
  cases hb : bare f
  · -- not a literal without description: only `...` must not follow
    have hW : WOf f = WD := by
      cases f with
      | term t d l sp =>
        cases d with
        | none => simp [bare] at hb
        | some d => rfl
      | _ => rfl
    rw [hW]
    cases fs with
    | nil =>
      simp only [ppTailL', List.nil_append]
      exact hrest.d.2
    | cons g fs' =>
      obtain ⟨hg, _, hall'⟩ := hall
      have hg0 := hg (lay.sub 0) (adm.sub 0)
      obtain ⟨c, r, hcr, hnb, _⟩ := (hg0.hd 6).starts
      have hnd := hg0.nd 6 (ppTailL' (lay.sub 1) 6 fs' ++ rest) (fun hbg => by
        have hr' : EC' (lastBare true fs') rest := by
          have : lastBare (bare f) (.cons g fs') = lastBare true fs' := by
            simp only [lastBare, hbg]
          rw [this] at hrest; exact hrest
        exact tailW_notDotL g fs' hN'.2.2.2 hbg hall' _ (adm.sub 1) rest hr')
      unfold WD
      simp only [ppTailL', sepL', List.nil_append, List.append_assoc]
      rw [hcr, List.cons_append, afterBlanks_notBlank c _ hnb, ← List.cons_append, ← hcr]
      exact hnd
  · -- a literal without description
    obtain ⟨t, l, sp, rfl⟩ : ∃ t l sp, f = .term t none l sp := by
      cases f with
      | term t d l sp =>
        cases d with
        | none => exact ⟨t, l, sp, rfl⟩
        | some d => simp [bare] at hb
      | _ => simp [bare] at hb
    show WL t.toList _
    rcases hN'.2.2.1 hb with rfl | hbr
    · simp only [ppTailL', List.nil_append]
      have : EC' true rest := by simpa [lastBare, bare] using hrest
      exact UC.wl this _
    · exact (bracketHead_transfer fs hall lay adm hbr).wl rest _

theorem case_nilWL : AllWG .nil ∧ ∀ b, TailsWG b .nil := by
  refine ⟨trivial, fun b lay _ => ?_⟩
  have := swLoop_nilQ (C := EC' (lastBare b .nil)) (fun r hr => hr.d.1)
  simpa [ppTailL', needFL, ExprL.eraseSpans] using this

theorem case_consWL (f : Expr) (fs : ExprL) (hf : AllG' f) (hfs : AllWG fs ∧ ∀ b, TailsWG b fs)
    (hN : NFW (.cons f fs)) : AllWG (.cons f fs) ∧ ∀ b, TailsWG b (.cons f fs) := by
  refine ⟨⟨hf, hfs.2 _, hfs.1⟩, fun b lay adm => ?_⟩
  have hN' := hN
  simp only [NFW] at hN'
  have := swLoop_cons (hf (lay.sub 0) (adm.sub 0)).t.p6 (flatFix_of_noSub f hN'.2.1)
    (hfs.2 (bare f) (lay.sub 1) (adm.sub 1)) (tailW_contL f fs hN hfs.1 _ (adm.sub 1))
  simpa [lastBare, ppTailL', sepL', ExprL.eraseSpans, needFL] using this

theorem ppL'_sub (lay : Layout') (k : Nat) (fs : ExprL) (sp1 : Span) (l : Nat) (sp : Span) :
    ppL' lay k (.sub (.seq fs sp1) l sp) =
      parenIfL' lay (k == 4 || k == 6 || (k == 5 && lastBare false fs)) (ppListL' (lay.sub 0) 6 fs) := by
  rw [ppL']

theorem case_subL (fs : ExprL) (sp1 : Span) (l : Nat) (sp : Span)
    (ih : NFW fs → AllWG fs ∧ ∀ b, TailsWG b fs) (h : NF' (.sub (.seq fs sp1) l sp)) :
    AllG' (.sub (.seq fs sp1) l sp) := by
  simp only [NF'] at h
  obtain ⟨rfl, hlen, hN⟩ := h
  obtain ⟨f1, f2, fs', rfl⟩ := two_le_length hlen
  obtain ⟨⟨h1, h2, h3⟩, _⟩ := ih hN
  have hN' := hN
  simp only [NFW] at hN'
  intro lay adm
  have a0 := adm.sub 0
  have h1' := h1 ((lay.sub 0).sub 0) (a0.sub 0)
  have h2' := h2 ((lay.sub 0).sub 1) (a0.sub 1)
  have hT : SameHead (ppL' ((lay.sub 0).sub 0) 6 f1 ++ ppTailL' ((lay.sub 0).sub 1) 6 (.cons f2 fs'))
      (pp' 6 f1 ++ ppTail' 6 [] (.cons f2 fs')) := (h1'.hd 6).append _ _
  have hnd : ∀ X, dots3 (ppL' ((lay.sub 0).sub 0) 6 f1 ++ ppTailL' ((lay.sub 0).sub 1) 6 (.cons f2 fs') ++ X)
      = false := by
    intro X; rw [List.append_assoc]
    refine h1'.nd 6 _ (fun hb => ?_)
    rcases hN'.2.2.1 hb with e | hbr
    · cases e
    · exact (bracketHead_transfer _ h3 _ (a0.sub 1) hbr).notDot X
  have hn := sw_native h1'.t.p6 (flatFix_of_noSub f1 hN'.2.1) h2' (tailW_contL f1 _ hN h3 _ (a0.sub 1))
  have hpp : ∀ k, ppL' lay k (.sub (.seq (.cons f1 (.cons f2 fs')) sp1) 0 sp) =
      parenIfL' lay (k == 4 || k == 6 || (k == 5 && lastBare false (.cons f1 (.cons f2 fs'))))
        (ppL' ((lay.sub 0).sub 0) 6 f1 ++ ppTailL' ((lay.sub 0).sub 1) 6 (.cons f2 fs')) := by
    intro k; rw [ppL'_sub, ppListL']
  have hpp' : ∀ k, pp' k (.sub (.seq (.cons f1 (.cons f2 fs')) sp1) 0 sp) =
      parenIf (k == 4 || k == 6 || (k == 5 && lastBare false (.cons f1 (.cons f2 fs'))))
        (pp' 6 f1 ++ ppTail' 6 [] (.cons f2 fs')) := by
    intro k; rw [pp', ppList']
  constructor
  · have := asmWL _ (adm.opn []) (adm.cls []) hT.nb hn
    simp only [hpp]
    have this2 := this.mono (m := needF (.sub (.seq (.cons f1 (.cons f2 fs')) sp1) 0 sp))
        (by simp only [needF, needFL]; omega)
    simp [parenIfL', lastBare, Expr.eraseSpans, ExprL.eraseSpans, WOf] at this2 ⊢
    exact this2
  · intro k; rw [hpp, hpp']; exact hT.parenIf lay _
  · intro k X _; rw [hpp]; exact dots3_parenIfL' _ _ _ _ (hnd X)
  · intro X; rw [hpp]; exact dots3_parenIfL' _ _ _ _ (hnd X)

theorem all_levelsL (e : Expr) : NF' e → AllG' e := by
  suffices h : (NF' e → AllG' e) ∧ ∀ fs sp, e = .seq fs sp → NFW fs → AllWG fs ∧ ∀ b, TailsWG b fs from h.1
  refine Expr.rec
    (motive_1 := fun e => (NF' e → AllG' e) ∧ ∀ fs sp, e = .seq fs sp → NFW fs → AllWG fs ∧ ∀ b, TailsWG b fs)
    (motive_2 := fun es => (NFL' es → TailsG' es ∧ AllLG' es) ∧ (NFW es → AllWG es ∧ ∀ b, TailsWG b es))
    ?_ ?_ ?_ ?_ ?_ ?_ ?_ ?_ ?_ ?_ ?_ ?_ e
  · intro t d l sp; exact ⟨case_termL t d l sp, fun _ _ e => by cases e⟩
  · intro n l sp; exact ⟨case_nontermL n l sp, fun _ _ e => by cases e⟩
  · intro c a l sp; exact ⟨case_cmdL c a l sp, fun _ _ e => by cases e⟩
  · intro cs sp ih
    exact ⟨case_seqL cs sp ih.1, fun fs sp' e => by cases e; exact ih.2⟩
  · intro cs sp ih; exact ⟨case_altL cs sp ih.1, fun _ _ e => by cases e⟩
  · intro cs sp ih; exact ⟨case_fbL cs sp ih.1, fun _ _ e => by cases e⟩
  · intro c sp ih; exact ⟨case_optL c sp ih.1, fun _ _ e => by cases e⟩
  · intro c sp ih; exact ⟨case_many1L c sp ih.1, fun _ _ e => by cases e⟩
  · intro c d sp ih; exact ⟨case_ddL c d sp ih.1, fun _ _ e => by cases e⟩
  · intro c l sp ih
    refine ⟨fun h => ?_, fun _ _ e => by cases e⟩
    cases c with
    | seq fs sp1 => exact case_subL fs sp1 l sp (ih.2 fs sp1 rfl) h
    | _ => simp [NF'] at h
  · exact ⟨fun _ => case_nilL, fun _ => case_nilWL⟩
  · intro e es ihe ihes
    refine ⟨fun h => ?_, fun h => ?_⟩
    · simp only [NFL'] at h
      exact case_consL e es (ihe.1 h.1) (ihes.1 h.2)
    · have h' := h
      simp only [NFW] at h'
      exact case_consWL e es (ihe.1 h'.1) (ihes.2 h'.2.2.2) h

/-! ### the plain printer is one of the layouts -/

/-- the layout of `pp'`: one blank between the items of a sequence, on both sides of `|` and `||` and before
a description, nothing inside brackets and before `...` -/
def plainLayout' : Layout' :=
  ⟨fun _ => [' '], fun _ => [' '], fun _ => [' '], fun _ => [], fun _ => [], fun _ => [], fun _ => [' ']⟩

theorem plainLayout'_sub (i : Nat) : plainLayout'.sub i = plainLayout' := rfl

theorem plainLayout'_adm : plainLayout'.Adm :=
  have hb : IsLayoutW [' '] := ⟨show IsLayout [' '] by decide, fun r e => by cases e⟩
  ⟨fun _ => ⟨hb, by simp [plainLayout']⟩, fun _ => hb, fun _ => hb.1, fun _ => rfl,
   fun _ => IsLayoutW.nil, fun _ => IsLayoutW.nil, fun _ => hb⟩

theorem parenIfL'_plain (b : Bool) (T : List Char) : parenIfL' plainLayout' b T = parenIf b T := by
  cases b <;> simp [parenIfL', parenIf, parenL, plainLayout']

theorem descrTextL_plain (d : List Char) : descrTextL (plainLayout'.descr []) d = descrText d := by
  simp [descrTextL, descrText, plainLayout']

/-- the separators of `pp'` -/
def sepOf : Nat → List Char
  | 3 => sepS
  | 2 => sepA
  | 1 => sepF
  | _ => []

theorem sepL'_plain (ctx : Nat) : sepL' plainLayout' ctx = sepOf ctx := by
  unfold sepL' sepOf
  split <;> simp [plainLayout', sepS, sepA, sepF]

theorem ppL'_plain_aux (e : Expr) : (∀ ctx, ppL' plainLayout' ctx e = pp' ctx e) ∧
    ∀ fs sp, e = .seq fs sp → ppListL' plainLayout' 6 fs = ppList' 6 [] fs := by
  refine Expr.rec
    (motive_1 := fun e => (∀ ctx, ppL' plainLayout' ctx e = pp' ctx e) ∧
      ∀ fs sp, e = .seq fs sp → ppListL' plainLayout' 6 fs = ppList' 6 [] fs)
    (motive_2 := fun es => ∀ ctx, ppListL' plainLayout' ctx es = ppList' ctx (sepOf ctx) es ∧
      ppTailL' plainLayout' ctx es = ppTail' ctx (sepOf ctx) es)
    ?_ ?_ ?_ ?_ ?_ ?_ ?_ ?_ ?_ ?_ ?_ ?_ e
  · intro t d l sp
    refine ⟨fun ctx => ?_, fun _ _ e => by cases e⟩
    cases d with
    | none => rw [ppL'_bare, pp'_bare, parenIfL'_plain]
    | some d => rw [ppL'_descr, pp'_descr, descrTextL_plain]
  · intro n l sp; exact ⟨fun ctx => by simp only [ppL', pp'], fun _ _ e => by cases e⟩
  · intro c a l sp; exact ⟨fun ctx => by simp only [ppL', pp'], fun _ _ e => by cases e⟩
  · intro cs sp ih
    refine ⟨fun ctx => ?_, fun fs sp' e => by cases e; exact (ih 6).1⟩
    simp only [ppL', pp', plainLayout'_sub, parenIfL'_plain, (ih 3).1, sepOf]
  · intro cs sp ih
    refine ⟨fun ctx => ?_, fun _ _ e => by cases e⟩
    simp only [ppL', pp', plainLayout'_sub, parenIfL'_plain, (ih 2).1, sepOf]
  · intro cs sp ih
    refine ⟨fun ctx => ?_, fun _ _ e => by cases e⟩
    simp only [ppL', pp', plainLayout'_sub, parenIfL'_plain, (ih 1).1, sepOf]
  · intro c sp ih
    refine ⟨fun ctx => ?_, fun _ _ e => by cases e⟩
    simp only [ppL', pp', plainLayout'_sub, ih.1 0]
    simp [plainLayout']
  · intro c sp ih
    refine ⟨fun ctx => ?_, fun _ _ e => by cases e⟩
    simp only [ppL', pp', plainLayout'_sub, parenIfL'_plain, ih.1 4]
    simp [plainLayout']
  · intro c d sp ih
    refine ⟨fun ctx => ?_, fun _ _ e => by cases e⟩
    simp only [ppL', pp', plainLayout'_sub, parenIfL'_plain, ih.1 5, descrTextL_plain]
  · intro c l sp ih
    refine ⟨fun ctx => ?_, fun _ _ e => by cases e⟩
    cases c with
    | seq fs sp1 =>
      rw [ppL'_sub, plainLayout'_sub, parenIfL'_plain, ih.2 fs sp1 rfl]
      rw [pp']
    | _ => simp only [ppL', pp']
  · intro ctx; simp only [ppListL', ppList', ppTailL', ppTail', and_self]
  · intro e es ihe ihes ctx
    simp only [ppListL', ppList', ppTailL', ppTail', plainLayout'_sub, ihe.1 ctx, (ihes ctx).2,
      sepL'_plain, and_self]

/-- **the plain printer `pp'` is the instance `plainLayout'`** of the printer with layout -/
theorem ppL'_plain (ctx : Nat) (e : Expr) : ppL' plainLayout' ctx e = pp' ctx e := (ppL'_plain_aux e).1 ctx

/-! ### the printer of `Proofs/LadderLayout.lean` is an instance -/

theorem ofLayout_sub (lay : Layout) (d : List Nat → List Char) (i : Nat) :
    (Layout'.ofLayout lay d).sub i = Layout'.ofLayout (lay.sub i) (fun p => d (i :: p)) := rfl

theorem parenIfL'_ofLayout (lay : Layout) (d : List Nat → List Char) (b : Bool) (T : List Char) :
    parenIfL' (Layout'.ofLayout lay d) b T = parenIfL lay b T := rfl

/-- on the fragment of `Proofs/Ladder.lean` the printer with layout of this file writes what `ppL` writes
(contexts 0 to 4), whatever strings are chosen for the descriptions: there are none -/
theorem ppL'_ofLayout (e : Expr) : NF e → ∀ (lay : Layout) (d : List Nat → List Char) ctx, ctx ≤ 4 →
    ppL' (Layout'.ofLayout lay d) ctx e = ppL lay ctx e := by
  refine Expr.rec
    (motive_1 := fun e => NF e → ∀ (lay : Layout) (d : List Nat → List Char) ctx, ctx ≤ 4 →
      ppL' (Layout'.ofLayout lay d) ctx e = ppL lay ctx e)
    (motive_2 := fun es => NFL es → ∀ (lay : Layout) (d : List Nat → List Char) ctx, 1 ≤ ctx → ctx ≤ 3 →
      ppListL' (Layout'.ofLayout lay d) ctx es = ppListL lay ctx es ∧
      ppTailL' (Layout'.ofLayout lay d) ctx es = ppTailL lay ctx es)
    ?_ ?_ ?_ ?_ ?_ ?_ ?_ ?_ ?_ ?_ ?_ ?_ e
  · intro t dd l sp h lay d ctx hctx
    simp only [NF] at h
    obtain ⟨rfl, _, _, h4, _⟩ := h
    have h5 : (ctx == 5) = false := by simp; omega
    rw [ppL'_bare, escT_regular 0 _ h4, endsDot_regular _ h4, h5]
    simp [parenIfL', ppL]
  · intro n l sp _ lay d ctx _; simp only [ppL', ppL]
  · intro c a l sp _ lay d ctx _; simp only [ppL', ppL]
  · intro cs sp ih h lay d ctx _
    simp only [NF] at h
    simp only [ppL', ppL, ofLayout_sub, parenIfL'_ofLayout, (ih h.2 _ _ 3 (by omega) (by omega)).1]
  · intro cs sp ih h lay d ctx _
    simp only [NF] at h
    simp only [ppL', ppL, ofLayout_sub, parenIfL'_ofLayout, (ih h.2 _ _ 2 (by omega) (by omega)).1]
  · intro cs sp ih h lay d ctx _
    simp only [NF] at h
    simp only [ppL', ppL, ofLayout_sub, parenIfL'_ofLayout, (ih h.2 _ _ 1 (by omega) (by omega)).1]
  · intro c sp ih h lay d ctx _
    simp only [NF] at h
    simp only [ppL', ppL, ofLayout_sub, ih h _ _ 0 (by omega)]
    rfl
  · intro c sp ih h lay d ctx hctx
    simp only [NF] at h
    have : (ctx == 4) = decide (4 ≤ ctx) := by rw [Bool.eq_iff_iff]; simp; omega
    simp only [ppL', ppL, ofLayout_sub, parenIfL'_ofLayout, ih h _ _ 4 (by omega), this]
    rfl
  · intro c dd sp _ h; simp [NF] at h
  · intro c l sp _ h; simp [NF] at h
  · intro _ lay d ctx _ _; simp only [ppListL', ppListL, ppTailL', ppTailL, and_self]
  · intro e es ihe ihes h lay d ctx h1 h3
    simp only [NFL] at h
    have hsep : sepL' (Layout'.ofLayout lay d) ctx = sepL lay ctx := by
      have : ctx = 1 ∨ ctx = 2 ∨ ctx = 3 := by omega
      rcases this with rfl | rfl | rfl <;> rfl
    simp only [ppListL', ppListL, ppTailL', ppTailL, ofLayout_sub, ihe h.1 _ _ ctx (by omega),
      (ihes h.2 _ _ ctx h1 h3).2, hsep, and_self]

end Complgen.Parse.Full

namespace Complgen.Parse
open Complgen Complgen.Parse.Full

/-- **Layout does not matter on the larger fragment (1)**: a tree of `NF'` printed with any admissible
layout — blanks and comments wherever the syntax allows them, the place before a description included —
followed by the end of the input, `;`, `)`, `]` (possibly after blanks and comments), is parsed by
`fallback_expr` as the same tree up to spans, and exactly the printed characters are consumed. -/
theorem fallback_roundtrip_full_layout (e : Expr) (hnf : NF' e) (lay : Layout') (adm : lay.Adm)
    (rest : List Char) (hrest : Follows rest) (s : PState) (hs : s.rest = ppL' lay 0 e ++ rest)
    (fuel : Nat) (hfuel : needF e ≤ fuel) :
    ∃ e', fallback fuel s = some (s.adv (ppL' lay 0 e).length, e') ∧ e'.eraseSpans = e.eraseSpans :=
  (all_levelsL e hnf lay adm).t.p0 rest hrest s hs fuel hfuel

/-- the same under the fuel bound of `Proofs/Ladder.lean` -/
theorem fallback_roundtrip_full_layout_fuelNeeded (e : Expr) (hnf : NF' e) (lay : Layout') (adm : lay.Adm)
    (rest : List Char) (hrest : Follows rest) (s : PState) (hs : s.rest = ppL' lay 0 e ++ rest)
    (fuel : Nat) (hfuel : fuelNeeded e ≤ fuel) :
    ∃ e', fallback fuel s = some (s.adv (ppL' lay 0 e).length, e') ∧ e'.eraseSpans = e.eraseSpans :=
  fallback_roundtrip_full_layout e hnf lay adm rest hrest s hs fuel
    (Nat.le_trans (needF_le_fuelNeeded e) hfuel)

/-- **Layout does not matter on the larger fragment (2)**: two admissible layouts of one tree are parsed as
trees that differ in their spans only. -/
theorem layout_irrelevant_full (e : Expr) (hnf : NF' e) (lay₁ lay₂ : Layout') (adm₁ : lay₁.Adm)
    (adm₂ : lay₂.Adm) (rest₁ rest₂ : List Char) (hrest₁ : Follows rest₁) (hrest₂ : Follows rest₂)
    (s₁ s₂ : PState) (hs₁ : s₁.rest = ppL' lay₁ 0 e ++ rest₁) (hs₂ : s₂.rest = ppL' lay₂ 0 e ++ rest₂)
    (fuel₁ fuel₂ : Nat) (hfuel₁ : needF e ≤ fuel₁) (hfuel₂ : needF e ≤ fuel₂) :
    ∃ e₁ e₂, fallback fuel₁ s₁ = some (s₁.adv (ppL' lay₁ 0 e).length, e₁) ∧
      fallback fuel₂ s₂ = some (s₂.adv (ppL' lay₂ 0 e).length, e₂) ∧ e₁.eraseSpans = e₂.eraseSpans := by
  obtain ⟨e₁, h₁, he₁⟩ := fallback_roundtrip_full_layout e hnf lay₁ adm₁ rest₁ hrest₁ s₁ hs₁ fuel₁ hfuel₁
  obtain ⟨e₂, h₂, he₂⟩ := fallback_roundtrip_full_layout e hnf lay₂ adm₂ rest₂ hrest₂ s₂ hs₂ fuel₂ hfuel₂
  exact ⟨e₁, e₂, h₁, h₂, he₁.trans he₂.symm⟩

/-- `fallback_roundtrip_full` of `Proofs/LadderFull.lean` is the instance `plainLayout'` (with the sharper
fuel bound) -/
theorem fallback_roundtrip_full_of_layout (e : Expr) (hnf : NF' e) (rest : List Char) (hrest : Follows rest)
    (s : PState) (hs : s.rest = pp' 0 e ++ rest) (fuel : Nat) (hfuel : needF e ≤ fuel) :
    ∃ e', fallback fuel s = some (s.adv (pp' 0 e).length, e') ∧ e'.eraseSpans = e.eraseSpans := by
  rw [← ppL'_plain] at hs ⊢
  exact fallback_roundtrip_full_layout e hnf plainLayout' plainLayout'_adm rest hrest s hs fuel hfuel

/-- any admissible layout is read as the plain text is -/
theorem layout_vs_plain_full (e : Expr) (hnf : NF' e) (lay : Layout') (adm : lay.Adm)
    (rest₁ rest₂ : List Char) (hrest₁ : Follows rest₁) (hrest₂ : Follows rest₂) (s₁ s₂ : PState)
    (hs₁ : s₁.rest = ppL' lay 0 e ++ rest₁) (hs₂ : s₂.rest = pp' 0 e ++ rest₂)
    (fuel₁ fuel₂ : Nat) (hfuel₁ : needF e ≤ fuel₁) (hfuel₂ : needF e ≤ fuel₂) :
    ∃ e₁ e₂, fallback fuel₁ s₁ = some (s₁.adv (ppL' lay 0 e).length, e₁) ∧
      fallback fuel₂ s₂ = some (s₂.adv (pp' 0 e).length, e₂) ∧ e₁.eraseSpans = e₂.eraseSpans := by
  rw [← ppL'_plain] at hs₂ ⊢
  exact layout_irrelevant_full e hnf lay plainLayout' adm plainLayout'_adm rest₁ rest₂ hrest₁ hrest₂ s₁ s₂
    hs₁ hs₂ fuel₁ fuel₂ hfuel₁ hfuel₂

/-- `fallback_roundtrip_layout` of `Proofs/LadderLayout.lean` is the instance `Layout'.ofLayout` -/
theorem fallback_roundtrip_layout_from_full (e : Expr) (hnf : NF e) (lay : Layout) (adm : lay.Adm)
    (rest : List Char) (hrest : Follows rest) (s : PState) (hs : s.rest = ppL lay 0 e ++ rest)
    (fuel : Nat) (hfuel : needF e ≤ fuel) :
    ∃ e', fallback fuel s = some (s.adv (ppL lay 0 e).length, e') ∧ e'.eraseSpans = e.eraseSpans := by
  have h := ppL'_ofLayout e hnf lay (fun _ => []) 0 (by omega)
  rw [← h] at hs ⊢
  exact fallback_roundtrip_full_layout e (NF_sub e hnf) _
    (Layout'.ofLayout_adm adm (fun _ => IsLayoutW.nil)) rest hrest s hs fuel hfuel

/-! ### examples: the theorem is not vacuous, the restrictions of `Layout'.Adm` are needed -/
namespace Full

private def sp0 : Span := ⟨0, 0, 0⟩
private def lit (t : String) : Expr := .term t none 0 sp0
private def word (fs : List Expr) : Expr := .sub (.seq (ExprL.ofList fs) sp0) 0 sp0

/-- the layout that puts the same strings at every node -/
def constLayout (sep barL barR opn cls dots descr : String) : Layout' :=
  ⟨fun _ => sep.toList, fun _ => barL.toList, fun _ => barR.toList, fun _ => opn.toList, fun _ => cls.toList,
   fun _ => dots.toList, fun _ => descr.toList⟩

/-- `a "d" (b | c.) "x" [--o=<V>]...`: a literal with its description, a description distributed over a
group, a word built by juxtaposition inside brackets under a postfix `...` -/
def exE : Expr :=
  .seq (ExprL.ofList [.term "a" (some "d") 0 sp0,
    .dd (.alt (ExprL.ofList [lit "b", lit "c."]) sp0) "x" sp0,
    .many1 (.opt (word [lit "--o=", .nonterm "V" 0 sp0]) sp0) sp0]) sp0

theorem exE_nf : NF' exE := by
  have e1 : "a".toList = ['a'] := by rfl
  have e2 : "b".toList = ['b'] := by rfl
  have e3 : "c.".toList = ['c', '.'] := by rfl
  have e4 : "--o=".toList = ['-', '-', 'o', '='] := by rfl
  have e5 : "V".toList = ['V'] := by rfl
  have hb : BracketHead (ppTail' 6 [] (.cons (.nonterm "V" 0 sp0) .nil)) :=
    ⟨'<', "V".toList ++ ['>'], by simp [ppTail', pp'], .inl rfl⟩
  simp only [exE, lit, word, ExprL.ofList, NF', NFL', NFW, NoSub, bare, ExprL.length, e1, e2, e3, e4, e5]
  exact ⟨by decide, by decide, ⟨by decide, by decide, by decide, trivial⟩,
    ⟨trivial, by decide, by decide, trivial, fun _ => .inr hb, by decide, trivial, fun h => (by cases h), trivial⟩,
    trivial⟩

/-- comments and line feeds at every position -/
def exLay : Layout' := constLayout " # two\n" " " " " "# in\n" "\n" " " "\n# note\n  "

theorem exLay_adm : exLay.Adm := by
  have h1 : IsLayoutW " # two\n".toList := ⟨by decide, fun r e => by cases e⟩
  have h2 : IsLayoutW " ".toList := ⟨by decide, fun r e => by cases e⟩
  have h3 : IsLayoutW "\n".toList := ⟨by decide, fun r e => by cases e⟩
  have h4 : IsLayoutW "\n# note\n  ".toList := ⟨by decide, fun r e => by cases e⟩
  exact ⟨fun _ => ⟨h1, by simp [exLay, constLayout]⟩, fun _ => h2, fun _ => h2.1,
    fun _ => by show IsLayout "# in\n".toList; decide, fun _ => h3, fun _ => h2, fun _ => h4⟩

set_option maxRecDepth 100000 in
example : pp' 0 exE = "a \"d\" (b | c.) \"x\" [--o=<V>]...".toList := by decide

set_option maxRecDepth 100000 in
example : ppL' exLay 0 exE =
    "a\n# note\n  \"d\" # two\n(# in\nb | c.\n)\n# note\n  \"x\" # two\n[# in\n--o=<V>\n] ...".toList := by decide

/-- the text of the example with comments everywhere is parsed as the example, up to spans -/
example : ∃ s' e', fallback 40 (PState.init
      "a\n# note\n  \"d\" # two\n(# in\nb | c.\n)\n# note\n  \"x\" # two\n[# in\n--o=<V>\n] ...".toList) =
      some (s', e') ∧ e'.eraseSpans = exE.eraseSpans := by
  have h := fallback_roundtrip_full_layout exE exE_nf exLay exLay_adm [] Follows_nil
    (PState.init (ppL' exLay 0 exE)) (by simp [PState.init]) 40 (by decide)
  rw [show ppL' exLay 0 exE =
    "a\n# note\n  \"d\" # two\n(# in\nb | c.\n)\n# note\n  \"x\" # two\n[# in\n--o=<V>\n] ...".toList by decide]
    at h
  obtain ⟨e', h1, h2⟩ := h
  exact ⟨_, e', h1, h2⟩

/-- a layout that differs from the plain one in the string before a description only -/
def descrLayout (d : String) : Layout' := constLayout " " " " " " "" "" "" d

set_option maxRecDepth 100000 in
/-- nothing need stand between a literal and its description … -/
theorem descr_empty_literal : ppL' (descrLayout "") 0 (.term "a" (some "d") 0 sp0) = "a\"d\"".toList ∧
    readsAs "a\"d\"".toList (.term "a" (some "d") 0 sp0) = true := by decide

set_option maxRecDepth 100000 in
/-- … nor between a group and the description distributed over it -/
theorem descr_empty_group : ppL' (descrLayout "") 0 (.dd (.nonterm "X" 0 sp0) "d" sp0) = "<X>\"d\"".toList ∧
    readsAs "<X>\"d\"".toList (.dd (.nonterm "X" 0 sp0) "d" sp0) = true := by decide

set_option maxRecDepth 100000 in
/-- a comment may stand before a description when it does not follow the word directly -/
theorem descr_comment_literal :
    ppL' (descrLayout "\n# c\n ") 0 (.term "a" (some "d") 0 sp0) = "a\n# c\n \"d\"".toList ∧
    readsAs "a\n# c\n \"d\"".toList (.term "a" (some "d") 0 sp0) = true := by decide

set_option maxRecDepth 100000 in
/-- `Layout'.Adm.descr` asks for `IsLayoutW`, not only `IsLayout`: a comment directly after a literal is
part of the literal (`#` is a regular character) -/
theorem descr_hash_literal : IsLayout "#c\n".toList ∧
    ppL' (descrLayout "#c\n") 0 (.term "a" (some "d") 0 sp0) = "a#c\n\"d\"".toList ∧
    readsAs "a#c\n\"d\"".toList (.term "a" (some "d") 0 sp0) = false ∧
    readsAs "a#c\n\"d\"".toList (.term "a#c" (some "d") 0 sp0) = true := by decide

set_option maxRecDepth 100000 in
/-- the same after a group: `#c` is a literal juxtaposed to the group, and the description is its own -/
theorem descr_hash_group :
    ppL' (descrLayout "#c\n") 0 (.dd (.nonterm "X" 0 sp0) "d" sp0) = "<X>#c\n\"d\"".toList ∧
    readsAs "<X>#c\n\"d\"".toList (.dd (.nonterm "X" 0 sp0) "d" sp0) = false ∧
    readsAs "<X>#c\n\"d\"".toList (word [.nonterm "X" 0 sp0, .term "#c" (some "d") 0 sp0]) = true := by decide

set_option maxRecDepth 100000 in
/-- no layout may stand inside a word: a blank between two factors makes them two items of a sequence
(`Layout'` has no position there, `sepL' lay 6 = []`) -/
theorem blank_in_word : readsAs "--o=<V>".toList (word [lit "--o=", .nonterm "V" 0 sp0]) = true ∧
    readsAs "--o= <V>".toList (word [lit "--o=", .nonterm "V" 0 sp0]) = false ∧
    readsAs "--o= <V>".toList (.seq (ExprL.ofList [lit "--o=", .nonterm "V" 0 sp0]) sp0) = true := by decide

end Full

end Complgen.Parse
