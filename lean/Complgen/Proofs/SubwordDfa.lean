/-
**The within-word matcher of the emitted bash script follows the within-word automaton** — on
within-word automata all of whose transitions carry literals, whose literals out of one state are
non-empty and prefix-free among themselves, and where the literal transitions out of a state with one
text agree on the target.

`T` are the tables the emitter writes for the within-word automaton `s` (`SubOf T s`:
`T = Tables.ofAutoWith lits s cmds (fun _ => none)` for SOME order `lits` of the literal table that lists
the literals of `s`).  Over the model of `_<cmd>_subword` (`BashRt.litPass`, `BashRt.subLoop`,
`BashRt.subMatches`):

1. `litPass_matches_*` — what one pass over the literal table does in `matches` mode, for ANY table;
   `litStep_consumed_iff`, `litStep_nothing_iff`, `litStep_ne_stop` (= `litPass_step`) — for the tables of `s`;
2. `subLoop_sound`, `subLoop_complete`, `subLoop_run`, `subLoop_run_false` — the matching loop;
3. `subMatches_iff` — the function;
4. `subLoop_complete_mode`, `subComplete_mem` — `complete` mode: where the loop ends, what is offered;
5. `subMatches_iff_needs_prefixFree` — the hypothesis of prefix-freeness cannot be dropped;
6. `ofAuto_subMatches_iff`, `ofAuto_subComplete_mem` — the instance `Tables.ofAuto`.

NOTE (a recorded finding): the template returns "matched" as soon as the whole word is consumed; the
tables contain no accepting states.  So `subMatches` = "the word spells a path of literal transitions
from the start state", whatever the state the path ends in.
-/
import Complgen.Proofs.TemplateDfa
import Complgen.Proofs.Overlap
namespace Complgen.SubwordDfa
open Complgen BashRt Complgen.Tables Complgen.TemplateDfa

/-! ### 0. one pass over the literal table in `matches` mode, any table -/

/-- in `matches` mode the pass never stops for completion -/
theorem litPass_matches_ne_stop (lits0 : List String) (row : List (Nat × Nat)) (r : List Char) :
    ∀ (rest : List String) (id : Nat), litPass .matchesMode lits0 row r id rest ≠ .stop
  | [], _ => by simp [litPass]
  | l :: rest, id => by
    unfold litPass
    simp only [bne_self_eq_false, Bool.false_and, Bool.false_eq_true, if_false]
    split
    · simp
    · split
      · simp
      · exact litPass_matches_ne_stop lits0 row r rest (id + 1)

/-- what the pass consumes is a literal of the table that has an entry in the row and is a prefix of
the text -/
theorem litPass_matches_consumed (lits0 : List String) (row : List (Nat × Nat)) (r : List Char) (t n : Nat) :
    ∀ (rest : List String) (id : Nat), litPass .matchesMode lits0 row r id rest = .consumed t n →
      ∃ j l, rest[j]? = some l ∧ toOf row (id + j) = some t ∧ l.toList <+: r ∧ n = l.length
  | [], _, h => by simp [litPass] at h
  | l :: rest, id, h => by
    unfold litPass at h
    simp only [bne_self_eq_false, Bool.false_and, Bool.false_eq_true, if_false] at h
    split at h
    · rename_i hc
      simp only [Bool.and_eq_true, beq_iff_eq] at hc
      simp only [Step.consumed.injEq] at h
      obtain ⟨ht, hn⟩ := h
      refine ⟨0, l, rfl, ?_, ?_, ?_⟩
      · cases hto : toOf row id with
        | none => simp [hto] at hc
        | some t' => simp [hto] at ht; simp [ht]
      · rw [hc.1]; exact List.prefix_refl _
      · rw [← hn, String.length_toList]
    · split at h
      · rename_i _ hc
        simp only [Bool.and_eq_true] at hc
        simp only [Step.consumed.injEq] at h
        obtain ⟨ht, hn⟩ := h
        refine ⟨0, l, rfl, ?_, ?_, ?_⟩
        · cases hto : toOf row id with
          | none => simp [hto] at hc
          | some t' => simp [hto] at ht; simp [ht]
        · exact List.isPrefixOf_iff_prefix.mp hc.1
        · rw [← hn, String.length_toList]
      · obtain ⟨j, l', hj, ht, hp, hn⟩ := litPass_matches_consumed lits0 row r t n rest (id + 1) h
        exact ⟨j + 1, l', by simpa using hj, by rw [← ht]; congr 1; omega, hp, hn⟩

/-- the pass finds nothing only when no literal of the table with an entry in the row is a prefix of
the text -/
theorem litPass_matches_nothing (lits0 : List String) (row : List (Nat × Nat)) (r : List Char) :
    ∀ (rest : List String) (id : Nat), litPass .matchesMode lits0 row r id rest = .nothing →
      ∀ j l, rest[j]? = some l → (toOf row (id + j)).isSome = true → ¬ l.toList <+: r
  | [], _, _, j, l, hj, _ => by simp at hj
  | l :: rest, id, h, j, l', hj, hs => by
    unfold litPass at h
    simp only [bne_self_eq_false, Bool.false_and, Bool.false_eq_true, if_false] at h
    split at h
    · simp at h
    · split at h
      · simp at h
      · rename_i _ hc
        cases j with
        | zero =>
          simp only [List.getElem?_cons_zero, Option.some.injEq] at hj
          subst hj
          simp only [Nat.add_zero] at hs
          intro hp
          apply hc
          simp [isPrefix, List.isPrefixOf_iff_prefix.mpr hp, hs]
        | succ j =>
          have := litPass_matches_nothing lits0 row r rest (id + 1) h j l' (by simpa using hj)
            (by rw [← hs]; congr 2; omega)
          exact this

/-! ### 1. hypotheses; one pass over the literal table of a within-word automaton -/

/-- `T` are the tables of the within-word automaton `s`, for some order of the literal table that lists
every `(literal, description)` pair a transition of `s` carries (bash.rs writes no within-word tables
inside a within-word function: `subId := fun _ => none`) -/
def SubOf (T : BashRt.Tables) (s : Auto) : Prop :=
  ∃ lits cmds, T = ofAutoWith lits s cmds (fun _ => none) ∧
    ∀ q txt d lvl t, HasEdge s q (.lit txt d lvl) t → (txt, d) ∈ lits

theorem subOf_ofAuto (s : Auto) (cmds : List String) : SubOf (ofAuto s cmds fun _ => none) s :=
  ⟨sortedLits s, cmds, rfl, fun _ _ _ _ _ he => sortedLits_cover_edge he⟩

/-- the tables of a within-word automaton, seen as the main tables of a script: the embedding facts of
`Proofs/TemplateDfa.lean` apply -/
theorem mainOf_of_subOf {T : BashRt.Tables} {s : Auto} (h : SubOf T s) (out : Nat → List String) :
    MainOf { main := T, subs := [], out := out } s := by
  obtain ⟨lits, cmds, hT, hcov⟩ := h
  exact ⟨lits, cmds, fun _ => none, hT, hcov⟩

/-- no literal transition out of `q` carries the empty text -/
def LitNonEmptyAt (s : Auto) (q : Nat) : Prop :=
  ∀ txt d l t, HasEdge s q (.lit txt d l) t → txt ≠ ""

/-- the texts of the literal transitions out of `q` are prefix-free among themselves: when one is a
prefix of another, they are the same text -/
def PrefixFreeAt (s : Auto) (q : Nat) : Prop :=
  ∀ x d l t y d' l' t', HasEdge s q (.lit x d l) t → HasEdge s q (.lit y d' l') t' →
    x.toList <+: y.toList → x = y

/-- the first half of one round of `subLoop`: the pass over the literal table with the row of `q` -/
def litStep (T : BashRt.Tables) (mode : Mode) (q : Nat) (r : List Char) : Step :=
  match rowOf T.litTrans q with
  | some row => litPass mode T.literals row r 0 T.literals
  | none => .nothing

section step
variable {T : BashRt.Tables} {s : Auto}

theorem litStep_ne_stop (T : BashRt.Tables) (q : Nat) (r : List Char) : litStep T .matchesMode q r ≠ .stop := by
  unfold litStep
  cases rowOf T.litTrans q with
  | none => simp
  | some row => exact litPass_matches_ne_stop _ _ _ _ _

/-- **1a.** What the pass consumes at `q` is the text of a literal transition out of `q`, a prefix of
the remaining text; the state it moves to is that transition's target.  (Literals of the table that
are not expected at `q` have no entry in the row of `q` and are skipped.)  No hypothesis on `s`. -/
theorem litStep_sound (h : SubOf T s) {q : Nat} {r : List Char} {t n : Nat}
    (hs : litStep T .matchesMode q r = .consumed t n) :
    ∃ txt d l, HasEdge s q (.lit txt d l) t ∧ txt.toList <+: r ∧ n = txt.length := by
  unfold litStep at hs
  cases hr : rowOf T.litTrans q with
  | none => simp [hr] at hs
  | some row =>
    simp only [hr] at hs
    obtain ⟨j, l, hj, ht, hp, hn⟩ := litPass_matches_consumed _ _ _ _ _ _ _ hs
    simp only [Nat.zero_add] at ht
    obtain ⟨txt, d, lvl, he, hname⟩ :=
      lit_row_backward (mainOf_of_subOf h fun _ => []) (q := q) hr (mem_of_toOf ht)
    simp only at hname
    rw [hj] at hname
    simp only [Option.some.injEq] at hname
    subst hname
    exact ⟨l, d, lvl, he, hp, hn⟩

/-- **1b.** The pass finds nothing only when no literal transition out of `q` has a text that is a
prefix of the remaining text. -/
theorem litStep_nothing (h : SubOf T s) {q : Nat} {r : List Char} (hdet : WordDetAt s q)
    (hs : litStep T .matchesMode q r = .nothing) {txt : String} {d : Option String} {l t : Nat}
    (he : HasEdge s q (.lit txt d l) t) : ¬ txt.toList <+: r := by
  obtain ⟨k, hk, _, hrow⟩ := lit_forward (mainOf_of_subOf h fun _ => []) he
  obtain ⟨row, hr, ht⟩ := hrow (litDetAt_of_wordDetAt hdet)
  simp only at hk hr
  unfold litStep at hs
  simp only [hr] at hs
  exact litPass_matches_nothing _ _ _ _ _ hs k txt hk (by simp [ht])

/-- **1 (`litPass_step`).** At a state whose literal transitions with one text agree on the target and
whose literal texts are prefix-free among themselves, the pass consumes `n` characters and moves to `t`
exactly when some literal transition `q --txt--> t` has `txt` a prefix of the remaining text and
`n = txt.length` (that transition's text and target are unique). -/
theorem litStep_consumed_iff (h : SubOf T s) {q : Nat} (hdet : WordDetAt s q) (hpf : PrefixFreeAt s q)
    (r : List Char) (t n : Nat) :
    litStep T .matchesMode q r = .consumed t n ↔
      ∃ txt d l, HasEdge s q (.lit txt d l) t ∧ txt.toList <+: r ∧ n = txt.length := by
  constructor
  · exact litStep_sound h
  · rintro ⟨txt, d, l, he, hp, rfl⟩
    cases hs : litStep T .matchesMode q r with
    | stop => exact absurd hs (litStep_ne_stop T q r)
    | nothing => exact absurd hp (litStep_nothing h hdet hs he)
    | consumed t' n' =>
      obtain ⟨txt', d', l', he', hp', rfl⟩ := litStep_sound h hs
      have heq : txt = txt' := by
        rcases Nat.le_total txt.toList.length txt'.toList.length with hle | hle
        · exact hpf _ _ _ _ _ _ _ _ he he' (List.prefix_of_prefix_length_le hp hp' hle)
        · exact (hpf _ _ _ _ _ _ _ _ he' he (List.prefix_of_prefix_length_le hp' hp hle)).symm
      subst heq
      rw [hdet _ _ _ _ _ _ _ he he']

/-- … and it finds nothing exactly when no literal transition out of `q` has a text that is a prefix of
the remaining text (`WordDetAt` only: prefix-freeness is not needed here). -/
theorem litStep_nothing_iff (h : SubOf T s) {q : Nat} (hdet : WordDetAt s q) (r : List Char) :
    litStep T .matchesMode q r = .nothing ↔
      ∀ txt d l t, HasEdge s q (.lit txt d l) t → ¬ txt.toList <+: r := by
  constructor
  · intro hs txt d l t he
    exact litStep_nothing h hdet hs he
  · intro hno
    cases hs : litStep T .matchesMode q r with
    | stop => exact absurd hs (litStep_ne_stop T q r)
    | nothing => rfl
    | consumed t n =>
      obtain ⟨txt, d, l, he, hp, _⟩ := litStep_sound h hs
      exact absurd hp (hno txt d l t he)

/-- the same, on `litPass` itself with the row of `q` (the statement as asked) -/
theorem litPass_step (h : SubOf T s) {q : Nat} (hdet : WordDetAt s q) (hpf : PrefixFreeAt s q)
    {row : List (Nat × Nat)} (hr : rowOf T.litTrans q = some row) (r : List Char) :
    (∀ t n, litPass .matchesMode T.literals row r 0 T.literals = .consumed t n ↔
      ∃ txt d l, HasEdge s q (.lit txt d l) t ∧ txt.toList <+: r ∧ n = txt.length) ∧
    (litPass .matchesMode T.literals row r 0 T.literals = .nothing ↔
      ∀ txt d l t, HasEdge s q (.lit txt d l) t → ¬ txt.toList <+: r) ∧
    litPass .matchesMode T.literals row r 0 T.literals ≠ .stop := by
  have e : litStep T .matchesMode q r = litPass .matchesMode T.literals row r 0 T.literals := by
    unfold litStep; rw [hr]
  rw [← e]
  exact ⟨litStep_consumed_iff h hdet hpf r, litStep_nothing_iff h hdet r, litStep_ne_stop T q r⟩

/-- a state without a row has no literal transition (under `WordDetAt`) -/
theorem no_edge_of_no_row (h : SubOf T s) {q : Nat} (hdet : WordDetAt s q)
    (hr : rowOf T.litTrans q = none) {txt : String} {d : Option String} {l t : Nat} :
    ¬ HasEdge s q (.lit txt d l) t := by
  intro he
  obtain ⟨k, _, _, hrow⟩ := lit_forward (mainOf_of_subOf h fun _ => []) he
  obtain ⟨row, hr', _⟩ := hrow (litDetAt_of_wordDetAt hdet)
  simp only at hr'
  rw [hr] at hr'
  cases hr'

end step

/-! ### 2. the matching loop -/

/-- the text `r` is the concatenation of the texts of a path of literal transitions from `q` to `t`
(any descriptions, any levels) -/
inductive SubPath (s : Auto) : Nat → List Char → Nat → Prop
  | nil (q : Nat) : SubPath s q [] q
  | cons {q q' t : Nat} {txt : String} {d : Option String} {l : Nat} {r : List Char} :
      HasEdge s q (.lit txt d l) q' → SubPath s q' r t → SubPath s q (txt.toList ++ r) t

/-- the second half of one round of `subLoop`: the candidates of the commands expected at `q` -/
def cmdStep (T : BashRt.Tables) (out : Nat → List String) (q : Nat) (r : List Char) : Step :=
  match rowOf T.cmdTrans q with
  | some row => cmdPass out r row
  | none => .nothing

/-- one round of `subLoop`, with its two passes named -/
theorem subLoop_succ (T : BashRt.Tables) (out : Nat → List String) (mode : Mode) (w : List Char)
    (fuel q i : Nat) : subLoop T out mode w (fuel + 1) q i =
      if i ≥ w.length then (q, i, true) else
      match litStep T mode q (w.drop i) with
      | .consumed q' n => if n = 0 then (q, i, false) else subLoop T out mode w fuel q' (i + n)
      | .stop => (q, i, false)
      | .nothing =>
        match cmdStep T out q (w.drop i) with
        | .consumed q' n => if n = 0 then (q, i, false) else subLoop T out mode w fuel q' (i + n)
        | .stop => (q, i, false)
        | .nothing => if (T.star.find? (·.1 == q)).isSome then (q, i, true) else (q, i, false) := rfl

section loop
variable {T : BashRt.Tables} {s : Auto}

/-- at a literal-only state the command pass finds nothing -/
theorem cmdStep_litOnly (h : SubOf T s) {q : Nat} (honly : LitOnlyAt s q) (out : Nat → List String)
    (r : List Char) : cmdStep T out q r = .nothing := by
  unfold cmdStep
  cases hr : rowOf T.cmdTrans q with
  | none => rfl
  | some row =>
    cases row with
    | nil => rfl
    | cons p rest =>
      obtain ⟨c, lvl, he⟩ :=
        cmd_row_backward (mainOf_of_subOf h out) (q := q) (k := p.1) (t := p.2) hr (by simp)
      obtain ⟨_, _, _, hx⟩ := honly _ _ he
      cases hx

/-- … and no "any word" transition is recorded -/
theorem star_litOnly (h : SubOf T s) {q : Nat} (honly : LitOnlyAt s q) :
    T.star.find? (·.1 == q) = none := by
  cases hf : T.star.find? (·.1 == q) with
  | none => rfl
  | some p =>
    have h1 := List.mem_of_find?_eq_some hf
    have h2 : p.1 = q := by simpa using List.find?_some hf
    have : (q, p.2) ∈ T.star := by rw [← h2]; exact h1
    obtain ⟨_, _, _, hx⟩ := honly _ _ (star_backward (mainOf_of_subOf h fun _ => []) this)
    cases hx

/-- one round at a literal-only state in `matches` mode -/
theorem subLoop_succ_litOnly (h : SubOf T s) {q : Nat} (honly : LitOnlyAt s q)
    (out : Nat → List String) (w : List Char) (fuel i : Nat) :
    subLoop T out .matchesMode w (fuel + 1) q i =
      if i ≥ w.length then (q, i, true) else
      match litStep T .matchesMode q (w.drop i) with
      | .consumed q' n => if n = 0 then (q, i, false) else subLoop T out .matchesMode w fuel q' (i + n)
      | _ => (q, i, false) := by
  rw [subLoop_succ, cmdStep_litOnly h honly, star_litOnly h honly]
  cases litStep T .matchesMode q (w.drop i) <;> rfl

theorem subPath_nil_inv {q t : Nat} (hne : ∀ q, LitNonEmptyAt s q) (hp : SubPath s q [] t) : t = q := by
  generalize hr : ([] : List Char) = r at hp
  cases hp with
  | nil => rfl
  | cons he _ =>
    have : (_ : String).toList = [] := (List.append_eq_nil_iff.mp hr.symm).1
    exact absurd (String.toList_eq_nil_iff.mp this) (hne _ _ _ _ _ he)

theorem drop_of_prefix {txt w : List Char} {i : Nat} (hi : i ≤ w.length) (hp : txt <+: w.drop i) :
    w.drop i = txt ++ w.drop (i + txt.length) ∧ i + txt.length ≤ w.length := by
  obtain ⟨r', hr'⟩ := hp
  have hlen := congrArg List.length hr'
  simp only [List.length_append, List.length_drop] at hlen
  refine ⟨?_, ?_⟩
  · rw [← List.drop_drop, ← hr', List.drop_left]
  · omega

/-- **2a.** When the loop reports a match it has consumed the whole word along a path of literal
transitions (no determinism, no prefix-freeness needed). -/
theorem subLoop_sound (h : SubOf T s) (honly : ∀ q, LitOnlyAt s q) (out : Nat → List String)
    (w : List Char) : ∀ (fuel q i : Nat), i ≤ w.length →
      (subLoop T out .matchesMode w fuel q i).2.2 = true →
      (subLoop T out .matchesMode w fuel q i).2.1 = w.length ∧
        SubPath s q (w.drop i) (subLoop T out .matchesMode w fuel q i).1
  | 0, q, i, _, hm => by simp [subLoop] at hm
  | fuel + 1, q, i, hi, hm => by
    rw [subLoop_succ_litOnly h (honly q)] at hm ⊢
    by_cases hge : i ≥ w.length
    · simp only [hge, if_true]
      have : i = w.length := by omega
      subst this
      simp only [List.drop_length, true_and]
      exact .nil q
    · simp only [hge, if_false] at hm ⊢
      cases hs : litStep T .matchesMode q (w.drop i) with
      | stop => simp [hs] at hm
      | nothing => simp [hs] at hm
      | consumed q' n =>
        simp only [hs] at hm ⊢
        by_cases hn : n = 0
        · simp [hn] at hm
        · simp only [hn, if_false] at hm ⊢
          obtain ⟨txt, d, l, he, hp, rfl⟩ := litStep_sound h hs
          obtain ⟨hd, hle⟩ := drop_of_prefix hi hp
          rw [String.length_toList] at hd hle
          obtain ⟨h1, h2⟩ := subLoop_sound h honly out w fuel q' (i + txt.length) hle hm
          refine ⟨h1, ?_⟩
          rw [hd]
          exact .cons he h2

/-- **2b.** A path of literal transitions spelling the rest of the word is followed to its end, with
enough fuel (one round per literal, and one to see the end of the word). -/
theorem subLoop_complete (h : SubOf T s) (honly : ∀ q, LitOnlyAt s q) (hne : ∀ q, LitNonEmptyAt s q)
    (hpf : ∀ q, PrefixFreeAt s q) (hdet : ∀ q, WordDetAt s q) (out : Nat → List String)
    (w : List Char) : ∀ (fuel q i t : Nat), i ≤ w.length → w.length - i < fuel →
      SubPath s q (w.drop i) t → subLoop T out .matchesMode w fuel q i = (t, w.length, true)
  | 0, _, _, _, _, hf, _ => by omega
  | fuel + 1, q, i, t, hi, hf, hp => by
    rw [subLoop_succ_litOnly h (honly q)]
    by_cases hge : i ≥ w.length
    · simp only [hge, if_true]
      have : i = w.length := by omega
      subst this
      rw [List.drop_length] at hp
      rw [subPath_nil_inv hne hp]
    · simp only [hge, if_false]
      generalize hr : w.drop i = r at hp
      cases hp with
      | nil =>
        have := congrArg List.length hr
        simp only [List.length_drop, List.length_nil] at this
        omega
      | @cons _ q' _ txt d l r' he hp' =>
        have hpre : txt.toList <+: w.drop i := by rw [hr]; exact List.prefix_append _ _
        have hs : litStep T .matchesMode q (w.drop i) = .consumed q' txt.length :=
          (litStep_consumed_iff h (hdet q) (hpf q) _ _ _).mpr ⟨txt, d, l, he, hpre, rfl⟩
        rw [← hr, hs]
        have hn : txt.length ≠ 0 := by
          intro h0
          exact hne _ _ _ _ _ he (String.length_eq_zero_iff.mp h0)
        simp only [hn, if_false]
        obtain ⟨hd, hle⟩ := drop_of_prefix hi hpre
        rw [String.length_toList] at hd hle
        have hr' : r' = w.drop (i + txt.length) := by
          rw [hd] at hr
          exact (List.append_cancel_left hr).symm
        apply subLoop_complete h honly hne hpf hdet out w fuel q' (i + txt.length) t hle (by omega)
        rw [← hr']
        exact hp'

/-- **2 (`subLoop_run`).** On a literal-only within-word automaton with non-empty, prefix-free literals
and one target per text, with enough fuel (`w.length - i + 1`; `w.length + 1` from the start): the loop
ends in `t` having consumed the whole word with a match exactly when the rest of the word spells a path
of literal transitions from `q` to `t` … -/
theorem subLoop_run (h : SubOf T s) (honly : ∀ q, LitOnlyAt s q) (hne : ∀ q, LitNonEmptyAt s q)
    (hpf : ∀ q, PrefixFreeAt s q) (hdet : ∀ q, WordDetAt s q) (out : Nat → List String)
    (w : List Char) (fuel q i t : Nat) (hi : i ≤ w.length) (hf : w.length - i < fuel) :
    subLoop T out .matchesMode w fuel q i = (t, w.length, true) ↔ SubPath s q (w.drop i) t := by
  constructor
  · intro he
    have := subLoop_sound h honly out w fuel q i hi (by rw [he])
    rw [he] at this
    exact this.2
  · exact subLoop_complete h honly hne hpf hdet out w fuel q i t hi hf

/-- … and otherwise it reports no match. -/
theorem subLoop_run_false (h : SubOf T s) (honly : ∀ q, LitOnlyAt s q) (out : Nat → List String)
    (w : List Char) (fuel q i : Nat) (hi : i ≤ w.length) (hno : ¬ ∃ t, SubPath s q (w.drop i) t) :
    (subLoop T out .matchesMode w fuel q i).2.2 = false := by
  cases hm : (subLoop T out .matchesMode w fuel q i).2.2 with
  | false => rfl
  | true => exact absurd ⟨_, (subLoop_sound h honly out w fuel q i hi hm).2⟩ hno

/-- the match flag alone -/
theorem subLoop_matched_iff (h : SubOf T s) (honly : ∀ q, LitOnlyAt s q) (hne : ∀ q, LitNonEmptyAt s q)
    (hpf : ∀ q, PrefixFreeAt s q) (hdet : ∀ q, WordDetAt s q) (out : Nat → List String)
    (w : List Char) (fuel q i : Nat) (hi : i ≤ w.length) (hf : w.length - i < fuel) :
    (subLoop T out .matchesMode w fuel q i).2.2 = true ↔ ∃ t, SubPath s q (w.drop i) t := by
  constructor
  · intro hm
    exact ⟨_, (subLoop_sound h honly out w fuel q i hi hm).2⟩
  · rintro ⟨t, hp⟩
    rw [subLoop_complete h honly hne hpf hdet out w fuel q i t hi hf hp]

/-- the paths are deterministic: one end state per text -/
theorem subPath_unique (h : SubOf T s) (honly : ∀ q, LitOnlyAt s q) (hne : ∀ q, LitNonEmptyAt s q)
    (hpf : ∀ q, PrefixFreeAt s q) (hdet : ∀ q, WordDetAt s q) {q : Nat} {r : List Char} {t t' : Nat}
    (h1 : SubPath s q r t) (h2 : SubPath s q r t') : t = t' := by
  have e1 := subLoop_complete h honly hne hpf hdet (fun _ => []) r (r.length + 1) q 0 t
    (Nat.zero_le _) (by omega) (by simpa using h1)
  have e2 := subLoop_complete h honly hne hpf hdet (fun _ => []) r (r.length + 1) q 0 t'
    (Nat.zero_le _) (by omega) (by simpa using h2)
  rw [e1] at e2
  simpa using e2

/-! ### 3. the function -/

/-- **3 (`subMatches_iff`).** `_<cmd>_subword matches word` succeeds exactly when the word spells a path
of literal transitions from the start state (state 0 after the renumbering: `s.start = 0`) — to ANY
state: the template does not look at accepting states. -/
theorem subMatches_iff (h : SubOf T s) (hstart : s.start = 0) (honly : ∀ q, LitOnlyAt s q)
    (hne : ∀ q, LitNonEmptyAt s q) (hpf : ∀ q, PrefixFreeAt s q) (hdet : ∀ q, WordDetAt s q)
    (out : Nat → List String) (word : String) :
    subMatches T out word = true ↔ ∃ t, SubPath s s.start word.toList t := by
  unfold subMatches
  rw [hstart, ← String.length_toList]
  have := subLoop_matched_iff h honly hne hpf hdet out word.toList (word.toList.length + 1) 0 0
    (Nat.zero_le _) (by omega)
  simpa using this

end loop

/-! ### 4. `complete` mode -/

/-- what the pass consumes, in any mode -/
theorem litPass_consumed (mode : Mode) (lits0 : List String) (row : List (Nat × Nat)) (r : List Char) (t n : Nat) :
    ∀ (rest : List String) (id : Nat), litPass mode lits0 row r id rest = .consumed t n →
      ∃ j l, rest[j]? = some l ∧ toOf row (id + j) = some t ∧ l.toList <+: r ∧ n = l.length
  | [], _, h => by simp [litPass] at h
  | l :: rest, id, h => by
    unfold litPass at h
    dsimp only at h
    split at h
    · rename_i hc
      simp only [Bool.and_eq_true, beq_iff_eq] at hc
      simp only [Step.consumed.injEq] at h
      obtain ⟨ht, hn⟩ := h
      refine ⟨0, l, rfl, ?_, ?_, ?_⟩
      · cases hto : toOf row id with
        | none => simp [hto] at hc
        | some t' => simp [hto] at ht; simp [ht]
      · rw [hc.1]; exact List.prefix_refl _
      · rw [← hn, String.length_toList]
    · split at h
      · simp at h
      · split at h
        · rename_i _ _ hc
          simp only [Bool.and_eq_true] at hc
          simp only [Step.consumed.injEq] at h
          obtain ⟨ht, hn⟩ := h
          refine ⟨0, l, rfl, ?_, ?_, ?_⟩
          · cases hto : toOf row id with
            | none => simp [hto] at hc
            | some t' => simp [hto] at ht; simp [ht]
          · exact List.isPrefixOf_iff_prefix.mp hc.1
          · rw [← hn, String.length_toList]
        · obtain ⟨j, l', hj, ht, hp, hn⟩ := litPass_consumed mode lits0 row r t n rest (id + 1) h
          exact ⟨j + 1, l', by simpa using hj, by rw [← ht]; congr 1; omega, hp, hn⟩

/-- where the pass stops: at a literal with an entry in the row that the text is a proper prefix of -/
theorem litPass_stop (mode : Mode) (lits0 : List String) (row : List (Nat × Nat)) (r : List Char) :
    ∀ (rest : List String) (id : Nat), litPass mode lits0 row r id rest = .stop →
      ∃ j l, rest[j]? = some l ∧ (toOf row (id + j)).isSome = true ∧ r <+: l.toList ∧ r ≠ l.toList
  | [], _, h => by simp [litPass] at h
  | l :: rest, id, h => by
    unfold litPass at h
    dsimp only at h
    split at h
    · simp at h
    · split at h
      · rename_i hc1 hc
        simp only [Bool.and_eq_true] at hc
        refine ⟨0, l, rfl, hc.1.2, List.isPrefixOf_iff_prefix.mp hc.2, ?_⟩
        intro e
        apply hc1
        simp [e, hc.1.2]
      · split at h
        · simp at h
        · obtain ⟨j, l', hj, ht, hp, hn⟩ := litPass_stop mode lits0 row r rest (id + 1) h
          exact ⟨j + 1, l', by simpa using hj, by rw [← ht]; congr 2; omega, hp, hn⟩

/-- when the pass finds nothing, no literal with an entry in the row is a prefix of the text -/
theorem litPass_nothing (mode : Mode) (lits0 : List String) (row : List (Nat × Nat)) (r : List Char) :
    ∀ (rest : List String) (id : Nat), litPass mode lits0 row r id rest = .nothing →
      ∀ j l, rest[j]? = some l → (toOf row (id + j)).isSome = true → ¬ l.toList <+: r
  | [], _, _, j, l, hj, _ => by simp at hj
  | l :: rest, id, h, j, l', hj, hs => by
    unfold litPass at h
    dsimp only at h
    split at h
    · simp at h
    · split at h
      · simp at h
      · split at h
        · simp at h
        · rename_i _ _ hc
          cases j with
          | zero =>
            simp only [List.getElem?_cons_zero, Option.some.injEq] at hj
            subst hj
            simp only [Nat.add_zero] at hs
            intro hp
            apply hc
            simp [isPrefix, List.isPrefixOf_iff_prefix.mpr hp, hs]
          | succ j =>
            exact litPass_nothing mode lits0 row r rest (id + 1) h j l' (by simpa using hj)
              (by rw [← hs]; congr 2; omega)

/-- … and, in `complete` mode, the text is a prefix of none of them -/
theorem litPass_complete_nothing (lits0 : List String) (row : List (Nat × Nat)) (r : List Char) :
    ∀ (rest : List String) (id : Nat), litPass .complete lits0 row r id rest = .nothing →
      ∀ j l, rest[j]? = some l → (toOf row (id + j)).isSome = true → ¬ r <+: l.toList
  | [], _, _, j, l, hj, _ => by simp at hj
  | l :: rest, id, h, j, l', hj, hs => by
    unfold litPass at h
    dsimp only at h
    split at h
    · simp at h
    · split at h
      · simp at h
      · split at h
        · simp at h
        · rename_i _ hc _
          cases j with
          | zero =>
            simp only [List.getElem?_cons_zero, Option.some.injEq] at hj
            subst hj
            simp only [Nat.add_zero] at hs
            intro hp
            apply hc
            simp [isPrefix, List.isPrefixOf_iff_prefix.mpr hp, hs]
          | succ j =>
            exact litPass_complete_nothing lits0 row r rest (id + 1) h j l' (by simpa using hj)
              (by rw [← hs]; congr 2; omega)

section completeMode
variable {T : BashRt.Tables} {s : Auto}

/-- what the pass consumes at `q`, in any mode, is the text of a literal transition out of `q` -/
theorem litStep_sound' (h : SubOf T s) {mode : Mode} {q : Nat} {r : List Char} {t n : Nat}
    (hs : litStep T mode q r = .consumed t n) :
    ∃ txt d l, HasEdge s q (.lit txt d l) t ∧ txt.toList <+: r ∧ n = txt.length := by
  unfold litStep at hs
  cases hr : rowOf T.litTrans q with
  | none => simp [hr] at hs
  | some row =>
    simp only [hr] at hs
    obtain ⟨j, l, hj, ht, hp, hn⟩ := litPass_consumed _ _ _ _ _ _ _ _ hs
    simp only [Nat.zero_add] at ht
    obtain ⟨txt, d, lvl, he, hname⟩ :=
      lit_row_backward (mainOf_of_subOf h fun _ => []) (q := q) hr (mem_of_toOf ht)
    simp only at hname
    rw [hj] at hname
    simp only [Option.some.injEq] at hname
    subst hname
    exact ⟨l, d, lvl, he, hp, hn⟩

/-- where the pass stops at `q`: the text is a proper prefix of a literal expected at `q` -/
theorem litStep_stop (h : SubOf T s) {mode : Mode} {q : Nat} {r : List Char}
    (hs : litStep T mode q r = .stop) :
    ∃ txt d l t, HasEdge s q (.lit txt d l) t ∧ r <+: txt.toList ∧ r ≠ txt.toList := by
  unfold litStep at hs
  cases hr : rowOf T.litTrans q with
  | none => simp [hr] at hs
  | some row =>
    simp only [hr] at hs
    obtain ⟨j, l, hj, ht, hp, hn⟩ := litPass_stop _ _ _ _ _ _ hs
    simp only [Nat.zero_add] at ht
    obtain ⟨t, ht'⟩ := Option.isSome_iff_exists.mp ht
    obtain ⟨txt, d, lvl, he, hname⟩ :=
      lit_row_backward (mainOf_of_subOf h fun _ => []) (q := q) hr (mem_of_toOf ht')
    simp only at hname
    rw [hj] at hname
    simp only [Option.some.injEq] at hname
    subst hname
    exact ⟨l, d, lvl, t, he, hp, hn⟩

/-- when the pass finds nothing at `q`, no literal expected at `q` is a prefix of the text -/
theorem litStep_nothing' (h : SubOf T s) {mode : Mode} {q : Nat} {r : List Char} (hdet : WordDetAt s q)
    (hs : litStep T mode q r = .nothing) {txt : String} {d : Option String} {l t : Nat}
    (he : HasEdge s q (.lit txt d l) t) : ¬ txt.toList <+: r := by
  obtain ⟨k, hk, _, hrow⟩ := lit_forward (mainOf_of_subOf h fun _ => []) he
  obtain ⟨row, hr, ht⟩ := hrow (litDetAt_of_wordDetAt hdet)
  simp only at hk hr
  unfold litStep at hs
  simp only [hr] at hs
  exact litPass_nothing _ _ _ _ _ _ hs k txt hk (by simp [ht])

/-- one round at a literal-only state, any mode -/
theorem subLoop_succ_litOnly' (h : SubOf T s) {q : Nat} (honly : LitOnlyAt s q)
    (out : Nat → List String) (mode : Mode) (w : List Char) (fuel i : Nat) :
    subLoop T out mode w (fuel + 1) q i =
      if i ≥ w.length then (q, i, true) else
      match litStep T mode q (w.drop i) with
      | .consumed q' n => if n = 0 then (q, i, false) else subLoop T out mode w fuel q' (i + n)
      | _ => (q, i, false) := by
  rw [subLoop_succ, cmdStep_litOnly h honly, star_litOnly h honly]
  cases litStep T mode q (w.drop i) <;> rfl

theorem SubPath.snoc {q0 q q' : Nat} {a : List Char} {txt : String} {d : Option String} {l : Nat}
    (hp : SubPath s q0 a q) (he : HasEdge s q (.lit txt d l) q') : SubPath s q0 (a ++ txt.toList) q' := by
  induction hp with
  | nil q =>
    have := SubPath.cons he (SubPath.nil q')
    simpa using this
  | cons he' _ ih =>
    rw [List.append_assoc]
    exact .cons he' (ih he)

/-- `q` at position `i` is where reading `w` from `q0` ends: the first `i` characters spell a path of
literal transitions from `q0` to `q`, and no literal expected at `q` is a prefix of the rest (unless the
word is used up) -/
def ReadsTo (s : Auto) (q0 : Nat) (w : List Char) (q i : Nat) : Prop :=
  SubPath s q0 (w.take i) q ∧ i ≤ w.length ∧
    (i < w.length → ∀ txt d l t, HasEdge s q (.lit txt d l) t → ¬ txt.toList <+: w.drop i)

/-- **4a.** In `complete` mode the loop reads as far as literal transitions go: it ends in the state and
at the position where reading the word ends (the longest readable part, by prefix-freeness). -/
theorem subLoop_complete_mode (h : SubOf T s) (honly : ∀ q, LitOnlyAt s q) (hne : ∀ q, LitNonEmptyAt s q)
    (hpf : ∀ q, PrefixFreeAt s q) (hdet : ∀ q, WordDetAt s q) (out : Nat → List String)
    (w : List Char) (q0 : Nat) : ∀ (fuel q i : Nat), i ≤ w.length → w.length - i < fuel →
      SubPath s q0 (w.take i) q →
      ReadsTo s q0 w (subLoop T out .complete w fuel q i).1 (subLoop T out .complete w fuel q i).2.1
  | 0, _, _, _, hf, _ => by omega
  | fuel + 1, q, i, hi, hf, hp => by
    rw [subLoop_succ_litOnly' h (honly q)]
    by_cases hge : i ≥ w.length
    · simp only [hge, if_true]
      exact ⟨hp, hi, fun hlt => by omega⟩
    · simp only [hge, if_false]
      cases hs : litStep T .complete q (w.drop i) with
      | stop =>
        refine ⟨hp, hi, fun _ txt d l t he hpre => ?_⟩
        obtain ⟨txt', d', l', t', he', hp', hne'⟩ := litStep_stop h hs
        have := hpf q _ _ _ _ _ _ _ _ he he' (hpre.trans hp')
        subst this
        exact hne' (hp'.eq_of_length_le hpre.length_le)
      | nothing =>
        exact ⟨hp, hi, fun _ txt d l t he => litStep_nothing' h (hdet q) hs he⟩
      | consumed q' n =>
        obtain ⟨txt, d, l, he, hpre, rfl⟩ := litStep_sound' h hs
        have hn : txt.length ≠ 0 := by
          intro h0
          exact hne _ _ _ _ _ he (String.length_eq_zero_iff.mp h0)
        simp only [hn, if_false]
        obtain ⟨hd, hle⟩ := drop_of_prefix hi hpre
        rw [String.length_toList] at hd hle
        apply subLoop_complete_mode h honly hne hpf hdet out w q0 fuel q' (i + txt.length) hle (by omega)
        rw [List.take_add, hd, ← String.length_toList, List.take_left]
        exact hp.snoc he

/-- a literal transition out of `q` at level `l` whose text extends the unread rest `r` of the word -/
def SubExt (s : Auto) (q : Nat) (r : List Char) (txt : String) (l : Nat) : Prop :=
  (∃ d t, HasEdge s q (.lit txt d l) t) ∧ r <+: txt.toList

/-- the candidates at a literal-only state of a within-word automaton: read part + text of the extending
literal transitions of the least level that has any -/
def SubCand (s : Auto) (q : Nat) (m : String) (r : List Char) (c : String) : Prop :=
  ∃ txt l, SubExt s q r txt l ∧ c = m ++ txt ∧ ∀ txt' l', SubExt s q r txt' l' → l ≤ l'

theorem mem_subLevelCands (h : SubOf T s) {q lvl : Nat} {m c : String} :
    c ∈ (idsAt T.litLevels lvl q).map (fun id => m ++ (T.literals[id]?.getD "")) ↔
      ∃ txt d t, HasEdge s q (.lit txt d lvl) t ∧ c = m ++ txt := by
  have hM := mainOf_of_subOf h fun _ => []
  rw [List.mem_map]
  constructor
  · rintro ⟨k, hk, rfl⟩
    obtain ⟨txt, d, t, he, hn⟩ := lit_level_backward hM (q := q) (lvl := lvl) hk
    simp only at hn
    exact ⟨txt, d, t, he, by rw [hn]; rfl⟩
  · rintro ⟨txt, d, t, he, rfl⟩
    obtain ⟨k, hk, hm, _⟩ := lit_forward hM he
    simp only at hk hm
    exact ⟨k, hm, by rw [hk]; rfl⟩

/-- the filter of `subComplete`: the whole word is a prefix of `read part ++ literal` exactly when the
unread rest is a prefix of the literal -/
theorem isPrefix_matched {w : List Char} {i : Nat} (txt : String) :
    isPrefix w (String.ofList (w.take i) ++ txt).toList = true ↔ w.drop i <+: txt.toList := by
  unfold isPrefix
  rw [List.isPrefixOf_iff_prefix, String.toList_append, String.toList_ofList]
  conv => lhs; lhs; rw [← List.take_append_drop i w]
  exact List.prefix_append_right_inj _

theorem subComplete_levels (h : SubOf T s) {q : Nat} (honly : LitOnlyAt s q) (out : Nat → List String)
    (w : List Char) (i : Nat) (c : String) :
    ∀ (fuel lvl : Nat) (cands : List String), fuel + lvl = T.maxLevel + 1 →
      (∀ x ∈ cands, isPrefix w x.toList = false) →
      (∀ txt l, SubExt s q (w.drop i) txt l → lvl ≤ l) →
      (c ∈ subComplete.levels T out w q (String.ofList (w.take i)) (w.drop i) fuel lvl cands ↔
        SubCand s q (String.ofList (w.take i)) (w.drop i) c)
  | 0, lvl, cands, hf, _, hlow => by
    have hM := mainOf_of_subOf h fun _ => []
    simp only [subComplete.levels, List.not_mem_nil, false_iff]
    rintro ⟨txt, l, hext, _, _⟩
    have h2 := hlow txt l hext
    obtain ⟨⟨d, t, he⟩, _⟩ := hext
    have h1 := level_le_max hM he
    simp only at h1
    omega
  | fuel + 1, lvl, cands, hf, hc, hlow => by
    have hM := mainOf_of_subOf h fun _ => []
    have hcmd : idsAt T.cmdLevels lvl q = [] := by
      rw [List.eq_nil_iff_forall_not_mem]
      intro k hk
      obtain ⟨j, t, he⟩ := cmd_level_backward hM (q := q) (lvl := lvl) hk
      obtain ⟨_, _, _, hx⟩ := honly _ _ he
      cases hx
    have hm1 : ∀ x, x ∈ (cands ++ (idsAt T.litLevels lvl q).map
          (fun id => String.ofList (w.take i) ++ (T.literals[id]?.getD ""))).filter
          (fun c => isPrefix w c.toList) ↔
          ∃ txt, SubExt s q (w.drop i) txt lvl ∧ x = String.ofList (w.take i) ++ txt := by
      intro x
      rw [List.mem_filter, List.mem_append, mem_subLevelCands h]
      constructor
      · rintro ⟨hx | ⟨txt, d, t, he, rfl⟩, hpx⟩
        · rw [hc x hx] at hpx
          cases hpx
        · exact ⟨txt, ⟨⟨d, t, he⟩, (isPrefix_matched txt).mp hpx⟩, rfl⟩
      · rintro ⟨txt, ⟨⟨d, t, he⟩, hpx⟩, rfl⟩
        exact ⟨Or.inr ⟨txt, d, t, he, rfl⟩, (isPrefix_matched txt).mpr hpx⟩
    unfold subComplete.levels
    simp only [hcmd, List.flatMap_nil, List.append_nil]
    split
    · rename_i hne
      rw [hm1]
      constructor
      · rintro ⟨txt, hext, rfl⟩
        exact ⟨txt, lvl, hext, rfl, fun txt' l' h' => hlow txt' l' h'⟩
      · rintro ⟨txt, l, hext, rfl, hmin⟩
        have : ∃ y, y ∈ (cands ++ (idsAt T.litLevels lvl q).map
            (fun id => String.ofList (w.take i) ++ (T.literals[id]?.getD ""))).filter
            (fun c => isPrefix w c.toList) := by
          cases hl : (cands ++ (idsAt T.litLevels lvl q).map
            (fun id => String.ofList (w.take i) ++ (T.literals[id]?.getD ""))).filter
            (fun c => isPrefix w c.toList) with
          | nil => simp [hl] at hne
          | cons y _ => exact ⟨y, by simp⟩
        obtain ⟨y, hy⟩ := this
        obtain ⟨txt0, hext0, _⟩ := (hm1 y).mp hy
        have h1 := hmin txt0 lvl hext0
        have h2 := hlow txt l hext
        have : l = lvl := by omega
        subst this
        exact ⟨txt, hext, rfl⟩
    · rename_i hne
      have hnone : ∀ txt, ¬ SubExt s q (w.drop i) txt lvl := by
        intro txt hext
        have := (hm1 (String.ofList (w.take i) ++ txt)).mpr ⟨txt, hext, rfl⟩
        cases hl : (cands ++ (idsAt T.litLevels lvl q).map
            (fun id => String.ofList (w.take i) ++ (T.literals[id]?.getD ""))).filter
            (fun c => isPrefix w c.toList) with
        | nil => rw [hl] at this; cases this
        | cons y _ => simp [hl] at hne
      split
      · rename_i hge
        simp only [List.not_mem_nil, false_iff]
        rintro ⟨txt, l, hext, _, _⟩
        have h2 := hlow txt l hext
        obtain ⟨⟨d, t, he⟩, hpx⟩ := hext
        have h1 := level_le_max hM he
        simp only at h1
        have : l = lvl := by omega
        subst this
        exact hnone txt ⟨⟨d, t, he⟩, hpx⟩
      · rename_i hlt
        apply subComplete_levels h honly out w i c fuel (lvl + 1) _ (by omega)
        · intro x hx
          cases hpx : isPrefix w x.toList with
          | false => rfl
          | true =>
            rcases List.mem_append.mp hx with hx | hx
            · rw [hc x hx] at hpx
              cases hpx
            · obtain ⟨txt, d, t, he, rfl⟩ := (mem_subLevelCands h).mp hx
              exact absurd ⟨⟨d, t, he⟩, (isPrefix_matched txt).mp hpx⟩ (hnone txt)
        · intro txt l hext
          have h2 := hlow txt l hext
          have : l ≠ lvl := by
            rintro rfl
            exact hnone txt hext
          omega

theorem subComplete_eq (T : BashRt.Tables) (out : Nat → List String) (word : String) :
    subComplete T out word =
      subComplete.levels T out word.toList
        (subLoop T out .complete word.toList (word.toList.length + 1) 0 0).1
        (String.ofList (word.toList.take (subLoop T out .complete word.toList (word.toList.length + 1) 0 0).2.1))
        (word.toList.drop (subLoop T out .complete word.toList (word.toList.length + 1) 0 0).2.1)
        (T.maxLevel + 1) 0 [] := rfl

/-- **4 (`subComplete`).** On the same class: `_<cmd>_subword complete word` reads the word from the start
state as far as literal transitions go, to a state `q` at a position `i`, and offers — as a set — the
candidates `read part ++ txt` for the literal transitions `q --txt-->` whose text extends the unread rest
(`word[i..]` is a prefix of `txt`), at the least level that has one.  (When the whole word is readable,
`i = word.length` and every literal transition out of `q` of the least level is offered.) -/
theorem subComplete_mem (h : SubOf T s) (hstart : s.start = 0) (honly : ∀ q, LitOnlyAt s q)
    (hne : ∀ q, LitNonEmptyAt s q) (hpf : ∀ q, PrefixFreeAt s q) (hdet : ∀ q, WordDetAt s q)
    (out : Nat → List String) (word : String) :
    ∃ q i, ReadsTo s s.start word.toList q i ∧
      ∀ c, c ∈ subComplete T out word ↔
        SubCand s q (String.ofList (word.toList.take i)) (word.toList.drop i) c := by
  refine ⟨(subLoop T out .complete word.toList (word.toList.length + 1) 0 0).1,
    (subLoop T out .complete word.toList (word.toList.length + 1) 0 0).2.1, ?_, fun c => ?_⟩
  · rw [hstart]
    exact subLoop_complete_mode h honly hne hpf hdet out word.toList 0 _ 0 0 (Nat.zero_le _) (by omega)
      (by simpa using SubPath.nil 0)
  · rw [subComplete_eq]
    exact subComplete_levels h (honly _) out word.toList _ c _ 0 [] (by omega) (by simp)
      (by intros; omega)

end completeMode

/-! ### 5. prefix-freeness is needed for 2b / 3 (not for 2a)

`a` and `ab` are both expected at state 0, `bc` after `a`: the word `abc` spells the path
`0 --a--> 1 --bc--> 3`, but the pass over the literal table (longest first: `bc`, `ab`, `a`) consumes `ab`
at state 0, moves to 2 and is stuck: the greedy choice is never revised.  The literal table is written
out (`ofAutoWith`; every theorem above holds for every order); it is the order of `ofAuto`, as the
evaluation below shows. -/

def cexPF : Auto :=
  { start := 0, acc := [3], inputs := [.lit "a" none 0, .lit "ab" none 0, .lit "bc" none 0],
    trans := [(0, 0, 1), (0, 1, 2), (1, 2, 3)] }

def cexPFTables : BashRt.Tables :=
  ofAutoWith [("bc", none), ("ab", none), ("a", none)] cexPF [] fun _ => none

/-- info: true -/
#guard_msgs in
#eval (ofAuto cexPF [] fun _ => none).literals == cexPFTables.literals

theorem cexPF_path : SubPath cexPF cexPF.start "abc".toList 3 := by
  have e1 : HasEdge cexPF 0 (.lit "a" none 0) 1 := ⟨0, by decide, by decide⟩
  have e2 : HasEdge cexPF 1 (.lit "bc" none 0) 3 := ⟨2, by decide, by decide⟩
  exact .cons e1 (.cons e2 (.nil 3))

theorem cexPF_no_match : subMatches cexPFTables (fun _ => []) "abc" = false := by decide

theorem cexPF_not_prefixFree : ¬ PrefixFreeAt cexPF 0 := by
  intro hpf
  have e1 : HasEdge cexPF 0 (.lit "a" none 0) 1 := ⟨0, by decide, by decide⟩
  have e2 : HasEdge cexPF 0 (.lit "ab" none 0) 2 := ⟨1, by decide, by decide⟩
  have := hpf _ _ _ _ _ _ _ _ e1 e2 (by decide)
  exact absurd this (by decide)

/-- **`subMatches_iff` is false without prefix-freeness**: a word that spells a path is not matched. -/
theorem subMatches_iff_needs_prefixFree :
    ¬ ∀ (T : BashRt.Tables) (s : Auto) (word : String), SubOf T s → s.start = 0 →
      (∃ t, SubPath s s.start word.toList t) → subMatches T (fun _ => []) word = true := by
  intro hall
  have hsub : SubOf cexPFTables cexPF := by
    refine ⟨_, _, rfl, ?_⟩
    rintro q txt d lvl t ⟨i, hi, hx⟩
    have hi' : (q, i, t) = (0, 0, 1) ∨ (q, i, t) = (0, 1, 2) ∨ (q, i, t) = (1, 2, 3) := by
      simpa [cexPF] using hi
    rcases hi' with hi' | hi' | hi' <;> simp only [Prod.mk.injEq] at hi' <;>
      obtain ⟨_, rfl, _⟩ := hi' <;> simp [cexPF] at hx <;> obtain ⟨rfl, rfl, _⟩ := hx <;> simp
  have := hall cexPFTables cexPF "abc" hsub rfl ⟨3, cexPF_path⟩
  rw [cexPF_no_match] at this
  cases this

/-! ### 6. the instance: the tables the emitter writes -/

section ofAuto
variable (s : Auto) (cmds : List String) (out : Nat → List String)

theorem ofAuto_subMatches_iff (hstart : s.start = 0) (honly : ∀ q, LitOnlyAt s q)
    (hne : ∀ q, LitNonEmptyAt s q) (hpf : ∀ q, PrefixFreeAt s q) (hdet : ∀ q, WordDetAt s q)
    (word : String) :
    subMatches (ofAuto s cmds fun _ => none) out word = true ↔ ∃ t, SubPath s s.start word.toList t :=
  subMatches_iff (subOf_ofAuto s cmds) hstart honly hne hpf hdet out word

theorem ofAuto_subComplete_mem (hstart : s.start = 0) (honly : ∀ q, LitOnlyAt s q)
    (hne : ∀ q, LitNonEmptyAt s q) (hpf : ∀ q, PrefixFreeAt s q) (hdet : ∀ q, WordDetAt s q)
    (word : String) :
    ∃ q i, ReadsTo s s.start word.toList q i ∧
      ∀ c, c ∈ subComplete (ofAuto s cmds fun _ => none) out word ↔
        SubCand s q (String.ofList (word.toList.take i)) (word.toList.drop i) c :=
  subComplete_mem (subOf_ofAuto s cmds) hstart honly hne hpf hdet out word

end ofAuto

end Complgen.SubwordDfa
