/-
**The tables of an emitted bash script embed exactly the compiled automaton.**

`T := Tables.ofAutoWith lits a cmds subId` (the model of `get_lookup_tables` + the data lines of bash.rs,
for ANY order `lits` of the literal table; `Tables.ofAuto` is the instance `lits := sortedLits a`).
-/
import Complgen.Model.Tables
import Complgen.Proofs.Hopcroft
namespace Complgen.Tables
open Complgen BashRt

/-- `a` has a transition `q --x--> t` (`x` the input the transition's index denotes) -/
def HasEdge (a : Auto) (q : Nat) (x : Inp) (t : Nat) : Prop :=
  ∃ i, (q, i, t) ∈ a.trans ∧ a.inputs[i]? = some x

/-! ### 0. lists -/

theorem mem_foldl_firstOcc {α} [DecidableEq α] {x : α} (l init : List α) :
    x ∈ l.foldl (fun acc y => if y ∈ acc then acc else acc ++ [y]) init ↔ x ∈ init ∨ x ∈ l := by
  induction l generalizing init with
  | nil => simp
  | cons y ys ih =>
    simp only [List.foldl_cons, ih, List.mem_cons]
    by_cases h : y ∈ init
    · simp only [h, if_true]
      constructor
      · rintro (h1 | h1)
        · exact Or.inl h1
        · exact Or.inr (Or.inr h1)
      · rintro (h1 | h1 | h1)
        · exact Or.inl h1
        · exact Or.inl (h1 ▸ h)
        · exact Or.inr h1
    · simp only [h, if_false, List.mem_append, List.mem_singleton]
      constructor
      · rintro ((h1 | h1) | h1)
        · exact Or.inl h1
        · exact Or.inr (Or.inl h1)
        · exact Or.inr (Or.inr h1)
      · rintro (h1 | h1 | h1)
        · exact Or.inl (Or.inl h1)
        · exact Or.inl (Or.inr h1)
        · exact Or.inr h1

theorem mem_firstOcc {α} [DecidableEq α] {x : α} {l : List α} : x ∈ firstOcc l ↔ x ∈ l := by
  unfold firstOcc
  rw [mem_foldl_firstOcc]
  simp

theorem mem_iterTrans {a : Auto} {e : Nat × Nat × Nat} : e ∈ iterTrans a ↔ e ∈ a.trans := by
  unfold iterTrans
  simp only [List.mem_flatMap, List.mem_filter, mem_firstOcc, List.mem_map]
  constructor
  · rintro ⟨q, _, h, _⟩
    exact h
  · intro h
    exact ⟨e.1, ⟨e, h, rfl⟩, h, by simp⟩

theorem mem_edges {a : Auto} {q : Nat} {x : Inp} {t : Nat} :
    (q, x, t) ∈ edges a ↔ HasEdge a q x t := by
  unfold edges HasEdge
  simp only [List.mem_filterMap, mem_iterTrans]
  constructor
  · rintro ⟨⟨q', i, t'⟩, hm, h⟩
    cases hi : a.inputs[i]? with
    | none => simp [hi] at h
    | some y =>
      simp only [hi, Option.map_some, Option.some.injEq, Prod.mk.injEq] at h
      obtain ⟨rfl, rfl, rfl⟩ := h
      exact ⟨i, hm, hi⟩
  · rintro ⟨i, hm, hi⟩
    exact ⟨(q, i, t), hm, by simp [hi]⟩

/-! ### 1. the numbering of literals and commands -/

theorem lastIdx_some {α} {p : α → Bool} : ∀ {l : List α} {k : Nat}, lastIdx p l = some k →
    ∃ x, l[k]? = some x ∧ p x = true
  | [], k, h => by simp [lastIdx] at h
  | x :: xs, k, h => by
    unfold lastIdx at h
    cases hr : lastIdx p xs with
    | some j =>
      simp only [hr, Option.some.injEq] at h
      obtain ⟨y, hy, hp⟩ := lastIdx_some hr
      subst h
      exact ⟨y, by simpa using hy, hp⟩
    | none =>
      simp only [hr] at h
      by_cases hp : p x = true
      · simp only [hp, if_true, Option.some.injEq] at h
        subst h
        exact ⟨x, by simp, hp⟩
      · simp [hp] at h

theorem lastIdx_exists {α} {p : α → Bool} : ∀ {l : List α} {x : α}, x ∈ l → p x = true →
    ∃ k, lastIdx p l = some k
  | [], x, h, _ => by simp at h
  | y :: ys, x, h, hp => by
    unfold lastIdx
    cases hr : lastIdx p ys with
    | some j => exact ⟨j + 1, rfl⟩
    | none =>
      rcases List.mem_cons.mp h with rfl | h'
      · exact ⟨0, by simp [hp]⟩
      · obtain ⟨k, hk⟩ := lastIdx_exists h' hp
        simp [hk] at hr

/-- the id of a literal transition names an entry with the same text and the same description (absent
= empty) -/
theorem litId_some {lits : List (String × Option String)} {t : String} {d : Option String} {k : Nat}
    (h : litId lits t d = some k) :
    ∃ d', lits[k]? = some (t, d') ∧ d'.getD "" = d.getD "" := by
  obtain ⟨⟨t', d'⟩, hk, hp⟩ := lastIdx_some h
  simp only [Bool.and_eq_true, beq_iff_eq] at hp
  obtain ⟨rfl, hd⟩ := hp
  exact ⟨d', hk, hd⟩

theorem litId_exists {lits : List (String × Option String)} {t : String} {d : Option String}
    (h : (t, d) ∈ lits) : ∃ k, litId lits t d = some k :=
  lastIdx_exists h (by simp)

theorem cmdId_some {cmds : List String} {c : String} {k : Nat} (h : cmdId cmds c = some k) :
    cmds[k]? = some c := by
  unfold cmdId at h
  by_cases hc : c ∈ cmds
  · simp only [hc, if_true, Option.some.injEq] at h
    subst h
    have hlt : cmds.idxOf c < cmds.length := List.idxOf_lt_length_iff.mpr hc
    rw [List.getElem?_eq_some_iff]
    exact ⟨hlt, List.getElem_idxOf hlt⟩
  · simp [hc] at h

theorem cmdId_exists {cmds : List String} {c : String} (h : c ∈ cmds) : ∃ k, cmdId cmds c = some k := by
  unfold cmdId
  exact ⟨cmds.idxOf c, by simp [h]⟩

theorem subIdOf_some {order : List Nat} {k j : Nat} (h : subIdOf order k = some j) :
    order[j]? = some k := by
  unfold subIdOf at h
  by_cases hc : k ∈ order
  · simp only [hc, if_true, Option.some.injEq] at h
    subst h
    have hlt : order.idxOf k < order.length := List.idxOf_lt_length_iff.mpr hc
    rw [List.getElem?_eq_some_iff]
    exact ⟨hlt, List.getElem_idxOf hlt⟩
  · simp [hc] at h

/-! ### 2. `BTreeMap` rows -/

theorem toOf_nil (k : Nat) : toOf [] k = none := rfl

theorem toOf_cons (p : Nat × Nat) (r : List (Nat × Nat)) (k : Nat) :
    toOf (p :: r) k = if p.1 = k then some p.2 else toOf r k := by
  unfold toOf
  by_cases h : p.1 = k
  · simp [h]
  · have : (p.1 == k) = false := by simpa using h
    simp [this, h]

theorem toOf_bInsert (k v : Nat) : ∀ (m : List (Nat × Nat)) (k' : Nat),
    toOf (bInsert k v m) k' = if k = k' then some v else toOf m k'
  | [], k' => by simp [bInsert, toOf_cons, toOf_nil]
  | (k1, v1) :: r, k' => by
    unfold bInsert
    by_cases h1 : k < k1
    · simp only [h1, if_true, toOf_cons]
    · simp only [h1, if_false]
      by_cases h2 : k = k1
      · subst h2
        simp only [if_true, toOf_cons]
        by_cases h3 : k = k' <;> simp [h3]
      · simp only [h2, if_false, toOf_cons, toOf_bInsert k v r k']
        by_cases h3 : k1 = k'
        · subst h3
          simp [h2]
        · simp [h3]

theorem mem_bInsert {k v : Nat} {p : Nat × Nat} : ∀ {m : List (Nat × Nat)},
    p ∈ bInsert k v m → p = (k, v) ∨ p ∈ m
  | [], h => by
    simp only [bInsert, List.mem_singleton] at h
    exact Or.inl h
  | (k1, v1) :: r, h => by
    unfold bInsert at h
    by_cases h1 : k < k1
    · simp only [h1, if_true, List.mem_cons] at h
      rcases h with h | h | h
      · exact Or.inl h
      · exact Or.inr (by simp [h])
      · exact Or.inr (by simp [h])
    · simp only [h1, if_false] at h
      by_cases h2 : k = k1
      · simp only [h2, if_true, List.mem_cons] at h
        rcases h with h | h
        · exact Or.inl (by simp [h, h2])
        · exact Or.inr (by simp [h])
      · simp only [h2, if_false, List.mem_cons] at h
        rcases h with h | h
        · exact Or.inr (by simp [h])
        · rcases mem_bInsert h with h | h
          · exact Or.inl h
          · exact Or.inr (by simp [h])

theorem mem_foldl_bInsert {p : Nat × Nat} : ∀ (l m : List (Nat × Nat)),
    p ∈ l.foldl (fun m p => bInsert p.1 p.2 m) m → p ∈ m ∨ p ∈ l
  | [], m, h => Or.inl h
  | x :: xs, m, h => by
    rw [List.foldl_cons] at h
    rcases mem_foldl_bInsert xs _ h with h | h
    · rcases mem_bInsert h with h | h
      · exact Or.inr (by simp [h])
      · exact Or.inl h
    · exact Or.inr (by simp [h])

/-- every entry of a collected row is one of the pairs -/
theorem mem_bOfList {p : Nat × Nat} {l : List (Nat × Nat)} (h : p ∈ bOfList l) : p ∈ l := by
  rcases mem_foldl_bInsert l [] h with h | h
  · simp at h
  · exact h

theorem toOf_foldl_bInsert {k v : Nat} : ∀ (l m : List (Nat × Nat)),
    (∀ p ∈ l, p.1 = k → p.2 = v) → (toOf m k = some v ∨ ∃ p ∈ l, p.1 = k) →
    toOf (l.foldl (fun m p => bInsert p.1 p.2 m) m) k = some v
  | [], m, _, h => by
    rcases h with h | ⟨p, hp, _⟩
    · exact h
    · simp at hp
  | x :: xs, m, hf, h => by
    rw [List.foldl_cons]
    apply toOf_foldl_bInsert xs
    · intro p hp
      exact hf p (by simp [hp])
    · rw [toOf_bInsert]
      by_cases hx : x.1 = k
      · left
        simp [hx, hf x (by simp) hx]
      · simp only [hx, if_false]
        rcases h with h | ⟨p, hp, hk⟩
        · exact Or.inl h
        · rcases List.mem_cons.mp hp with rfl | hp'
          · exact absurd hk hx
          · exact Or.inr ⟨p, hp', hk⟩

/-- when the pairs with id `k` agree on the target, the collected row sends `k` there -/
theorem toOf_bOfList {k v : Nat} {l : List (Nat × Nat)} (hm : (k, v) ∈ l)
    (hf : ∀ p ∈ l, p.1 = k → p.2 = v) : toOf (bOfList l) k = some v :=
  toOf_foldl_bInsert l [] hf (Or.inr ⟨(k, v), hm, rfl⟩)

theorem toOf_of_mem {k v : Nat} : ∀ {l : List (Nat × Nat)}, (k, v) ∈ l →
    (∀ p ∈ l, p.1 = k → p.2 = v) → toOf l k = some v
  | [], hm, _ => by simp at hm
  | x :: xs, hm, hf => by
    rw [toOf_cons]
    by_cases hx : x.1 = k
    · simp [hx, hf x (by simp) hx]
    · simp only [hx, if_false]
      rcases List.mem_cons.mp hm with rfl | hm'
      · exact absurd rfl hx
      · exact toOf_of_mem hm' fun p hp => hf p (by simp [hp])

theorem mem_of_toOf {k v : Nat} : ∀ {l : List (Nat × Nat)}, toOf l k = some v → (k, v) ∈ l
  | [], h => by simp [toOf_nil] at h
  | x :: xs, h => by
    rw [toOf_cons] at h
    by_cases hx : x.1 = k
    · simp only [hx, if_true, Option.some.injEq] at h
      have : x = (k, v) := by rw [← hx, ← h]
      simp [this]
    · simp only [hx, if_false] at h
      simp [mem_of_toOf h]

/-! ### 3. rows keyed by state -/

theorem find_rowsOf {β} (f : Nat → List β) (q : Nat) : ∀ (st : List Nat),
    ((rowsOf st f).find? (·.1 == q)).map (·.2) =
      if q ∈ st ∧ (f q).isEmpty = false then some (f q) else none
  | [] => by simp [rowsOf]
  | s :: st => by
    have ih := find_rowsOf f q st
    unfold rowsOf at ih ⊢
    rw [List.filterMap_cons]
    by_cases he : (f s).isEmpty = true
    · simp only [he, if_true]
      rw [ih]
      by_cases hq : q = s
      · subst hq
        simp [he]
      · simp [hq]
    · have he' : (f s).isEmpty = false := by simpa using he
      simp only [he', Bool.false_eq_true, if_false]
      by_cases hq : s = q
      · subst hq
        simp [he']
      · have : (s == q) = false := by simpa using hq
        rw [List.find?_cons]
        simp only [this]
        rw [ih]
        have hq' : ¬ q = s := fun h => hq h.symm
        simp [hq']

theorem rowOf_rowsOf (f : Nat → List (Nat × Nat)) (q : Nat) (st : List Nat) :
    rowOf (rowsOf st f) q = if q ∈ st ∧ (f q).isEmpty = false then some (f q) else none :=
  find_rowsOf f q st

theorem idsAt_levelsOf (n : Nat) (st : List Nat) (f : Nat → Nat → List Nat) (lvl q : Nat) :
    idsAt (levelsOf n st f) lvl q = if lvl < n ∧ q ∈ st then f lvl q else [] := by
  unfold idsAt levelsOf
  rw [List.getElem?_map]
  by_cases hl : lvl < n
  · rw [List.getElem?_range hl]
    simp only [Option.map_some, find_rowsOf]
    by_cases hq : q ∈ st
    · by_cases he : (f lvl q).isEmpty = false
      · simp [hl, hq, he]
      · have : f lvl q = [] := by simpa using he
        simp [hl, hq, this]
    · simp [hl, hq]
  · have : (List.range n)[lvl]? = none := by
      rw [List.getElem?_eq_none_iff]
      simpa using hl
    simp [hl]

/-! ### 4. what one transition contributes -/

theorem litPair_some {lits : List (String × Option String)} {q : Nat} {e : Nat × Inp × Nat}
    {p : Nat × Nat} (h : litPair lits q e = some p) :
    ∃ t d l, e = (q, .lit t d l, p.2) ∧ litId lits t d = some p.1 := by
  obtain ⟨q', x, t'⟩ := e
  unfold litPair at h
  by_cases hq : q' = q
  · subst hq
    cases x with
    | lit t d l =>
      simp only [if_true] at h
      cases hk : litId lits t d with
      | none => simp [hk] at h
      | some k =>
        simp only [hk, Option.map_some, Option.some.injEq] at h
        subst h
        exact ⟨t, d, l, rfl, hk⟩
    | _ => simp at h
  · simp [hq] at h

theorem cmdPair_some {cmds : List String} {q : Nat} {e : Nat × Inp × Nat}
    {p : Nat × Nat} (h : cmdPair cmds q e = some p) :
    ∃ c l, e = (q, .cmd c l, p.2) ∧ cmdId cmds c = some p.1 := by
  obtain ⟨q', x, t'⟩ := e
  unfold cmdPair at h
  by_cases hq : q' = q
  · subst hq
    cases x with
    | cmd c l =>
      simp only [if_true] at h
      cases hk : cmdId cmds c with
      | none => simp [hk] at h
      | some k =>
        simp only [hk, Option.map_some, Option.some.injEq] at h
        subst h
        exact ⟨c, l, rfl, hk⟩
    | _ => simp at h
  · simp [hq] at h

theorem subPair_some {subId : Nat → Option Nat} {q : Nat} {e : Nat × Inp × Nat}
    {p : Nat × Nat} (h : subPair subId q e = some p) :
    ∃ k l, e = (q, .sub k l, p.2) ∧ subId k = some p.1 := by
  obtain ⟨q', x, t'⟩ := e
  unfold subPair at h
  by_cases hq : q' = q
  · subst hq
    cases x with
    | sub k l =>
      simp only [if_true] at h
      cases hk : subId k with
      | none => simp [hk] at h
      | some j =>
        simp only [hk, Option.map_some, Option.some.injEq] at h
        subst h
        exact ⟨k, l, rfl, hk⟩
    | _ => simp at h
  · simp [hq] at h

theorem starPair_some {e : Nat × Inp × Nat} {p : Nat × Nat} (h : starPair e = some p) :
    e = (p.1, .star, p.2) := by
  obtain ⟨q', x, t'⟩ := e
  unfold starPair at h
  cases x with
  | star =>
    simp only [Option.some.injEq] at h
    subst h
    rfl
  | _ => simp at h

theorem litAt_some {lits : List (String × Option String)} {lvl q : Nat} {e : Nat × Inp × Nat}
    {k : Nat} (h : litAt lits lvl q e = some k) :
    ∃ t d to, e = (q, .lit t d lvl, to) ∧ litId lits t d = some k := by
  obtain ⟨q', x, t'⟩ := e
  unfold litAt at h
  by_cases hq : q' = q
  · subst hq
    cases x with
    | lit t d l =>
      simp only [if_true] at h
      by_cases hl : l = lvl
      · subst hl
        simp only [if_true] at h
        exact ⟨t, d, t', rfl, h⟩
      · simp [hl] at h
    | _ => simp at h
  · simp [hq] at h

theorem cmdAt_some {cmds : List String} {lvl q : Nat} {e : Nat × Inp × Nat}
    {k : Nat} (h : cmdAt cmds lvl q e = some k) :
    ∃ c to, e = (q, .cmd c lvl, to) ∧ cmdId cmds c = some k := by
  obtain ⟨q', x, t'⟩ := e
  unfold cmdAt at h
  by_cases hq : q' = q
  · subst hq
    cases x with
    | cmd c l =>
      simp only [if_true] at h
      by_cases hl : l = lvl
      · subst hl
        simp only [if_true] at h
        exact ⟨c, t', rfl, h⟩
      · simp [hl] at h
    | _ => simp at h
  · simp [hq] at h

theorem subAt_some {subId : Nat → Option Nat} {lvl q : Nat} {e : Nat × Inp × Nat}
    {j : Nat} (h : subAt subId lvl q e = some j) :
    ∃ k to, e = (q, .sub k lvl, to) ∧ subId k = some j := by
  obtain ⟨q', x, t'⟩ := e
  unfold subAt at h
  by_cases hq : q' = q
  · subst hq
    cases x with
    | sub k l =>
      simp only [if_true] at h
      by_cases hl : l = lvl
      · subst hl
        simp only [if_true] at h
        exact ⟨k, t', rfl, h⟩
      · simp [hl] at h
    | _ => simp at h
  · simp [hq] at h

/-! ### 5. the highest level -/

theorem le_foldl_max {x : Nat} : ∀ (l : List Nat) (m : Nat), (x ≤ m ∨ x ∈ l) → x ≤ l.foldl max m
  | [], m, h => by
    rcases h with h | h
    · exact h
    · simp at h
  | y :: ys, m, h => by
    rw [List.foldl_cons]
    apply le_foldl_max ys
    rcases h with h | h
    · exact Or.inl (by omega)
    · rcases List.mem_cons.mp h with rfl | h
      · exact Or.inl (by omega)
      · exact Or.inr h

theorem foldl_max_mem : ∀ (l : List Nat) (m : Nat), l.foldl max m = m ∨ l.foldl max m ∈ l
  | [], m => Or.inl rfl
  | y :: ys, m => by
    rw [List.foldl_cons]
    rcases foldl_max_mem ys (max m y) with h | h
    · rw [h]
      by_cases hm : y ≤ m
      · exact Or.inl (by omega)
      · exact Or.inr (by simp; omega)
    · exact Or.inr (by simp [h])

theorem le_maxLevel {E : List (Nat × Inp × Nat)} {e : Nat × Inp × Nat} {l : Nat} (he : e ∈ E)
    (hl : e.2.1.level? = some l) : l ≤ maxLevel E := by
  unfold maxLevel
  apply le_foldl_max
  exact Or.inr (List.mem_filterMap.mpr ⟨e, he, hl⟩)

theorem maxLevel_attained (E : List (Nat × Inp × Nat)) :
    maxLevel E = 0 ∨ ∃ e ∈ E, e.2.1.level? = some (maxLevel E) := by
  unfold maxLevel
  rcases foldl_max_mem (E.filterMap fun e => e.2.1.level?) 0 with h | h
  · exact Or.inl h
  · exact Or.inr (List.mem_filterMap.mp h)

/-! ### 6. the fields of the tables -/

section fields
variable (lits : List (String × Option String)) (a : Auto) (cmds : List String) (subId : Nat → Option Nat)

theorem mem_states {q : Nat} : q ∈ normSet ((edges a).map (·.1)) ↔ ∃ x t, (q, x, t) ∈ edges a := by
  rw [Min.mem_normSet, List.mem_map]
  constructor
  · rintro ⟨⟨q', x, t⟩, h, rfl⟩
    exact ⟨x, t, h⟩
  · rintro ⟨x, t, h⟩
    exact ⟨(q, x, t), h, rfl⟩

theorem literals_eq : (ofAutoWith lits a cmds subId).literals = lits.map (·.1) := rfl
theorem maxLevel_eq : (ofAutoWith lits a cmds subId).maxLevel = maxLevel (edges a) := rfl
theorem star_eq : (ofAutoWith lits a cmds subId).star = (edges a).filterMap starPair := rfl

theorem litTrans_row (q : Nat) : rowOf (ofAutoWith lits a cmds subId).litTrans q =
    if q ∈ normSet ((edges a).map (·.1)) ∧ (bOfList ((edges a).filterMap (litPair lits q))).isEmpty = false
    then some (bOfList ((edges a).filterMap (litPair lits q))) else none :=
  rowOf_rowsOf _ q _

theorem cmdTrans_row (q : Nat) : rowOf (ofAutoWith lits a cmds subId).cmdTrans q =
    if q ∈ normSet ((edges a).map (·.1)) ∧ (bOfList ((edges a).filterMap (cmdPair cmds q))).isEmpty = false
    then some (bOfList ((edges a).filterMap (cmdPair cmds q))) else none :=
  rowOf_rowsOf _ q _

theorem subTrans_row (q : Nat) : rowOf (ofAutoWith lits a cmds subId).subTrans q =
    if q ∈ normSet ((edges a).map (·.1)) ∧ ((edges a).filterMap (subPair subId q)).isEmpty = false
    then some ((edges a).filterMap (subPair subId q)) else none :=
  rowOf_rowsOf _ q _

theorem litLevels_ids (lvl q : Nat) : idsAt (ofAutoWith lits a cmds subId).litLevels lvl q =
    if lvl < maxLevel (edges a) + 1 ∧ q ∈ normSet ((edges a).map (·.1))
    then normSet ((edges a).filterMap (litAt lits lvl q)) else [] :=
  idsAt_levelsOf _ _ _ lvl q

theorem cmdLevels_ids (lvl q : Nat) : idsAt (ofAutoWith lits a cmds subId).cmdLevels lvl q =
    if lvl < maxLevel (edges a) + 1 ∧ q ∈ normSet ((edges a).map (·.1))
    then normSet ((edges a).filterMap (cmdAt cmds lvl q)) else [] :=
  idsAt_levelsOf _ _ _ lvl q

theorem subLevels_ids (lvl q : Nat) : idsAt (ofAutoWith lits a cmds subId).subLevels lvl q =
    if lvl < maxLevel (edges a) + 1 ∧ q ∈ normSet ((edges a).map (·.1))
    then (edges a).filterMap (subAt subId lvl q) else [] :=
  idsAt_levelsOf _ _ _ lvl q

end fields

/-! ### 7. side conditions

The rows are maps from ids to targets, and the id of a literal forgets its level and identifies an
absent description with an empty one; the id of a command forgets its level; so does the id of a
within-word automaton.  Two transitions out of one state whose inputs get the same id must therefore
agree on the target for the row to show both (the real `BTreeMap` keeps the LAST one — the recorded
finding of C09 "one item at two levels with two targets").  `LitDetAt`, `CmdDetAt`, `SubDetAt` say that
they agree.  They hold, in particular, when no state has two transitions on inputs that differ only in
the level (or only in `None` / `Some("")`). -/

def LitDetAt (a : Auto) (q : Nat) : Prop :=
  ∀ txt d l t1 d' l' t2, HasEdge a q (.lit txt d l) t1 → HasEdge a q (.lit txt d' l') t2 →
    d.getD "" = d'.getD "" → t1 = t2

def CmdDetAt (a : Auto) (q : Nat) : Prop :=
  ∀ c l t1 l' t2, HasEdge a q (.cmd c l) t1 → HasEdge a q (.cmd c l') t2 → t1 = t2

def SubDetAt (a : Auto) (subId : Nat → Option Nat) (q : Nat) : Prop :=
  ∀ k l t1 k' l' t2 j, HasEdge a q (.sub k l) t1 → HasEdge a q (.sub k' l') t2 →
    subId k = some j → subId k' = some j → t1 = t2

section main
variable {lits : List (String × Option String)} {a : Auto} {cmds : List String} {subId : Nat → Option Nat}

theorem state_of_edge {q : Nat} {x : Inp} {t : Nat} (he : HasEdge a q x t) :
    q ∈ normSet ((edges a).map (·.1)) :=
  (mem_states a).mpr ⟨x, t, mem_edges.mpr he⟩

theorem isEmpty_false_of_toOf {r : List (Nat × Nat)} {k t : Nat} (h : toOf r k = some t) :
    r.isEmpty = false := by
  cases r with
  | nil => simp [toOf_nil] at h
  | cons _ _ => rfl

/-! ### E1. literals -/

/-- (internal form, with the id named) -/
theorem lit_row {q : Nat} {txt : String} {d : Option String} {lvl t k : Nat}
    (he : HasEdge a q (.lit txt d lvl) t) (hk : litId lits txt d = some k) (hdet : LitDetAt a q) :
    ∃ row, rowOf (ofAutoWith lits a cmds subId).litTrans q = some row ∧ toOf row k = some t := by
  have hto : toOf (bOfList ((edges a).filterMap (litPair lits q))) k = some t := by
    apply toOf_bOfList
    · exact List.mem_filterMap.mpr ⟨(q, .lit txt d lvl, t), mem_edges.mpr he, by simp [litPair, hk]⟩
    · intro p hp hpk
      obtain ⟨e, hemem, hpe⟩ := List.mem_filterMap.mp hp
      obtain ⟨t', d', l', rfl, hk'⟩ := litPair_some hpe
      rw [hpk] at hk'
      obtain ⟨d1, h1, hd1⟩ := litId_some hk
      obtain ⟨d2, h2, hd2⟩ := litId_some hk'
      rw [h1] at h2
      simp only [Option.some.injEq, Prod.mk.injEq] at h2
      obtain ⟨rfl, rfl⟩ := h2
      exact (hdet txt d lvl t d' l' p.2 he (mem_edges.mp hemem) (by rw [← hd1, ← hd2])).symm
  refine ⟨_, ?_, hto⟩
  rw [litTrans_row]
  simp [state_of_edge he, isEmpty_false_of_toOf hto]

theorem lit_level {q : Nat} {txt : String} {d : Option String} {lvl t k : Nat}
    (he : HasEdge a q (.lit txt d lvl) t) (hk : litId lits txt d = some k) :
    k ∈ idsAt (ofAutoWith lits a cmds subId).litLevels lvl q := by
  rw [litLevels_ids]
  have hl : lvl < maxLevel (edges a) + 1 :=
    Nat.lt_succ_of_le (le_maxLevel (mem_edges.mpr he) rfl)
  simp only [hl, state_of_edge he, and_self, if_true, Min.mem_normSet]
  exact List.mem_filterMap.mpr ⟨(q, .lit txt d lvl, t), mem_edges.mpr he, by simp [litAt, hk]⟩

theorem lit_name {txt : String} {d : Option String} {k : Nat} (hk : litId lits txt d = some k) :
    (ofAutoWith lits a cmds subId).literals[k]? = some txt := by
  obtain ⟨d', h, _⟩ := litId_some hk
  rw [literals_eq, List.getElem?_map, h]
  rfl

/-- **E1, from the automaton to the tables.**  A literal transition `q --(txt, d, lvl)--> t` has an id `k`:
the literal table names `txt` at `k`, the level table lists `k` at `(lvl, q)`, and — when the literal
transitions out of `q` that get the same id agree on the target (`LitDetAt`) — the row of `q` sends `k`
to `t`.  `hl`: the literal table lists the pair (true for `sortedLits a`, `sortedLits_cover`). -/
theorem E1_forward {q : Nat} {txt : String} {d : Option String} {lvl t : Nat}
    (hl : (txt, d) ∈ lits) (he : HasEdge a q (.lit txt d lvl) t) :
    ∃ k, (ofAutoWith lits a cmds subId).literals[k]? = some txt ∧
      k ∈ idsAt (ofAutoWith lits a cmds subId).litLevels lvl q ∧
      (LitDetAt a q → ∃ row, rowOf (ofAutoWith lits a cmds subId).litTrans q = some row ∧
        toOf row k = some t) := by
  obtain ⟨k, hk⟩ := litId_exists hl
  exact ⟨k, lit_name hk, lit_level he hk, fun hdet => lit_row he hk hdet⟩

/-- **E1, from the rows to the automaton**: every entry `(k, t)` of the row of `q` is a literal
transition out of `q` to `t` whose text the literal table names at `k`. -/
theorem E1_row_backward {q : Nat} {row : List (Nat × Nat)} {k t : Nat}
    (hr : rowOf (ofAutoWith lits a cmds subId).litTrans q = some row) (hm : (k, t) ∈ row) :
    ∃ txt d lvl, HasEdge a q (.lit txt d lvl) t ∧ litId lits txt d = some k ∧
      (ofAutoWith lits a cmds subId).literals[k]? = some txt := by
  rw [litTrans_row] at hr
  split at hr
  · simp only [Option.some.injEq] at hr
    subst hr
    obtain ⟨e, hemem, hpe⟩ := List.mem_filterMap.mp (mem_bOfList hm)
    obtain ⟨txt, d, lvl, rfl, hk⟩ := litPair_some hpe
    exact ⟨txt, d, lvl, mem_edges.mp hemem, hk, lit_name hk⟩
  · simp at hr

/-- **E1, from the level tables to the automaton**: every id listed at `(lvl, q)` is a literal transition
out of `q` at level `lvl` whose text the literal table names at that id. -/
theorem E1_level_backward {q lvl k : Nat}
    (hm : k ∈ idsAt (ofAutoWith lits a cmds subId).litLevels lvl q) :
    ∃ txt d t, HasEdge a q (.lit txt d lvl) t ∧ litId lits txt d = some k ∧
      (ofAutoWith lits a cmds subId).literals[k]? = some txt := by
  rw [litLevels_ids] at hm
  split at hm
  · rw [Min.mem_normSet] at hm
    obtain ⟨e, hemem, hpe⟩ := List.mem_filterMap.mp hm
    obtain ⟨txt, d, t, rfl, hk⟩ := litAt_some hpe
    exact ⟨txt, d, t, mem_edges.mp hemem, hk, lit_name hk⟩
  · simp at hm

/-! ### E2. commands, any word, within-word automata -/

theorem cmd_row {q : Nat} {c : String} {lvl t k : Nat}
    (he : HasEdge a q (.cmd c lvl) t) (hk : cmdId cmds c = some k) (hdet : CmdDetAt a q) :
    ∃ row, rowOf (ofAutoWith lits a cmds subId).cmdTrans q = some row ∧ toOf row k = some t := by
  have hto : toOf (bOfList ((edges a).filterMap (cmdPair cmds q))) k = some t := by
    apply toOf_bOfList
    · exact List.mem_filterMap.mpr ⟨(q, .cmd c lvl, t), mem_edges.mpr he, by simp [cmdPair, hk]⟩
    · intro p hp hpk
      obtain ⟨e, hemem, hpe⟩ := List.mem_filterMap.mp hp
      obtain ⟨c', l', rfl, hk'⟩ := cmdPair_some hpe
      rw [hpk] at hk'
      have h1 := cmdId_some hk
      rw [cmdId_some hk'] at h1
      simp only [Option.some.injEq] at h1
      subst h1
      exact (hdet c' lvl t l' p.2 he (mem_edges.mp hemem)).symm
  refine ⟨_, ?_, hto⟩
  rw [cmdTrans_row]
  simp [state_of_edge he, isEmpty_false_of_toOf hto]

theorem cmd_level {q : Nat} {c : String} {lvl t k : Nat}
    (he : HasEdge a q (.cmd c lvl) t) (hk : cmdId cmds c = some k) :
    k ∈ idsAt (ofAutoWith lits a cmds subId).cmdLevels lvl q := by
  rw [cmdLevels_ids]
  have hl : lvl < maxLevel (edges a) + 1 :=
    Nat.lt_succ_of_le (le_maxLevel (mem_edges.mpr he) rfl)
  simp only [hl, state_of_edge he, and_self, if_true, Min.mem_normSet]
  exact List.mem_filterMap.mpr ⟨(q, .cmd c lvl, t), mem_edges.mpr he, by simp [cmdAt, hk]⟩

/-- **E2 (commands), from the automaton to the tables**: the id is the position of the text in `cmds`. -/
theorem E2_cmd_forward {q : Nat} {c : String} {lvl t : Nat}
    (hc : c ∈ cmds) (he : HasEdge a q (.cmd c lvl) t) :
    ∃ k, cmds[k]? = some c ∧
      k ∈ idsAt (ofAutoWith lits a cmds subId).cmdLevels lvl q ∧
      (CmdDetAt a q → ∃ row, rowOf (ofAutoWith lits a cmds subId).cmdTrans q = some row ∧
        toOf row k = some t) := by
  obtain ⟨k, hk⟩ := cmdId_exists hc
  exact ⟨k, cmdId_some hk, cmd_level he hk, fun hdet => cmd_row he hk hdet⟩

theorem E2_cmd_row_backward {q : Nat} {row : List (Nat × Nat)} {k t : Nat}
    (hr : rowOf (ofAutoWith lits a cmds subId).cmdTrans q = some row) (hm : (k, t) ∈ row) :
    ∃ c lvl, HasEdge a q (.cmd c lvl) t ∧ cmdId cmds c = some k ∧ cmds[k]? = some c := by
  rw [cmdTrans_row] at hr
  split at hr
  · simp only [Option.some.injEq] at hr
    subst hr
    obtain ⟨e, hemem, hpe⟩ := List.mem_filterMap.mp (mem_bOfList hm)
    obtain ⟨c, lvl, rfl, hk⟩ := cmdPair_some hpe
    exact ⟨c, lvl, mem_edges.mp hemem, hk, cmdId_some hk⟩
  · simp at hr

theorem E2_cmd_level_backward {q lvl k : Nat}
    (hm : k ∈ idsAt (ofAutoWith lits a cmds subId).cmdLevels lvl q) :
    ∃ c t, HasEdge a q (.cmd c lvl) t ∧ cmdId cmds c = some k ∧ cmds[k]? = some c := by
  rw [cmdLevels_ids] at hm
  split at hm
  · rw [Min.mem_normSet] at hm
    obtain ⟨e, hemem, hpe⟩ := List.mem_filterMap.mp hm
    obtain ⟨c, t, rfl, hk⟩ := cmdAt_some hpe
    exact ⟨c, t, mem_edges.mp hemem, hk, cmdId_some hk⟩
  · simp at hm

/-- **E2 (any word)**: the `star_transitions` are exactly the any-word transitions. -/
theorem E2_star {q t : Nat} :
    (q, t) ∈ (ofAutoWith lits a cmds subId).star ↔ HasEdge a q .star t := by
  rw [star_eq, List.mem_filterMap]
  constructor
  · rintro ⟨e, hemem, hpe⟩
    have := starPair_some hpe
    subst this
    exact mem_edges.mp hemem
  · intro he
    exact ⟨(q, .star, t), mem_edges.mpr he, rfl⟩

theorem sub_row {q k lvl t j : Nat}
    (he : HasEdge a q (.sub k lvl) t) (hk : subId k = some j) (hdet : SubDetAt a subId q) :
    ∃ row, rowOf (ofAutoWith lits a cmds subId).subTrans q = some row ∧ toOf row j = some t := by
  have hto : toOf ((edges a).filterMap (subPair subId q)) j = some t := by
    apply toOf_of_mem
    · exact List.mem_filterMap.mpr ⟨(q, .sub k lvl, t), mem_edges.mpr he, by simp [subPair, hk]⟩
    · intro p hp hpk
      obtain ⟨e, hemem, hpe⟩ := List.mem_filterMap.mp hp
      obtain ⟨k', l', rfl, hk'⟩ := subPair_some hpe
      rw [hpk] at hk'
      exact (hdet k lvl t k' l' p.2 j he (mem_edges.mp hemem) hk hk').symm
  refine ⟨_, ?_, hto⟩
  rw [subTrans_row]
  simp [state_of_edge he, isEmpty_false_of_toOf hto]

theorem sub_level {q k lvl t j : Nat}
    (he : HasEdge a q (.sub k lvl) t) (hk : subId k = some j) :
    j ∈ idsAt (ofAutoWith lits a cmds subId).subLevels lvl q := by
  rw [subLevels_ids]
  have hl : lvl < maxLevel (edges a) + 1 :=
    Nat.lt_succ_of_le (le_maxLevel (mem_edges.mpr he) rfl)
  simp only [hl, state_of_edge he, and_self, if_true]
  exact List.mem_filterMap.mpr ⟨(q, .sub k lvl, t), mem_edges.mpr he, by simp [subAt, hk]⟩

/-- **E2 (within-word automata), from the automaton to the tables**: `j` is the number of the within-word
function of the automaton `k`. -/
theorem E2_sub_forward {q k lvl t j : Nat} (hk : subId k = some j) (he : HasEdge a q (.sub k lvl) t) :
    j ∈ idsAt (ofAutoWith lits a cmds subId).subLevels lvl q ∧
      (SubDetAt a subId q → ∃ row, rowOf (ofAutoWith lits a cmds subId).subTrans q = some row ∧
        toOf row j = some t) :=
  ⟨sub_level he hk, fun hdet => sub_row he hk hdet⟩

theorem E2_sub_row_backward {q : Nat} {row : List (Nat × Nat)} {j t : Nat}
    (hr : rowOf (ofAutoWith lits a cmds subId).subTrans q = some row) (hm : (j, t) ∈ row) :
    ∃ k lvl, HasEdge a q (.sub k lvl) t ∧ subId k = some j := by
  rw [subTrans_row] at hr
  split at hr
  · simp only [Option.some.injEq] at hr
    subst hr
    obtain ⟨e, hemem, hpe⟩ := List.mem_filterMap.mp hm
    obtain ⟨k, lvl, rfl, hk⟩ := subPair_some hpe
    exact ⟨k, lvl, mem_edges.mp hemem, hk⟩
  · simp at hr

theorem E2_sub_level_backward {q lvl j : Nat}
    (hm : j ∈ idsAt (ofAutoWith lits a cmds subId).subLevels lvl q) :
    ∃ k t, HasEdge a q (.sub k lvl) t ∧ subId k = some j := by
  rw [subLevels_ids] at hm
  split at hm
  · obtain ⟨e, hemem, hpe⟩ := List.mem_filterMap.mp hm
    obtain ⟨k, t, rfl, hk⟩ := subAt_some hpe
    exact ⟨k, t, mem_edges.mp hemem, hk⟩
  · simp at hm

/-! ### E3. the highest level -/

/-- **E3**: `max_fallback_level` bounds the level of every input a transition carries (literal, command,
within-word, compadd), and is the level of one of them, or 0 (0 when no transition carries a level). -/
theorem E3_maxLevel :
    (∀ q x t l, HasEdge a q x t → x.level? = some l → l ≤ (ofAutoWith lits a cmds subId).maxLevel) ∧
    ((ofAutoWith lits a cmds subId).maxLevel = 0 ∨
      ∃ q x t, HasEdge a q x t ∧ x.level? = some (ofAutoWith lits a cmds subId).maxLevel) := by
  rw [maxLevel_eq]
  constructor
  · intro q x t l he hl
    exact le_maxLevel (e := (q, x, t)) (mem_edges.mpr he) hl
  · rcases maxLevel_attained (edges a) with h | ⟨⟨q, x, t⟩, he, hl⟩
    · exact Or.inl h
    · exact Or.inr ⟨q, x, t, mem_edges.mp he, hl⟩

end main

/-! ### E4. reading the automaton back -/

theorem idsAt_lt {lv : List (List LevelRow)} {lvl q k : Nat} (h : k ∈ idsAt lv lvl q) :
    lvl < lv.length := by
  unfold idsAt at h
  cases hl : lv[lvl]? with
  | none => simp [hl] at h
  | some rows => exact (List.getElem?_eq_some_iff.mp hl).1

theorem rowOf_key {tr : List Row} {q : Nat} {row : List (Nat × Nat)} (h : rowOf tr q = some row) :
    q ∈ tr.map (·.1) := by
  unfold rowOf at h
  cases hf : tr.find? (·.1 == q) with
  | none => simp [hf] at h
  | some r =>
    have h1 := List.mem_of_find?_eq_some hf
    have h2 : r.1 = q := by simpa using List.find?_some hf
    exact List.mem_map.mpr ⟨r, h1, h2⟩

theorem mem_kindTransitions {name : Nat → Option Label} {tr : List Row} {lv : List (List LevelRow)}
    {x : Nat × Label × Option Nat × Nat} :
    x ∈ kindTransitions name tr lv ↔
      ∃ q lab lvl t k, x = (q, lab, some lvl, t) ∧ k ∈ idsAt lv lvl q ∧ name k = some lab ∧
        ∃ row, rowOf tr q = some row ∧ toOf row k = some t := by
  unfold kindTransitions
  simp only [List.mem_flatMap, List.mem_filterMap, List.mem_range]
  constructor
  · rintro ⟨lvl, _, q, _, k, hk, hx⟩
    cases hn : name k with
    | none => simp [hn] at hx
    | some lab =>
      cases hr : rowOf tr q with
      | none => simp [hn, hr] at hx
      | some row =>
        cases ht : toOf row k with
        | none => simp [hn, hr, ht] at hx
        | some t =>
          simp only [hn, hr, ht, Option.bind_some, Option.some.injEq] at hx
          exact ⟨q, lab, lvl, t, k, hx.symm, hk, hn, row, hr, ht⟩
  · rintro ⟨q, lab, lvl, t, k, rfl, hk, hn, row, hr, ht⟩
    exact ⟨lvl, idsAt_lt hk, q, rowOf_key hr, k, hk, by simp [hn, hr, ht]⟩

section recon
variable {lits : List (String × Option String)} {a : Auto} {cmds : List String} {subId : Nat → Option Nat}

/-- **E4: every emitted script embeds exactly the compiled automaton.**  The labelled transitions
`(from, label, level, to)` read from the tables (`transitionsOf`: a literal id is looked up in the
literal table, a command id in the list of command functions; the level comes from the level tables, the
target from the rows) are, as a set, the transitions of the automaton under `labelOf` — the text of a
literal (the description is not in a bash script), the text of a command, the number of a within-word
function, "any word"; compadd transitions are not recorded by bash.  Hypotheses: the literal table and
the command list cover the automaton, and transitions that get the same id agree on the target. -/
theorem E4_reconstruction
    (hlits : ∀ q txt d lvl t, HasEdge a q (.lit txt d lvl) t → (txt, d) ∈ lits)
    (hcmds : ∀ q c lvl t, HasEdge a q (.cmd c lvl) t → c ∈ cmds)
    (hL : ∀ q, LitDetAt a q) (hC : ∀ q, CmdDetAt a q) (hS : ∀ q, SubDetAt a subId q)
    (q : Nat) (lab : Label) (lv : Option Nat) (t : Nat) :
    (q, lab, lv, t) ∈ transitionsOf (ofAutoWith lits a cmds subId) cmds ↔
      ∃ x, HasEdge a q x t ∧ labelOf subId x = some (lab, lv) := by
  unfold transitionsOf
  simp only [List.mem_append]
  constructor
  · rintro (((h | h) | h) | h)
    · obtain ⟨q', lab', lvl, t', k, hx, hk, hn, row, hr, ht⟩ := mem_kindTransitions.mp h
      simp only [Prod.mk.injEq] at hx
      obtain ⟨rfl, rfl, rfl, rfl⟩ := hx
      obtain ⟨txt, d, t0, he, hid, hname⟩ := E1_level_backward hk
      rw [hname] at hn
      simp only [Option.map_some, Option.some.injEq] at hn
      subst hn
      obtain ⟨row', hr', ht'⟩ := lit_row (cmds := cmds) (subId := subId) he hid (hL q)
      rw [hr] at hr'
      simp only [Option.some.injEq] at hr'
      subst hr'
      rw [ht] at ht'
      simp only [Option.some.injEq] at ht'
      subst ht'
      exact ⟨.lit txt d lvl, he, rfl⟩
    · obtain ⟨q', lab', lvl, t', k, hx, hk, hn, row, hr, ht⟩ := mem_kindTransitions.mp h
      simp only [Prod.mk.injEq] at hx
      obtain ⟨rfl, rfl, rfl, rfl⟩ := hx
      obtain ⟨c, t0, he, hid, hname⟩ := E2_cmd_level_backward hk
      rw [hname] at hn
      simp only [Option.map_some, Option.some.injEq] at hn
      subst hn
      obtain ⟨row', hr', ht'⟩ := cmd_row (lits := lits) (subId := subId) he hid (hC q)
      rw [hr] at hr'
      simp only [Option.some.injEq] at hr'
      subst hr'
      rw [ht] at ht'
      simp only [Option.some.injEq] at ht'
      subst ht'
      exact ⟨.cmd c lvl, he, rfl⟩
    · obtain ⟨q', lab', lvl, t', j, hx, hk, hn, row, hr, ht⟩ := mem_kindTransitions.mp h
      simp only [Prod.mk.injEq] at hx
      obtain ⟨rfl, rfl, rfl, rfl⟩ := hx
      obtain ⟨k, t0, he, hid⟩ := E2_sub_level_backward hk
      simp only [Option.some.injEq] at hn
      subst hn
      obtain ⟨row', hr', ht'⟩ := sub_row (lits := lits) (cmds := cmds) he hid (hS q)
      rw [hr] at hr'
      simp only [Option.some.injEq] at hr'
      subst hr'
      rw [ht] at ht'
      simp only [Option.some.injEq] at ht'
      subst ht'
      exact ⟨.sub k lvl, he, by simp [labelOf, hid]⟩
    · obtain ⟨p, hp, hx⟩ := List.mem_map.mp h
      simp only [Prod.mk.injEq] at hx
      obtain ⟨rfl, rfl, rfl, rfl⟩ := hx
      exact ⟨.star, E2_star.mp hp, rfl⟩
  · rintro ⟨x, he, hlab⟩
    cases x with
    | lit txt d l =>
      simp only [labelOf, Option.some.injEq, Prod.mk.injEq] at hlab
      obtain ⟨rfl, rfl⟩ := hlab
      obtain ⟨k, hk⟩ := litId_exists (hlits q txt d l t he)
      refine Or.inl (Or.inl (Or.inl (mem_kindTransitions.mpr ?_)))
      obtain ⟨row, hr, ht⟩ := lit_row (cmds := cmds) (subId := subId) he hk (hL q)
      exact ⟨q, _, l, t, k, rfl, lit_level he hk, by rw [lit_name hk]; rfl, row, hr, ht⟩
    | cmd c l =>
      simp only [labelOf, Option.some.injEq, Prod.mk.injEq] at hlab
      obtain ⟨rfl, rfl⟩ := hlab
      obtain ⟨k, hk⟩ := cmdId_exists (hcmds q c l t he)
      refine Or.inl (Or.inl (Or.inr (mem_kindTransitions.mpr ?_)))
      obtain ⟨row, hr, ht⟩ := cmd_row (lits := lits) (subId := subId) he hk (hC q)
      exact ⟨q, _, l, t, k, rfl, cmd_level he hk, by rw [cmdId_some hk]; rfl, row, hr, ht⟩
    | sub k l =>
      cases hk : subId k with
      | none => simp [labelOf, hk] at hlab
      | some j =>
        simp only [labelOf, hk, Option.map_some, Option.some.injEq, Prod.mk.injEq] at hlab
        obtain ⟨rfl, rfl⟩ := hlab
        refine Or.inl (Or.inr (mem_kindTransitions.mpr ?_))
        obtain ⟨row, hr, ht⟩ := sub_row (lits := lits) (cmds := cmds) he hk (hS q)
        exact ⟨q, _, l, t, j, rfl, sub_level he hk, rfl, row, hr, ht⟩
    | compadd c l => simp [labelOf] at hlab
    | star =>
      simp only [labelOf, Option.some.injEq, Prod.mk.injEq] at hlab
      obtain ⟨rfl, rfl⟩ := hlab
      exact Or.inr (List.mem_map.mpr ⟨(q, t), E2_star.mpr he, rfl⟩)

end recon

/-! ### 8. the instance `ofAuto` (the literal table of `get_all_literals`) -/

/-- the literal table of the model lists every `(literal, description)` pair of the input table -/
theorem sortedLits_cover {a : Auto} {txt : String} {d : Option String} {lvl : Nat}
    (h : Inp.lit txt d lvl ∈ a.inputs) : (txt, d) ∈ sortedLits a := by
  unfold sortedLits
  rw [List.mem_reverse, List.mem_mergeSort, mem_firstOcc, List.mem_filterMap]
  exact ⟨_, h, rfl⟩

/-- … and nothing else -/
theorem sortedLits_sound {a : Auto} {txt : String} {d : Option String}
    (h : (txt, d) ∈ sortedLits a) : ∃ lvl, Inp.lit txt d lvl ∈ a.inputs := by
  unfold sortedLits at h
  rw [List.mem_reverse, List.mem_mergeSort, mem_firstOcc, List.mem_filterMap] at h
  obtain ⟨x, hx, hl⟩ := h
  cases x with
  | lit t' d' l =>
    simp only [litOfInp, Option.some.injEq, Prod.mk.injEq] at hl
    obtain ⟨rfl, rfl⟩ := hl
    exact ⟨l, hx⟩
  | _ => simp [litOfInp] at hl

theorem sortedLits_cover_edge {a : Auto} {q : Nat} {txt : String} {d : Option String} {lvl t : Nat}
    (he : HasEdge a q (.lit txt d lvl) t) : (txt, d) ∈ sortedLits a := by
  obtain ⟨i, _, hi⟩ := he
  exact sortedLits_cover (List.mem_of_getElem? hi)

/-- **E4 for `ofAuto`**: no hypothesis on the literal table is left. -/
theorem E4_ofAuto {a : Auto} {cmds : List String} {subId : Nat → Option Nat}
    (hcmds : ∀ q c lvl t, HasEdge a q (.cmd c lvl) t → c ∈ cmds)
    (hL : ∀ q, LitDetAt a q) (hC : ∀ q, CmdDetAt a q) (hS : ∀ q, SubDetAt a subId q)
    (q : Nat) (lab : Label) (lv : Option Nat) (t : Nat) :
    (q, lab, lv, t) ∈ transitionsOf (ofAuto a cmds subId) cmds ↔
      ∃ x, HasEdge a q x t ∧ labelOf subId x = some (lab, lv) :=
  E4_reconstruction (fun _ _ _ _ _ he => sortedLits_cover_edge he) hcmds hL hC hS q lab lv t

/-! ### 9. the side conditions are needed -/

/-- one literal leaving state 0 at two levels with two targets; one transition per (state, input), all
indices in range -/
def cexAuto : Auto :=
  { start := 0, acc := [1, 2], inputs := [.lit "a" none 0, .lit "a" none 1],
    trans := [(0, 0, 1), (0, 1, 2)] }

theorem cex_sortedLits : sortedLits cexAuto = [("a", none)] := by
  have h : firstOcc (cexAuto.inputs.filterMap litOfInp) = [("a", none)] := by decide
  simp [sortedLits, h]

/-- the row of state 0 keeps the LAST target only: the transition `0 --a (level 0)--> 1` of the
automaton is not in the tables (both levels list the id 0, and the row sends it to 2): without
`LitDetAt` the row part of E1 is false, and so is E4 (the tables describe `0 --a (level 0)--> 2`). -/
theorem cex_row : rowOf (ofAuto cexAuto [] fun _ => none).litTrans 0 = some [(0, 2)] := by
  unfold ofAuto
  rw [cex_sortedLits]
  decide

theorem cex_not_det : ¬ LitDetAt cexAuto 0 := by
  intro h
  have := h "a" none 0 1 none 1 2 ⟨0, by decide, by decide⟩ ⟨1, by decide, by decide⟩ rfl
  omega

theorem cex_E4_fails :
    (0, Label.lit "a", some 0, 2) ∈ transitionsOf (ofAuto cexAuto [] fun _ => none) [] ∧
    ¬ ∃ x, HasEdge cexAuto 0 x 2 ∧ labelOf (fun _ => none) x = some (Label.lit "a", some 0) := by
  constructor
  · unfold ofAuto
    rw [cex_sortedLits]
    decide
  · rintro ⟨x, ⟨i, hm, hi⟩, hlab⟩
    have hm' : (0, i, 2) = (0, 0, 1) ∨ (0, i, 2) = (0, 1, 2) := by
      simpa [cexAuto] using hm
    rcases hm' with h | h
    · simp at h
    · simp only [Prod.mk.injEq, true_and, and_true] at h
      subst h
      have : x = .lit "a" none 1 := by
        have : cexAuto.inputs[1]? = some (.lit "a" none 1) := rfl
        rw [this] at hi
        exact (Option.some.inj hi).symm
      subst this
      simp [labelOf] at hlab

/-! ### 10. the whole script (`ofDfa`): the numberings cover the automata -/

theorem find_zipIdx_filterMap {γ β} (f : Nat → Option γ) (g : γ → β) (j : Nat) :
    ∀ (l : List Nat) (n : Nat),
    (((l.zipIdx n).filterMap fun p => (f p.1).map fun s => (p.2, g s)).find? (·.1 == j)) =
      if n ≤ j then (l[j - n]?).bind (fun k => (f k).map fun s => (j, g s)) else none
  | [], n => by simp
  | k :: l, n => by
    rw [List.zipIdx_cons, List.filterMap_cons]
    have ih := find_zipIdx_filterMap f g j l (n + 1)
    by_cases hlt : j < n
    · have h1 : ¬ n ≤ j := by omega
      have h2 : ¬ n + 1 ≤ j := by omega
      simp only [h2, if_false] at ih
      simp only [h1, if_false]
      cases hf : f k with
      | none => simpa [hf] using ih
      | some s =>
        have hne : (n == j) = false := by simp; omega
        simp only [Option.map_some, List.find?_cons, hne]
        exact ih
    · by_cases heq : j = n
      · subst heq
        have h2 : ¬ j + 1 ≤ j := by omega
        simp only [h2, if_false] at ih
        cases hf : f k with
        | none => simpa [hf] using ih
        | some s => simp [hf]
      · obtain ⟨m, rfl⟩ : ∃ m, j = n + 1 + m := ⟨j - (n + 1), by omega⟩
        have h1 : n ≤ n + 1 + m := by omega
        have h2 : n + 1 ≤ n + 1 + m := by omega
        have e1 : n + 1 + m - n = m + 1 := by omega
        have e2 : n + 1 + m - (n + 1) = m := by omega
        simp only [h2, if_true, e2] at ih
        simp only [h1, if_true, e1, List.getElem?_cons_succ]
        cases hf : f k with
        | none => simpa [hf] using ih
        | some s =>
          have hne : (n == n + 1 + m) = false := by simp; omega
          simp only [Option.map_some, List.find?_cons, hne]
          exact ih

/-- the tables of the within-word function `j` are the tables of the automaton numbered `j` -/
theorem ofDfa_sub {d : Dfa} {out : Nat → List String} {k j : Nat} {s : Auto}
    (hj : subIdOf (subOrder d.main) k = some j) (hs : d.subs[k]? = some s) :
    (ofDfa d out).sub j = ofAuto s (commands d) (fun _ => none) := by
  unfold Script.sub ofDfa
  simp only
  rw [find_zipIdx_filterMap (fun k => d.subs[k]?) (fun s => ofAuto s (commands d) fun _ => none) j
    (subOrder d.main) 0]
  simp [subIdOf_some hj, hs]

theorem ofDfa_main (d : Dfa) (out : Nat → List String) :
    (ofDfa d out).main = ofAuto d.main (commands d) (subIdOf (subOrder d.main)) := rfl

theorem commands_cover_main {d : Dfa} {q : Nat} {c : String} {lvl t : Nat}
    (he : HasEdge d.main q (.cmd c lvl) t) : c ∈ commands d := by
  unfold commands
  rw [mem_firstOcc, List.mem_flatMap]
  exact ⟨(q, .cmd c lvl, t), mem_edges.mpr he, by simp⟩

theorem commands_cover_sub {d : Dfa} {q k l t : Nat} {s : Auto} {q' : Nat} {c : String} {lvl t' : Nat}
    (he : HasEdge d.main q (.sub k l) t) (hs : d.subs[k]? = some s)
    (he' : HasEdge s q' (.cmd c lvl) t') : c ∈ commands d := by
  unfold commands
  rw [mem_firstOcc, List.mem_flatMap]
  refine ⟨(q, .sub k l, t), mem_edges.mpr he, ?_⟩
  simp only [hs, Option.map_some, Option.getD_some, List.mem_filterMap]
  exact ⟨(q', .cmd c lvl, t'), mem_edges.mpr he', rfl⟩

theorem subOrder_cover {a : Auto} {q k l t : Nat} (he : HasEdge a q (.sub k l) t) :
    ∃ j, subIdOf (subOrder a) k = some j := by
  have : k ∈ subOrder a := by
    unfold subOrder
    rw [mem_firstOcc, List.mem_filterMap]
    exact ⟨(q, .sub k l, t), mem_edges.mpr he, rfl⟩
  unfold subIdOf
  exact ⟨(subOrder a).idxOf k, by simp [this]⟩

theorem subIdOf_inj {order : List Nat} {k k' j : Nat} (h : subIdOf order k = some j)
    (h' : subIdOf order k' = some j) : k = k' := by
  have h1 := subIdOf_some h
  rw [subIdOf_some h'] at h1
  exact (Option.some.inj h1).symm

/-- two transitions out of `q` into the same within-word automaton (at two levels) agree on the target -/
def SubKDetAt (a : Auto) (q : Nat) : Prop :=
  ∀ k l t1 l' t2, HasEdge a q (.sub k l) t1 → HasEdge a q (.sub k l') t2 → t1 = t2

theorem subDetAt_of_subKDetAt {a : Auto} {q : Nat} (h : SubKDetAt a q) :
    SubDetAt a (subIdOf (subOrder a)) q := by
  intro k l t1 k' l' t2 j he he' hk hk'
  have := subIdOf_inj hk hk'
  subst this
  exact h k l t1 l' t2 he he'

/-- **The whole script, main function**: with the command numbering of `get_commands` and the
within-word numbering of `get_subwords`, the tables of the main function describe exactly the
transitions of the main automaton (nothing to assume about the numberings). -/
theorem script_main_embeds (d : Dfa) (out : Nat → List String)
    (hL : ∀ q, LitDetAt d.main q) (hC : ∀ q, CmdDetAt d.main q) (hS : ∀ q, SubKDetAt d.main q)
    (q : Nat) (lab : Label) (lv : Option Nat) (t : Nat) :
    (q, lab, lv, t) ∈ transitionsOf (ofDfa d out).main (commands d) ↔
      ∃ x, HasEdge d.main q x t ∧ labelOf (subIdOf (subOrder d.main)) x = some (lab, lv) := by
  rw [ofDfa_main]
  exact E4_ofAuto (fun _ _ _ _ he => commands_cover_main he) hL hC
    (fun q => subDetAt_of_subKDetAt (hS q)) q lab lv t

/-- **The whole script, within-word functions**: every within-word automaton `k` the main automaton
enters has a number `j`, and the tables of `_<cmd>_subword_<j>` describe exactly the transitions of
that automaton. -/
theorem script_sub_embeds (d : Dfa) (out : Nat → List String) {q0 k l0 t0 : Nat} {s : Auto}
    (he : HasEdge d.main q0 (.sub k l0) t0) (hs : d.subs[k]? = some s)
    (hL : ∀ q, LitDetAt s q) (hC : ∀ q, CmdDetAt s q) :
    ∃ j, subIdOf (subOrder d.main) k = some j ∧
      ∀ q lab lv t, (q, lab, lv, t) ∈ transitionsOf ((ofDfa d out).sub j) (commands d) ↔
        ∃ x, HasEdge s q x t ∧ labelOf (fun _ => none) x = some (lab, lv) := by
  obtain ⟨j, hj⟩ := subOrder_cover he
  refine ⟨j, hj, fun q lab lv t => ?_⟩
  rw [ofDfa_sub hj hs]
  refine E4_ofAuto (fun _ _ _ _ he' => commands_cover_sub he hs he') hL hC ?_ q lab lv t
  intro q k l t1 k' l' t2 j _ _ hk
  simp at hk

/-! ### 11. the side conditions from the usual well-formedness -/

/-- at most one transition per (state, input) -/
def Det (a : Auto) : Prop :=
  ∀ q i t1 t2, (q, i, t1) ∈ a.trans → (q, i, t2) ∈ a.trans → t1 = t2

/-- two inputs the tables give the same id: literals with the same text and description (absent =
empty), commands with the same text, the same within-word automaton — whatever the levels -/
def SameId : Inp → Inp → Prop
  | .lit t d _, .lit t' d' _ => t = t' ∧ d.getD "" = d'.getD ""
  | .cmd c _, .cmd c' _ => c = c'
  | .sub k _, .sub k' _ => k = k'
  | _, _ => False

/-- no two distinct inputs with the same id leave `q` -/
def NoIdClashAt (a : Auto) (q : Nat) : Prop :=
  ∀ i j t1 t2 x y, (q, i, t1) ∈ a.trans → (q, j, t2) ∈ a.trans → a.inputs[i]? = some x →
    a.inputs[j]? = some y → SameId x y → i = j

theorem detAt_of_wf {a : Auto} {q : Nat} (hd : Det a) (hc : NoIdClashAt a q) :
    LitDetAt a q ∧ CmdDetAt a q ∧ SubKDetAt a q := by
  refine ⟨?_, ?_, ?_⟩
  · rintro txt d l t1 d' l' t2 ⟨i, hi, hxi⟩ ⟨j, hj, hxj⟩ hdd
    have := hc i j t1 t2 _ _ hi hj hxi hxj ⟨rfl, hdd⟩
    subst this
    exact hd q i t1 t2 hi hj
  · rintro c l t1 l' t2 ⟨i, hi, hxi⟩ ⟨j, hj, hxj⟩
    have := hc i j t1 t2 _ _ hi hj hxi hxj rfl
    subst this
    exact hd q i t1 t2 hi hj
  · rintro k l t1 l' t2 ⟨i, hi, hxi⟩ ⟨j, hj, hxj⟩
    have := hc i j t1 t2 _ _ hi hj hxi hxj rfl
    subst this
    exact hd q i t1 t2 hi hj

end Complgen.Tables
