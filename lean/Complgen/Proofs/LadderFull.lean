/-
C05 (operator ladder), the larger fragment: `Proofs/Ladder.lean` extended by
  (a) literals over every character the lexer accepts (regular characters and the escapable ones),
      printed with the fewest escapes (`escT` of `Proofs/Lexer.lean`: backslash escapes, a dot escaped
      only when two unescaped dots stand before it);
  (b) descriptions: a literal with its description `lit "descr"` wherever a literal may stand, and the
      distributed description `.dd c d` (`c "descr"`, `c` any expression) as `sseod` builds it;
  (c) juxtaposition without blanks, `.sub (.seq fs _) 0 _` (`--opt=<VALUE>`, `<FILE>.txt`, `[a]<X>...`),
      as `subwordSeq` builds it (factors flattened).
`fallback_roundtrip_full`: a tree of `NF'` printed by `pp'` and followed by a continuation `Follows` is
read back by `fallback` as the same tree up to spans, and exactly the printed characters are consumed.
`NF_sub`, `pp'_eq_pp`, `fallback_roundtrip_from_full`: the fragment, the printer and the theorem of
`Ladder.lean` are instances.

The printer `pp' ctx e`.  Contexts 0 to 4 as in `Ladder.lean` (0 `fallback`, 1 operand of `||`,
2 operand of `|`, 3 word of a sequence, 4 operand of a postfix `...`), 5 the expression a description is
attached to (child of `.dd`, read by `subwordSeq` and followed by `"`), 6 a factor of a word (read by
`unary`, followed directly by the next factor).  Parentheses beyond those of `Ladder.lean`:
  * a literal without description: at 5 always (`a "d"` is the literal with its own description, not
    `(a) "d"`), at 4 when it ends with a dot (`a....` is `a` `...` `.`, so `(a.)...`);
  * postfix `...`: at 4 only (`<X>... "d"`, `a<X>...` need none);  `.dd`: at 4, 5, 6;
  * a word: at 4 and 6, at 5 when its last factor is a literal without description.

`NF'` (what the parser can return and the printer can write): as `NF` of `Ladder.lean`, with
  * literals over regular or escapable characters, not empty, not beginning with `#` (a comment after a
    blank or a bracket; `#` cannot be escaped); any description;
  * `.dd c d` for every `c` of the fragment;
  * `.sub (.seq fs _) 0 _` with at least two factors, `NFW fs`: every factor is in the fragment and
    contains no `.sub` (the parser flattens the factors), and a literal without description is followed
    by a factor whose text begins with `<`, `[`, `(`, `{` (two adjacent literals are one literal).
The restrictions and the extra parentheses are needed: `word_two_literals`, `word_in_word`,
`hash_literal`, `dots_unparenthesised`, `dd_unparenthesised` (by `decide`, at the end of the file).

Proof.  The statements `PT`/`LT` of `Ladder.lean` with finer classes of continuations: `Any` (nothing
required: after a bracket, a description, a postfix `...`), `BL t`/`WL t` (after the literal `t` without
description: the decoder stops, no description follows, and if `t` ends with a dot no dot follows —
`dec_escT_gen` generalises `dec_escT` of `Lexer.lean` from `Terminates` to every stop of the decoder,
`...` included), `WD` (within a word: no `...` follows), `UD` (after a word that may get a description),
`UC` (after a word: no description either).  Unlike `UCont` of `Ladder.lean` these forbid `...` after
blanks, not a single dot, so that words may begin with a dot (`git add .gitignore`, `<FILE>.txt`).
`All' e` states the seven levels at once (`AllT'`), together with the first character of every text
(`st`) and the absence of `...` at its beginning (`nd`, `nd4`); `asm*` derive the seven levels from the
native one; `LTW`, `swLoop_cons`, `sw_native` read the factors of a word; `all_levels'` is the induction.
-/
import Complgen.Proofs.Ladder
namespace Complgen.Parse.Full
open Complgen Complgen.Parse

/-! ### three dots -/

/-- the text begins with `...` -/
def dots3 : List Char → Bool
  | '.' :: '.' :: '.' :: _ => true
  | _ => false

theorem dots3_cons_ne (c : Char) (r : List Char) (h : c ≠ '.') : dots3 (c :: r) = false := by
  unfold dots3
  split
  · rename_i heq; cases heq; exact absurd rfl h
  · rfl

theorem dots3_nil : dots3 [] = false := rfl

theorem dots3_dot_ne (c : Char) (r : List Char) (h : c ≠ '.') : dots3 ('.' :: c :: r) = false := by
  unfold dots3
  split
  · rename_i heq; cases heq; exact absurd rfl h
  · rfl

theorem dots3_dot_nil : dots3 ['.'] = false := rfl
theorem dots3_dot_dot_nil : dots3 ['.', '.'] = false := rfl

theorem dots3_dot_dot_ne (c : Char) (r : List Char) (h : c ≠ '.') : dots3 ('.' :: '.' :: c :: r) = false := by
  unfold dots3
  split
  · rename_i heq; cases heq; exact absurd rfl h
  · rfl

theorem dots3_notDot (l : List Char) (h : NotDotHead l) : dots3 l = false := by
  rcases h with rfl | ⟨x, r, rfl, hx⟩
  · rfl
  · exact dots3_cons_ne x r hx

theorem dots3_dot_notDot (l : List Char) (h : NotDotHead l) : dots3 ('.' :: l) = false := by
  rcases h with rfl | ⟨x, r, rfl, hx⟩
  · rfl
  · exact dots3_dot_ne x r hx

theorem dots3_dot_dot_notDot (l : List Char) (h : NotDotHead l) : dots3 ('.' :: '.' :: l) = false := by
  rcases h with rfl | ⟨x, r, rfl, hx⟩
  · rfl
  · exact dots3_dot_dot_ne x r hx

theorem prefix_dots3 (l : List Char) : ['.', '.', '.'].isPrefixOf l = dots3 l := by
  rcases l with _ | ⟨a, _ | ⟨b, _ | ⟨c, l⟩⟩⟩
  · rfl
  · by_cases ha : a = '.'
    · subst ha; rfl
    · rw [dots3_cons_ne a _ ha]
      have : ('.' == a) = false := by simpa using fun e => ha e.symm
      simp [List.isPrefixOf, this]
  · by_cases ha : a = '.'
    · subst ha; simp [List.isPrefixOf, dots3]
    · rw [dots3_cons_ne a _ ha]
      have : ('.' == a) = false := by simpa using fun e => ha e.symm
      simp [List.isPrefixOf, this]
  · by_cases ha : a = '.'
    · subst ha
      by_cases hb : b = '.'
      · subst hb
        by_cases hc : c = '.'
        · subst hc; simp [List.isPrefixOf, dots3]
        · rw [dots3_dot_dot_ne c _ hc]
          have : ('.' == c) = false := by simpa using fun e => hc e.symm
          simp [List.isPrefixOf, this]
      · rw [dots3_dot_ne b _ hb]
        have : ('.' == b) = false := by simpa using fun e => hb e.symm
        simp [List.isPrefixOf, this]
    · rw [dots3_cons_ne a _ ha]
      have : ('.' == a) = false := by simpa using fun e => ha e.symm
      simp [List.isPrefixOf, this]


/-! ### literals: what may follow a printed literal -/

theorem escT_notDot' (k : Nat) (t X : List Char) (ht : t ≠ [])
    (h : (∃ c t', t = c :: t' ∧ c ≠ '.') ∨ k ≥ 2) : NotDotHead (escT k t ++ X) := by
  cases t with
  | nil => exact absurd rfl ht
  | cons c t' =>
    by_cases hc : c = '.'
    · subst hc
      rcases h with ⟨c, t'', h, hne⟩ | h
      · cases h; exact absurd rfl hne
      · simp only [escT, if_true, h]
        exact .inr ⟨'\\', _, rfl, by decide⟩
    · simp only [escT, hc, if_false]
      split
      · exact .inr ⟨c, _, rfl, hc⟩
      · exact .inr ⟨'\\', _, rfl, by decide⟩

/-- the condition under which a literal can be followed by `rest`: `rest` does not begin with a dot, or
the literal does not end with one -/
def DotOK (t rest : List Char) : Prop := NotDotHead rest ∨ t.getLast? ≠ some '.'

theorem DotOK.tail {rest : List Char} {c : Char} {t : List Char} (h : DotOK (c :: t) rest) : DotOK t rest := by
  rcases h with h | h
  · exact .inl h
  · right
    cases t with
    | nil => simp
    | cons x t' => simpa [List.getLast?_cons_cons] using h

theorem DotOK.nil (rest : List Char) : DotOK [] rest := .inr (by simp)

/-- `dec_escT` of `Lexer.lean` for every continuation at which the decoder stops (`...` included), provided
the literal does not end with a dot when the continuation starts with one -/
theorem dec_escT_gen (rest : List Char) (hdec : dec' rest = some ([], 0)) : ∀ (n : Nat) (t : List Char),
    t.length ≤ n → (∀ c ∈ t, isRegular c = true ∨ isEsc c = true) → DotOK t rest →
    dec' (escT 0 t ++ rest) = some (t, (escT 0 t).length)
  | _, [], _, _, _ => by simpa [escT] using hdec
  | 0, c :: t, h, _, _ => by simp at h
  | n + 1, c :: t, hlen, hperm, hok => by
    have hlen' : t.length ≤ n := by simpa using hlen
    have hperm' : ∀ x ∈ t, isRegular x = true ∨ isEsc x = true := fun x hx => hperm x (by simp [hx])
    have hok' : DotOK t rest := hok.tail
    by_cases hc : c = '.'
    · subst hc
      rw [escT_dot_lt 0 t (by omega)]
      cases t with
      | nil =>
        have hnd : NotDotHead rest := by
          rcases hok with h | h
          · exact h
          · simp at h
        have hrun : dotRun ('.' :: rest) = 1 := by
          rw [dotRun_cons_dot, dotRun_notDot rest hnd]
        simp only [escT, List.cons_append, List.nil_append]
        rw [dec'_dot, hrun]
        simp [hdec]
      | cons c2 t2 =>
        by_cases hc2 : c2 = '.'
        · subst hc2
          rw [escT_dot_lt 1 t2 (by omega)]
          have hok2 : DotOK t2 rest := hok'.tail
          have hnd : NotDotHead (escT 2 t2 ++ rest) := by
            cases t2 with
            | nil =>
              rcases hok' with h | h
              · simpa [escT] using h
              · simp at h
            | cons c3 t3 => exact escT_notDot' 2 _ rest (by simp) (.inr (Nat.le_refl _))
          have hrun : dotRun ('.' :: '.' :: (escT 2 t2 ++ rest)) = 2 := by
            rw [dotRun_cons_dot, dotRun_cons_dot, dotRun_notDot _ hnd]
          simp only [List.cons_append]
          rw [dec'_dot, hrun]
          simp only [show ¬ (2 ≥ 3) by omega, if_false, List.drop_succ_cons, List.drop_zero]
          cases t2 with
          | nil =>
            simp [escT, hdec, List.replicate]
          | cons c3 t3 =>
            by_cases hc3 : c3 = '.'
            · subst hc3
              rw [escT_dot_ge 2 t3 (Nat.le_refl _)]
              simp only [List.cons_append]
              rw [dec'_esc]
              have hesc : isEsc '.' = true := by decide
              simp only [hesc, if_true]
              have ih := dec_escT_gen rest hdec n t3 (by simp at hlen'; omega)
                (fun x hx => hperm x (by simp [hx])) hok2.tail
              rw [ih]
              simp [List.replicate]
            · have hpr3 : escT 2 (c3 :: t3) = escT 0 (c3 :: t3) :=
                escT_reset 2 _ (.inr ⟨c3, t3, rfl, hc3⟩)
              rw [hpr3]
              have ih := dec_escT_gen rest hdec n (c3 :: t3) (by simp at hlen' ⊢; omega)
                (fun x hx => hperm x (by
                  simp only [List.mem_cons] at hx ⊢
                  exact .inr (.inr hx))) hok2
              rw [ih]
              simp [List.replicate]
        · rw [escT_reset 1 _ (.inr ⟨c2, t2, rfl, hc2⟩)]
          simp only [List.cons_append]
          have hnd : NotDotHead (escT 0 (c2 :: t2) ++ rest) :=
            escT_notDot' 0 _ rest (by simp) (.inl ⟨c2, t2, rfl, hc2⟩)
          have hrun : dotRun ('.' :: (escT 0 (c2 :: t2) ++ rest)) = 1 := by
            rw [dotRun_cons_dot, dotRun_notDot _ hnd]
          rw [dec'_dot, hrun]
          simp only [show ¬ (1 ≥ 3) by omega, if_false, List.drop_succ_cons, List.drop_zero]
          have ih := dec_escT_gen rest hdec n (c2 :: t2) hlen' hperm' hok'
          rw [ih]
          simp [List.replicate]
    · by_cases hreg : isRegular c = true
      · rw [escT_reg 0 c t hc hreg]
        simp only [List.cons_append]
        rw [dec'_regular c _ hreg, dec_escT_gen rest hdec n t hlen' hperm' hok']
        simp
      · have hreg' : isRegular c = false := by simpa using hreg
        have hesc : isEsc c = true := by
          rcases hperm c (by simp) with h | h
          · rw [h] at hreg'; cases hreg'
          · exact h
        rw [escT_spec 0 c t hc hreg']
        simp only [List.cons_append]
        rw [dec'_esc, dec_escT_gen rest hdec n t hlen' hperm' hok']
        simp [hesc]

theorem terminal_roundtrip_gen (t rest : List Char) (s : PState) (ht : t ≠ [])
    (hperm : ∀ c ∈ t, isRegular c = true ∨ isEsc c = true) (hdec : dec' rest = some ([], 0))
    (hok : DotOK t rest) (hs : s.rest = escT 0 t ++ rest) :
    terminal s = some (s.adv (escT 0 t).length, String.ofList t) := by
  rw [terminal_eq_dec, hs, dec_escT_gen rest hdec t.length t (Nat.le_refl _) hperm hok]
  have : t.isEmpty = false := by cases t with | nil => exact absurd rfl ht | cons _ _ => rfl
  simp [this]


/-- a printed literal followed by something that does not begin with a dot never begins with `...` -/
theorem escT_dots3 (t X : List Char) (hX : NotDotHead X) : dots3 (escT 0 t ++ X) = false := by
  cases t with
  | nil => simpa [escT] using dots3_notDot X hX
  | cons c t =>
    by_cases hc : c = '.'
    · subst hc
      rw [escT_dot_lt 0 t (by omega)]
      cases t with
      | nil => simpa [escT] using dots3_dot_notDot X hX
      | cons c2 t2 =>
        by_cases hc2 : c2 = '.'
        · subst hc2
          rw [escT_dot_lt 1 t2 (by omega)]
          have : NotDotHead (escT 2 t2 ++ X) := by
            cases t2 with
            | nil => simpa [escT] using hX
            | cons c3 t3 => exact escT_notDot' 2 _ X (by simp) (.inr (Nat.le_refl _))
          exact dots3_dot_dot_notDot _ this
        · have := escT_notDot' 1 (c2 :: t2) X (by simp) (.inl ⟨c2, t2, rfl, hc2⟩)
          exact dots3_dot_notDot _ this
    · exact dots3_notDot _ (escT_notDot' 0 (c :: t) X (by simp) (.inl ⟨c, t, rfl, hc⟩))

/-- a character a printed literal can begin with -/
def litStart (c : Char) : Bool := (isRegular c && c != '#') || c == '\\' || c == '.'

theorem litStart_spec {c : Char} (h : litStart c = true) :
    notBlank c = true ∧ c ≠ '"' ∧ c ≠ '<' ∧ c ≠ '[' ∧ c ≠ '(' ∧ c ≠ '{' := by
  simp only [litStart, Bool.or_eq_true, Bool.and_eq_true, bne_iff_ne, ne_eq, beq_iff_eq] at h
  rcases h with (⟨h, hx⟩ | h) | h
  · have hs := starter_spec (regular_starter h hx)
    exact ⟨hs.1, hs.2.1, regular_ne h _ (by decide), regular_ne h _ (by decide), regular_ne h _ (by decide),
      regular_ne h _ (by decide)⟩
  · subst h; decide
  · subst h; decide

theorem escT_head (t : List Char) (ht : t ≠ []) (hh : t.head? ≠ some '#') :
    ∃ c r, escT 0 t = c :: r ∧ litStart c = true := by
  cases t with
  | nil => exact absurd rfl ht
  | cons c t =>
    by_cases hc : c = '.'
    · subst hc; exact ⟨'.', _, escT_dot_lt 0 t (by omega), by decide⟩
    · by_cases hreg : isRegular c = true
      · refine ⟨c, _, escT_reg 0 c t hc hreg, ?_⟩
        have : c ≠ '#' := by simpa using hh
        simp [litStart, hreg, this]
      · exact ⟨'\\', _, escT_spec 0 c t hc (by simpa using hreg), by decide⟩

/-! ### what may follow -/

/-- nothing is required -/
def Any (_ : List Char) : Prop := True
/-- after a literal without description, at the base level -/
def BL (t rest : List Char) : Prop := BCont rest ∧ DotOK t rest
/-- after a unary expression within a word: no `...` follows -/
def WD (rest : List Char) : Prop := dots3 (afterBlanks rest) = false
/-- after a literal without description within a word -/
def WL (t rest : List Char) : Prop := BL t rest ∧ WD rest
/-- after a word that may get a description -/
def UD (rest : List Char) : Prop := StopHead rest ∧ WD rest
/-- after a word: neither another unary expression directly, nor `...`, nor a description -/
def UC (rest : List Char) : Prop := StopHead rest ∧ (∀ r, afterBlanks rest ≠ '"' :: r) ∧ WD rest

theorem UC.d {rest : List Char} (h : UC rest) : UD rest := ⟨h.1, h.2.2⟩
theorem UD.w {rest : List Char} (h : UD rest) : WD rest := h.2

theorem _root_.Complgen.Parse.StopHead.notDot {l : List Char} (h : StopHead l) : NotDotHead l := by
  rcases h with rfl | ⟨c, r, rfl, hc⟩
  · exact .inl rfl
  · exact .inr ⟨c, r, rfl, (stopCh_spec hc).2.2.1⟩

theorem UC.b {rest : List Char} (h : UC rest) : BCont rest := ⟨h.1.dec, h.2.1⟩
theorem UC.bl {rest : List Char} (h : UC rest) (t : List Char) : BL t rest := ⟨h.b, .inl h.1.notDot⟩
theorem UC.wl {rest : List Char} (h : UC rest) (t : List Char) : WL t rest := ⟨h.bl t, h.2.2⟩

theorem _root_.Complgen.Parse.SCont.uc {rest : List Char} (h : SCont rest) : UC rest := by
  refine ⟨h.1, ?_, ?_⟩
  · intro r e
    exact h.2.ne '"' (by decide) r e
  · exact dots3_notDot _ h.2.notDot

theorem _root_.Complgen.Parse.PT.weaken {L : Nat → PState → Option (PState × Expr)} {C C' : List Char → Prop} {n : Nat}
    {T : List Char} {E : Expr} (h : PT L C n T E) (hc : ∀ r, C' r → C r) : PT L C' n T E :=
  fun rest hr s hs f hf => h rest (hc rest hr) s hs f hf

/-! ### atoms -/

theorem lit_bare_PT (t : List Char) (ht : t ≠ []) (hperm : ∀ c ∈ t, isRegular c = true ∨ isEsc c = true)
    (hh : t.head? ≠ some '#') :
    PT baseP (BL t) 0 (escT 0 t) (.term (String.ofList t) none 0 default) := by
  intro rest hrest s hs f _
  have hterm := terminal_roundtrip_gen t rest s ht hperm hrest.1.1 hrest.2 hs
  have hod : optDescription (s.adv (escT 0 t).length) = (s.adv (escT 0 t).length, none) :=
    optDescription_none _ (by rw [adv_rest_append s _ rest hs]; exact hrest.1.2)
  obtain ⟨x, r, hx, hstart⟩ := escT_head t ht hh
  obtain ⟨_, _, h3, h4, h5, h6⟩ := litStart_spec hstart
  have hne : ∀ y, x ≠ y → ∀ r', s.rest ≠ y :: r' := by
    intro y hy r' e; rw [hs, hx] at e; cases e; exact hy rfl
  refine ⟨.term (String.ofList t) none 0 (fromRange s (s.adv (escT 0 t).length)), ?_, rfl⟩
  unfold baseP
  rw [nonterm_none s (hne _ h3), optional_none f s (hne _ h4),
    parenthesized_none f s (hne _ h5), triple_none s (hne _ h6), hterm]
  simp only [hod]

/-- the printed form of a description, after the blank that separates it -/
def descrText (d : List Char) : List Char := ' ' :: '"' :: escD d ++ ['"']

theorem lit_descr_PT (t d : List Char) (ht : t ≠ []) (hperm : ∀ c ∈ t, isRegular c = true ∨ isEsc c = true)
    (hh : t.head? ≠ some '#') :
    PT baseP Any 0 (escT 0 t ++ descrText d)
      (.term (String.ofList t) (some (String.ofList d)) 0 default) := by
  intro rest _ s hs f _
  have hs' : s.rest = escT 0 t ++ (' ' :: '"' :: escD d ++ '"' :: rest) := by
    rw [hs]; simp [descrText]
  have hterm := terminal_roundtrip t _ s ht hperm (.inr ⟨' ', _, rfl, by decide, by decide, by decide⟩) hs'
  have hr1 := adv_rest_append s _ _ hs'
  have hm := mb0_space_nb (s.adv (escT 0 t).length) '"' _ (by decide) hr1
  have hr2 : ((s.adv (escT 0 t).length).adv 1).rest = '"' :: escD d ++ '"' :: rest := by
    rw [adv_rest', hr1]; rfl
  have hd := description_roundtrip d rest _ hr2
  have hod : optDescription (s.adv (escT 0 t).length) =
      (s.adv (escT 0 t ++ descrText d).length, some (String.ofList d)) := by
    unfold optDescription
    rw [hm, hd]
    simp only [adv_add']
    congr 2
    simp [descrText]; omega
  obtain ⟨x, r, hx, hstart⟩ := escT_head t ht hh
  obtain ⟨_, _, h3, h4, h5, h6⟩ := litStart_spec hstart
  have hne : ∀ y, x ≠ y → ∀ r', s.rest ≠ y :: r' := by
    intro y hy r' e; rw [hs', hx] at e; cases e; exact hy rfl
  refine ⟨.term (String.ofList t) (some (String.ofList d)) 0
    (fromRange s (s.adv (escT 0 t ++ descrText d).length)), ?_, rfl⟩
  unfold baseP
  rw [nonterm_none s (hne _ h3), optional_none f s (hne _ h4),
    parenthesized_none f s (hne _ h5), triple_none s (hne _ h6), hterm]
  simp only [hod]

theorem nonterm_PT' (n : List Char) (hn : n ≠ []) (hgt : ∀ c ∈ n, c ≠ '>') :
    PT baseP Any 0 ('<' :: n ++ ['>']) (.nonterm (String.ofList n) 0 default) := by
  intro rest _ s hs f _
  obtain ⟨sp, h⟩ := nonterm_ok n rest s hn hgt (by simpa using hs)
  refine ⟨.nonterm (String.ofList n) 0 sp, ?_, rfl⟩
  unfold baseP
  rw [h]
  simp

theorem cmd_PT' (c : List Char) (h1 : ∀ x, c.head? = some x → isWs x = false)
    (h2 : ∀ x, c.getLast? = some x → isWs x = false) (h3 : noTriple c = true) :
    PT baseP Any 0 (cmdText c) (.cmd (String.ofList c) false 0 default) := by
  intro rest _ s hs f _
  have hs' : s.rest = '{' :: '{' :: '{' :: ' ' :: c ++ ' ' :: '}' :: '}' :: '}' :: rest := by
    rw [hs]; simp [cmdText]
  have h := cmd_ok c rest s h1 h2 h3 hs'
  have hne : ∀ x, x ≠ '{' → ∀ r, s.rest ≠ x :: r := by
    intro x hx r e; rw [hs'] at e; cases e; exact hx rfl
  have hlen : (cmdText c).length = c.length + 8 := by simp [cmdText]
  refine ⟨.cmd (String.ofList c) false 0 (fromRange s (s.adv (c.length + 8))), ?_, rfl⟩
  unfold baseP
  rw [nonterm_none s (hne _ (by decide)), optional_none f s (hne _ (by decide)),
    parenthesized_none f s (hne _ (by decide)), h, hlen]


/-! ### from one level of the ladder to the next -/

theorem many1Tag_none' (s : PState) (h : dots3 (afterBlanks s.rest) = false) : many1Tag s = none := by
  unfold many1Tag tag? startsWith
  have : "...".toList = ['.', '.', '.'] := by rfl
  rw [this, mb0_rest, prefix_dots3, h]
  rfl

/-- a base expression not followed by `...` is a unary expression -/
theorem lift_B_U' {C C' : List Char → Prop} {n : Nat} {T : List Char} {E : Expr} (h : PT baseP C n T E)
    (hc : ∀ r, C' r → C r ∧ WD r) : PT unary C' (n + 1) T E := by
  intro rest hrest s hs f hf
  obtain ⟨f, rfl⟩ : ∃ f', f = f' + 1 := ⟨f - 1, by omega⟩
  obtain ⟨e', he, hE⟩ := h rest (hc rest hrest).1 s hs f (by omega)
  refine ⟨e', ?_, hE⟩
  rw [unary_succ, he]
  simp only
  rw [many1Tag_none' _ (by rw [adv_rest_append s T rest hs]; exact (hc rest hrest).2)]

/-- a base expression followed by `...`: nothing is required of what follows -/
theorem lift_B_many1' {n : Nat} {T : List Char} {E : Expr} (h : PT baseP BCont n T E) :
    PT unary Any (n + 1) (T ++ ['.', '.', '.']) (.many1 E default) := by
  intro rest _ s hs f hf
  obtain ⟨f, rfl⟩ : ∃ f', f = f' + 1 := ⟨f - 1, by omega⟩
  have hs' : s.rest = T ++ '.' :: '.' :: '.' :: rest := by rw [hs]; simp
  obtain ⟨e', he, hE⟩ := h _ (dots_BCont rest) s hs' f (by omega)
  refine ⟨.many1 e' (fromRange s ((s.adv T.length).adv 3)), ?_, by simp [Expr.eraseSpans, hE]⟩
  rw [unary_succ, he]
  simp only
  rw [many1Tag_some _ rest (adv_rest_append s T _ hs'), adv_add']
  simp

/-- a unary expression after which no other follows directly is a word -/
theorem lift_U_W {C C' : List Char → Prop} {n : Nat} {T : List Char} {E : Expr} (h : PT unary C n T E)
    (hc : ∀ r, C' r → C r ∧ StopHead r) : PT subwordSeq C' (n + 1) T E := by
  intro rest hrest s hs f hf
  obtain ⟨f, rfl⟩ : ∃ f', f = f' + 1 := ⟨f - 1, by omega⟩
  obtain ⟨e', he, hE⟩ := h rest (hc rest hrest).1 s hs f (by omega)
  have hr := adv_rest_append s T rest hs
  refine ⟨e', ?_, hE⟩
  rw [subwordSeq_succ, he]
  simp only
  rw [subwordLoop_stop f _ _ (by rw [hr]; exact (hc rest hrest).2)]

/-- a word after which no description follows -/
theorem lift_W_D {C C' : List Char → Prop} {n : Nat} {T : List Char} {E : Expr} (h : PT subwordSeq C n T E)
    (hc : ∀ r, C' r → C r ∧ ∀ r', afterBlanks r ≠ '"' :: r') : PT sseod C' (n + 1) T E := by
  intro rest hrest s hs f hf
  obtain ⟨f, rfl⟩ : ∃ f', f = f' + 1 := ⟨f - 1, by omega⟩
  obtain ⟨e', he, hE⟩ := h rest (hc rest hrest).1 s hs f (by omega)
  have hr := adv_rest_append s T rest hs
  refine ⟨e', ?_, hE⟩
  rw [sseod_succ, he]
  simp only
  rw [optDescription_none _ (by rw [hr]; exact (hc rest hrest).2)]

theorem optDescription_some (s : PState) (d rest : List Char) (hs : s.rest = descrText d ++ rest) :
    optDescription s = (s.adv (descrText d).length, some (String.ofList d)) := by
  have hs' : s.rest = ' ' :: '"' :: (escD d ++ '"' :: rest) := by rw [hs]; simp [descrText]
  have hm := mb0_space_nb s '"' _ (by decide) hs'
  have hr2 : (s.adv 1).rest = '"' :: escD d ++ '"' :: rest := by rw [adv_rest', hs']; rfl
  have hd := description_roundtrip d rest _ hr2
  unfold optDescription
  rw [hm, hd]
  simp only [adv_add']
  congr 2
  simp [descrText]; omega

theorem UD_descr (d rest : List Char) : UD (descrText d ++ rest) := by
  have : descrText d ++ rest = ' ' :: '"' :: (escD d ++ '"' :: rest) := by simp [descrText]
  rw [this]
  refine ⟨.inr ⟨' ', _, rfl, by decide⟩, ?_⟩
  unfold WD
  rw [afterBlanks_space, afterBlanks_notBlank _ _ (by decide)]
  exact dots3_cons_ne _ _ (by decide)

/-- a word followed by a description: nothing is required of what follows -/
theorem lift_W_dd {n : Nat} {T : List Char} {E : Expr} (d : List Char) (h : PT subwordSeq UD n T E) :
    PT sseod Any (n + 1) (T ++ descrText d) (.dd E (String.ofList d) default) := by
  intro rest _ s hs f hf
  obtain ⟨f, rfl⟩ : ∃ f', f = f' + 1 := ⟨f - 1, by omega⟩
  have hs' : s.rest = T ++ (descrText d ++ rest) := by rw [hs]; simp
  obtain ⟨e', he, hE⟩ := h _ (UD_descr d rest) s hs' f (by omega)
  have hr := adv_rest_append s T _ hs'
  refine ⟨.dd e' (String.ofList d) (fromRange s ((s.adv T.length).adv (descrText d).length)), ?_,
    by simp [Expr.eraseSpans, hE]⟩
  rw [sseod_succ, he]
  simp only
  rw [optDescription_some _ d rest hr]
  simp [adv_add']

/-- a word after which no other follows is a sequence -/
theorem lift_D_S' {C : List Char → Prop} {n : Nat} {T : List Char} {E : Expr} (h : PT sseod C n T E)
    (hc : ∀ r, SCont r → C r) : PT sequence SCont (n + 1) T E := by
  intro rest hrest s hs f hf
  obtain ⟨f, rfl⟩ : ∃ f', f = f' + 1 := ⟨f - 1, by omega⟩
  obtain ⟨e', he, hE⟩ := h rest (hc rest hrest) s hs f (by omega)
  have hr := adv_rest_append s T rest hs
  refine ⟨e', ?_, hE⟩
  rw [sequence_succ, he]
  simp only
  rw [sequenceLoop_stop f _ _ (by rw [hr]; exact hrest.2)]

/-! ### groups -/

/-- the text begins with a character at which blanks and comments stop -/
def NBStart (T : List Char) : Prop := ∃ c r, T = c :: r ∧ notBlank c = true

theorem mb0_nbstart (s : PState) (T r : List Char) (hT : NBStart T) (hs : s.rest = T ++ r) : mb0 s = s := by
  obtain ⟨c, r', rfl, hc⟩ := hT
  exact mb0_notBlank s c (r' ++ r) hs hc

theorem paren_PT' {n : Nat} {T : List Char} {E : Expr} (hT : NBStart T) (h : PT fallback FCont n T E) :
    PT baseP Any (n + 1) ('(' :: T ++ [')']) E := by
  intro rest _ s hs f hf
  obtain ⟨f, rfl⟩ : ∃ f', f = f' + 1 := ⟨f - 1, by omega⟩
  have hs' : s.rest = '(' :: T ++ ')' :: rest := by rw [hs]; simp
  have hne : ∀ x, x ≠ '(' → ∀ r, s.rest ≠ x :: r := by
    intro x hx r e; rw [hs'] at e; cases e; exact hx rfl
  have hr1 : (s.adv 1).rest = T ++ ')' :: rest := by rw [adv_rest', hs']; rfl
  obtain ⟨e', he, hE⟩ := h (')' :: rest) (FCont_close _ _ (by decide) (by decide) (by decide))
    (s.adv 1) hr1 f (by omega)
  have hr2 : ((s.adv 1).adv T.length).rest = ')' :: rest := adv_rest_append _ _ _ hr1
  refine ⟨e', ?_, hE⟩
  unfold baseP
  rw [nonterm_none s (hne _ (by decide)), optional_none _ s (hne _ (by decide)), parenthesized_succ,
    char?_some '(' s _ hs']
  simp only
  rw [mb0_nbstart _ T _ hT hr1, he]
  simp only
  rw [mb0_notBlank _ _ _ hr2 (by decide), char?_some ')' _ _ hr2]
  simp only [adv_add']
  rw [show ('(' :: T ++ [')']).length = 1 + T.length + 1 by simp; omega]

theorem bracket_PT' {n : Nat} {T : List Char} {E : Expr} (hT : NBStart T) (h : PT fallback FCont n T E) :
    PT baseP Any (n + 1) ('[' :: T ++ [']']) (.opt E default) := by
  intro rest _ s hs f hf
  obtain ⟨f, rfl⟩ : ∃ f', f = f' + 1 := ⟨f - 1, by omega⟩
  have hs' : s.rest = '[' :: T ++ ']' :: rest := by rw [hs]; simp
  have hne : ∀ x, x ≠ '[' → ∀ r, s.rest ≠ x :: r := by
    intro x hx r e; rw [hs'] at e; cases e; exact hx rfl
  have hr1 : (s.adv 1).rest = T ++ ']' :: rest := by rw [adv_rest', hs']; rfl
  obtain ⟨e', he, hE⟩ := h (']' :: rest) (FCont_close _ _ (by decide) (by decide) (by decide))
    (s.adv 1) hr1 f (by omega)
  have hr2 : ((s.adv 1).adv T.length).rest = ']' :: rest := adv_rest_append _ _ _ hr1
  refine ⟨.opt e' (fromRange s (s.adv (1 + T.length + 1))), ?_, by simp [Expr.eraseSpans, hE]⟩
  unfold baseP
  rw [nonterm_none s (hne _ (by decide)), optional_succ, char?_some '[' s _ hs']
  simp only
  rw [mb0_nbstart _ T _ hT hr1, he]
  simp only
  rw [mb0_notBlank _ _ _ hr2 (by decide), char?_some ']' _ _ hr2]
  simp only [adv_add']
  rw [show ('[' :: T ++ [']']).length = 1 + T.length + 1 by simp; omega]

/-! ### the three loops -/

theorem mb0Aux_space_nbstart (T r : List Char) (hT : NBStart T) : mb0Aux false (' ' :: T ++ r) = 1 := by
  obtain ⟨c, r', rfl, hc⟩ := hT
  rw [List.cons_append, mb0Aux_space, List.cons_append, mb0Aux_notBlank c _ hc]

theorem mb0_space_nbstart (s : PState) (T r : List Char) (hT : NBStart T)
    (hs : s.rest = ' ' :: T ++ r) : mb0 s = s.adv 1 := by
  rw [mb0_eq, hs, mb0Aux_space_nbstart T r hT]

theorem seqLoop_cons' {n1 n2 : Nat} {T1 T2 : List Char} {E1 : Expr} {Es : ExprL} (hT1 : NBStart T1)
    (h1 : PT sseod UC n1 T1 E1) (h2 : LT sequenceLoop SCont n2 T2 Es)
    (hc : ∀ rest, SCont rest → UC (T2 ++ rest)) :
    LT sequenceLoop SCont (max n1 n2 + 1) (' ' :: T1 ++ T2) (.cons E1 Es) := by
  intro rest hrest s hs acc f hf
  obtain ⟨f, rfl⟩ : ∃ f', f = f' + 1 := ⟨f - 1, by omega⟩
  have hs' : s.rest = ' ' :: T1 ++ (T2 ++ rest) := by rw [hs]; simp
  have hmb : mb1 s = some (s.adv 1) := by
    rw [mb1_eq, hs', mb0Aux_space_nbstart T1 _ hT1]; rfl
  have hr1 : (s.adv 1).rest = T1 ++ (T2 ++ rest) := by rw [adv_rest', hs']; rfl
  obtain ⟨e1, he1, hE1⟩ := h1 (T2 ++ rest) (hc rest hrest) (s.adv 1) hr1 f (by omega)
  have hr2 : ((s.adv 1).adv T1.length).rest = T2 ++ rest := adv_rest_append _ _ _ hr1
  obtain ⟨es', hes, hEs⟩ := h2 rest hrest _ hr2 (acc ++ [e1]) f (by omega)
  refine ⟨e1 :: es', ?_, by simp [ExprL.ofList, ExprL.eraseSpans, hE1, hEs]⟩
  rw [sequenceLoop_succ, hmb]
  simp only
  rw [he1]
  simp only
  rw [hes, adv_add', adv_add']
  simp [Nat.add_assoc]
  congr 1; omega

theorem altLoop_cons' {n1 n2 : Nat} {T1 T2 : List Char} {E1 : Expr} {Es : ExprL} (hT1 : NBStart T1)
    (h1 : PT sequence SCont n1 T1 E1) (h2 : LT alternativeLoop ACont n2 T2 Es)
    (hc : ∀ rest, ACont rest → SCont (T2 ++ rest)) :
    LT alternativeLoop ACont (max n1 n2 + 1) (' ' :: '|' :: ' ' :: T1 ++ T2) (.cons E1 Es) := by
  intro rest hrest s hs acc f hf
  obtain ⟨f, rfl⟩ : ∃ f', f = f' + 1 := ⟨f - 1, by omega⟩
  have hs' : s.rest = ' ' :: '|' :: ' ' :: T1 ++ (T2 ++ rest) := by rw [hs]; simp
  have hm1 : mb0 s = s.adv 1 := mb0_space_nb s '|' _ (by decide) hs'
  have hr1 : (s.adv 1).rest = '|' :: ' ' :: T1 ++ (T2 ++ rest) := by rw [adv_rest', hs']; rfl
  have hr2 : ((s.adv 1).adv 1).rest = ' ' :: T1 ++ (T2 ++ rest) := by rw [adv_rest', hr1]; rfl
  have hm2 : mb0 ((s.adv 1).adv 1) = ((s.adv 1).adv 1).adv 1 := mb0_space_nbstart _ T1 _ hT1 hr2
  have hr3 : (((s.adv 1).adv 1).adv 1).rest = T1 ++ (T2 ++ rest) := by rw [adv_rest', hr2]; rfl
  obtain ⟨e1, he1, hE1⟩ := h1 (T2 ++ rest) (hc rest hrest) _ hr3 f (by omega)
  have hr4 : ((((s.adv 1).adv 1).adv 1).adv T1.length).rest = T2 ++ rest := adv_rest_append _ _ _ hr3
  obtain ⟨es', hes, hEs⟩ := h2 rest hrest _ hr4 (acc ++ [e1]) f (by omega)
  refine ⟨e1 :: es', ?_, by simp [ExprL.ofList, ExprL.eraseSpans, hE1, hEs]⟩
  rw [alternativeLoop_succ, hm1, char?_some '|' _ _ hr1]
  simp only
  rw [hm2, he1]
  simp only
  rw [hes]
  simp only [adv_add']
  simp [Nat.add_assoc]
  congr 1; omega

theorem fbLoop_cons' {n1 n2 : Nat} {T1 T2 : List Char} {E1 : Expr} {Es : ExprL} (hT1 : NBStart T1)
    (h1 : PT alternative ACont n1 T1 E1) (h2 : LT fallbackLoop FCont n2 T2 Es)
    (hc : ∀ rest, FCont rest → ACont (T2 ++ rest)) :
    LT fallbackLoop FCont (max n1 n2 + 1) (' ' :: '|' :: '|' :: ' ' :: T1 ++ T2) (.cons E1 Es) := by
  intro rest hrest s hs acc f hf
  obtain ⟨f, rfl⟩ : ∃ f', f = f' + 1 := ⟨f - 1, by omega⟩
  have hs' : s.rest = ' ' :: '|' :: '|' :: ' ' :: T1 ++ (T2 ++ rest) := by rw [hs]; simp
  have hm1 : mb0 s = s.adv 1 := mb0_space_nb s '|' _ (by decide) hs'
  have hr1 : (s.adv 1).rest = '|' :: '|' :: ' ' :: T1 ++ (T2 ++ rest) := by rw [adv_rest', hs']; rfl
  have htag : tag? "||" (s.adv 1) = some ((s.adv 1).adv 2) := by
    apply tag?_some _ _ (by decide)
    have : "||".toList = ['|', '|'] := by rfl
    rw [this, hr1]; simp [List.isPrefixOf]
  have hr2 : ((s.adv 1).adv 2).rest = ' ' :: T1 ++ (T2 ++ rest) := by rw [adv_rest', hr1]; rfl
  have hm2 : mb0 ((s.adv 1).adv 2) = ((s.adv 1).adv 2).adv 1 := mb0_space_nbstart _ T1 _ hT1 hr2
  have hr3 : (((s.adv 1).adv 2).adv 1).rest = T1 ++ (T2 ++ rest) := by rw [adv_rest', hr2]; rfl
  obtain ⟨e1, he1, hE1⟩ := h1 (T2 ++ rest) (hc rest hrest) _ hr3 f (by omega)
  have hr4 : ((((s.adv 1).adv 2).adv 1).adv T1.length).rest = T2 ++ rest := adv_rest_append _ _ _ hr3
  obtain ⟨es', hes, hEs⟩ := h2 rest hrest _ hr4 (acc ++ [e1]) f (by omega)
  refine ⟨e1 :: es', ?_, by simp [ExprL.ofList, ExprL.eraseSpans, hE1, hEs]⟩
  rw [fallbackLoop_succ, hm1, htag]
  simp only
  rw [hm2, he1]
  simp only
  rw [hes]
  simp only [adv_add']
  simp [Nat.add_assoc]
  congr 1; omega

theorem seq_native' {n1 n2 : Nat} {T1 T2 : List Char} {E1 E2 : Expr} {Es : ExprL}
    (h1 : PT sseod UC n1 T1 E1) (h2 : LT sequenceLoop SCont n2 T2 (.cons E2 Es))
    (hc : ∀ rest, SCont rest → UC (T2 ++ rest)) :
    PT sequence SCont (max n1 n2 + 1) (T1 ++ T2) (.seq (.cons E1 (.cons E2 Es)) default) := by
  intro rest hrest s hs f hf
  obtain ⟨f, rfl⟩ : ∃ f', f = f' + 1 := ⟨f - 1, by omega⟩
  have hs' : s.rest = T1 ++ (T2 ++ rest) := by rw [hs]; simp
  obtain ⟨e1, he1, hE1⟩ := h1 (T2 ++ rest) (hc rest hrest) s hs' f (by omega)
  have hr1 : (s.adv T1.length).rest = T2 ++ rest := adv_rest_append _ _ _ hs'
  obtain ⟨es', hes, hEs⟩ := h2 rest hrest _ hr1 [e1] f (by omega)
  obtain ⟨x, xs, rfl⟩ := ofList_erase_ne_nil hEs
  refine ⟨.seq (ExprL.ofList (e1 :: x :: xs)) (fromRange s (s.adv (T1 ++ T2).length)), ?_, ?_⟩
  · rw [sequence_succ, he1]
    simp only
    rw [hes, adv_add']
    simp
  · simp only [ExprL.ofList, Expr.eraseSpans, ExprL.eraseSpans, hE1]
    simp only [ExprL.ofList, ExprL.eraseSpans] at hEs
    rw [hEs]


/-! ### the printer, the normal form -/

def endsDot (t : List Char) : Bool := t.getLast? == some '.'

/-- a literal without description -/
def bare : Expr → Bool
  | .term _ none _ _ => true
  | _ => false

/-- the last expression of the list (or `b` when there is none) is a literal without description -/
def lastBare : Bool → ExprL → Bool
  | b, .nil => b
  | _, .cons e es => lastBare (bare e) es

mutual
/-- the printer; the context is the level of the ladder the text has to be read at:
0 `fallback` (anything), 1 `alternative` (operand of `||`), 2 `sequence` (operand of `|`),
3 a word of a sequence, 4 the operand of a postfix `...`, 5 the expression a description is attached
to, 6 a factor of a word (juxtaposition without blanks) -/
def pp' : Nat → Expr → List Char
  | ctx, .term t none _ _ => parenIf (ctx == 5 || (ctx == 4 && endsDot t.toList)) (escT 0 t.toList)
  | _, .term t (some d) _ _ => escT 0 t.toList ++ descrText d.toList
  | _, .nonterm n _ _ => '<' :: n.toList ++ ['>']
  | _, .cmd c _ _ _ => cmdText c.toList
  | ctx, .seq cs _ => parenIf (decide (3 ≤ ctx)) (ppList' 3 sepS cs)
  | ctx, .alt cs _ => parenIf (decide (2 ≤ ctx)) (ppList' 2 sepA cs)
  | ctx, .fb cs _ => parenIf (decide (1 ≤ ctx)) (ppList' 1 sepF cs)
  | _, .opt c _ => '[' :: pp' 0 c ++ [']']
  | ctx, .many1 c _ => parenIf (ctx == 4) (pp' 4 c ++ ['.', '.', '.'])
  | ctx, .dd c d _ => parenIf (decide (4 ≤ ctx)) (pp' 5 c ++ descrText d.toList)
  | ctx, .sub (.seq fs _) _ _ => parenIf (ctx == 4 || ctx == 6 || (ctx == 5 && lastBare false fs)) (ppList' 6 [] fs)
  | _, .sub _ _ _ => []
def ppList' : Nat → List Char → ExprL → List Char
  | _, _, .nil => []
  | ctx, sep, .cons e es => pp' ctx e ++ ppTail' ctx sep es
def ppTail' : Nat → List Char → ExprL → List Char
  | _, _, .nil => []
  | ctx, sep, .cons e es => sep ++ pp' ctx e ++ ppTail' ctx sep es
end


mutual
/-- no juxtaposition node anywhere in the tree (`flatten_expr` leaves it unchanged) -/
def NoSub : Expr → Prop
  | .term _ _ _ _ => True
  | .nonterm _ _ _ => True
  | .cmd _ _ _ _ => True
  | .seq cs _ => NoSubL cs
  | .alt cs _ => NoSubL cs
  | .fb cs _ => NoSubL cs
  | .opt c _ => NoSub c
  | .many1 c _ => NoSub c
  | .dd c _ _ => NoSub c
  | .sub _ _ _ => False
def NoSubL : ExprL → Prop
  | .nil => True
  | .cons e es => NoSub e ∧ NoSubL es
end

/-- the text begins with `<`, `[`, `(` or `{`: it cannot continue a literal -/
def BracketHead (T : List Char) : Prop := ∃ c r, T = c :: r ∧ (c = '<' ∨ c = '[' ∨ c = '(' ∨ c = '{')

mutual
/-- the trees of the fragment, in the shape the parser returns them -/
def NF' : Expr → Prop
  | .term t _ l _ => l = 0 ∧ t.toList ≠ [] ∧ (∀ c ∈ t.toList, isRegular c = true ∨ isEsc c = true) ∧
      t.toList.head? ≠ some '#'
  | .nonterm n l _ => l = 0 ∧ n.toList ≠ [] ∧ ∀ c ∈ n.toList, c ≠ '>'
  | .cmd c a l _ => a = false ∧ l = 0 ∧ (∀ x, c.toList.head? = some x → isWs x = false) ∧
      (∀ x, c.toList.getLast? = some x → isWs x = false) ∧ noTriple c.toList = true
  | .seq cs _ => 2 ≤ cs.length ∧ NFL' cs
  | .alt cs _ => 2 ≤ cs.length ∧ NFL' cs
  | .fb cs _ => 2 ≤ cs.length ∧ NFL' cs
  | .opt c _ => NF' c
  | .many1 c _ => NF' c
  | .dd c _ _ => NF' c
  | .sub (.seq fs _) l _ => l = 0 ∧ 2 ≤ fs.length ∧ NFW fs
  | .sub _ _ _ => False
def NFL' : ExprL → Prop
  | .nil => True
  | .cons e es => NF' e ∧ NFL' es
/-- the factors of a word: no juxtaposition inside a factor (the parser flattens the factors), and a
literal without description is followed by a factor that begins with a bracket (two adjacent literals
would be read as one; `ppTail' 6 [] fs` is the concatenation of the texts of the factors `fs`) -/
def NFW : ExprL → Prop
  | .nil => True
  | .cons f fs => NF' f ∧ NoSub f ∧ (bare f = true → fs = .nil ∨ BracketHead (ppTail' 6 [] fs)) ∧ NFW fs
end

/-! ### all levels at once -/

/-- the text begins with a character at which blanks and comments stop and that does not open a
description -/
def Starts (T : List Char) : Prop := ∃ c r, T = c :: r ∧ notBlank c = true ∧ c ≠ '"'

theorem Starts.nb {T : List Char} (h : Starts T) : NBStart T := by
  obtain ⟨c, r, e, h1, _⟩ := h; exact ⟨c, r, e, h1⟩

theorem Starts.append {T : List Char} (h : Starts T) (X : List Char) : Starts (T ++ X) := by
  obtain ⟨c, r, rfl, hc⟩ := h
  exact ⟨c, r ++ X, rfl, hc⟩

theorem Starts.parenIf {T : List Char} (h : Starts T) (b : Bool) : Starts (parenIf b T) := by
  cases b
  · exact h
  · exact ⟨'(', T ++ [')'], rfl, by decide, by decide⟩

theorem Starts.paren (T : List Char) : Starts (paren T) := ⟨'(', T ++ [')'], rfl, by decide, by decide⟩

/-- the seven texts of an expression are read back at the seven levels; `W` is what may follow the
expression when it is a factor of a word -/
structure AllT' (N : Nat) (W : List Char → Prop) (T0 T1 T2 T3 T4 T5 T6 : List Char) (E : Expr) : Prop where
  p0 : PT fallback FCont N T0 E
  p1 : PT alternative ACont N T1 E
  p2 : PT sequence SCont N T2 E
  p3 : PT sseod UC N T3 E
  p4 : PT baseP BCont N T4 E
  p5 : PT subwordSeq UD N T5 E
  p6 : PT unary W N T6 E

theorem AllT'.mono {n m : Nat} {W : List Char → Prop} {T0 T1 T2 T3 T4 T5 T6 : List Char} {E : Expr}
    (h : AllT' n W T0 T1 T2 T3 T4 T5 T6 E) (hnm : n ≤ m) : AllT' m W T0 T1 T2 T3 T4 T5 T6 E :=
  ⟨h.p0.mono hnm, h.p1.mono hnm, h.p2.mono hnm, h.p3.mono hnm, h.p4.mono hnm, h.p5.mono hnm, h.p6.mono hnm⟩

/-- a word (that may be followed by a description) up to the top of the ladder -/
theorem up_W {C : List Char → Prop} {n : Nat} {T : List Char} {E : Expr} (h : PT subwordSeq C n T E)
    (hc : ∀ r, UC r → C r) :
    PT sseod UC (n + 1) T E ∧ PT sequence SCont (n + 2) T E ∧ PT alternative ACont (n + 3) T E ∧
    PT fallback FCont (n + 4) T E := by
  have h3 : PT sseod UC (n + 1) T E := lift_W_D h (fun r hr => ⟨hc r hr, hr.2.1⟩)
  have h2 := lift_D_S' h3 (fun r hr => hr.uc)
  have h1 := lift_S_A h2
  have h0 := lift_A_F h1
  exact ⟨h3, h2, h1, h0⟩

/-- a base expression after which nothing is required, at every level -/
theorem asmBase {n : Nat} {T : List Char} {E : Expr} (h : PT baseP Any n T E) :
    AllT' (n + 9) WD T T T T T T T E := by
  have h6 : PT unary WD (n + 1) T E := lift_B_U' h (fun r hr => ⟨trivial, hr⟩)
  have h5 : PT subwordSeq UD (n + 2) T E := lift_U_W h6 (fun r hr => ⟨hr.2, hr.1⟩)
  obtain ⟨h3, h2, h1, h0⟩ := up_W h5 (fun r hr => hr.d)
  exact ⟨h0.mono (by omega), h1.mono (by omega), h2.mono (by omega), h3.mono (by omega),
    (h.weaken (fun _ _ => trivial)).mono (by omega), h5.mono (by omega), h6.mono (by omega)⟩

/-- the parenthesised text, at every level -/
theorem asmParen {n : Nat} {T : List Char} {E : Expr} (hT : NBStart T) (h0 : PT fallback FCont n T E) :
    AllT' (n + 10) WD (paren T) (paren T) (paren T) (paren T) (paren T) (paren T) (paren T) E :=
  asmBase (paren_PT' hT h0)

theorem asm0 {n : Nat} {T : List Char} {E : Expr} (hT : NBStart T) (h0 : PT fallback FCont n T E) :
    AllT' (n + 9) WD T (paren T) (paren T) (paren T) (paren T) (paren T) (paren T) E := by
  have hB := paren_PT' hT h0
  have h6 : PT unary WD (n + 2) (paren T) E := lift_B_U' hB (fun r hr => ⟨trivial, hr⟩)
  have h5 : PT subwordSeq UD (n + 3) (paren T) E := lift_U_W h6 (fun r hr => ⟨hr.2, hr.1⟩)
  obtain ⟨h3, h2, h1, _⟩ := up_W h5 (fun r hr => hr.d)
  exact ⟨h0.mono (by omega), h1.mono (by omega), h2.mono (by omega), h3.mono (by omega),
    (hB.weaken (fun _ _ => trivial)).mono (by omega), h5.mono (by omega), h6.mono (by omega)⟩

theorem asm1 {n : Nat} {T : List Char} {E : Expr} (hT : NBStart T) (h1 : PT alternative ACont n T E) :
    AllT' (n + 9) WD T T (paren T) (paren T) (paren T) (paren T) (paren T) E := by
  have h0 := lift_A_F h1
  have hB := paren_PT' hT h0
  have h6 : PT unary WD (n + 3) (paren T) E := lift_B_U' hB (fun r hr => ⟨trivial, hr⟩)
  have h5 : PT subwordSeq UD (n + 4) (paren T) E := lift_U_W h6 (fun r hr => ⟨hr.2, hr.1⟩)
  obtain ⟨h3, h2, _, _⟩ := up_W h5 (fun r hr => hr.d)
  exact ⟨h0.mono (by omega), h1.mono (by omega), h2.mono (by omega), h3.mono (by omega),
    (hB.weaken (fun _ _ => trivial)).mono (by omega), h5.mono (by omega), h6.mono (by omega)⟩

theorem asm2 {n : Nat} {T : List Char} {E : Expr} (hT : NBStart T) (h2 : PT sequence SCont n T E) :
    AllT' (n + 9) WD T T T (paren T) (paren T) (paren T) (paren T) E := by
  have h1 := lift_S_A h2
  have h0 := lift_A_F h1
  have hB := paren_PT' hT h0
  have h6 : PT unary WD (n + 4) (paren T) E := lift_B_U' hB (fun r hr => ⟨trivial, hr⟩)
  have h5 : PT subwordSeq UD (n + 5) (paren T) E := lift_U_W h6 (fun r hr => ⟨hr.2, hr.1⟩)
  obtain ⟨h3, _, _, _⟩ := up_W h5 (fun r hr => hr.d)
  exact ⟨h0.mono (by omega), h1.mono (by omega), h2.mono (by omega), h3.mono (by omega),
    (hB.weaken (fun _ _ => trivial)).mono (by omega), h5.mono (by omega), h6.mono (by omega)⟩

/-- a word with its description -/
theorem asmD {n : Nat} {T : List Char} {E : Expr} (hT : NBStart T) (h3 : PT sseod Any n T E) :
    AllT' (n + 9) WD T T T T (paren T) (paren T) (paren T) E := by
  have h3' : PT sseod UC n T E := h3.weaken (fun _ _ => trivial)
  have h2 := lift_D_S' h3' (fun r hr => hr.uc)
  have h1 := lift_S_A h2
  have h0 := lift_A_F h1
  have hB := paren_PT' hT h0
  have h6 : PT unary WD (n + 5) (paren T) E := lift_B_U' hB (fun r hr => ⟨trivial, hr⟩)
  have h5 : PT subwordSeq UD (n + 6) (paren T) E := lift_U_W h6 (fun r hr => ⟨hr.2, hr.1⟩)
  exact ⟨h0.mono (by omega), h1.mono (by omega), h2.mono (by omega), h3'.mono (by omega),
    (hB.weaken (fun _ _ => trivial)).mono (by omega), h5.mono (by omega), h6.mono (by omega)⟩

/-- a unary expression after which nothing is required (a postfix `...`) -/
theorem asmUnary {n : Nat} {T : List Char} {E : Expr} (hT : NBStart T) (h6 : PT unary Any n T E) :
    AllT' (n + 9) WD T T T T (paren T) T T E := by
  have h5 : PT subwordSeq UD (n + 1) T E := lift_U_W h6 (fun r hr => ⟨trivial, hr.1⟩)
  obtain ⟨h3, h2, h1, h0⟩ := up_W h5 (fun r hr => hr.d)
  have hB := paren_PT' hT h0
  exact ⟨h0.mono (by omega), h1.mono (by omega), h2.mono (by omega), h3.mono (by omega),
    (hB.weaken (fun _ _ => trivial)).mono (by omega), h5.mono (by omega),
    (h6.weaken (fun _ _ => trivial)).mono (by omega)⟩

/-- a literal without description -/
theorem asmBare {t T : List Char} {E : Expr} (hT : NBStart T) (h : PT baseP (BL t) 0 T E) :
    AllT' 9 (WL t) T T T T (parenIf (endsDot t) T) (paren T) T E := by
  have h6 : PT unary (WL t) 1 T E := lift_B_U' h (fun r hr => ⟨hr.1, hr.2⟩)
  have h5 : PT subwordSeq UC 2 T E := lift_U_W h6 (fun r hr => ⟨hr.wl t, hr.1⟩)
  obtain ⟨h3, h2, h1, h0⟩ := up_W h5 (fun r hr => hr)
  have hB := paren_PT' hT h0
  have h6' : PT unary WD 8 (paren T) E := lift_B_U' hB (fun r hr => ⟨trivial, hr⟩)
  have h5' : PT subwordSeq UD 9 (paren T) E := lift_U_W h6' (fun r hr => ⟨hr.2, hr.1⟩)
  refine ⟨h0.mono (by omega), h1.mono (by omega), h2.mono (by omega), h3.mono (by omega), ?_, h5',
    h6.mono (by omega)⟩
  cases hd : endsDot t
  · simp only [parenIf, Bool.false_eq_true, if_false]
    refine (h.weaken (fun r hr => ⟨hr, .inr ?_⟩)).mono (by omega)
    simpa [endsDot] using hd
  · simp only [parenIf, if_true]
    exact (hB.weaken (fun _ _ => trivial)).mono (by omega)


/-! ### the induction -/

/-- a printed literal that does not end with a dot never begins with `...`, whatever follows -/
theorem escT_dots3' (t X : List Char) (ht : t ≠ []) (he : endsDot t = false) :
    dots3 (escT 0 t ++ X) = false := by
  cases t with
  | nil => exact absurd rfl ht
  | cons c t =>
    by_cases hc : c = '.'
    · subst hc
      rw [escT_dot_lt 0 t (by omega)]
      cases t with
      | nil => simp [endsDot] at he
      | cons c2 t2 =>
        by_cases hc2 : c2 = '.'
        · subst hc2
          rw [escT_dot_lt 1 t2 (by omega)]
          cases t2 with
          | nil => simp [endsDot] at he
          | cons c3 t3 =>
            exact dots3_dot_dot_notDot _ (escT_notDot' 2 _ X (by simp) (.inr (Nat.le_refl _)))
        · have := escT_notDot' 1 (c2 :: t2) X (by simp) (.inl ⟨c2, t2, rfl, hc2⟩)
          exact dots3_dot_notDot _ this
    · exact dots3_notDot _ (escT_notDot' 0 (c :: t) X (by simp) (.inl ⟨c, t, rfl, hc⟩))

theorem dots3_paren (T X : List Char) : dots3 (paren T ++ X) = false :=
  dots3_cons_ne _ _ (by decide)

theorem notDot_space (X : List Char) : NotDotHead (' ' :: X) := .inr ⟨' ', X, rfl, by decide⟩

/-- what may follow the expression when it is a factor of a word -/
def WOf : Expr → List Char → Prop
  | .term t none _ _ => WL t.toList
  | _ => WD

structure All' (e : Expr) : Prop where
  t : AllT' (10 * size e) (WOf e) (pp' 0 e) (pp' 1 e) (pp' 2 e) (pp' 3 e) (pp' 4 e) (pp' 5 e) (pp' 6 e)
    e.eraseSpans
  st : ∀ k, Starts (pp' k e)
  nd : ∀ k X, (bare e = true → NotDotHead X) → dots3 (pp' k e ++ X) = false
  nd4 : ∀ X, dots3 (pp' 4 e ++ X) = false

structure Tails' (es : ExprL) : Prop where
  s : LT sequenceLoop SCont (10 * sizeL es) (ppTail' 3 sepS es) es.eraseSpans
  a : LT alternativeLoop ACont (10 * sizeL es) (ppTail' 2 sepA es) es.eraseSpans
  f : LT fallbackLoop FCont (10 * sizeL es) (ppTail' 1 sepF es) es.eraseSpans

def AllL' : ExprL → Prop
  | .nil => True
  | .cons e es => All' e ∧ Tails' es ∧ AllL' es

theorem tailS_notDot (es : ExprL) (rest : List Char) (hrest : SCont rest) :
    NotDotHead (ppTail' 3 sepS es ++ rest) := by
  cases es with
  | nil => simpa [ppTail'] using hrest.1.notDot
  | cons e es' => simpa [ppTail', sepS] using notDot_space _

theorem UC_space (T X : List Char) (hT : Starts T) (hd : dots3 (T ++ X) = false) : UC (' ' :: T ++ X) := by
  obtain ⟨c, r, rfl, h1, h2⟩ := hT
  refine ⟨.inr ⟨' ', _, rfl, by decide⟩, ?_, ?_⟩
  · intro r' e
    rw [List.cons_append, afterBlanks_space, List.cons_append, afterBlanks_notBlank c _ h1] at e
    cases e; exact h2 rfl
  · unfold WD
    rw [List.cons_append, afterBlanks_space, List.cons_append, afterBlanks_notBlank c _ h1]
    exact hd

theorem tailS_cont' (es : ExprL) (h : AllL' es) : ∀ rest, SCont rest → UC (ppTail' 3 sepS es ++ rest) := by
  intro rest hrest
  cases es with
  | nil => simpa [ppTail'] using hrest.uc
  | cons e es' =>
    have := UC_space (pp' 3 e) (ppTail' 3 sepS es' ++ rest) (h.1.st 3)
      (h.1.nd 3 _ (fun _ => tailS_notDot es' rest hrest))
    simpa [ppTail', sepS] using this

theorem tailA_cont' (es : ExprL) : ∀ rest, ACont rest → SCont (ppTail' 2 sepA es ++ rest) := by
  intro rest hrest
  cases es with
  | nil => simpa [ppTail'] using hrest.s
  | cons e es' =>
    have := SCont_bar (' ' :: pp' 2 e ++ (ppTail' 2 sepA es' ++ rest))
    simpa [ppTail', sepA] using this

theorem tailF_cont' (es : ExprL) : ∀ rest, FCont rest → ACont (ppTail' 1 sepF es ++ rest) := by
  intro rest hrest
  cases es with
  | nil => simpa [ppTail'] using hrest.a
  | cons e es' =>
    have := ACont_barbar (' ' :: pp' 1 e ++ (ppTail' 1 sepF es' ++ rest))
    simpa [ppTail', sepF] using this

theorem case_nil' : Tails' .nil ∧ AllL' .nil := by
  refine ⟨⟨?_, ?_, ?_⟩, trivial⟩
  · simpa [ppTail', sizeL, ExprL.eraseSpans] using seqLoop_nil
  · simpa [ppTail', sizeL, ExprL.eraseSpans] using altLoop_nil
  · simpa [ppTail', sizeL, ExprL.eraseSpans] using fbLoop_nil

theorem case_cons' (e : Expr) (es : ExprL) (he : All' e) (hes : Tails' es ∧ AllL' es) :
    Tails' (.cons e es) ∧ AllL' (.cons e es) := by
  refine ⟨⟨?_, ?_, ?_⟩, he, hes.1, hes.2⟩
  · have := seqLoop_cons' (he.st 3).nb he.t.p3 hes.1.s (tailS_cont' es hes.2)
    have := this.mono (m := 10 * sizeL (.cons e es)) (by simp only [sizeL]; omega)
    simpa [ppTail', sepS, ExprL.eraseSpans] using this
  · have := altLoop_cons' (he.st 2).nb he.t.p2 hes.1.a (tailA_cont' es)
    have := this.mono (m := 10 * sizeL (.cons e es)) (by simp only [sizeL]; omega)
    simpa [ppTail', sepA, ExprL.eraseSpans] using this
  · have := fbLoop_cons' (he.st 1).nb he.t.p1 hes.1.f (tailF_cont' es)
    have := this.mono (m := 10 * sizeL (.cons e es)) (by simp only [sizeL]; omega)
    simpa [ppTail', sepF, ExprL.eraseSpans] using this

theorem pp'_bare (k : Nat) (t : String) (l : Nat) (sp : Span) : pp' k (.term t none l sp) =
    parenIf (k == 5 || (k == 4 && endsDot t.toList)) (escT 0 t.toList) := by rw [pp']

theorem pp'_descr (k : Nat) (t d : String) (l : Nat) (sp : Span) : pp' k (.term t (some d) l sp) =
    escT 0 t.toList ++ descrText d.toList := by rw [pp']

theorem litStarts (t : List Char) (ht : t ≠ []) (hh : t.head? ≠ some '#') : Starts (escT 0 t) := by
  obtain ⟨x, r, hx, hstart⟩ := escT_head t ht hh
  obtain ⟨h1, h2, _⟩ := litStart_spec hstart
  exact ⟨x, r, hx, h1, h2⟩

theorem case_bare (t : String) (l : Nat) (sp : Span) (h : NF' (.term t none l sp)) :
    All' (.term t none l sp) := by
  simp only [NF'] at h
  obtain ⟨rfl, h1, h2, h3⟩ := h
  have hS := litStarts t.toList h1 h3
  have hB := lit_bare_PT t.toList h1 h2 h3
  rw [String.ofList_toList] at hB
  constructor
  · have := asmBare hS.nb hB
    simp only [pp'_bare]
    simpa [parenIf, paren, Expr.eraseSpans, size, WOf] using this.mono (m := 10) (by omega)
  · intro k; rw [pp'_bare]; exact hS.parenIf _
  · intro k X hX
    rw [pp'_bare]
    cases (k == 5 || (k == 4 && endsDot t.toList))
    · exact escT_dots3 _ X (hX rfl)
    · exact dots3_paren _ X
  · intro X
    rw [pp'_bare]
    cases hd : endsDot t.toList
    · simpa [parenIf] using escT_dots3' _ X h1 hd
    · simp only [parenIf]; exact dots3_cons_ne _ _ (by decide)

theorem case_descr (t d : String) (l : Nat) (sp : Span) (h : NF' (.term t (some d) l sp)) :
    All' (.term t (some d) l sp) := by
  simp only [NF'] at h
  obtain ⟨rfl, h1, h2, h3⟩ := h
  have hS := litStarts t.toList h1 h3
  have hB := lit_descr_PT t.toList d.toList h1 h2 h3
  rw [String.ofList_toList, String.ofList_toList] at hB
  have hnd : ∀ X, dots3 (escT 0 t.toList ++ descrText d.toList ++ X) = false := by
    intro X
    rw [List.append_assoc]
    exact escT_dots3 _ _ (by simpa [descrText] using notDot_space _)
  constructor
  · have := asmBase hB
    simp only [pp'_descr]
    simpa [Expr.eraseSpans, size, WOf] using this.mono (m := 10) (by omega)
  · intro k; rw [pp'_descr]; exact hS.append _
  · intro k X _; rw [pp'_descr]; exact hnd X
  · intro X; rw [pp'_descr]; exact hnd X

theorem case_term' (t : String) (d : Option String) (l : Nat) (sp : Span) (h : NF' (.term t d l sp)) :
    All' (.term t d l sp) := by
  cases d with
  | none => exact case_bare t l sp h
  | some d => exact case_descr t d l sp h

theorem case_nonterm' (n : String) (l : Nat) (sp : Span) (h : NF' (.nonterm n l sp)) :
    All' (.nonterm n l sp) := by
  simp only [NF'] at h
  obtain ⟨rfl, h1, h2⟩ := h
  have hB := nonterm_PT' n.toList h1 h2
  rw [String.ofList_toList] at hB
  constructor
  · have := asmBase hB
    simpa [pp', Expr.eraseSpans, size, WOf] using this.mono (m := 10) (by omega)
  · intro k; exact ⟨'<', n.toList ++ ['>'], by simp [pp'], by decide, by decide⟩
  · intro k X _; simp only [pp']; exact dots3_cons_ne _ _ (by decide)
  · intro X; simp only [pp']; exact dots3_cons_ne _ _ (by decide)

theorem case_cmd' (c : String) (a : Bool) (l : Nat) (sp : Span) (h : NF' (.cmd c a l sp)) :
    All' (.cmd c a l sp) := by
  simp only [NF'] at h
  obtain ⟨rfl, rfl, h1, h2, h3⟩ := h
  have hB := cmd_PT' c.toList h1 h2 h3
  rw [String.ofList_toList] at hB
  constructor
  · have := asmBase hB
    simpa [pp', Expr.eraseSpans, size, WOf] using this.mono (m := 10) (by omega)
  · intro k; exact ⟨'{', _, by simp only [pp', cmdText]; rfl, by decide, by decide⟩
  · intro k X _; simp only [pp', cmdText]; exact dots3_cons_ne _ _ (by decide)
  · intro X; simp only [pp', cmdText]; exact dots3_cons_ne _ _ (by decide)

theorem case_opt' (c : Expr) (sp : Span) (ih : NF' c → All' c) (h : NF' (.opt c sp)) : All' (.opt c sp) := by
  simp only [NF'] at h
  have hc := ih h
  constructor
  · have := asmBase (bracket_PT' (hc.st 0).nb hc.t.p0)
    simpa [pp', Expr.eraseSpans, size, WOf] using
      this.mono (m := 10 * size (.opt c sp)) (by simp only [size]; omega)
  · intro k; exact ⟨'[', _, by simp only [pp']; rfl, by decide, by decide⟩
  · intro k X _; simp only [pp']; exact dots3_cons_ne _ _ (by decide)
  · intro X; simp only [pp']; exact dots3_cons_ne _ _ (by decide)

theorem dots3_parenIf (b : Bool) (T X : List Char) (h : dots3 (T ++ X) = false) :
    dots3 (parenIf b T ++ X) = false := by
  cases b
  · exact h
  · exact dots3_paren T X

theorem case_many1' (c : Expr) (sp : Span) (ih : NF' c → All' c) (h : NF' (.many1 c sp)) :
    All' (.many1 c sp) := by
  simp only [NF'] at h
  have hc := ih h
  have hT : Starts (pp' 4 c ++ ['.', '.', '.']) := (hc.st 4).append _
  have hnd : ∀ X, dots3 (pp' 4 c ++ ['.', '.', '.'] ++ X) = false := by
    intro X; rw [List.append_assoc]; exact hc.nd4 _
  constructor
  · have := asmUnary hT.nb (lift_B_many1' hc.t.p4)
    simpa [pp', parenIf, paren, Expr.eraseSpans, size, WOf] using
      this.mono (m := 10 * size (.many1 c sp)) (by simp only [size]; omega)
  · intro k; simp only [pp']; exact hT.parenIf _
  · intro k X _; simp only [pp']; exact dots3_parenIf _ _ _ (hnd X)
  · intro X; simp only [pp']; exact dots3_parenIf _ _ _ (hnd X)

theorem case_dd' (c : Expr) (d : String) (sp : Span) (ih : NF' c → All' c) (h : NF' (.dd c d sp)) :
    All' (.dd c d sp) := by
  simp only [NF'] at h
  have hc := ih h
  have hT : Starts (pp' 5 c ++ descrText d.toList) := (hc.st 5).append _
  have hnd : ∀ X, dots3 (pp' 5 c ++ descrText d.toList ++ X) = false := by
    intro X; rw [List.append_assoc]
    exact hc.nd 5 _ (fun _ => by simpa [descrText] using notDot_space _)
  have hD := lift_W_dd d.toList hc.t.p5
  rw [String.ofList_toList] at hD
  constructor
  · have := asmD hT.nb hD
    simpa [pp', parenIf, paren, Expr.eraseSpans, size, WOf] using
      this.mono (m := 10 * size (.dd c d sp)) (by simp only [size]; omega)
  · intro k; simp only [pp']; exact hT.parenIf _
  · intro k X _; simp only [pp']; exact dots3_parenIf _ _ _ (hnd X)
  · intro X; simp only [pp']; exact dots3_parenIf _ _ _ (hnd X)

theorem case_seq' (cs : ExprL) (sp : Span) (ih : NFL' cs → Tails' cs ∧ AllL' cs) (h : NF' (.seq cs sp)) :
    All' (.seq cs sp) := by
  simp only [NF'] at h
  obtain ⟨e1, e2, es, rfl⟩ := two_le_length h.1
  obtain ⟨_, h1, h2, h3⟩ := ih h.2
  have hT : Starts (pp' 3 e1 ++ ppTail' 3 sepS (.cons e2 es)) := (h1.st 3).append _
  have hnd : ∀ X, dots3 (pp' 3 e1 ++ ppTail' 3 sepS (.cons e2 es) ++ X) = false := by
    intro X; rw [List.append_assoc]
    exact h1.nd 3 _ (fun _ => by simpa [ppTail', sepS] using notDot_space _)
  have hn := seq_native' h1.t.p3 h2.s (tailS_cont' _ h3)
  constructor
  · have := asm2 hT.nb hn
    simpa [pp', ppList', parenIf, paren, Expr.eraseSpans, ExprL.eraseSpans, size, WOf] using
      this.mono (m := 10 * size (.seq (.cons e1 (.cons e2 es)) sp)) (by simp only [size, sizeL]; omega)
  · intro k; simp only [pp', ppList']; exact hT.parenIf _
  · intro k X _; simp only [pp', ppList']; exact dots3_parenIf _ _ _ (hnd X)
  · intro X; simp only [pp', ppList']; exact dots3_parenIf _ _ _ (hnd X)

theorem case_alt' (cs : ExprL) (sp : Span) (ih : NFL' cs → Tails' cs ∧ AllL' cs) (h : NF' (.alt cs sp)) :
    All' (.alt cs sp) := by
  simp only [NF'] at h
  obtain ⟨e1, e2, es, rfl⟩ := two_le_length h.1
  obtain ⟨_, h1, h2, h3⟩ := ih h.2
  have hT : Starts (pp' 2 e1 ++ ppTail' 2 sepA (.cons e2 es)) := (h1.st 2).append _
  have hnd : ∀ X, dots3 (pp' 2 e1 ++ ppTail' 2 sepA (.cons e2 es) ++ X) = false := by
    intro X; rw [List.append_assoc]
    exact h1.nd 2 _ (fun _ => by simpa [ppTail', sepA] using notDot_space _)
  have hn := alt_native h1.t.p2 h2.a (tailA_cont' _)
  constructor
  · have := asm1 hT.nb hn
    simpa [pp', ppList', parenIf, paren, Expr.eraseSpans, ExprL.eraseSpans, size, WOf] using
      this.mono (m := 10 * size (.alt (.cons e1 (.cons e2 es)) sp)) (by simp only [size, sizeL]; omega)
  · intro k; simp only [pp', ppList']; exact hT.parenIf _
  · intro k X _; simp only [pp', ppList']; exact dots3_parenIf _ _ _ (hnd X)
  · intro X; simp only [pp', ppList']; exact dots3_parenIf _ _ _ (hnd X)

theorem case_fb' (cs : ExprL) (sp : Span) (ih : NFL' cs → Tails' cs ∧ AllL' cs) (h : NF' (.fb cs sp)) :
    All' (.fb cs sp) := by
  simp only [NF'] at h
  obtain ⟨e1, e2, es, rfl⟩ := two_le_length h.1
  obtain ⟨_, h1, h2, h3⟩ := ih h.2
  have hT : Starts (pp' 1 e1 ++ ppTail' 1 sepF (.cons e2 es)) := (h1.st 1).append _
  have hnd : ∀ X, dots3 (pp' 1 e1 ++ ppTail' 1 sepF (.cons e2 es) ++ X) = false := by
    intro X; rw [List.append_assoc]
    exact h1.nd 1 _ (fun _ => by simpa [ppTail', sepF] using notDot_space _)
  have hn := fb_native h1.t.p1 h2.f (tailF_cont' _)
  constructor
  · have := asm0 hT.nb hn
    simpa [pp', ppList', parenIf, paren, Expr.eraseSpans, ExprL.eraseSpans, size, WOf] using
      this.mono (m := 10 * size (.fb (.cons e1 (.cons e2 es)) sp)) (by simp only [size, sizeL]; omega)
  · intro k; simp only [pp', ppList']; exact hT.parenIf _
  · intro k X _; simp only [pp', ppList']; exact dots3_parenIf _ _ _ (hnd X)
  · intro X; simp only [pp', ppList']; exact dots3_parenIf _ _ _ (hnd X)

/-! ### juxtaposition -/

theorem flatten_erase (e : Expr) : (Check.flatten e).eraseSpans = Check.flatten e.eraseSpans := by
  refine Expr.rec (motive_1 := fun e => (Check.flatten e).eraseSpans = Check.flatten e.eraseSpans)
    (motive_2 := fun es => (Check.flattenL es).eraseSpans = Check.flattenL es.eraseSpans)
    ?_ ?_ ?_ ?_ ?_ ?_ ?_ ?_ ?_ ?_ ?_ ?_ e
  · intro t d l sp; simp [Check.flatten, Expr.eraseSpans]
  · intro n l sp; simp [Check.flatten, Expr.eraseSpans]
  · intro c a l sp; simp [Check.flatten, Expr.eraseSpans]
  · intro cs sp ih; simp [Check.flatten, Expr.eraseSpans, ih]
  · intro cs sp ih; simp [Check.flatten, Expr.eraseSpans, ih]
  · intro cs sp ih; simp [Check.flatten, Expr.eraseSpans, ih]
  · intro c sp ih; simp [Check.flatten, Expr.eraseSpans, ih]
  · intro c sp ih; simp [Check.flatten, Expr.eraseSpans, ih]
  · intro c d sp ih; simp [Check.flatten, Expr.eraseSpans, ih]
  · intro c l sp ih; simpa [Check.flatten, Expr.eraseSpans] using ih
  · simp [Check.flattenL, ExprL.eraseSpans]
  · intro e es ihe ihes; simp [Check.flattenL, ExprL.eraseSpans, ihe, ihes]

theorem flatten_noSub (e : Expr) : NoSub e → Check.flatten e = e := by
  refine Expr.rec (motive_1 := fun e => NoSub e → Check.flatten e = e)
    (motive_2 := fun es => NoSubL es → Check.flattenL es = es)
    ?_ ?_ ?_ ?_ ?_ ?_ ?_ ?_ ?_ ?_ ?_ ?_ e
  · intro t d l sp _; simp [Check.flatten]
  · intro n l sp _; simp [Check.flatten]
  · intro c a l sp _; simp [Check.flatten]
  · intro cs sp ih h; simp only [NoSub] at h; simp [Check.flatten, ih h]
  · intro cs sp ih h; simp only [NoSub] at h; simp [Check.flatten, ih h]
  · intro cs sp ih h; simp only [NoSub] at h; simp [Check.flatten, ih h]
  · intro c sp ih h; simp only [NoSub] at h; simp [Check.flatten, ih h]
  · intro c sp ih h; simp only [NoSub] at h; simp [Check.flatten, ih h]
  · intro c d sp ih h; simp only [NoSub] at h; simp [Check.flatten, ih h]
  · intro c l sp _ h; simp [NoSub] at h
  · intro _; simp [Check.flattenL]
  · intro e es ihe ihes h; simp only [NoSubL] at h; simp [Check.flattenL, ihe h.1, ihes h.2]

/-- flattening a tree that is `E` up to spans gives `E` up to spans -/
def FlatFix (E : Expr) : Prop := ∀ e' : Expr, e'.eraseSpans = E → (Check.flatten e').eraseSpans = E

theorem flatFix_of_noSub (f : Expr) (h : NoSub f) : FlatFix f.eraseSpans := by
  intro e' he
  rw [flatten_erase, he, ← flatten_erase, flatten_noSub f h]

/-- the loop of `subword_sequence_expr` reads the text `T` as the factors `Es` (flattened, spans erased) -/
def LTW (C : List Char → Prop) (n : Nat) (T : List Char) (Es : ExprL) : Prop :=
  ∀ rest, C rest → ∀ s : PState, s.rest = T ++ rest → ∀ (acc : List Expr) (f : Nat), n ≤ f →
    ∃ es', subwordLoop f s acc = (s.adv T.length, acc ++ es') ∧
      (ExprL.ofList (es'.map Check.flatten)).eraseSpans = Es

theorem LTW.mono {C : List Char → Prop} {n m : Nat} {T : List Char} {Es : ExprL} (h : LTW C n T Es)
    (hnm : n ≤ m) : LTW C m T Es :=
  fun rest hr s hs acc f hf => h rest hr s hs acc f (Nat.le_trans hnm hf)

theorem swLoop_nil {C : List Char → Prop} (hC : ∀ r, C r → StopHead r) : LTW C 0 [] .nil := by
  intro rest hrest s hs acc f _
  refine ⟨[], ?_, rfl⟩
  rw [subwordLoop_stop f s acc (by rw [hs]; exact hC rest hrest)]
  simp [adv_zero]

theorem swLoop_cons {C W : List Char → Prop} {n1 n2 : Nat} {T1 T2 : List Char} {E1 : Expr} {Es : ExprL}
    (h1 : PT unary W n1 T1 E1) (hfl : FlatFix E1) (h2 : LTW C n2 T2 Es)
    (hc : ∀ rest, C rest → W (T2 ++ rest)) :
    LTW C (max n1 n2 + 1) (T1 ++ T2) (.cons E1 Es) := by
  intro rest hrest s hs acc f hf
  obtain ⟨f, rfl⟩ : ∃ f', f = f' + 1 := ⟨f - 1, by omega⟩
  have hs' : s.rest = T1 ++ (T2 ++ rest) := by rw [hs]; simp
  obtain ⟨e1, he1, hE1⟩ := h1 (T2 ++ rest) (hc rest hrest) s hs' f (by omega)
  have hr2 : (s.adv T1.length).rest = T2 ++ rest := adv_rest_append _ _ _ hs'
  obtain ⟨es', hes, hEs⟩ := h2 rest hrest _ hr2 (acc ++ [e1]) f (by omega)
  refine ⟨e1 :: es', ?_, by simp [ExprL.ofList, ExprL.eraseSpans, hfl e1 hE1, hEs]⟩
  rw [subwordLoop_succ, he1]
  simp only
  rw [hes, adv_add']
  simp

theorem sw_native {C W : List Char → Prop} {n1 n2 : Nat} {T1 T2 : List Char} {E1 E2 : Expr} {Es : ExprL}
    (h1 : PT unary W n1 T1 E1) (hfl : FlatFix E1) (h2 : LTW C n2 T2 (.cons E2 Es))
    (hc : ∀ rest, C rest → W (T2 ++ rest)) :
    PT subwordSeq C (max n1 n2 + 1) (T1 ++ T2)
      (.sub (.seq (.cons E1 (.cons E2 Es)) default) 0 default) := by
  intro rest hrest s hs f hf
  obtain ⟨f, rfl⟩ : ∃ f', f = f' + 1 := ⟨f - 1, by omega⟩
  have hs' : s.rest = T1 ++ (T2 ++ rest) := by rw [hs]; simp
  obtain ⟨e1, he1, hE1⟩ := h1 (T2 ++ rest) (hc rest hrest) s hs' f (by omega)
  have hr1 : (s.adv T1.length).rest = T2 ++ rest := adv_rest_append _ _ _ hs'
  obtain ⟨es', hes, hEs⟩ := h2 rest hrest _ hr1 [e1] f (by omega)
  obtain ⟨x, xs, rfl⟩ : ∃ x xs, es' = x :: xs := by
    cases es' with
    | nil => simp [ExprL.ofList, ExprL.eraseSpans] at hEs
    | cons x xs => exact ⟨x, xs, rfl⟩
  refine ⟨.sub (.seq (ExprL.ofList ((e1 :: x :: xs).map Check.flatten))
    (fromRange s (s.adv (T1 ++ T2).length))) 0 (fromRange s (s.adv (T1 ++ T2).length)), ?_, ?_⟩
  · rw [subwordSeq_succ, he1]
    simp only
    rw [hes, adv_add']
    simp
  · simp only [List.map_cons, ExprL.ofList, Expr.eraseSpans, ExprL.eraseSpans, hfl e1 hE1]
    simp only [List.map_cons, ExprL.ofList, ExprL.eraseSpans] at hEs
    rw [hEs]

/-- what must follow a word, according to whether its last factor is a literal without description -/
def EC : Bool → List Char → Prop
  | true => UC
  | false => UD

theorem EC.d {b : Bool} {rest : List Char} (h : EC b rest) : UD rest := by
  cases b
  · exact h
  · exact UC.d h

theorem EC.of_uc (b : Bool) {rest : List Char} (h : UC rest) : EC b rest := by
  cases b
  · exact h.d
  · exact h

/-- a word of several factors, at every level -/
theorem asmW {n : Nat} {T : List Char} {E : Expr} (lb : Bool) (hT : NBStart T)
    (h : PT subwordSeq (EC lb) n T E) :
    AllT' (n + 9) WD T T T T (paren T) (parenIf lb T) (paren T) E := by
  obtain ⟨h3, h2, h1, h0⟩ := up_W h (fun r hr => EC.of_uc lb hr)
  have hB := paren_PT' hT h0
  have h6 : PT unary WD (n + 6) (paren T) E := lift_B_U' hB (fun r hr => ⟨trivial, hr⟩)
  have h5 : PT subwordSeq UD (n + 7) (paren T) E := lift_U_W h6 (fun r hr => ⟨hr.2, hr.1⟩)
  refine ⟨h0.mono (by omega), h1.mono (by omega), h2.mono (by omega), h3.mono (by omega),
    (hB.weaken (fun _ _ => trivial)).mono (by omega), ?_, h6.mono (by omega)⟩
  cases lb
  · exact (h.mono (by omega) : PT subwordSeq UD (n + 9) T E)
  · exact h5.mono (by omega)

def TailsW (b : Bool) (fs : ExprL) : Prop :=
  LTW (EC (lastBare b fs)) (10 * sizeL fs) (ppTail' 6 [] fs) fs.eraseSpans

def AllW : ExprL → Prop
  | .nil => True
  | .cons f fs => All' f ∧ TailsW (bare f) fs ∧ AllW fs

theorem BracketHead.notDot {T : List Char} (h : BracketHead T) (X : List Char) : NotDotHead (T ++ X) := by
  obtain ⟨c, r, rfl, hc⟩ := h
  refine .inr ⟨c, r ++ X, rfl, ?_⟩
  rcases hc with rfl | rfl | rfl | rfl <;> decide

theorem BracketHead.wl {T : List Char} (h : BracketHead T) (X t : List Char) : WL t (T ++ X) := by
  obtain ⟨c, r, rfl, hc⟩ := h
  have h1 : isRegular c = false ∧ c ≠ '\\' ∧ c ≠ '.' ∧ notBlank c = true ∧ c ≠ '"' := by
    rcases hc with rfl | rfl | rfl | rfl <;> decide
  obtain ⟨h1, h2, h3, h4, h5⟩ := h1
  have hab : afterBlanks (c :: r ++ X) = c :: (r ++ X) := afterBlanks_notBlank c _ h4
  refine ⟨⟨⟨dec'_other c _ h1 h2 h3, ?_⟩, .inl (.inr ⟨c, r ++ X, rfl, h3⟩)⟩, ?_⟩
  · intro r' e; rw [hab] at e; cases e; exact h5 rfl
  · unfold WD; rw [hab]; exact dots3_cons_ne _ _ h3

theorem tailW_notDot (g : Expr) (fs : ExprL) (hN : NFW (.cons g fs)) (hg : bare g = true) (rest : List Char)
    (hrest : EC (lastBare true fs) rest) : NotDotHead (ppTail' 6 [] fs ++ rest) := by
  simp only [NFW] at hN
  rcases hN.2.2.1 hg with rfl | hb
  · simp only [ppTail', List.nil_append]
    exact hrest.d.1.notDot
  · exact hb.notDot rest

theorem tailW_cont (f : Expr) (fs : ExprL) (hN : NFW (.cons f fs)) (hall : AllW fs) :
    ∀ rest, EC (lastBare (bare f) fs) rest → WOf f (ppTail' 6 [] fs ++ rest) := by
  intro rest hrest
  have hN' := hN
  simp only [NFW] at hN'
  cases hb : bare f
  · -- not a literal without description: only `...` must not follow
    have hW : WOf f = WD := by
      cases f with
      | term t d l sp =>
        cases d with
        | none => simp [bare] at hb
        | some d => rfl
      | _ => rfl
    rw [hW]
    cases fs with
    | nil =>
      simp only [ppTail', List.nil_append]
      exact hrest.d.w
    | cons g fs' =>
      obtain ⟨hg, _, _⟩ := hall
      obtain ⟨c, r, hcr, hnb, _⟩ := hg.st 6
      have hnd := hg.nd 6 (ppTail' 6 [] fs' ++ rest) (fun hbg => by
        have hr' : EC (lastBare true fs') rest := by
          have : lastBare (bare f) (.cons g fs') = lastBare true fs' := by
            simp only [lastBare, hbg]
          rw [this] at hrest; exact hrest
        exact tailW_notDot g fs' hN'.2.2.2 hbg rest hr')
      unfold WD
      simp only [ppTail', List.nil_append, List.append_assoc]
      rw [hcr, List.cons_append, afterBlanks_notBlank c _ hnb, ← List.cons_append, ← hcr]
      exact hnd
  · -- a literal without description
    obtain ⟨t, l, sp, rfl⟩ : ∃ t l sp, f = .term t none l sp := by
      cases f with
      | term t d l sp =>
        cases d with
        | none => exact ⟨t, l, sp, rfl⟩
        | some d => simp [bare] at hb
      | _ => simp [bare] at hb
    show WL t.toList _
    rcases hN'.2.2.1 hb with rfl | hbr
    · simp only [ppTail', List.nil_append]
      have : EC true rest := by simpa [lastBare, bare] using hrest
      exact UC.wl this _
    · exact hbr.wl rest _

theorem case_nilW : AllW .nil ∧ ∀ b, TailsW b .nil := by
  refine ⟨trivial, fun b => ?_⟩
  have := swLoop_nil (C := EC (lastBare b .nil)) (fun r hr => hr.d.1)
  simpa [TailsW, ppTail', sizeL, ExprL.eraseSpans] using this

theorem case_consW (f : Expr) (fs : ExprL) (hf : All' f) (hfs : AllW fs ∧ ∀ b, TailsW b fs)
    (hN : NFW (.cons f fs)) : AllW (.cons f fs) ∧ ∀ b, TailsW b (.cons f fs) := by
  refine ⟨⟨hf, hfs.2 _, hfs.1⟩, fun b => ?_⟩
  have hN' := hN
  simp only [NFW] at hN'
  have := swLoop_cons hf.t.p6 (flatFix_of_noSub f hN'.2.1) (hfs.2 (bare f)) (tailW_cont f fs hN hfs.1)
  have := this.mono (m := 10 * sizeL (.cons f fs)) (by simp only [sizeL]; omega)
  simpa [TailsW, lastBare, ppTail', ExprL.eraseSpans] using this

theorem case_sub' (fs : ExprL) (sp1 : Span) (l : Nat) (sp : Span)
    (ih : NFW fs → AllW fs ∧ ∀ b, TailsW b fs) (h : NF' (.sub (.seq fs sp1) l sp)) :
    All' (.sub (.seq fs sp1) l sp) := by
  simp only [NF'] at h
  obtain ⟨rfl, hlen, hN⟩ := h
  obtain ⟨f1, f2, fs', rfl⟩ := two_le_length hlen
  obtain ⟨⟨h1, h2, h3⟩, _⟩ := ih hN
  have hN' := hN
  simp only [NFW] at hN'
  have hT : Starts (pp' 6 f1 ++ ppTail' 6 [] (.cons f2 fs')) := (h1.st 6).append _
  have hnd : ∀ X, dots3 (pp' 6 f1 ++ ppTail' 6 [] (.cons f2 fs') ++ X) = false := by
    intro X; rw [List.append_assoc]
    refine h1.nd 6 _ (fun hb => ?_)
    rcases hN'.2.2.1 hb with e | hbr
    · cases e
    · exact hbr.notDot X
  have hn := sw_native h1.t.p6 (flatFix_of_noSub f1 hN'.2.1) h2 (tailW_cont f1 _ hN h3)
  have hpp : ∀ k, pp' k (.sub (.seq (.cons f1 (.cons f2 fs')) sp1) 0 sp) =
      parenIf (k == 4 || k == 6 || (k == 5 && lastBare false (.cons f1 (.cons f2 fs'))))
        (pp' 6 f1 ++ ppTail' 6 [] (.cons f2 fs')) := by
    intro k; rw [pp', ppList']
  constructor
  · have := asmW _ hT.nb hn
    simp only [hpp]
    simpa [parenIf, paren, lastBare, Expr.eraseSpans, ExprL.eraseSpans, size, WOf] using
      this.mono (m := 10 * size (.sub (.seq (.cons f1 (.cons f2 fs')) sp1) 0 sp))
        (by simp only [size, sizeL]; omega)
  · intro k; rw [hpp]; exact hT.parenIf _
  · intro k X _; rw [hpp]; exact dots3_parenIf _ _ _ (hnd X)
  · intro X; rw [hpp]; exact dots3_parenIf _ _ _ (hnd X)

theorem all_levels' (e : Expr) : NF' e → All' e := by
  suffices h : (NF' e → All' e) ∧ ∀ fs sp, e = .seq fs sp → NFW fs → AllW fs ∧ ∀ b, TailsW b fs from h.1
  refine Expr.rec
    (motive_1 := fun e => (NF' e → All' e) ∧ ∀ fs sp, e = .seq fs sp → NFW fs → AllW fs ∧ ∀ b, TailsW b fs)
    (motive_2 := fun es => (NFL' es → Tails' es ∧ AllL' es) ∧ (NFW es → AllW es ∧ ∀ b, TailsW b es))
    ?_ ?_ ?_ ?_ ?_ ?_ ?_ ?_ ?_ ?_ ?_ ?_ e
  · intro t d l sp; exact ⟨case_term' t d l sp, fun _ _ e => by cases e⟩
  · intro n l sp; exact ⟨case_nonterm' n l sp, fun _ _ e => by cases e⟩
  · intro c a l sp; exact ⟨case_cmd' c a l sp, fun _ _ e => by cases e⟩
  · intro cs sp ih
    exact ⟨case_seq' cs sp ih.1, fun fs sp' e => by cases e; exact ih.2⟩
  · intro cs sp ih; exact ⟨case_alt' cs sp ih.1, fun _ _ e => by cases e⟩
  · intro cs sp ih; exact ⟨case_fb' cs sp ih.1, fun _ _ e => by cases e⟩
  · intro c sp ih; exact ⟨case_opt' c sp ih.1, fun _ _ e => by cases e⟩
  · intro c sp ih; exact ⟨case_many1' c sp ih.1, fun _ _ e => by cases e⟩
  · intro c d sp ih; exact ⟨case_dd' c d sp ih.1, fun _ _ e => by cases e⟩
  · intro c l sp ih
    refine ⟨fun h => ?_, fun _ _ e => by cases e⟩
    cases c with
    | seq fs sp1 => exact case_sub' fs sp1 l sp (ih.2 fs sp1 rfl) h
    | _ => simp [NF'] at h
  · exact ⟨fun _ => case_nil', fun _ => case_nilW⟩
  · intro e es ihe ihes
    refine ⟨fun h => ?_, fun h => ?_⟩
    · simp only [NFL'] at h
      exact case_cons' e es (ihe.1 h.1) (ihes.1 h.2)
    · have h' := h
      simp only [NFW] at h'
      exact case_consW e es (ihe.1 h'.1) (ihes.2 h'.2.2.2) h

/-! ### the fragment of `Ladder.lean` is part of this one -/

theorem escT_regular : ∀ (k : Nat) (t : List Char), (∀ c ∈ t, isRegular c = true) → escT k t = t
  | _, [], _ => rfl
  | k, c :: t, h => by
    have hc := h c (by simp)
    have hd : c ≠ '.' := regular_ne hc _ not_regular_dot
    rw [escT_reg k c t hd hc, escT_regular 0 t (fun x hx => h x (by simp [hx]))]

theorem endsDot_regular (t : List Char) (h : ∀ c ∈ t, isRegular c = true) : endsDot t = false := by
  cases hd : endsDot t with
  | false => rfl
  | true =>
    have : t.getLast? = some '.' := by simpa [endsDot] using hd
    have := h _ (List.mem_of_getLast? this)
    rw [not_regular_dot] at this; cases this

theorem NF_sub (e : Expr) : NF e → NF' e := by
  refine Expr.rec (motive_1 := fun e => NF e → NF' e) (motive_2 := fun es => NFL es → NFL' es)
    ?_ ?_ ?_ ?_ ?_ ?_ ?_ ?_ ?_ ?_ ?_ ?_ e
  · intro t d l sp h
    simp only [NF] at h
    simp only [NF']
    exact ⟨h.2.1, h.2.2.1, fun c hc => .inl (h.2.2.2.1 c hc), h.2.2.2.2⟩
  · intro n l sp h; simpa only [NF, NF'] using h
  · intro c a l sp h; simpa only [NF, NF'] using h
  · intro cs sp ih h; simp only [NF] at h; simp only [NF']; exact ⟨h.1, ih h.2⟩
  · intro cs sp ih h; simp only [NF] at h; simp only [NF']; exact ⟨h.1, ih h.2⟩
  · intro cs sp ih h; simp only [NF] at h; simp only [NF']; exact ⟨h.1, ih h.2⟩
  · intro c sp ih h; simp only [NF] at h; simp only [NF']; exact ih h
  · intro c sp ih h; simp only [NF] at h; simp only [NF']; exact ih h
  · intro c d sp _ h; simp [NF] at h
  · intro c l sp _ h; simp [NF] at h
  · intro _; trivial
  · intro e es ihe ihes h; simp only [NFL] at h; simp only [NFL']; exact ⟨ihe h.1, ihes h.2⟩

/-- on the fragment of `Ladder.lean` the two printers write the same text (contexts 0 to 4, the ones
the printer of `Ladder.lean` knows) -/
theorem pp'_eq_pp (e : Expr) : NF e → ∀ ctx, ctx ≤ 4 → pp' ctx e = pp ctx e := by
  refine Expr.rec (motive_1 := fun e => NF e → ∀ ctx, ctx ≤ 4 → pp' ctx e = pp ctx e)
    (motive_2 := fun es => NFL es → ∀ ctx, ctx ≤ 4 → ∀ sep,
      ppList' ctx sep es = ppList ctx sep es ∧ ppTail' ctx sep es = ppTail ctx sep es)
    ?_ ?_ ?_ ?_ ?_ ?_ ?_ ?_ ?_ ?_ ?_ ?_ e
  · intro t d l sp h ctx hctx
    simp only [NF] at h
    obtain ⟨rfl, _, _, h4, _⟩ := h
    have h5 : (ctx == 5) = false := by simp; omega
    rw [pp'_bare, escT_regular 0 _ h4, endsDot_regular _ h4, h5]
    simp [parenIf, pp]
  · intro n l sp _ ctx _; simp only [pp', pp]
  · intro c a l sp _ ctx _; simp only [pp', pp]
  · intro cs sp ih h ctx _; simp only [NF] at h; simp only [pp', pp, (ih h.2 3 (by omega) sepS).1]
  · intro cs sp ih h ctx _; simp only [NF] at h; simp only [pp', pp, (ih h.2 2 (by omega) sepA).1]
  · intro cs sp ih h ctx _; simp only [NF] at h; simp only [pp', pp, (ih h.2 1 (by omega) sepF).1]
  · intro c sp ih h ctx _; simp only [NF] at h; simp only [pp', pp, ih h 0 (by omega)]
  · intro c sp ih h ctx hctx
    simp only [NF] at h
    have : (ctx == 4) = decide (4 ≤ ctx) := by rw [Bool.eq_iff_iff]; simp; omega
    simp only [pp', pp, ih h 4 (by omega), this]
  · intro c d sp _ h; simp [NF] at h
  · intro c l sp _ h; simp [NF] at h
  · intro _ ctx _ sep; simp only [ppList', ppList, ppTail', ppTail, and_self]
  · intro e es ihe ihes h ctx hctx sep
    simp only [NFL] at h
    simp only [ppList', ppList, ppTail', ppTail, ihe h.1 ctx hctx, (ihes h.2 ctx hctx sep).2, and_self]

end Complgen.Parse.Full

namespace Complgen.Parse
open Complgen Complgen.Parse.Full

/-- **The operator ladder reads back what the printer writes, on the larger fragment** -/
theorem fallback_roundtrip_full (e : Expr) (hnf : NF' e) (rest : List Char) (hrest : Follows rest) (s : PState)
    (hs : s.rest = pp' 0 e ++ rest) (fuel : Nat) (hfuel : fuelNeeded e ≤ fuel) :
    ∃ e', fallback fuel s = some (s.adv (pp' 0 e).length, e') ∧ e'.eraseSpans = e.eraseSpans :=
  (all_levels' e hnf).t.p0 rest hrest s hs fuel hfuel

/-- the theorem of `Ladder.lean` is an instance of `fallback_roundtrip_full` -/
theorem fallback_roundtrip_from_full (e : Expr) (hnf : NF e) (rest : List Char) (hrest : Follows rest)
    (s : PState) (hs : s.rest = pp 0 e ++ rest) (fuel : Nat) (hfuel : fuelNeeded e ≤ fuel) :
    ∃ e', fallback fuel s = some (s.adv (pp 0 e).length, e') ∧ e'.eraseSpans = e.eraseSpans := by
  have h := pp'_eq_pp e hnf 0 (by omega)
  rw [← h] at hs ⊢
  exact fallback_roundtrip_full e (NF_sub e hnf) rest hrest s hs fuel hfuel

/-! ### the restrictions of `NF'` and the parentheses of `pp'` are needed -/
namespace Full

/-- does the parser read the printed tree back as the same tree up to spans, consuming everything? -/
def readsBack (e : Expr) : Bool :=
  match fallback (fuelNeeded e) (PState.init (pp' 0 e)) with
  | some (s', e') => s'.rest.isEmpty && e'.eraseSpans == e.eraseSpans
  | none => false

/-- is the text read as the tree `e` up to spans, all of it? -/
def readsAs (txt : List Char) (e : Expr) : Bool :=
  match fallback 40 (PState.init txt) with
  | some (s', e') => s'.rest.isEmpty && e'.eraseSpans == e.eraseSpans
  | none => false

private def sp0 : Span := ⟨0, 0, 0⟩
private def lit (t : String) : Expr := .term t none 0 sp0
private def word (fs : List Expr) : Expr := .sub (.seq (ExprL.ofList fs) sp0) 0 sp0

set_option maxRecDepth 100000 in
/-- a literal directly followed by a bracket is read back … -/
theorem word_ok : readsBack (word [lit "--opt=", .nonterm "V" 0 sp0]) = true := by decide

set_option maxRecDepth 100000 in
/-- … but two juxtaposed literals are printed `ab` and read as one literal (`NFW`: a literal without
description must be followed by a bracket) -/
theorem word_two_literals : readsBack (word [lit "a", lit "b"]) = false := by decide

set_option maxRecDepth 100000 in
/-- a word inside a factor of a word is flattened by the parser (`NFW`: `NoSub`) -/
theorem word_in_word : readsBack (word [lit "a", word [.nonterm "X" 0 sp0, .nonterm "Y" 0 sp0]]) = false := by
  decide

set_option maxRecDepth 100000 in
/-- a literal that begins with `#` is a comment after a blank (`NF'`: the head is not `#`) -/
theorem hash_literal : readsBack (.seq (ExprL.ofList [lit "x", lit "#y"]) sp0) = false := by decide

set_option maxRecDepth 100000 in
/-- without the parentheses `pp' 4` puts around a literal that ends with a dot, `a.` followed by the
postfix `...` is not read as the repetition of `a.` … -/
theorem dots_unparenthesised : readsAs ['a', '.', '.', '.', '.'] (.many1 (lit "a.") sp0) = false := by decide

set_option maxRecDepth 100000 in
/-- … with them it is -/
theorem dots_parenthesised : pp' 0 (.many1 (lit "a.") sp0) = ['(', 'a', '.', ')', '.', '.', '.'] ∧
    readsBack (.many1 (lit "a.") sp0) = true := by decide

set_option maxRecDepth 100000 in
/-- without the parentheses `pp' 5` puts around a literal, `a "d"` is the literal with its own
description, not a description distributed over `(a)` -/
theorem dd_unparenthesised : readsAs ['a', ' ', '"', 'd', '"'] (.dd (lit "a") "d" sp0) = false ∧
    readsBack (.dd (lit "a") "d" sp0) = true := by decide

end Full

end Complgen.Parse
