import Complgen.Model.Quote
namespace Complgen.Quote

theorem rep1_append (p : Char) (r a b : List Char) :
    rep1 p r (a ++ b) = rep1 p r a ++ rep1 p r b := by
  simp [rep1, List.flatMap_append]

theorem applyChain_append (ch : Chain) (a b : List Char) :
    applyChain ch (a ++ b) = applyChain ch a ++ applyChain ch b := by
  induction ch generalizing a b with
  | nil => simp [applyChain]
  | cons pr ch ih =>
    simp only [applyChain, List.foldl_cons] at ih ⊢
    rw [rep1_append]
    exact ih _ _

theorem applyChain_nil (ch : Chain) : applyChain ch [] = [] := by
  induction ch with
  | nil => simp [applyChain]
  | cons pr ch ih => simpa [applyChain, rep1] using ih

theorem applyChain_cons (ch : Chain) (c : Char) (s : List Char) :
    applyChain ch (c :: s) = applyChain ch [c] ++ applyChain ch s := by
  have := applyChain_append ch [c] s
  simpa using this

theorem applyChain_single_of_not_mem (ch : Chain) (c : Char) (h : c ∉ ch.map (·.1)) :
    applyChain ch [c] = [c] := by
  induction ch with
  | nil => simp [applyChain]
  | cons pr ch ih =>
    simp only [List.map_cons, List.mem_cons, not_or] at h
    simp only [applyChain, List.foldl_cons]
    have : rep1 pr.1 pr.2 [c] = [c] := by
      simp [rep1, h.1]
    rw [this]
    exact ih h.2

theorem decode_plain (D : Dialect) (c : Char) (t : List Char) (h1 : c ≠ D.esc)
    (h2 : c ∉ D.special) : D.decode (c :: t) = (D.decode t).map (c :: ·) := by
  cases t with
  | nil => simp [Dialect.decode, h1, h2]
  | cons d rest => simp [Dialect.decode, h1, h2]

theorem decode_escaped (D : Dialect) (d : Char) (x : List Char) (t : List Char)
    (h : D.escMap d = some x) : D.decode (D.esc :: d :: t) = (D.decode t).map (x ++ ·) := by
  simp [Dialect.decode, h]

theorem decode_okChar (D : Dialect) (ch : Chain) (c : Char) (t : List Char)
    (h : okChar D ch c = true) :
    D.decode (applyChain ch [c] ++ t) = (D.decode t).map (c :: ·) := by
  unfold okChar at h
  simp only [Bool.or_eq_true, Bool.and_eq_true, beq_iff_eq, bne_iff_ne, ne_eq,
    Bool.not_eq_true', List.contains_eq_mem, decide_eq_false_iff_not] at h
  rcases h with ⟨⟨he, hesc⟩, hsp⟩ | h
  · rw [he]
    exact decode_plain D c t hesc hsp
  · generalize applyChain ch [c] = e at h
    match e, h with
    | [x, d], h =>
      simp only [Bool.and_eq_true, Bool.or_eq_true, beq_iff_eq, Bool.not_eq_true'] at h
      obtain ⟨rfl, hm | ⟨⟨hm, hk⟩, rfl⟩⟩ := h
      · simpa using decode_escaped D d [c] t hm
      · simp [Dialect.decode, hm, hk]

/-- **Round trip**: a chain that is well-formed for a dialect is read back verbatim and inert by
that dialect, for every string. -/
theorem chain_roundtrip (D : Dialect) (ch : Chain) (hok : chainOK D ch = true) (s : List Char) :
    D.decode (applyChain ch s) = some s := by
  induction s with
  | nil => simp [applyChain_nil, Dialect.decode]
  | cons c s ih =>
    rw [applyChain_cons]
    by_cases hc : c ∈ interesting D ch
    · have : okChar D ch c = true := by
        unfold chainOK at hok
        exact List.all_eq_true.mp hok c hc
      rw [decode_okChar D ch c _ this, ih]; rfl
    · have hesc : c ≠ D.esc := fun h => hc (by simp [interesting, h])
      have hsp : c ∉ D.special := fun h => hc (by simp [interesting, h])
      have hpat : c ∉ ch.map (·.1) := fun h => hc (by
        simp only [interesting, List.mem_cons, List.mem_append]
        exact .inr h)
      rw [applyChain_single_of_not_mem ch c hpat]
      show D.decode (c :: applyChain ch s) = _
      rw [decode_plain D c _ hesc hsp, ih]; rfl

end Complgen.Quote
