/-
C02: the automaton the run compares the implementation's automaton with — the determinised
partial-derivative automaton of `Spec.toSRx (Spec.meaning g)` — accepts exactly the key sequences of
the words (`denPos`) of the grammar's meaning: the same semantics `C02_end_to_end` is stated with.
-/
import Complgen.Proofs.Antimirov
import Complgen.Proofs.SpecKeys
import Complgen.Proofs.Meaning
namespace Complgen.Spec
open Complgen SRx

/-- the key of the leaf with number `p` when the leaves with keys `ks` are numbered from `i` -/
def keyAt (ks : List String) (i p : Nat) : String := ks[p - i]?.getD ""

mutual
/-- no `|`/`||` without alternatives occurs (the parser never produces one) -/
def NoEmptyAlt : Expr → Bool
  | .alt .nil _ | .fb .nil _ => false
  | .seq cs _ | .alt cs _ | .fb cs _ => NoEmptyAltL cs
  | .opt c _ | .many1 c _ | .dd c _ _ => NoEmptyAlt c
  | _ => true
def NoEmptyAltL : ExprL → Bool
  | .nil => true
  | .cons e es => NoEmptyAlt e && NoEmptyAltL es
end

theorem map_keyAt_left (ks ks' : List String) (i : Nat) (ps : List Nat)
    (h : ∀ p ∈ ps, i ≤ p ∧ p < i + ks.length) : ps.map (keyAt (ks ++ ks') i) = ps.map (keyAt ks i) := by
  apply List.map_congr_left
  intro p hp
  have := h p hp
  unfold keyAt
  rw [List.getElem?_append_left (by omega)]

theorem map_keyAt_right (ks ks' : List String) (i : Nat) (ps : List Nat)
    (h : ∀ p ∈ ps, i + ks.length ≤ p) : ps.map (keyAt (ks ++ ks') i) = ps.map (keyAt ks' (i + ks.length)) := by
  apply List.map_congr_left
  intro p hp
  have := h p hp
  unfold keyAt
  rw [List.getElem?_append_right (by omega)]
  congr 2
  omega

theorem toSRx_leaf_sym (wk : Expr → String) (e : Expr)
    (h : (∃ t d l s, e = .term t d l s) ∨ (∃ n l s, e = .nonterm n l s) ∨ (∃ c a l s, e = .cmd c a l s) ∨
      (∃ c l s, e = .sub c l s)) : toSRx wk e = .sym (keyOf wk e) := by
  rcases h with ⟨t, d, l, s, rfl⟩ | ⟨n, l, s, rfl⟩ | ⟨c, a, l, s, rfl⟩ | ⟨c, l, s, rfl⟩ <;> simp [toSRx, keyOf]

theorem leaf_lang (k : String) (i : Nat) (w : List String) :
    Lang (.sym k) w ↔ ∃ ps : List Nat, ps = [i] ∧ ps.map (keyAt [k] i) = w := by
  rw [lang_sym]
  constructor
  · rintro rfl; exact ⟨[i], rfl, by simp [keyAt]⟩
  · rintro ⟨ps, rfl, rfl⟩; simp [keyAt]

end Complgen.Spec

namespace Complgen.Spec
open Complgen SRx

theorem lang_star_iff (r : SRx) (v : List String) :
    Lang (.star r) v ↔ ∃ vs : List (List String), v = vs.flatten ∧ ∀ u ∈ vs, Lang r u := by
  constructor
  · intro h
    generalize hx : SRx.star r = x at h
    induction h with
    | eps => cases hx
    | sym k => cases hx
    | cat _ _ => cases hx
    | altL _ => cases hx
    | altR _ => cases hx
    | starNil => exact ⟨[], rfl, fun u hu => by cases hu⟩
    | @starCons a u v' hu _ _ ih2 =>
      cases hx
      obtain ⟨vs, rfl, hall⟩ := ih2 rfl
      exact ⟨u :: vs, by simp, fun x hx => by
        rcases List.mem_cons.mp hx with rfl | hx
        · exact hu
        · exact hall x hx⟩
  · rintro ⟨vs, rfl, hall⟩
    induction vs with
    | nil => exact .starNil
    | cons u vs ih =>
      simp only [List.flatten_cons]
      exact .starCons (hall u (by simp)) (ih (fun x hx => hall x (by simp [hx])))

theorem lang_plus (r : SRx) (w : List String) :
    Lang (SRx.mkCat r (.star r)) w ↔
      ∃ ws : List (List String), ws ≠ [] ∧ w = ws.flatten ∧ ∀ u ∈ ws, Lang r u := by
  rw [mkCat_lang, lang_cat]
  constructor
  · rintro ⟨u, v, rfl, hu, hv⟩
    obtain ⟨vs, rfl, hall⟩ := (lang_star_iff r v).mp hv
    exact ⟨u :: vs, by simp, by simp, fun x hx => by
      rcases List.mem_cons.mp hx with rfl | hx
      · exact hu
      · exact hall x hx⟩
  · rintro ⟨ws, hne, rfl, hall⟩
    cases ws with
    | nil => exact absurd rfl hne
    | cons u vs =>
      exact ⟨u, vs.flatten, by simp, hall u (by simp),
        (lang_star_iff r _).mpr ⟨vs, rfl, fun x hx => hall x (by simp [hx])⟩⟩

mutual
theorem toSRx_lang (wk : Expr → String) : ∀ (e : Expr), Check.NoDD e = true → NoEmptyAlt e = true →
    ∀ (i : Nat) (w : List String),
      Lang (toSRx wk e) w ↔ ∃ ps, e.denPos i ps ∧ ps.map (keyAt (leafKeys wk e) i) = w
  | .term t d l s, _, _, i, w => by
    rw [toSRx_leaf_sym wk _ (.inl ⟨t, d, l, s, rfl⟩), leaf_lang _ i]
    simp [Expr.denPos, leafKeys]
  | .nonterm n l s, _, _, i, w => by
    rw [toSRx_leaf_sym wk _ (.inr (.inl ⟨n, l, s, rfl⟩)), leaf_lang _ i]
    simp [Expr.denPos, leafKeys]
  | .cmd c a l s, _, _, i, w => by
    rw [toSRx_leaf_sym wk _ (.inr (.inr (.inl ⟨c, a, l, s, rfl⟩))), leaf_lang _ i]
    simp [Expr.denPos, leafKeys]
  | .sub c l s, _, _, i, w => by
    rw [toSRx_leaf_sym wk _ (.inr (.inr (.inr ⟨c, l, s, rfl⟩))), leaf_lang _ i]
    simp [Expr.denPos, leafKeys]
  | .dd c d s, hd, _, _, _ => by simp [Check.NoDD] at hd
  | .seq cs s, hd, hn, i, w => by
    simp only [toSRx, Expr.denPos, leafKeys]
    exact toSRxCat_lang wk cs (by simpa [Check.NoDD] using hd) (by simpa [NoEmptyAlt] using hn) i w
  | .alt cs s, hd, hn, i, w => by
    simp only [toSRx, Expr.denPos, leafKeys]
    have hne : cs ≠ .nil := by
      intro e; subst e; simp [NoEmptyAlt] at hn
    have hn' : NoEmptyAltL cs = true := by
      cases cs with
      | nil => exact absurd rfl hne
      | cons e es => simpa [NoEmptyAlt] using hn
    exact toSRxAlt_lang wk cs hne (by simpa [Check.NoDD] using hd) hn' i w
  | .fb cs s, hd, hn, i, w => by
    simp only [toSRx, Expr.denPos, leafKeys]
    have hne : cs ≠ .nil := by
      intro e; subst e; simp [NoEmptyAlt] at hn
    have hn' : NoEmptyAltL cs = true := by
      cases cs with
      | nil => exact absurd rfl hne
      | cons e es => simpa [NoEmptyAlt] using hn
    exact toSRxAlt_lang wk cs hne (by simpa [Check.NoDD] using hd) hn' i w
  | .opt c s, hd, hn, i, w => by
    have ih := toSRx_lang wk c (by simpa [Check.NoDD] using hd) (by simpa [NoEmptyAlt] using hn) i w
    simp only [toSRx, Expr.denPos, leafKeys, lang_alt, lang_eps, ih]
    constructor
    · rintro (⟨ps, h1, h2⟩ | rfl)
      · exact ⟨ps, .inr h1, h2⟩
      · exact ⟨[], .inl rfl, rfl⟩
    · rintro ⟨ps, (rfl | h1), h2⟩
      · right; simpa using h2.symm
      · exact .inl ⟨ps, h1, h2⟩
  | .many1 c s, hd, hn, i, w => by
    have ih := toSRx_lang wk c (by simpa [Check.NoDD] using hd) (by simpa [NoEmptyAlt] using hn) i
    simp only [toSRx, Expr.denPos, leafKeys]
    rw [lang_plus]
    constructor
    · rintro ⟨ws, hne, rfl, hall⟩
      -- choose a position word for every key word
      have hch : ∀ ws' : List (List String), (∀ u ∈ ws', Lang (toSRx wk c) u) →
          ∃ pss : List (List Nat), pss.length = ws'.length ∧ (∀ ps ∈ pss, c.denPos i ps) ∧
            pss.map (List.map (keyAt (leafKeys wk c) i)) = ws' := by
        intro ws'
        induction ws' with
        | nil => intro _; exact ⟨[], rfl, (fun _ h => by cases h), rfl⟩
        | cons u us ihl =>
          intro h
          obtain ⟨ps, hp1, hp2⟩ := (ih u).mp (h u (by simp))
          obtain ⟨pss, hl, hd', hm⟩ := ihl (fun x hx => h x (by simp [hx]))
          exact ⟨ps :: pss, by simp [hl], fun q hq => by
            rcases List.mem_cons.mp hq with rfl | hq
            · exact hp1
            · exact hd' q hq, by simp [hp2, hm]⟩
      obtain ⟨pss, hl, hd', hm⟩ := hch ws hall
      refine ⟨pss.flatten, ⟨pss, ?_, rfl, hd'⟩, ?_⟩
      · intro e; subst e; simp at hl; exact hne (List.eq_nil_of_length_eq_zero hl.symm)
      · rw [List.map_flatten, hm]
    · rintro ⟨ps, ⟨pss, hne, rfl, hall⟩, rfl⟩
      refine ⟨pss.map (List.map (keyAt (leafKeys wk c) i)), ?_, by rw [List.map_flatten], ?_⟩
      · intro e; exact hne (List.map_eq_nil_iff.mp e)
      · intro u hu
        obtain ⟨q, hq, rfl⟩ := List.mem_map.mp hu
        exact (ih _).mpr ⟨q, hall q hq, rfl⟩
theorem toSRxCat_lang (wk : Expr → String) : ∀ (es : ExprL), Check.NoDDL es = true → NoEmptyAltL es = true →
    ∀ (i : Nat) (w : List String),
      Lang (toSRxCat wk es) w ↔ ∃ ps, es.denSeq i ps ∧ ps.map (keyAt (leafKeysL wk es) i) = w
  | .nil, _, _, i, w => by
    simp only [toSRxCat, ExprL.denSeq, leafKeysL, lang_eps]
    constructor
    · rintro rfl; exact ⟨[], rfl, rfl⟩
    · rintro ⟨ps, rfl, rfl⟩; rfl
  | .cons e es, hd, hn, i, w => by
    simp only [Check.NoDDL, Bool.and_eq_true] at hd
    simp only [NoEmptyAltL, Bool.and_eq_true] at hn
    have ih1 := toSRx_lang wk e hd.1 hn.1 i
    have ih2 := toSRxCat_lang wk es hd.2 hn.2 (i + e.leafCount)
    simp only [toSRxCat, ExprL.denSeq, leafKeysL]
    rw [mkCat_lang, lang_cat]
    have hlen := leafKeys_length wk e
    constructor
    · rintro ⟨u, v, rfl, hu, hv⟩
      obtain ⟨ps1, hp1, rfl⟩ := (ih1 u).mp hu
      obtain ⟨ps2, hp2, rfl⟩ := (ih2 v).mp hv
      refine ⟨ps1 ++ ps2, ⟨ps1, ps2, rfl, hp1, hp2⟩, ?_⟩
      rw [List.map_append,
        map_keyAt_left _ _ i ps1 (by rw [hlen]; exact denPos_range e i ps1 hp1),
        map_keyAt_right _ _ i ps2 (by rw [hlen]; exact fun p hp => (denSeq_range es _ ps2 hp2 p hp).1), hlen]
    · rintro ⟨ps, ⟨ps1, ps2, rfl, hp1, hp2⟩, rfl⟩
      refine ⟨ps1.map (keyAt (leafKeys wk e) i), ps2.map (keyAt (leafKeysL wk es) (i + e.leafCount)), ?_,
        (ih1 _).mpr ⟨ps1, hp1, rfl⟩, (ih2 _).mpr ⟨ps2, hp2, rfl⟩⟩
      rw [List.map_append,
        map_keyAt_left _ _ i ps1 (by rw [hlen]; exact denPos_range e i ps1 hp1),
        map_keyAt_right _ _ i ps2 (by rw [hlen]; exact fun p hp => (denSeq_range es _ ps2 hp2 p hp).1), hlen]
theorem toSRxAlt_lang (wk : Expr → String) : ∀ (es : ExprL), es ≠ .nil → Check.NoDDL es = true →
    NoEmptyAltL es = true → ∀ (i : Nat) (w : List String),
      Lang (toSRxAlt wk es) w ↔ ∃ ps, es.denAlt i ps ∧ ps.map (keyAt (leafKeysL wk es) i) = w
  | .nil, h, _, _, _, _ => absurd rfl h
  | .cons e .nil, _, hd, hn, i, w => by
    simp only [Check.NoDDL, Bool.and_eq_true] at hd
    simp only [NoEmptyAltL, Bool.and_eq_true] at hn
    have ih1 := toSRx_lang wk e hd.1 hn.1 i w
    simp only [toSRxAlt, ExprL.denAlt, leafKeysL, List.append_nil, or_false]
    exact ih1
  | .cons e (.cons e2 es), _, hd, hn, i, w => by
    simp only [Check.NoDDL, Bool.and_eq_true] at hd
    simp only [NoEmptyAltL, Bool.and_eq_true] at hn
    have ih1 := toSRx_lang wk e hd.1 hn.1 i w
    have ih2 := toSRxAlt_lang wk (.cons e2 es) (by simp) (by simp [Check.NoDDL, hd.2.1, hd.2.2])
      (by simp [NoEmptyAltL, hn.2.1, hn.2.2]) (i + e.leafCount) w
    have hlen := leafKeys_length wk e
    simp only [toSRxAlt, lang_alt]
    rw [ih1, ih2]
    generalize ExprL.cons e2 es = rest
    simp only [ExprL.denAlt, leafKeysL]
    constructor
    · rintro (⟨ps, hp, rfl⟩ | ⟨ps, hp, rfl⟩)
      · refine ⟨ps, .inl hp, ?_⟩
        rw [map_keyAt_left _ _ i ps (by rw [hlen]; exact denPos_range e i ps hp)]
      · refine ⟨ps, .inr hp, ?_⟩
        rw [map_keyAt_right _ _ i ps (by rw [hlen]; exact fun p hq => (denAlt_range _ _ ps hp p hq).1), hlen]
    · rintro ⟨ps, (hp | hp), rfl⟩
      · left
        refine ⟨ps, hp, ?_⟩
        rw [map_keyAt_left _ _ i ps (by rw [hlen]; exact denPos_range e i ps hp)]
      · right
        refine ⟨ps, hp, ?_⟩
        rw [map_keyAt_right _ _ i ps (by rw [hlen]; exact fun p hq => (denAlt_range _ _ ps hp p hq).1), hlen]
end

end Complgen.Spec

namespace Complgen.Spec
open Complgen SRx

/-- **The automaton of an expression's regular expression accepts exactly the key sequences of the
expression's words**, whenever its construction finished within its budget. -/
theorem toKAuto_denPos (wk : Expr → String) (e : Expr) (hd : Check.NoDD e = true) (hn : NoEmptyAlt e = true)
    (hfin : Finished (toSRx wk e)) (kw : List String) :
    (toSRx wk e).toKAuto.accepts kw = true ↔
      ∃ ps, e.denPos 0 ps ∧ ps.map (keyAt (leafKeys wk e) 0) = kw := by
  rw [toKAuto_correct _ hfin, toSRx_lang wk e hd hn 0]

/-- **The oracle of the run has the semantics of the theorem**: the automaton of the grammar's meaning
(`specAuto`, the one every implementation automaton is compared with) accepts exactly the key
sequences of the words (`denPos`) of `Spec.meaning g sh`. -/
theorem specAuto_correct (g : Grammar) (sh : Shell) (hn : NoEmptyAlt (meaning g sh) = true)
    (hfin : Finished (toSRx wordKey (meaning g sh))) (kw : List String) :
    (specAuto g sh).accepts kw = true ↔
      ∃ ps, (meaning g sh).denPos 0 ps ∧ ps.map (keyAt (leafKeys wordKey (meaning g sh)) 0) = kw := by
  unfold specAuto
  exact toKAuto_denPos wordKey _ (Check.meaningAt_noDD default g sh) hn hfin kw

end Complgen.Spec
