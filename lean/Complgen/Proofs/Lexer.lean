/-
C05: the two lexers of parse.rs, as modelled in `Model/Parse.lean`, read back what the printer
writes — for every text, not for samples.
  * `description_roundtrip`: a description printed between double quotes with `"` and `\` escaped by
    a backslash is read back as the original text, consuming exactly the printed characters.
-/
import Complgen.Model.Parse
namespace Complgen.Parse
open Complgen

theorem adv_zero (s : PState) : s.adv 0 = s := by
  obtain ⟨r, l, c⟩ := s; simp [PState.adv]

theorem adv_add' (s : PState) (m n : Nat) : (s.adv m).adv n = s.adv (m + n) := by
  induction m generalizing s with
  | zero => simp [PState.adv]
  | succ m ih =>
    obtain ⟨rest, l, c⟩ := s
    cases rest with
    | nil =>
      have : ∀ k, PState.adv ⟨[], l, c⟩ k = ⟨[], l, c⟩ := by
        intro k; cases k <;> simp [PState.adv]
      simp [this]
    | cons ch cs =>
      have h : m + 1 + n = (m + n) + 1 := by omega
      rw [h]
      simp only [PState.adv]
      split <;> exact ih _

theorem adv_rest' (s : PState) (n : Nat) : (s.adv n).rest = s.rest.drop n := by
  induction n generalizing s with
  | zero => simp [PState.adv]
  | succ n ih =>
    obtain ⟨rest, l, c⟩ := s
    cases rest with
    | nil => simp [PState.adv]
    | cons ch cs =>
      simp only [PState.adv]
      split <;> simp [ih]

/-! ### descriptions -/

def plainD (c : Char) : Bool := c ≠ '"' && c ≠ '\\'

/-- the printer: `"` and `\` get a backslash -/
def escD : List Char → List Char
  | [] => []
  | c :: cs => if c = '"' then '\\' :: '"' :: escD cs else if c = '\\' then '\\' :: '\\' :: escD cs else c :: escD cs

theorem escD_append : ∀ a b : List Char, escD (a ++ b) = escD a ++ escD b
  | [], b => rfl
  | c :: a, b => by
    simp only [List.cons_append, escD, escD_append a b]
    split
    · rfl
    · split <;> rfl

theorem escD_plain : ∀ a : List Char, (∀ c ∈ a, plainD c = true) → escD a = a
  | [], _ => rfl
  | c :: a, h => by
    have hc := h c (by simp)
    simp only [plainD, Bool.and_eq_true, decide_eq_true_eq] at hc
    simp [escD, hc.1, hc.2, escD_plain a (fun x hx => h x (by simp [hx]))]

theorem takeWhile_run (p : Char → Bool) : ∀ (run t : List Char), (∀ c ∈ run, p c = true) →
    (t = [] ∨ ∃ x t', t = x :: t' ∧ p x = false) → (run ++ t).takeWhile p = run
  | [], t, _, ht => by
    rcases ht with rfl | ⟨x, t', rfl, hx⟩
    · rfl
    · simp [List.takeWhile, hx]
  | c :: run, t, h, ht => by
    have hc := h c (by simp)
    simp [List.takeWhile, hc, takeWhile_run p run t (fun x hx => h x (by simp [hx])) ht]

theorem mem_takeWhile_sat (p : Char → Bool) : ∀ (l : List Char) (c : Char), c ∈ l.takeWhile p → p c = true
  | [], c, h => by simp at h
  | x :: l, c, h => by
    by_cases hx : p x = true
    · simp only [List.takeWhile, hx, List.mem_cons] at h
      rcases h with rfl | h
      · exact hx
      · exact mem_takeWhile_sat p l c h
    · have : p x = false := by simpa using hx
      simp [List.takeWhile, this] at h

theorem len_le_escD : ∀ d : List Char, d.length ≤ (escD d).length
  | [] => by simp [escD]
  | c :: cs => by
    have ih := len_le_escD cs
    simp only [escD]
    split
    · simp; omega
    · split <;> simp <;> omega

theorem dropWhile_head (p : Char → Bool) : ∀ l : List Char,
    l.dropWhile p = [] ∨ ∃ x t', l.dropWhile p = x :: t' ∧ p x = false
  | [] => .inl rfl
  | c :: l => by
    by_cases hc : p c = true
    · simp only [List.dropWhile, hc]; exact dropWhile_head p l
    · have : p c = false := by simpa using hc
      simp only [List.dropWhile, this]; exact .inr ⟨c, l, rfl, this⟩

/-- the first character of a printed text that starts with a special character is a backslash -/
theorem escD_head_special (x : Char) (t : List Char) (hx : plainD x = false) :
    ∃ y t', escD (x :: t) = '\\' :: y :: t' := by
  simp only [plainD, Bool.and_eq_false_iff, decide_eq_false_iff_not, ne_eq, Decidable.not_not] at hx
  rcases hx with h | h
  · subst h; exact ⟨'"', escD t, by simp [escD]⟩
  · subst h; exact ⟨'\\', escD t, by simp [escD]⟩

theorem descrLoop_roundtrip (rest : List Char) : ∀ (fuel : Nat) (d : List Char) (s : PState) (acc : List Char),
    s.rest = escD d ++ '"' :: rest → d.length + 1 ≤ fuel →
    descrLoop fuel s acc = (s.adv (escD d).length, acc ++ d)
  | 0, d, s, acc, _, hf => by omega
  | fuel + 1, d, s, acc, hs, hf => by
    -- split `d` into its leading run of plain characters and the remainder
    have hsplit : d = d.takeWhile plainD ++ d.dropWhile plainD := (List.takeWhile_append_dropWhile).symm
    generalize hrun : d.takeWhile plainD = run at hsplit
    generalize hd2 : d.dropWhile plainD = d2 at hsplit
    have hrunp : ∀ c ∈ run, plainD c = true := by
      intro c hc; rw [← hrun] at hc; exact mem_takeWhile_sat plainD d c hc
    have hd2h : d2 = [] ∨ ∃ x t', d2 = x :: t' ∧ plainD x = false := by
      rw [← hd2]; exact dropWhile_head plainD d
    have hesc : escD d = run ++ escD d2 := by
      conv => lhs; rw [hsplit]
      rw [escD_append, escD_plain run hrunp]
    -- what follows the run in the input starts with `"` or `\`
    have htail : (escD d2 ++ '"' :: rest = [] ∨ ∃ x t', escD d2 ++ '"' :: rest = x :: t' ∧ plainD x = false) := by
      right
      rcases hd2h with rfl | ⟨x, t', rfl, hx⟩
      · exact ⟨'"', rest, rfl, by simp [plainD]⟩
      · obtain ⟨y, t'', he⟩ := escD_head_special x t' hx
        exact ⟨'\\', y :: t'' ++ '"' :: rest, by rw [he]; rfl, by simp [plainD]⟩
    have hlit : s.rest.takeWhile (fun c => c ≠ '"' && c ≠ '\\') = run := by
      rw [hs, hesc, List.append_assoc]
      exact takeWhile_run plainD run _ hrunp htail
    unfold descrLoop
    simp only [hlit]
    by_cases hre : run = []
    · -- no plain characters first: `d` is empty or starts with a special character
      subst hre
      simp only [List.isEmpty_nil, Bool.not_true, Bool.false_eq_true, if_false]
      simp only [List.nil_append] at hsplit hesc
      rcases hd2h with rfl | ⟨x, t', rfl, hx⟩
      · -- end of the description
        subst hsplit
        simp only [escD, List.nil_append] at hs
        rw [hs]
        simp [escD, adv_zero]
      · subst hsplit
        simp only [plainD, Bool.and_eq_false_iff, decide_eq_false_iff_not, ne_eq, Decidable.not_not] at hx
        rcases hx with h | h
        · subst h
          have hs' : s.rest = '\\' :: '"' :: (escD t' ++ '"' :: rest) := by rw [hs]; simp [escD]
          rw [hs']
          simp only
          have ih := descrLoop_roundtrip rest fuel t' (s.adv 2) (acc ++ ['"'])
            (by rw [adv_rest', hs']; simp) (by simp at hf; omega)
          rw [ih, adv_add']
          simp only [escD, if_true, List.length_cons, List.append_assoc, List.singleton_append]
          congr 2; omega
        · subst h
          have hs' : s.rest = '\\' :: '\\' :: (escD t' ++ '"' :: rest) := by rw [hs]; simp [escD]
          rw [hs']
          simp only
          have ih := descrLoop_roundtrip rest fuel t' (s.adv 2) (acc ++ ['\\'])
            (by rw [adv_rest', hs']; simp) (by simp at hf; omega)
          rw [ih, adv_add']
          simp [escD]
          congr 1; omega
    · have hne : run.isEmpty = false := by cases run with | nil => exact absurd rfl hre | cons _ _ => rfl
      simp only [hne, Bool.not_false, if_true]
      have hlen : d2.length + 1 ≤ fuel := by
        have : d.length = run.length + d2.length := by rw [hsplit]; simp
        have hr : run.length ≥ 1 := by cases run with | nil => exact absurd rfl hre | cons _ _ => simp
        omega
      have ih := descrLoop_roundtrip rest fuel d2 (s.adv run.length) (acc ++ run)
        (by rw [adv_rest', hs, hesc, List.append_assoc]; simp) hlen
      rw [ih, adv_add', hesc]
      rw [hsplit]
      simp [List.append_assoc]

/-- **A printed description is read back as the original text** and exactly its characters are
consumed, whatever follows. -/
theorem description_roundtrip (d rest : List Char) (s : PState) (hs : s.rest = '"' :: escD d ++ '"' :: rest) :
    description s = some (s.adv ((escD d).length + 2), String.ofList d) := by
  unfold description
  have h1 : char? '"' s = some (s.adv 1) := by simp [char?, hs]
  have hr1 : (s.adv 1).rest = escD d ++ '"' :: rest := by rw [adv_rest', hs]; simp
  have hl := descrLoop_roundtrip rest ((s.adv 1).rest.length + 1) d (s.adv 1) [] hr1 (by
    rw [hr1]; simp only [List.length_append, List.length_cons]
    have := len_le_escD d
    omega)
  have hr2 : ((s.adv 1).adv (escD d).length).rest = '"' :: rest := by
    rw [adv_rest', hr1]; simp
  have h3 : char? '"' ((s.adv 1).adv (escD d).length) = some (((s.adv 1).adv (escD d).length).adv 1) := by
    simp [char?, hr2]
  simp only [h1, hl, Option.bind_eq_bind, Option.bind_some, List.nil_append, h3]
  rw [adv_add', adv_add']
  have : 1 + ((escD d).length + 1) = (escD d).length + 2 := by omega
  rw [this]

end Complgen.Parse

/-! ### literals: a reference decoder

`dec'` reads a literal character by character: a regular character stands for itself, a backslash
followed by an escapable character for that character, one or two dots for themselves; three or more
dots, or any other character, end the literal; a backslash followed by anything else is an error.
`terminalLoop_eq_dec` shows that the three-phase loop of `terminal` computes exactly this. -/
namespace Complgen.Parse
open Complgen

def isEsc (c : Char) : Bool := Gen.terminalEscapable.contains c
def dotRun (l : List Char) : Nat := (l.takeWhile (· = '.')).length

/-- (decoded text, number of characters consumed); `none`: invalid escape -/
def dec : Nat → List Char → Option (List Char × Nat)
  | 0, _ => some ([], 0)
  | _ + 1, [] => some ([], 0)
  | f + 1, c :: r =>
    if isRegular c then (dec f r).map fun p => (c :: p.1, p.2 + 1)
    else if c = '\\' then
      match r with
      | x :: r' => if isEsc x then (dec f r').map fun p => (x :: p.1, p.2 + 2) else none
      | [] => none
    else if c = '.' then
      if dotRun (c :: r) ≥ 3 then some ([], 0)
      else (dec f ((c :: r).drop (dotRun (c :: r)))).map fun p =>
        (List.replicate (dotRun (c :: r)) '.' ++ p.1, p.2 + dotRun (c :: r))
    else some ([], 0)

def dec' (l : List Char) : Option (List Char × Nat) := dec l.length l

theorem takeWhile_length_le (p : Char → Bool) : ∀ l : List Char, (l.takeWhile p).length ≤ l.length
  | [] => by simp
  | c :: l => by
    simp only [List.takeWhile]
    split
    · simp; exact takeWhile_length_le p l
    · simp

theorem dotRun_le (l : List Char) : dotRun l ≤ l.length := by
  unfold dotRun; exact takeWhile_length_le _ l

theorem dotRun_pos (r : List Char) : dotRun ('.' :: r) ≥ 1 := by
  simp [dotRun, List.takeWhile]

theorem dec_fuel : ∀ (f : Nat) (l : List Char), l.length ≤ f → dec f l = dec l.length l
  | 0, l, h => by
    have : l = [] := List.eq_nil_of_length_eq_zero (Nat.le_zero.mp h)
    subst this; rfl
  | f + 1, [], _ => by simp [dec]
  | f + 1, c :: r, h => by
    have hr : r.length ≤ f := by simpa using h
    simp only [List.length_cons, dec]
    have e1 : dec f r = dec r.length r := dec_fuel f r hr
    split
    · rw [e1]
    · split
      · cases r with
        | nil => rfl
        | cons x r' =>
          simp only
          have hr' : r'.length ≤ f := by simp at hr; omega
          have e2 : dec f r' = dec r'.length r' := dec_fuel f r' hr'
          have e3 : dec (r'.length + 1) r' = dec r'.length r' := dec_fuel _ r' (by omega)
          simp only [List.length_cons, e2, e3]
      · split
        · rename_i hc
          subst hc
          split
          · rfl
          · have hp := dotRun_pos r
            have hlen : (('.' :: r).drop (dotRun ('.' :: r))).length ≤ r.length := by
              simp only [List.length_drop, List.length_cons]; omega
            rw [dec_fuel f _ (Nat.le_trans hlen hr), dec_fuel r.length _ hlen]
        · rfl

theorem dec'_nil : dec' [] = some ([], 0) := rfl

theorem dec'_regular (c : Char) (r : List Char) (h : isRegular c = true) :
    dec' (c :: r) = (dec' r).map fun p => (c :: p.1, p.2 + 1) := by
  unfold dec'
  simp [dec, h]

theorem not_regular_backslash : isRegular '\\' = false := by decide
theorem not_regular_dot : isRegular '.' = false := by decide

theorem dec'_esc (x : Char) (r : List Char) :
    dec' ('\\' :: x :: r) = if isEsc x then (dec' r).map fun p => (x :: p.1, p.2 + 2) else none := by
  unfold dec'
  simp only [List.length_cons, dec, not_regular_backslash, Bool.false_eq_true, if_false, if_true]
  rw [dec_fuel (r.length + 1) r (by omega)]

theorem dec'_esc_end : dec' ['\\'] = none := by
  unfold dec'
  simp [dec, not_regular_backslash]

theorem dec'_dot (r : List Char) :
    dec' ('.' :: r) = if dotRun ('.' :: r) ≥ 3 then some ([], 0)
      else (dec' (('.' :: r).drop (dotRun ('.' :: r)))).map fun p =>
        (List.replicate (dotRun ('.' :: r)) '.' ++ p.1, p.2 + dotRun ('.' :: r)) := by
  unfold dec'
  have hne : ('.' : Char) ≠ '\\' := by decide
  simp only [List.length_cons, dec, not_regular_dot, Bool.false_eq_true, if_false, hne, if_true]
  split
  · rfl
  · have hp := dotRun_pos r
    have hlen : (('.' :: r).drop (dotRun ('.' :: r))).length ≤ r.length := by
      simp only [List.length_drop, List.length_cons]; omega
    rw [dec_fuel r.length _ hlen]

theorem dec'_other (c : Char) (r : List Char) (h1 : isRegular c = false) (h2 : c ≠ '\\') (h3 : c ≠ '.') :
    dec' (c :: r) = some ([], 0) := by
  unfold dec'
  simp [dec, h1, h2, h3]

end Complgen.Parse

namespace Complgen.Parse
open Complgen

theorem dec'_regular_run : ∀ (part r : List Char), (∀ c ∈ part, isRegular c = true) →
    dec' (part ++ r) = (dec' r).map fun p => (part ++ p.1, p.2 + part.length)
  | [], r, _ => by
    cases h : dec' r with
    | none => simp [h]
    | some p => simp [h]
  | c :: part, r, h => by
    have hc := h c (by simp)
    have ih := dec'_regular_run part r (fun x hx => h x (by simp [hx]))
    rw [List.cons_append, dec'_regular c _ hc, ih]
    cases dec' r with
    | none => rfl
    | some p => simp [Nat.add_assoc]

theorem startsWith_dots (s : PState) : startsWith s "..." = true ↔ dotRun s.rest ≥ 3 := by
  unfold startsWith dotRun
  have : "...".toList = ['.', '.', '.'] := by rfl
  rw [this]
  cases h0 : s.rest with
  | nil => simp
  | cons a r =>
    by_cases ha : a = '.'
    · subst ha
      cases r with
      | nil => simp [List.takeWhile]
      | cons b r =>
        by_cases hb : b = '.'
        · subst hb
          cases r with
          | nil => simp [List.takeWhile]
          | cons c r =>
            by_cases hc : c = '.'
            · subst hc; simp [List.takeWhile]
            · simp [List.takeWhile, hc]
              intro e; exact hc e.symm
        · simp [List.takeWhile, hb]
          intro e; exact absurd e.symm hb
    · simp [List.takeWhile, ha]
      intro e; exact absurd e.symm ha

theorem escLoop_nil (f : Nat) (s : PState) (acc : List Char) (n : Nat) (hr : s.rest = []) :
    escLoop (f + 1) s acc n = some (s, acc, n) := by
  unfold escLoop; rw [hr]

theorem escLoop_bs_end (f : Nat) (s : PState) (acc : List Char) (n : Nat) (hr : s.rest = ['\\']) :
    escLoop (f + 1) s acc n = none := by
  unfold escLoop; rw [hr]
  split
  · rename_i heq; cases heq
  · rfl
  · rename_i h1 h2; exact absurd rfl h2

theorem escLoop_bs (f : Nat) (s : PState) (acc : List Char) (n : Nat) (c : Char) (r' : List Char)
    (hr : s.rest = '\\' :: c :: r') :
    escLoop (f + 1) s acc n =
      if Gen.terminalEscapable.contains c then escLoop f (s.adv 2) (acc ++ [c]) (n + 1) else none := by
  conv => lhs; unfold escLoop
  rw [hr]
  split
  · rename_i heq; cases heq; rfl
  · rename_i heq; cases heq
  · rename_i h1 h2; exact absurd rfl (h1 c r')

theorem escLoop_stop (f : Nat) (s : PState) (acc : List Char) (n : Nat) (a : Char) (r : List Char)
    (hr : s.rest = a :: r) (ha : a ≠ '\\') : escLoop (f + 1) s acc n = some (s, acc, n) := by
  unfold escLoop; rw [hr]
  split
  · rename_i heq; cases heq; exact absurd rfl ha
  · rename_i heq; cases heq; exact absurd rfl ha
  · rfl

/-- what the escape loop does, in terms of the decoder -/
theorem escLoop_spec : ∀ (f : Nat) (s : PState) (acc : List Char) (n : Nat), s.rest.length + 1 ≤ f →
    match escLoop f s acc n with
    | none => dec' s.rest = none
    | some (s2, acc2, n2) => ∃ E : List Char, acc2 = acc ++ E ∧ n2 = n + E.length ∧ s2 = s.adv (2 * E.length) ∧
        dec' s.rest = (dec' s2.rest).map (fun p => (E ++ p.1, p.2 + 2 * E.length)) ∧
        (∀ r', s2.rest ≠ '\\' :: r')
  | 0, s, acc, n, h => by omega
  | f + 1, s, acc, n, h => by
    cases hr : s.rest with
    | nil =>
      rw [escLoop_nil f s acc n hr]
      simp only
      refine ⟨[], by simp, by simp, by simp [adv_zero], ?_, by rw [hr]; intro r' e; cases e⟩
      rw [hr]; simp [dec'_nil]
    | cons a r =>
      by_cases ha : a = '\\'
      · subst ha
        cases r with
        | nil => rw [escLoop_bs_end f s acc n hr]; exact dec'_esc_end
        | cons c r' =>
          rw [escLoop_bs f s acc n c r' hr]
          by_cases hc : Gen.terminalEscapable.contains c = true
          · simp only [hc, if_true]
            have hrest : (s.adv 2).rest = r' := by rw [adv_rest', hr]; rfl
            have ih := escLoop_spec f (s.adv 2) (acc ++ [c]) (n + 1) (by rw [hrest]; rw [hr] at h; simp at h; omega)
            cases he : escLoop f (s.adv 2) (acc ++ [c]) (n + 1) with
            | none =>
              rw [he] at ih
              simp only at ih ⊢
              rw [hrest] at ih
              rw [dec'_esc]
              simp only [isEsc, hc, if_true, ih, Option.map_none]
            | some res =>
              obtain ⟨s2, acc2, n2⟩ := res
              rw [he] at ih
              simp only at ih ⊢
              obtain ⟨E, h1, h2, h3, h4, h5⟩ := ih
              refine ⟨c :: E, by simp [h1], by simp [h2]; omega, ?_, ?_, h5⟩
              · rw [h3, adv_add']; congr 1; simp; omega
              · rw [dec'_esc]
                simp only [isEsc, hc, if_true]
                rw [hrest] at h4
                rw [h4]
                cases dec' s2.rest with
                | none => rfl
                | some p => simp; omega
          · have hc' : Gen.terminalEscapable.contains c = false := by simpa using hc
            simp only [hc', Bool.false_eq_true, if_false]
            rw [dec'_esc]
            simp only [isEsc, hc', Bool.false_eq_true, if_false]
      · rw [escLoop_stop f s acc n a r hr ha]
        simp only
        refine ⟨[], by simp, by simp, by simp [adv_zero], ?_, ?_⟩
        · rw [hr]
          cases dec' (a :: r) with
          | none => rfl
          | some p => simp
        · rw [hr]; intro r' e; cases e; exact ha rfl

end Complgen.Parse

namespace Complgen.Parse
open Complgen

theorem takeWhile_dots (l : List Char) : l.takeWhile (· = '.') = List.replicate (dotRun l) '.' := by
  unfold dotRun
  induction l with
  | nil => rfl
  | cons c l ih =>
    by_cases hc : c = '.'
    · subst hc
      rw [List.takeWhile_cons_of_pos (by simp)]
      simp only [List.length_cons, List.replicate_succ]
      rw [← ih]
    · rw [List.takeWhile_cons_of_neg (by simpa using hc)]
      rfl

theorem takeWhile_nil_head (p : Char → Bool) (a : Char) (r : List Char) (h : (a :: r).takeWhile p = []) :
    p a = false := by
  by_cases ha : p a = true
  · simp [List.takeWhile, ha] at h
  · simpa using ha

theorem dotRun_zero_head (a : Char) (r : List Char) (h : dotRun (a :: r) = 0) : a ≠ '.' := by
  intro e; subst e
  have := dotRun_pos r
  omega

theorem dotRun_pos_head (l : List Char) (h : dotRun l ≥ 1) : ∃ r, l = '.' :: r := by
  cases l with
  | nil => simp [dotRun] at h
  | cons a r =>
    by_cases ha : a = '.'
    · exact ⟨r, by rw [ha]⟩
    · simp [dotRun, List.takeWhile, ha] at h

theorem terminalLoop_nil (fuel : Nat) (s : PState) (acc : List Char) (hr : s.rest = []) :
    terminalLoop (fuel + 1) s acc = some (s, acc) := by
  have hsw : startsWith s "..." = false := by
    cases h : startsWith s "..." with
    | false => rfl
    | true => have := (startsWith_dots s).mp h; rw [hr] at this; simp [dotRun] at this
  unfold terminalLoop
  have h1 : s.rest.takeWhile isRegular = [] := by rw [hr]; rfl
  simp only [h1, List.length_nil, adv_zero, List.append_nil]
  have h2 : escLoop (s.rest.length + 1) s acc 0 = some (s, acc, 0) := escLoop_nil _ s acc 0 hr
  rw [h2]
  simp only [hsw, Bool.false_eq_true, if_false]
  have h3 : s.rest.takeWhile (· = '.') = [] := by rw [hr]; rfl
  simp only [h3, List.length_nil, adv_zero, List.append_nil, Nat.add_zero, if_true]

/-- **The terminal lexer is the reference decoder**: for every input and every accumulated prefix,
the three-phase loop of `terminal` (regular run, escapes, fewer than three dots, repeated) returns
what reading character by character returns. -/
theorem terminalLoop_eq_dec : ∀ (fuel : Nat) (s : PState) (acc : List Char), s.rest.length + 1 ≤ fuel →
    terminalLoop fuel s acc = (dec' s.rest).map fun p => (s.adv p.2, acc ++ p.1)
  | 0, s, acc, h => by omega
  | fuel + 1, s, acc, h => by
    cases hr : s.rest with
    | nil =>
      rw [terminalLoop_nil fuel s acc hr]
      simp [dec'_nil, adv_zero]
    | cons a0 r0 =>
      have hlen1 : s.rest.length ≥ 1 := by rw [hr]; simp
      rw [← hr]
      -- the regular run
      have hsplit : s.rest = s.rest.takeWhile isRegular ++ s.rest.dropWhile isRegular :=
        (List.takeWhile_append_dropWhile).symm
      generalize hpart : s.rest.takeWhile isRegular = part at hsplit
      generalize hr1 : s.rest.dropWhile isRegular = r1 at hsplit
      have hpartreg : ∀ c ∈ part, isRegular c = true := by
        intro c hc; rw [← hpart] at hc; exact mem_takeWhile_sat isRegular _ c hc
      have hs1 : (s.adv part.length).rest = r1 := by rw [adv_rest', hsplit]; simp
      have hP1 := dec'_regular_run part r1 hpartreg
      have hE := escLoop_spec ((s.adv part.length).rest.length + 1) (s.adv part.length) (acc ++ part) 0 (Nat.le_refl _)
      unfold terminalLoop
      simp only [hpart]
      cases hesc : escLoop ((s.adv part.length).rest.length + 1) (s.adv part.length) (acc ++ part) 0 with
      | none =>
        rw [hesc] at hE
        simp only at hE ⊢
        rw [hs1] at hE
        rw [hsplit, hP1, hE]; rfl
      | some res =>
        obtain ⟨s2, acc2, nesc⟩ := res
        rw [hesc] at hE
        simp only at hE ⊢
        obtain ⟨E, hacc2, hnesc, hs2, hdecE, hnobs⟩ := hE
        rw [hs1] at hdecE
        -- `dec'` of the whole input in terms of `dec'` after the escapes
        have hdec2 : dec' s.rest = (dec' s2.rest).map fun p => (part ++ E ++ p.1, p.2 + 2 * E.length + part.length) := by
          rw [hsplit, hP1, hdecE]
          cases dec' s2.rest with
          | none => rfl
          | some p => simp [List.append_assoc]
        have hs2' : s2 = s.adv (part.length + 2 * E.length) := by rw [hs2, adv_add']
        by_cases hsw : startsWith s2 "..." = true
        · -- three dots: the literal ends here
          simp only [hsw, if_true]
          have hrun := (startsWith_dots s2).mp hsw
          obtain ⟨rr, hrr⟩ := dotRun_pos_head s2.rest (by omega)
          have : dec' s2.rest = some ([], 0) := by
            rw [hrr, dec'_dot]; rw [hrr] at hrun; simp [hrun]
          rw [hdec2, this]
          simp only [Option.map_some, List.append_nil, Nat.zero_add]
          rw [hs2', hacc2]
          simp [List.append_assoc, Nat.add_comm]
        · have hsw' : startsWith s2 "..." = false := by simpa using hsw
          simp only [hsw', Bool.false_eq_true, if_false]
          have hrun : dotRun s2.rest < 3 := by
            rcases Nat.lt_or_ge (dotRun s2.rest) 3 with h1 | h1
            · exact h1
            · exact absurd ((startsWith_dots s2).mpr h1) hsw
          have hdots : s2.rest.takeWhile (· = '.') = List.replicate (dotRun s2.rest) '.' := takeWhile_dots _
          have hdl : (s2.rest.takeWhile (· = '.')).length = dotRun s2.rest := rfl
          by_cases htot : part.length + nesc + (s2.rest.takeWhile (· = '.')).length = 0
          · -- nothing consumed in this round: the literal ends here
            simp only [htot, if_true]
            have hp0 : part = [] := List.eq_nil_of_length_eq_zero (by omega)
            have hE0 : E = [] := List.eq_nil_of_length_eq_zero (by omega)
            have hd0 : dotRun s2.rest = 0 := by omega
            subst hp0; subst hE0
            simp only [List.length_nil, Nat.mul_zero, Nat.add_zero, adv_zero] at hs2'
            subst hs2'
            have hdecs : dec' s2.rest = some ([], 0) := by
              rw [hr]
              have hreg : isRegular a0 = false := by
                have := takeWhile_nil_head isRegular a0 r0 (by rw [← hr]; exact hpart)
                exact this
              have hbs : a0 ≠ '\\' := fun e => hnobs r0 (by rw [hr, e])
              have hdot : a0 ≠ '.' := dotRun_zero_head a0 r0 (by rw [← hr]; exact hd0)
              exact dec'_other a0 r0 hreg hbs hdot
            rw [hdecs, hacc2, hdl, hd0]
            simp [adv_zero, hdots, hd0]
          · simp only [htot, if_false]
            -- the next round starts after the dots
            have hs3rest : (s2.adv (s2.rest.takeWhile (· = '.')).length).rest = s2.rest.drop (dotRun s2.rest) := by
              rw [adv_rest', hdl]
            have hs2len : s2.rest.length = s.rest.length - (part.length + 2 * E.length) := by
              rw [hs2', adv_rest', List.length_drop]
            have hfuel : (s2.adv (s2.rest.takeWhile (· = '.')).length).rest.length + 1 ≤ fuel := by
              rw [adv_rest', List.length_drop, hdl, hs2len]
              rw [hdl] at htot
              omega
            rw [terminalLoop_eq_dec fuel _ _ hfuel, hs3rest, hdec2]
            -- `dec'` at the dots
            have hdec3 : dec' s2.rest = (dec' (s2.rest.drop (dotRun s2.rest))).map fun p =>
                (List.replicate (dotRun s2.rest) '.' ++ p.1, p.2 + dotRun s2.rest) := by
              by_cases hd0 : dotRun s2.rest = 0
              · rw [hd0]
                simp only [List.drop_zero, List.replicate_zero, List.nil_append, Nat.add_zero]
                cases dec' s2.rest <;> rfl
              · obtain ⟨rr, hrr⟩ := dotRun_pos_head s2.rest (by omega)
                rw [hrr] at hrun ⊢
                rw [dec'_dot]
                have : ¬ dotRun ('.' :: rr) ≥ 3 := by omega
                simp only [this, if_false]
            rw [hdec3, hdots]
            simp only [List.length_replicate]
            rw [hacc2]
            cases dec' (s2.rest.drop (dotRun s2.rest)) with
            | none => rfl
            | some p =>
              simp only [Option.map_some, adv_add', List.append_assoc]
              have hadv : ∀ k, s2.adv k = s.adv (part.length + 2 * E.length + k) := fun k => by
                rw [hs2', adv_add']
              rw [hadv]
              have harith : part.length + 2 * E.length + (dotRun s2.rest + p.2) =
                  p.2 + dotRun s2.rest + 2 * E.length + part.length := by omega
              rw [harith]

end Complgen.Parse

/-! ### literals: printer and round trip -/
namespace Complgen.Parse
open Complgen

/-- `terminal` in terms of the decoder -/
theorem terminal_eq_dec (s : PState) :
    terminal s = match dec' s.rest with
      | none => none
      | some (t, n) => if t.isEmpty then none else some (s.adv n, String.ofList t) := by
  unfold terminal
  rw [terminalLoop_eq_dec _ s [] (Nat.le_refl _)]
  cases dec' s.rest with
  | none => rfl
  | some p => simp

/-- the printer with the fewest escapes: a character that is not regular gets a backslash, a dot only
when two unescaped dots stand right before it (`k` counts them) -/
def escT : Nat → List Char → List Char
  | _, [] => []
  | k, c :: t =>
    if c = '.' then (if k ≥ 2 then '\\' :: '.' :: escT 0 t else '.' :: escT (k + 1) t)
    else if isRegular c then c :: escT 0 t
    else '\\' :: c :: escT 0 t

/-- what may follow a literal: the end of the input or a character that cannot continue it -/
def Terminates (rest : List Char) : Prop :=
  rest = [] ∨ ∃ x r, rest = x :: r ∧ isRegular x = false ∧ x ≠ '\\' ∧ x ≠ '.'

def NotDotHead (l : List Char) : Prop := l = [] ∨ ∃ x r, l = x :: r ∧ x ≠ '.'

theorem dotRun_notDot (l : List Char) (h : NotDotHead l) : dotRun l = 0 := by
  rcases h with rfl | ⟨x, r, rfl, hx⟩
  · rfl
  · simp [dotRun, List.takeWhile, hx]

theorem dotRun_cons_dot (l : List Char) : dotRun ('.' :: l) = dotRun l + 1 := by
  simp [dotRun, List.takeWhile]

theorem escT_notDot (k : Nat) (t rest : List Char) (hrest : NotDotHead rest)
    (h : t = [] ∨ (∃ c t', t = c :: t' ∧ c ≠ '.') ∨ k ≥ 2) : NotDotHead (escT k t ++ rest) := by
  cases t with
  | nil => simpa [escT] using hrest
  | cons c t' =>
    by_cases hc : c = '.'
    · subst hc
      rcases h with h | ⟨c, t'', h, hne⟩ | h
      · cases h
      · cases h; exact absurd rfl hne
      · simp only [escT, if_true, h]
        exact .inr ⟨'\\', _, rfl, by decide⟩
    · simp only [escT, hc, if_false]
      split
      · exact .inr ⟨c, _, rfl, hc⟩
      · exact .inr ⟨'\\', _, rfl, by decide⟩

theorem escT_reset (k : Nat) (t : List Char) (h : t = [] ∨ ∃ c t', t = c :: t' ∧ c ≠ '.') :
    escT k t = escT 0 t := by
  rcases h with rfl | ⟨c, t', rfl, hc⟩
  · rfl
  · simp [escT, hc]

theorem terminates_notDot (rest : List Char) (h : Terminates rest) : NotDotHead rest := by
  rcases h with rfl | ⟨x, r, rfl, _, _, hx⟩
  · exact .inl rfl
  · exact .inr ⟨x, r, rfl, hx⟩

theorem dec'_terminates (rest : List Char) (h : Terminates rest) : dec' rest = some ([], 0) := by
  rcases h with rfl | ⟨x, r, rfl, h1, h2, h3⟩
  · rfl
  · exact dec'_other x r h1 h2 h3

theorem escT_dot_lt (k : Nat) (t : List Char) (h : k < 2) : escT k ('.' :: t) = '.' :: escT (k + 1) t := by
  have : ¬ k ≥ 2 := by omega
  simp [escT, this]

theorem escT_dot_ge (k : Nat) (t : List Char) (h : k ≥ 2) : escT k ('.' :: t) = '\\' :: '.' :: escT 0 t := by
  simp [escT, h]

theorem escT_reg (k : Nat) (c : Char) (t : List Char) (hc : c ≠ '.') (h : isRegular c = true) :
    escT k (c :: t) = c :: escT 0 t := by simp [escT, hc, h]

theorem escT_spec (k : Nat) (c : Char) (t : List Char) (hc : c ≠ '.') (h : isRegular c = false) :
    escT k (c :: t) = '\\' :: c :: escT 0 t := by simp [escT, hc, h]

/-- **A printed literal is read back as the original text**: every text over the permitted characters,
printed with the fewest escapes and followed by anything that cannot continue a literal. -/
theorem dec_escT (rest : List Char) (hrest : Terminates rest) : ∀ (n : Nat) (t : List Char), t.length ≤ n →
    (∀ c ∈ t, isRegular c = true ∨ isEsc c = true) →
    dec' (escT 0 t ++ rest) = some (t, (escT 0 t).length)
  | _, [], _, _ => by simpa [escT] using dec'_terminates rest hrest
  | 0, c :: t, h, _ => by simp at h
  | n + 1, c :: t, hlen, hperm => by
    have hlen' : t.length ≤ n := by simpa using hlen
    have hperm' : ∀ x ∈ t, isRegular x = true ∨ isEsc x = true := fun x hx => hperm x (by simp [hx])
    by_cases hc : c = '.'
    · subst hc
      rw [escT_dot_lt 0 t (by omega)]
      cases t with
      | nil =>
        -- one dot, then the terminator
        have hrun : dotRun ('.' :: rest) = 1 := by
          rw [dotRun_cons_dot, dotRun_notDot rest (terminates_notDot rest hrest)]
        simp only [escT, List.cons_append, List.nil_append]
        rw [dec'_dot, hrun]
        simp [dec'_terminates rest hrest]
      | cons c2 t2 =>
        by_cases hc2 : c2 = '.'
        · subst hc2
          -- two dots; what follows is printed with counter 2
          rw [escT_dot_lt 1 t2 (by omega)]
          have hnd : NotDotHead (escT 2 t2 ++ rest) := by
            apply escT_notDot 2 t2 rest (terminates_notDot rest hrest)
            exact .inr (.inr (Nat.le_refl _))
          have hrun : dotRun ('.' :: '.' :: (escT 2 t2 ++ rest)) = 2 := by
            rw [dotRun_cons_dot, dotRun_cons_dot, dotRun_notDot _ hnd]
          simp only [List.cons_append]
          rw [dec'_dot, hrun]
          simp only [show ¬ (2 ≥ 3) by omega, if_false, List.drop_succ_cons, List.drop_zero]
          -- after the two dots
          cases t2 with
          | nil =>
            simp [escT, dec'_terminates rest hrest, List.replicate]
          | cons c3 t3 =>
            by_cases hc3 : c3 = '.'
            · subst hc3
              rw [escT_dot_ge 2 t3 (Nat.le_refl _)]
              simp only [List.cons_append]
              rw [dec'_esc]
              have hesc : isEsc '.' = true := by decide
              simp only [hesc, if_true]
              have ih := dec_escT rest hrest n t3 (by simp at hlen'; omega)
                (fun x hx => hperm x (by simp [hx]))
              rw [ih]
              simp [List.replicate]
            · have hpr3 : escT 2 (c3 :: t3) = escT 0 (c3 :: t3) :=
                escT_reset 2 _ (.inr ⟨c3, t3, rfl, hc3⟩)
              rw [hpr3]
              have ih := dec_escT rest hrest n (c3 :: t3) (by simp at hlen' ⊢; omega)
                (fun x hx => hperm x (by
                  simp only [List.mem_cons] at hx ⊢
                  exact .inr (.inr hx)))
              rw [ih]
              simp [List.replicate]
        · -- one dot followed by something else
          rw [escT_reset 1 _ (.inr ⟨c2, t2, rfl, hc2⟩)]
          simp only [List.cons_append]
          have hnd : NotDotHead (escT 0 (c2 :: t2) ++ rest) :=
            escT_notDot 0 _ rest (terminates_notDot rest hrest) (.inr (.inl ⟨c2, t2, rfl, hc2⟩))
          have hrun : dotRun ('.' :: (escT 0 (c2 :: t2) ++ rest)) = 1 := by
            rw [dotRun_cons_dot, dotRun_notDot _ hnd]
          rw [dec'_dot, hrun]
          simp only [show ¬ (1 ≥ 3) by omega, if_false, List.drop_succ_cons, List.drop_zero]
          have ih := dec_escT rest hrest n (c2 :: t2) hlen' hperm'
          rw [ih]
          simp [List.replicate]
    · by_cases hreg : isRegular c = true
      · rw [escT_reg 0 c t hc hreg]
        simp only [List.cons_append]
        rw [dec'_regular c _ hreg, dec_escT rest hrest n t hlen' hperm']
        simp
      · have hreg' : isRegular c = false := by simpa using hreg
        have hesc : isEsc c = true := by
          rcases hperm c (by simp) with h | h
          · rw [h] at hreg'; cases hreg'
          · exact h
        rw [escT_spec 0 c t hc hreg']
        simp only [List.cons_append]
        rw [dec'_esc, dec_escT rest hrest n t hlen' hperm']
        simp [hesc]

/-- **`terminal` reads back what the printer writes**, consuming exactly the printed characters. -/
theorem terminal_roundtrip (t rest : List Char) (s : PState) (ht : t ≠ [])
    (hperm : ∀ c ∈ t, isRegular c = true ∨ isEsc c = true) (hrest : Terminates rest)
    (hs : s.rest = escT 0 t ++ rest) :
    terminal s = some (s.adv (escT 0 t).length, String.ofList t) := by
  rw [terminal_eq_dec, hs, dec_escT rest hrest t.length t (Nat.le_refl _) hperm]
  have : t.isEmpty = false := by cases t with | nil => exact absurd rfl ht | cons _ _ => rfl
  simp [this]

end Complgen.Parse

namespace Complgen.Parse
open Complgen

/-- the printer that escapes every character that is not regular (dots included) -/
def escAll : List Char → List Char
  | [] => []
  | c :: t => if isRegular c then c :: escAll t else '\\' :: c :: escAll t

theorem dec_escAll (rest : List Char) (hrest : Terminates rest) : ∀ t : List Char,
    (∀ c ∈ t, isRegular c = true ∨ isEsc c = true) →
    dec' (escAll t ++ rest) = some (t, (escAll t).length)
  | [], _ => by simpa [escAll] using dec'_terminates rest hrest
  | c :: t, hperm => by
    have ih := dec_escAll rest hrest t (fun x hx => hperm x (by simp [hx]))
    by_cases hreg : isRegular c = true
    · simp only [escAll, hreg, if_true, List.cons_append]
      rw [dec'_regular c _ hreg, ih]; simp
    · have hreg' : isRegular c = false := by simpa using hreg
      have hesc : isEsc c = true := by
        rcases hperm c (by simp) with h | h
        · rw [h] at hreg'; cases hreg'
        · exact h
      simp only [escAll, hreg', Bool.false_eq_true, if_false, List.cons_append]
      rw [dec'_esc, ih]; simp [hesc]

theorem terminal_roundtrip_all (t rest : List Char) (s : PState) (ht : t ≠ [])
    (hperm : ∀ c ∈ t, isRegular c = true ∨ isEsc c = true) (hrest : Terminates rest)
    (hs : s.rest = escAll t ++ rest) :
    terminal s = some (s.adv (escAll t).length, String.ofList t) := by
  rw [terminal_eq_dec, hs, dec_escAll rest hrest t hperm]
  have : t.isEmpty = false := by cases t with | nil => exact absurd rfl ht | cons _ _ => rfl
  simp [this]

end Complgen.Parse
