/-
C08: the complete characterisation of the verdict of `Check.validate` (the model of
`ValidGrammar::from_grammar`): which diagnostic is given for which mistake, in the order the code
checks them; no diagnostic is given without its mistake; grammars without mistakes pass.
-/
import Complgen.Proofs.Validate
import Complgen.Proofs.Cycle
namespace Complgen.Check
open Complgen

/-! ### the command-name checks -/

/-- the four cases of the command-name checks, each with its verdict -/
theorem commandOf_cases (g : Grammar) :
    (callsOf g = [] ∧ commandOf g = .err .missingCallVariants []) ∨
    (∃ a b, a ∈ callNames g ∧ b ∈ callNames g ∧ a ≠ b ∧ ∃ spans, commandOf g = .err .varyingCommandNames spans) ∨
    (∃ n, OneCommand g n ∧ '/' ∈ n.toList ∧ ∃ sp, commandOf g = .err .invalidCommandName [sp]) ∨
    (∃ n, OneCommand g n ∧ '/' ∉ n.toList ∧ commandOf g = .ok n) := by
  cases hc : callsOf g with
  | nil => exact .inl ⟨rfl, commandOf_no_calls g hc⟩
  | cons x0 rest =>
    right
    by_cases hall : ∀ x ∈ callsOf g, x.1 = x0.1
    · have hone : OneCommand g x0.1 := ⟨by rw [hc]; simp, hall⟩
      by_cases hs : '/' ∈ x0.1.toList
      · exact .inr (.inl ⟨x0.1, hone, hs, commandOf_slash g x0.1 hone hs⟩)
      · exact .inr (.inr ⟨x0.1, hone, hs, commandOf_ok g x0.1 hone hs⟩)
    · left
      have : ∃ x ∈ callsOf g, x.1 ≠ x0.1 := by
        apply Classical.byContradiction
        intro hne
        apply hall
        intro x hx
        apply Classical.byContradiction
        intro hxe
        exact hne ⟨x, hx, hxe⟩
      obtain ⟨x, hx, hxe⟩ := this
      have ha : x0.1 ∈ callNames g := List.mem_map.mpr ⟨x0, by rw [hc]; simp, rfl⟩
      have hb : x.1 ∈ callNames g := List.mem_map.mpr ⟨x, hx, rfl⟩
      exact ⟨x0.1, x.1, ha, hb, fun e => hxe e.symm, commandOf_varying g x0.1 x.1 ha hb (fun e => hxe e.symm)⟩

/-! ### the plain definitions -/

theorem collectPlain_cases (g : Grammar) :
    (((plainDefs g).map (·.1)).Nodup ∧
      collectPlain (plainDefs g) [] = .ok ((plainDefs g).map fun x => (x.1, (x.2.1, x.2.2)))) ∨
    (¬ ((plainDefs g).map (·.1)).Nodup ∧
      ∃ spans, collectPlain (plainDefs g) [] = .err .duplicateNonterminalDefinition spans) := by
  by_cases hnd : ((plainDefs g).map (·.1)).Nodup
  · left
    refine ⟨hnd, ?_⟩
    rw [collectPlain_spec (plainDefs g) [] (fun _ _ => rfl) hnd]
    simp
  · exact .inr ⟨hnd, collectPlain_dup (plainDefs g) [] (.inr hnd)⟩

/-! ### the shell-specific definitions: the first loop of `get_specializations` -/

/-- a shell-specific definition: name, its span, the shell name after `@`, its span, the right-hand side -/
abbrev SpecDef := String × Span × String × Span × Expr

theorem get?_none_iff {α} (m : AList α) (k : String) : m.get? k = none ↔ k ∉ m.map (·.1) := by
  unfold AList.get?
  rw [Option.map_eq_none_iff, List.find?_eq_none]
  constructor
  · intro h hk
    obtain ⟨p, hp, hpe⟩ := List.mem_map.mp hk
    exact h p hp (by simpa using hpe)
  · intro h p hp hpe
    exact h (List.mem_map.mpr ⟨p, hp, by simpa using hpe⟩)

theorem get?_some_of_key {α} (m : AList α) (k : String) (h : k ∈ m.map (·.1)) : ∃ v, m.get? k = some v := by
  cases hg : m.get? k with
  | some v => exact ⟨v, rfl⟩
  | none => exact absurd h ((get?_none_iff m k).mp hg)

theorem isCmdSpec_true (x : SpecDef) (h : isCmdSpec x = true) : ∃ c a l sp, x.2.2.2.2 = .cmd c a l sp := by
  obtain ⟨n, s, sh, ss, rhs⟩ := x
  cases rhs with
  | cmd c a l sp => exact ⟨c, a, l, sp, rfl⟩
  | term _ _ _ _ => exact Bool.noConfusion h
  | nonterm _ _ _ => exact Bool.noConfusion h
  | seq _ _ => exact Bool.noConfusion h
  | alt _ _ => exact Bool.noConfusion h
  | fb _ _ => exact Bool.noConfusion h
  | opt _ _ => exact Bool.noConfusion h
  | many1 _ _ => exact Bool.noConfusion h
  | dd _ _ _ => exact Bool.noConfusion h
  | sub _ _ _ => exact Bool.noConfusion h

theorem knownShell_true (x : SpecDef) (h : knownShell x = true) : ∃ shell, Shell.ofName? x.2.2.1 = some shell := by
  unfold knownShell at h
  cases ho : Shell.ofName? x.2.2.1 with
  | none => simp [ho] at h
  | some shell => exact ⟨shell, rfl⟩

theorem knownShell_false (x : SpecDef) (h : knownShell x = false) : Shell.ofName? x.2.2.1 = none := by
  unfold knownShell at h
  cases ho : Shell.ofName? x.2.2.1 with
  | none => rfl
  | some shell => simp [ho] at h

theorem forTarget_of_eq (target shell : Shell) (x : SpecDef) (ho : Shell.ofName? x.2.2.1 = some shell) :
    forTarget target x = true ↔ shell = target := by
  rw [forTarget_iff, ho]
  simp

/-- the first loop runs through a prefix without mistakes and collects the names defined for the target shell -/
theorem loop1_clean_prefix (target : Shell) : ∀ (pre rest : List SpecDef) (acc : AList UserSpec),
    (∀ y ∈ pre, isCmdSpec y = true) → (∀ y ∈ pre, knownShell y = true) →
    (∀ y ∈ pre, forTarget target y = true → y.1 ∉ acc.map (·.1)) →
    ((pre.filter (forTarget target)).map (·.1)).Nodup →
    ∃ acc', getSpecializations.loop1 target (pre ++ rest) acc = getSpecializations.loop1 target rest acc' ∧
      acc'.map (·.1) = acc.map (·.1) ++ (pre.filter (forTarget target)).map (·.1)
  | [], rest, acc, _, _, _, _ => ⟨acc, rfl, by simp⟩
  | x :: pre, rest, acc, hc, hk, hfresh, hnd => by
    have hc' : ∀ y ∈ pre, isCmdSpec y = true := fun y hy => hc y (List.mem_cons_of_mem _ hy)
    have hk' : ∀ y ∈ pre, knownShell y = true := fun y hy => hk y (List.mem_cons_of_mem _ hy)
    obtain ⟨c, a, l, sp, hrhs⟩ := isCmdSpec_true x (hc x List.mem_cons_self)
    obtain ⟨shell, ho⟩ := knownShell_true x (hk x List.mem_cons_self)
    have hft := forTarget_of_eq target shell x ho
    obtain ⟨n, s, shn, ss, rhs⟩ := x
    simp only at hrhs ho
    subst hrhs
    rw [List.cons_append, loop1_cons_cmd target n s shn ss c a l sp (pre ++ rest) acc shell ho]
    by_cases hsh : shell = target
    · have hft' : forTarget target (n, s, shn, ss, .cmd c a l sp) = true := hft.mpr hsh
      have h0 : acc.get? n = none := (get?_none_iff acc n).mpr (hfresh _ List.mem_cons_self hft')
      simp only [List.filter_cons, hft', if_true, List.map_cons, List.nodup_cons] at hnd
      simp only [hsh, if_true, h0]
      obtain ⟨acc', he, hkeys⟩ := loop1_clean_prefix target pre rest (acc ++ [(n, ⟨c, s, false⟩)]) hc' hk'
        (by
          intro y hy hyt hmem
          simp only [List.map_append, List.map_cons, List.map_nil, List.mem_append, List.mem_singleton] at hmem
          rcases hmem with hmem | hmem
          · exact hfresh y (List.mem_cons_of_mem _ hy) hyt hmem
          · exact hnd.1 (List.mem_map.mpr ⟨y, List.mem_filter.mpr ⟨hy, hyt⟩, hmem⟩))
        hnd.2
      refine ⟨acc', he, ?_⟩
      rw [hkeys]
      simp [hft']
    · have hft' : forTarget target (n, s, shn, ss, .cmd c a l sp) = false := by
        cases hb : forTarget target (n, s, shn, ss, .cmd c a l sp) with
        | false => rfl
        | true => exact absurd (hft.mp hb) hsh
      simp only [List.filter_cons, hft'] at hnd
      simp only [hsh, if_false]
      obtain ⟨acc', he, hkeys⟩ := loop1_clean_prefix target pre rest acc hc' hk'
        (fun y hy hyt => hfresh y (List.mem_cons_of_mem _ hy) hyt) (by simpa using hnd)
      refine ⟨acc', he, ?_⟩
      rw [hkeys]
      simp [hft']

/-- … stops at a definition that is not an external command -/
theorem loop1_head_noncmd (target : Shell) (x : SpecDef) (rest : List SpecDef) (acc : AList UserSpec)
    (h : isCmdSpec x = false) :
    getSpecializations.loop1 target (x :: rest) acc = .err .nonCommandSpecialization [x.2.2.2.2.span] := by
  obtain ⟨n, s, sh, ss, rhs⟩ := x
  conv => lhs; unfold getSpecializations.loop1
  cases rhs with
  | cmd c a l sp => exact absurd h (by simp [isCmdSpec])
  | term t d l sp => rfl
  | nonterm t l sp => rfl
  | seq cs sp => rfl
  | alt cs sp => rfl
  | fb cs sp => rfl
  | opt c sp => rfl
  | many1 c sp => rfl
  | dd c d sp => rfl
  | sub c l sp => rfl

/-- … at a command definition for a shell the program does not know -/
theorem loop1_head_unknown (target : Shell) (x : SpecDef) (rest : List SpecDef) (acc : AList UserSpec)
    (hc : isCmdSpec x = true) (hk : knownShell x = false) :
    getSpecializations.loop1 target (x :: rest) acc = .err .unknownShell [x.2.2.2.1] := by
  obtain ⟨c, a, l, sp, hrhs⟩ := isCmdSpec_true x hc
  have ho := knownShell_false x hk
  obtain ⟨n, s, shn, ss, rhs⟩ := x
  simp only at hrhs ho
  subst hrhs
  exact loop1_cons_unknown target n s shn ss c a l sp rest acc ho

/-- … at a second command definition of one name for the target shell -/
theorem loop1_head_dup (target : Shell) (x : SpecDef) (rest : List SpecDef) (acc : AList UserSpec)
    (hc : isCmdSpec x = true) (hft : forTarget target x = true) (hmem : x.1 ∈ acc.map (·.1)) :
    ∃ spans, getSpecializations.loop1 target (x :: rest) acc = .err .duplicateNonterminalDefinition spans := by
  obtain ⟨c, a, l, sp, hrhs⟩ := isCmdSpec_true x hc
  have ho := (forTarget_iff target x).mp hft
  obtain ⟨prev, hprev⟩ := get?_some_of_key acc x.1 hmem
  obtain ⟨n, s, shn, ss, rhs⟩ := x
  simp only at hrhs ho hprev
  subst hrhs
  rw [loop1_cons_cmd target n s shn ss c a l sp rest acc target ho]
  simp only [if_true, hprev]
  exact ⟨_, rfl⟩

/-- the shell-specific definitions have no mistake: all are external commands, for known shells, and no
name is defined twice for the target shell -/
def SpecsClean (g : Grammar) (sh : Shell) : Prop :=
  (∀ x ∈ specDefs g, isCmdSpec x = true) ∧ (∀ x ∈ specDefs g, knownShell x = true) ∧ TargetSpecsDistinct g sh

/-- `x` is the first shell-specific definition (in source order) with a mistake: everything before it is
an external command for a known shell, no name is defined twice for the target shell before it, and `x`
itself is not a command, or names an unknown shell, or defines for the target shell a name that an
earlier definition for the target shell has defined -/
def FirstSpecFault (g : Grammar) (sh : Shell) (x : SpecDef) : Prop :=
  ∃ pre post, specDefs g = pre ++ x :: post ∧
    (∀ y ∈ pre, isCmdSpec y = true) ∧ (∀ y ∈ pre, knownShell y = true) ∧
    ((pre.filter (forTarget sh)).map (·.1)).Nodup ∧
    (isCmdSpec x = false ∨ knownShell x = false ∨
      (forTarget sh x = true ∧ x.1 ∈ (pre.filter (forTarget sh)).map (·.1)))

theorem clean_or_fault (sh : Shell) : ∀ (l : List SpecDef) (seen : List String),
    ((∀ y ∈ l, isCmdSpec y = true) ∧ (∀ y ∈ l, knownShell y = true) ∧
      (∀ y ∈ l, forTarget sh y = true → y.1 ∉ seen) ∧ ((l.filter (forTarget sh)).map (·.1)).Nodup) ∨
    ∃ pre x post, l = pre ++ x :: post ∧ (∀ y ∈ pre, isCmdSpec y = true) ∧ (∀ y ∈ pre, knownShell y = true) ∧
      (∀ y ∈ pre, forTarget sh y = true → y.1 ∉ seen) ∧ ((pre.filter (forTarget sh)).map (·.1)).Nodup ∧
      (isCmdSpec x = false ∨ knownShell x = false ∨
        (forTarget sh x = true ∧ x.1 ∈ seen ++ (pre.filter (forTarget sh)).map (·.1)))
  | [], seen => .inl ⟨by simp, by simp, by simp, by simp⟩
  | x :: rest, seen => by
    by_cases hc : isCmdSpec x = true
    case neg =>
      exact .inr ⟨[], x, rest, rfl, by simp, by simp, by simp, by simp, .inl (by simpa using hc)⟩
    by_cases hk : knownShell x = true
    case neg =>
      exact .inr ⟨[], x, rest, rfl, by simp, by simp, by simp, by simp, .inr (.inl (by simpa using hk))⟩
    by_cases hft : forTarget sh x = true
    · by_cases hseen : x.1 ∈ seen
      · exact .inr ⟨[], x, rest, rfl, by simp, by simp, by simp, by simp, .inr (.inr ⟨hft, by simpa using hseen⟩)⟩
      · rcases clean_or_fault sh rest (seen ++ [x.1]) with ⟨h1, h2, h3, h4⟩ | ⟨pre, y, post, he, h1, h2, h3, h4, h5⟩
        · left
          refine ⟨?_, ?_, ?_, ?_⟩
          · intro y hy
            rcases List.mem_cons.mp hy with rfl | hy
            · exact hc
            · exact h1 y hy
          · intro y hy
            rcases List.mem_cons.mp hy with rfl | hy
            · exact hk
            · exact h2 y hy
          · intro y hy hyt
            rcases List.mem_cons.mp hy with rfl | hy
            · exact hseen
            · exact fun hm => h3 y hy hyt (List.mem_append_left _ hm)
          · simp only [List.filter_cons, hft, if_true, List.map_cons, List.nodup_cons]
            refine ⟨?_, h4⟩
            intro hm
            obtain ⟨y, hy, hye⟩ := List.mem_map.mp hm
            have hy' := List.mem_filter.mp hy
            exact h3 y hy'.1 hy'.2 (by rw [hye]; simp)
        · right
          refine ⟨x :: pre, y, post, by rw [he]; rfl, ?_, ?_, ?_, ?_, ?_⟩
          · intro z hz
            rcases List.mem_cons.mp hz with rfl | hz
            · exact hc
            · exact h1 z hz
          · intro z hz
            rcases List.mem_cons.mp hz with rfl | hz
            · exact hk
            · exact h2 z hz
          · intro z hz hzt
            rcases List.mem_cons.mp hz with rfl | hz
            · exact hseen
            · exact fun hm => h3 z hz hzt (List.mem_append_left _ hm)
          · simp only [List.filter_cons, hft, if_true, List.map_cons, List.nodup_cons]
            refine ⟨?_, h4⟩
            intro hm
            obtain ⟨z, hz, hze⟩ := List.mem_map.mp hm
            have hz' := List.mem_filter.mp hz
            exact h3 z hz'.1 hz'.2 (by rw [hze]; simp)
          · rcases h5 with h5 | h5 | ⟨h5, h6⟩
            · exact .inl h5
            · exact .inr (.inl h5)
            · refine .inr (.inr ⟨h5, ?_⟩)
              simp only [List.filter_cons, hft, if_true, List.map_cons]
              simpa [List.append_assoc] using h6
    · have hft' : forTarget sh x = false := by simpa using hft
      rcases clean_or_fault sh rest seen with ⟨h1, h2, h3, h4⟩ | ⟨pre, y, post, he, h1, h2, h3, h4, h5⟩
      · left
        refine ⟨?_, ?_, ?_, ?_⟩
        · intro y hy
          rcases List.mem_cons.mp hy with rfl | hy
          · exact hc
          · exact h1 y hy
        · intro y hy
          rcases List.mem_cons.mp hy with rfl | hy
          · exact hk
          · exact h2 y hy
        · intro y hy hyt
          rcases List.mem_cons.mp hy with rfl | hy
          · exact absurd hyt hft
          · exact h3 y hy hyt
        · simpa [List.filter_cons, hft'] using h4
      · right
        refine ⟨x :: pre, y, post, by rw [he]; rfl, ?_, ?_, ?_, ?_, ?_⟩
        · intro z hz
          rcases List.mem_cons.mp hz with rfl | hz
          · exact hc
          · exact h1 z hz
        · intro z hz
          rcases List.mem_cons.mp hz with rfl | hz
          · exact hk
          · exact h2 z hz
        · intro z hz hzt
          rcases List.mem_cons.mp hz with rfl | hz
          · exact absurd hzt hft
          · exact h3 z hz hzt
        · simpa [List.filter_cons, hft'] using h4
        · simpa [List.filter_cons, hft'] using h5

/-- the shell-specific definitions are without mistake, or there is a first one with a mistake -/
theorem specsClean_or_fault (g : Grammar) (sh : Shell) : SpecsClean g sh ∨ ∃ x, FirstSpecFault g sh x := by
  rcases clean_or_fault sh (specDefs g) [] with ⟨h1, h2, _, h4⟩ | ⟨pre, x, post, he, h1, h2, _, h4, h5⟩
  · exact .inl ⟨h1, h2, h4⟩
  · exact .inr ⟨x, pre, post, he, h1, h2, h4, by simpa using h5⟩

theorem firstSpecFault_mem (g : Grammar) (sh : Shell) (x : SpecDef) (h : FirstSpecFault g sh x) : x ∈ specDefs g := by
  obtain ⟨pre, post, he, _⟩ := h
  rw [he]; simp

/-- a first mistake is a mistake: the definitions are not clean -/
theorem not_clean_of_fault (g : Grammar) (sh : Shell) (x : SpecDef) (h : FirstSpecFault g sh x) :
    ¬ SpecsClean g sh := by
  intro ⟨c1, c2, c3⟩
  have hx := firstSpecFault_mem g sh x h
  obtain ⟨pre, post, he, _, _, _, h5⟩ := h
  rcases h5 with h5 | h5 | ⟨h5, h6⟩
  · have := c1 x hx; simp [h5] at this
  · have := c2 x hx; simp [h5] at this
  · unfold TargetSpecsDistinct at c3
    rw [he] at c3
    simp only [List.filter_append, List.filter_cons, h5, if_true, List.map_append, List.map_cons] at c3
    have := (List.nodup_append.mp c3).2.2 x.1 h6 x.1 (by simp)
    exact this rfl

/-! ### the second loop of `get_specializations`: plain definitions of names that have a definition for the target shell -/

def isCmdExpr : Expr → Bool
  | .cmd .. => true
  | _ => false

/-- the names that have a definition for the target shell -/
def targetSpecNames (g : Grammar) (sh : Shell) : List String := ((specDefs g).filter (forTarget sh)).map (·.1)

/-- a plain definition of a name that also has a definition for the target shell serves as the fallback of
that definition; the code demands that it is an external command as well -/
def ShadowedPlainAreCmds (g : Grammar) (sh : Shell) : Prop :=
  ∀ p ∈ plainDefs g, p.1 ∈ targetSpecNames g sh → isCmdExpr p.2.2 = true

theorem contains_iff_key {α} (m : AList α) (k : String) : m.contains k = true ↔ k ∈ m.map (·.1) := by
  unfold AList.contains
  simp only [List.any_eq_true, List.mem_map, beq_iff_eq]

theorem loop2_cons_skip (specs : AList UserSpec) (n : String) (s : Span) (rhs : Expr)
    (rest : List (String × Span × Expr)) (acc : AList (String × Span)) (h : specs.contains n = false) :
    getSpecializations.loop2 specs ((n, s, rhs) :: rest) acc = getSpecializations.loop2 specs rest acc := by
  conv => lhs; unfold getSpecializations.loop2
  simp [h]

theorem loop2_cons_cmd (specs : AList UserSpec) (n : String) (s : Span) (c : String) (a : Bool) (l : Nat) (sp : Span)
    (rest : List (String × Span × Expr)) (acc : AList (String × Span)) (h : specs.contains n = true)
    (h0 : acc.get? n = none) :
    getSpecializations.loop2 specs ((n, s, .cmd c a l sp) :: rest) acc =
      getSpecializations.loop2 specs rest (acc ++ [(n, (c, s))]) := by
  conv => lhs; unfold getSpecializations.loop2
  simp [h, h0]

theorem loop2_cons_noncmd (specs : AList UserSpec) (n : String) (s : Span) (rhs : Expr)
    (rest : List (String × Span × Expr)) (acc : AList (String × Span)) (h : specs.contains n = true)
    (hc : isCmdExpr rhs = false) :
    getSpecializations.loop2 specs ((n, s, rhs) :: rest) acc = .err .nonCommandSpecialization [rhs.span] := by
  conv => lhs; unfold getSpecializations.loop2
  cases rhs with
  | cmd c a l sp => exact absurd hc (by simp [isCmdExpr])
  | term t d l sp => simp [h]
  | nonterm t l sp => simp [h]
  | seq cs sp => simp [h]
  | alt cs sp => simp [h]
  | fb cs sp => simp [h]
  | opt c sp => simp [h]
  | many1 c sp => simp [h]
  | dd c d sp => simp [h]
  | sub c l sp => simp [h]

theorem isCmdExpr_true (e : Expr) (h : isCmdExpr e = true) : ∃ c a l sp, e = .cmd c a l sp := by
  cases e with
  | cmd c a l sp => exact ⟨c, a, l, sp, rfl⟩
  | term _ _ _ _ => exact Bool.noConfusion h
  | nonterm _ _ _ => exact Bool.noConfusion h
  | seq _ _ => exact Bool.noConfusion h
  | alt _ _ => exact Bool.noConfusion h
  | fb _ _ => exact Bool.noConfusion h
  | opt _ _ => exact Bool.noConfusion h
  | many1 _ _ => exact Bool.noConfusion h
  | dd _ _ _ => exact Bool.noConfusion h
  | sub _ _ _ => exact Bool.noConfusion h

/-- the second loop succeeds when the plain definitions have distinct names and those that stand behind a
definition for the target shell are commands -/
theorem loop2_ok (specs : AList UserSpec) : ∀ (l : List (String × Span × Expr)) (acc : AList (String × Span)),
    (∀ p ∈ l, specs.contains p.1 = true → isCmdExpr p.2.2 = true) → (l.map (·.1)).Nodup →
    (∀ p ∈ l, p.1 ∉ acc.map (·.1)) → ∃ fbs, getSpecializations.loop2 specs l acc = .ok fbs
  | [], acc, _, _, _ => ⟨acc, by unfold getSpecializations.loop2; rfl⟩
  | (n, s, rhs) :: rest, acc, hc, hnd, hfresh => by
    have hc' : ∀ p ∈ rest, specs.contains p.1 = true → isCmdExpr p.2.2 = true :=
      fun p hp => hc p (List.mem_cons_of_mem _ hp)
    have hnd' := List.nodup_cons.mp hnd
    by_cases hcon : specs.contains n = true
    · obtain ⟨c, a, l, sp, rfl⟩ := isCmdExpr_true rhs (hc _ List.mem_cons_self hcon)
      rw [loop2_cons_cmd specs n s c a l sp rest acc hcon ((get?_none_iff acc n).mpr (hfresh _ List.mem_cons_self))]
      apply loop2_ok specs rest _ hc' hnd'.2
      intro p hp hm
      simp only [List.map_append, List.map_cons, List.map_nil, List.mem_append, List.mem_singleton] at hm
      rcases hm with hm | hm
      · exact hfresh p (List.mem_cons_of_mem _ hp) hm
      · exact hnd'.1 (List.mem_map.mpr ⟨p, hp, hm⟩)
    · rw [loop2_cons_skip specs n s rhs rest acc (by simpa using hcon)]
      exact loop2_ok specs rest acc hc' hnd'.2 (fun p hp => hfresh p (List.mem_cons_of_mem _ hp))

/-- the second loop stops at a plain definition that stands behind a definition for the target shell and is
not a command -/
theorem loop2_noncmd (specs : AList UserSpec) : ∀ (l : List (String × Span × Expr)) (acc : AList (String × Span)),
    (l.map (·.1)).Nodup → (∀ p ∈ l, p.1 ∉ acc.map (·.1)) →
    (∃ p ∈ l, specs.contains p.1 = true ∧ isCmdExpr p.2.2 = false) →
    ∃ spans, getSpecializations.loop2 specs l acc = .err .nonCommandSpecialization spans
  | [], acc, _, _, h => by obtain ⟨p, hp, _⟩ := h; simp at hp
  | (n, s, rhs) :: rest, acc, hnd, hfresh, hex => by
    have hnd' := List.nodup_cons.mp hnd
    by_cases hcon : specs.contains n = true
    · by_cases hcmd : isCmdExpr rhs = true
      · obtain ⟨c, a, l, sp, rfl⟩ := isCmdExpr_true rhs hcmd
        rw [loop2_cons_cmd specs n s c a l sp rest acc hcon ((get?_none_iff acc n).mpr (hfresh _ List.mem_cons_self))]
        apply loop2_noncmd specs rest _ hnd'.2
        · intro p hp hm
          simp only [List.map_append, List.map_cons, List.map_nil, List.mem_append, List.mem_singleton] at hm
          rcases hm with hm | hm
          · exact hfresh p (List.mem_cons_of_mem _ hp) hm
          · exact hnd'.1 (List.mem_map.mpr ⟨p, hp, hm⟩)
        · obtain ⟨p, hp, hp1, hp2⟩ := hex
          rcases List.mem_cons.mp hp with rfl | hp
          · simp [isCmdExpr] at hp2
          · exact ⟨p, hp, hp1, hp2⟩
      · exact ⟨_, loop2_cons_noncmd specs n s rhs rest acc hcon (by simpa using hcmd)⟩
    · rw [loop2_cons_skip specs n s rhs rest acc (by simpa using hcon)]
      apply loop2_noncmd specs rest acc hnd'.2 (fun p hp => hfresh p (List.mem_cons_of_mem _ hp))
      obtain ⟨p, hp, hp1, hp2⟩ := hex
      rcases List.mem_cons.mp hp with rfl | hp
      · exact absurd hp1 hcon
      · exact ⟨p, hp, hp1, hp2⟩

/-! ### `get_specializations` as a whole -/

theorem getSpecializations_of_loop1_ok (g : Grammar) (target : Shell) (specs : AList UserSpec)
    (h : getSpecializations.loop1 target (specDefs g) [] = .ok specs) :
    getSpecializations g target =
      match getSpecializations.loop2 specs (plainDefs g) [] with
      | .err c s => .err c s
      | .crash s => .crash s
      | .ok fbs => .ok (specs, fbs.map (fun p => (p.1, p.2.1))) := by
  unfold getSpecializations
  rw [h]
  rfl

/-- clean shell-specific definitions pass the first loop, which collects the names defined for the target -/
theorem loop1_of_clean (g : Grammar) (sh : Shell) (hc : SpecsClean g sh) :
    ∃ specs, getSpecializations.loop1 sh (specDefs g) [] = .ok specs ∧ specs.map (·.1) = targetSpecNames g sh := by
  obtain ⟨acc', he, hkeys⟩ := loop1_clean_prefix sh (specDefs g) [] [] hc.1 hc.2.1 (by simp) hc.2.2
  rw [List.append_nil] at he
  refine ⟨acc', ?_, by simpa [targetSpecNames] using hkeys⟩
  rw [he]
  unfold getSpecializations.loop1
  rfl

theorem getSpecializations_clean (g : Grammar) (sh : Shell) (hnd : ((plainDefs g).map (·.1)).Nodup)
    (hc : SpecsClean g sh) (hs : ShadowedPlainAreCmds g sh) :
    ∃ specs fbs, getSpecializations g sh = .ok (specs, fbs) := by
  obtain ⟨specs, h1, hkeys⟩ := loop1_of_clean g sh hc
  obtain ⟨fbs, h2⟩ := loop2_ok specs (plainDefs g) []
    (fun p hp hcon => hs p hp (by rw [← hkeys]; exact (contains_iff_key specs p.1).mp hcon)) hnd (by simp)
  refine ⟨specs, fbs.map (fun p => (p.1, p.2.1)), ?_⟩
  rw [getSpecializations_of_loop1_ok g sh specs h1, h2]

theorem getSpecializations_shadow (g : Grammar) (sh : Shell) (hnd : ((plainDefs g).map (·.1)).Nodup)
    (hc : SpecsClean g sh) (hs : ¬ ShadowedPlainAreCmds g sh) :
    ∃ spans, getSpecializations g sh = .err .nonCommandSpecialization spans := by
  obtain ⟨specs, h1, hkeys⟩ := loop1_of_clean g sh hc
  have hex : ∃ p ∈ plainDefs g, specs.contains p.1 = true ∧ isCmdExpr p.2.2 = false := by
    apply Classical.byContradiction
    intro hne
    apply hs
    intro p hp hm
    cases hb : isCmdExpr p.2.2 with
    | true => rfl
    | false =>
      exact absurd ⟨p, hp, (contains_iff_key specs p.1).mpr (by rw [hkeys]; exact hm), hb⟩ hne
  obtain ⟨spans, h2⟩ := loop2_noncmd specs (plainDefs g) [] hnd (by simp) hex
  refine ⟨spans, ?_⟩
  rw [getSpecializations_of_loop1_ok g sh specs h1, h2]

/-- the verdict on the first shell-specific definition with a mistake: not a command, else unknown shell,
else defined twice for the target shell -/
theorem getSpecializations_fault (g : Grammar) (sh : Shell) (x : SpecDef) (hf : FirstSpecFault g sh x) :
    (isCmdSpec x = false → getSpecializations g sh = .err .nonCommandSpecialization [x.2.2.2.2.span]) ∧
    (isCmdSpec x = true → knownShell x = false → getSpecializations g sh = .err .unknownShell [x.2.2.2.1]) ∧
    (isCmdSpec x = true → knownShell x = true →
      ∃ spans, getSpecializations g sh = .err .duplicateNonterminalDefinition spans) := by
  obtain ⟨pre, post, he, h1, h2, h4, h5⟩ := hf
  obtain ⟨acc', hl, hkeys⟩ := loop1_clean_prefix sh pre (x :: post) [] h1 h2 (by simp) h4
  rw [← he] at hl
  refine ⟨?_, ?_, ?_⟩
  · intro hc
    apply getSpecializations_of_loop1_err
    rw [hl]
    exact loop1_head_noncmd sh x post acc' hc
  · intro hc hk
    apply getSpecializations_of_loop1_err
    rw [hl]
    exact loop1_head_unknown sh x post acc' hc hk
  · intro hc hk
    rcases h5 with h5 | h5 | ⟨h5, h6⟩
    · simp [hc] at h5
    · simp [hk] at h5
    · obtain ⟨spans, hd⟩ := loop1_head_dup sh x post acc' hc h5 (by rw [hkeys]; simpa using h6)
      exact ⟨spans, by apply getSpecializations_of_loop1_err; rw [hl]; exact hd⟩

/-! ### what the `unused` bookkeeping cannot influence -/

mutual
theorem resolve_fst_indep (defs : AList (Span × Expr)) : ∀ (e : Expr) (u u' : AList Span),
    (resolve defs e u).1 = (resolve defs e u').1
  | .term .., _, _ => by simp [resolve]
  | .cmd .., _, _ => by simp [resolve]
  | .dd .., _, _ => by simp [resolve]
  | .nonterm n l s, u, u' => by
    simp only [resolve]
    cases defs.get? n with
    | none => rfl
    | some v => rfl
  | .sub c l s, u, u' => by simp only [resolve]; rw [resolve_fst_indep defs c u u']
  | .opt c s, u, u' => by simp only [resolve]; rw [resolve_fst_indep defs c u u']
  | .many1 c s, u, u' => by simp only [resolve]; rw [resolve_fst_indep defs c u u']
  | .seq cs s, u, u' => by simp only [resolve]; rw [resolveL_fst_indep defs cs u u']
  | .alt cs s, u, u' => by simp only [resolve]; rw [resolveL_fst_indep defs cs u u']
  | .fb cs s, u, u' => by simp only [resolve]; rw [resolveL_fst_indep defs cs u u']
theorem resolveL_fst_indep (defs : AList (Span × Expr)) : ∀ (es : ExprL) (u u' : AList Span),
    (resolveL defs es u).1 = (resolveL defs es u').1
  | .nil, _, _ => by simp [resolveL]
  | .cons e es, u, u' => by
    simp only [resolveL]
    rw [resolve_fst_indep defs e u u', resolveL_fst_indep defs es (resolve defs e u).2 (resolve defs e u').2]
end

theorem resStep_fst_indep (T : AList (Span × Expr)) (u u' : AList Span) (n : String) :
    (resStep (T, u) n).1 = (resStep (T, u') n).1 := by
  unfold resStep
  simp only
  cases AList.get? T n with
  | none => rfl
  | some v =>
    obtain ⟨s, e⟩ := v
    simp only
    rw [resolve_fst_indep T e u u']

/-- the expanded table does not depend on the list of names not yet seen in use -/
theorem resFold_fst_indep : ∀ (order : List String) (T : AList (Span × Expr)) (u u' : AList Span),
    (order.foldl resStep (T, u)).1 = (order.foldl resStep (T, u')).1
  | [], _, _, _ => rfl
  | n :: rest, T, u, u' => by
    simp only [List.foldl_cons]
    have h := resStep_fst_indep T u u' n
    have e1 : resStep (T, u) n = ((resStep (T, u) n).1, (resStep (T, u) n).2) := rfl
    have e2 : resStep (T, u') n = ((resStep (T, u) n).1, (resStep (T, u') n).2) := by rw [h]
    rw [e1, e2]
    exact resFold_fst_indep rest _ _ _

/-! ### the check of spaces inside words, named -/

/-- the top expression (the call variants joined, descriptions distributed) with every reference replaced by
the command the target shell prescribes for it: what `specialize_nonterminals` makes of the top expression -/
def topSpecialised (g : Grammar) (sh : Shell) : Expr := applyPick sh g (distribute (topExpr g))

/-- the table of (specialised) definitions after the dependency-ordered expansion -/
def expandedTable (g : Grammar) (sh : Shell) : AList (Span × Expr) :=
  match resolutionOrder (tableOf sh g) with
  | .ok order => (order.foldl resStep (tableOf sh g, [])).1
  | .error _ => tableOf sh g

/-- the result of `check_subword_spaces` on the grammar, with the stack the model grants it -/
def spacesVerdict (g : Grammar) (sh : Shell) : SpacesResult :=
  spaces (expandedTable g sh) stackFuel (topSpecialised g sh) [] false

def spacesCrash : String := "check_subword_spaces: unbounded recursion through cyclic definitions"

/-- the definitions (as specialised for the target shell) refer to each other in a circle -/
def Cyclic (g : Grammar) (sh : Shell) : Prop := ∃ u, Reach (depGraph (tableOf sh g)) u u

/-- `finishValidate` after a successful traversal: its outcome is the outcome of the spaces check on
`expandedTable` and `topSpecialised` -/
theorem finishValidate_spaces (g : Grammar) (sh : Shell) (command : String) (specs : AList UserSpec)
    (fbs : AList String) (hgs : getSpecializations g sh = .ok (specs, fbs)) (order : List String)
    (hro : resolutionOrder (tableOf sh g) = .ok order) :
    (spacesVerdict g sh = .overflow →
      finishValidate g sh command ((plainDefs g).map fun x => (x.1, (x.2.1, x.2.2))) specs fbs = .crash spacesCrash) ∧
    (∀ l r t, spacesVerdict g sh = .bad l r t →
      finishValidate g sh command ((plainDefs g).map fun x => (x.1, (x.2.1, x.2.2))) specs fbs =
        .err .subwordSpaces (l :: r :: t)) ∧
    (spacesVerdict g sh = .fine →
      ∃ v, finishValidate g sh command ((plainDefs g).map fun x => (x.1, (x.2.1, x.2.2))) specs fbs = .ok v) := by
  unfold spacesVerdict expandedTable topSpecialised
  rw [hro]
  simp only
  unfold finishValidate
  simp only
  have hD : (((plainDefs g).map fun x => (x.1, (x.2.1, x.2.2))).map fun x => (x.1, x.2.1, distribute x.2.2)) =
      (plainDefs g).map fun x => (x.1, (x.2.1, distribute x.2.2)) := by
    simp
  rw [hD]
  have hdefined : (((plainDefs g).map fun x => (x.1, (x.2.1, distribute x.2.2))).map (·.1)) =
      (plainDefs g).map (·.1) := by simp [List.map_map, Function.comp_def]
  rw [hdefined]
  have hb0 : SameCmds specs (⟨specs, ((plainDefs g).map fun x => (x.1, (x.2.1, distribute x.2.2))).map
      fun x => (x.1, x.2.1)⟩ : Book) := fun _ => rfl
  have hf1 := specFold_table g sh specs fbs hgs ((plainDefs g).map fun x => (x.1, (x.2.1, distribute x.2.2)))
    ([], ⟨specs, ((plainDefs g).map fun x => (x.1, (x.2.1, distribute x.2.2))).map fun x => (x.1, x.2.1)⟩) hb0
  generalize hr1 : ((plainDefs g).map fun x => (x.1, (x.2.1, distribute x.2.2))).foldl
    (specStep sh fbs ((plainDefs g).map (·.1)))
    ([], ⟨specs, ((plainDefs g).map fun x => (x.1, (x.2.1, distribute x.2.2))).map fun x => (x.1, x.2.1)⟩) = r1 at hf1 ⊢
  have htable : r1.1 = tableOf sh g := by
    rw [hf1.1]
    unfold tableOf
    simp
  have hx2 := specialize_eq_applyPick g sh specs fbs hgs (distribute (topExpr g)) r1.2 hf1.2
  generalize hr2 : specialize sh fbs ((plainDefs g).map (·.1)) (distribute (topExpr g)) r1.2 = r2 at hx2 ⊢
  rw [htable, hro]
  simp only
  rw [resFold_fst_indep order (tableOf sh g) r2.2.unused [], hx2.1]
  refine ⟨?_, ?_, ?_⟩
  · intro h; rw [h]; rfl
  · intro l r t h; rw [h]
  · intro h; rw [h]; exact ⟨_, rfl⟩

/-- on definitions that do not refer to each other in a circle the traversal succeeds -/
theorem resolutionOrder_ok_of_acyclic (g : Grammar) (sh : Shell) (h : ¬ Cyclic g sh) :
    ∃ order, resolutionOrder (tableOf sh g) = .ok order := by
  cases hro : resolutionOrder (tableOf sh g) with
  | ok order => exact ⟨order, rfl⟩
  | error spans => exact absurd (resolutionOrder_error_cycle _ spans hro) h

/-! ### the verdict, check by check -/

/-- everything `from_grammar` checks before it expands the definitions is in order: one command name
without `/`, no name with two plain definitions, the shell-specific definitions are commands for known
shells with no name defined twice for the target shell, and the plain definitions that stand behind a
definition for the target shell are commands -/
structure WellFormed (g : Grammar) (sh : Shell) (n : String) : Prop where
  one : OneCommand g n
  noSlash : '/' ∉ n.toList
  plain : ((plainDefs g).map (·.1)).Nodup
  specs : SpecsClean g sh
  shadowed : ShadowedPlainAreCmds g sh

theorem verdict_no_variant (g : Grammar) (sh : Shell) (h : callsOf g = []) :
    validate g sh = .err .missingCallVariants [] := by
  unfold validate
  rw [commandOf_no_calls g h]

theorem verdict_varying (g : Grammar) (sh : Shell) (a b : String)
    (ha : a ∈ callNames g) (hb : b ∈ callNames g) (hab : a ≠ b) :
    ∃ spans, validate g sh = .err .varyingCommandNames spans := by
  obtain ⟨spans, h⟩ := commandOf_varying g a b ha hb hab
  exact ⟨spans, by unfold validate; rw [h]⟩

theorem verdict_slash (g : Grammar) (sh : Shell) (n : String) (h : OneCommand g n) (hs : '/' ∈ n.toList) :
    ∃ sp, validate g sh = .err .invalidCommandName [sp] := by
  obtain ⟨sp, h⟩ := commandOf_slash g n h hs
  exact ⟨sp, by unfold validate; rw [h]⟩

theorem verdict_dup_plain (g : Grammar) (sh : Shell) (n : String) (h : OneCommand g n) (hs : '/' ∉ n.toList)
    (hd : ¬ ((plainDefs g).map (·.1)).Nodup) :
    ∃ spans, validate g sh = .err .duplicateNonterminalDefinition spans :=
  validate_dup_plain g sh n (commandOf_ok g n h hs) hd

/-- the verdict on the first shell-specific definition with a mistake -/
theorem verdict_spec_fault (g : Grammar) (sh : Shell) (n : String) (h : OneCommand g n) (hs : '/' ∉ n.toList)
    (hd : ((plainDefs g).map (·.1)).Nodup) (x : SpecDef) (hf : FirstSpecFault g sh x) :
    (isCmdSpec x = false → validate g sh = .err .nonCommandSpecialization [x.2.2.2.2.span]) ∧
    (isCmdSpec x = true → knownShell x = false → validate g sh = .err .unknownShell [x.2.2.2.1]) ∧
    (isCmdSpec x = true → knownShell x = true →
      ∃ spans, validate g sh = .err .duplicateNonterminalDefinition spans) := by
  obtain ⟨f1, f2, f3⟩ := getSpecializations_fault g sh x hf
  have hv := validate_after_plain g sh n (commandOf_ok g n h hs) hd
  refine ⟨?_, ?_, ?_⟩
  · intro hc; rw [hv, f1 hc]
  · intro hc hk; rw [hv, f2 hc hk]
  · intro hc hk
    obtain ⟨spans, he⟩ := f3 hc hk
    exact ⟨spans, by rw [hv, he]⟩

theorem verdict_shadow (g : Grammar) (sh : Shell) (n : String) (h : OneCommand g n) (hs : '/' ∉ n.toList)
    (hd : ((plainDefs g).map (·.1)).Nodup) (hc : SpecsClean g sh) (hsh : ¬ ShadowedPlainAreCmds g sh) :
    ∃ spans, validate g sh = .err .nonCommandSpecialization spans := by
  obtain ⟨spans, he⟩ := getSpecializations_shadow g sh hd hc hsh
  exact ⟨spans, by rw [validate_after_plain g sh n (commandOf_ok g n h hs) hd, he]⟩

theorem verdict_cycle (g : Grammar) (sh : Shell) (n : String) (w : WellFormed g sh n) (hcyc : Cyclic g sh) :
    ∃ spans, validate g sh = .err .nonterminalDefinitionsCycle spans := by
  obtain ⟨specs, fbs, hgs⟩ := getSpecializations_clean g sh w.plain w.specs w.shadowed
  obtain ⟨v, hv⟩ := hcyc
  exact validate_cycle g sh n (commandOf_ok g n w.one w.noSlash) w.plain specs fbs hgs v hv

theorem verdict_spaces (g : Grammar) (sh : Shell) (n : String) (w : WellFormed g sh n) (hcyc : ¬ Cyclic g sh) :
    (∀ l r t, spacesVerdict g sh = .bad l r t → validate g sh = .err .subwordSpaces (l :: r :: t)) ∧
    (spacesVerdict g sh = .overflow → validate g sh = .crash spacesCrash) ∧
    (spacesVerdict g sh = .fine → ∃ v, validate g sh = .ok v) := by
  obtain ⟨specs, fbs, hgs⟩ := getSpecializations_clean g sh w.plain w.specs w.shadowed
  obtain ⟨order, hro⟩ := resolutionOrder_ok_of_acyclic g sh hcyc
  have hv := validate_after_plain g sh n (commandOf_ok g n w.one w.noSlash) w.plain
  rw [hgs] at hv
  simp only at hv
  obtain ⟨f1, f2, f3⟩ := finishValidate_spaces g sh n specs fbs hgs order hro
  refine ⟨?_, ?_, ?_⟩
  · intro l r t h; rw [hv, f2 l r t h]
  · intro h; rw [hv, f1 h]
  · intro h
    obtain ⟨v, he⟩ := f3 h
    exact ⟨v, by rw [hv, he]⟩

/-! ### every grammar falls under exactly one of the checks -/

/-- The cases of `from_grammar`, in the order the code decides them; each carries the condition under which
it applies (with the conditions of the earlier ones excluded) and the verdict it gives. -/
inductive VerdictCase (g : Grammar) (sh : Shell) : Prop
  | noVariant (h : callsOf g = []) (hv : validate g sh = .err .missingCallVariants [])
  | varying (a b : String) (ha : a ∈ callNames g) (hb : b ∈ callNames g) (hab : a ≠ b) (spans : List Span)
      (hv : validate g sh = .err .varyingCommandNames spans)
  | slash (n : String) (h : OneCommand g n) (hs : '/' ∈ n.toList) (sp : Span)
      (hv : validate g sh = .err .invalidCommandName [sp])
  | dupPlain (n : String) (h : OneCommand g n) (hs : '/' ∉ n.toList) (hd : ¬ ((plainDefs g).map (·.1)).Nodup)
      (spans : List Span) (hv : validate g sh = .err .duplicateNonterminalDefinition spans)
  | specNotCommand (n : String) (h : OneCommand g n) (hs : '/' ∉ n.toList) (hd : ((plainDefs g).map (·.1)).Nodup)
      (x : SpecDef) (hf : FirstSpecFault g sh x) (hc : isCmdSpec x = false)
      (hv : validate g sh = .err .nonCommandSpecialization [x.2.2.2.2.span])
  | specUnknownShell (n : String) (h : OneCommand g n) (hs : '/' ∉ n.toList) (hd : ((plainDefs g).map (·.1)).Nodup)
      (x : SpecDef) (hf : FirstSpecFault g sh x) (hc : isCmdSpec x = true) (hk : knownShell x = false)
      (hv : validate g sh = .err .unknownShell [x.2.2.2.1])
  | specDuplicate (n : String) (h : OneCommand g n) (hs : '/' ∉ n.toList) (hd : ((plainDefs g).map (·.1)).Nodup)
      (x : SpecDef) (hf : FirstSpecFault g sh x) (hc : isCmdSpec x = true) (hk : knownShell x = true)
      (spans : List Span) (hv : validate g sh = .err .duplicateNonterminalDefinition spans)
  | shadowNotCommand (n : String) (h : OneCommand g n) (hs : '/' ∉ n.toList) (hd : ((plainDefs g).map (·.1)).Nodup)
      (hc : SpecsClean g sh) (hsh : ¬ ShadowedPlainAreCmds g sh) (spans : List Span)
      (hv : validate g sh = .err .nonCommandSpecialization spans)
  | cycle (n : String) (w : WellFormed g sh n) (hcyc : Cyclic g sh) (spans : List Span)
      (hv : validate g sh = .err .nonterminalDefinitionsCycle spans)
  | spacesBad (n : String) (w : WellFormed g sh n) (hcyc : ¬ Cyclic g sh) (l r : Span) (t : List Span)
      (hsp : spacesVerdict g sh = .bad l r t) (hv : validate g sh = .err .subwordSpaces (l :: r :: t))
  | spacesOverflow (n : String) (w : WellFormed g sh n) (hcyc : ¬ Cyclic g sh)
      (hsp : spacesVerdict g sh = .overflow) (hv : validate g sh = .crash spacesCrash)
  | accepted (n : String) (w : WellFormed g sh n) (hcyc : ¬ Cyclic g sh)
      (hsp : spacesVerdict g sh = .fine) (v : Valid) (hv : validate g sh = .ok v)

/-- **Every grammar falls under one of the cases** (and, the conditions excluding each other, under one only). -/
theorem validate_cases (g : Grammar) (sh : Shell) : VerdictCase g sh := by
  by_cases h0 : callsOf g = []
  · exact .noVariant h0 (verdict_no_variant g sh h0)
  rcases commandOf_cases g with ⟨h, _⟩ | ⟨a, b, ha, hb, hab, _⟩ | ⟨n, hone, hs, _⟩ | ⟨n, hone, hs, _⟩
  · exact absurd h h0
  · obtain ⟨spans, hv⟩ := verdict_varying g sh a b ha hb hab
    exact .varying a b ha hb hab spans hv
  · obtain ⟨sp, hv⟩ := verdict_slash g sh n hone hs
    exact .slash n hone hs sp hv
  · by_cases hd : ((plainDefs g).map (·.1)).Nodup
    case neg =>
      obtain ⟨spans, hv⟩ := verdict_dup_plain g sh n hone hs hd
      exact .dupPlain n hone hs hd spans hv
    rcases specsClean_or_fault g sh with hc | ⟨x, hf⟩
    · by_cases hsh : ShadowedPlainAreCmds g sh
      case neg =>
        obtain ⟨spans, hv⟩ := verdict_shadow g sh n hone hs hd hc hsh
        exact .shadowNotCommand n hone hs hd hc hsh spans hv
      have w : WellFormed g sh n := ⟨hone, hs, hd, hc, hsh⟩
      by_cases hcyc : Cyclic g sh
      · obtain ⟨spans, hv⟩ := verdict_cycle g sh n w hcyc
        exact .cycle n w hcyc spans hv
      · obtain ⟨f1, f2, f3⟩ := verdict_spaces g sh n w hcyc
        cases hsp : spacesVerdict g sh with
        | fine =>
          obtain ⟨v, hv⟩ := f3 hsp
          exact .accepted n w hcyc hsp v hv
        | bad l r t => exact .spacesBad n w hcyc l r t hsp (f1 l r t hsp)
        | overflow => exact .spacesOverflow n w hcyc hsp (f2 hsp)
    · obtain ⟨f1, f2, f3⟩ := verdict_spec_fault g sh n hone hs hd x hf
      cases hc : isCmdSpec x with
      | false => exact .specNotCommand n hone hs hd x hf hc (f1 hc)
      | true =>
        cases hk : knownShell x with
        | false => exact .specUnknownShell n hone hs hd x hf hc hk (f2 hc hk)
        | true =>
          obtain ⟨spans, hv⟩ := f3 hc hk
          exact .specDuplicate n hone hs hd x hf hc hk spans hv

/-! ### 1. no false diagnostics: each class is only given for its mistake -/

theorem fault_dup_not_distinct (g : Grammar) (sh : Shell) (x : SpecDef) (h : FirstSpecFault g sh x)
    (hc : isCmdSpec x = true) (hk : knownShell x = true) : ¬ TargetSpecsDistinct g sh := by
  intro c3
  obtain ⟨pre, post, he, _, _, _, h5⟩ := h
  rcases h5 with h5 | h5 | ⟨h5, h6⟩
  · simp [hc] at h5
  · simp [hk] at h5
  · unfold TargetSpecsDistinct at c3
    rw [he] at c3
    simp only [List.filter_append, List.filter_cons, h5, if_true, List.map_append, List.map_cons] at c3
    exact (List.nodup_append.mp c3).2.2 x.1 h6 x.1 (by simp) rfl

theorem not_shadowed_witness (g : Grammar) (sh : Shell) (h : ¬ ShadowedPlainAreCmds g sh) :
    ∃ p ∈ plainDefs g, p.1 ∈ targetSpecNames g sh ∧ isCmdExpr p.2.2 = false := by
  apply Classical.byContradiction
  intro hne
  apply h
  intro p hp hm
  cases hb : isCmdExpr p.2.2 with
  | true => rfl
  | false => exact absurd ⟨p, hp, hm, hb⟩ hne

/-- "missing call variants" is only said of a grammar without call variants -/
theorem missingCallVariants_real (g : Grammar) (sh : Shell) (spans : List Span)
    (h : validate g sh = .err .missingCallVariants spans) : callsOf g = [] := by
  cases validate_cases g sh
  all_goals try (rename_i hv; rw [hv] at h; cases h; done)
  assumption

/-- "varying command names" is only said when two call variants name different commands -/
theorem varyingCommandNames_real (g : Grammar) (sh : Shell) (spans : List Span)
    (h : validate g sh = .err .varyingCommandNames spans) :
    ∃ a b, a ∈ callNames g ∧ b ∈ callNames g ∧ a ≠ b := by
  cases validate_cases g sh
  all_goals try (rename_i hv; rw [hv] at h; cases h; done)
  case varying a b ha hb hab _ _ => exact ⟨a, b, ha, hb, hab⟩

/-- "invalid command name" is only said when the (single) command name contains `/` -/
theorem invalidCommandName_real (g : Grammar) (sh : Shell) (spans : List Span)
    (h : validate g sh = .err .invalidCommandName spans) : ∃ n, OneCommand g n ∧ '/' ∈ n.toList := by
  cases validate_cases g sh
  all_goals try (rename_i hv; rw [hv] at h; cases h; done)
  case slash n hone hs _ _ => exact ⟨n, hone, hs⟩

/-- "duplicate nonterminal definition" is only said when a name has two plain definitions or two definitions
for the target shell -/
theorem duplicateNonterminalDefinition_real (g : Grammar) (sh : Shell) (spans : List Span)
    (h : validate g sh = .err .duplicateNonterminalDefinition spans) :
    ¬ ((plainDefs g).map (·.1)).Nodup ∨ ¬ TargetSpecsDistinct g sh := by
  cases validate_cases g sh
  all_goals try (rename_i hv; rw [hv] at h; cases h; done)
  case dupPlain n _ _ hd _ _ => exact .inl hd
  case specDuplicate n _ _ _ x hf hc hk _ _ => exact .inr (fault_dup_not_distinct g sh x hf hc hk)

/-- "unknown shell" is only said when a shell-specific definition names a shell the program does not know -/
theorem unknownShell_real (g : Grammar) (sh : Shell) (spans : List Span)
    (h : validate g sh = .err .unknownShell spans) : ∃ x ∈ specDefs g, knownShell x = false := by
  cases validate_cases g sh
  all_goals try (rename_i hv; rw [hv] at h; cases h; done)
  case specUnknownShell n _ _ _ x hf _ hk _ => exact ⟨x, firstSpecFault_mem g sh x hf, hk⟩

/-- "non-command specialization" is only said when a shell-specific definition is not an external command, or
when a plain definition of a name that is also defined for the target shell is not an external command -/
theorem nonCommandSpecialization_real (g : Grammar) (sh : Shell) (spans : List Span)
    (h : validate g sh = .err .nonCommandSpecialization spans) :
    (∃ x ∈ specDefs g, isCmdSpec x = false) ∨
    (∃ p ∈ plainDefs g, p.1 ∈ targetSpecNames g sh ∧ isCmdExpr p.2.2 = false) := by
  cases validate_cases g sh
  all_goals try (rename_i hv; rw [hv] at h; cases h; done)
  case specNotCommand n _ _ _ x hf hc _ => exact .inl ⟨x, firstSpecFault_mem g sh x hf, hc⟩
  case shadowNotCommand n _ _ _ _ hsh _ _ => exact .inr (not_shadowed_witness g sh hsh)

/-- "nonterminal definitions cycle" is only said of definitions that refer to each other in a circle
(`validate_cycle_real` of `Proofs/Cycle.lean`) -/
theorem nonterminalDefinitionsCycle_real (g : Grammar) (sh : Shell) (spans : List Span)
    (h : validate g sh = .err .nonterminalDefinitionsCycle spans) : Cyclic g sh :=
  validate_cycle_real g sh spans h

/-- "spaces inside a word" is only said when `check_subword_spaces` finds two adjacent literals on the
specialised top expression and the expanded definitions; the spans shown are the ones it returns -/
theorem subwordSpaces_real (g : Grammar) (sh : Shell) (spans : List Span)
    (h : validate g sh = .err .subwordSpaces spans) :
    ∃ l r t, spacesVerdict g sh = .bad l r t ∧ spans = l :: r :: t := by
  cases validate_cases g sh
  all_goals try (rename_i hv; rw [hv] at h; cases h; done)
  case spacesBad n _ _ l r t hsp hv =>
    rw [hv] at h
    simp only [Outcome.err.injEq, true_and] at h
    exact ⟨l, r, t, hsp, h.symm⟩

/-- the classes of later pipeline stages are never the verdict of validation -/
theorem validate_classes (g : Grammar) (sh : Shell) (c : ErrClass) (spans : List Span)
    (h : validate g sh = .err c spans) :
    c = .missingCallVariants ∨ c = .varyingCommandNames ∨ c = .invalidCommandName ∨
    c = .duplicateNonterminalDefinition ∨ c = .unknownShell ∨ c = .nonCommandSpecialization ∨
    c = .nonterminalDefinitionsCycle ∨ c = .subwordSpaces := by
  cases validate_cases g sh
  all_goals (rename_i hv; rw [hv] at h; cases h <;> simp)

/-- the model crashes only where the real program exhausts its stack in `check_subword_spaces` -/
theorem crash_real (g : Grammar) (sh : Shell) (site : String) (h : validate g sh = .crash site) :
    spacesVerdict g sh = .overflow ∧ site = spacesCrash := by
  cases validate_cases g sh
  all_goals try (rename_i hv; rw [hv] at h; cases h; done)
  case spacesOverflow n _ _ hsp hv =>
    rw [hv] at h
    simp only [Outcome.crash.injEq] at h
    exact ⟨hsp, h.symm⟩

/-- a grammar is only accepted when it has none of the mistakes -/
theorem accepted_real (g : Grammar) (sh : Shell) (v : Valid) (h : validate g sh = .ok v) :
    ∃ n, WellFormed g sh n ∧ ¬ Cyclic g sh ∧ spacesVerdict g sh = .fine := by
  cases validate_cases g sh
  all_goals try (rename_i hv; rw [hv] at h; cases h; done)
  case accepted n w hcyc hsp _ _ => exact ⟨n, w, hcyc, hsp⟩

/-! ### 2. clean grammars pass -/

/-- **A grammar without mistakes is accepted.**  Besides the conditions on the shell-specific definitions
themselves the code has one more (`ShadowedPlainAreCmds`): a plain definition of a name that is also defined
for the target shell must be an external command. -/
theorem validate_ok_of_clean (g : Grammar) (sh : Shell) (n : String) (h : OneCommand g n)
    (hs : '/' ∉ n.toList) (hd : ((plainDefs g).map (·.1)).Nodup)
    (hc : ∀ x ∈ specDefs g, isCmdSpec x = true) (hk : ∀ x ∈ specDefs g, knownShell x = true)
    (hds : TargetSpecsDistinct g sh) (hsh : ShadowedPlainAreCmds g sh)
    (hcyc : ¬ ∃ u, Reach (depGraph (tableOf sh g)) u u) (hsp : spacesVerdict g sh = .fine) :
    ∃ v, validate g sh = .ok v :=
  (verdict_spaces g sh n ⟨h, hs, hd, ⟨hc, hk, hds⟩, hsh⟩ hcyc).2.2 hsp

/-- a grammar without shell-specific definitions for the target shell needs no such extra condition -/
theorem shadowed_of_no_target_specs (g : Grammar) (sh : Shell) (h : targetSpecNames g sh = []) :
    ShadowedPlainAreCmds g sh := by
  intro p _ hm
  rw [h] at hm
  cases hm

/-- `cmd <X>; <X> ::= foo; <X@bash> ::= {{{ x }}};` -/
def shadowExample : Grammar :=
  [.call "cmd" default (.nonterm "X" 0 default),
   .defn "X" default none (.term "foo" none 0 default),
   .defn "X" default (some ("bash", default)) (.cmd "x" false 0 default)]

theorem shadowExample_rejected :
    validate shadowExample .bash = .err .nonCommandSpecialization [default] := by rfl

theorem shadowExample_table :
    tableOf .bash shadowExample = [("X", (default, .term "foo" none 0 default))] := by rfl

theorem shadowExample_order : resolutionOrder (tableOf .bash shadowExample) = .ok [] := by
  rw [shadowExample_table]
  unfold resolutionOrder
  have hg : depGraph [("X", ((default : Span), Expr.term "foo" none 0 default))] = [("X", [])] := by rfl
  have hr : roots [("X", [])] = ["X"] := by decide
  simp only [hg, hr]
  simp [resolutionOrder.loop, dfs, dfs.go, AList.get?]

theorem shadowExample_acyclic : ¬ ∃ u, Reach (depGraph (tableOf .bash shadowExample)) u u := by
  intro ⟨u, hu⟩
  exact cycle_no_order _ u hu [] shadowExample_order

theorem shadowExample_spaces : spacesVerdict shadowExample .bash = .fine := by
  unfold spacesVerdict expandedTable
  rw [shadowExample_order]
  rfl

/-- **Without `ShadowedPlainAreCmds` the statement is false**: the example meets every other condition of
`validate_ok_of_clean`, all its shell-specific definitions are commands, and it is rejected with
"non-command specialization" (so that diagnostic is not only given for a shell-specific definition that is
not a command either). -/
theorem clean_needs_shadowed :
    OneCommand shadowExample "cmd" ∧ '/' ∉ "cmd".toList ∧ ((plainDefs shadowExample).map (·.1)).Nodup ∧
    (∀ x ∈ specDefs shadowExample, isCmdSpec x = true) ∧ (∀ x ∈ specDefs shadowExample, knownShell x = true) ∧
    TargetSpecsDistinct shadowExample .bash ∧
    (¬ ∃ u, Reach (depGraph (tableOf .bash shadowExample)) u u) ∧
    spacesVerdict shadowExample .bash = .fine ∧
    validate shadowExample .bash = .err .nonCommandSpecialization [default] ∧
    ¬ ShadowedPlainAreCmds shadowExample .bash := by
  have hp : plainDefs shadowExample = [("X", default, .term "foo" none 0 default)] := rfl
  refine ⟨⟨by decide, by decide⟩, by decide, by decide, by decide, by decide,
    by unfold TargetSpecsDistinct; decide, shadowExample_acyclic,
    shadowExample_spaces, shadowExample_rejected, ?_⟩
  intro h
  have := h ("X", default, .term "foo" none 0 default) (by rw [hp]; exact List.mem_cons_self)
    (by unfold targetSpecNames; decide)
  exact Bool.noConfusion this

/-! ### the order among the mistakes of the shell-specific definitions is the source order -/

/-- `cmd a; <X@tcsh> ::= foo;`: not a command *and* an unknown shell — reported as "non-command
specialization" (so `rejects_unknown_shell` needs its hypothesis that all of them are commands) -/
theorem order_example_noncmd_first :
    validate [.call "cmd" default (.term "a" none 0 default),
              .defn "X" default (some ("tcsh", default)) (.term "foo" none 0 default)] .bash =
      .err .nonCommandSpecialization [default] := by rfl

/-- `cmd a; <X@bash> ::= {{{ a }}}; <X@bash> ::= {{{ b }}}; <Y@tcsh> ::= {{{ c }}};`: the second definition
of `X` for bash stands before the unknown shell, so for bash the verdict is "duplicate", for zsh it is
"unknown shell" (so `rejects_unknown_shell` needs `TargetSpecsDistinct`) -/
theorem order_example_source_order :
    let g : Grammar := [.call "cmd" default (.term "a" none 0 default),
      .defn "X" ⟨1, 1, 1⟩ (some ("bash", default)) (.cmd "a" false 0 default),
      .defn "X" ⟨2, 2, 2⟩ (some ("bash", default)) (.cmd "b" false 0 default),
      .defn "Y" default (some ("tcsh", ⟨3, 3, 3⟩)) (.cmd "c" false 0 default)]
    validate g .bash = .err .duplicateNonterminalDefinition [⟨1, 1, 1⟩, ⟨2, 2, 2⟩] ∧
    validate g .zsh = .err .unknownShell [⟨3, 3, 3⟩] := by
  exact ⟨by rfl, by rfl⟩

/-! ### the conditions exclude each other -/

theorem oneCommand_excludes (g : Grammar) (n : String) (h : OneCommand g n) :
    callsOf g ≠ [] ∧ (∀ a b, a ∈ callNames g → b ∈ callNames g → a = b) ∧ ∀ m, OneCommand g m → m = n := by
  refine ⟨h.1, ?_, ?_⟩
  · intro a b ha hb
    obtain ⟨x, hx, rfl⟩ := List.mem_map.mp ha
    obtain ⟨y, hy, rfl⟩ := List.mem_map.mp hb
    rw [h.2 x hx, h.2 y hy]
  · intro m hm
    obtain ⟨x, hx⟩ := List.exists_mem_of_ne_nil _ h.1
    rw [← hm.2 x hx, h.2 x hx]

/-! ### 3. the verdict as a decision list -/

/-- **The specification of the diagnostics of `from_grammar`.**  For every grammar and target shell the
outcome is decided by the first of these conditions that holds, in the order the code checks them:

1. no call variant → "missing call variants";
2. two call variants for different command names → "varying command names";
3. the command name contains `/` → "invalid command name";
4. two plain definitions of one name → "duplicate nonterminal definition";
5. the shell-specific definitions, in source order, up to the first one with a mistake (`FirstSpecFault`):
   its right-hand side is not an external command → "non-command specialization" at that right-hand side;
   else its shell is unknown → "unknown shell" at the shell name;
   else (it defines for the target shell a name already defined for it) → "duplicate nonterminal definition";
6. a plain definition of a name that is also defined for the target shell is not an external command →
   "non-command specialization";
7. the definitions refer to each other in a circle → "nonterminal definitions cycle";
8. `check_subword_spaces` finds adjacent literals → "spaces inside a word" with its spans; exhausts the
   stack → crash; else the grammar is accepted.

`validate_cases` says that every grammar meets the premises of one of the clauses. -/
theorem validate_verdict (g : Grammar) (sh : Shell) :
    (callsOf g = [] → validate g sh = .err .missingCallVariants []) ∧
    (∀ a b, a ∈ callNames g → b ∈ callNames g → a ≠ b →
      ∃ spans, validate g sh = .err .varyingCommandNames spans) ∧
    (∀ n, OneCommand g n → '/' ∈ n.toList → ∃ sp, validate g sh = .err .invalidCommandName [sp]) ∧
    (∀ n, OneCommand g n → '/' ∉ n.toList → ¬ ((plainDefs g).map (·.1)).Nodup →
      ∃ spans, validate g sh = .err .duplicateNonterminalDefinition spans) ∧
    (∀ n, OneCommand g n → '/' ∉ n.toList → ((plainDefs g).map (·.1)).Nodup →
      ∀ x, FirstSpecFault g sh x →
        (isCmdSpec x = false → validate g sh = .err .nonCommandSpecialization [x.2.2.2.2.span]) ∧
        (isCmdSpec x = true → knownShell x = false → validate g sh = .err .unknownShell [x.2.2.2.1]) ∧
        (isCmdSpec x = true → knownShell x = true →
          ∃ spans, validate g sh = .err .duplicateNonterminalDefinition spans)) ∧
    (∀ n, OneCommand g n → '/' ∉ n.toList → ((plainDefs g).map (·.1)).Nodup → SpecsClean g sh →
      ¬ ShadowedPlainAreCmds g sh → ∃ spans, validate g sh = .err .nonCommandSpecialization spans) ∧
    (∀ n, WellFormed g sh n → Cyclic g sh → ∃ spans, validate g sh = .err .nonterminalDefinitionsCycle spans) ∧
    (∀ n, WellFormed g sh n → ¬ Cyclic g sh →
      ∀ l r t, spacesVerdict g sh = .bad l r t → validate g sh = .err .subwordSpaces (l :: r :: t)) ∧
    (∀ n, WellFormed g sh n → ¬ Cyclic g sh → spacesVerdict g sh = .overflow →
      validate g sh = .crash spacesCrash) ∧
    (∀ n, WellFormed g sh n → ¬ Cyclic g sh → spacesVerdict g sh = .fine → ∃ v, validate g sh = .ok v) :=
  ⟨verdict_no_variant g sh,
   verdict_varying g sh,
   verdict_slash g sh,
   verdict_dup_plain g sh,
   verdict_spec_fault g sh,
   verdict_shadow g sh,
   verdict_cycle g sh,
   fun n w hc => (verdict_spaces g sh n w hc).1,
   fun n w hc => (verdict_spaces g sh n w hc).2.1,
   fun n w hc => (verdict_spaces g sh n w hc).2.2⟩

/-- the premises of the clauses of `validate_verdict` cover every grammar -/
theorem validate_verdict_exhaustive (g : Grammar) (sh : Shell) :
    callsOf g = [] ∨
    (∃ a b, a ∈ callNames g ∧ b ∈ callNames g ∧ a ≠ b) ∨
    (∃ n, OneCommand g n ∧ '/' ∈ n.toList) ∨
    (∃ n, OneCommand g n ∧ '/' ∉ n.toList ∧ ¬ ((plainDefs g).map (·.1)).Nodup) ∨
    (∃ n, OneCommand g n ∧ '/' ∉ n.toList ∧ ((plainDefs g).map (·.1)).Nodup ∧ ∃ x, FirstSpecFault g sh x) ∨
    (∃ n, OneCommand g n ∧ '/' ∉ n.toList ∧ ((plainDefs g).map (·.1)).Nodup ∧ SpecsClean g sh ∧
      ¬ ShadowedPlainAreCmds g sh) ∨
    (∃ n, WellFormed g sh n ∧ Cyclic g sh) ∨
    (∃ n, WellFormed g sh n ∧ ¬ Cyclic g sh) := by
  cases validate_cases g sh with
  | noVariant h _ => exact .inl h
  | varying a b ha hb hab _ _ => exact .inr (.inl ⟨a, b, ha, hb, hab⟩)
  | slash n h hs _ _ => exact .inr (.inr (.inl ⟨n, h, hs⟩))
  | dupPlain n h hs hd _ _ => exact .inr (.inr (.inr (.inl ⟨n, h, hs, hd⟩)))
  | specNotCommand n h hs hd x hf _ _ => exact .inr (.inr (.inr (.inr (.inl ⟨n, h, hs, hd, x, hf⟩))))
  | specUnknownShell n h hs hd x hf _ _ _ => exact .inr (.inr (.inr (.inr (.inl ⟨n, h, hs, hd, x, hf⟩))))
  | specDuplicate n h hs hd x hf _ _ _ _ => exact .inr (.inr (.inr (.inr (.inl ⟨n, h, hs, hd, x, hf⟩))))
  | shadowNotCommand n h hs hd hc hsh _ _ => exact .inr (.inr (.inr (.inr (.inr (.inl ⟨n, h, hs, hd, hc, hsh⟩)))))
  | cycle n w hcyc _ _ => exact .inr (.inr (.inr (.inr (.inr (.inr (.inl ⟨n, w, hcyc⟩))))))
  | spacesBad n w hcyc _ _ _ _ _ => exact .inr (.inr (.inr (.inr (.inr (.inr (.inr ⟨n, w, hcyc⟩))))))
  | spacesOverflow n w hcyc _ _ => exact .inr (.inr (.inr (.inr (.inr (.inr (.inr ⟨n, w, hcyc⟩))))))
  | accepted n w hcyc _ _ _ => exact .inr (.inr (.inr (.inr (.inr (.inr (.inr ⟨n, w, hcyc⟩))))))

end Complgen.Check
