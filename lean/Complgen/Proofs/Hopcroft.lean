/-
`minimize` (Hopcroft's partition refinement + quotient + clean-up passes + renumbering) preserves
the language of a well-formed automaton, for EVERY work-list schedule.
-/
import Complgen.Model.Min
namespace Complgen.Min
open Complgen

/-! ### 0. Basic list facts -/

theorem mem_insertSorted {a x : Nat} {l : List Nat} :
    a ∈ insertSorted x l ↔ a = x ∨ a ∈ l := by
  induction l with
  | nil => simp [insertSorted]
  | cons y ys ih =>
    simp only [insertSorted]
    split
    · simp
    · split
      · rename_i h
        have hxy : x = y := by simpa using h
        subst hxy
        simp
      · simp only [List.mem_cons, ih]
        grind

theorem mem_foldl_insertSorted {a : Nat} (l init : List Nat) :
    a ∈ l.foldl (fun acc x => insertSorted x acc) init ↔ a ∈ init ∨ a ∈ l := by
  induction l generalizing init with
  | nil => simp
  | cons x xs ih =>
    simp only [List.foldl_cons, ih, mem_insertSorted, List.mem_cons]
    grind

theorem mem_normSet {a : Nat} {l : List Nat} : a ∈ normSet l ↔ a ∈ l := by
  simp [normSet, mem_foldl_insertSorted]

theorem mem_foldl_dedup {a : Nat} (l init : List Nat) :
    a ∈ l.foldl (fun acc x => if acc.contains x then acc else acc ++ [x]) init ↔ a ∈ init ∨ a ∈ l := by
  induction l generalizing init with
  | nil => simp
  | cons x xs ih =>
    simp only [List.foldl_cons, ih, List.mem_cons]
    by_cases h : init.contains x = true
    · simp only [h, if_true]
      have : x ∈ init := by simpa using h
      grind
    · simp only [h]
      simp
      grind

theorem mem_dedup {a : Nat} {l : List Nat} : a ∈ dedup l ↔ a ∈ l := by
  unfold dedup
  rw [mem_foldl_dedup]
  simp

theorem mem_inter {x : Nat} {a b : Block} : x ∈ inter a b ↔ x ∈ a ∧ x ∈ b := by
  simp [inter]

theorem mem_diff {x : Nat} {a b : Block} : x ∈ diff a b ↔ x ∈ a ∧ x ∉ b := by
  simp [diff]

theorem mem_removeNth {α} {x : α} : ∀ {l : List α} {k : Nat},
    x ∈ l → x ∈ removeNth l k ∨ l[k]? = some x
  | [], _, h => by simp at h
  | y :: ys, 0, h => by
    simp only [removeNth]
    rcases List.mem_cons.1 h with rfl | h
    · right; simp
    · left; exact h
  | y :: ys, k + 1, h => by
    simp only [removeNth]
    rcases List.mem_cons.1 h with rfl | h
    · left; simp
    · rcases mem_removeNth (k := k) h with h | h
      · left; exact List.mem_cons_of_mem _ h
      · right; simpa using h

/-! ### 1. Partitions, the work-list invariant, and one split -/

def SameBlock (P : List Block) (u v : Nat) : Prop := ∃ B ∈ P, u ∈ B ∧ v ∈ B

/-- what the refinement keeps true of the partition, whatever the schedule -/
structure PInv (a : Auto) (P : List Block) : Prop where
  cover : ∀ x ∈ allStates a, ∃ B ∈ P, x ∈ B
  disj : ∀ B ∈ P, ∀ C ∈ P, ∀ x, x ∈ B → x ∈ C → B = C
  hom : ∀ B ∈ P, ∀ p ∈ B, ∀ q ∈ B, (p ∈ a.acc ↔ q ∈ a.acc)
  zero : ∀ B ∈ P, 0 ∈ B → ∀ x ∈ B, x = 0

theorem mem_preimage {a : Auto} {froms X : Block} {i p : Nat} :
    p ∈ preimage a froms X i ↔ p ∈ froms ∧ stepC a p i ∈ X := by
  simp [preimage]

/-- the splitter `(X, i)` tells `p` and `q` apart -/
def Sep (a : Auto) (froms X : Block) (i p q : Nat) : Prop :=
  ¬ (p ∈ preimage a froms X i ↔ q ∈ preimage a froms X i)

theorem Sep.symm {a : Auto} {froms X : Block} {i p q : Nat} (h : Sep a froms X i p q) :
    Sep a froms X i q p := fun h' => h h'.symm

/-- Work-list invariant (pair form): two states of one block whose `i`-successors lie in different
blocks are told apart by a splitter still in the work-list, or by the pending part `E` of the
splitter being processed. -/
def WInv (a : Auto) (froms : Block) (n : Nat) (P W : List Block) (E : Nat → Nat → Nat → Prop) : Prop :=
  ∀ B ∈ P, ∀ p ∈ B, ∀ q ∈ B, ∀ i, i < n →
    SameBlock P (stepC a p i) (stepC a q i) ∨ (∃ X ∈ W, Sep a froms X i p q) ∨ E i p q

def splitParts (P : List Block) (y y1 y2 : Block) : List Block := (P.filter (· != y)) ++ [y1, y2]

def splitWork (W : List Block) (y y1 y2 : Block) : List Block :=
  if W.contains y then (W.filter (· != y)) ++ [y1, y2]
  else if y1.length ≤ y2.length then W ++ [y1] else W ++ [y2]

theorem mem_splitParts {P : List Block} {y y1 y2 B : Block} :
    B ∈ splitParts P y y1 y2 ↔ (B ∈ P ∧ B ≠ y) ∨ B = y1 ∨ B = y2 := by
  simp [splitParts]

theorem splitWork_old {W : List Block} {y y1 y2 X : Block} (hX : X ∈ W) (hne : X ≠ y) :
    X ∈ splitWork W y y1 y2 := by
  unfold splitWork
  split
  · simp [hX, hne]
  · split <;> simp [hX]

theorem splitWork_new (W : List Block) (y y1 y2 : Block) :
    y1 ∈ splitWork W y y1 y2 ∨ y2 ∈ splitWork W y y1 y2 := by
  unfold splitWork
  split
  · left; simp
  · split
    · left; simp
    · right; simp

theorem splitWork_both {W : List Block} {y y1 y2 : Block} (hy : y ∈ W) :
    y1 ∈ splitWork W y y1 y2 ∧ y2 ∈ splitWork W y y1 y2 := by
  unfold splitWork
  simp [hy]

section Split
variable {a : Auto} {P : List Block} {y y1 y2 : Block}
  (hsub1 : ∀ u ∈ y1, u ∈ y) (hsub2 : ∀ u ∈ y2, u ∈ y)
  (hcov : ∀ u ∈ y, u ∈ y1 ∨ u ∈ y2) (hdj : ∀ u, u ∈ y1 → u ∈ y2 → False)
include hsub1 hsub2

theorem split_sub_old (hy : y ∈ P) : ∀ B' ∈ splitParts P y y1 y2, ∃ B ∈ P, ∀ u ∈ B', u ∈ B := by
  intro B' hB'
  rcases mem_splitParts.1 hB' with ⟨h, _⟩ | rfl | rfl
  · exact ⟨B', h, fun _ h => h⟩
  · exact ⟨y, hy, hsub1⟩
  · exact ⟨y, hy, hsub2⟩

include hcov hdj

theorem split_PInv (h : PInv a P) (hy : y ∈ P) : PInv a (splitParts P y y1 y2) := by
  have hold := split_sub_old (P := P) hsub1 hsub2 hy
  refine ⟨?_, ?_, ?_, ?_⟩
  · intro x hx
    obtain ⟨B, hB, hxB⟩ := h.cover x hx
    by_cases hBy : B = y
    · subst hBy
      rcases hcov x hxB with h1 | h2
      · exact ⟨y1, mem_splitParts.2 (.inr (.inl rfl)), h1⟩
      · exact ⟨y2, mem_splitParts.2 (.inr (.inr rfl)), h2⟩
    · exact ⟨B, mem_splitParts.2 (.inl ⟨hB, hBy⟩), hxB⟩
  · intro B hB C hC x hxB hxC
    rcases mem_splitParts.1 hB with ⟨hBP, hBy⟩ | rfl | rfl <;>
      rcases mem_splitParts.1 hC with ⟨hCP, hCy⟩ | rfl | rfl
    · exact h.disj B hBP C hCP x hxB hxC
    · exact absurd (h.disj B hBP y hy x hxB (hsub1 x hxC)) hBy
    · exact absurd (h.disj B hBP y hy x hxB (hsub2 x hxC)) hBy
    · exact absurd (h.disj C hCP y hy x hxC (hsub1 x hxB)) hCy
    · rfl
    · exact (hdj x hxB hxC).elim
    · exact absurd (h.disj C hCP y hy x hxC (hsub2 x hxB)) hCy
    · exact (hdj x hxC hxB).elim
    · rfl
  · intro B' hB' p hp q hq
    obtain ⟨B, hB, hs⟩ := hold B' hB'
    exact h.hom B hB p (hs p hp) q (hs q hq)
  · intro B' hB' h0 x hx
    obtain ⟨B, hB, hs⟩ := hold B' hB'
    exact h.zero B hB (hs 0 h0) x (hs x hx)

theorem split_WInv {froms : Block} {n : Nat} {W : List Block} {E : Nat → Nat → Nat → Prop}
    (hfr : ∀ p i, stepC a p i ≠ 0 → p ∈ froms)
    (h : PInv a P) (hy : y ∈ P) (hW : WInv a froms n P W E) :
    WInv a froms n (splitParts P y y1 y2) (splitWork W y y1 y2) E := by
  have hold := split_sub_old (P := P) hsub1 hsub2 hy
  -- successors on the two sides of the cut are told apart by both halves
  have key : ∀ p q i, stepC a p i ∈ y1 → stepC a q i ∈ y2 →
      ∃ X ∈ splitWork W y y1 y2, Sep a froms X i p q := by
    intro p q i hp1 hq2
    have h0 : (0 : Nat) ∉ y := by
      intro h0
      have e1 := h.zero y hy h0 _ (hsub1 _ hp1)
      have e2 := h.zero y hy h0 _ (hsub2 _ hq2)
      rw [e1] at hp1; rw [e2] at hq2
      exact hdj 0 hp1 hq2
    have hpf : p ∈ froms := hfr p i (fun e => h0 (e ▸ hsub1 _ hp1))
    have hqf : q ∈ froms := hfr q i (fun e => h0 (e ▸ hsub2 _ hq2))
    rcases splitWork_new W y y1 y2 with hm | hm
    · refine ⟨y1, hm, ?_⟩
      intro hiff
      have := (mem_preimage.1 (hiff.1 (mem_preimage.2 ⟨hpf, hp1⟩))).2
      exact hdj _ this hq2
    · refine ⟨y2, hm, ?_⟩
      intro hiff
      have := (mem_preimage.1 (hiff.2 (mem_preimage.2 ⟨hqf, hq2⟩))).2
      exact hdj _ hp1 this
  intro B' hB' p hp q hq i hi
  obtain ⟨B, hB, hs⟩ := hold B' hB'
  rcases hW B hB p (hs p hp) q (hs q hq) i hi with ⟨C, hC, hpC, hqC⟩ | ⟨X, hX, hsep⟩ | hE
  · by_cases hCy : C = y
    · subst hCy
      rcases hcov _ hpC with hp1 | hp2 <;> rcases hcov _ hqC with hq1 | hq2
      · exact .inl ⟨y1, mem_splitParts.2 (.inr (.inl rfl)), hp1, hq1⟩
      · exact .inr (.inl (key p q i hp1 hq2))
      · obtain ⟨X, hX, hsep⟩ := key q p i hq1 hp2
        exact .inr (.inl ⟨X, hX, hsep.symm⟩)
      · exact .inl ⟨y2, mem_splitParts.2 (.inr (.inr rfl)), hp2, hq2⟩
    · exact .inl ⟨C, mem_splitParts.2 (.inl ⟨hC, hCy⟩), hpC, hqC⟩
  · by_cases hXy : X = y
    · subst hXy
      obtain ⟨hm1, hm2⟩ := splitWork_both (y1 := y1) (y2 := y2) hX
      have hpre : ∀ r, r ∈ preimage a froms X i ↔
          (r ∈ preimage a froms y1 i ∨ r ∈ preimage a froms y2 i) := by
        intro r
        simp only [mem_preimage]
        constructor
        · rintro ⟨hf, hr⟩
          rcases hcov _ hr with h1 | h2
          · exact .inl ⟨hf, h1⟩
          · exact .inr ⟨hf, h2⟩
        · rintro (⟨hf, h1⟩ | ⟨hf, h2⟩)
          · exact ⟨hf, hsub1 _ h1⟩
          · exact ⟨hf, hsub2 _ h2⟩
      by_cases hs1 : Sep a froms y1 i p q
      · exact .inr (.inl ⟨y1, hm1, hs1⟩)
      · by_cases hs2 : Sep a froms y2 i p q
        · exact .inr (.inl ⟨y2, hm2, hs2⟩)
        · exfalso
          apply hsep
          unfold Sep at hs1 hs2
          rw [hpre p, hpre q, Classical.not_not.1 hs1, Classical.not_not.1 hs2]
    · exact .inr (.inl ⟨X, splitWork_old hX hXy, hsep⟩)
  · exact .inr (.inr hE)

end Split

/-! ### 2. `splitAll`, the fold over the inputs, `refineLoop`, `partition` -/

theorem splitAll_cons (x y : Block) (rest : List Block) (st : HState) :
    splitAll x (y :: rest) st =
      if !st.parts.contains y then splitAll x rest st else
      if (inter y x).isEmpty || (diff y (inter y x)).isEmpty then splitAll x rest st else
      splitAll x rest ⟨splitParts st.parts y (inter y x) (diff y (inter y x)),
        splitWork st.work y (inter y x) (diff y (inter y x))⟩ := rfl

def Inv (a : Auto) (froms : Block) (n : Nat) (E : Nat → Nat → Nat → Prop) (st : HState) : Prop :=
  PInv a st.parts ∧ WInv a froms n st.parts st.work E

theorem splitAll_inv {a : Auto} {froms : Block} {n : Nat} {E : Nat → Nat → Nat → Prop}
    (hfr : ∀ p i, stepC a p i ≠ 0 → p ∈ froms) (x : Block) :
    ∀ (ys : List Block) (st : HState), Inv a froms n E st → Inv a froms n E (splitAll x ys st) := by
  intro ys
  induction ys with
  | nil => intro st h; simpa [splitAll] using h
  | cons y rest ih =>
    intro st h
    rw [splitAll_cons]
    split
    · exact ih st h
    · rename_i hy
      have hy : y ∈ st.parts := by simpa using hy
      split
      · exact ih st h
      · apply ih
        have hsub1 : ∀ u ∈ inter y x, u ∈ y := fun u hu => (mem_inter.1 hu).1
        have hsub2 : ∀ u ∈ diff y (inter y x), u ∈ y := fun u hu => (mem_diff.1 hu).1
        have hcov : ∀ u ∈ y, u ∈ inter y x ∨ u ∈ diff y (inter y x) := by
          intro u hu
          by_cases h1 : u ∈ inter y x
          · exact .inl h1
          · exact .inr (mem_diff.2 ⟨hu, h1⟩)
        have hdj : ∀ u, u ∈ inter y x → u ∈ diff y (inter y x) → False :=
          fun u h1 h2 => (mem_diff.1 h2).2 h1
        exact ⟨split_PInv hsub1 hsub2 hcov hdj h.1 hy, split_WInv hsub1 hsub2 hcov hdj hfr h.1 hy h.2⟩

/-- the set `x` does not cut the block `B` -/
def Uncut (x B : Block) : Prop := ∀ p ∈ B, ∀ q ∈ B, (p ∈ x ↔ q ∈ x)

theorem splitAll_uncut (x : Block) :
    ∀ (ys : List Block) (st : HState), (∀ B ∈ st.parts, Uncut x B ∨ B ∈ ys) →
      ∀ B ∈ (splitAll x ys st).parts, Uncut x B := by
  intro ys
  induction ys with
  | nil =>
    intro st h B hB
    rcases h B (by simpa [splitAll] using hB) with hu | hm
    · exact hu
    · simp at hm
  | cons y rest ih =>
    intro st h
    rw [splitAll_cons]
    split
    · rename_i hy
      have hy : y ∉ st.parts := by simpa using hy
      apply ih
      intro B hB
      rcases h B hB with hu | hm
      · exact .inl hu
      · rcases List.mem_cons.1 hm with rfl | hm
        · exact absurd hB hy
        · exact .inr hm
    · split
      · rename_i he
        apply ih
        intro B hB
        rcases h B hB with hu | hm
        · exact .inl hu
        · rcases List.mem_cons.1 hm with rfl | hm
          · left
            have he : inter B x = [] ∨ diff B (inter B x) = [] := by simpa using he
            intro p hp q hq
            rcases he with he | he
            · have : ∀ r ∈ B, r ∉ x := by
                intro r hr hx
                have : r ∈ inter B x := mem_inter.2 ⟨hr, hx⟩
                rw [he] at this; simp at this
              exact ⟨fun h => absurd h (this p hp), fun h => absurd h (this q hq)⟩
            · have : ∀ r ∈ B, r ∈ x := by
                intro r hr
                apply Classical.byContradiction
                intro hx
                have : r ∈ diff B (inter B x) :=
                  mem_diff.2 ⟨hr, fun h => hx (mem_inter.1 h).2⟩
                rw [he] at this; simp at this
              exact ⟨fun _ => this q hq, fun _ => this p hp⟩
          · exact .inr hm
      · apply ih
        intro B hB
        rcases mem_splitParts.1 hB with ⟨hBP, hne⟩ | rfl | rfl
        · rcases h B hBP with hu | hm
          · exact .inl hu
          · rcases List.mem_cons.1 hm with rfl | hm
            · exact absurd rfl hne
            · exact .inr hm
        · left
          intro p hp q hq
          exact ⟨fun _ => (mem_inter.1 hq).2, fun _ => (mem_inter.1 hp).2⟩
        · left
          intro p hp q hq
          have hn : ∀ r ∈ diff y (inter y x), r ∉ x := by
            intro r hr hx
            have := mem_diff.1 hr
            exact this.2 (mem_inter.2 ⟨this.1, hx⟩)
          exact ⟨fun h => absurd h (hn p hp), fun h => absurd h (hn q hq)⟩

/-- the part of the splitter `g` that is still to be processed -/
def Epend (a : Auto) (froms g : Block) (is : List Nat) : Nat → Nat → Nat → Prop :=
  fun i p q => i ∈ is ∧ Sep a froms g i p q

/-- body of the fold in `refineLoop` -/
def foldBody (a : Auto) (froms g : Block) (st : HState) (i : Nat) : HState :=
  let x := preimage a froms g i
  if x.isEmpty then st else
  splitAll x (st.parts.filter fun y => !(inter y x).isEmpty) st

theorem foldBody_inv {a : Auto} {froms g : Block} {n : Nat}
    (hfr : ∀ p i, stepC a p i ≠ 0 → p ∈ froms) (st : HState) (i : Nat) (rest : List Nat)
    (h : Inv a froms n (Epend a froms g (i :: rest)) st) :
    Inv a froms n (Epend a froms g rest) (foldBody a froms g st i) := by
  have h1 : Inv a froms n (Epend a froms g (i :: rest)) (foldBody a froms g st i) := by
    unfold foldBody
    simp only
    split
    · exact h
    · exact splitAll_inv hfr _ _ _ h
  have h2 : ∀ B ∈ (foldBody a froms g st i).parts, Uncut (preimage a froms g i) B := by
    unfold foldBody
    simp only
    split
    · rename_i he
      have he : preimage a froms g i = [] := by simpa using he
      intro B _ p _ q _
      rw [he]; simp
    · apply splitAll_uncut
      intro B hB
      by_cases hc : (inter B (preimage a froms g i)).isEmpty = true
      · left
        have hc : inter B (preimage a froms g i) = [] := by simpa using hc
        have : ∀ r ∈ B, r ∉ preimage a froms g i := by
          intro r hr hx
          have : r ∈ inter B (preimage a froms g i) := mem_inter.2 ⟨hr, hx⟩
          rw [hc] at this; simp at this
        intro p hp q hq
        exact ⟨fun h => absurd h (this p hp), fun h => absurd h (this q hq)⟩
      · right
        simp only [List.mem_filter]
        exact ⟨hB, by simpa using hc⟩
  refine ⟨h1.1, ?_⟩
  intro B hB p hp q hq j hj
  rcases h1.2 B hB p hp q hq j hj with hs | hx | ⟨hm, hsep⟩
  · exact .inl hs
  · exact .inr (.inl hx)
  · rcases List.mem_cons.1 hm with rfl | hm
    · exact absurd (h2 B hB p hp q hq) hsep
    · exact .inr (.inr ⟨hm, hsep⟩)

theorem fold_inv {a : Auto} {froms g : Block} {n : Nat}
    (hfr : ∀ p i, stepC a p i ≠ 0 → p ∈ froms) :
    ∀ (is : List Nat) (st : HState), Inv a froms n (Epend a froms g is) st →
      Inv a froms n (Epend a froms g []) (is.foldl (foldBody a froms g) st) := by
  intro is
  induction is with
  | nil => intro st h; exact h
  | cons i rest ih =>
    intro st h
    rw [List.foldl_cons]
    exact ih _ (foldBody_inv hfr st i rest h)

def ENone : Nat → Nat → Nat → Prop := fun _ _ _ => False

theorem refineLoop_inv {σ : Schedule} {a : Auto} {froms : Block} {n : Nat}
    (hfr : ∀ p i, stepC a p i ≠ 0 → p ∈ froms) :
    ∀ (fuel step : Nat) (st st' : HState), Inv a froms n ENone st →
      refineLoop σ a froms n fuel step st = some st' → Inv a froms n ENone st' ∧ st'.work = [] := by
  intro fuel
  induction fuel with
  | zero =>
    intro step st st' h hr
    simp only [refineLoop] at hr
    split at hr
    · rename_i he
      cases hr
      exact ⟨h, by simpa using he⟩
    · cases hr
  | succ fuel ih =>
    intro step st st' h hr
    rw [refineLoop] at hr
    split at hr
    · rename_i he
      cases hr
      exact ⟨h, by simpa using he⟩
    · simp only at hr
      split at hr
      · cases hr
      · rename_i g hg
        refine ih _ _ st' ?_ hr
        have := fold_inv (g := g) (n := n) hfr (List.range n)
          { st with work := removeNth st.work (σ step st.work.length % st.work.length) } ?_
        · refine ⟨this.1, ?_⟩
          intro B hB p hp q hq j hj
          rcases this.2 B hB p hp q hq j hj with hs | hx | ⟨hm, _⟩
          · exact .inl hs
          · exact .inr (.inl hx)
          · simp at hm
        · refine ⟨h.1, ?_⟩
          intro B hB p hp q hq j hj
          rcases h.2 B hB p hp q hq j hj with hs | ⟨X, hX, hsep⟩ | hf
          · exact .inl hs
          · rcases mem_removeNth (k := σ step st.work.length % st.work.length) hX with hm | hm
            · exact .inr (.inl ⟨X, hm, hsep⟩)
            · rw [hg] at hm
              cases hm
              exact .inr (.inr ⟨List.mem_range.2 hj, hsep⟩)
          · exact hf.elim

/-! ### 3. The initial partition; the result of `partition` is a stable partition -/

theorem step_eq_some {a : Auto} {q i q' : Nat} (h : a.step q i = some q') :
    ∃ t ∈ a.trans, t.1 = q ∧ t.2.1 = i ∧ t.2.2 = q' := by
  unfold Auto.step at h
  rw [Option.map_eq_some_iff] at h
  obtain ⟨t, ht, hq'⟩ := h
  have hp := List.find?_some ht
  simp only [Bool.and_eq_true, beq_iff_eq] at hp
  exact ⟨t, List.mem_of_find?_eq_some ht, hp.1, hp.2, hq'⟩

theorem step_eq_none {a : Auto} {q i : Nat} (h : a.step q i = none) :
    ∀ t ∈ a.trans, ¬ (t.1 = q ∧ t.2.1 = i) := by
  unfold Auto.step at h
  rw [Option.map_eq_none_iff, List.find?_eq_none] at h
  intro t ht hc
  exact h t ht (by simp [hc.1, hc.2])

theorem stepC_zero (a : Auto) (i : Nat) : stepC a 0 i = 0 := by simp [stepC]

theorem stepC_ne_zero {a : Auto} {p i : Nat} (h : stepC a p i ≠ 0) :
    p ≠ 0 ∧ a.step p i = some (stepC a p i) := by
  unfold stepC at h ⊢
  by_cases hp : p = 0
  · simp [hp] at h
  · have hp' : (p == 0) = false := by simpa using hp
    simp only [hp', Bool.false_eq_true, if_false] at h ⊢
    cases hs : a.step p i with
    | none => simp [hs] at h
    | some q' => exact ⟨hp, by simp⟩

theorem stepC_froms {a : Auto} {p i : Nat} (h : stepC a p i ≠ 0) :
    p ∈ normSet (a.trans.map (·.1)) := by
  obtain ⟨t, ht, h1, _, _⟩ := step_eq_some (stepC_ne_zero h).2
  exact mem_normSet.2 (List.mem_map.2 ⟨t, ht, h1⟩)

theorem mem_states {a : Auto} {q : Nat} :
    q ∈ a.states ↔ q = a.start ∨ ∃ t ∈ a.trans, q = t.1 ∨ q = t.2.2 := by
  simp only [Auto.states, mem_dedup, List.mem_cons, List.mem_flatMap, List.not_mem_nil, or_false]

theorem mem_allStates {a : Auto} {q : Nat} : q ∈ allStates a ↔ q = 0 ∨ q ∈ a.states := by
  simp [allStates, mem_normSet]

theorem stepC_mem_all (a : Auto) (p i : Nat) : stepC a p i ∈ allStates a := by
  by_cases h : stepC a p i = 0
  · exact mem_allStates.2 (.inl h)
  · obtain ⟨t, ht, _, _, h3⟩ := step_eq_some (stepC_ne_zero h).2
    exact mem_allStates.2 (.inr (mem_states.2 (.inr ⟨t, ht, .inr h3.symm⟩)))

def initParts (a : Auto) : List Block :=
  ([[0], normSet a.acc, diff (diff (allStates a) (normSet a.acc)) [0]] : List Block).filter (!·.isEmpty)

theorem mem_initParts {a : Auto} {B : Block} :
    B ∈ initParts a ↔ B ≠ [] ∧
      (B = [0] ∨ B = normSet a.acc ∨ B = diff (diff (allStates a) (normSet a.acc)) [0]) := by
  simp only [initParts, List.mem_filter, List.mem_cons, List.not_mem_nil, or_false,
    Bool.not_eq_eq_eq_not, Bool.not_true, List.isEmpty_eq_false_iff]
  exact And.comm

theorem initParts_PInv {a : Auto} (h0 : 0 ∉ a.acc) : PInv a (initParts a) := by
  have mA : ∀ x, x ∈ normSet a.acc ↔ x ∈ a.acc := fun x => mem_normSet
  have mN : ∀ x, x ∈ diff (diff (allStates a) (normSet a.acc)) [0] ↔
      x ∈ allStates a ∧ x ∉ a.acc ∧ x ≠ 0 := by
    intro x; simp only [mem_diff, mA, List.mem_singleton, and_assoc]
  refine ⟨?_, ?_, ?_, ?_⟩
  · intro x hx
    by_cases hx0 : x = 0
    · exact ⟨[0], mem_initParts.2 ⟨by simp, .inl rfl⟩, by simp [hx0]⟩
    · by_cases hxa : x ∈ a.acc
      · have hm : x ∈ normSet a.acc := (mA x).2 hxa
        exact ⟨_, mem_initParts.2 ⟨List.ne_nil_of_mem hm, .inr (.inl rfl)⟩, hm⟩
      · have hm := (mN x).2 ⟨hx, hxa, hx0⟩
        exact ⟨_, mem_initParts.2 ⟨List.ne_nil_of_mem hm, .inr (.inr rfl)⟩, hm⟩
  · intro B hB C hC x hxB hxC
    rcases (mem_initParts.1 hB).2 with rfl | rfl | rfl <;>
      rcases (mem_initParts.1 hC).2 with rfl | rfl | rfl
    · rfl
    · have : x = 0 := by simpa using hxB
      subst this; exact absurd ((mA 0).1 hxC) h0
    · have : x = 0 := by simpa using hxB
      exact absurd this ((mN x).1 hxC).2.2
    · have : x = 0 := by simpa using hxC
      subst this; exact absurd ((mA 0).1 hxB) h0
    · rfl
    · exact absurd ((mA x).1 hxB) ((mN x).1 hxC).2.1
    · have : x = 0 := by simpa using hxC
      exact absurd this ((mN x).1 hxB).2.2
    · exact absurd ((mA x).1 hxC) ((mN x).1 hxB).2.1
    · rfl
  · intro B hB p hp q hq
    rcases (mem_initParts.1 hB).2 with rfl | rfl | rfl
    · have e1 : p = 0 := by simpa using hp
      have e2 : q = 0 := by simpa using hq
      rw [e1, e2]
    · exact ⟨fun _ => (mA q).1 hq, fun _ => (mA p).1 hp⟩
    · exact ⟨fun h => absurd h ((mN p).1 hp).2.1, fun h => absurd h ((mN q).1 hq).2.1⟩
  · intro B hB hz x hx
    rcases (mem_initParts.1 hB).2 with rfl | rfl | rfl
    · simpa using hx
    · exact absurd ((mA 0).1 hz) h0
    · exact absurd rfl ((mN 0).1 hz).2.2

theorem initParts_WInv {a : Auto} {n : Nat} (h : PInv a (initParts a)) :
    WInv a (normSet (a.trans.map (·.1))) n (initParts a) (initParts a) ENone := by
  intro B _ p _ q _ i _
  have side : ∀ p q, stepC a p i ≠ 0 →
      SameBlock (initParts a) (stepC a p i) (stepC a q i) ∨
        ∃ X ∈ initParts a, Sep a (normSet (a.trans.map (·.1))) X i p q := by
    intro p q hne
    obtain ⟨X, hX, hpX⟩ := h.cover _ (stepC_mem_all a p i)
    by_cases hqX : stepC a q i ∈ X
    · exact .inl ⟨X, hX, hpX, hqX⟩
    · refine .inr ⟨X, hX, fun hiff => hqX ?_⟩
      exact (mem_preimage.1 (hiff.1 (mem_preimage.2 ⟨stepC_froms hne, hpX⟩))).2
  by_cases hp0 : stepC a p i = 0
  · by_cases hq0 : stepC a q i = 0
    · obtain ⟨X, hX, hpX⟩ := h.cover _ (stepC_mem_all a p i)
      exact .inl ⟨X, hX, hpX, by rw [hq0, ← hp0]; exact hpX⟩
    · rcases side q p hq0 with ⟨X, hX, h1, h2⟩ | ⟨X, hX, hsep⟩
      · exact .inl ⟨X, hX, h2, h1⟩
      · exact .inr (.inl ⟨X, hX, hsep.symm⟩)
  · rcases side p q hp0 with hs | hx
    · exact .inl hs
    · exact .inr (.inl hx)

/-- the partition is stable under every input `< n` -/
def StableN (a : Auto) (n : Nat) (P : List Block) : Prop :=
  ∀ B ∈ P, ∀ p ∈ B, ∀ q ∈ B, ∀ i, i < n → SameBlock P (stepC a p i) (stepC a q i)

theorem partition_inv {σ : Schedule} {a : Auto} {P : List Block} (h0 : 0 ∉ a.acc)
    (h : partition σ a = some P) : PInv a P ∧ StableN a a.inputs.length P := by
  unfold partition at h
  simp only [Option.map_eq_some_iff] at h
  obtain ⟨st', hr, rfl⟩ := h
  have hP := initParts_PInv h0
  have hI : Inv a (normSet (a.trans.map (·.1))) a.inputs.length ENone
      { parts := initParts a, work := initParts a } := ⟨hP, initParts_WInv hP⟩
  obtain ⟨hinv, hw⟩ := refineLoop_inv (fun p i => stepC_froms) _ _ _ _ hI hr
  refine ⟨hinv.1, ?_⟩
  intro B hB p hp q hq i hi
  rcases hinv.2 B hB p hp q hq i hi with hs | ⟨X, hX, _⟩ | hf
  · exact hs
  · rw [hw] at hX; simp at hX
  · exact hf.elim

/-! ### 4. Semantics: `Auto.accepts` and the completed automaton -/

/-- Well-formedness of the input automaton.
* `0` is not a state (it is the implicit dead state of the completion);
* at most one target per (state, input) — duplicated identical transitions are allowed;
* the input indices of the transitions are `< inputs.length` (the refinement only looks at these);
* every accepting state is reachable from the start (the renumbering sends a state that no
  longer occurs to `0`, the new number of the start state). -/
def WF (a : Auto) : Prop :=
  0 ∉ a.states ∧
  (∀ t1 ∈ a.trans, ∀ t2 ∈ a.trans, t1.1 = t2.1 → t1.2.1 = t2.2.1 → t1.2.2 = t2.2.2) ∧
  (∀ t ∈ a.trans, t.2.1 < a.inputs.length) ∧
  (∀ q ∈ a.acc, ∃ w, a.run a.start w = some q)

def accFrom (a : Auto) (q : Nat) (w : List Nat) : Bool :=
  match a.run q w with
  | some q' => a.acc.contains q'
  | none => false

theorem accepts_eq (a : Auto) (w : List Nat) : a.accepts w = accFrom a a.start w := rfl

theorem accFrom_nil (a : Auto) (q : Nat) : accFrom a q [] = a.acc.contains q := rfl

theorem accFrom_cons (a : Auto) (q i : Nat) (w : List Nat) :
    accFrom a q (i :: w) = match a.step q i with
      | some q' => accFrom a q' w
      | none => false := by
  unfold accFrom
  simp only [Auto.run]
  cases a.step q i <;> rfl

def runC (a : Auto) : Nat → List Nat → Nat
  | q, [] => q
  | q, i :: w => runC a (stepC a q i) w

def accC (a : Auto) (q : Nat) (w : List Nat) : Bool := a.acc.contains (runC a q w)

theorem accC_nil (a : Auto) (q : Nat) : accC a q [] = a.acc.contains q := rfl
theorem accC_cons (a : Auto) (q i : Nat) (w : List Nat) :
    accC a q (i :: w) = accC a (stepC a q i) w := rfl

theorem runC_dead (a : Auto) : ∀ w, runC a 0 w = 0
  | [] => rfl
  | i :: w => by rw [runC, stepC_zero]; exact runC_dead a w

theorem accC_dead {a : Auto} (h0 : 0 ∉ a.acc) (w : List Nat) : accC a 0 w = false := by
  unfold accC
  rw [runC_dead]
  simpa using h0

theorem run_mem {a : Auto} : ∀ (w : List Nat) (q q' : Nat), a.run q w = some q' →
    q' = q ∨ ∃ t ∈ a.trans, t.2.2 = q'
  | [], q, q', h => by simp only [Auto.run, Option.some.injEq] at h; exact .inl h.symm
  | i :: w, q, q', h => by
    simp only [Auto.run] at h
    cases hs : a.step q i with
    | none => simp [hs] at h
    | some q1 =>
      simp only [hs] at h
      rcases run_mem w q1 q' h with rfl | h'
      · obtain ⟨t, ht, _, _, h3⟩ := step_eq_some hs
        exact .inr ⟨t, ht, h3⟩
      · exact .inr h'

theorem stepC_of_step_none {a : Auto} {q i : Nat} (h : a.step q i = none) : stepC a q i = 0 := by
  unfold stepC; split <;> simp [h]

section WFfacts
variable {a : Auto} (hwf : WF a)
include hwf

theorem WF.src_ne_zero : ∀ t ∈ a.trans, t.1 ≠ 0 := by
  intro t ht h
  exact hwf.1 (mem_states.2 (.inr ⟨t, ht, .inl h.symm⟩))

theorem WF.tgt_ne_zero : ∀ t ∈ a.trans, t.2.2 ≠ 0 := by
  intro t ht h
  exact hwf.1 (mem_states.2 (.inr ⟨t, ht, .inr h.symm⟩))

theorem WF.acc_states : ∀ q ∈ a.acc, q ∈ a.states := by
  intro q hq
  obtain ⟨w, hw⟩ := hwf.2.2.2 q hq
  rcases run_mem w _ _ hw with rfl | ⟨t, ht, rfl⟩
  · exact mem_states.2 (.inl rfl)
  · exact mem_states.2 (.inr ⟨t, ht, .inr rfl⟩)

theorem WF.zero_not_acc : 0 ∉ a.acc := fun h => hwf.1 (hwf.acc_states 0 h)

theorem WF.stepC_of_step {q i q' : Nat} (h : a.step q i = some q') : stepC a q i = q' := by
  obtain ⟨t, ht, h1, _, _⟩ := step_eq_some h
  have : q ≠ 0 := h1 ▸ hwf.src_ne_zero t ht
  have : (q == 0) = false := by simpa using this
  simp [stepC, this, h]

theorem WF.accFrom_eq_accC : ∀ (w : List Nat) (q : Nat), accFrom a q w = accC a q w
  | [], q => rfl
  | i :: w, q => by
    rw [accFrom_cons, accC_cons]
    cases hs : a.step q i with
    | none =>
      simp only
      rw [stepC_of_step_none hs, accC_dead hwf.zero_not_acc]
    | some q' =>
      simp only
      rw [hwf.stepC_of_step hs]
      exact WF.accFrom_eq_accC w q'

theorem WF.stepC_big {p i : Nat} (hi : a.inputs.length ≤ i) : stepC a p i = 0 := by
  apply Classical.byContradiction
  intro h
  obtain ⟨t, ht, _, h2, _⟩ := step_eq_some (stepC_ne_zero h).2
  have := hwf.2.2.1 t ht
  omega

end WFfacts

/-- the partition is stable under every input -/
def Stable (a : Auto) (P : List Block) : Prop :=
  ∀ B ∈ P, ∀ p ∈ B, ∀ q ∈ B, ∀ i, SameBlock P (stepC a p i) (stepC a q i)

theorem stable_of_stableN {a : Auto} {P : List Block} (hwf : WF a) (hP : PInv a P)
    (h : StableN a a.inputs.length P) : Stable a P := by
  intro B hB p hp q hq i
  by_cases hi : i < a.inputs.length
  · exact h B hB p hp q hq i hi
  · have hi : a.inputs.length ≤ i := by omega
    rw [hwf.stepC_big hi, hwf.stepC_big hi]
    obtain ⟨X, hX, h0⟩ := hP.cover 0 (mem_allStates.2 (.inl rfl))
    exact ⟨X, hX, h0, h0⟩

/-- states of one block of a stable, acceptance-homogeneous partition accept the same words -/
theorem sameBlock_accC {a : Auto} {P : List Block} (hP : PInv a P) (hS : Stable a P) :
    ∀ (w : List Nat) (p q : Nat), SameBlock P p q → accC a p w = accC a q w
  | [], p, q, ⟨B, hB, hp, hq⟩ => by
    rw [accC_nil, accC_nil, Bool.eq_iff_iff]
    simpa using hP.hom B hB p hp q hq
  | i :: w, p, q, ⟨B, hB, hp, hq⟩ => by
    rw [accC_cons, accC_cons]
    exact sameBlock_accC hP hS w _ _ (hS B hB p hp q hq i)

/-! ### 5. Representatives and the quotient with its clean-up passes -/

theorem repOf_spec {a : Auto} {P : List Block} (hP : PInv a P) {B : Block} (hB : B ∈ P) {q : Nat}
    (hq : q ∈ B) : ∃ rest, B = repOf P q :: rest := by
  unfold repOf
  cases hf : P.find? (·.contains q) with
  | none =>
    rw [List.find?_eq_none] at hf
    exact absurd (by simpa using hq) (hf B hB)
  | some B' =>
    have h1 : B' ∈ P := List.mem_of_find?_eq_some hf
    have h2 : q ∈ B' := by simpa using List.find?_some hf
    have : B' = B := hP.disj B' h1 B hB q h2 hq
    subst this
    cases B' with
    | nil => simp at hq
    | cons r rest => exact ⟨rest, rfl⟩

section Quot
variable {a : Auto} {P : List Block} (hP : PInv a P)
include hP

theorem rep_mem {B : Block} (hB : B ∈ P) {q : Nat} (hq : q ∈ B) : repOf P q ∈ B := by
  obtain ⟨rest, h⟩ := repOf_spec hP hB hq
  rw [h]; simp

theorem rep_eq {p q : Nat} (h : SameBlock P p q) : repOf P p = repOf P q := by
  obtain ⟨B, hB, hp, hq⟩ := h
  obtain ⟨r1, h1⟩ := repOf_spec hP hB hp
  obtain ⟨r2, h2⟩ := repOf_spec hP hB hq
  have := h1.symm.trans h2
  exact (List.cons.inj this).1

theorem rep_same {q : Nat} (hq : q ∈ allStates a) : SameBlock P q (repOf P q) := by
  obtain ⟨B, hB, hqB⟩ := hP.cover q hq
  exact ⟨B, hB, hqB, rep_mem hP hB hqB⟩

theorem rep_idem {q : Nat} (hq : q ∈ allStates a) : repOf P (repOf P q) = repOf P q :=
  (rep_eq hP (rep_same hP hq)).symm

end Quot

def qStart (P : List Block) (a : Auto) : Nat := repOf P a.start
def qAcc1 (P : List Block) (a : Auto) : List Nat := normSet (a.acc.map (repOf P))
def qTrans1 (P : List Block) (a : Auto) : List (Nat × Nat × Nat) :=
  a.trans.map fun t => (t.1, t.2.1, repOf P t.2.2)
def qTargets (P : List Block) (a : Auto) : List Nat := normSet ((qTrans1 P a).map (·.2.2))
def qAcc2 (P : List Block) (a : Auto) : List Nat :=
  (qAcc1 P a).filter fun q => q == qStart P a || (qTargets P a).contains q
def qTrans2 (P : List Block) (a : Auto) : List (Nat × Nat × Nat) :=
  (qTrans1 P a).filter fun t =>
    t.1 == qStart P a || ((qTargets P a).contains t.1 && (qTargets P a).contains t.2.2)
def qSources (P : List Block) (a : Auto) : List Nat := normSet ((qTrans2 P a).map (·.1))
def qTrans3 (P : List Block) (a : Auto) : List (Nat × Nat × Nat) :=
  (qTrans2 P a).filter fun t => (qAcc2 P a).contains t.2.2 || (qSources P a).contains t.2.2

/-- the quotient automaton after the two clean-up passes, before renumbering -/
def quot (P : List Block) (a : Auto) : Auto :=
  { start := qStart P a, trans := qTrans3 P a, acc := qAcc2 P a, inputs := a.inputs }

def renum (b : Auto) : Auto :=
  let r := renumber b.start b.trans b.acc
  { start := r.1, trans := r.2.1, acc := r.2.2, inputs := b.inputs }

theorem minimize_eq (σ : Schedule) (a : Auto) :
    minimize σ a = (partition σ a).map fun P => renum (quot P a) := by
  unfold minimize
  cases partition σ a <;> rfl

/-- `r` is the start of the quotient or the target of a quotient transition -/
def QR (P : List Block) (a : Auto) (r : Nat) : Prop := r = qStart P a ∨ r ∈ qTargets P a

theorem mem_qTrans1 {P : List Block} {a : Auto} {t : Nat × Nat × Nat} :
    t ∈ qTrans1 P a ↔ ∃ s ∈ a.trans, t = (s.1, s.2.1, repOf P s.2.2) := by
  simp only [qTrans1, List.mem_map]
  constructor
  · rintro ⟨s, hs, rfl⟩; exact ⟨s, hs, rfl⟩
  · rintro ⟨s, hs, rfl⟩; exact ⟨s, hs, rfl⟩

theorem mem_qTargets {P : List Block} {a : Auto} {r : Nat} :
    r ∈ qTargets P a ↔ ∃ s ∈ a.trans, r = repOf P s.2.2 := by
  simp only [qTargets, mem_normSet, List.mem_map, mem_qTrans1]
  constructor
  · rintro ⟨t, ⟨s, hs, rfl⟩, rfl⟩; exact ⟨s, hs, rfl⟩
  · rintro ⟨s, hs, rfl⟩; exact ⟨_, ⟨s, hs, rfl⟩, rfl⟩

theorem mem_qTrans2 {P : List Block} {a : Auto} {t : Nat × Nat × Nat} :
    t ∈ qTrans2 P a ↔ t ∈ qTrans1 P a ∧ QR P a t.1 := by
  simp only [qTrans2, List.mem_filter, QR]
  constructor
  · rintro ⟨h1, h2⟩
    refine ⟨h1, ?_⟩
    simp only [Bool.or_eq_true, beq_iff_eq, Bool.and_eq_true, List.contains_iff_mem] at h2
    rcases h2 with h | ⟨h, _⟩
    · exact .inl h
    · exact .inr h
  · rintro ⟨h1, h2⟩
    refine ⟨h1, ?_⟩
    simp only [Bool.or_eq_true, beq_iff_eq, Bool.and_eq_true, List.contains_iff_mem]
    rcases h2 with h | h
    · exact .inl h
    · refine .inr ⟨h, ?_⟩
      obtain ⟨s, hs, rfl⟩ := mem_qTrans1.1 h1
      exact mem_qTargets.2 ⟨s, hs, rfl⟩

theorem mem_qAcc2 {P : List Block} {a : Auto} {r : Nat} :
    r ∈ qAcc2 P a ↔ r ∈ qAcc1 P a ∧ QR P a r := by
  simp only [qAcc2, List.mem_filter, QR, Bool.or_eq_true, beq_iff_eq, List.contains_iff_mem]

theorem mem_qAcc1 {P : List Block} {a : Auto} {r : Nat} :
    r ∈ qAcc1 P a ↔ ∃ q ∈ a.acc, repOf P q = r := by
  simp only [qAcc1, mem_normSet, List.mem_map]

theorem mem_qSources {P : List Block} {a : Auto} {r : Nat} :
    r ∈ qSources P a ↔ ∃ t ∈ qTrans2 P a, t.1 = r := by
  simp only [qSources, mem_normSet, List.mem_map]

theorem mem_qTrans3 {P : List Block} {a : Auto} {t : Nat × Nat × Nat} :
    t ∈ qTrans3 P a ↔ t ∈ qTrans2 P a ∧ (t.2.2 ∈ qAcc2 P a ∨ t.2.2 ∈ qSources P a) := by
  simp only [qTrans3, List.mem_filter, Bool.or_eq_true, List.contains_iff_mem]

theorem step_some_of {b : Auto} {q i q' : Nat} (hex : ∃ t ∈ b.trans, t.1 = q ∧ t.2.1 = i)
    (hall : ∀ t ∈ b.trans, t.1 = q → t.2.1 = i → t.2.2 = q') : b.step q i = some q' := by
  cases h : b.step q i with
  | none =>
    obtain ⟨t, ht, hc⟩ := hex
    exact absurd hc (step_eq_none h t ht)
  | some q'' =>
    obtain ⟨t, ht, h1, h2, h3⟩ := step_eq_some h
    rw [← h3, hall t ht h1 h2]

theorem step_none_of {b : Auto} {q i : Nat} (hall : ∀ t ∈ b.trans, ¬ (t.1 = q ∧ t.2.1 = i)) :
    b.step q i = none := by
  cases h : b.step q i with
  | none => rfl
  | some q'' =>
    obtain ⟨t, ht, h1, h2, _⟩ := step_eq_some h
    exact absurd ⟨h1, h2⟩ (hall t ht)

section QuotSim
variable {a : Auto} {P : List Block} (hwf : WF a) (hP : PInv a P) (hS : Stable a P)
include hwf hP

omit hwf hP in
theorem tgt_mem_all {t : Nat × Nat × Nat} (ht : t ∈ a.trans) : t.2.2 ∈ allStates a :=
  mem_allStates.2 (.inr (mem_states.2 (.inr ⟨t, ht, .inr rfl⟩)))

omit hwf hP in
theorem QR_rep {r : Nat} (h : QR P a r) : ∃ q ∈ allStates a, r = repOf P q := by
  rcases h with h | h
  · exact ⟨a.start, mem_allStates.2 (.inr (mem_states.2 (.inl rfl))), h⟩
  · obtain ⟨s, hs, h⟩ := mem_qTargets.1 h
    exact ⟨s.2.2, tgt_mem_all hs, h⟩

theorem QR_acc {r : Nat} (h : QR P a r) : r ∈ qAcc1 P a ↔ r ∈ a.acc := by
  obtain ⟨q0, hq0, hr⟩ := QR_rep h
  constructor
  · intro hm
    obtain ⟨q, hq, rfl⟩ := mem_qAcc1.1 hm
    have hqa : q ∈ allStates a := mem_allStates.2 (.inr (hwf.acc_states q hq))
    obtain ⟨B, hB, h1, h2⟩ := rep_same hP hqa
    exact (hP.hom B hB _ h1 _ h2).1 hq
  · intro hm
    refine mem_qAcc1.2 ⟨r, hm, ?_⟩
    rw [hr]; exact rep_idem hP hq0

include hS

omit hwf in
theorem accC_rep {q : Nat} (hq : q ∈ allStates a) (w : List Nat) :
    accC a (repOf P q) w = accC a q w :=
  (sameBlock_accC hP hS w _ _ (rep_same hP hq)).symm

/-- a transition of `a` out of a state of the quotient either survives, or leads to a state that
accepts nothing -/
theorem quot_step_some {r i q' : Nat} (hr : QR P a r) (hs : a.step r i = some q') :
    (quot P a).step r i = some (repOf P q') ∨
      ((quot P a).step r i = none ∧ ∀ w, accC a q' w = false) := by
  obtain ⟨s0, hs0, h1, h2, h3⟩ := step_eq_some hs
  have htgt : ∀ t ∈ qTrans3 P a, t.1 = r → t.2.1 = i → t.2.2 = repOf P q' := by
    intro t ht e1 e2
    obtain ⟨s, hsm, rfl⟩ := mem_qTrans1.1 (mem_qTrans2.1 (mem_qTrans3.1 ht).1).1
    simp only at e1 e2 ⊢
    rw [← h3, hwf.2.1 s hsm s0 hs0 (e1.trans h1.symm) (e2.trans h2.symm)]
  have ht0 : (r, i, repOf P q') ∈ qTrans2 P a :=
    mem_qTrans2.2 ⟨mem_qTrans1.2 ⟨s0, hs0, by rw [h1, h2, h3]⟩, hr⟩
  by_cases keep : repOf P q' ∈ qAcc2 P a ∨ repOf P q' ∈ qSources P a
  · left
    exact step_some_of (b := quot P a) ⟨_, mem_qTrans3.2 ⟨ht0, keep⟩, rfl, rfl⟩ htgt
  · right
    refine ⟨step_none_of (b := quot P a) ?_, ?_⟩
    · rintro t ht ⟨e1, e2⟩
      have := (mem_qTrans3.1 ht).2
      rw [htgt t ht e1 e2] at this
      exact keep this
    · have hq'a : q' ∈ allStates a := h3 ▸ tgt_mem_all hs0
      have hRs : QR P a (repOf P q') := .inr (mem_qTargets.2 ⟨s0, hs0, by rw [h3]⟩)
      have hna : repOf P q' ∉ a.acc := by
        intro hm
        exact keep (.inl (mem_qAcc2.2 ⟨(QR_acc hwf hP hRs).2 hm, hRs⟩))
      have hdead : ∀ j, stepC a (repOf P q') j = 0 := by
        intro j
        apply Classical.byContradiction
        intro hne
        obtain ⟨s, hsm, e1, _, _⟩ := step_eq_some (stepC_ne_zero hne).2
        apply keep
        right
        exact mem_qSources.2 ⟨_, mem_qTrans2.2 ⟨mem_qTrans1.2 ⟨s, hsm, rfl⟩, e1 ▸ hRs⟩, e1⟩
      intro w
      rw [← accC_rep hP hS hq'a]
      cases w with
      | nil => rw [accC_nil]; simpa using hna
      | cons j w => rw [accC_cons, hdead, accC_dead hwf.zero_not_acc]

omit hwf hP hS in
theorem quot_step_none {r i : Nat} (hs : a.step r i = none) : (quot P a).step r i = none := by
  apply step_none_of
  rintro t ht ⟨e1, e2⟩
  obtain ⟨s, hsm, rfl⟩ := mem_qTrans1.1 (mem_qTrans2.1 (mem_qTrans3.1 ht).1).1
  exact step_eq_none hs s hsm ⟨e1, e2⟩

theorem quot_accFrom : ∀ (w : List Nat) (r : Nat), QR P a r →
    accFrom (quot P a) r w = accC a r w
  | [], r, hr => by
    rw [accFrom_nil, accC_nil, Bool.eq_iff_iff]
    simp only [List.contains_iff_mem]
    show r ∈ qAcc2 P a ↔ _
    rw [mem_qAcc2, QR_acc hwf hP hr]
    exact ⟨fun h => h.1, fun h => ⟨h, hr⟩⟩
  | i :: w, r, hr => by
    rw [accFrom_cons, accC_cons]
    cases hs : a.step r i with
    | none =>
      rw [quot_step_none hs, stepC_of_step_none hs, accC_dead hwf.zero_not_acc]
    | some q' =>
      rw [hwf.stepC_of_step hs]
      obtain ⟨s0, hs0, _, _, h3⟩ := step_eq_some hs
      rcases quot_step_some hwf hP hS hr hs with h | ⟨h, hd⟩
      · rw [h]
        simp only
        rw [quot_accFrom w _ (.inr (mem_qTargets.2 ⟨s0, hs0, by rw [h3]⟩))]
        exact accC_rep hP hS (h3 ▸ tgt_mem_all hs0) w
      · rw [h, hd]

theorem quot_accepts (w : List Nat) : (quot P a).accepts w = a.accepts w := by
  rw [accepts_eq, accepts_eq, hwf.accFrom_eq_accC]
  show accFrom (quot P a) (qStart P a) w = _
  rw [quot_accFrom hwf hP hS w _ (.inl rfl)]
  exact accC_rep hP hS (mem_allStates.2 (.inr (mem_states.2 (.inl rfl)))) w

end QuotSim

/-! ### 6. Renumbering -/

theorem find?_congr' {α} {p q : α → Bool} : ∀ {l : List α}, (∀ x ∈ l, p x = q x) →
    l.find? p = l.find? q
  | [], _ => rfl
  | x :: xs, h => by
    have hx := h x (by simp)
    have ih := find?_congr' (l := xs) (fun y hy => h y (List.mem_cons_of_mem _ hy))
    simp only [List.find?_cons, hx, ih]

theorem idxOf?_spec : ∀ (l : List Nat) (x : Nat), x ∈ l →
    ∃ k, List.idxOf? x l = some k ∧ l[k]? = some x
  | [], _, h => by simp at h
  | z :: zs, x, h => by
    rw [List.idxOf?_cons]
    by_cases hz : z = x
    · subst hz; exact ⟨0, by simp, by simp⟩
    · have hx : x ∈ zs := by
        rcases List.mem_cons.1 h with h | h
        · exact absurd h.symm hz
        · exact h
      obtain ⟨k, h1, h2⟩ := idxOf?_spec zs x hx
      refine ⟨k + 1, ?_, by simpa using h2⟩
      have : (z == x) = false := by simpa using hz
      simp [this, h1]

theorem idx_inj (l : List Nat) {x y : Nat} (hx : x ∈ l) (hy : y ∈ l)
    (h : (List.idxOf? x l).getD 0 = (List.idxOf? y l).getD 0) : x = y := by
  obtain ⟨k1, h1, g1⟩ := idxOf?_spec l x hx
  obtain ⟨k2, h2, g2⟩ := idxOf?_spec l y hy
  rw [h1, h2] at h
  simp only [Option.getD_some] at h
  subst h
  rw [g1] at g2
  exact Option.some.inj g2

section Rename
variable {b b' : Auto} {f : Nat → Nat} {S : Nat → Prop}
  (hinj : ∀ x y, S x → S y → f x = f y → x = y)
  (hsrc : ∀ t ∈ b.trans, S t.1) (htgt : ∀ t ∈ b.trans, S t.2.2) (hacc : ∀ q ∈ b.acc, S q)
  (htr : b'.trans = b.trans.map fun t => (f t.1, t.2.1, f t.2.2))
  (hac : ∀ x, x ∈ b'.acc ↔ x ∈ b.acc.map f)
include hinj hsrc htr

theorem rename_step {q : Nat} (hq : S q) (i : Nat) : b'.step (f q) i = (b.step q i).map f := by
  unfold Auto.step
  rw [htr, List.find?_map, Option.map_map, Option.map_map]
  have : b.trans.find? ((fun t => t.1 == f q && t.2.1 == i) ∘ fun t => (f t.1, t.2.1, f t.2.2)) =
      b.trans.find? (fun t => t.1 == q && t.2.1 == i) := by
    apply find?_congr'
    intro t ht
    simp only [Function.comp]
    by_cases e : t.1 = q
    · simp [e]
    · have : f t.1 ≠ f q := fun h => e (hinj _ _ (hsrc t ht) hq h)
      have e1 : (t.1 == q) = false := beq_false_of_ne e
      have e2 : (f t.1 == f q) = false := beq_false_of_ne this
      rw [e1, e2]
  rw [this]
  rfl

include htgt hacc hac

theorem rename_accFrom : ∀ (w : List Nat) (q : Nat), S q → accFrom b' (f q) w = accFrom b q w
  | [], q, hq => by
    rw [accFrom_nil, accFrom_nil, Bool.eq_iff_iff]
    simp only [List.contains_iff_mem, hac, List.mem_map]
    constructor
    · rintro ⟨x, hx, e⟩
      rw [← hinj _ _ (hacc x hx) hq e]; exact hx
    · intro h; exact ⟨q, h, rfl⟩
  | i :: w, q, hq => by
    rw [accFrom_cons, accFrom_cons, rename_step hinj hsrc htr hq]
    cases hs : b.step q i with
    | none => rfl
    | some q' =>
      obtain ⟨t, ht, _, _, h3⟩ := step_eq_some hs
      simp only [Option.map_some]
      exact rename_accFrom w q' (h3 ▸ htgt t ht)

end Rename

theorem renum_accepts (b : Auto) (hacc : ∀ q ∈ b.acc, q ∈ b.states) (w : List Nat) :
    (renum b).accepts w = b.accepts w := by
  rw [accepts_eq, accepts_eq]
  exact rename_accFrom (b := b) (b' := renum b) (S := fun q => q ∈ b.states)
    (f := fun q => (List.idxOf? q b.states).getD 0)
    (fun x y hx hy h => idx_inj _ hx hy h)
    (fun t ht => mem_states.2 (.inr ⟨t, ht, .inl rfl⟩))
    (fun t ht => mem_states.2 (.inr ⟨t, ht, .inr rfl⟩))
    hacc rfl (fun x => mem_normSet) w b.start (mem_states.2 (.inl rfl))

/-! ### 7. Accepting states of the quotient still occur in it; the main theorem -/

section Reach
variable {a : Auto} {P : List Block} (hwf : WF a) (hP : PInv a P) (hS : Stable a P)
include hwf hP hS

/-- `r` is the start of the quotient or the target of a transition kept by the first pass -/
theorem reach_rep : ∀ (w : List Nat) (p q : Nat), p ∈ allStates a →
    (repOf P p = qStart P a ∨ ∃ t ∈ qTrans2 P a, t.2.2 = repOf P p) → a.run p w = some q →
    (repOf P q = qStart P a ∨ ∃ t ∈ qTrans2 P a, t.2.2 = repOf P q)
  | [], p, q, _, hR, h => by
    simp only [Auto.run, Option.some.injEq] at h
    subst h; exact hR
  | i :: w, p, q, hpa, hR, h => by
    simp only [Auto.run] at h
    cases hs : a.step p i with
    | none => simp [hs] at h
    | some p' =>
      simp only [hs] at h
      obtain ⟨s0, hs0, _, _, h3⟩ := step_eq_some hs
      have hp'a : p' ∈ allStates a := h3 ▸ tgt_mem_all hs0
      refine reach_rep w p' q hp'a (.inr ?_) h
      -- the representative of `p` has a matching transition
      have hQR : QR P a (repOf P p) := by
        rcases hR with h | ⟨t, ht, e⟩
        · exact .inl h
        · obtain ⟨s, hsm, rfl⟩ := mem_qTrans1.1 (mem_qTrans2.1 ht).1
          exact .inr (mem_qTargets.2 ⟨s, hsm, e.symm⟩)
      obtain ⟨B, hB, h1, h2⟩ := rep_same hP hpa
      obtain ⟨C, hC, c1, c2⟩ := hS B hB _ h1 _ h2 i
      rw [hwf.stepC_of_step hs] at c1
      have hp'0 : p' ≠ 0 := h3 ▸ hwf.tgt_ne_zero s0 hs0
      have hne : stepC a (repOf P p) i ≠ 0 := by
        intro e
        rw [e] at c2
        exact hp'0 (hP.zero C hC c2 p' c1)
      obtain ⟨s, hsm, e1, e2, e3⟩ := step_eq_some (stepC_ne_zero hne).2
      refine ⟨(s.1, s.2.1, repOf P s.2.2), mem_qTrans2.2 ⟨mem_qTrans1.2 ⟨s, hsm, rfl⟩, e1 ▸ hQR⟩, ?_⟩
      simp only
      rw [e3]
      exact (rep_eq hP ⟨C, hC, c1, c2⟩).symm

theorem quot_acc_states : ∀ r ∈ (quot P a).acc, r ∈ (quot P a).states := by
  intro r hr
  have hr : r ∈ qAcc2 P a := hr
  obtain ⟨q, hq, rfl⟩ := mem_qAcc1.1 (mem_qAcc2.1 hr).1
  obtain ⟨w, hw⟩ := hwf.2.2.2 q hq
  rcases reach_rep hwf hP hS w a.start q
      (mem_allStates.2 (.inr (mem_states.2 (.inl rfl)))) (.inl rfl) hw with h | ⟨t, ht, e⟩
  · exact mem_states.2 (.inl h)
  · refine mem_states.2 (.inr ⟨t, ?_, .inr e.symm⟩)
    exact mem_qTrans3.2 ⟨ht, .inl (e ▸ hr)⟩

end Reach

/-- **Minimisation preserves the language, for every schedule.**  Words that use an input index
`≥ a.inputs.length` are rejected by both automata (no transition carries such an index). -/
theorem minimize_lang (σ : Schedule) (a m : Auto) (hwf : WF a) (h : minimize σ a = some m) :
    ∀ w : List Nat, m.accepts w = a.accepts w := by
  rw [minimize_eq, Option.map_eq_some_iff] at h
  obtain ⟨P, hpart, rfl⟩ := h
  obtain ⟨hP, hSn⟩ := partition_inv hwf.zero_not_acc hpart
  have hS := stable_of_stableN hwf hP hSn
  intro w
  rw [renum_accepts _ (quot_acc_states hwf hP hS), quot_accepts hwf hP hS]

/-- the partition computed by `partition` is a stable, acceptance-homogeneous partition of the
completed automaton (for every schedule) -/
theorem partition_stable (σ : Schedule) (a : Auto) (P : List Block) (hwf : WF a)
    (h : partition σ a = some P) : PInv a P ∧ Stable a P := by
  obtain ⟨hP, hSn⟩ := partition_inv hwf.zero_not_acc h
  exact ⟨hP, stable_of_stableN hwf hP hSn⟩

/-- `WF` is not vacuous: a 3-state automaton for `x y* | x z` -like shape -/
def exAuto : Auto :=
  { start := 1, trans := [(1, 0, 2), (2, 1, 2), (2, 0, 3), (1, 1, 3)], acc := [2, 3],
    inputs := [.star, .star] }

example : WF exAuto := by
  refine ⟨by decide, by decide, by decide, ?_⟩
  intro q hq
  have : q = 2 ∨ q = 3 := by simpa [exAuto] using hq
  rcases this with rfl | rfl
  · exact ⟨[0], rfl⟩
  · exact ⟨[1], rfl⟩

example : (minimize fifo exAuto).isSome = true := by decide

end Complgen.Min
