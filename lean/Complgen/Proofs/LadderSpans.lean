/-
C13 / C05 (operator ladder, with positions): in the tree the expression ladder of `Model/Parse.lean`
returns for a printed normal-form expression, EVERY SPAN POINTS AT ITS CONSTRUCT: the span of every
node is `fromRange b a` where `b` is the state reached by consuming exactly the text printed before the
first character of the node's own text and `a` the state after the last character of that text
(`fallback_spans`, a strengthening of `fallback_roundtrip` of `Proofs/Ladder.lean`).

`Placed ctx s e e'` — the parsed tree `e'` is laid out at state `s` according to the text `pp ctx e` —
is defined by recursion on `e` following the printer.  `PTs`/`LTs` are the statements `PT`/`LT` of
`Ladder.lean` with the erased tree replaced by a relation between the start state and the returned
tree; the atom, lifting, group and loop lemmas and the simultaneous induction are redone for them.
-/
import Complgen.Proofs.Ladder
import Complgen.Proofs.Position
namespace Complgen.Parse
open Complgen

/-! ### the layout relation -/

/-- the state after an opening parenthesis, when one was printed -/
def skipParen (b : Bool) (s : PState) : PState := if b then s.adv 1 else s

mutual
/-- `Placed ctx s e e'`: the tree `e'` is the tree `e` with, at every node, the span of the text the
printer `pp ctx e` wrote for that node when the text of `e` starts at state `s`.
A parenthesis printed around a list operator or a postfix `...` is not part of the node
(`parenthesized_expr` returns the inner expression unchanged). -/
def Placed : Nat → PState → Expr → Expr → Prop
  | _, s, .term t d l _, e' => e' = .term t d l (fromRange s (s.adv t.toList.length))
  | _, s, .nonterm n l _, e' => e' = .nonterm n l (fromRange s (s.adv (n.toList.length + 2)))
  | _, s, .cmd c a l _, e' => e' = .cmd c a l (fromRange s (s.adv (cmdText c.toList).length))
  | ctx, s, .seq cs _, e' =>
    ∃ cs', e' = .seq cs' (fromRange (skipParen (decide (3 ≤ ctx)) s)
        ((skipParen (decide (3 ≤ ctx)) s).adv (ppList 3 sepS cs).length)) ∧
      PlacedL 3 sepS (skipParen (decide (3 ≤ ctx)) s) cs cs'
  | ctx, s, .alt cs _, e' =>
    ∃ cs', e' = .alt cs' (fromRange (skipParen (decide (2 ≤ ctx)) s)
        ((skipParen (decide (2 ≤ ctx)) s).adv (ppList 2 sepA cs).length)) ∧
      PlacedL 2 sepA (skipParen (decide (2 ≤ ctx)) s) cs cs'
  | ctx, s, .fb cs _, e' =>
    ∃ cs', e' = .fb cs' (fromRange (skipParen (decide (1 ≤ ctx)) s)
        ((skipParen (decide (1 ≤ ctx)) s).adv (ppList 1 sepF cs).length)) ∧
      PlacedL 1 sepF (skipParen (decide (1 ≤ ctx)) s) cs cs'
  | _, s, .opt c _, e' =>
    ∃ c', e' = .opt c' (fromRange s (s.adv ((pp 0 c).length + 2))) ∧ Placed 0 (s.adv 1) c c'
  | ctx, s, .many1 c _, e' =>
    ∃ c', e' = .many1 c' (fromRange (skipParen (decide (4 ≤ ctx)) s)
        ((skipParen (decide (4 ≤ ctx)) s).adv ((pp 4 c).length + 3))) ∧
      Placed 4 (skipParen (decide (4 ≤ ctx)) s) c c'
  | _, _, .dd _ _ _, _ => False
  | _, _, .sub _ _ _, _ => False
/-- the children of a list operator: the first at `s`, the others after it -/
def PlacedL : Nat → List Char → PState → ExprL → ExprL → Prop
  | _, _, _, .nil, es' => es' = .nil
  | ctx, sep, s, .cons e es, es' =>
    ∃ e' r', es' = .cons e' r' ∧ Placed ctx s e e' ∧ PlacedTail ctx sep (s.adv (pp ctx e).length) es r'
/-- the children after the first: each after a separator -/
def PlacedTail : Nat → List Char → PState → ExprL → ExprL → Prop
  | _, _, _, .nil, es' => es' = .nil
  | ctx, sep, s, .cons e es, es' =>
    ∃ e' r', es' = .cons e' r' ∧ Placed ctx (s.adv sep.length) e e' ∧
      PlacedTail ctx sep ((s.adv sep.length).adv (pp ctx e).length) es r'
end

/-! ### the statements, with the start state -/

/-- the parser `L`, given at least `n` fuel, reads the text `T` followed by any continuation of class
`C`, consuming exactly `T`, and the tree `e'` it returns from the state `s` satisfies `R s e'` -/
def PTs (L : Nat → PState → Option (PState × Expr)) (C : List Char → Prop) (n : Nat) (T : List Char)
    (R : PState → Expr → Prop) : Prop :=
  ∀ rest, C rest → ∀ s : PState, s.rest = T ++ rest → ∀ f, n ≤ f →
    ∃ e', L f s = some (s.adv T.length, e') ∧ R s e'

/-- the same for a loop: the items it appends to the accumulator, read from `s`, satisfy `R s` -/
def LTs (L : Nat → PState → List Expr → PState × List Expr) (C : List Char → Prop) (n : Nat)
    (T : List Char) (R : PState → ExprL → Prop) : Prop :=
  ∀ rest, C rest → ∀ s : PState, s.rest = T ++ rest → ∀ (acc : List Expr) (f : Nat), n ≤ f →
    ∃ es', L f s acc = (s.adv T.length, acc ++ es') ∧ R s (ExprL.ofList es')

theorem PTs.mono {L : Nat → PState → Option (PState × Expr)} {C : List Char → Prop} {n m : Nat}
    {T : List Char} {R : PState → Expr → Prop} (h : PTs L C n T R) (hnm : n ≤ m) : PTs L C m T R :=
  fun rest hr s hs f hf => h rest hr s hs f (Nat.le_trans hnm hf)

theorem LTs.mono {L : Nat → PState → List Expr → PState × List Expr} {C : List Char → Prop} {n m : Nat}
    {T : List Char} {R : PState → ExprL → Prop} (h : LTs L C n T R) (hnm : n ≤ m) : LTs L C m T R :=
  fun rest hr s hs acc f hf => h rest hr s hs acc f (Nat.le_trans hnm hf)

theorem PTs.imp {L : Nat → PState → Option (PState × Expr)} {C : List Char → Prop} {n : Nat}
    {T : List Char} {R R' : PState → Expr → Prop} (h : PTs L C n T R)
    (hR : ∀ s e', R s e' → R' s e') : PTs L C n T R' := by
  intro rest hr s hs f hf
  obtain ⟨e', he, hE⟩ := h rest hr s hs f hf
  exact ⟨e', he, hR _ _ hE⟩

theorem LTs.imp {L : Nat → PState → List Expr → PState × List Expr} {C : List Char → Prop} {n : Nat}
    {T : List Char} {R R' : PState → ExprL → Prop} (h : LTs L C n T R)
    (hR : ∀ s es', R s es' → R' s es') : LTs L C n T R' := by
  intro rest hr s hs acc f hf
  obtain ⟨es', he, hE⟩ := h rest hr s hs acc f hf
  exact ⟨es', he, hR _ _ hE⟩

theorem PTs.text {L : Nat → PState → Option (PState × Expr)} {C : List Char → Prop} {n : Nat}
    {T T' : List Char} {R : PState → Expr → Prop} (h : PTs L C n T R) (hT : T = T') : PTs L C n T' R :=
  hT ▸ h

theorem LTs.text {L : Nat → PState → List Expr → PState × List Expr} {C : List Char → Prop} {n : Nat}
    {T T' : List Char} {R : PState → ExprL → Prop} (h : LTs L C n T R) (hT : T = T') : LTs L C n T' R :=
  hT ▸ h

/-! ### atoms -/

theorem nonterm_ok_span (n rest : List Char) (s : PState) (hn : n ≠ []) (hgt : ∀ c ∈ n, c ≠ '>')
    (hs : s.rest = '<' :: n ++ '>' :: rest) :
    nonterm s = some (s.adv (n.length + 2), String.ofList n, fromRange s (s.adv (n.length + 2))) := by
  have h1 := char?_some '<' s _ hs
  have hr1 : (s.adv 1).rest = n ++ '>' :: rest := by rw [adv_rest', hs]; rfl
  have hrun : (s.adv 1).rest.takeWhile (fun c => !['>'].contains c) = n := by
    rw [hr1]
    exact takeWhile_run _ n _ (by simpa using hgt) (.inr ⟨'>', rest, rfl, by simp⟩)
  have h2 : isNot ['>'] (s.adv 1) = some ((s.adv 1).adv n.length, n) := by
    unfold isNot
    simp only [hrun]
    cases n with
    | nil => exact absurd rfl hn
    | cons _ _ => simp
  have hr2 : ((s.adv 1).adv n.length).rest = '>' :: rest := adv_rest_append _ _ _ hr1
  have h3 := char?_some '>' _ _ hr2
  unfold nonterm
  simp only [h1, h2, h3, Option.bind_eq_bind, Option.bind_some]
  rw [adv_add', adv_add']
  rw [show 1 + (n.length + 1) = n.length + 2 by omega]

theorem nonterm_PTs (n : List Char) (hn : n ≠ []) (hgt : ∀ c ∈ n, c ≠ '>') :
    PTs baseP BCont 0 ('<' :: n ++ ['>'])
      (fun s e' => e' = .nonterm (String.ofList n) 0 (fromRange s (s.adv (n.length + 2)))) := by
  intro rest _ s hs f _
  have h := nonterm_ok_span n rest s hn hgt (by simpa using hs)
  refine ⟨.nonterm (String.ofList n) 0 (fromRange s (s.adv (n.length + 2))), ?_, rfl⟩
  unfold baseP
  rw [h]
  simp

theorem cmd_PTs (c : List Char) (h1 : ∀ x, c.head? = some x → isWs x = false)
    (h2 : ∀ x, c.getLast? = some x → isWs x = false) (h3 : noTriple c = true) :
    PTs baseP BCont 0 (cmdText c)
      (fun s e' => e' = .cmd (String.ofList c) false 0 (fromRange s (s.adv (cmdText c).length))) := by
  intro rest _ s hs f _
  have hs' : s.rest = '{' :: '{' :: '{' :: ' ' :: c ++ ' ' :: '}' :: '}' :: '}' :: rest := by
    rw [hs]; simp [cmdText]
  have h := cmd_ok c rest s h1 h2 h3 hs'
  have hne : ∀ x, x ≠ '{' → ∀ r, s.rest ≠ x :: r := by
    intro x hx r e; rw [hs'] at e; cases e; exact hx rfl
  have hlen : (cmdText c).length = c.length + 8 := by simp [cmdText]
  refine ⟨.cmd (String.ofList c) false 0 (fromRange s (s.adv (cmdText c).length)), ?_, rfl⟩
  unfold baseP
  rw [nonterm_none s (hne _ (by decide)), optional_none f s (hne _ (by decide)),
    parenthesized_none f s (hne _ (by decide)), h, hlen]

theorem lit_PTs (t : List Char) (ht : t ≠ []) (hreg : ∀ c ∈ t, isRegular c = true) :
    PTs baseP BCont 0 t
      (fun s e' => e' = .term (String.ofList t) none 0 (fromRange s (s.adv t.length))) := by
  intro rest hrest s hs f _
  have hterm : terminal s = some (s.adv t.length, String.ofList t) := by
    rw [terminal_eq_dec, hs, dec'_regular_run t rest hreg, hrest.1]
    have : t.isEmpty = false := by cases t with | nil => exact absurd rfl ht | cons _ _ => rfl
    simp [this]
  have hod : optDescription (s.adv t.length) = (s.adv t.length, none) :=
    optDescription_none _ (by rw [adv_rest_append s t rest hs]; exact hrest.2)
  obtain ⟨x, t', rfl⟩ : ∃ x t', t = x :: t' := by
    cases t with | nil => exact absurd rfl ht | cons x t' => exact ⟨x, t', rfl⟩
  have hx : isRegular x = true := hreg x (by simp)
  have hne : ∀ y, isRegular y = false → ∀ r, s.rest ≠ y :: r := by
    intro y hy r e; rw [hs] at e; cases e; exact regular_ne hx _ hy rfl
  refine ⟨.term (String.ofList (x :: t')) none 0 (fromRange s (s.adv (x :: t').length)), ?_, rfl⟩
  unfold baseP
  rw [nonterm_none s (hne _ (by decide)), optional_none f s (hne _ (by decide)),
    parenthesized_none f s (hne _ (by decide)), triple_none s (hne _ (by decide)), hterm]
  simp only [hod]

/-! ### from one level of the ladder to the next -/

theorem lift_B_Us {n : Nat} {T : List Char} {R : PState → Expr → Prop} (h : PTs baseP BCont n T R) :
    PTs unary UCont (n + 1) T R := by
  intro rest hrest s hs f hf
  obtain ⟨f, rfl⟩ : ∃ f', f = f' + 1 := ⟨f - 1, by omega⟩
  obtain ⟨e', he, hE⟩ := h rest hrest.b s hs f (by omega)
  refine ⟨e', ?_, hE⟩
  rw [unary_succ, he]
  simp only
  rw [many1Tag_none _ (by
    rw [adv_rest_append s T rest hs]
    intro c r e; exact (hrest.2 c r e).1)]

/-- a base expression followed by `...`: the node starts where the base expression starts -/
theorem lift_B_many1s {n : Nat} {T : List Char} {R : PState → Expr → Prop} (h : PTs baseP BCont n T R) :
    PTs unary UCont (n + 1) (T ++ ['.', '.', '.'])
      (fun s e' => ∃ c', e' = .many1 c' (fromRange s (s.adv (T.length + 3))) ∧ R s c') := by
  intro rest hrest s hs f hf
  obtain ⟨f, rfl⟩ : ∃ f', f = f' + 1 := ⟨f - 1, by omega⟩
  have hs' : s.rest = T ++ '.' :: '.' :: '.' :: rest := by rw [hs]; simp
  obtain ⟨e', he, hE⟩ := h _ (dots_BCont rest) s hs' f (by omega)
  refine ⟨.many1 e' (fromRange s (s.adv (T.length + 3))), ?_, e', rfl, hE⟩
  rw [unary_succ, he]
  simp only
  rw [many1Tag_some _ rest (adv_rest_append s T _ hs'), adv_add']
  simp

theorem lift_U_Ds {n : Nat} {T : List Char} {R : PState → Expr → Prop} (h : PTs unary UCont n T R) :
    PTs sseod UCont (n + 2) T R := by
  intro rest hrest s hs f hf
  obtain ⟨f, rfl⟩ : ∃ f', f = f' + 2 := ⟨f - 2, by omega⟩
  obtain ⟨e', he, hE⟩ := h rest hrest s hs f (by omega)
  have hr := adv_rest_append s T rest hs
  refine ⟨e', ?_, hE⟩
  rw [sseod_succ, subwordSeq_succ, he]
  simp only
  rw [subwordLoop_stop f _ _ (by rw [hr]; exact hrest.1)]
  simp only
  rw [optDescription_none _ (by rw [hr]; intro r e; exact (hrest.2 _ _ e).2 rfl)]

theorem lift_D_Ss {n : Nat} {T : List Char} {R : PState → Expr → Prop} (h : PTs sseod UCont n T R) :
    PTs sequence SCont (n + 1) T R := by
  intro rest hrest s hs f hf
  obtain ⟨f, rfl⟩ : ∃ f', f = f' + 1 := ⟨f - 1, by omega⟩
  obtain ⟨e', he, hE⟩ := h rest hrest.u s hs f (by omega)
  have hr := adv_rest_append s T rest hs
  refine ⟨e', ?_, hE⟩
  rw [sequence_succ, he]
  simp only
  rw [sequenceLoop_stop f _ _ (by rw [hr]; exact hrest.2)]

theorem lift_S_As {n : Nat} {T : List Char} {R : PState → Expr → Prop} (h : PTs sequence SCont n T R) :
    PTs alternative ACont (n + 1) T R := by
  intro rest hrest s hs f hf
  obtain ⟨f, rfl⟩ : ∃ f', f = f' + 1 := ⟨f - 1, by omega⟩
  obtain ⟨e', he, hE⟩ := h rest hrest.s s hs f (by omega)
  have hr := adv_rest_append s T rest hs
  refine ⟨e', ?_, hE⟩
  rw [alternative_succ, he]
  simp only
  rw [alternativeLoop_stop f _ _ (by rw [hr]; exact hrest)]

theorem lift_A_Fs {n : Nat} {T : List Char} {R : PState → Expr → Prop} (h : PTs alternative ACont n T R) :
    PTs fallback FCont (n + 1) T R := by
  intro rest hrest s hs f hf
  obtain ⟨f, rfl⟩ : ∃ f', f = f' + 1 := ⟨f - 1, by omega⟩
  obtain ⟨e', he, hE⟩ := h rest hrest.a s hs f (by omega)
  have hr := adv_rest_append s T rest hs
  refine ⟨e', ?_, hE⟩
  rw [fallback_succ, he]
  simp only
  rw [fallbackLoop_stop f _ _ (by rw [hr]; exact hrest)]

/-! ### groups -/

/-- the relation `R` one character later (after an opening parenthesis or bracket) -/
def shift (R : PState → Expr → Prop) : PState → Expr → Prop := fun s e' => R (s.adv 1) e'

/-- `( T )` returns the tree of `T` unchanged: its spans are those of the text after the `(` -/
theorem paren_PTs {n : Nat} {T : List Char} {R : PState → Expr → Prop} (hT : StarterHead T)
    (h : PTs fallback FCont n T R) : PTs baseP BCont (n + 1) ('(' :: T ++ [')']) (shift R) := by
  intro rest _ s hs f hf
  obtain ⟨f, rfl⟩ : ∃ f', f = f' + 1 := ⟨f - 1, by omega⟩
  have hs' : s.rest = '(' :: T ++ ')' :: rest := by rw [hs]; simp
  have hne : ∀ x, x ≠ '(' → ∀ r, s.rest ≠ x :: r := by
    intro x hx r e; rw [hs'] at e; cases e; exact hx rfl
  have hr1 : (s.adv 1).rest = T ++ ')' :: rest := by rw [adv_rest', hs']; rfl
  obtain ⟨e', he, hE⟩ := h (')' :: rest) (FCont_close _ _ (by decide) (by decide) (by decide))
    (s.adv 1) hr1 f (by omega)
  have hr2 : ((s.adv 1).adv T.length).rest = ')' :: rest := adv_rest_append _ _ _ hr1
  refine ⟨e', ?_, hE⟩
  unfold baseP
  rw [nonterm_none s (hne _ (by decide)), optional_none _ s (hne _ (by decide)), parenthesized_succ,
    char?_some '(' s _ hs']
  simp only
  rw [mb0_starter _ T _ hT hr1, he]
  simp only
  rw [mb0_notBlank _ _ _ hr2 (by decide), char?_some ')' _ _ hr2]
  simp only [adv_add']
  rw [show ('(' :: T ++ [')']).length = 1 + T.length + 1 by simp; omega]

/-- `[ T ]`: the node spans the brackets, the child is laid out after the `[` -/
theorem bracket_PTs {n : Nat} {T : List Char} {R : PState → Expr → Prop} (hT : StarterHead T)
    (h : PTs fallback FCont n T R) :
    PTs baseP BCont (n + 1) ('[' :: T ++ [']'])
      (fun s e' => ∃ c', e' = .opt c' (fromRange s (s.adv (T.length + 2))) ∧ R (s.adv 1) c') := by
  intro rest _ s hs f hf
  obtain ⟨f, rfl⟩ : ∃ f', f = f' + 1 := ⟨f - 1, by omega⟩
  have hs' : s.rest = '[' :: T ++ ']' :: rest := by rw [hs]; simp
  have hne : ∀ x, x ≠ '[' → ∀ r, s.rest ≠ x :: r := by
    intro x hx r e; rw [hs'] at e; cases e; exact hx rfl
  have hr1 : (s.adv 1).rest = T ++ ']' :: rest := by rw [adv_rest', hs']; rfl
  obtain ⟨e', he, hE⟩ := h (']' :: rest) (FCont_close _ _ (by decide) (by decide) (by decide))
    (s.adv 1) hr1 f (by omega)
  have hr2 : ((s.adv 1).adv T.length).rest = ']' :: rest := adv_rest_append _ _ _ hr1
  refine ⟨.opt e' (fromRange s (s.adv (T.length + 2))), ?_, e', rfl, hE⟩
  unfold baseP
  rw [nonterm_none s (hne _ (by decide)), optional_succ, char?_some '[' s _ hs']
  simp only
  rw [mb0_starter _ T _ hT hr1, he]
  simp only
  rw [mb0_notBlank _ _ _ hr2 (by decide), char?_some ']' _ _ hr2]
  simp only [adv_add']
  rw [show ('[' :: T ++ [']']).length = T.length + 2 by simp,
    show 1 + T.length + 1 = T.length + 2 by omega]

/-! ### the three loops -/

theorem seqLoop_nils : LTs sequenceLoop SCont 0 [] (fun _ es' => es' = .nil) := by
  intro rest hrest s hs acc f _
  refine ⟨[], ?_, rfl⟩
  rw [sequenceLoop_stop f s acc (by rw [hs]; exact hrest.2)]
  simp [adv_zero]

theorem seqLoop_conss {n1 n2 : Nat} {T1 T2 : List Char} {R1 : PState → Expr → Prop}
    {R2 : PState → ExprL → Prop} (hT1 : StarterHead T1)
    (h1 : PTs sseod UCont n1 T1 R1) (h2 : LTs sequenceLoop SCont n2 T2 R2)
    (hc : ∀ rest, SCont rest → UCont (T2 ++ rest)) :
    LTs sequenceLoop SCont (max n1 n2 + 1) (' ' :: T1 ++ T2)
      (fun s es' => ∃ e' r', es' = .cons e' r' ∧ R1 (s.adv 1) e' ∧ R2 ((s.adv 1).adv T1.length) r') := by
  intro rest hrest s hs acc f hf
  obtain ⟨f, rfl⟩ : ∃ f', f = f' + 1 := ⟨f - 1, by omega⟩
  have hs' : s.rest = ' ' :: T1 ++ (T2 ++ rest) := by rw [hs]; simp
  have hmb : mb1 s = some (s.adv 1) := by
    rw [mb1_eq, hs', mb0Aux_space_starter T1 _ hT1]; rfl
  have hr1 : (s.adv 1).rest = T1 ++ (T2 ++ rest) := by rw [adv_rest', hs']; rfl
  obtain ⟨e1, he1, hE1⟩ := h1 (T2 ++ rest) (hc rest hrest) (s.adv 1) hr1 f (by omega)
  have hr2 : ((s.adv 1).adv T1.length).rest = T2 ++ rest := adv_rest_append _ _ _ hr1
  obtain ⟨es', hes, hEs⟩ := h2 rest hrest _ hr2 (acc ++ [e1]) f (by omega)
  refine ⟨e1 :: es', ?_, e1, ExprL.ofList es', rfl, hE1, hEs⟩
  rw [sequenceLoop_succ, hmb]
  simp only
  rw [he1]
  simp only
  rw [hes, adv_add', adv_add']
  simp [Nat.add_assoc]
  congr 1; omega

theorem altLoop_nils : LTs alternativeLoop ACont 0 [] (fun _ es' => es' = .nil) := by
  intro rest hrest s hs acc f _
  refine ⟨[], ?_, rfl⟩
  rw [alternativeLoop_stop f s acc (by rw [hs]; exact hrest)]
  simp [adv_zero]

theorem altLoop_conss {n1 n2 : Nat} {T1 T2 : List Char} {R1 : PState → Expr → Prop}
    {R2 : PState → ExprL → Prop} (hT1 : StarterHead T1)
    (h1 : PTs sequence SCont n1 T1 R1) (h2 : LTs alternativeLoop ACont n2 T2 R2)
    (hc : ∀ rest, ACont rest → SCont (T2 ++ rest)) :
    LTs alternativeLoop ACont (max n1 n2 + 1) (' ' :: '|' :: ' ' :: T1 ++ T2)
      (fun s es' => ∃ e' r', es' = .cons e' r' ∧ R1 (s.adv 3) e' ∧ R2 ((s.adv 3).adv T1.length) r') := by
  intro rest hrest s hs acc f hf
  obtain ⟨f, rfl⟩ : ∃ f', f = f' + 1 := ⟨f - 1, by omega⟩
  have hs' : s.rest = ' ' :: '|' :: ' ' :: T1 ++ (T2 ++ rest) := by rw [hs]; simp
  have hm1 : mb0 s = s.adv 1 := mb0_space_nb s '|' _ (by decide) hs'
  have hr1 : (s.adv 1).rest = '|' :: ' ' :: T1 ++ (T2 ++ rest) := by rw [adv_rest', hs']; rfl
  have hr2 : ((s.adv 1).adv 1).rest = ' ' :: T1 ++ (T2 ++ rest) := by rw [adv_rest', hr1]; rfl
  have hm2 : mb0 ((s.adv 1).adv 1) = ((s.adv 1).adv 1).adv 1 := mb0_space_starter _ T1 _ hT1 hr2
  have e3 : ((s.adv 1).adv 1).adv 1 = s.adv 3 := by simp only [adv_add']
  have hr3 : (((s.adv 1).adv 1).adv 1).rest = T1 ++ (T2 ++ rest) := by rw [adv_rest', hr2]; rfl
  obtain ⟨e1, he1, hE1⟩ := h1 (T2 ++ rest) (hc rest hrest) _ hr3 f (by omega)
  have hr4 : ((((s.adv 1).adv 1).adv 1).adv T1.length).rest = T2 ++ rest := adv_rest_append _ _ _ hr3
  obtain ⟨es', hes, hEs⟩ := h2 rest hrest _ hr4 (acc ++ [e1]) f (by omega)
  refine ⟨e1 :: es', ?_, e1, ExprL.ofList es', rfl, e3 ▸ hE1, e3 ▸ hEs⟩
  rw [alternativeLoop_succ, hm1, char?_some '|' _ _ hr1]
  simp only
  rw [hm2, he1]
  simp only
  rw [hes]
  simp only [adv_add']
  simp [Nat.add_assoc]
  congr 1; omega

theorem fbLoop_nils : LTs fallbackLoop FCont 0 [] (fun _ es' => es' = .nil) := by
  intro rest hrest s hs acc f _
  refine ⟨[], ?_, rfl⟩
  rw [fallbackLoop_stop f s acc (by rw [hs]; exact hrest)]
  simp [adv_zero]

theorem fbLoop_conss {n1 n2 : Nat} {T1 T2 : List Char} {R1 : PState → Expr → Prop}
    {R2 : PState → ExprL → Prop} (hT1 : StarterHead T1)
    (h1 : PTs alternative ACont n1 T1 R1) (h2 : LTs fallbackLoop FCont n2 T2 R2)
    (hc : ∀ rest, FCont rest → ACont (T2 ++ rest)) :
    LTs fallbackLoop FCont (max n1 n2 + 1) (' ' :: '|' :: '|' :: ' ' :: T1 ++ T2)
      (fun s es' => ∃ e' r', es' = .cons e' r' ∧ R1 (s.adv 4) e' ∧ R2 ((s.adv 4).adv T1.length) r') := by
  intro rest hrest s hs acc f hf
  obtain ⟨f, rfl⟩ : ∃ f', f = f' + 1 := ⟨f - 1, by omega⟩
  have hs' : s.rest = ' ' :: '|' :: '|' :: ' ' :: T1 ++ (T2 ++ rest) := by rw [hs]; simp
  have hm1 : mb0 s = s.adv 1 := mb0_space_nb s '|' _ (by decide) hs'
  have hr1 : (s.adv 1).rest = '|' :: '|' :: ' ' :: T1 ++ (T2 ++ rest) := by rw [adv_rest', hs']; rfl
  have htag : tag? "||" (s.adv 1) = some ((s.adv 1).adv 2) := by
    apply tag?_some _ _ (by decide)
    have : "||".toList = ['|', '|'] := by rfl
    rw [this, hr1]; simp [List.isPrefixOf]
  have hr2 : ((s.adv 1).adv 2).rest = ' ' :: T1 ++ (T2 ++ rest) := by rw [adv_rest', hr1]; rfl
  have hm2 : mb0 ((s.adv 1).adv 2) = ((s.adv 1).adv 2).adv 1 := mb0_space_starter _ T1 _ hT1 hr2
  have e3 : ((s.adv 1).adv 2).adv 1 = s.adv 4 := by simp only [adv_add']
  have hr3 : (((s.adv 1).adv 2).adv 1).rest = T1 ++ (T2 ++ rest) := by rw [adv_rest', hr2]; rfl
  obtain ⟨e1, he1, hE1⟩ := h1 (T2 ++ rest) (hc rest hrest) _ hr3 f (by omega)
  have hr4 : ((((s.adv 1).adv 2).adv 1).adv T1.length).rest = T2 ++ rest := adv_rest_append _ _ _ hr3
  obtain ⟨es', hes, hEs⟩ := h2 rest hrest _ hr4 (acc ++ [e1]) f (by omega)
  refine ⟨e1 :: es', ?_, e1, ExprL.ofList es', rfl, e3 ▸ hE1, e3 ▸ hEs⟩
  rw [fallbackLoop_succ, hm1, htag]
  simp only
  rw [hm2, he1]
  simp only
  rw [hes]
  simp only [adv_add']
  simp [Nat.add_assoc]
  congr 1; omega

/-! ### the three list operators at their own level -/

theorem ofList_cons_ne_nil {es : List Expr} {x : Expr} {xs : ExprL}
    (h : ExprL.ofList es = .cons x xs) : ∃ y ys, es = y :: ys := by
  cases es with
  | nil => simp [ExprL.ofList] at h
  | cons y ys => exact ⟨y, ys, rfl⟩

/-- a list node starts where its first child starts and ends where its last child ends -/
theorem seq_natives {n1 n2 : Nat} {T1 T2 : List Char} {R1 : PState → Expr → Prop}
    {R2 : PState → ExprL → Prop}
    (h1 : PTs sseod UCont n1 T1 R1) (h2 : LTs sequenceLoop SCont n2 T2 R2)
    (hne : ∀ s es', R2 s es' → ∃ x xs, es' = .cons x xs)
    (hc : ∀ rest, SCont rest → UCont (T2 ++ rest)) :
    PTs sequence SCont (max n1 n2 + 1) (T1 ++ T2)
      (fun s e' => ∃ c1 cs', e' = .seq (.cons c1 cs') (fromRange s (s.adv (T1 ++ T2).length)) ∧
        R1 s c1 ∧ R2 (s.adv T1.length) cs') := by
  intro rest hrest s hs f hf
  obtain ⟨f, rfl⟩ : ∃ f', f = f' + 1 := ⟨f - 1, by omega⟩
  have hs' : s.rest = T1 ++ (T2 ++ rest) := by rw [hs]; simp
  obtain ⟨e1, he1, hE1⟩ := h1 (T2 ++ rest) (hc rest hrest) s hs' f (by omega)
  have hr1 : (s.adv T1.length).rest = T2 ++ rest := adv_rest_append _ _ _ hs'
  obtain ⟨es', hes, hEs⟩ := h2 rest hrest _ hr1 [e1] f (by omega)
  obtain ⟨x0, xs0, hx0⟩ := hne _ _ hEs
  obtain ⟨x, xs, rfl⟩ := ofList_cons_ne_nil hx0
  refine ⟨.seq (ExprL.ofList (e1 :: x :: xs)) (fromRange s (s.adv (T1 ++ T2).length)), ?_,
    e1, ExprL.ofList (x :: xs), rfl, hE1, hEs⟩
  rw [sequence_succ, he1]
  simp only
  rw [hes, adv_add']
  simp

theorem alt_natives {n1 n2 : Nat} {T1 T2 : List Char} {R1 : PState → Expr → Prop}
    {R2 : PState → ExprL → Prop}
    (h1 : PTs sequence SCont n1 T1 R1) (h2 : LTs alternativeLoop ACont n2 T2 R2)
    (hne : ∀ s es', R2 s es' → ∃ x xs, es' = .cons x xs)
    (hc : ∀ rest, ACont rest → SCont (T2 ++ rest)) :
    PTs alternative ACont (max n1 n2 + 1) (T1 ++ T2)
      (fun s e' => ∃ c1 cs', e' = .alt (.cons c1 cs') (fromRange s (s.adv (T1 ++ T2).length)) ∧
        R1 s c1 ∧ R2 (s.adv T1.length) cs') := by
  intro rest hrest s hs f hf
  obtain ⟨f, rfl⟩ : ∃ f', f = f' + 1 := ⟨f - 1, by omega⟩
  have hs' : s.rest = T1 ++ (T2 ++ rest) := by rw [hs]; simp
  obtain ⟨e1, he1, hE1⟩ := h1 (T2 ++ rest) (hc rest hrest) s hs' f (by omega)
  have hr1 : (s.adv T1.length).rest = T2 ++ rest := adv_rest_append _ _ _ hs'
  obtain ⟨es', hes, hEs⟩ := h2 rest hrest _ hr1 [e1] f (by omega)
  obtain ⟨x0, xs0, hx0⟩ := hne _ _ hEs
  obtain ⟨x, xs, rfl⟩ := ofList_cons_ne_nil hx0
  refine ⟨.alt (ExprL.ofList (e1 :: x :: xs)) (fromRange s (s.adv (T1 ++ T2).length)), ?_,
    e1, ExprL.ofList (x :: xs), rfl, hE1, hEs⟩
  rw [alternative_succ, he1]
  simp only
  rw [hes, adv_add']
  simp

theorem fb_natives {n1 n2 : Nat} {T1 T2 : List Char} {R1 : PState → Expr → Prop}
    {R2 : PState → ExprL → Prop}
    (h1 : PTs alternative ACont n1 T1 R1) (h2 : LTs fallbackLoop FCont n2 T2 R2)
    (hne : ∀ s es', R2 s es' → ∃ x xs, es' = .cons x xs)
    (hc : ∀ rest, FCont rest → ACont (T2 ++ rest)) :
    PTs fallback FCont (max n1 n2 + 1) (T1 ++ T2)
      (fun s e' => ∃ c1 cs', e' = .fb (.cons c1 cs') (fromRange s (s.adv (T1 ++ T2).length)) ∧
        R1 s c1 ∧ R2 (s.adv T1.length) cs') := by
  intro rest hrest s hs f hf
  obtain ⟨f, rfl⟩ : ∃ f', f = f' + 1 := ⟨f - 1, by omega⟩
  have hs' : s.rest = T1 ++ (T2 ++ rest) := by rw [hs]; simp
  obtain ⟨e1, he1, hE1⟩ := h1 (T2 ++ rest) (hc rest hrest) s hs' f (by omega)
  have hr1 : (s.adv T1.length).rest = T2 ++ rest := adv_rest_append _ _ _ hs'
  obtain ⟨es', hes, hEs⟩ := h2 rest hrest _ hr1 [e1] f (by omega)
  obtain ⟨x0, xs0, hx0⟩ := hne _ _ hEs
  obtain ⟨x, xs, rfl⟩ := ofList_cons_ne_nil hx0
  refine ⟨.fb (ExprL.ofList (e1 :: x :: xs)) (fromRange s (s.adv (T1 ++ T2).length)), ?_,
    e1, ExprL.ofList (x :: xs), rfl, hE1, hEs⟩
  rw [fallback_succ, he1]
  simp only
  rw [hes, adv_add']
  simp

/-! ### all levels at once -/

/-- the five texts `T0 … T4` of an expression are read back at the five levels, the returned tree
satisfying `R0 … R4` -/
def AllTs (N : Nat) (T0 T1 T2 T3 T4 : List Char) (R0 R1 R2 R3 R4 : PState → Expr → Prop) : Prop :=
  PTs fallback FCont N T0 R0 ∧ PTs alternative ACont N T1 R1 ∧ PTs sequence SCont N T2 R2 ∧
  PTs sseod UCont N T3 R3 ∧ PTs baseP BCont N T4 R4

theorem assemble4s {n : Nat} {T : List Char} {R : PState → Expr → Prop} (h : PTs baseP BCont n T R) :
    AllTs (n + 6) T T T T T R R R R R := by
  have h3 := lift_U_Ds (lift_B_Us h)
  have h2 := lift_D_Ss h3
  have h1 := lift_S_As h2
  have h0 := lift_A_Fs h1
  exact ⟨h0.mono (by omega), h1.mono (by omega), h2.mono (by omega), h3.mono (by omega), h.mono (by omega)⟩

theorem assemble3s {n : Nat} {T : List Char} {R : PState → Expr → Prop} (hT : StarterHead T)
    (h : PTs unary UCont n T R) : AllTs (n + 6) T T T T (paren T) R R R R (shift R) := by
  have h3 := lift_U_Ds h
  have h2 := lift_D_Ss h3
  have h1 := lift_S_As h2
  have h0 := lift_A_Fs h1
  have hB := paren_PTs hT h0
  exact ⟨h0.mono (by omega), h1.mono (by omega), h2.mono (by omega), h3.mono (by omega), hB.mono (by omega)⟩

theorem assemble2s {n : Nat} {T : List Char} {R : PState → Expr → Prop} (hT : StarterHead T)
    (h2 : PTs sequence SCont n T R) :
    AllTs (n + 6) T T T (paren T) (paren T) R R R (shift R) (shift R) := by
  have h1 := lift_S_As h2
  have h0 := lift_A_Fs h1
  have hB := paren_PTs hT h0
  have h3 := lift_U_Ds (lift_B_Us hB)
  exact ⟨h0.mono (by omega), h1.mono (by omega), h2.mono (by omega), h3.mono (by omega), hB.mono (by omega)⟩

theorem assemble1s {n : Nat} {T : List Char} {R : PState → Expr → Prop} (hT : StarterHead T)
    (h1 : PTs alternative ACont n T R) :
    AllTs (n + 6) T T (paren T) (paren T) (paren T) R R (shift R) (shift R) (shift R) := by
  have h0 := lift_A_Fs h1
  have hB := paren_PTs hT h0
  have h3 := lift_U_Ds (lift_B_Us hB)
  have h2 := lift_D_Ss h3
  exact ⟨h0.mono (by omega), h1.mono (by omega), h2.mono (by omega), h3.mono (by omega), hB.mono (by omega)⟩

theorem assemble0s {n : Nat} {T : List Char} {R : PState → Expr → Prop} (hT : StarterHead T)
    (h0 : PTs fallback FCont n T R) :
    AllTs (n + 6) T (paren T) (paren T) (paren T) (paren T) R (shift R) (shift R) (shift R) (shift R) := by
  have hB := paren_PTs hT h0
  have h3 := lift_U_Ds (lift_B_Us hB)
  have h2 := lift_D_Ss h3
  have h1 := lift_S_As h2
  exact ⟨h0.mono (by omega), h1.mono (by omega), h2.mono (by omega), h3.mono (by omega), hB.mono (by omega)⟩

theorem AllTs.conv {N N' : Nat} {T0 T1 T2 T3 T4 T0' T1' T2' T3' T4' : List Char}
    {R0 R1 R2 R3 R4 R0' R1' R2' R3' R4' : PState → Expr → Prop}
    (h : AllTs N T0 T1 T2 T3 T4 R0 R1 R2 R3 R4) (hN : N ≤ N')
    (e0 : T0' = T0) (e1 : T1' = T1) (e2 : T2' = T2) (e3 : T3' = T3) (e4 : T4' = T4)
    (i0 : ∀ s e', R0 s e' → R0' s e') (i1 : ∀ s e', R1 s e' → R1' s e')
    (i2 : ∀ s e', R2 s e' → R2' s e') (i3 : ∀ s e', R3 s e' → R3' s e')
    (i4 : ∀ s e', R4 s e' → R4' s e') :
    AllTs N' T0' T1' T2' T3' T4' R0' R1' R2' R3' R4' := by
  subst e0 e1 e2 e3 e4
  exact ⟨(h.1.mono hN).imp i0, (h.2.1.mono hN).imp i1, (h.2.2.1.mono hN).imp i2,
    (h.2.2.2.1.mono hN).imp i3, (h.2.2.2.2.mono hN).imp i4⟩

/-! ### unfolding `Placed` at the list operators -/

theorem placed_seq (ctx : Nat) (s : PState) (e1 : Expr) (r : ExprL) (sp : Span) (e' : Expr) :
    Placed ctx s (.seq (.cons e1 r) sp) e' ↔
    ∃ c1 cs', e' = .seq (.cons c1 cs') (fromRange (skipParen (decide (3 ≤ ctx)) s)
        ((skipParen (decide (3 ≤ ctx)) s).adv (pp 3 e1 ++ ppTail 3 sepS r).length)) ∧
      Placed 3 (skipParen (decide (3 ≤ ctx)) s) e1 c1 ∧
      PlacedTail 3 sepS ((skipParen (decide (3 ≤ ctx)) s).adv (pp 3 e1).length) r cs' := by
  simp only [Placed, PlacedL, ppList]
  constructor
  · rintro ⟨cs', rfl, c1, r', rfl, h1, h2⟩; exact ⟨c1, r', rfl, h1, h2⟩
  · rintro ⟨c1, r', rfl, h1, h2⟩; exact ⟨_, rfl, c1, r', rfl, h1, h2⟩

theorem placed_alt (ctx : Nat) (s : PState) (e1 : Expr) (r : ExprL) (sp : Span) (e' : Expr) :
    Placed ctx s (.alt (.cons e1 r) sp) e' ↔
    ∃ c1 cs', e' = .alt (.cons c1 cs') (fromRange (skipParen (decide (2 ≤ ctx)) s)
        ((skipParen (decide (2 ≤ ctx)) s).adv (pp 2 e1 ++ ppTail 2 sepA r).length)) ∧
      Placed 2 (skipParen (decide (2 ≤ ctx)) s) e1 c1 ∧
      PlacedTail 2 sepA ((skipParen (decide (2 ≤ ctx)) s).adv (pp 2 e1).length) r cs' := by
  simp only [Placed, PlacedL, ppList]
  constructor
  · rintro ⟨cs', rfl, c1, r', rfl, h1, h2⟩; exact ⟨c1, r', rfl, h1, h2⟩
  · rintro ⟨c1, r', rfl, h1, h2⟩; exact ⟨_, rfl, c1, r', rfl, h1, h2⟩

theorem placed_fb (ctx : Nat) (s : PState) (e1 : Expr) (r : ExprL) (sp : Span) (e' : Expr) :
    Placed ctx s (.fb (.cons e1 r) sp) e' ↔
    ∃ c1 cs', e' = .fb (.cons c1 cs') (fromRange (skipParen (decide (1 ≤ ctx)) s)
        ((skipParen (decide (1 ≤ ctx)) s).adv (pp 1 e1 ++ ppTail 1 sepF r).length)) ∧
      Placed 1 (skipParen (decide (1 ≤ ctx)) s) e1 c1 ∧
      PlacedTail 1 sepF ((skipParen (decide (1 ≤ ctx)) s).adv (pp 1 e1).length) r cs' := by
  simp only [Placed, PlacedL, ppList]
  constructor
  · rintro ⟨cs', rfl, c1, r', rfl, h1, h2⟩; exact ⟨c1, r', rfl, h1, h2⟩
  · rintro ⟨c1, r', rfl, h1, h2⟩; exact ⟨_, rfl, c1, r', rfl, h1, h2⟩

theorem placedTail_cons_ne (ctx : Nat) (sep : List Char) (e : Expr) (es : ExprL) :
    ∀ s es', PlacedTail ctx sep s (.cons e es) es' → ∃ x xs, es' = .cons x xs := by
  intro s es' h
  simp only [PlacedTail] at h
  obtain ⟨e', r', rfl, _⟩ := h
  exact ⟨_, _, rfl⟩

/-! ### the induction -/

def AllS (e : Expr) : Prop :=
  AllTs (10 * size e) (pp 0 e) (pp 1 e) (pp 2 e) (pp 3 e) (pp 4 e)
    (fun s e' => Placed 0 s e e') (fun s e' => Placed 1 s e e') (fun s e' => Placed 2 s e e')
    (fun s e' => Placed 3 s e e') (fun s e' => Placed 4 s e e') ∧
  ∀ k, StarterHead (pp k e)

def TailsS (es : ExprL) : Prop :=
  LTs sequenceLoop SCont (10 * sizeL es) (ppTail 3 sepS es) (fun s es' => PlacedTail 3 sepS s es es') ∧
  LTs alternativeLoop ACont (10 * sizeL es) (ppTail 2 sepA es) (fun s es' => PlacedTail 2 sepA s es es') ∧
  LTs fallbackLoop FCont (10 * sizeL es) (ppTail 1 sepF es) (fun s es' => PlacedTail 1 sepF s es es')

def AllLS : ExprL → Prop
  | .nil => True
  | .cons e es => AllS e ∧ TailsS es ∧ AllLS es

theorem tailS_conts (es : ExprL) (h : AllLS es) : ∀ rest, SCont rest → UCont (ppTail 3 sepS es ++ rest) := by
  intro rest hrest
  cases es with
  | nil => simpa [ppTail] using hrest.u
  | cons e es' =>
    have := UCont_space_starter (pp 3 e) (ppTail 3 sepS es' ++ rest) (h.1.2 3)
    simpa [ppTail, sepS] using this

theorem case_nils : TailsS .nil ∧ AllLS .nil := by
  refine ⟨⟨?_, ?_, ?_⟩, trivial⟩
  · exact (seqLoop_nils.text (by simp [ppTail])).imp (by intro s es' h; simpa [PlacedTail] using h)
  · exact (altLoop_nils.text (by simp [ppTail])).imp (by intro s es' h; simpa [PlacedTail] using h)
  · exact (fbLoop_nils.text (by simp [ppTail])).imp (by intro s es' h; simpa [PlacedTail] using h)

theorem case_conss (e : Expr) (es : ExprL) (he : AllS e) (hes : TailsS es ∧ AllLS es) :
    TailsS (.cons e es) ∧ AllLS (.cons e es) := by
  refine ⟨⟨?_, ?_, ?_⟩, he, hes.1, hes.2⟩
  · have := seqLoop_conss (he.2 3) he.1.2.2.2.1 hes.1.1 (tailS_conts es hes.2)
    have := this.mono (m := 10 * sizeL (.cons e es)) (by simp only [sizeL]; omega)
    refine (this.text (by simp [ppTail, sepS])).imp ?_
    intro s es' h
    simp only [PlacedTail]
    exact h
  · have := altLoop_conss (he.2 2) he.1.2.2.1 hes.1.2.1 (tailA_cont es)
    have := this.mono (m := 10 * sizeL (.cons e es)) (by simp only [sizeL]; omega)
    refine (this.text (by simp [ppTail, sepA])).imp ?_
    intro s es' h
    simp only [PlacedTail]
    exact h
  · have := fbLoop_conss (he.2 1) he.1.2.1 hes.1.2.2 (tailF_cont es)
    have := this.mono (m := 10 * sizeL (.cons e es)) (by simp only [sizeL]; omega)
    refine (this.text (by simp [ppTail, sepF])).imp ?_
    intro s es' h
    simp only [PlacedTail]
    exact h

theorem case_terms (t : String) (d : Option String) (l : Nat) (sp : Span) (h : NF (.term t d l sp)) :
    AllS (.term t d l sp) := by
  simp only [NF] at h
  obtain ⟨rfl, rfl, h1, h2, h3⟩ := h
  constructor
  · have A := assemble4s (lit_PTs t.toList h1 h2)
    rw [String.ofList_toList] at A
    refine A.conv (by simp only [size]; omega) (by simp [pp]) (by simp [pp]) (by simp [pp]) (by simp [pp])
      (by simp [pp]) ?_ ?_ ?_ ?_ ?_
    all_goals (intro s e' h; simp only [Placed]; exact h)
  · intro k
    simp only [pp]
    cases ht : t.toList with
    | nil => exact absurd ht h1
    | cons x t' =>
      rw [ht] at h2 h3
      exact ⟨x, t', rfl, regular_starter (h2 x (by simp)) (by simpa using h3)⟩

theorem case_nonterms (n : String) (l : Nat) (sp : Span) (h : NF (.nonterm n l sp)) :
    AllS (.nonterm n l sp) := by
  simp only [NF] at h
  obtain ⟨rfl, h1, h2⟩ := h
  constructor
  · have A := assemble4s (nonterm_PTs n.toList h1 h2)
    rw [String.ofList_toList] at A
    refine A.conv (by simp only [size]; omega) (by simp [pp]) (by simp [pp]) (by simp [pp]) (by simp [pp])
      (by simp [pp]) ?_ ?_ ?_ ?_ ?_
    all_goals (intro s e' h; simp only [Placed]; exact h)
  · intro k
    exact ⟨'<', n.toList ++ ['>'], by simp [pp], by decide⟩

theorem case_cmds (c : String) (a : Bool) (l : Nat) (sp : Span) (h : NF (.cmd c a l sp)) :
    AllS (.cmd c a l sp) := by
  simp only [NF] at h
  obtain ⟨rfl, rfl, h1, h2, h3⟩ := h
  constructor
  · have A := assemble4s (cmd_PTs c.toList h1 h2 h3)
    rw [String.ofList_toList] at A
    refine A.conv (by simp only [size]; omega) (by simp [pp]) (by simp [pp]) (by simp [pp]) (by simp [pp])
      (by simp [pp]) ?_ ?_ ?_ ?_ ?_
    all_goals (intro s e' h; simp only [Placed]; exact h)
  · intro k
    exact ⟨'{', _, by simp only [pp, cmdText]; rfl, by decide⟩

theorem case_opts (c : Expr) (sp : Span) (ih : NF c → AllS c) (h : NF (.opt c sp)) : AllS (.opt c sp) := by
  simp only [NF] at h
  have hc := ih h
  constructor
  · have A := assemble4s (bracket_PTs (hc.2 0) hc.1.1)
    refine A.conv (by simp only [size]; omega) (by simp [pp]) (by simp [pp]) (by simp [pp]) (by simp [pp])
      (by simp [pp]) ?_ ?_ ?_ ?_ ?_
    all_goals (intro s e' h; simp only [Placed]; exact h)
  · intro k
    exact ⟨'[', _, by simp only [pp]; rfl, by decide⟩

theorem case_many1s (c : Expr) (sp : Span) (ih : NF c → AllS c) (h : NF (.many1 c sp)) :
    AllS (.many1 c sp) := by
  simp only [NF] at h
  have hc := ih h
  have hT : StarterHead (pp 4 c ++ ['.', '.', '.']) := (hc.2 4).append _
  constructor
  · have A := assemble3s hT (lift_B_many1s hc.1.2.2.2.2)
    refine A.conv (by simp only [size]; omega) (by simp [pp, parenIf]) (by simp [pp, parenIf])
      (by simp [pp, parenIf]) (by simp [pp, parenIf]) (by simp [pp, parenIf, paren]) ?_ ?_ ?_ ?_ ?_
    all_goals (intro s e' h; simp only [Placed]; exact h)
  · intro k
    simp only [pp]
    exact hT.parenIf _

theorem case_seqs (cs : ExprL) (sp : Span) (ih : NFL cs → TailsS cs ∧ AllLS cs) (h : NF (.seq cs sp)) :
    AllS (.seq cs sp) := by
  simp only [NF] at h
  obtain ⟨e1, e2, es, rfl⟩ := two_le_length h.1
  obtain ⟨_, h1, h2, h3⟩ := ih h.2
  have hT : StarterHead (pp 3 e1 ++ ppTail 3 sepS (.cons e2 es)) := (h1.2 3).append _
  have hn := seq_natives h1.1.2.2.2.1 h2.1 (placedTail_cons_ne _ _ _ _) (tailS_conts _ h3)
  constructor
  · have A := assemble2s hT hn
    refine A.conv (by simp only [size, sizeL]; omega) (by simp [pp, ppList, parenIf])
      (by simp [pp, ppList, parenIf]) (by simp [pp, ppList, parenIf]) (by simp [pp, ppList, parenIf, paren])
      (by simp [pp, ppList, parenIf, paren]) ?_ ?_ ?_ ?_ ?_
    all_goals (intro s e' h; rw [placed_seq]; exact h)
  · intro k
    simp only [pp, ppList]
    exact hT.parenIf _

theorem case_alts (cs : ExprL) (sp : Span) (ih : NFL cs → TailsS cs ∧ AllLS cs) (h : NF (.alt cs sp)) :
    AllS (.alt cs sp) := by
  simp only [NF] at h
  obtain ⟨e1, e2, es, rfl⟩ := two_le_length h.1
  obtain ⟨_, h1, h2, h3⟩ := ih h.2
  have hT : StarterHead (pp 2 e1 ++ ppTail 2 sepA (.cons e2 es)) := (h1.2 2).append _
  have hn := alt_natives h1.1.2.2.1 h2.2.1 (placedTail_cons_ne _ _ _ _) (tailA_cont _)
  constructor
  · have A := assemble1s hT hn
    refine A.conv (by simp only [size, sizeL]; omega) (by simp [pp, ppList, parenIf])
      (by simp [pp, ppList, parenIf]) (by simp [pp, ppList, parenIf, paren]) (by simp [pp, ppList, parenIf, paren])
      (by simp [pp, ppList, parenIf, paren]) ?_ ?_ ?_ ?_ ?_
    all_goals (intro s e' h; rw [placed_alt]; exact h)
  · intro k
    simp only [pp, ppList]
    exact hT.parenIf _

theorem case_fbs (cs : ExprL) (sp : Span) (ih : NFL cs → TailsS cs ∧ AllLS cs) (h : NF (.fb cs sp)) :
    AllS (.fb cs sp) := by
  simp only [NF] at h
  obtain ⟨e1, e2, es, rfl⟩ := two_le_length h.1
  obtain ⟨_, h1, h2, h3⟩ := ih h.2
  have hT : StarterHead (pp 1 e1 ++ ppTail 1 sepF (.cons e2 es)) := (h1.2 1).append _
  have hn := fb_natives h1.1.2.1 h2.2.2 (placedTail_cons_ne _ _ _ _) (tailF_cont _)
  constructor
  · have A := assemble0s hT hn
    refine A.conv (by simp only [size, sizeL]; omega) (by simp [pp, ppList, parenIf])
      (by simp [pp, ppList, parenIf, paren]) (by simp [pp, ppList, parenIf, paren]) (by simp [pp, ppList, parenIf, paren])
      (by simp [pp, ppList, parenIf, paren]) ?_ ?_ ?_ ?_ ?_
    all_goals (intro s e' h; rw [placed_fb]; exact h)
  · intro k
    simp only [pp, ppList]
    exact hT.parenIf _

theorem all_levels_spans (e : Expr) : NF e → AllS e := by
  refine Expr.rec (motive_1 := fun e => NF e → AllS e) (motive_2 := fun es => NFL es → TailsS es ∧ AllLS es)
    ?_ ?_ ?_ ?_ ?_ ?_ ?_ ?_ ?_ ?_ ?_ ?_ e
  · exact case_terms
  · exact case_nonterms
  · exact case_cmds
  · exact case_seqs
  · exact case_alts
  · exact case_fbs
  · exact case_opts
  · exact case_many1s
  · intro c d sp _ h; simp [NF] at h
  · intro c l sp _ h; simp [NF] at h
  · intro _; exact case_nils
  · intro e es ihe ihes h
    simp only [NFL] at h
    exact case_conss e es (ihe h.1) (ihes h.2)

/-- **Every span points at its construct**: a normal-form tree printed with the fewest parentheses,
followed by the end of the input, `;`, `)`, `]` (possibly after blanks and comments), is parsed by
`fallback_expr` into a tree every node of which carries the span of exactly the text the printer wrote
for that node (`Placed`): it starts at the state reached by consuming what was printed before the
node's first character, and ends after its last character. -/
theorem fallback_spans (e : Expr) (hnf : NF e) (rest : List Char) (hrest : Follows rest) (s : PState)
    (hs : s.rest = pp 0 e ++ rest) (fuel : Nat) (hfuel : fuelNeeded e ≤ fuel) :
    ∃ e', fallback fuel s = some (s.adv (pp 0 e).length, e') ∧ Placed 0 s e e' :=
  (all_levels_spans e hnf).1.1 rest hrest s hs fuel hfuel

/-! ### `Placed` determines the tree up to spans, and the spans -/

theorem placed_erase_all (e : Expr) : ∀ ctx s e', Placed ctx s e e' → e'.eraseSpans = e.eraseSpans := by
  refine Expr.rec (motive_1 := fun e => ∀ ctx s e', Placed ctx s e e' → e'.eraseSpans = e.eraseSpans)
    (motive_2 := fun es =>
      (∀ ctx sep s es', PlacedL ctx sep s es es' → es'.eraseSpans = es.eraseSpans) ∧
      (∀ ctx sep s es', PlacedTail ctx sep s es es' → es'.eraseSpans = es.eraseSpans))
    ?_ ?_ ?_ ?_ ?_ ?_ ?_ ?_ ?_ ?_ ?_ ?_ e
  · intro t d l sp ctx s e' h; simp only [Placed] at h; subst h; simp [Expr.eraseSpans]
  · intro n l sp ctx s e' h; simp only [Placed] at h; subst h; simp [Expr.eraseSpans]
  · intro c a l sp ctx s e' h; simp only [Placed] at h; subst h; simp [Expr.eraseSpans]
  · intro cs sp ih ctx s e' h
    simp only [Placed] at h
    obtain ⟨cs', rfl, h⟩ := h
    simp only [Expr.eraseSpans]; rw [ih.1 _ _ _ _ h]
  · intro cs sp ih ctx s e' h
    simp only [Placed] at h
    obtain ⟨cs', rfl, h⟩ := h
    simp only [Expr.eraseSpans]; rw [ih.1 _ _ _ _ h]
  · intro cs sp ih ctx s e' h
    simp only [Placed] at h
    obtain ⟨cs', rfl, h⟩ := h
    simp only [Expr.eraseSpans]; rw [ih.1 _ _ _ _ h]
  · intro c sp ih ctx s e' h
    simp only [Placed] at h
    obtain ⟨c', rfl, h⟩ := h
    simp only [Expr.eraseSpans]; rw [ih _ _ _ h]
  · intro c sp ih ctx s e' h
    simp only [Placed] at h
    obtain ⟨c', rfl, h⟩ := h
    simp only [Expr.eraseSpans]; rw [ih _ _ _ h]
  · intro c d sp _ ctx s e' h; simp [Placed] at h
  · intro c l sp _ ctx s e' h; simp [Placed] at h
  · constructor
    · intro ctx sep s es' h; simp only [PlacedL] at h; subst h; rfl
    · intro ctx sep s es' h; simp only [PlacedTail] at h; subst h; rfl
  · intro e es ihe ihes
    constructor
    · intro ctx sep s es' h
      simp only [PlacedL] at h
      obtain ⟨e', r', rfl, h1, h2⟩ := h
      simp only [ExprL.eraseSpans]; rw [ihe _ _ _ h1, ihes.2 _ _ _ _ h2]
    · intro ctx sep s es' h
      simp only [PlacedTail] at h
      obtain ⟨e', r', rfl, h1, h2⟩ := h
      simp only [ExprL.eraseSpans]; rw [ihe _ _ _ h1, ihes.2 _ _ _ _ h2]

/-- a tree laid out according to the printed text of `e` is `e` up to spans -/
theorem Placed.eraseSpans {ctx : Nat} {s : PState} {e e' : Expr} (h : Placed ctx s e e') :
    e'.eraseSpans = e.eraseSpans := placed_erase_all e ctx s e' h

/-- `fallback_spans` strengthens `fallback_roundtrip` -/
theorem fallback_roundtrip_of_spans (e : Expr) (hnf : NF e) (rest : List Char) (hrest : Follows rest)
    (s : PState) (hs : s.rest = pp 0 e ++ rest) (fuel : Nat) (hfuel : fuelNeeded e ≤ fuel) :
    ∃ e', fallback fuel s = some (s.adv (pp 0 e).length, e') ∧ e'.eraseSpans = e.eraseSpans := by
  obtain ⟨e', h1, h2⟩ := fallback_spans e hnf rest hrest s hs fuel hfuel
  exact ⟨e', h1, h2.eraseSpans⟩

/-! ### in plain terms: the top node, atoms -/

/-- does `pp ctx e` begin with a parenthesis that is not part of the node? -/
def ownParen : Nat → Expr → Bool
  | ctx, .seq _ _ => decide (3 ≤ ctx)
  | ctx, .alt _ _ => decide (2 ≤ ctx)
  | ctx, .fb _ _ => decide (1 ≤ ctx)
  | ctx, .many1 _ _ => decide (4 ≤ ctx)
  | _, _ => false

theorem ownParen_zero (e : Expr) : ownParen 0 e = false := by
  cases e <;> simp [ownParen]

theorem length_parenIf (b : Bool) (T : List Char) :
    (parenIf b T).length = T.length + 2 * b.toNat := by
  cases b <;> simp [parenIf]

/-- the span of the root of a laid-out tree: it covers the printed text without the parentheses the
context forced around it -/
theorem Placed.span {ctx : Nat} {s : PState} {e e' : Expr} (h : Placed ctx s e e') :
    e'.span = fromRange (skipParen (ownParen ctx e) s)
      ((skipParen (ownParen ctx e) s).adv ((pp ctx e).length - 2 * (ownParen ctx e).toNat)) := by
  cases e with
  | term t d l sp => simp only [Placed] at h; subst h; simp [Expr.span, ownParen, skipParen, pp]
  | nonterm n l sp => simp only [Placed] at h; subst h; simp [Expr.span, ownParen, skipParen, pp]
  | cmd c a l sp => simp only [Placed] at h; subst h; simp [Expr.span, ownParen, skipParen, pp]
  | seq cs sp =>
    simp only [Placed] at h; obtain ⟨cs', rfl, _⟩ := h
    simp only [Expr.span, ownParen, pp, length_parenIf]
    rw [Nat.add_sub_cancel]
  | alt cs sp =>
    simp only [Placed] at h; obtain ⟨cs', rfl, _⟩ := h
    simp only [Expr.span, ownParen, pp, length_parenIf]
    rw [Nat.add_sub_cancel]
  | fb cs sp =>
    simp only [Placed] at h; obtain ⟨cs', rfl, _⟩ := h
    simp only [Expr.span, ownParen, pp, length_parenIf]
    rw [Nat.add_sub_cancel]
  | opt c sp =>
    simp only [Placed] at h; obtain ⟨c', rfl, _⟩ := h
    simp [Expr.span, ownParen, skipParen, pp]
  | many1 c sp =>
    simp only [Placed] at h; obtain ⟨c', rfl, _⟩ := h
    simp only [Expr.span, ownParen, pp, length_parenIf]
    rw [Nat.add_sub_cancel]; simp
  | dd c d sp => simp [Placed] at h
  | sub c l sp => simp [Placed] at h

/-- the root of a laid-out tree starts at the first character of its own text: at `s`, or one
character later when the context forced a parenthesis around it -/
theorem Placed.span_start {ctx : Nat} {s : PState} {e e' : Expr} (h : Placed ctx s e e') :
    e'.span.line = (skipParen (ownParen ctx e) s).line ∧ e'.span.cs = (skipParen (ownParen ctx e) s).col := by
  rw [h.span]; exact ⟨rfl, rfl⟩

/-- at the top (context 0 never prints a parenthesis) the span is that of the whole printed text -/
theorem Placed.span_top {s : PState} {e e' : Expr} (h : Placed 0 s e e') :
    e'.span = fromRange s (s.adv (pp 0 e).length) := by
  have := h.span
  simpa [ownParen_zero, skipParen] using this

theorem Placed.span_top_start {s : PState} {e e' : Expr} (h : Placed 0 s e e') :
    e'.span.line = s.line ∧ e'.span.cs = s.col := by
  rw [h.span_top]; exact ⟨rfl, rfl⟩

/-! ### every node, by offsets into the printed text -/

mutual
/-- the spans of all nodes, in preorder -/
def spansOf : Expr → List Span
  | .term _ _ _ sp => [sp]
  | .nonterm _ _ sp => [sp]
  | .cmd _ _ _ sp => [sp]
  | .seq cs sp => sp :: spansOfL cs
  | .alt cs sp => sp :: spansOfL cs
  | .fb cs sp => sp :: spansOfL cs
  | .opt c sp => sp :: spansOf c
  | .many1 c sp => sp :: spansOf c
  | .dd c _ sp => sp :: spansOf c
  | .sub c _ sp => sp :: spansOf c
def spansOfL : ExprL → List Span
  | .nil => []
  | .cons e es => spansOf e ++ spansOfL es
end

mutual
/-- for every node of `e`, in preorder: the offsets of the first character of the node's own text and
of the character after its last one, in a text in which `pp ctx e` begins at offset `k` -/
def offs : Nat → Nat → Expr → List (Nat × Nat)
  | _, k, .term t _ _ _ => [(k, k + t.toList.length)]
  | _, k, .nonterm n _ _ => [(k, k + (n.toList.length + 2))]
  | _, k, .cmd c _ _ _ => [(k, k + (cmdText c.toList).length)]
  | ctx, k, .seq cs _ =>
    (k + (decide (3 ≤ ctx)).toNat, k + (decide (3 ≤ ctx)).toNat + (ppList 3 sepS cs).length) ::
      offsL 3 sepS (k + (decide (3 ≤ ctx)).toNat) cs
  | ctx, k, .alt cs _ =>
    (k + (decide (2 ≤ ctx)).toNat, k + (decide (2 ≤ ctx)).toNat + (ppList 2 sepA cs).length) ::
      offsL 2 sepA (k + (decide (2 ≤ ctx)).toNat) cs
  | ctx, k, .fb cs _ =>
    (k + (decide (1 ≤ ctx)).toNat, k + (decide (1 ≤ ctx)).toNat + (ppList 1 sepF cs).length) ::
      offsL 1 sepF (k + (decide (1 ≤ ctx)).toNat) cs
  | _, k, .opt c _ => (k, k + ((pp 0 c).length + 2)) :: offs 0 (k + 1) c
  | ctx, k, .many1 c _ =>
    (k + (decide (4 ≤ ctx)).toNat, k + (decide (4 ≤ ctx)).toNat + ((pp 4 c).length + 3)) ::
      offs 4 (k + (decide (4 ≤ ctx)).toNat) c
  | _, _, .dd _ _ _ => []
  | _, _, .sub _ _ _ => []
def offsL : Nat → List Char → Nat → ExprL → List (Nat × Nat)
  | _, _, _, .nil => []
  | ctx, sep, k, .cons e es => offs ctx k e ++ offsTail ctx sep (k + (pp ctx e).length) es
def offsTail : Nat → List Char → Nat → ExprL → List (Nat × Nat)
  | _, _, _, .nil => []
  | ctx, sep, k, .cons e es =>
    offs ctx (k + sep.length) e ++ offsTail ctx sep (k + sep.length + (pp ctx e).length) es
end

theorem skipParen_adv (b : Bool) (s : PState) (k : Nat) : skipParen b (s.adv k) = s.adv (k + b.toNat) := by
  cases b <;> simp [skipParen, adv_add']

/-- the span between two offsets from `s` -/
def spanAt (s : PState) (ab : Nat × Nat) : Span := fromRange (s.adv ab.1) (s.adv ab.2)

theorem placed_offs_all (e : Expr) : ∀ ctx k s e', Placed ctx (PState.adv s k) e e' →
    spansOf e' = (offs ctx k e).map (spanAt s) := by
  refine Expr.rec
    (motive_1 := fun e => ∀ ctx k s e', Placed ctx (PState.adv s k) e e' →
      spansOf e' = (offs ctx k e).map (spanAt s))
    (motive_2 := fun es =>
      (∀ ctx sep k s es', PlacedL ctx sep (PState.adv s k) es es' →
        spansOfL es' = (offsL ctx sep k es).map (spanAt s)) ∧
      (∀ ctx sep k s es', PlacedTail ctx sep (PState.adv s k) es es' →
        spansOfL es' = (offsTail ctx sep k es).map (spanAt s)))
    ?_ ?_ ?_ ?_ ?_ ?_ ?_ ?_ ?_ ?_ ?_ ?_ e
  · intro t d l sp ctx k s e' h
    simp only [Placed] at h; subst h
    simp [spansOf, offs, spanAt, adv_add']
  · intro n l sp ctx k s e' h
    simp only [Placed] at h; subst h
    simp [spansOf, offs, spanAt, adv_add']
  · intro c a l sp ctx k s e' h
    simp only [Placed] at h; subst h
    simp [spansOf, offs, spanAt, adv_add']
  · intro cs sp ih ctx k s e' h
    simp only [Placed, skipParen_adv, adv_add'] at h
    obtain ⟨cs', rfl, h⟩ := h
    simp only [spansOf, offs, List.map_cons, spanAt, ih.1 _ _ _ _ _ h]
  · intro cs sp ih ctx k s e' h
    simp only [Placed, skipParen_adv, adv_add'] at h
    obtain ⟨cs', rfl, h⟩ := h
    simp only [spansOf, offs, List.map_cons, spanAt, ih.1 _ _ _ _ _ h]
  · intro cs sp ih ctx k s e' h
    simp only [Placed, skipParen_adv, adv_add'] at h
    obtain ⟨cs', rfl, h⟩ := h
    simp only [spansOf, offs, List.map_cons, spanAt, ih.1 _ _ _ _ _ h]
  · intro c sp ih ctx k s e' h
    simp only [Placed, adv_add'] at h
    obtain ⟨c', rfl, h⟩ := h
    simp only [spansOf, offs, List.map_cons, spanAt, ih _ _ _ _ h]
  · intro c sp ih ctx k s e' h
    simp only [Placed, skipParen_adv, adv_add'] at h
    obtain ⟨c', rfl, h⟩ := h
    simp only [spansOf, offs, List.map_cons, spanAt, ih _ _ _ _ h]
  · intro c d sp _ ctx k s e' h; simp [Placed] at h
  · intro c l sp _ ctx k s e' h; simp [Placed] at h
  · constructor
    · intro ctx sep k s es' h; simp only [PlacedL] at h; subst h; simp [spansOfL, offsL]
    · intro ctx sep k s es' h; simp only [PlacedTail] at h; subst h; simp [spansOfL, offsTail]
  · intro e es ihe ihes
    constructor
    · intro ctx sep k s es' h
      simp only [PlacedL, adv_add'] at h
      obtain ⟨e', r', rfl, h1, h2⟩ := h
      simp only [spansOfL, offsL, List.map_append, ihe _ _ _ _ h1, ihes.2 _ _ _ _ _ h2]
    · intro ctx sep k s es' h
      simp only [PlacedTail, adv_add'] at h
      obtain ⟨e', r', rfl, h1, h2⟩ := h
      simp only [spansOfL, offsTail, List.map_append, ihe _ _ _ _ h1, ihes.2 _ _ _ _ _ h2]

/-- **all the spans of a laid-out tree**, node by node in preorder: the span of each node runs from
the state reached from `s` by consuming the text before the node's first character to the state reached
by consuming the text up to its last character -/
theorem Placed.spans {ctx : Nat} {s : PState} {e e' : Expr} (h : Placed ctx s e e') :
    spansOf e' = (offs ctx 0 e).map (spanAt s) :=
  placed_offs_all e ctx 0 s e' (by rw [adv_zero]; exact h)

theorem spanAt_start (s : PState) (ab : Nat × Nat) :
    (spanAt s ab).line = (s.adv ab.1).line ∧ (spanAt s ab).cs = (s.adv ab.1).col := ⟨rfl, rfl⟩

/-! ### the offsets are those of the nodes' own texts -/

mutual
/-- all nodes, in preorder -/
def nodesOf : Expr → List Expr
  | .term t d l sp => [.term t d l sp]
  | .nonterm n l sp => [.nonterm n l sp]
  | .cmd c a l sp => [.cmd c a l sp]
  | .seq cs sp => .seq cs sp :: nodesOfL cs
  | .alt cs sp => .alt cs sp :: nodesOfL cs
  | .fb cs sp => .fb cs sp :: nodesOfL cs
  | .opt c sp => .opt c sp :: nodesOf c
  | .many1 c sp => .many1 c sp :: nodesOf c
  | .dd c d sp => .dd c d sp :: nodesOf c
  | .sub c l sp => .sub c l sp :: nodesOf c
def nodesOfL : ExprL → List Expr
  | .nil => []
  | .cons e es => nodesOf e ++ nodesOfL es
end

/-- the characters of `X` from offset `ab.1` up to offset `ab.2` -/
def slice (X : List Char) (ab : Nat × Nat) : List Char := (X.drop ab.1).take (ab.2 - ab.1)

theorem slice_mid (X pre T post : List Char) (hX : X = pre ++ T ++ post) (k n : Nat)
    (hk : k = pre.length) (hn : n = T.length) : slice X (k, k + n) = T := by
  subst hX hk hn
  simp [slice, List.append_assoc]

theorem parenIf_eq (b : Bool) (T : List Char) :
    parenIf b T = (if b then ['('] else []) ++ T ++ (if b then [')'] else []) := by
  cases b <;> simp [parenIf]

theorem length_open (b : Bool) : (if b then ['('] else [] : List Char).length = b.toNat := by
  cases b <;> rfl

theorem offs_own_text_all (X : List Char) (e : Expr) : NF e → ∀ ctx pre post, X = pre ++ pp ctx e ++ post →
    (offs ctx pre.length e).map (slice X) = (nodesOf e).map (pp 0) := by
  refine Expr.rec
    (motive_1 := fun e => NF e → ∀ ctx pre post, X = pre ++ pp ctx e ++ post →
      (offs ctx pre.length e).map (slice X) = (nodesOf e).map (pp 0))
    (motive_2 := fun es => NFL es →
      (∀ ctx sep pre post, X = pre ++ ppList ctx sep es ++ post →
        (offsL ctx sep pre.length es).map (slice X) = (nodesOfL es).map (pp 0)) ∧
      (∀ ctx sep pre post, X = pre ++ ppTail ctx sep es ++ post →
        (offsTail ctx sep pre.length es).map (slice X) = (nodesOfL es).map (pp 0)))
    ?_ ?_ ?_ ?_ ?_ ?_ ?_ ?_ ?_ ?_ ?_ ?_ e
  · intro t d l sp _ ctx pre post hX
    simp only [offs, nodesOf, List.map_cons, List.map_nil, pp] at hX ⊢
    rw [slice_mid X pre _ post hX _ _ rfl rfl]
  · intro n l sp _ ctx pre post hX
    simp only [offs, nodesOf, List.map_cons, List.map_nil, pp] at hX ⊢
    rw [slice_mid X pre _ post hX _ _ rfl (by simp)]
  · intro c a l sp _ ctx pre post hX
    simp only [offs, nodesOf, List.map_cons, List.map_nil, pp] at hX ⊢
    rw [slice_mid X pre _ post hX _ _ rfl rfl]
  · intro cs sp ih h ctx pre post hX
    simp only [NF] at h
    simp only [pp, parenIf_eq] at hX
    simp only [offs, nodesOf, List.map_cons]
    have hX' : X = (pre ++ (if decide (3 ≤ ctx) then ['('] else [])) ++ ppList 3 sepS cs ++
        ((if decide (3 ≤ ctx) then [')'] else []) ++ post) := by rw [hX]; simp [List.append_assoc]
    have hl : pre.length + (decide (3 ≤ ctx)).toNat =
        (pre ++ (if decide (3 ≤ ctx) then ['('] else [])).length := by
      rw [List.length_append, length_open]
    rw [slice_mid X _ _ _ hX' _ _ hl rfl, hl, (ih h.2).1 _ _ _ _ hX']
    simp [pp, parenIf]
  · intro cs sp ih h ctx pre post hX
    simp only [NF] at h
    simp only [pp, parenIf_eq] at hX
    simp only [offs, nodesOf, List.map_cons]
    have hX' : X = (pre ++ (if decide (2 ≤ ctx) then ['('] else [])) ++ ppList 2 sepA cs ++
        ((if decide (2 ≤ ctx) then [')'] else []) ++ post) := by rw [hX]; simp [List.append_assoc]
    have hl : pre.length + (decide (2 ≤ ctx)).toNat =
        (pre ++ (if decide (2 ≤ ctx) then ['('] else [])).length := by
      rw [List.length_append, length_open]
    rw [slice_mid X _ _ _ hX' _ _ hl rfl, hl, (ih h.2).1 _ _ _ _ hX']
    simp [pp, parenIf]
  · intro cs sp ih h ctx pre post hX
    simp only [NF] at h
    simp only [pp, parenIf_eq] at hX
    simp only [offs, nodesOf, List.map_cons]
    have hX' : X = (pre ++ (if decide (1 ≤ ctx) then ['('] else [])) ++ ppList 1 sepF cs ++
        ((if decide (1 ≤ ctx) then [')'] else []) ++ post) := by rw [hX]; simp [List.append_assoc]
    have hl : pre.length + (decide (1 ≤ ctx)).toNat =
        (pre ++ (if decide (1 ≤ ctx) then ['('] else [])).length := by
      rw [List.length_append, length_open]
    rw [slice_mid X _ _ _ hX' _ _ hl rfl, hl, (ih h.2).1 _ _ _ _ hX']
    simp [pp, parenIf]
  · intro c sp ih h ctx pre post hX
    simp only [NF] at h
    simp only [pp] at hX
    simp only [offs, nodesOf, List.map_cons]
    have hX' : X = (pre ++ ['[']) ++ pp 0 c ++ ([']'] ++ post) := by rw [hX]; simp [List.append_assoc]
    have hl : pre.length + 1 = (pre ++ ['[']).length := by simp
    rw [slice_mid X pre _ post hX _ _ rfl (by simp), hl, ih h _ _ _ hX']
    simp [pp]
  · intro c sp ih h ctx pre post hX
    simp only [NF] at h
    simp only [pp, parenIf_eq] at hX
    simp only [offs, nodesOf, List.map_cons]
    have hX' : X = (pre ++ (if decide (4 ≤ ctx) then ['('] else [])) ++ (pp 4 c ++ ['.', '.', '.']) ++
        ((if decide (4 ≤ ctx) then [')'] else []) ++ post) := by rw [hX]; simp [List.append_assoc]
    have hX'' : X = (pre ++ (if decide (4 ≤ ctx) then ['('] else [])) ++ pp 4 c ++
        (['.', '.', '.'] ++ ((if decide (4 ≤ ctx) then [')'] else []) ++ post)) := by
      rw [hX]; simp [List.append_assoc]
    have hl : pre.length + (decide (4 ≤ ctx)).toNat =
        (pre ++ (if decide (4 ≤ ctx) then ['('] else [])).length := by
      rw [List.length_append, length_open]
    rw [slice_mid X _ _ _ hX' _ _ hl (by simp), hl, ih h _ _ _ hX'']
    simp [pp, parenIf]
  · intro c d sp _ h; simp [NF] at h
  · intro c l sp _ h; simp [NF] at h
  · intro _
    constructor
    · intro ctx sep pre post _; simp [offsL, nodesOfL]
    · intro ctx sep pre post _; simp [offsTail, nodesOfL]
  · intro e es ihe ihes h
    simp only [NFL] at h
    constructor
    · intro ctx sep pre post hX
      simp only [ppList] at hX
      have hX1 : X = pre ++ pp ctx e ++ (ppTail ctx sep es ++ post) := by rw [hX]; simp [List.append_assoc]
      have hX2 : X = (pre ++ pp ctx e) ++ ppTail ctx sep es ++ post := by rw [hX]; simp [List.append_assoc]
      have hl : pre.length + (pp ctx e).length = (pre ++ pp ctx e).length := by simp
      simp only [offsL, nodesOfL, List.map_append]
      rw [ihe h.1 _ _ _ hX1, hl, (ihes h.2).2 _ _ _ _ hX2]
    · intro ctx sep pre post hX
      simp only [ppTail] at hX
      have hX1 : X = (pre ++ sep) ++ pp ctx e ++ (ppTail ctx sep es ++ post) := by
        rw [hX]; simp [List.append_assoc]
      have hX2 : X = (pre ++ sep ++ pp ctx e) ++ ppTail ctx sep es ++ post := by
        rw [hX]; simp [List.append_assoc]
      have hl1 : pre.length + sep.length = (pre ++ sep).length := by simp
      have hl2 : (pre ++ sep).length + (pp ctx e).length = (pre ++ sep ++ pp ctx e).length := by
        simp only [List.length_append]
      simp only [offsTail, nodesOfL, List.map_append]
      rw [hl1, ihe h.1 _ _ _ hX1, hl2, (ihes h.2).2 _ _ _ _ hX2]

/-- **the offsets of `offs` are those of the constructs**: in any text `X` that contains `pp ctx e`
from offset `pre.length` on, the characters between the two offsets recorded for a node are exactly
the node's own text (its printed form without surrounding parentheses) -/
theorem offs_own_text (X : List Char) (e : Expr) (hnf : NF e) (ctx : Nat) (pre post : List Char)
    (hX : X = pre ++ pp ctx e ++ post) :
    (offs ctx pre.length e).map (slice X) = (nodesOf e).map (pp 0) :=
  offs_own_text_all X e hnf ctx pre post hX

/-! ### absolute positions in a file -/

theorem adv_of_rest_nil (s : PState) (h : s.rest = []) (n : Nat) : s.adv n = s := by
  obtain ⟨r, l, c⟩ := s
  simp only at h; subst h
  cases n <;> simp [PState.adv]

/-- the state `k` characters into a file read from its beginning is at line 1 + the number of line
feeds among these `k` characters, and at the byte column (from 1) after the last of them -/
theorem init_adv_position (t : List Char) (k : Nat) :
    ((PState.init t).adv k).line = 1 + (t.take k).count '\n' ∧
    ((PState.init t).adv k).col = 1 + bytesLen (Parse.Pos.lastLine (t.take k)) := by
  by_cases hk : k ≤ t.length
  · have := Parse.Pos.init_position t (t.take k) (t.drop k) (List.take_append_drop k t).symm
    rwa [List.length_take, Nat.min_eq_left hk] at this
  · have hk' : t.length ≤ k := by omega
    have h1 : (PState.init t).adv k = (PState.init t).adv t.length := by
      obtain ⟨d, rfl⟩ : ∃ d, k = t.length + d := ⟨k - t.length, by omega⟩
      rw [← adv_add']
      exact adv_of_rest_nil _ (by rw [adv_rest']; simp [PState.init]) d
    have := Parse.Pos.init_position t t [] (by simp)
    rw [h1, List.take_of_length_le hk']
    exact this

/-- a span between two offsets of a file starts at the line and byte column of its first offset -/
theorem spanAt_init (t : List Char) (ab : Nat × Nat) :
    (spanAt (PState.init t) ab).line = 1 + (t.take ab.1).count '\n' ∧
    (spanAt (PState.init t) ab).cs = 1 + bytesLen (Parse.Pos.lastLine (t.take ab.1)) :=
  init_adv_position t ab.1

/-- a tree laid out at offset `k` of a file: the root (context 0) starts at the line and byte column
of offset `k` -/
theorem Placed.span_top_in_file {t : List Char} {k : Nat} {e e' : Expr}
    (h : Placed 0 ((PState.init t).adv k) e e') :
    e'.span.line = 1 + (t.take k).count '\n' ∧
    e'.span.cs = 1 + bytesLen (Parse.Pos.lastLine (t.take k)) := by
  rw [h.span_top_start.1, h.span_top_start.2]
  exact init_adv_position t k

/-- **Every span points at its construct, in a file**: when the printed form of a normal-form tree
`e` stands in a file `t` after the text `pre` (and is followed by something that ends an expression),
`fallback_expr`, started there, returns `e` up to spans, and, node by node in preorder, the span of
each node starts at the line (1 + line feeds before) and byte column (1 + bytes since the last line
feed) of the offset in `t` of the first character of that node's own text — `offs` lists these
offsets, and the characters of `t` between the two offsets of a node are the printed form of that
node. -/
theorem fallback_spans_in_file (pre : List Char) (e : Expr) (hnf : NF e) (rest : List Char)
    (hrest : Follows rest) (t : List Char) (ht : t = pre ++ pp 0 e ++ rest)
    (fuel : Nat) (hfuel : fuelNeeded e ≤ fuel) :
    ∃ e', fallback fuel ((PState.init t).adv pre.length) =
        some ((PState.init t).adv (pre.length + (pp 0 e).length), e') ∧
      e'.eraseSpans = e.eraseSpans ∧
      spansOf e' = (offs 0 pre.length e).map (spanAt (PState.init t)) ∧
      (offs 0 pre.length e).map (slice t) = (nodesOf e).map (pp 0) ∧
      ∀ sp ∈ spansOf e', ∃ ab ∈ offs 0 pre.length e,
        sp.line = 1 + (t.take ab.1).count '\n' ∧
        sp.cs = 1 + bytesLen (Parse.Pos.lastLine (t.take ab.1)) := by
  have hs : ((PState.init t).adv pre.length).rest = pp 0 e ++ rest := by
    apply adv_rest_append
    simp [PState.init, ht, List.append_assoc]
  obtain ⟨e', h1, h2⟩ := fallback_spans e hnf rest hrest _ hs fuel hfuel
  have h3 := placed_offs_all e 0 pre.length (PState.init t) e' h2
  refine ⟨e', by rw [h1, adv_add'], h2.eraseSpans, h3, offs_own_text t e hnf 0 pre rest ht, ?_⟩
  intro sp hsp
  rw [h3, List.mem_map] at hsp
  obtain ⟨ab, hab, rfl⟩ := hsp
  exact ⟨ab, hab, spanAt_init t ab⟩

end Complgen.Parse
