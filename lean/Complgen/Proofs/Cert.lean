/-
Soundness of the certificate checkers of `Complgen.Cert.KAuto`.
-/
import Complgen.Cert.KAuto
namespace Complgen.Cert

/-! ### basic facts about `step`, `runFrom`, `acceptsFrom` -/

theorem step_eq_none_of_not_mem_keysFrom (a : KAuto) (q : Nat) (k : String)
    (h : k ∉ a.keysFrom q) : a.step q k = none := by
  unfold KAuto.step
  simp only [Option.map_eq_none_iff, List.find?_eq_none]
  intro t ht hc
  apply h
  simp only [Bool.and_eq_true, beq_iff_eq] at hc
  simp only [KAuto.keysFrom, List.mem_map, List.mem_filter, beq_iff_eq]
  exact ⟨t, ⟨ht, hc.1⟩, hc.2⟩

theorem step_some_mem_trans (a : KAuto) (q : Nat) (k : String) (q' : Nat)
    (h : a.step q k = some q') : (q, k, q') ∈ a.trans := by
  unfold KAuto.step at h
  simp only [Option.map_eq_some_iff] at h
  obtain ⟨t, ht, rfl⟩ := h
  have hm := List.mem_of_find?_eq_some ht
  have hp := List.find?_some ht
  simp only [Bool.and_eq_true, beq_iff_eq] at hp
  obtain ⟨t1, t2, t3⟩ := t
  simp only at hp
  obtain ⟨rfl, rfl⟩ := hp
  exact hm

theorem runFrom_nil (a : KAuto) (q : Nat) : a.runFrom q [] = some q := rfl

theorem runFrom_cons (a : KAuto) (q : Nat) (k : String) (w : List String) :
    a.runFrom q (k :: w) = (a.step q k).bind (a.runFrom · w) := by
  rw [KAuto.runFrom]
  cases a.step q k <;> rfl

theorem runFrom_append (a : KAuto) (q : Nat) (u v : List String) :
    a.runFrom q (u ++ v) = (a.runFrom q u).bind (a.runFrom · v) := by
  induction u generalizing q with
  | nil => simp [runFrom_nil]
  | cons k u ih =>
    rw [List.cons_append, runFrom_cons, runFrom_cons]
    cases a.step q k with
    | none => rfl
    | some q' => simpa using ih q'

theorem acceptsFrom_nil (a : KAuto) (q : Nat) : a.acceptsFrom q [] = a.acc.contains q := rfl

theorem acceptsFrom_cons (a : KAuto) (q : Nat) (k : String) (w : List String) :
    a.acceptsFrom q (k :: w) =
      match a.step q k with
      | some q' => a.acceptsFrom q' w
      | none => false := by
  unfold KAuto.acceptsFrom
  rw [runFrom_cons]
  cases a.step q k <;> rfl

theorem acceptsFrom_append_of_runFrom (a : KAuto) (q q' : Nat) (u v : List String)
    (h : a.runFrom q u = some q') : a.acceptsFrom q (u ++ v) = a.acceptsFrom q' v := by
  unfold KAuto.acceptsFrom
  rw [runFrom_append, h]
  rfl

theorem acceptsFrom_append_of_runFrom_none (a : KAuto) (q : Nat) (u v : List String)
    (h : a.runFrom q u = none) : a.acceptsFrom q (u ++ v) = false := by
  unfold KAuto.acceptsFrom
  rw [runFrom_append, h]
  rfl

/-! ### `states` -/

theorem mem_states (a : KAuto) (s : Nat) :
    s ∈ a.states ↔ s = a.start ∨ ∃ t ∈ a.trans, s = t.1 ∨ s = t.2.2 := by
  unfold KAuto.states
  rw [List.mem_eraseDups]
  simp only [List.mem_cons, List.mem_flatMap, List.not_mem_nil, or_false]

theorem start_mem_states (a : KAuto) : a.start ∈ a.states :=
  (mem_states a _).2 (Or.inl rfl)

theorem step_mem_states (a : KAuto) (q : Nat) (k : String) (q' : Nat)
    (h : a.step q k = some q') : q' ∈ a.states :=
  (mem_states a _).2 (Or.inr ⟨_, step_some_mem_trans a q k q' h, Or.inr rfl⟩)

theorem runFrom_mem_states (a : KAuto) (q : Nat) (w : List String) (q' : Nat)
    (hq : q ∈ a.states) (h : a.runFrom q w = some q') : q' ∈ a.states := by
  induction w generalizing q with
  | nil =>
    rw [runFrom_nil] at h
    cases h
    exact hq
  | cons k w ih =>
    rw [runFrom_cons] at h
    cases hs : a.step q k with
    | none => rw [hs] at h; cases h
    | some q1 =>
      rw [hs] at h
      exact ih q1 (step_mem_states a q k q1 hs) h

theorem nodup_eraseDups_aux (n : Nat) : ∀ l : List Nat, l.length ≤ n → l.eraseDups.Nodup := by
  induction n with
  | zero =>
    intro l hl
    have : l = [] := List.eq_nil_of_length_eq_zero (Nat.le_zero.1 hl)
    subst this
    simp
  | succ n ih =>
    intro l hl
    cases l with
    | nil => simp
    | cons x l =>
      rw [List.eraseDups_cons, List.nodup_cons]
      refine ⟨?_, ?_⟩
      · rw [List.mem_eraseDups, List.mem_filter]
        intro h
        simp at h
      · apply ih
        have h1 := List.length_filter_le (fun b => !b == x) l
        simp only [List.length_cons] at hl
        omega

theorem nodup_states (a : KAuto) : a.states.Nodup :=
  nodup_eraseDups_aux _ _ (Nat.le_refl _)

/-! ### bisimulation -/

theorem bisim_inv (a b : KAuto) (R : List (Nat × Nat)) (h : bisimCheck a b R = true)
    (p q : Nat) (hpq : (p, q) ∈ R) :
    a.acc.contains p = b.acc.contains q ∧
    ∀ k, match a.step p k, b.step q k with
      | some p', some q' => (p', q') ∈ R
      | none, none => True
      | _, _ => False := by
  unfold bisimCheck at h
  rw [Bool.and_eq_true, List.all_eq_true] at h
  have h2 := h.2 (p, q) hpq
  simp only [Bool.and_eq_true, beq_iff_eq, List.all_eq_true] at h2
  refine ⟨h2.1, ?_⟩
  intro k
  by_cases hk : k ∈ a.keysFrom p ++ b.keysFrom q
  · have h3 := h2.2 k hk
    revert h3
    cases a.step p k <;> cases b.step q k <;> simp
  · rw [List.mem_append, not_or] at hk
    rw [step_eq_none_of_not_mem_keysFrom a p k hk.1, step_eq_none_of_not_mem_keysFrom b q k hk.2]
    trivial

theorem bisim_acceptsFrom (a b : KAuto) (R : List (Nat × Nat)) (h : bisimCheck a b R = true)
    (w : List String) : ∀ p q, (p, q) ∈ R → a.acceptsFrom p w = b.acceptsFrom q w := by
  induction w with
  | nil =>
    intro p q hpq
    rw [acceptsFrom_nil, acceptsFrom_nil]
    exact (bisim_inv a b R h p q hpq).1
  | cons k w ih =>
    intro p q hpq
    rw [acceptsFrom_cons, acceptsFrom_cons]
    have h3 := (bisim_inv a b R h p q hpq).2 k
    revert h3
    cases a.step p k with
    | none =>
      cases b.step q k with
      | none => intro _; rfl
      | some q' => intro h3; exact h3.elim
    | some p' =>
      cases b.step q k with
      | none => intro h3; exact h3.elim
      | some q' => intro h3; exact ih p' q' h3

/-- a successful bisimulation check implies equal languages -/
theorem bisim_sound (a b : KAuto) (R : List (Nat × Nat)) (h : bisimCheck a b R = true) :
    ∀ w, a.accepts w = b.accepts w := by
  intro w
  unfold KAuto.accepts
  apply bisim_acceptsFrom a b R h w
  unfold bisimCheck at h
  rw [Bool.and_eq_true] at h
  exact List.contains_iff_mem.1 h.1

/-! ### access, co-access, distinctness -/

theorem access_sound (a : KAuto) (access : List (Nat × List String))
    (h : accessCheck a access = true) :
    ∀ s ∈ a.states, ∃ w, a.runFrom a.start w = some s := by
  intro s hs
  unfold accessCheck at h
  rw [List.all_eq_true] at h
  have h1 := h s hs
  revert h1
  cases access.find? (·.1 == s) with
  | none => intro h1; cases h1
  | some x =>
    obtain ⟨x1, w⟩ := x
    intro h1
    exact ⟨w, by simpa using h1⟩

theorem coaccess_sound (a : KAuto) (co : List (Nat × List String))
    (h : coaccessCheck a co = true) :
    ∀ s ∈ a.states, ∃ w, a.acceptsFrom s w = true := by
  intro s hs
  unfold coaccessCheck at h
  rw [List.all_eq_true] at h
  have h1 := h s hs
  revert h1
  cases co.find? (·.1 == s) with
  | none => intro h1; cases h1
  | some x =>
    obtain ⟨x1, w⟩ := x
    intro h1
    exact ⟨w, h1⟩

theorem distinct_sound (a : KAuto) (dist : List ((Nat × Nat) × List String))
    (h : distinctCheck a dist = true) :
    ∀ p ∈ a.states, ∀ q ∈ a.states, p ≠ q →
      ∃ w, a.acceptsFrom p w ≠ a.acceptsFrom q w := by
  intro p hp q hq hne
  unfold distinctCheck at h
  rw [List.all_eq_true] at h
  have h1 := h p hp
  rw [List.all_eq_true] at h1
  have h2 := h1 q hq
  rw [Bool.or_eq_true] at h2
  rcases h2 with h2 | h2
  · exact absurd (beq_iff_eq.1 h2) hne
  · revert h2
    cases dist.find? (fun d => d.1 == (p, q) || d.1 == (q, p)) with
    | none => intro h2; cases h2
    | some x =>
      obtain ⟨x1, w⟩ := x
      intro h2
      exact ⟨w, by simpa using h2⟩

/-! ### minimality -/

/-- relational pigeonhole principle on lists -/
theorem length_le_of_rel_inj {R : Nat → Nat → Prop} :
    ∀ (l l' : List Nat), l.Nodup →
      (∀ x ∈ l, ∃ y ∈ l', R x y) →
      (∀ x ∈ l, ∀ x' ∈ l, ∀ y, R x y → R x' y → x = x') →
      l.length ≤ l'.length := by
  intro l
  induction l with
  | nil => intro l' _ _ _; simp
  | cons x l ih =>
    intro l' hnd hex hinj
    rw [List.nodup_cons] at hnd
    obtain ⟨y, hy, hxy⟩ := hex x (List.mem_cons_self)
    have hlen := List.length_erase_of_mem hy
    have hpos : 0 < l'.length := List.length_pos_of_mem hy
    have := ih (l'.erase y) hnd.2
      (by
        intro x' hx'
        obtain ⟨y', hy', hxy'⟩ := hex x' (List.mem_cons_of_mem _ hx')
        refine ⟨y', ?_, hxy'⟩
        have hne : y' ≠ y := by
          intro he
          subst he
          have := hinj x (List.mem_cons_self) x' (List.mem_cons_of_mem _ hx') y' hxy hxy'
          subst this
          exact hnd.1 hx'
        exact (List.mem_erase_of_ne hne).2 hy')
      (by
        intro x1 hx1 x2 hx2 y' h1 h2
        exact hinj x1 (List.mem_cons_of_mem _ hx1) x2 (List.mem_cons_of_mem _ hx2) y' h1 h2)
    simp only [List.length_cons]
    omega

/-- an automaton that passes the three checks is minimal: no automaton with the same language
has fewer states -/
theorem minimal_card (a : KAuto) (access co : List (Nat × List String))
    (dist : List ((Nat × Nat) × List String))
    (ha : accessCheck a access = true) (hc : coaccessCheck a co = true)
    (hd : distinctCheck a dist = true)
    (b : KAuto) (hL : ∀ w, b.accepts w = a.accepts w) :
    a.states.length ≤ b.states.length := by
  have hacc := access_sound a access ha
  have hco := coaccess_sound a co hc
  have hdist := distinct_sound a dist hd
  apply length_le_of_rel_inj (R := fun s t =>
      ∃ w, a.runFrom a.start w = some s ∧ b.runFrom b.start w = some t)
    a.states b.states (nodup_states a)
  · intro s hs
    obtain ⟨w, hw⟩ := hacc s hs
    obtain ⟨c, hcw⟩ := hco s hs
    have h1 : a.accepts (w ++ c) = true := by
      unfold KAuto.accepts
      rw [acceptsFrom_append_of_runFrom a _ s w c hw]
      exact hcw
    have h2 : b.accepts (w ++ c) = true := by rw [hL]; exact h1
    cases hb : b.runFrom b.start w with
    | none =>
      unfold KAuto.accepts at h2
      rw [acceptsFrom_append_of_runFrom_none b _ w c hb] at h2
      cases h2
    | some t =>
      exact ⟨t, runFrom_mem_states b _ w t (start_mem_states b) hb, w, hw, hb⟩
  · intro s hs s' hs' t ⟨w, hw, hbw⟩ ⟨w', hw', hbw'⟩
    apply Classical.byContradiction
    intro hne
    obtain ⟨d, hd'⟩ := hdist s hs s' hs' hne
    apply hd'
    have e1 : a.accepts (w ++ d) = a.acceptsFrom s d :=
      acceptsFrom_append_of_runFrom a _ s w d hw
    have e2 : a.accepts (w' ++ d) = a.acceptsFrom s' d :=
      acceptsFrom_append_of_runFrom a _ s' w' d hw'
    have e3 : b.accepts (w ++ d) = b.acceptsFrom t d :=
      acceptsFrom_append_of_runFrom b _ t w d hbw
    have e4 : b.accepts (w' ++ d) = b.acceptsFrom t d :=
      acceptsFrom_append_of_runFrom b _ t w' d hbw'
    rw [← e1, ← e2, ← hL, ← hL, e3, e4]

end Complgen.Cert
