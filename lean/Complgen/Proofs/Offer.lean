/-
C01: what the completion function of the bash template offers always extends the typed text —
proved over the model of the template (`Model/BashRt.lean`), for every table set, every state, every
typed prefix and every output of the external commands.
-/
import Complgen.Model.BashRt
namespace Complgen.BashRt

theorem isPrefix_append_of (a b c : List Char) (h : isPrefix b c = true) : isPrefix (a ++ b) (a ++ c) = true := by
  unfold isPrefix at *
  induction a with
  | nil => simpa using h
  | cons x a ih => simpa [List.isPrefixOf] using ih

/-- the candidates collected inside a word extend the typed word -/
theorem subComplete_levels_extends (T : Tables) (out : Nat → List String) (w : List Char) (q i : Nat) :
    ∀ (fuel lvl : Nat) (cands : List String) (c : String),
      c ∈ subComplete.levels T out w q (String.ofList (w.take i)) (w.drop i) fuel lvl cands → isPrefix w c.toList = true
  | 0, _, _, c, h => by simp [subComplete.levels] at h
  | fuel + 1, lvl, cands, c, h => by
    unfold subComplete.levels at h
    simp only at h
    split at h
    · -- something matched on this level
      rcases List.mem_append.mp h with h1 | h2
      · exact (List.mem_filter.mp h1).2
      · obtain ⟨cmd, _, hc⟩ := List.mem_flatMap.mp h2
        obtain ⟨o, ho, rfl⟩ := List.mem_map.mp hc
        have hp := (List.mem_filter.mp ho).2
        have := isPrefix_append_of (w.take i) (w.drop i) o.toList hp
        simpa [String.toList_append, List.take_append_drop] using this
    · split at h
      · cases h
      · exact subComplete_levels_extends T out w q i fuel (lvl + 1) _ c h

theorem subComplete_extends (T : Tables) (out : Nat → List String) (word : String) (c : String)
    (h : c ∈ subComplete T out word) : isPrefix word.toList c.toList = true := by
  unfold subComplete at h
  simp only at h
  exact subComplete_levels_extends T out word.toList _ _ _ _ _ c h

theorem offer_levels_extends (S : Script) (q : Nat) (prefix_ : String) :
    ∀ (fuel lvl : Nat) (cands : List String) (c : String),
      c ∈ offer.levels S q prefix_ S.main prefix_.toList fuel lvl cands → isPrefix prefix_.toList c.toList = true
  | 0, _, _, c, h => by simp [offer.levels] at h
  | fuel + 1, lvl, cands, c, h => by
    unfold offer.levels at h
    simp only at h
    split at h
    · rcases List.mem_append.mp h with h12 | h3
      · rcases List.mem_append.mp h12 with h1 | h2
        · exact (List.mem_filter.mp h1).2
        · obtain ⟨id, _, hc⟩ := List.mem_flatMap.mp h2
          exact subComplete_extends _ _ _ c hc
      · obtain ⟨cmd, _, hc⟩ := List.mem_flatMap.mp h3
        exact (List.mem_filter.mp hc).2
    · split at h
      · cases h
      · exact offer_levels_extends S q prefix_ fuel (lvl + 1) _ c h

/-- **Every candidate the template offers extends the typed text**, whatever the tables, the state
and the output of the external commands. -/
theorem offer_extends (S : Script) (q : Nat) (prefix_ : String) (c : String) (h : c ∈ offer S q prefix_) :
    isPrefix prefix_.toList c.toList = true := by
  unfold offer at h
  simp only at h
  exact offer_levels_extends S q prefix_ _ _ _ c h

end Complgen.BashRt
