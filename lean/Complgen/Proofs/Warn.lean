/-
C15: the `unused` bookkeeping of the model of check.rs ends with exactly the plain definitions whose
name occurs in no statement (`Spec.unusedNames`), for every grammar the model accepts.
-/
import Complgen.Proofs.Passes
import Complgen.Proofs.Validate
import Complgen.Proofs.Choice
import Complgen.Spec.Warn
namespace Complgen.Check
open Complgen

/-! ### filters -/

def dropKeys (R : List String) (u : AList Span) : AList Span := u.filter fun p => !R.contains p.1

theorem erase_eq_dropKeys (u : AList Span) (n : String) : u.erase n = dropKeys [n] u := by
  unfold AList.erase dropKeys
  apply List.filter_congr
  intro p _
  by_cases h : p.1 = n
  · simp [h]
  · have : (p.1 != n) = true := by simpa using h
    simp [this, h]

theorem dropKeys_dropKeys (A B : List String) (u : AList Span) :
    dropKeys B (dropKeys A u) = dropKeys (A ++ B) u := by
  unfold dropKeys
  rw [List.filter_filter]
  apply List.filter_congr
  intro p _
  simp [List.contains_append, Bool.not_or, Bool.and_comm]

theorem dropKeys_nil (u : AList Span) : dropKeys [] u = u := by
  unfold dropKeys; simp

theorem dropKeys_congr (A B : List String) (u : AList Span) (h : ∀ x, x ∈ A ↔ x ∈ B) :
    dropKeys A u = dropKeys B u := by
  unfold dropKeys
  apply List.filter_congr
  intro p _
  have : A.contains p.1 = B.contains p.1 := by
    cases ha : A.contains p.1 <;> cases hb : B.contains p.1 <;> simp_all
  rw [this]

theorem dropKeys_disjoint (R : List String) (u : AList Span) (h : ∀ p ∈ u, p.1 ∉ R) : dropKeys R u = u := by
  unfold dropKeys
  apply List.filter_eq_self.mpr
  intro p hp
  have := h p hp
  simpa using this

/-! ### `specialize` and the unused map -/

mutual
theorem specialize_unused (sh : Shell) (fbs : AList String) (defined : List String) :
    ∀ (e : Expr) (b : Book), NoDD e = true →
      (specialize sh fbs defined e b).2.unused = dropKeys (Spec.names e) b.unused
  | .term .., b, _ => by simp [specialize, Spec.names, dropKeys_nil]
  | .cmd .., b, _ => by simp [specialize, Spec.names, dropKeys_nil]
  | .dd c d s, b, h => by simp [NoDD] at h
  | .nonterm n l s, b, _ => by
    unfold specialize
    simp only [Spec.names]
    rw [← erase_eq_dropKeys]
    cases hsp : b.specs.get? n with
    | some sp => simp [hsp]
    | none =>
      simp only [hsp]
      split
      · rfl
      · rename_i c compadd b' hp
        split at hp
        · cases hp
        · split at hp
          · cases hp; rfl
          · split at hp
            · cases hp; rfl
            · cases hp
  | .sub c l s, b, h => by
    have := specialize_unused sh fbs defined c b (by simpa [NoDD] using h)
    simpa [specialize, Spec.names] using this
  | .opt c s, b, h => by
    have := specialize_unused sh fbs defined c b (by simpa [NoDD] using h)
    simpa [specialize, Spec.names] using this
  | .many1 c s, b, h => by
    have := specialize_unused sh fbs defined c b (by simpa [NoDD] using h)
    simpa [specialize, Spec.names] using this
  | .seq cs s, b, h => by
    have := specializeL_unused sh fbs defined cs b (by simpa [NoDD] using h)
    simpa [specialize, Spec.names] using this
  | .alt cs s, b, h => by
    have := specializeL_unused sh fbs defined cs b (by simpa [NoDD] using h)
    simpa [specialize, Spec.names] using this
  | .fb cs s, b, h => by
    have := specializeL_unused sh fbs defined cs b (by simpa [NoDD] using h)
    simpa [specialize, Spec.names] using this
theorem specializeL_unused (sh : Shell) (fbs : AList String) (defined : List String) :
    ∀ (es : ExprL) (b : Book), NoDDL es = true →
      (specializeL sh fbs defined es b).2.unused = dropKeys (Spec.namesL es) b.unused
  | .nil, b, _ => by simp [specializeL, Spec.namesL, dropKeys_nil]
  | .cons e es, b, h => by
    simp only [NoDDL, Bool.and_eq_true] at h
    have h1 := specialize_unused sh fbs defined e b h.1
    have h2 := specializeL_unused sh fbs defined es (specialize sh fbs defined e b).2 h.2
    simp only [specializeL, Spec.namesL]
    rw [h2, h1, dropKeys_dropKeys]
end

/-! ### names through the passes -/

mutual
theorem distr_names : ∀ (e : Expr) (p : Option String), Spec.names (distr e p).1 = Spec.names e
  | .dd c d s, p => by simp [distr, Spec.names, distr_names c (some d)]
  | .term t none l s, some d => by simp [distr, Spec.names]
  | .term t (some d') l s, some d => by simp [distr, Spec.names]
  | .term t d l s, none => by cases d <;> simp [distr, Spec.names]
  | .nonterm n l s, p => by simp [distr, Spec.names]
  | .cmd c a l s, p => by simp [distr, Spec.names]
  | .seq cs s, p => by simp [distr, Spec.names, distrSeq_names cs p]
  | .fb cs s, p => by simp [distr, Spec.names, distrSeq_names cs p]
  | .alt cs s, p => by simp [distr, Spec.names, distrAlt_names cs p]
  | .opt c s, p => by simp [distr, Spec.names, distr_names c p]
  | .many1 c s, p => by simp [distr, Spec.names, distr_names c p]
  | .sub c l s, p => by simp [distr, Spec.names, distr_names c p]
theorem distrSeq_names : ∀ (es : ExprL) (p : Option String), Spec.namesL (distrSeq es p).1 = Spec.namesL es
  | .nil, p => by simp [distrSeq, Spec.namesL]
  | .cons e es, p => by simp [distrSeq, Spec.namesL, distr_names e p, distrSeq_names es (distr e p).2]
theorem distrAlt_names : ∀ (es : ExprL) (p : Option String), Spec.namesL (distrAlt es p).1 = Spec.namesL es
  | .nil, p => by simp [distrAlt, Spec.namesL]
  | .cons e es, p => by simp [distrAlt, Spec.namesL, distr_names e p, distrAlt_names es p]
end

theorem distribute_names (e : Expr) : Spec.names (distribute e) = Spec.names e := distr_names e none

mutual
/-- specialisation only removes references (those that become commands) -/
theorem specialize_names_sub (sh : Shell) (fbs : AList String) (defined : List String) :
    ∀ (e : Expr) (b : Book) (x : String), x ∈ Spec.names (specialize sh fbs defined e b).1 → x ∈ Spec.names e
  | .term .., b, x, h => by simpa [specialize, Spec.names] using h
  | .cmd .., b, x, h => by simpa [specialize, Spec.names] using h
  | .dd c d s, b, x, h => by simpa [specialize, Spec.names] using h
  | .nonterm n l s, b, x, h => by
    unfold specialize at h
    simp only at h
    split at h
    · simpa [Spec.names] using h
    · simp [Spec.names] at h
  | .sub c l s, b, x, h => by
    simp only [specialize, Spec.names] at h ⊢
    exact specialize_names_sub sh fbs defined c b x h
  | .opt c s, b, x, h => by
    simp only [specialize, Spec.names] at h ⊢
    exact specialize_names_sub sh fbs defined c b x h
  | .many1 c s, b, x, h => by
    simp only [specialize, Spec.names] at h ⊢
    exact specialize_names_sub sh fbs defined c b x h
  | .seq cs s, b, x, h => by
    simp only [specialize, Spec.names] at h ⊢
    exact specializeL_names_sub sh fbs defined cs b x h
  | .alt cs s, b, x, h => by
    simp only [specialize, Spec.names] at h ⊢
    exact specializeL_names_sub sh fbs defined cs b x h
  | .fb cs s, b, x, h => by
    simp only [specialize, Spec.names] at h ⊢
    exact specializeL_names_sub sh fbs defined cs b x h
theorem specializeL_names_sub (sh : Shell) (fbs : AList String) (defined : List String) :
    ∀ (es : ExprL) (b : Book) (x : String), x ∈ Spec.namesL (specializeL sh fbs defined es b).1 → x ∈ Spec.namesL es
  | .nil, b, x, h => by simpa [specializeL, Spec.namesL] using h
  | .cons e es, b, x, h => by
    simp only [specializeL, Spec.namesL, List.mem_append] at h ⊢
    rcases h with h | h
    · exact .inl (specialize_names_sub sh fbs defined e b x h)
    · exact .inr (specializeL_names_sub sh fbs defined es _ x h)
end

/-! ### `resolve` -/

/-- names occurring in the bodies of a definition table -/
def bodyNames (defs : AList (Span × Expr)) : List String := defs.flatMap fun d => Spec.names d.2.2

mutual
/-- expanding definitions erases nothing from a map whose keys do not occur in the expression -/
theorem resolve_unused_id (defs : AList (Span × Expr)) :
    ∀ (e : Expr) (u : AList Span), (∀ p ∈ u, p.1 ∉ Spec.names e) → (resolve defs e u).2 = u
  | .term .., u, _ => by simp [resolve]
  | .cmd .., u, _ => by simp [resolve]
  | .dd .., u, _ => by simp [resolve]
  | .nonterm n l s, u, h => by
    unfold resolve
    split
    · simp only
      rw [erase_eq_dropKeys]
      exact dropKeys_disjoint [n] u (by intro p hp; simpa [Spec.names] using h p hp)
    · rfl
  | .sub c l s, u, h => by
    simp only [resolve]; exact resolve_unused_id defs c u (by simpa [Spec.names] using h)
  | .opt c s, u, h => by
    simp only [resolve]; exact resolve_unused_id defs c u (by simpa [Spec.names] using h)
  | .many1 c s, u, h => by
    simp only [resolve]; exact resolve_unused_id defs c u (by simpa [Spec.names] using h)
  | .seq cs s, u, h => by
    simp only [resolve]; exact resolveL_unused_id defs cs u (by simpa [Spec.names] using h)
  | .alt cs s, u, h => by
    simp only [resolve]; exact resolveL_unused_id defs cs u (by simpa [Spec.names] using h)
  | .fb cs s, u, h => by
    simp only [resolve]; exact resolveL_unused_id defs cs u (by simpa [Spec.names] using h)
theorem resolveL_unused_id (defs : AList (Span × Expr)) :
    ∀ (es : ExprL) (u : AList Span), (∀ p ∈ u, p.1 ∉ Spec.namesL es) → (resolveL defs es u).2 = u
  | .nil, u, _ => by simp [resolveL]
  | .cons e es, u, h => by
    have h1 := resolve_unused_id defs e u (by
      intro p hp hx; exact h p hp (by simp [Spec.namesL, hx]))
    simp only [resolveL]
    rw [h1]
    exact resolveL_unused_id defs es u (by
      intro p hp hx; exact h p hp (by simp [Spec.namesL, hx]))
end

theorem get?_mem {α} : ∀ (m : AList α) (k : String) (v : α), m.get? k = some v → (k, v) ∈ m
  | [], _, _, h => by simp [AList.get?] at h
  | (k', v') :: rest, k, v, h => by
    unfold AList.get? at h
    simp only [List.find?] at h
    by_cases e : k' == k
    · simp only [e, Option.map_some, Option.some.injEq] at h
      have : k' = k := by simpa using e
      subst this; subst h; exact List.mem_cons_self
    · simp only [e] at h
      exact List.mem_cons_of_mem _ (get?_mem rest k v h)

mutual
/-- after expanding, every name that is left came from the expression or from a body -/
theorem resolve_names_sub (defs : AList (Span × Expr)) :
    ∀ (e : Expr) (u : AList Span) (x : String), x ∈ Spec.names (resolve defs e u).1 →
      x ∈ Spec.names e ∨ x ∈ bodyNames defs
  | .term .., u, x, h => by simp [resolve, Spec.names] at h
  | .cmd .., u, x, h => by simp [resolve, Spec.names] at h
  | .dd c d s, u, x, h => by left; simpa [resolve] using h
  | .nonterm n l s, u, x, h => by
    unfold resolve at h
    split at h
    · rename_i sp rhs hg
      right
      simp only at h
      unfold bodyNames
      exact List.mem_flatMap.mpr ⟨(n, sp, rhs), get?_mem defs n (sp, rhs) hg, h⟩
    · left; simpa using h
  | .sub c l s, u, x, h => by
    simp only [resolve, Spec.names] at h ⊢; exact resolve_names_sub defs c u x h
  | .opt c s, u, x, h => by
    simp only [resolve, Spec.names] at h ⊢; exact resolve_names_sub defs c u x h
  | .many1 c s, u, x, h => by
    simp only [resolve, Spec.names] at h ⊢; exact resolve_names_sub defs c u x h
  | .seq cs s, u, x, h => by
    simp only [resolve, Spec.names] at h ⊢; exact resolveL_names_sub defs cs u x h
  | .alt cs s, u, x, h => by
    simp only [resolve, Spec.names] at h ⊢; exact resolveL_names_sub defs cs u x h
  | .fb cs s, u, x, h => by
    simp only [resolve, Spec.names] at h ⊢; exact resolveL_names_sub defs cs u x h
theorem resolveL_names_sub (defs : AList (Span × Expr)) :
    ∀ (es : ExprL) (u : AList Span) (x : String), x ∈ Spec.namesL (resolveL defs es u).1 →
      x ∈ Spec.namesL es ∨ x ∈ bodyNames defs
  | .nil, u, x, h => by simp [resolveL, Spec.namesL] at h
  | .cons e es, u, x, h => by
    simp only [resolveL, Spec.namesL, List.mem_append] at h ⊢
    rcases h with h | h
    · rcases resolve_names_sub defs e u x h with h' | h'
      · exact .inl (.inl h')
      · exact .inr h'
    · rcases resolveL_names_sub defs es _ x h with h' | h'
      · exact .inl (.inr h')
      · exact .inr h'
end

end Complgen.Check

namespace Complgen.Check
open Complgen

/-! ### the two folds of `finishValidate` -/

theorem specFold_spec (sh : Shell) (fbs : AList String) (defined : List String) :
    ∀ (l : List (String × Span × Expr)) (acc : AList (Span × Expr) × Book),
    (∀ x ∈ l, NoDD x.2.2 = true) →
    (l.foldl (specStep sh fbs defined) acc).2.unused = dropKeys (l.flatMap fun x => Spec.names x.2.2) acc.2.unused ∧
    (∀ y ∈ bodyNames (l.foldl (specStep sh fbs defined) acc).1,
        y ∈ bodyNames acc.1 ∨ y ∈ l.flatMap fun x => Spec.names x.2.2)
  | [], acc, _ => by simp [dropKeys_nil]
  | x :: rest, acc, h => by
    have hx := h x List.mem_cons_self
    have ih := specFold_spec sh fbs defined rest (specStep sh fbs defined acc x)
      (fun y hy => h y (List.mem_cons_of_mem _ hy))
    simp only [List.foldl_cons]
    refine ⟨?_, ?_⟩
    · rw [ih.1]
      simp only [specStep, List.flatMap_cons]
      rw [specialize_unused sh fbs defined x.2.2 acc.2 hx, dropKeys_dropKeys]
    · intro y hy
      rcases ih.2 y hy with h1 | h1
      · simp only [specStep, bodyNames, List.flatMap_append, List.mem_append, List.flatMap_cons,
          List.flatMap_nil, List.append_nil] at h1
        rcases h1 with h1 | h1
        · exact .inl h1
        · right
          simp only [List.flatMap_cons, List.mem_append]
          exact .inl (specialize_names_sub sh fbs defined x.2.2 acc.2 y h1)
      · right
        simp only [List.flatMap_cons, List.mem_append]
        exact .inr h1

/-- the invariant of the expansion loop w.r.t. a set `R` of names: every name in a body is in `R`, no
key of the unused map is -/
def ResInv (R : List String) (acc : AList (Span × Expr) × AList Span) : Prop :=
  (∀ y ∈ bodyNames acc.1, y ∈ R) ∧ (∀ p ∈ acc.2, p.1 ∉ R)

theorem resStep_inv (R : List String) (acc : AList (Span × Expr) × AList Span) (n : String)
    (h : ResInv R acc) : (resStep acc n).2 = acc.2 ∧ ResInv R (resStep acc n) := by
  unfold resStep
  cases hg : AList.get? acc.1 n with
  | none => exact ⟨rfl, h⟩
  | some v =>
    obtain ⟨s, e⟩ := v
    have hmem := get?_mem acc.1 n (s, e) hg
    have hne : ∀ y ∈ Spec.names e, y ∈ R := fun y hy =>
      h.1 y (List.mem_flatMap.mpr ⟨(n, s, e), hmem, hy⟩)
    have hu : (resolve acc.1 e acc.2).2 = acc.2 :=
      resolve_unused_id acc.1 e acc.2 (fun p hp hx => h.2 p hp (hne p.1 hx))
    simp only
    refine ⟨hu, ?_, ?_⟩
    · intro y hy
      simp only [bodyNames, List.mem_flatMap, List.mem_map] at hy
      obtain ⟨d, ⟨p, hp, rfl⟩, hyd⟩ := hy
      by_cases hpn : p.1 == n
      · simp only [hpn, if_true] at hyd
        rcases resolve_names_sub acc.1 e acc.2 y hyd with h1 | h1
        · exact hne y h1
        · exact h.1 y h1
      · simp only [hpn] at hyd
        exact h.1 y (List.mem_flatMap.mpr ⟨p, hp, hyd⟩)
    · rw [hu]; exact h.2

theorem resFold_inv (R : List String) :
    ∀ (order : List String) (acc : AList (Span × Expr) × AList Span), ResInv R acc →
      (order.foldl resStep acc).2 = acc.2 ∧ ResInv R (order.foldl resStep acc)
  | [], acc, h => ⟨rfl, h⟩
  | n :: rest, acc, h => by
    have h1 := resStep_inv R acc n h
    have h2 := resFold_inv R rest (resStep acc n) h1.2
    simp only [List.foldl_cons]
    exact ⟨by rw [h2.1, h1.1], h2.2⟩

/-- **The unused map `finishValidate` ends with**: the definitions it started with, minus every name that
occurs in a definition body or in the call variants. -/
theorem finishValidate_unused (g : Grammar) (sh : Shell) (command : String) (defs0 : AList (Span × Expr))
    (specs : AList UserSpec) (fbs : AList String) (v : Valid)
    (h : finishValidate g sh command defs0 specs fbs = .ok v) :
    v.unused = dropKeys ((defs0.flatMap fun x => Spec.names x.2.2) ++ Spec.names (topExpr g))
      (defs0.map fun x => (x.1, x.2.1)) := by
  unfold finishValidate at h
  simp only at h
  generalize hD : (defs0.map fun x => (x.1, x.2.1, distribute x.2.2)) = defsD at h
  have hnodd : ∀ x ∈ defsD, NoDD x.2.2 = true := by
    intro x hx; rw [← hD] at hx
    obtain ⟨y, _, rfl⟩ := List.mem_map.mp hx
    exact distribute_noDD _
  have hnames : (defsD.flatMap fun x => Spec.names x.2.2) = defs0.flatMap fun x => Spec.names x.2.2 := by
    rw [← hD, List.flatMap_map]
    simp [distribute_names]
  have hkeys : (defsD.map fun x => (x.1, x.2.1)) = defs0.map fun x => (x.1, x.2.1) := by
    rw [← hD, List.map_map]; rfl
  -- first fold
  have hf1 := specFold_spec sh fbs (defsD.map (·.1)) defsD ([], ⟨specs, defsD.map fun x => (x.1, x.2.1)⟩) hnodd
  generalize hr1 : defsD.foldl (specStep sh fbs (defsD.map (·.1))) ([], ⟨specs, defsD.map fun x => (x.1, x.2.1)⟩) = r1 at h hf1
  have hu2 := specialize_unused sh fbs (defsD.map (·.1)) (distribute (topExpr g)) r1.2 (distribute_noDD _)
  generalize hr2 : specialize sh fbs (defsD.map (·.1)) (distribute (topExpr g)) r1.2 = r2 at h hu2
  -- the set of names all later erasures draw from
  let R := (defs0.flatMap fun x => Spec.names x.2.2) ++ Spec.names (topExpr g)
  have hunused2 : r2.2.unused = dropKeys R (defs0.map fun x => (x.1, x.2.1)) := by
    rw [hu2, hf1.1, dropKeys_dropKeys, hnames, distribute_names, hkeys]
  have hinv : ResInv R (r1.1, r2.2.unused) := by
    refine ⟨?_, ?_⟩
    · intro y hy
      rcases hf1.2 y hy with h1 | h1
      · simp [bodyNames] at h1
      · rw [hnames] at h1; exact List.mem_append_left _ h1
    · intro p hp
      rw [hunused2] at hp
      have := (List.mem_filter.mp hp).2
      simpa using this
  cases hro : resolutionOrder r1.1 with
  | error spans => rw [hro] at h; cases h
  | ok order =>
    rw [hro] at h
    simp only at h
    have hf2 := resFold_inv R order (r1.1, r2.2.unused) hinv
    generalize hr3 : order.foldl resStep (r1.1, r2.2.unused) = r3 at h hf2
    cases hsp : spaces r3.1 stackFuel r2.1 [] false with
    | overflow => rw [hsp] at h; cases h
    | bad l r t => rw [hsp] at h; cases h
    | fine =>
      rw [hsp] at h
      simp only [Outcome.ok.injEq] at h
      subst h
      simp only
      -- the last expansion erases nothing either
      have hn2 : ∀ y ∈ Spec.names r2.1, y ∈ R := by
        intro y hy
        rw [← hr2] at hy
        have := specialize_names_sub sh fbs (defsD.map (·.1)) (distribute (topExpr g)) r1.2 y hy
        rw [distribute_names] at this
        exact List.mem_append_right _ this
      rw [resolve_unused_id r3.1 r2.1 r3.2 (fun p hp hx => hf2.2.2 p hp (hn2 p.1 hx))]
      rw [hf2.1]
      exact hunused2

end Complgen.Check

namespace Complgen.Check
open Complgen

theorem namesL_ofList : ∀ l : List Expr, Spec.namesL (ExprL.ofList l) = l.flatMap Spec.names
  | [] => rfl
  | e :: es => by simp [ExprL.ofList, Spec.namesL, namesL_ofList es]

theorem topExpr_names (g : Grammar) (x : String) :
    x ∈ Spec.names (topExpr g) ↔ ∃ c ∈ callsOf g, x ∈ Spec.names c.2.2 := by
  unfold topExpr
  split
  · rename_i n s e hc
    rw [hc]; simp
  · rename_i hne
    simp only [Spec.names, namesL_ofList, List.mem_flatMap, List.mem_map]
    constructor
    · rintro ⟨e, ⟨c, hc, rfl⟩, hx⟩; exact ⟨c, hc, hx⟩
    · rintro ⟨c, hc, hx⟩; exact ⟨_, ⟨c, hc, rfl⟩, hx⟩

theorem mem_callsOf (g : Grammar) (n : String) (s : Span) (e : Expr) :
    (n, s, e) ∈ callsOf g ↔ Stmt.call n s e ∈ g := by
  unfold callsOf
  rw [List.mem_filterMap]
  constructor
  · rintro ⟨st, hst, h⟩
    cases st with
    | call n' s' e' => simp only [Option.some.injEq, Prod.mk.injEq] at h; obtain ⟨rfl, rfl, rfl⟩ := h; exact hst
    | defn _ _ _ _ => simp at h
  · intro h; exact ⟨_, h, rfl⟩

theorem mem_plainDefs (g : Grammar) (n : String) (s : Span) (e : Expr) :
    (n, s, e) ∈ plainDefs g ↔ Stmt.defn n s none e ∈ g := by
  unfold plainDefs
  rw [List.mem_filterMap]
  constructor
  · rintro ⟨st, hst, h⟩
    cases st with
    | call _ _ _ => simp at h
    | defn n' s' sh e' =>
      cases sh with
      | some p => simp at h
      | none => simp only [Option.some.injEq, Prod.mk.injEq] at h; obtain ⟨rfl, rfl, rfl⟩ := h; exact hst
  · intro h; exact ⟨_, h, rfl⟩

theorem mem_specDefs (g : Grammar) (n : String) (s : Span) (sh : String) (ss : Span) (e : Expr) :
    Stmt.defn n s (some (sh, ss)) e ∈ g → (n, s, sh, ss, e) ∈ specDefs g := by
  intro h
  unfold specDefs
  exact List.mem_filterMap.mpr ⟨_, h, rfl⟩

/-- the names the erasures draw from are exactly the names some statement refers to -/
theorem erased_iff_referred (g : Grammar) (hc : ∀ x ∈ specDefs g, isCmdSpec x = true) (x : String) :
    x ∈ ((plainDefs g).map fun d => (d.1, (d.2.1, d.2.2))).flatMap (fun d => Spec.names d.2.2) ++ Spec.names (topExpr g) ↔
    x ∈ Spec.referred g := by
  unfold Spec.referred
  simp only [List.mem_append, List.mem_flatMap, List.mem_map, topExpr_names]
  constructor
  · rintro (⟨d, ⟨p, hp, rfl⟩, hx⟩ | ⟨c, hcm, hx⟩)
    · obtain ⟨n, s, e⟩ := p
      exact ⟨_, (mem_plainDefs g n s e).mp hp, hx⟩
    · obtain ⟨n, s, e⟩ := c
      exact ⟨_, (mem_callsOf g n s e).mp hcm, hx⟩
  · rintro ⟨st, hst, hx⟩
    cases st with
    | call n s e => exact .inr ⟨(n, s, e), (mem_callsOf g n s e).mpr hst, hx⟩
    | defn n s sh e =>
      cases sh with
      | none => exact .inl ⟨_, ⟨(n, s, e), (mem_plainDefs g n s e).mpr hst, rfl⟩, hx⟩
      | some p =>
        obtain ⟨shn, ss⟩ := p
        have := hc _ (mem_specDefs g n s shn ss e hst)
        cases e with
        | cmd c a l sp => simp [Spec.Stmt.body, Spec.names] at hx
        | term _ _ _ _ => exact Bool.noConfusion this
        | nonterm _ _ _ => exact Bool.noConfusion this
        | seq _ _ => exact Bool.noConfusion this
        | alt _ _ => exact Bool.noConfusion this
        | fb _ _ => exact Bool.noConfusion this
        | opt _ _ => exact Bool.noConfusion this
        | many1 _ _ => exact Bool.noConfusion this
        | dd _ _ _ => exact Bool.noConfusion this
        | sub _ _ _ => exact Bool.noConfusion this

/-- **The names the model warns about as unused are exactly `Spec.unusedNames`**: the plain definitions whose
name occurs in no statement — for every grammar and target shell the model accepts. -/
theorem validate_unused_eq (g : Grammar) (sh : Shell) (v : Valid) (h : validate g sh = .ok v) (n : String) :
    n ∈ v.unused.map (·.1) ↔ n ∈ Spec.unusedNames g := by
  unfold validate at h
  cases hcmd : commandOf g with
  | err c s => rw [hcmd] at h; cases h
  | crash s => rw [hcmd] at h; cases h
  | ok command =>
    rw [hcmd] at h
    simp only at h
    by_cases hnd : ((plainDefs g).map (·.1)).Nodup
    · rw [collectPlain_spec (plainDefs g) [] (fun _ _ => rfl) hnd] at h
      simp only [List.nil_append] at h
      cases hgs : getSpecializations g sh with
      | err c s => rw [hgs] at h; cases h
      | crash s => rw [hgs] at h; cases h
      | ok r =>
        obtain ⟨specs, fbs⟩ := r
        rw [hgs] at h
        simp only at h
        obtain ⟨_, hc, _⟩ := getSpecializations_ok_inv g sh specs fbs hgs
        rw [finishValidate_unused g sh command _ specs fbs v h]
        have hR := dropKeys_congr _ (Spec.referred g)
          (((plainDefs g).map fun x => (x.1, (x.2.1, x.2.2))).map fun x => (x.1, x.2.1))
          (erased_iff_referred g hc)
        rw [hR]
        -- membership in the filtered key list
        unfold dropKeys
        simp only [List.map_map, List.mem_map, List.mem_filter, Function.comp_def]
        unfold Spec.unusedNames
        rw [List.mem_eraseDups, List.mem_filterMap]
        constructor
        · rintro ⟨p, ⟨⟨d, hd, rfl⟩, hr⟩, rfl⟩
          obtain ⟨m, s, e⟩ := d
          refine ⟨_, (mem_plainDefs g m s e).mp hd, ?_⟩
          have : (Spec.referred g).contains m = false := by simpa using hr
          have hm : ¬ m ∈ Spec.referred g := by
            intro hmem
            have : (Spec.referred g).contains m = true := List.contains_iff_mem.mpr hmem
            simp_all
          simp [this, hm]
        · rintro ⟨st, hst, hsome⟩
          cases st with
          | call _ _ _ => simp at hsome
          | defn m s shl e =>
            cases shl with
            | some p => simp at hsome
            | none =>
              simp only at hsome
              split at hsome
              · cases hsome
              · rename_i hr
                simp only [Option.some.injEq] at hsome
                subst hsome
                refine ⟨(m, s), ⟨⟨(m, s, e), (mem_plainDefs g m s e).mpr hst, rfl⟩, ?_⟩, rfl⟩
                simpa using hr
    · obtain ⟨spans, he⟩ := collectPlain_dup (plainDefs g) [] (.inr hnd)
      rw [he] at h; cases h

end Complgen.Check

/-! ### the `used` marks of the specialisations -/
namespace Complgen.Check
open Complgen

def markUsed (R : List String) (m : AList UserSpec) : AList UserSpec :=
  m.map fun p => if R.contains p.1 then (p.1, { p.2 with used := true }) else p

theorem markUsed_nil (m : AList UserSpec) : markUsed [] m = m := by
  unfold markUsed; simp

theorem markUsed_markUsed (A B : List String) (m : AList UserSpec) :
    markUsed B (markUsed A m) = markUsed (A ++ B) m := by
  unfold markUsed
  rw [List.map_map]
  apply List.map_congr_left
  intro p _
  simp only [Function.comp_def]
  by_cases ha : p.1 ∈ A <;> by_cases hb : p.1 ∈ B <;> simp [ha, hb]

theorem markUsed_congr (A B : List String) (m : AList UserSpec) (h : ∀ x, x ∈ A ↔ x ∈ B) :
    markUsed A m = markUsed B m := by
  unfold markUsed
  apply List.map_congr_left
  intro p _
  have : A.contains p.1 = B.contains p.1 := by
    cases ha : A.contains p.1 <;> cases hb : B.contains p.1 <;> simp_all
  rw [this]

theorem markUsed_absent (n : String) (m : AList UserSpec) (h : m.get? n = none) : markUsed [n] m = m := by
  unfold markUsed
  have hk : ∀ p ∈ m, p.1 ≠ n := by
    unfold AList.get? at h
    simp at h
    intro p hp
    exact h p.1 p.2 hp
  conv => rhs; rw [← List.map_id m]
  apply List.map_congr_left
  intro p hp
  have := hk p hp
  simp [this]

theorem markUsed_single (n : String) (m : AList UserSpec) :
    (m.map fun p => if p.1 == n then (p.1, { p.2 with used := true }) else p) = markUsed [n] m := by
  unfold markUsed
  apply List.map_congr_left
  intro p _
  simp

mutual
theorem specialize_specs (sh : Shell) (fbs : AList String) (defined : List String) :
    ∀ (e : Expr) (b : Book), NoDD e = true →
      (specialize sh fbs defined e b).2.specs = markUsed (Spec.names e) b.specs
  | .term .., b, _ => by simp [specialize, Spec.names, markUsed_nil]
  | .cmd .., b, _ => by simp [specialize, Spec.names, markUsed_nil]
  | .dd c d s, b, h => by simp [NoDD] at h
  | .nonterm n l s, b, _ => by
    unfold specialize
    simp only [Spec.names]
    cases hsp : b.specs.get? n with
    | some sp =>
      simp only [hsp]
      exact markUsed_single n b.specs
    | none =>
      simp only [hsp]
      rw [markUsed_absent n b.specs hsp]
      split
      · rfl
      · rename_i c compadd b' hp
        split at hp
        · cases hp
        · split at hp
          · cases hp; rfl
          · split at hp
            · cases hp; rfl
            · cases hp
  | .sub c l s, b, h => by
    have := specialize_specs sh fbs defined c b (by simpa [NoDD] using h)
    simpa [specialize, Spec.names] using this
  | .opt c s, b, h => by
    have := specialize_specs sh fbs defined c b (by simpa [NoDD] using h)
    simpa [specialize, Spec.names] using this
  | .many1 c s, b, h => by
    have := specialize_specs sh fbs defined c b (by simpa [NoDD] using h)
    simpa [specialize, Spec.names] using this
  | .seq cs s, b, h => by
    have := specializeL_specs sh fbs defined cs b (by simpa [NoDD] using h)
    simpa [specialize, Spec.names] using this
  | .alt cs s, b, h => by
    have := specializeL_specs sh fbs defined cs b (by simpa [NoDD] using h)
    simpa [specialize, Spec.names] using this
  | .fb cs s, b, h => by
    have := specializeL_specs sh fbs defined cs b (by simpa [NoDD] using h)
    simpa [specialize, Spec.names] using this
theorem specializeL_specs (sh : Shell) (fbs : AList String) (defined : List String) :
    ∀ (es : ExprL) (b : Book), NoDDL es = true →
      (specializeL sh fbs defined es b).2.specs = markUsed (Spec.namesL es) b.specs
  | .nil, b, _ => by simp [specializeL, Spec.namesL, markUsed_nil]
  | .cons e es, b, h => by
    simp only [NoDDL, Bool.and_eq_true] at h
    have h1 := specialize_specs sh fbs defined e b h.1
    have h2 := specializeL_specs sh fbs defined es (specialize sh fbs defined e b).2 h.2
    simp only [specializeL, Spec.namesL]
    rw [h2, h1, markUsed_markUsed]
end

theorem specFold_specs (sh : Shell) (fbs : AList String) (defined : List String) :
    ∀ (l : List (String × Span × Expr)) (acc : AList (Span × Expr) × Book),
    (∀ x ∈ l, NoDD x.2.2 = true) →
    (l.foldl (specStep sh fbs defined) acc).2.specs = markUsed (l.flatMap fun x => Spec.names x.2.2) acc.2.specs
  | [], acc, _ => by simp [markUsed_nil]
  | x :: rest, acc, h => by
    have hx := h x List.mem_cons_self
    have ih := specFold_specs sh fbs defined rest (specStep sh fbs defined acc x)
      (fun y hy => h y (List.mem_cons_of_mem _ hy))
    simp only [List.foldl_cons, List.flatMap_cons]
    rw [ih]
    unfold specStep
    simp only
    rw [specialize_specs sh fbs defined x.2.2 acc.2 hx, markUsed_markUsed]

end Complgen.Check

namespace Complgen.Check
open Complgen

theorem finishValidate_unusedSpecs (g : Grammar) (sh : Shell) (command : String) (defs0 : AList (Span × Expr))
    (specs : AList UserSpec) (fbs : AList String) (v : Valid)
    (h : finishValidate g sh command defs0 specs fbs = .ok v) :
    v.unusedSpecs =
      (markUsed ((defs0.flatMap fun x => Spec.names x.2.2) ++ Spec.names (topExpr g)) specs).filterMap
        fun p => if p.2.used then none else some (p.1, p.2.span) := by
  unfold finishValidate at h
  simp only at h
  generalize hD : (defs0.map fun x => (x.1, x.2.1, distribute x.2.2)) = defsD at h
  have hnodd : ∀ x ∈ defsD, NoDD x.2.2 = true := by
    intro x hx; rw [← hD] at hx
    obtain ⟨y, _, rfl⟩ := List.mem_map.mp hx
    exact distribute_noDD _
  have hnames : (defsD.flatMap fun x => Spec.names x.2.2) = defs0.flatMap fun x => Spec.names x.2.2 := by
    rw [← hD, List.flatMap_map]
    simp [distribute_names]
  have hf1 := specFold_specs sh fbs (defsD.map (·.1)) defsD ([], ⟨specs, defsD.map fun x => (x.1, x.2.1)⟩) hnodd
  generalize hr1 : defsD.foldl (specStep sh fbs (defsD.map (·.1))) ([], ⟨specs, defsD.map fun x => (x.1, x.2.1)⟩) = r1 at h hf1
  have hu2 := specialize_specs sh fbs (defsD.map (·.1)) (distribute (topExpr g)) r1.2 (distribute_noDD _)
  generalize hr2 : specialize sh fbs (defsD.map (·.1)) (distribute (topExpr g)) r1.2 = r2 at h hu2
  cases hro : resolutionOrder r1.1 with
  | error spans => rw [hro] at h; cases h
  | ok order =>
    rw [hro] at h
    simp only at h
    generalize hr3 : order.foldl resStep (r1.1, r2.2.unused) = r3 at h
    cases hsp : spaces r3.1 stackFuel r2.1 [] false with
    | overflow => rw [hsp] at h; cases h
    | bad l r t => rw [hsp] at h; cases h
    | fine =>
      rw [hsp] at h
      simp only [Outcome.ok.injEq] at h
      subst h
      simp only
      rw [hu2, hf1, markUsed_markUsed, hnames, distribute_names]

theorem markUsed_mem_unused (R : List String) (m : AList UserSpec) (hm : ∀ p ∈ m, p.2.used = false) (n : String) :
    n ∈ ((markUsed R m).filterMap fun p => if p.2.used then none else some (p.1, p.2.span)).map (·.1) ↔
    n ∈ m.map (·.1) ∧ n ∉ R := by
  unfold markUsed
  simp only [List.mem_map, List.mem_filterMap]
  constructor
  · rintro ⟨q, ⟨p', ⟨p, hp, rfl⟩, hq⟩, rfl⟩
    by_cases hr : p.1 ∈ R
    · simp [hr] at hq
    · simp only [List.contains_eq_mem, hr, decide_false, Bool.false_eq_true, if_false, hm p hp] at hq
      simp only [Option.some.injEq] at hq
      subst hq
      exact ⟨⟨p, hp, rfl⟩, hr⟩
  · rintro ⟨⟨p, hp, rfl⟩, hr⟩
    refine ⟨(p.1, p.2.span), ⟨p, ⟨p, hp, ?_⟩, ?_⟩, rfl⟩
    · simp [hr]
    · simp [hm p hp]

theorem mem_specDefs_iff (g : Grammar) (n : String) (s : Span) (shn : String) (ss : Span) (e : Expr) :
    (n, s, shn, ss, e) ∈ specDefs g ↔ Stmt.defn n s (some (shn, ss)) e ∈ g := by
  constructor
  · unfold specDefs
    rw [List.mem_filterMap]
    rintro ⟨st, hst, h⟩
    cases st with
    | call _ _ _ => simp at h
    | defn n' s' shl e' =>
      cases shl with
      | none => simp at h
      | some p =>
        obtain ⟨a, b⟩ := p
        simp only [Option.some.injEq, Prod.mk.injEq] at h
        obtain ⟨rfl, rfl, rfl, rfl, rfl⟩ := h
        exact hst
  · exact mem_specDefs g n s shn ss e

/-- **The specialisations the model warns about as unused are exactly `Spec.unusedSpecNames`.** -/
theorem validate_unusedSpecs_eq (g : Grammar) (sh : Shell) (v : Valid) (h : validate g sh = .ok v) (n : String) :
    n ∈ v.unusedSpecs.map (·.1) ↔ n ∈ Spec.unusedSpecNames sh g := by
  unfold validate at h
  cases hcmd : commandOf g with
  | err c s => rw [hcmd] at h; cases h
  | crash s => rw [hcmd] at h; cases h
  | ok command =>
    rw [hcmd] at h
    simp only at h
    by_cases hnd : ((plainDefs g).map (·.1)).Nodup
    · rw [collectPlain_spec (plainDefs g) [] (fun _ _ => rfl) hnd] at h
      simp only [List.nil_append] at h
      cases hgs : getSpecializations g sh with
      | err c s => rw [hgs] at h; cases h
      | crash s => rw [hgs] at h; cases h
      | ok r =>
        obtain ⟨specs, fbs⟩ := r
        rw [hgs] at h
        simp only at h
        obtain ⟨hspecs, hc, _⟩ := getSpecializations_ok_inv g sh specs fbs hgs
        rw [finishValidate_unusedSpecs g sh command _ specs fbs v h]
        rw [markUsed_congr _ (Spec.referred g) specs (erased_iff_referred g hc)]
        have hfalse : ∀ p ∈ specs, p.2.used = false := by
          intro p hp
          rw [hspecs] at hp
          unfold specList at hp
          obtain ⟨x, _, rfl⟩ := List.mem_map.mp hp
          rfl
        rw [markUsed_mem_unused (Spec.referred g) specs hfalse n]
        rw [hspecs]
        unfold specList Spec.unusedSpecNames
        rw [List.mem_eraseDups, List.mem_filterMap]
        simp only [List.mem_map, List.mem_filter]
        constructor
        · rintro ⟨⟨p, ⟨x, ⟨hx, hft⟩, rfl⟩, rfl⟩, hr⟩
          obtain ⟨m, s, shn, ss, e⟩ := x
          refine ⟨_, (mem_specDefs_iff g m s shn ss e).mp hx, ?_⟩
          have hs : shn = sh.name := (ofName_iff _ _).mp ((forTarget_iff _ _).mp hft)
          have hr' : (Spec.referred g).contains m = false := by
            cases hcn : (Spec.referred g).contains m with
            | false => rfl
            | true => exact absurd (List.contains_iff_mem.mp hcn) hr
          have hr2 : ¬ m ∈ Spec.referred g := hr
          simp [hs, hr', hr2, toSpec]
        · rintro ⟨st, hst, hsome⟩
          cases st with
          | call _ _ _ => simp at hsome
          | defn m s shl e =>
            cases shl with
            | none => simp at hsome
            | some p =>
              obtain ⟨shn, ss⟩ := p
              simp only at hsome
              split at hsome
              · rename_i hcond
                simp only [Option.some.injEq] at hsome
                subst hsome
                simp only [Bool.and_eq_true, beq_iff_eq, Bool.not_eq_eq_eq_not, Bool.not_true] at hcond
                obtain ⟨hs, hr⟩ := hcond
                refine ⟨⟨_, ⟨(m, s, shn, ss, e), ⟨(mem_specDefs_iff g m s shn ss e).mpr hst, ?_⟩, rfl⟩, rfl⟩, ?_⟩
                · exact (forTarget_iff _ _).mpr ((ofName_iff _ _).mpr hs)
                · intro hmem
                  have : (Spec.referred g).contains m = true := List.contains_iff_mem.mpr hmem
                  rw [this] at hr; cases hr
              · cases hsome
    · obtain ⟨spans, he⟩ := collectPlain_dup (plainDefs g) [] (.inr hnd)
      rw [he] at h; cases h

end Complgen.Check
