/-
C05 (operator ladder), layout: the trees of `Proofs/Ladder.lean` printed with *arbitrary* blanks and
comments wherever the syntax allows them are read back as the same tree up to spans
(`fallback_roundtrip_layout`), hence two layouts of one tree parse to the same tree up to spans
(`layout_irrelevant`); the plain printer `pp` is the instance `plainLayout` (`pp_eq_ppL`).

Admissible layout.  `IsLayout l`: `l` is made of blanks (space, tab, CR, LF, form feed) and `#` comments,
and every comment is closed by its line feed inside `l` (`layoutOK`); this is what `multiblanks0`
skips completely whatever follows (`mb0Aux_layout`, `isLayout_iff`).  `#` is a *regular* character of
literals (`foo#bar` is one literal), so a stretch of layout that stands directly after a word must not
begin with `#` (`IsLayoutW`); after `[`, `(`, `|`, `||` the parser skips blanks first and any layout
may stand.  A layout never reaches a `"`: no description is printed in this fragment.

Positions (`Layout`, one string for every position of every node, addressed by the path from the root):
`sep` between two items of a sequence (non-empty, `IsLayoutW`), `barL`/`barR` before/after `|` and `||`
(`IsLayoutW` / `IsLayout`), `opn` after `[` and `(` (`IsLayout`), `cls` before `]` and `)`
(`IsLayoutW`), `dots` before a postfix `...` (`IsLayoutW`).
-/
import Complgen.Proofs.Ladder
namespace Complgen.Parse
open Complgen

/-! ### admissible layout -/

/-- a blank: what `multiblanks0` skips outside comments -/
def blankCh (c : Char) : Bool := isSpace c || c = '\x0c'

/-- blanks and comments only, and no comment is left open at the end; the flag says we are inside a
comment (the same automaton as `mb0Aux`) -/
def layoutOK : Bool → List Char → Bool
  | b, [] => !b
  | true, c :: cs => if c = '\n' then layoutOK false cs else layoutOK true cs
  | false, c :: cs =>
    if isSpace c || c = '\x0c' then layoutOK false cs
    else if c = '#' then layoutOK true cs
    else false

/-- a possibly empty stretch of layout -/
def IsLayout (l : List Char) : Prop := layoutOK false l = true

instance (l : List Char) : Decidable (IsLayout l) := inferInstanceAs (Decidable (layoutOK false l = true))

/-- a stretch of layout that may stand directly after a word: it does not begin with `#`
(`#` is a regular character of literals) -/
def IsLayoutW (l : List Char) : Prop := IsLayout l ∧ ∀ r, l ≠ '#' :: r

theorem mb0Aux_layout : ∀ (l : List Char) (b : Bool) (r : List Char), layoutOK b l = true →
    mb0Aux b (l ++ r) = l.length + mb0Aux false r
  | [], b, r, h => by
    cases b
    · simp
    · simp [layoutOK] at h
  | c :: cs, true, r, h => by
    simp only [layoutOK] at h
    simp only [List.cons_append, mb0Aux, List.length_cons]
    by_cases hc : c = '\n'
    · simp only [hc, if_true] at h ⊢
      rw [mb0Aux_layout cs false r h]; omega
    · simp only [hc, if_false] at h ⊢
      rw [mb0Aux_layout cs true r h]; omega
  | c :: cs, false, r, h => by
    simp only [layoutOK] at h
    simp only [List.cons_append, mb0Aux, List.length_cons]
    cases hb : (isSpace c || decide (c = '\x0c')) with
    | true =>
      simp only [hb, if_true] at h ⊢
      rw [mb0Aux_layout cs false r h]; omega
    | false =>
      simp only [hb, Bool.false_eq_true, if_false] at h ⊢
      by_cases hc : c = '#'
      · simp only [hc, if_true] at h ⊢
        rw [mb0Aux_layout cs true r h]; omega
      · simp [hc] at h

/-- `multiblanks0` consumes an admissible layout completely -/
theorem mb0Aux_isLayout (l : List Char) (h : IsLayout l) : mb0Aux false l = l.length := by
  have := mb0Aux_layout l false [] h
  simpa [mb0Aux] using this

/-- the text at which `multiblanks0` stops at once -/
def NBHead (r : List Char) : Prop := mb0Aux false r = 0

theorem NBHead_nil : NBHead [] := rfl

theorem NBHead_cons (c : Char) (r : List Char) (h : notBlank c = true) : NBHead (c :: r) :=
  mb0Aux_notBlank c r h

theorem StarterHead.nb {T : List Char} (h : StarterHead T) (X : List Char) : NBHead (T ++ X) := by
  obtain ⟨c, r, rfl, hc⟩ := h
  exact NBHead_cons c _ (starter_spec hc).1

/-- **first key fact**: before a text at which blanks stop, `multiblanks0` consumes exactly the layout -/
theorem mb0Aux_layout_nb (l r : List Char) (hl : IsLayout l) (hr : NBHead r) :
    mb0Aux false (l ++ r) = l.length := by
  rw [mb0Aux_layout l false r hl, hr]; rfl

theorem afterBlanks_layout (l r : List Char) (hl : IsLayout l) : afterBlanks (l ++ r) = afterBlanks r := by
  unfold afterBlanks
  rw [mb0Aux_layout l false r hl, ← List.drop_drop]
  simp

theorem afterBlanks_nb (r : List Char) (h : NBHead r) : afterBlanks r = r := by
  unfold afterBlanks; rw [h]; rfl

theorem afterBlanks_layout_nb (l r : List Char) (hl : IsLayout l) (hr : NBHead r) :
    afterBlanks (l ++ r) = r := by
  rw [afterBlanks_layout l r hl, afterBlanks_nb r hr]

theorem mb0_layout (s : PState) (l r : List Char) (hl : IsLayout l) (hr : NBHead r)
    (hs : s.rest = l ++ r) : mb0 s = s.adv l.length := by
  rw [mb0_eq, hs, mb0Aux_layout_nb l r hl hr]

/-- **second key fact**: `multiblanks1` succeeds on an admissible layout exactly when it is not empty -/
theorem mb1_layout (s : PState) (l r : List Char) (hl : IsLayout l) (hr : NBHead r)
    (hs : s.rest = l ++ r) : mb1 s = if l = [] then none else some (s.adv l.length) := by
  rw [mb1_eq, hs, mb0Aux_layout_nb l r hl hr]
  cases l with
  | nil => rfl
  | cons c cs => simp

theorem mb1_layout_some (s : PState) (l r : List Char) (hl : IsLayout l) (hne : l ≠ []) (hr : NBHead r)
    (hs : s.rest = l ++ r) : mb1 s = some (s.adv l.length) := by
  rw [mb1_layout s l r hl hr hs]; simp [hne]

/-! ### what may follow, with layout -/

theorem blank_stop {c : Char} (h : blankCh c = true) : stopCh c = true := by
  simp only [blankCh, isSpace, Bool.or_eq_true, decide_eq_true_eq] at h
  rcases h with (((rfl | rfl) | rfl) | rfl) | rfl <;> decide

theorem blank_not_notBlank {c : Char} (h : blankCh c = true) : notBlank c = false := by
  simp only [blankCh, isSpace, Bool.or_eq_true, decide_eq_true_eq] at h
  rcases h with (((rfl | rfl) | rfl) | rfl) | rfl <;> decide

theorem IsLayoutW.head {c : Char} {cs : List Char} (h : IsLayoutW (c :: cs)) : blankCh c = true := by
  have h1 := h.1
  unfold IsLayout at h1
  simp only [layoutOK] at h1
  cases hb : (isSpace c || decide (c = '\x0c')) with
  | true => exact hb
  | false =>
    simp only [hb, Bool.false_eq_true, if_false] at h1
    by_cases hc : c = '#'
    · subst hc; exact absurd rfl (h.2 cs)
    · simp [hc] at h1

theorem IsLayoutW.nil : IsLayoutW [] := ⟨rfl, fun r e => by cases e⟩
theorem IsLayout.nil : IsLayout [] := rfl

theorem IsLayoutW.stop {l : List Char} (hl : IsLayoutW l) {X : List Char} (hX : StopHead X) :
    StopHead (l ++ X) := by
  cases l with
  | nil => exact hX
  | cons c cs => exact .inr ⟨c, cs ++ X, rfl, blank_stop hl.head⟩

theorem stopHead_cons (c : Char) (X : List Char) (h : stopCh c = true) : StopHead (c :: X) :=
  .inr ⟨c, X, rfl, h⟩

/-- after a word of a sequence: layout, then the next word -/
theorem UCont_layout_starter (l T X : List Char) (hl : IsLayoutW l) (hne : l ≠ []) (hT : StarterHead T) :
    UCont (l ++ T ++ X) := by
  constructor
  · cases l with
    | nil => exact absurd rfl hne
    | cons c cs => exact .inr ⟨c, cs ++ T ++ X, by simp, blank_stop hl.head⟩
  · intro c' r' e
    rw [List.append_assoc, afterBlanks_layout_nb l _ hl.1 (hT.nb X)] at e
    obtain ⟨c, r, rfl, hc⟩ := hT
    obtain ⟨_, h2, h3⟩ := starter_spec hc
    cases e
    exact ⟨h3, h2⟩

/-- after an operand of `|`: layout, then `|` -/
theorem SCont_layout_bar (l X : List Char) (hl : IsLayoutW l) : SCont (l ++ '|' :: X) := by
  refine ⟨hl.stop (stopHead_cons _ _ (by decide)), ?_⟩
  rw [afterBlanks_layout_nb l _ hl.1 (NBHead_cons _ _ (by decide))]
  exact stopHead_cons _ _ (by decide)

/-- after an operand of `||`: layout, then `||` -/
theorem ACont_layout_barbar (l X : List Char) (hl : IsLayoutW l) : ACont (l ++ '|' :: '|' :: X) := by
  refine ⟨SCont_layout_bar l _ hl, ?_⟩
  rw [afterBlanks_layout_nb l _ hl.1 (NBHead_cons _ _ (by decide))]
  intro r e; cases e; exact ⟨X, rfl⟩

/-- after the expression inside brackets: layout, then the closing bracket -/
theorem FCont_layout_close (l : List Char) (c : Char) (rest : List Char) (hl : IsLayoutW l)
    (h1 : stopCh c = true) (h2 : notBlank c = true) (h3 : c ≠ '|') : FCont (l ++ c :: rest) := by
  have hab : afterBlanks (l ++ c :: rest) = c :: rest := afterBlanks_layout_nb l _ hl.1 (NBHead_cons _ _ h2)
  refine ⟨⟨hl.stop (stopHead_cons _ _ h1), ?_⟩, ?_⟩
  · rw [hab]; exact stopHead_cons _ _ h1
  · rw [hab]; intro r e; cases e; exact h3 rfl

/-- after the operand of a postfix `...`: layout, then `...` -/
theorem BCont_layout_dots (l rest : List Char) (hl : IsLayoutW l) : BCont (l ++ '.' :: '.' :: '.' :: rest) := by
  constructor
  · cases l with
    | nil => exact (dots_BCont rest).1
    | cons c cs => exact StopHead.dec (.inr ⟨c, cs ++ '.' :: '.' :: '.' :: rest, rfl, blank_stop hl.head⟩)
  · intro r e
    rw [afterBlanks_layout_nb l _ hl.1 (NBHead_cons _ _ (by decide))] at e
    cases e

/-! ### the postfix `...`, the groups, the three loops: with layout -/

theorem many1Tag_layout (s : PState) (l r : List Char) (hl : IsLayout l)
    (h : s.rest = l ++ '.' :: '.' :: '.' :: r) : many1Tag s = some (s.adv (l.length + 3)) := by
  unfold many1Tag
  rw [mb0_layout s l _ hl (NBHead_cons _ _ (by decide)) h]
  have hr := adv_rest_append s l _ h
  rw [tag?_some "..." 3 (by decide) _ (by
    have : "...".toList = ['.', '.', '.'] := by rfl
    rw [this, hr]; simp [List.isPrefixOf]), adv_add']

/-- a base expression followed by layout and `...` -/
theorem lift_B_many1_lay {n : Nat} {T l : List Char} {E : Expr} (hl : IsLayoutW l)
    (h : PT baseP BCont n T E) :
    PT unary UCont (n + 1) (T ++ l ++ ['.', '.', '.']) (.many1 E default) := by
  intro rest hrest s hs f hf
  obtain ⟨f, rfl⟩ : ∃ f', f = f' + 1 := ⟨f - 1, by omega⟩
  have hs' : s.rest = T ++ (l ++ '.' :: '.' :: '.' :: rest) := by rw [hs]; simp
  obtain ⟨e', he, hE⟩ := h _ (BCont_layout_dots l rest hl) s hs' f (by omega)
  refine ⟨.many1 e' (fromRange s ((s.adv T.length).adv (l.length + 3))), ?_, by simp [Expr.eraseSpans, hE]⟩
  rw [unary_succ, he]
  simp only
  rw [many1Tag_layout _ l rest hl.1 (adv_rest_append s T _ hs'), adv_add']
  simp

/-- the text of a group: `(`, layout, the expression, layout, `)` -/
def parenL (l1 l2 T : List Char) : List Char := '(' :: l1 ++ T ++ l2 ++ [')']

theorem paren_PT_lay {n : Nat} {T l1 l2 : List Char} {E : Expr} (hl1 : IsLayout l1) (hl2 : IsLayoutW l2)
    (hT : StarterHead T) (h : PT fallback FCont n T E) :
    PT baseP BCont (n + 1) (parenL l1 l2 T) E := by
  intro rest _ s hs f hf
  obtain ⟨f, rfl⟩ : ∃ f', f = f' + 1 := ⟨f - 1, by omega⟩
  have hs' : s.rest = '(' :: (l1 ++ (T ++ (l2 ++ ')' :: rest))) := by rw [hs]; simp [parenL]
  have hne : ∀ x, x ≠ '(' → ∀ r, s.rest ≠ x :: r := by
    intro x hx r e; rw [hs'] at e; cases e; exact hx rfl
  have hr1 : (s.adv 1).rest = l1 ++ (T ++ (l2 ++ ')' :: rest)) := by rw [adv_rest', hs']; rfl
  have hm1 : mb0 (s.adv 1) = (s.adv 1).adv l1.length := mb0_layout _ l1 _ hl1 (hT.nb _) hr1
  have hr2 : ((s.adv 1).adv l1.length).rest = T ++ (l2 ++ ')' :: rest) := adv_rest_append _ _ _ hr1
  obtain ⟨e', he, hE⟩ := h (l2 ++ ')' :: rest)
    (FCont_layout_close l2 _ _ hl2 (by decide) (by decide) (by decide)) _ hr2 f (by omega)
  have hr3 : (((s.adv 1).adv l1.length).adv T.length).rest = l2 ++ ')' :: rest := adv_rest_append _ _ _ hr2
  have hm2 := mb0_layout _ l2 _ hl2.1 (NBHead_cons ')' rest (by decide)) hr3
  have hr4 := adv_rest_append _ l2 _ hr3
  refine ⟨e', ?_, hE⟩
  unfold baseP
  rw [nonterm_none s (hne _ (by decide)), optional_none _ s (hne _ (by decide)), parenthesized_succ,
    char?_some '(' s _ hs']
  simp only
  rw [hm1, he]
  simp only
  rw [hm2, char?_some ')' _ _ hr4]
  simp only [adv_add']
  rw [show (parenL l1 l2 T).length = 1 + l1.length + T.length + l2.length + 1 by simp [parenL]; omega]

theorem bracket_PT_lay {n : Nat} {T l1 l2 : List Char} {E : Expr} (hl1 : IsLayout l1) (hl2 : IsLayoutW l2)
    (hT : StarterHead T) (h : PT fallback FCont n T E) :
    PT baseP BCont (n + 1) ('[' :: l1 ++ T ++ l2 ++ [']']) (.opt E default) := by
  intro rest _ s hs f hf
  obtain ⟨f, rfl⟩ : ∃ f', f = f' + 1 := ⟨f - 1, by omega⟩
  have hs' : s.rest = '[' :: (l1 ++ (T ++ (l2 ++ ']' :: rest))) := by rw [hs]; simp
  have hne : ∀ x, x ≠ '[' → ∀ r, s.rest ≠ x :: r := by
    intro x hx r e; rw [hs'] at e; cases e; exact hx rfl
  have hr1 : (s.adv 1).rest = l1 ++ (T ++ (l2 ++ ']' :: rest)) := by rw [adv_rest', hs']; rfl
  have hm1 : mb0 (s.adv 1) = (s.adv 1).adv l1.length := mb0_layout _ l1 _ hl1 (hT.nb _) hr1
  have hr2 : ((s.adv 1).adv l1.length).rest = T ++ (l2 ++ ']' :: rest) := adv_rest_append _ _ _ hr1
  obtain ⟨e', he, hE⟩ := h (l2 ++ ']' :: rest)
    (FCont_layout_close l2 _ _ hl2 (by decide) (by decide) (by decide)) _ hr2 f (by omega)
  have hr3 : (((s.adv 1).adv l1.length).adv T.length).rest = l2 ++ ']' :: rest := adv_rest_append _ _ _ hr2
  have hm2 := mb0_layout _ l2 _ hl2.1 (NBHead_cons ']' rest (by decide)) hr3
  have hr4 := adv_rest_append _ l2 _ hr3
  refine ⟨.opt e' (fromRange s (s.adv (1 + l1.length + T.length + l2.length + 1))), ?_,
    by simp [Expr.eraseSpans, hE]⟩
  unfold baseP
  rw [nonterm_none s (hne _ (by decide)), optional_succ, char?_some '[' s _ hs']
  simp only
  rw [hm1, he]
  simp only
  rw [hm2, char?_some ']' _ _ hr4]
  simp only [adv_add']
  rw [show ('[' :: l1 ++ T ++ l2 ++ [']']).length = 1 + l1.length + T.length + l2.length + 1 by simp; omega]

theorem seqLoop_cons_lay {n1 n2 : Nat} {l T1 T2 : List Char} {E1 : Expr} {Es : ExprL}
    (hl : IsLayout l) (hne : l ≠ []) (hT1 : StarterHead T1)
    (h1 : PT sseod UCont n1 T1 E1) (h2 : LT sequenceLoop SCont n2 T2 Es)
    (hc : ∀ rest, SCont rest → UCont (T2 ++ rest)) :
    LT sequenceLoop SCont (max n1 n2 + 1) (l ++ T1 ++ T2) (.cons E1 Es) := by
  intro rest hrest s hs acc f hf
  obtain ⟨f, rfl⟩ : ∃ f', f = f' + 1 := ⟨f - 1, by omega⟩
  have hs' : s.rest = l ++ (T1 ++ (T2 ++ rest)) := by rw [hs]; simp
  have hmb : mb1 s = some (s.adv l.length) := mb1_layout_some s l _ hl hne (hT1.nb _) hs'
  have hr1 : (s.adv l.length).rest = T1 ++ (T2 ++ rest) := adv_rest_append _ _ _ hs'
  obtain ⟨e1, he1, hE1⟩ := h1 (T2 ++ rest) (hc rest hrest) _ hr1 f (by omega)
  have hr2 : ((s.adv l.length).adv T1.length).rest = T2 ++ rest := adv_rest_append _ _ _ hr1
  obtain ⟨es', hes, hEs⟩ := h2 rest hrest _ hr2 (acc ++ [e1]) f (by omega)
  refine ⟨e1 :: es', ?_, by simp [ExprL.ofList, ExprL.eraseSpans, hE1, hEs]⟩
  rw [sequenceLoop_succ, hmb]
  simp only
  rw [he1]
  simp only
  rw [hes, adv_add', adv_add']
  simp

theorem altLoop_cons_lay {n1 n2 : Nat} {l1 l2 T1 T2 : List Char} {E1 : Expr} {Es : ExprL}
    (hl1 : IsLayout l1) (hl2 : IsLayout l2) (hT1 : StarterHead T1)
    (h1 : PT sequence SCont n1 T1 E1) (h2 : LT alternativeLoop ACont n2 T2 Es)
    (hc : ∀ rest, ACont rest → SCont (T2 ++ rest)) :
    LT alternativeLoop ACont (max n1 n2 + 1) (l1 ++ '|' :: l2 ++ T1 ++ T2) (.cons E1 Es) := by
  intro rest hrest s hs acc f hf
  obtain ⟨f, rfl⟩ : ∃ f', f = f' + 1 := ⟨f - 1, by omega⟩
  have hs' : s.rest = l1 ++ '|' :: (l2 ++ (T1 ++ (T2 ++ rest))) := by rw [hs]; simp
  have hm1 : mb0 s = s.adv l1.length := mb0_layout s l1 _ hl1 (NBHead_cons _ _ (by decide)) hs'
  have hr1 : (s.adv l1.length).rest = '|' :: (l2 ++ (T1 ++ (T2 ++ rest))) := adv_rest_append _ _ _ hs'
  have hr2 : ((s.adv l1.length).adv 1).rest = l2 ++ (T1 ++ (T2 ++ rest)) := by rw [adv_rest', hr1]; rfl
  have hm2 := mb0_layout _ l2 _ hl2 (hT1.nb _) hr2
  have hr3 := adv_rest_append _ l2 _ hr2
  obtain ⟨e1, he1, hE1⟩ := h1 (T2 ++ rest) (hc rest hrest) _ hr3 f (by omega)
  have hr4 := adv_rest_append _ T1 _ hr3
  obtain ⟨es', hes, hEs⟩ := h2 rest hrest _ hr4 (acc ++ [e1]) f (by omega)
  refine ⟨e1 :: es', ?_, by simp [ExprL.ofList, ExprL.eraseSpans, hE1, hEs]⟩
  rw [alternativeLoop_succ, hm1, char?_some '|' _ _ hr1]
  simp only
  rw [hm2, he1]
  simp only
  rw [hes]
  simp only [adv_add']
  simp [Nat.add_assoc]
  congr 1; omega

theorem fbLoop_cons_lay {n1 n2 : Nat} {l1 l2 T1 T2 : List Char} {E1 : Expr} {Es : ExprL}
    (hl1 : IsLayout l1) (hl2 : IsLayout l2) (hT1 : StarterHead T1)
    (h1 : PT alternative ACont n1 T1 E1) (h2 : LT fallbackLoop FCont n2 T2 Es)
    (hc : ∀ rest, FCont rest → ACont (T2 ++ rest)) :
    LT fallbackLoop FCont (max n1 n2 + 1) (l1 ++ '|' :: '|' :: l2 ++ T1 ++ T2) (.cons E1 Es) := by
  intro rest hrest s hs acc f hf
  obtain ⟨f, rfl⟩ : ∃ f', f = f' + 1 := ⟨f - 1, by omega⟩
  have hs' : s.rest = l1 ++ '|' :: '|' :: (l2 ++ (T1 ++ (T2 ++ rest))) := by rw [hs]; simp
  have hm1 : mb0 s = s.adv l1.length := mb0_layout s l1 _ hl1 (NBHead_cons _ _ (by decide)) hs'
  have hr1 : (s.adv l1.length).rest = '|' :: '|' :: (l2 ++ (T1 ++ (T2 ++ rest))) :=
    adv_rest_append _ _ _ hs'
  have htag : tag? "||" (s.adv l1.length) = some ((s.adv l1.length).adv 2) := by
    apply tag?_some _ _ (by decide)
    have : "||".toList = ['|', '|'] := by rfl
    rw [this, hr1]; simp [List.isPrefixOf]
  have hr2 : ((s.adv l1.length).adv 2).rest = l2 ++ (T1 ++ (T2 ++ rest)) := by rw [adv_rest', hr1]; rfl
  have hm2 := mb0_layout _ l2 _ hl2 (hT1.nb _) hr2
  have hr3 := adv_rest_append _ l2 _ hr2
  obtain ⟨e1, he1, hE1⟩ := h1 (T2 ++ rest) (hc rest hrest) _ hr3 f (by omega)
  have hr4 := adv_rest_append _ T1 _ hr3
  obtain ⟨es', hes, hEs⟩ := h2 rest hrest _ hr4 (acc ++ [e1]) f (by omega)
  refine ⟨e1 :: es', ?_, by simp [ExprL.ofList, ExprL.eraseSpans, hE1, hEs]⟩
  rw [fallbackLoop_succ, hm1, htag]
  simp only
  rw [hm2, he1]
  simp only
  rw [hes]
  simp only [adv_add']
  simp [Nat.add_assoc]
  congr 1; omega

/-! ### the printer with layout -/

/-- the layout of a printed tree: for every node (addressed by the path from the root: `0` goes to the
only child / to the list of children / to the head of a list, `1` to the tail of a list) the strings to
put between two items of a sequence (`sep`), before and after `|` or `||` (`barL`, `barR`), after `[` or
`(` (`opn`), before `]` or `)` (`cls`), before a postfix `...` (`dots`) -/
structure Layout where
  sep : List Nat → List Char
  barL : List Nat → List Char
  barR : List Nat → List Char
  opn : List Nat → List Char
  cls : List Nat → List Char
  dots : List Nat → List Char

/-- the layout of the subtree under the step `i` -/
def Layout.sub (lay : Layout) (i : Nat) : Layout :=
  ⟨fun p => lay.sep (i :: p), fun p => lay.barL (i :: p), fun p => lay.barR (i :: p),
   fun p => lay.opn (i :: p), fun p => lay.cls (i :: p), fun p => lay.dots (i :: p)⟩

/-- an admissible layout: blanks and closed comments everywhere; something between two words; no `#`
directly after a word -/
structure Layout.Adm (lay : Layout) : Prop where
  sep : ∀ p, IsLayoutW (lay.sep p) ∧ lay.sep p ≠ []
  barL : ∀ p, IsLayoutW (lay.barL p)
  barR : ∀ p, IsLayout (lay.barR p)
  opn : ∀ p, IsLayout (lay.opn p)
  cls : ∀ p, IsLayoutW (lay.cls p)
  dots : ∀ p, IsLayoutW (lay.dots p)

theorem Layout.Adm.sub {lay : Layout} (h : lay.Adm) (i : Nat) : (lay.sub i).Adm :=
  ⟨fun p => h.sep (i :: p), fun p => h.barL (i :: p), fun p => h.barR (i :: p),
   fun p => h.opn (i :: p), fun p => h.cls (i :: p), fun p => h.dots (i :: p)⟩

def parenIfL (lay : Layout) (b : Bool) (T : List Char) : List Char :=
  if b then parenL (lay.opn []) (lay.cls []) T else T

/-- the separator of the list operator read at level `ctx` (3 juxtaposition, 2 `|`, 1 `||`) -/
def sepL (lay : Layout) : Nat → List Char
  | 3 => lay.sep []
  | 2 => lay.barL [] ++ '|' :: lay.barR []
  | _ => lay.barL [] ++ '|' :: '|' :: lay.barR []

mutual
/-- the printer of `Proofs/Ladder.lean` (`pp`) with the layout `lay` instead of single blanks -/
def ppL : Layout → Nat → Expr → List Char
  | _, _, .term t _ _ _ => t.toList
  | _, _, .nonterm n _ _ => '<' :: n.toList ++ ['>']
  | _, _, .cmd c _ _ _ => cmdText c.toList
  | lay, ctx, .seq cs _ => parenIfL lay (decide (3 ≤ ctx)) (ppListL (lay.sub 0) 3 cs)
  | lay, ctx, .alt cs _ => parenIfL lay (decide (2 ≤ ctx)) (ppListL (lay.sub 0) 2 cs)
  | lay, ctx, .fb cs _ => parenIfL lay (decide (1 ≤ ctx)) (ppListL (lay.sub 0) 1 cs)
  | lay, _, .opt c _ => '[' :: lay.opn [] ++ ppL (lay.sub 0) 0 c ++ lay.cls [] ++ [']']
  | lay, ctx, .many1 c _ =>
    parenIfL lay (decide (4 ≤ ctx)) (ppL (lay.sub 0) 4 c ++ lay.dots [] ++ ['.', '.', '.'])
  | _, _, .dd _ _ _ => []
  | _, _, .sub _ _ _ => []
def ppListL : Layout → Nat → ExprL → List Char
  | _, _, .nil => []
  | lay, ctx, .cons e es => ppL (lay.sub 0) ctx e ++ ppTailL (lay.sub 1) ctx es
def ppTailL : Layout → Nat → ExprL → List Char
  | _, _, .nil => []
  | lay, ctx, .cons e es => sepL lay ctx ++ ppL (lay.sub 0) ctx e ++ ppTailL (lay.sub 1) ctx es
end

/-! ### all levels at once, with layout -/

theorem assemble3_lay {n : Nat} {T l1 l2 : List Char} {E : Expr} (hl1 : IsLayout l1) (hl2 : IsLayoutW l2)
    (hT : StarterHead T) (h : PT unary UCont n T E) :
    AllT (n + 6) T T T T (parenL l1 l2 T) E := by
  have h3 := lift_U_D h
  have h2 := lift_D_S h3
  have h1 := lift_S_A h2
  have h0 := lift_A_F h1
  have hB := paren_PT_lay hl1 hl2 hT h0
  exact ⟨h0.mono (by omega), h1.mono (by omega), h2.mono (by omega), h3.mono (by omega), hB.mono (by omega)⟩

theorem assemble2_lay {n : Nat} {T l1 l2 : List Char} {E : Expr} (hl1 : IsLayout l1) (hl2 : IsLayoutW l2)
    (hT : StarterHead T) (h2 : PT sequence SCont n T E) :
    AllT (n + 6) T T T (parenL l1 l2 T) (parenL l1 l2 T) E := by
  have h1 := lift_S_A h2
  have h0 := lift_A_F h1
  have hB := paren_PT_lay hl1 hl2 hT h0
  have h3 := lift_U_D (lift_B_U hB)
  exact ⟨h0.mono (by omega), h1.mono (by omega), h2.mono (by omega), h3.mono (by omega), hB.mono (by omega)⟩

theorem assemble1_lay {n : Nat} {T l1 l2 : List Char} {E : Expr} (hl1 : IsLayout l1) (hl2 : IsLayoutW l2)
    (hT : StarterHead T) (h1 : PT alternative ACont n T E) :
    AllT (n + 6) T T (parenL l1 l2 T) (parenL l1 l2 T) (parenL l1 l2 T) E := by
  have h0 := lift_A_F h1
  have hB := paren_PT_lay hl1 hl2 hT h0
  have h3 := lift_U_D (lift_B_U hB)
  have h2 := lift_D_S h3
  exact ⟨h0.mono (by omega), h1.mono (by omega), h2.mono (by omega), h3.mono (by omega), hB.mono (by omega)⟩

theorem assemble0_lay {n : Nat} {T l1 l2 : List Char} {E : Expr} (hl1 : IsLayout l1) (hl2 : IsLayoutW l2)
    (hT : StarterHead T) (h0 : PT fallback FCont n T E) :
    AllT (n + 6) T (parenL l1 l2 T) (parenL l1 l2 T) (parenL l1 l2 T) (parenL l1 l2 T) E := by
  have hB := paren_PT_lay hl1 hl2 hT h0
  have h3 := lift_U_D (lift_B_U hB)
  have h2 := lift_D_S h3
  have h1 := lift_S_A h2
  exact ⟨h0.mono (by omega), h1.mono (by omega), h2.mono (by omega), h3.mono (by omega), hB.mono (by omega)⟩

theorem StarterHead.parenIfL {T : List Char} (h : StarterHead T) (lay : Layout) (b : Bool) :
    StarterHead (parenIfL lay b T) := by
  cases b
  · exact h
  · exact ⟨'(', lay.opn [] ++ T ++ lay.cls [] ++ [')'], by simp [Parse.parenIfL, parenL], by decide⟩

def AllG (e : Expr) : Prop := ∀ lay : Layout, lay.Adm →
  AllT (10 * size e) (ppL lay 0 e) (ppL lay 1 e) (ppL lay 2 e) (ppL lay 3 e) (ppL lay 4 e) e.eraseSpans ∧
  ∀ k, StarterHead (ppL lay k e)

def TailsG (es : ExprL) : Prop := ∀ lay : Layout, lay.Adm →
  LT sequenceLoop SCont (10 * sizeL es) (ppTailL lay 3 es) es.eraseSpans ∧
  LT alternativeLoop ACont (10 * sizeL es) (ppTailL lay 2 es) es.eraseSpans ∧
  LT fallbackLoop FCont (10 * sizeL es) (ppTailL lay 1 es) es.eraseSpans

def AllLG : ExprL → Prop
  | .nil => True
  | .cons e es => AllG e ∧ TailsG es ∧ AllLG es

theorem tailS_cont_lay (es : ExprL) (h : AllLG es) (lay : Layout) (adm : lay.Adm) :
    ∀ rest, SCont rest → UCont (ppTailL lay 3 es ++ rest) := by
  intro rest hrest
  cases es with
  | nil => simpa [ppTailL] using hrest.u
  | cons e es' =>
    have := UCont_layout_starter (lay.sep []) (ppL (lay.sub 0) 3 e) (ppTailL (lay.sub 1) 3 es' ++ rest)
      (adm.sep []).1 (adm.sep []).2 ((h.1 (lay.sub 0) (adm.sub 0)).2 3)
    simpa [ppTailL, sepL] using this

theorem tailA_cont_lay (es : ExprL) (lay : Layout) (adm : lay.Adm) :
    ∀ rest, ACont rest → SCont (ppTailL lay 2 es ++ rest) := by
  intro rest hrest
  cases es with
  | nil => simpa [ppTailL] using hrest.s
  | cons e es' =>
    have := SCont_layout_bar (lay.barL []) (lay.barR [] ++ ppL (lay.sub 0) 2 e ++ (ppTailL (lay.sub 1) 2 es' ++ rest))
      (adm.barL [])
    simpa [ppTailL, sepL] using this

theorem tailF_cont_lay (es : ExprL) (lay : Layout) (adm : lay.Adm) :
    ∀ rest, FCont rest → ACont (ppTailL lay 1 es ++ rest) := by
  intro rest hrest
  cases es with
  | nil => simpa [ppTailL] using hrest.a
  | cons e es' =>
    have := ACont_layout_barbar (lay.barL []) (lay.barR [] ++ ppL (lay.sub 0) 1 e ++ (ppTailL (lay.sub 1) 1 es' ++ rest))
      (adm.barL [])
    simpa [ppTailL, sepL] using this

theorem case_nil_lay : TailsG .nil ∧ AllLG .nil := by
  refine ⟨fun lay _ => ⟨?_, ?_, ?_⟩, trivial⟩
  · simpa [ppTailL, sizeL, ExprL.eraseSpans] using seqLoop_nil
  · simpa [ppTailL, sizeL, ExprL.eraseSpans] using altLoop_nil
  · simpa [ppTailL, sizeL, ExprL.eraseSpans] using fbLoop_nil

theorem case_cons_lay (e : Expr) (es : ExprL) (he : AllG e) (hes : TailsG es ∧ AllLG es) :
    TailsG (.cons e es) ∧ AllLG (.cons e es) := by
  refine ⟨fun lay adm => ?_, he, hes.1, hes.2⟩
  have he0 := he (lay.sub 0) (adm.sub 0)
  have hes1 := hes.1 (lay.sub 1) (adm.sub 1)
  refine ⟨?_, ?_, ?_⟩
  · have := seqLoop_cons_lay (adm.sep []).1.1 (adm.sep []).2 (he0.2 3) he0.1.2.2.2.1 hes1.1
      (tailS_cont_lay es hes.2 _ (adm.sub 1))
    have := this.mono (m := 10 * sizeL (.cons e es)) (by simp only [sizeL]; omega)
    simpa [ppTailL, sepL, ExprL.eraseSpans] using this
  · have := altLoop_cons_lay (adm.barL []).1 (adm.barR []) (he0.2 2) he0.1.2.2.1 hes1.2.1
      (tailA_cont_lay es _ (adm.sub 1))
    have := this.mono (m := 10 * sizeL (.cons e es)) (by simp only [sizeL]; omega)
    simpa [ppTailL, sepL, ExprL.eraseSpans] using this
  · have := fbLoop_cons_lay (adm.barL []).1 (adm.barR []) (he0.2 1) he0.1.2.1 hes1.2.2
      (tailF_cont_lay es _ (adm.sub 1))
    have := this.mono (m := 10 * sizeL (.cons e es)) (by simp only [sizeL]; omega)
    simpa [ppTailL, sepL, ExprL.eraseSpans] using this

theorem case_term_lay (t : String) (d : Option String) (l : Nat) (sp : Span) (h : NF (.term t d l sp)) :
    AllG (.term t d l sp) := by
  intro lay _
  have := case_term t d l sp h
  simpa only [All, pp, ppL] using this

theorem case_nonterm_lay (n : String) (l : Nat) (sp : Span) (h : NF (.nonterm n l sp)) :
    AllG (.nonterm n l sp) := by
  intro lay _
  have := case_nonterm n l sp h
  simpa only [All, pp, ppL] using this

theorem case_cmd_lay (c : String) (a : Bool) (l : Nat) (sp : Span) (h : NF (.cmd c a l sp)) :
    AllG (.cmd c a l sp) := by
  intro lay _
  have := case_cmd c a l sp h
  simpa only [All, pp, ppL] using this

theorem case_opt_lay (c : Expr) (sp : Span) (ih : NF c → AllG c) (h : NF (.opt c sp)) : AllG (.opt c sp) := by
  simp only [NF] at h
  have hc := ih h
  intro lay adm
  have hc0 := hc (lay.sub 0) (adm.sub 0)
  constructor
  · have := assemble4 (bracket_PT_lay (adm.opn []) (adm.cls []) (hc0.2 0) hc0.1.1)
    simpa [ppL, Expr.eraseSpans, size] using this.mono (m := 10 * size (.opt c sp)) (by simp only [size]; omega)
  · intro k
    exact ⟨'[', lay.opn [] ++ ppL (lay.sub 0) 0 c ++ lay.cls [] ++ [']'], by simp [ppL], by decide⟩

theorem case_many1_lay (c : Expr) (sp : Span) (ih : NF c → AllG c) (h : NF (.many1 c sp)) :
    AllG (.many1 c sp) := by
  simp only [NF] at h
  have hc := ih h
  intro lay adm
  have hc0 := hc (lay.sub 0) (adm.sub 0)
  have hT : StarterHead (ppL (lay.sub 0) 4 c ++ lay.dots [] ++ ['.', '.', '.']) := ((hc0.2 4).append _).append _
  constructor
  · have := assemble3_lay (adm.opn []) (adm.cls []) hT (lift_B_many1_lay (adm.dots []) hc0.1.2.2.2.2)
    simpa [ppL, parenIfL, Expr.eraseSpans, size] using
      this.mono (m := 10 * size (.many1 c sp)) (by simp only [size]; omega)
  · intro k
    simp only [ppL]
    exact hT.parenIfL _ _

theorem case_seq_lay (cs : ExprL) (sp : Span) (ih : NFL cs → TailsG cs ∧ AllLG cs) (h : NF (.seq cs sp)) :
    AllG (.seq cs sp) := by
  simp only [NF] at h
  obtain ⟨e1, e2, es, rfl⟩ := two_le_length h.1
  obtain ⟨_, h1, h2, h3⟩ := ih h.2
  intro lay adm
  have a0 := adm.sub 0
  have h1' := h1 ((lay.sub 0).sub 0) (a0.sub 0)
  have h2' := h2 ((lay.sub 0).sub 1) (a0.sub 1)
  have hT : StarterHead (ppL ((lay.sub 0).sub 0) 3 e1 ++ ppTailL ((lay.sub 0).sub 1) 3 (.cons e2 es)) :=
    (h1'.2 3).append _
  have hn := seq_native h1'.1.2.2.2.1 h2'.1 (tailS_cont_lay _ h3 _ (a0.sub 1))
  constructor
  · have := assemble2_lay (adm.opn []) (adm.cls []) hT hn
    simpa [ppL, ppListL, parenIfL, Expr.eraseSpans, ExprL.eraseSpans, size] using
      this.mono (m := 10 * size (.seq (.cons e1 (.cons e2 es)) sp)) (by simp only [size, sizeL]; omega)
  · intro k
    simp only [ppL, ppListL]
    exact hT.parenIfL _ _

theorem case_alt_lay (cs : ExprL) (sp : Span) (ih : NFL cs → TailsG cs ∧ AllLG cs) (h : NF (.alt cs sp)) :
    AllG (.alt cs sp) := by
  simp only [NF] at h
  obtain ⟨e1, e2, es, rfl⟩ := two_le_length h.1
  obtain ⟨_, h1, h2, h3⟩ := ih h.2
  intro lay adm
  have a0 := adm.sub 0
  have h1' := h1 ((lay.sub 0).sub 0) (a0.sub 0)
  have h2' := h2 ((lay.sub 0).sub 1) (a0.sub 1)
  have hT : StarterHead (ppL ((lay.sub 0).sub 0) 2 e1 ++ ppTailL ((lay.sub 0).sub 1) 2 (.cons e2 es)) :=
    (h1'.2 2).append _
  have hn := alt_native h1'.1.2.2.1 h2'.2.1 (tailA_cont_lay _ _ (a0.sub 1))
  constructor
  · have := assemble1_lay (adm.opn []) (adm.cls []) hT hn
    simpa [ppL, ppListL, parenIfL, Expr.eraseSpans, ExprL.eraseSpans, size] using
      this.mono (m := 10 * size (.alt (.cons e1 (.cons e2 es)) sp)) (by simp only [size, sizeL]; omega)
  · intro k
    simp only [ppL, ppListL]
    exact hT.parenIfL _ _

theorem case_fb_lay (cs : ExprL) (sp : Span) (ih : NFL cs → TailsG cs ∧ AllLG cs) (h : NF (.fb cs sp)) :
    AllG (.fb cs sp) := by
  simp only [NF] at h
  obtain ⟨e1, e2, es, rfl⟩ := two_le_length h.1
  obtain ⟨_, h1, h2, h3⟩ := ih h.2
  intro lay adm
  have a0 := adm.sub 0
  have h1' := h1 ((lay.sub 0).sub 0) (a0.sub 0)
  have h2' := h2 ((lay.sub 0).sub 1) (a0.sub 1)
  have hT : StarterHead (ppL ((lay.sub 0).sub 0) 1 e1 ++ ppTailL ((lay.sub 0).sub 1) 1 (.cons e2 es)) :=
    (h1'.2 1).append _
  have hn := fb_native h1'.1.2.1 h2'.2.2 (tailF_cont_lay _ _ (a0.sub 1))
  constructor
  · have := assemble0_lay (adm.opn []) (adm.cls []) hT hn
    simpa [ppL, ppListL, parenIfL, Expr.eraseSpans, ExprL.eraseSpans, size] using
      this.mono (m := 10 * size (.fb (.cons e1 (.cons e2 es)) sp)) (by simp only [size, sizeL]; omega)
  · intro k
    simp only [ppL, ppListL]
    exact hT.parenIfL _ _

theorem all_levels_lay (e : Expr) : NF e → AllG e := by
  refine Expr.rec (motive_1 := fun e => NF e → AllG e) (motive_2 := fun es => NFL es → TailsG es ∧ AllLG es)
    ?_ ?_ ?_ ?_ ?_ ?_ ?_ ?_ ?_ ?_ ?_ ?_ e
  · exact case_term_lay
  · exact case_nonterm_lay
  · exact case_cmd_lay
  · exact case_seq_lay
  · exact case_alt_lay
  · exact case_fb_lay
  · exact case_opt_lay
  · exact case_many1_lay
  · intro c d sp _ h; simp [NF] at h
  · intro c l sp _ h; simp [NF] at h
  · intro _; exact case_nil_lay
  · intro e es ihe ihes h
    simp only [NFL] at h
    exact case_cons_lay e es (ihe h.1) (ihes h.2)

/-- **Layout does not matter (1)**: a normal-form tree printed with any admissible layout — blanks and
comments wherever the syntax allows them — followed by the end of the input, `;`, `)`, `]` (possibly
after blanks and comments), is parsed by `fallback_expr` as the same tree up to spans, and exactly the
printed characters are consumed. -/
theorem fallback_roundtrip_layout (e : Expr) (hnf : NF e) (lay : Layout) (adm : lay.Adm)
    (rest : List Char) (hrest : Follows rest) (s : PState) (hs : s.rest = ppL lay 0 e ++ rest)
    (fuel : Nat) (hfuel : fuelNeeded e ≤ fuel) :
    ∃ e', fallback fuel s = some (s.adv (ppL lay 0 e).length, e') ∧ e'.eraseSpans = e.eraseSpans :=
  (all_levels_lay e hnf lay adm).1.1 rest hrest s hs fuel hfuel

/-- **Layout does not matter (2)**: two admissible layouts of one tree are parsed as trees that differ
in their spans only. -/
theorem layout_irrelevant (e : Expr) (hnf : NF e) (lay₁ lay₂ : Layout) (adm₁ : lay₁.Adm) (adm₂ : lay₂.Adm)
    (rest₁ rest₂ : List Char) (hrest₁ : Follows rest₁) (hrest₂ : Follows rest₂) (s₁ s₂ : PState)
    (hs₁ : s₁.rest = ppL lay₁ 0 e ++ rest₁) (hs₂ : s₂.rest = ppL lay₂ 0 e ++ rest₂)
    (fuel₁ fuel₂ : Nat) (hfuel₁ : fuelNeeded e ≤ fuel₁) (hfuel₂ : fuelNeeded e ≤ fuel₂) :
    ∃ e₁ e₂, fallback fuel₁ s₁ = some (s₁.adv (ppL lay₁ 0 e).length, e₁) ∧
      fallback fuel₂ s₂ = some (s₂.adv (ppL lay₂ 0 e).length, e₂) ∧ e₁.eraseSpans = e₂.eraseSpans := by
  obtain ⟨e₁, h₁, he₁⟩ := fallback_roundtrip_layout e hnf lay₁ adm₁ rest₁ hrest₁ s₁ hs₁ fuel₁ hfuel₁
  obtain ⟨e₂, h₂, he₂⟩ := fallback_roundtrip_layout e hnf lay₂ adm₂ rest₂ hrest₂ s₂ hs₂ fuel₂ hfuel₂
  exact ⟨e₁, e₂, h₁, h₂, he₁.trans he₂.symm⟩

/-! ### the plain printer is one of the layouts -/

/-- the layout of `pp`: one blank between the items of a sequence and on both sides of `|` and `||`,
nothing inside brackets and before `...` -/
def plainLayout : Layout :=
  ⟨fun _ => [' '], fun _ => [' '], fun _ => [' '], fun _ => [], fun _ => [], fun _ => []⟩

theorem plainLayout_sub (i : Nat) : plainLayout.sub i = plainLayout := rfl

theorem plainLayout_adm : plainLayout.Adm :=
  ⟨fun _ => ⟨⟨show IsLayout [' '] by decide, fun r e => by cases e⟩, by simp [plainLayout]⟩,
   fun _ => ⟨show IsLayout [' '] by decide, fun r e => by cases e⟩, fun _ => show IsLayout [' '] by decide,
   fun _ => rfl,
   fun _ => IsLayoutW.nil, fun _ => IsLayoutW.nil⟩

theorem parenIfL_plain (b : Bool) (T : List Char) : parenIfL plainLayout b T = parenIf b T := by
  cases b <;> simp [parenIfL, parenIf, parenL, plainLayout]

theorem pp_eq_ppL_aux (e : Expr) : ∀ ctx, pp ctx e = ppL plainLayout ctx e := by
  refine Expr.rec (motive_1 := fun e => ∀ ctx, pp ctx e = ppL plainLayout ctx e)
    (motive_2 := fun es =>
      (ppList 3 sepS es = ppListL plainLayout 3 es ∧ ppTail 3 sepS es = ppTailL plainLayout 3 es) ∧
      (ppList 2 sepA es = ppListL plainLayout 2 es ∧ ppTail 2 sepA es = ppTailL plainLayout 2 es) ∧
      (ppList 1 sepF es = ppListL plainLayout 1 es ∧ ppTail 1 sepF es = ppTailL plainLayout 1 es))
    ?_ ?_ ?_ ?_ ?_ ?_ ?_ ?_ ?_ ?_ ?_ ?_ e
  · intro t d l sp ctx; simp only [pp, ppL]
  · intro n l sp ctx; simp only [pp, ppL]
  · intro c a l sp ctx; simp only [pp, ppL]
  · intro cs sp ih ctx; simp only [pp, ppL, plainLayout_sub, parenIfL_plain, ih.1.1]
  · intro cs sp ih ctx; simp only [pp, ppL, plainLayout_sub, parenIfL_plain, ih.2.1.1]
  · intro cs sp ih ctx; simp only [pp, ppL, plainLayout_sub, parenIfL_plain, ih.2.2.1]
  · intro c sp ih ctx
    simp only [pp, ppL, plainLayout_sub, ih 0]
    simp [plainLayout]
  · intro c sp ih ctx
    simp only [pp, ppL, plainLayout_sub, parenIfL_plain, ih 4]
    simp [plainLayout]
  · intro c d sp _ ctx; simp only [pp, ppL]
  · intro c l sp _ ctx; simp only [pp, ppL]
  · simp [ppList, ppTail, ppListL, ppTailL]
  · intro e es ihe ihes
    simp only [ppList, ppTail, ppListL, ppTailL, plainLayout_sub, ihe, ihes.1.2, ihes.2.1.2, ihes.2.2.2]
    simp [sepL, sepS, sepA, sepF, plainLayout]

/-- **the plain printer is the instance `plainLayout`** of the printer with layout -/
theorem pp_eq_ppL (ctx : Nat) (e : Expr) : pp ctx e = ppL plainLayout ctx e := pp_eq_ppL_aux e ctx

/-- `fallback_roundtrip` of `Proofs/Ladder.lean` is the instance `plainLayout` -/
theorem fallback_roundtrip_of_layout (e : Expr) (hnf : NF e) (rest : List Char) (hrest : Follows rest)
    (s : PState) (hs : s.rest = pp 0 e ++ rest) (fuel : Nat) (hfuel : fuelNeeded e ≤ fuel) :
    ∃ e', fallback fuel s = some (s.adv (pp 0 e).length, e') ∧ e'.eraseSpans = e.eraseSpans := by
  rw [pp_eq_ppL] at hs ⊢
  exact fallback_roundtrip_layout e hnf plainLayout plainLayout_adm rest hrest s hs fuel hfuel

/-- any admissible layout is read as the plain text is -/
theorem layout_vs_plain (e : Expr) (hnf : NF e) (lay : Layout) (adm : lay.Adm)
    (rest₁ rest₂ : List Char) (hrest₁ : Follows rest₁) (hrest₂ : Follows rest₂) (s₁ s₂ : PState)
    (hs₁ : s₁.rest = ppL lay 0 e ++ rest₁) (hs₂ : s₂.rest = pp 0 e ++ rest₂)
    (fuel₁ fuel₂ : Nat) (hfuel₁ : fuelNeeded e ≤ fuel₁) (hfuel₂ : fuelNeeded e ≤ fuel₂) :
    ∃ e₁ e₂, fallback fuel₁ s₁ = some (s₁.adv (ppL lay 0 e).length, e₁) ∧
      fallback fuel₂ s₂ = some (s₂.adv (pp 0 e).length, e₂) ∧ e₁.eraseSpans = e₂.eraseSpans := by
  rw [pp_eq_ppL] at hs₂ ⊢
  exact layout_irrelevant e hnf lay plainLayout adm plainLayout_adm rest₁ rest₂ hrest₁ hrest₂ s₁ s₂ hs₁ hs₂
    fuel₁ fuel₂ hfuel₁ hfuel₂

/-! ### the notion of admissible layout, against `multiblanks0` -/

theorem mb0Aux_not_layout : ∀ (l : List Char) (b : Bool), layoutOK b l = false →
    mb0Aux b (l ++ ['x']) ≠ l.length
  | [], b, h => by
    cases b
    · simp [layoutOK] at h
    · decide
  | c :: cs, true, h => by
    simp only [layoutOK] at h
    simp only [List.cons_append, mb0Aux, List.length_cons]
    by_cases hc : c = '\n'
    · simp only [hc, if_true] at h ⊢
      have := mb0Aux_not_layout cs false h; omega
    · simp only [hc, if_false] at h ⊢
      have := mb0Aux_not_layout cs true h; omega
  | c :: cs, false, h => by
    simp only [layoutOK] at h
    simp only [List.cons_append, mb0Aux, List.length_cons]
    cases hb : (isSpace c || decide (c = '\x0c')) with
    | true =>
      simp only [hb, if_true] at h ⊢
      have := mb0Aux_not_layout cs false h; omega
    | false =>
      simp only [hb, Bool.false_eq_true, if_false] at h ⊢
      by_cases hc : c = '#'
      · simp only [hc, if_true] at h ⊢
        have := mb0Aux_not_layout cs true h; omega
      · simp only [hc, if_false]; omega

/-- `IsLayout l` says exactly that `multiblanks0` skips `l` and goes on with whatever follows as if
it started there: nothing but blanks and comments, and no comment that would swallow the next token -/
theorem isLayout_iff (l : List Char) :
    IsLayout l ↔ ∀ r, mb0Aux false (l ++ r) = l.length + mb0Aux false r := by
  constructor
  · intro h r; exact mb0Aux_layout l false r h
  · intro h
    cases hb : layoutOK false l with
    | true => exact hb
    | false =>
      have hx : mb0Aux false ['x'] = 0 := by decide
      exact absurd (by rw [h ['x'], hx]; rfl) (mb0Aux_not_layout l false hb)

/-- examples: a comment closed by its line feed is layout, an open one is not; after a word a layout
must not begin with `#` -/
example : IsLayoutW " \t# a | b ... \"c\" \n\x0c\r\n  ".toList := ⟨by decide, fun r e => by cases e⟩
example : IsLayout "# c\n".toList := by decide
example : ¬ IsLayout " # c".toList := by decide
example : ¬ IsLayout " x ".toList := by decide

end Complgen.Parse
