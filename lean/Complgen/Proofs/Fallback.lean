/-
C09: `||` is transparent to matching.  Replacing every `||` of a grammar by `|` changes descriptions
(a description after a group is spent differently) and levels, and nothing else: the meaning of the
two grammars is the same expression once descriptions, levels and source positions are erased and
`||` is read as `|` (`strip`).  Through `validate_expr_eq_meaning` the same holds for what the model
of check.rs returns.
-/
import Complgen.Proofs.Meaning
namespace Complgen.Check
open Complgen

mutual
/-- what is left of an expression when descriptions, `||` levels and source positions are erased and
`||` is read as `|` -/
def strip : Expr → Expr
  | .term t _ _ _ => .term t none 0 default
  | .nonterm n _ _ => .nonterm n 0 default
  | .cmd c a _ _ => .cmd c a 0 default
  | .seq cs _ => .seq (stripL cs) default
  | .alt cs _ => .alt (stripL cs) default
  | .fb cs _ => .alt (stripL cs) default
  | .opt c _ => .opt (strip c) default
  | .many1 c _ => .many1 (strip c) default
  | .sub c _ _ => .sub (strip c) 0 default
  | .dd c _ _ => strip c
def stripL : ExprL → ExprL
  | .nil => .nil
  | .cons e es => .cons (strip e) (stripL es)
end

mutual
/-- every `||` replaced by `|` -/
def fbToAlt : Expr → Expr
  | .fb cs s => .alt (fbToAltL cs) s
  | .seq cs s => .seq (fbToAltL cs) s
  | .alt cs s => .alt (fbToAltL cs) s
  | .opt c s => .opt (fbToAlt c) s
  | .many1 c s => .many1 (fbToAlt c) s
  | .sub c l s => .sub (fbToAlt c) l s
  | .dd c d s => .dd (fbToAlt c) d s
  | e => e
def fbToAltL : ExprL → ExprL
  | .nil => .nil
  | .cons e es => .cons (fbToAlt e) (fbToAltL es)
end

def fbToAltStmt : Stmt → Stmt
  | .call n s e => .call n s (fbToAlt e)
  | .defn n s sh e => .defn n s sh (fbToAlt e)

/-- the grammar with every `||` replaced by `|` -/
def fbToAltG (g : Grammar) : Grammar := g.map fbToAltStmt

mutual
theorem strip_fbToAlt : ∀ e : Expr, strip (fbToAlt e) = strip e
  | .term .. => rfl
  | .nonterm .. => rfl
  | .cmd .. => rfl
  | .fb cs s => by simp [fbToAlt, strip, stripL_fbToAlt cs]
  | .seq cs s => by simp [fbToAlt, strip, stripL_fbToAlt cs]
  | .alt cs s => by simp [fbToAlt, strip, stripL_fbToAlt cs]
  | .opt c s => by simp [fbToAlt, strip, strip_fbToAlt c]
  | .many1 c s => by simp [fbToAlt, strip, strip_fbToAlt c]
  | .sub c l s => by simp [fbToAlt, strip, strip_fbToAlt c]
  | .dd c d s => by simp [fbToAlt, strip, strip_fbToAlt c]
theorem stripL_fbToAlt : ∀ es : ExprL, stripL (fbToAltL es) = stripL es
  | .nil => rfl
  | .cons e es => by simp [fbToAltL, stripL, strip_fbToAlt e, stripL_fbToAlt es]
end

mutual
theorem strip_distr : ∀ (e : Expr) (p : Option String), strip (Spec.distr e p).1 = strip e
  | .dd c d s, p => by simp [Spec.distr, strip, strip_distr c (some d)]
  | .term t none l s, some d => by simp [Spec.distr, strip]
  | .term t (some d') l s, some d => by simp [Spec.distr, strip]
  | .term t d l s, none => by cases d <;> simp [Spec.distr, strip]
  | .nonterm n l s, p => by simp [Spec.distr, strip]
  | .cmd c a l s, p => by simp [Spec.distr, strip]
  | .seq cs s, p => by simp [Spec.distr, strip, stripL_distrSeq cs p]
  | .fb cs s, p => by simp [Spec.distr, strip, stripL_distrSeq cs p]
  | .alt cs s, p => by simp [Spec.distr, strip, stripL_distrAlt cs p]
  | .opt c s, p => by simp [Spec.distr, strip, strip_distr c p]
  | .many1 c s, p => by simp [Spec.distr, strip, strip_distr c p]
  | .sub c l s, p => by simp [Spec.distr, strip, strip_distr c p]
theorem stripL_distrSeq : ∀ (es : ExprL) (p : Option String), stripL (Spec.distrSeq es p).1 = stripL es
  | .nil, p => by simp [Spec.distrSeq, stripL]
  | .cons e es, p => by simp [Spec.distrSeq, stripL, strip_distr e p, stripL_distrSeq es (Spec.distr e p).2]
theorem stripL_distrAlt : ∀ (es : ExprL) (p : Option String), stripL (Spec.distrAlt es p).1 = stripL es
  | .nil, p => by simp [Spec.distrAlt, stripL]
  | .cons e es, p => by simp [Spec.distrAlt, stripL, strip_distr e p, stripL_distrAlt es p]
end

mutual
theorem strip_label : ∀ (e : Expr) (lvl : Nat), strip (Spec.label e lvl) = strip e
  | .term .., _ => by simp [Spec.label, strip]
  | .nonterm .., _ => by simp [Spec.label, strip]
  | .cmd .., _ => by simp [Spec.label, strip]
  | .seq cs s, lvl => by simp [Spec.label, strip, stripL_labelL cs lvl]
  | .alt cs s, lvl => by simp [Spec.label, strip, stripL_labelL cs lvl]
  | .fb cs s, lvl => by simp [Spec.label, strip, stripL_labelFb cs 0]
  | .opt c s, lvl => by simp [Spec.label, strip, strip_label c lvl]
  | .many1 c s, lvl => by simp [Spec.label, strip, strip_label c lvl]
  | .sub c l s, lvl => by simp [Spec.label, strip, strip_label c lvl]
  | .dd c d s, lvl => by simp [Spec.label, strip, strip_label c lvl]
theorem stripL_labelL : ∀ (es : ExprL) (lvl : Nat), stripL (Spec.labelL es lvl) = stripL es
  | .nil, _ => by simp [Spec.labelL, stripL]
  | .cons e es, lvl => by simp [Spec.labelL, stripL, strip_label e lvl, stripL_labelL es lvl]
theorem stripL_labelFb : ∀ (es : ExprL) (i : Nat), stripL (Spec.labelFb es i) = stripL es
  | .nil, _ => by simp [Spec.labelFb, stripL]
  | .cons e es, i => by simp [Spec.labelFb, stripL, strip_label e i, stripL_labelFb es (i + 1)]
end

end Complgen.Check

namespace Complgen.Check
open Complgen

theorem specFor_fbToAlt (sh : Shell) (n : String) (st : Stmt) : specFor sh n (fbToAltStmt st) = specFor sh n st := by
  cases st with
  | call c s e => rfl
  | defn m s shl e =>
    cases shl with
    | none => rfl
    | some p =>
      obtain ⟨a, b⟩ := p
      cases e <;> simp [fbToAltStmt, fbToAlt, specFor]

theorem plainFor_fbToAlt (n : String) (st : Stmt) : plainFor n (fbToAltStmt st) = (plainFor n st).map fbToAlt := by
  cases st with
  | call c s e => rfl
  | defn m s shl e =>
    cases shl with
    | some p => rfl
    | none =>
      simp only [fbToAltStmt, plainFor]
      split <;> rfl

theorem findSome?_map_opt {α β γ} (f : α → Option β) (g : β → γ) : ∀ l : List α,
    l.findSome? (fun a => (f a).map g) = (l.findSome? f).map g
  | [] => rfl
  | a :: l => by
    simp only [List.findSome?_cons]
    cases f a with
    | none => simpa using findSome?_map_opt f g l
    | some b => rfl

theorem pick_fbToAlt (sh : Shell) (g : Grammar) (n : String) :
    Spec.pick sh (fbToAltG g) n =
      match Spec.pick sh g n with
      | .command c a => .command c a
      | .expr d => .expr (fbToAlt d)
      | .anyWord => .anyWord := by
  rw [pick_unfold, pick_unfold]
  unfold fbToAltG
  rw [List.findSome?_map, List.findSome?_map]
  have h1 : (specFor sh n ∘ fbToAltStmt) = specFor sh n := funext (specFor_fbToAlt sh n)
  have h2 : (plainFor n ∘ fbToAltStmt) = fun st => (plainFor n st).map fbToAlt := funext (plainFor_fbToAlt n)
  rw [h1, h2, findSome?_map_opt]
  cases List.findSome? (specFor sh n) g with
  | some c => rfl
  | none =>
    simp only
    cases List.findSome? (plainFor n) g with
    | some e => rfl
    | none =>
      simp only [Option.map_none]
      cases (Gen.builtinTable.find? (fun r => r.1 == n && r.2.1 == sh)).map (·.2.2) <;> rfl

/-- two expressions that differ in descriptions, levels, positions and `||` vs `|` only, neither
containing a description node -/
def Sim (a b : Expr) : Prop := strip a = strip b ∧ NoDD a = true ∧ NoDD b = true
def SimL (a b : ExprL) : Prop := stripL a = stripL b ∧ NoDDL a = true ∧ NoDDL b = true

theorem simL_cons {a b : Expr} {as bs : ExprL} (h : SimL (.cons a as) (.cons b bs)) : Sim a b ∧ SimL as bs := by
  obtain ⟨h1, h2, h3⟩ := h
  simp only [stripL, ExprL.cons.injEq] at h1
  simp only [NoDDL, Bool.and_eq_true] at h2 h3
  exact ⟨⟨h1.1, h2.1, h3.1⟩, ⟨h1.2, h2.2, h3.2⟩⟩

theorem sim_distr (d : Expr) : Sim (Spec.distr (fbToAlt d) none).1 (Spec.distr d none).1 := by
  refine ⟨?_, ?_, ?_⟩
  · rw [strip_distr, strip_distr, strip_fbToAlt]
  · rw [← distr_eq_spec]; exact distr_noDD _ none
  · rw [← distr_eq_spec]; exact distr_noDD _ none

end Complgen.Check

namespace Complgen.Check
open Complgen

theorem expandL_sim_step (sh : Shell) (g : Grammar) (k : Nat)
    (hE : ∀ a b : Expr, Sim a b → strip (Spec.expand sh (fbToAltG g) k a) = strip (Spec.expand sh g k b)) :
    ∀ as bs : ExprL, SimL as bs →
      stripL (Spec.expandL sh (fbToAltG g) (k + 1) as) = stripL (Spec.expandL sh g (k + 1) bs)
  | .nil, .nil, _ => by simp [Spec.expandL]
  | .nil, .cons b bs, h => by simp [SimL, stripL] at h
  | .cons a as, .nil, h => by simp [SimL, stripL] at h
  | .cons a as, .cons b bs, h => by
    obtain ⟨h1, h2⟩ := simL_cons h
    simp only [Spec.expandL, stripL, hE a b h1, expandL_sim_step sh g k hE as bs h2]

theorem expand_sim (sh : Shell) (g : Grammar) : ∀ k : Nat,
    (∀ a b : Expr, Sim a b → strip (Spec.expand sh (fbToAltG g) k a) = strip (Spec.expand sh g k b)) ∧
    (∀ as bs : ExprL, SimL as bs → stripL (Spec.expandL sh (fbToAltG g) k as) = stripL (Spec.expandL sh g k bs))
  | 0 => ⟨fun a b h => by simpa [Spec.expand] using h.1, fun as bs h => by simpa [Spec.expandL] using h.1⟩
  | k + 1 => by
    have ih := expand_sim sh g k
    refine ⟨?_, expandL_sim_step sh g k ih.1⟩
    intro a b h
    obtain ⟨hs, ha, hb⟩ := h
    cases a with
    | dd c d s => simp [NoDD] at ha
    | term t d l s =>
      cases b with
      | dd c d s => simp [NoDD] at hb
      | term t' d' l' s' => simp only [strip, Expr.term.injEq, and_true] at hs; subst hs; simp [Spec.expand, strip]
      | _ => simp [strip] at hs
    | cmd c a l s =>
      cases b with
      | dd c d s => simp [NoDD] at hb
      | cmd c' a' l' s' =>
        simp only [strip, Expr.cmd.injEq, and_true] at hs
        obtain ⟨h1, h2⟩ := hs
        subst h1; subst h2
        simp [Spec.expand, strip]
      | _ => simp [strip] at hs
    | nonterm n l s =>
      cases b with
      | dd c d s => simp [NoDD] at hb
      | nonterm n' l' s' =>
        simp only [strip, Expr.nonterm.injEq, and_true] at hs
        subst hs
        simp only [Spec.expand, pick_fbToAlt]
        cases Spec.pick sh g n with
        | command c a => simp [strip]
        | anyWord => simp [strip]
        | expr d => exact ih.1 _ _ (sim_distr d)
      | _ => simp [strip] at hs
    | opt c s =>
      cases b with
      | dd c d s => simp [NoDD] at hb
      | opt c' s' =>
        simp only [strip, Expr.opt.injEq, and_true] at hs
        simp only [Spec.expand, strip, Expr.opt.injEq, and_true]
        exact ih.1 c c' ⟨hs, by simpa [NoDD] using ha, by simpa [NoDD] using hb⟩
      | _ => simp [strip] at hs
    | many1 c s =>
      cases b with
      | dd c d s => simp [NoDD] at hb
      | many1 c' s' =>
        simp only [strip, Expr.many1.injEq, and_true] at hs
        simp only [Spec.expand, strip, Expr.many1.injEq, and_true]
        exact ih.1 c c' ⟨hs, by simpa [NoDD] using ha, by simpa [NoDD] using hb⟩
      | _ => simp [strip] at hs
    | sub c l s =>
      cases b with
      | dd c d s => simp [NoDD] at hb
      | sub c' l' s' =>
        simp only [strip, Expr.sub.injEq, and_true] at hs
        simp only [Spec.expand, strip, Expr.sub.injEq, and_true]
        exact ih.1 c c' ⟨hs, by simpa [NoDD] using ha, by simpa [NoDD] using hb⟩
      | _ => simp [strip] at hs
    | seq cs s =>
      cases b with
      | dd c d s => simp [NoDD] at hb
      | seq cs' s' =>
        simp only [strip, Expr.seq.injEq, and_true] at hs
        simp only [Spec.expand, strip, Expr.seq.injEq, and_true]
        exact ih.2 cs cs' ⟨hs, by simpa [NoDD] using ha, by simpa [NoDD] using hb⟩
      | _ => simp [strip] at hs
    | alt cs s =>
      cases b with
      | dd c d s => simp [NoDD] at hb
      | alt cs' s' =>
        simp only [strip, Expr.alt.injEq, and_true] at hs
        simp only [Spec.expand, strip, Expr.alt.injEq, and_true]
        exact ih.2 cs cs' ⟨hs, by simpa [NoDD] using ha, by simpa [NoDD] using hb⟩
      | fb cs' s' =>
        simp only [strip, Expr.alt.injEq, and_true] at hs
        simp only [Spec.expand, strip, Expr.alt.injEq, and_true]
        exact ih.2 cs cs' ⟨hs, by simpa [NoDD] using ha, by simpa [NoDD] using hb⟩
      | _ => simp [strip] at hs
    | fb cs s =>
      cases b with
      | dd c d s => simp [NoDD] at hb
      | alt cs' s' =>
        simp only [strip, Expr.alt.injEq, and_true] at hs
        simp only [Spec.expand, strip, Expr.alt.injEq, and_true]
        exact ih.2 cs cs' ⟨hs, by simpa [NoDD] using ha, by simpa [NoDD] using hb⟩
      | fb cs' s' =>
        simp only [strip, Expr.alt.injEq, and_true] at hs
        simp only [Spec.expand, strip, Expr.alt.injEq, and_true]
        exact ih.2 cs cs' ⟨hs, by simpa [NoDD] using ha, by simpa [NoDD] using hb⟩
      | _ => simp [strip] at hs

end Complgen.Check

namespace Complgen.Check
open Complgen

mutual
theorem strip_unword : ∀ e : Expr, NoDD e = true → strip (Spec.unword e) = Spec.unword (strip e)
  | .term .., _ => by simp [Spec.unword, strip]
  | .nonterm .., _ => by simp [Spec.unword, strip]
  | .cmd .., _ => by simp [Spec.unword, strip]
  | .dd .., h => by simp [NoDD] at h
  | .sub c l s, h => by simp only [Spec.unword, strip]; exact strip_unword c (by simpa [NoDD] using h)
  | .opt c s, h => by simp [Spec.unword, strip, strip_unword c (by simpa [NoDD] using h)]
  | .many1 c s, h => by simp [Spec.unword, strip, strip_unword c (by simpa [NoDD] using h)]
  | .seq cs s, h => by simp [Spec.unword, strip, stripL_unword cs (by simpa [NoDD] using h)]
  | .alt cs s, h => by simp [Spec.unword, strip, stripL_unword cs (by simpa [NoDD] using h)]
  | .fb cs s, h => by simp [Spec.unword, strip, stripL_unword cs (by simpa [NoDD] using h)]
theorem stripL_unword : ∀ es : ExprL, NoDDL es = true → stripL (Spec.unwordL es) = Spec.unwordL (stripL es)
  | .nil, _ => by simp [Spec.unwordL, stripL]
  | .cons e es, h => by
    simp only [NoDDL, Bool.and_eq_true] at h
    simp [Spec.unwordL, stripL, strip_unword e h.1, stripL_unword es h.2]
end

mutual
theorem strip_words : ∀ e : Expr, NoDD e = true → strip (Spec.words e) = Spec.words (strip e)
  | .term .., _ => by simp [Spec.words, strip]
  | .nonterm .., _ => by simp [Spec.words, strip]
  | .cmd .., _ => by simp [Spec.words, strip]
  | .dd .., h => by simp [NoDD] at h
  | .sub c l s, h => by simp [Spec.words, strip, strip_unword c (by simpa [NoDD] using h)]
  | .opt c s, h => by simp [Spec.words, strip, strip_words c (by simpa [NoDD] using h)]
  | .many1 c s, h => by simp [Spec.words, strip, strip_words c (by simpa [NoDD] using h)]
  | .seq cs s, h => by simp [Spec.words, strip, stripL_words cs (by simpa [NoDD] using h)]
  | .alt cs s, h => by simp [Spec.words, strip, stripL_words cs (by simpa [NoDD] using h)]
  | .fb cs s, h => by simp [Spec.words, strip, stripL_words cs (by simpa [NoDD] using h)]
theorem stripL_words : ∀ es : ExprL, NoDDL es = true → stripL (Spec.wordsL es) = Spec.wordsL (stripL es)
  | .nil, _ => by simp [Spec.wordsL, stripL]
  | .cons e es, h => by
    simp only [NoDDL, Bool.and_eq_true] at h
    simp [Spec.wordsL, stripL, strip_words e h.1, stripL_words es h.2]
end

theorem callBodies_fbToAlt (g : Grammar) : Spec.callBodies (fbToAltG g) = (Spec.callBodies g).map fbToAlt := by
  unfold Spec.callBodies fbToAltG
  induction g with
  | nil => rfl
  | cons st rest ih =>
    cases st with
    | call n s e => simp [fbToAltStmt, List.filterMap_cons, ih]
    | defn n s shl e => simp [fbToAltStmt, List.filterMap_cons, ih]

theorem stripL_ofList_map : ∀ l : List Expr, stripL (ExprL.ofList (l.map fbToAlt)) = stripL (ExprL.ofList l)
  | [] => rfl
  | e :: es => by simp [ExprL.ofList, stripL, strip_fbToAlt e, stripL_ofList_map es]

theorem strip_topOf (sp : Span) (g : Grammar) : strip (Spec.topOf sp (fbToAltG g)) = strip (Spec.topOf sp g) := by
  unfold Spec.topOf
  rw [callBodies_fbToAlt]
  cases hc : Spec.callBodies g with
  | nil => rfl
  | cons e rest =>
    cases rest with
    | nil => simp [strip_fbToAlt]
    | cons e2 rest2 =>
      simp only [List.map_cons, strip, Expr.alt.injEq, and_true]
      exact stripL_ofList_map (e :: e2 :: rest2)

theorem stmtSize_fbToAlt_aux : ∀ e : Expr, Spec.size (fbToAlt e) = Spec.size e := by
  intro e
  exact (sizeEq e).1
where
  sizeEq : ∀ e : Expr, Spec.size (fbToAlt e) = Spec.size e ∧ True := fun e => ⟨sz e, trivial⟩
  sz : ∀ e : Expr, Spec.size (fbToAlt e) = Spec.size e
    | .term .. => rfl
    | .nonterm .. => rfl
    | .cmd .. => rfl
    | .fb cs s => by simp [fbToAlt, Spec.size, szL cs]
    | .seq cs s => by simp [fbToAlt, Spec.size, szL cs]
    | .alt cs s => by simp [fbToAlt, Spec.size, szL cs]
    | .opt c s => by simp [fbToAlt, Spec.size, sz c]
    | .many1 c s => by simp [fbToAlt, Spec.size, sz c]
    | .sub c l s => by simp [fbToAlt, Spec.size, sz c]
    | .dd c d s => by simp [fbToAlt, Spec.size, sz c]
  szL : ∀ es : ExprL, Spec.sizeL (fbToAltL es) = Spec.sizeL es
    | .nil => rfl
    | .cons e es => by simp [fbToAltL, Spec.sizeL, sz e, szL es]

/-- **`||` is transparent to matching**: the meaning of a grammar and of the grammar with every `||`
replaced by `|` are the same expression once descriptions, levels and positions are erased and `||` is
read as `|`. -/
theorem meaningAt_fbToAlt (sp : Span) (g : Grammar) (sh : Shell) :
    strip (Spec.meaningAt sp (fbToAltG g) sh) = strip (Spec.meaningAt sp g sh) := by
  unfold Spec.meaningAt
  simp only
  generalize hA : List.foldl _ 0 (fbToAltG g) = A
  generalize hB : List.foldl _ 0 g = B
  have hA' : A = ((fbToAltG g).map stmtSize).sum := by
    rw [← hA]; exact (foldl_total (fbToAltG g) 0).trans (Nat.zero_add _)
  have hB' : B = (g.map stmtSize).sum := by
    rw [← hB]; exact (foldl_total g 0).trans (Nat.zero_add _)
  have hAB : A = B := by
    rw [hA', hB']
    unfold fbToAltG
    rw [List.map_map]
    congr 1
    apply List.map_congr_left
    intro st _
    cases st <;> simp [fbToAltStmt, stmtSize, stmtSize_fbToAlt_aux]
  rw [hAB]
  have hd1 : NoDD (Spec.distr (Spec.topOf sp (fbToAltG g)) none).1 = true := by
    rw [← distr_eq_spec]; exact distr_noDD _ none
  have hd2 : NoDD (Spec.distr (Spec.topOf sp g) none).1 = true := by
    rw [← distr_eq_spec]; exact distr_noDD _ none
  have hsim : Sim (Spec.distr (Spec.topOf sp (fbToAltG g)) none).1 (Spec.distr (Spec.topOf sp g) none).1 :=
    ⟨by rw [strip_distr, strip_distr, strip_topOf], hd1, hd2⟩
  have he := (expand_sim sh g (2 * B + 8)).1 _ _ hsim
  have hn1 := (expand_noDD sh (fbToAltG g) (2 * B + 8)).1 _ hd1
  have hn2 := (expand_noDD sh g (2 * B + 8)).1 _ hd2
  rw [strip_label, strip_label, strip_words _ hn1, strip_words _ hn2, he]

end Complgen.Check

namespace Complgen.Check
open Complgen

theorem span_fbToAlt (e : Expr) : (fbToAlt e).span = e.span := by
  cases e <;> simp [fbToAlt, Expr.span]

theorem callsOf_fbToAlt (g : Grammar) :
    callsOf (fbToAltG g) = (callsOf g).map fun c => (c.1, c.2.1, fbToAlt c.2.2) := by
  unfold callsOf fbToAltG
  induction g with
  | nil => rfl
  | cons st rest ih =>
    cases st with
    | call n s e => simp [fbToAltStmt, List.filterMap_cons, ih]
    | defn n s shl e => simp [fbToAltStmt, List.filterMap_cons, ih]

theorem topSpan_fbToAlt (g : Grammar) : topSpan (fbToAltG g) = topSpan g := by
  unfold topSpan
  rw [callsOf_fbToAlt]
  cases callsOf g with
  | nil => rfl
  | cons c rest => simp [span_fbToAlt]

/-- **What the model of check.rs returns for a grammar and for its `|` variant differs in descriptions,
levels and `||` vs `|` only** — whenever it accepts both. -/
theorem validate_fbToAlt (g : Grammar) (sh : Shell) (v v' : Valid) (h : validate g sh = .ok v)
    (h' : validate (fbToAltG g) sh = .ok v') : strip v'.expr = strip v.expr := by
  rw [validate_expr_eq_meaning g sh v h, validate_expr_eq_meaning (fbToAltG g) sh v' h', topSpan_fbToAlt]
  exact meaningAt_fbToAlt _ g sh

end Complgen.Check
