/-
**The emitted bash script interprets the automaton — at ARBITRARY states.**

Successor of `Proofs/TemplateDfa.lean` (the literal part).  `S` is a script whose main tables are the
tables the emitter writes for the automaton `a` with the command numbering `cmds` and the within-word
numbering `subId` (`ScriptOf S a cmds subId`; `Tables.ofDfa d out` is the instance `scriptOf_ofDfa`:
`a := d.main`, `cmds := commands d`, `subId := subIdOf (subOrder d.main)`).  The within-word matcher is
kept abstract: the statements mention `subMatches (S.sub j) S.out w` and `subComplete (S.sub j) S.out p`
(for `S = ofDfa d out`, `S.sub j = ofAuto s (commands d) fun _ => none` for `s = d.subs[k]`,
`j = subIdOf (subOrder d.main) k`: `Tables.ofDfa_sub`).

1. `readWord_cases` (everything `readWord` does, no determinism assumed), `readWord_sound`,
   `readWord_total`, `readWord_none_iff`, `readWord_spec` (iff, under `StepDetAt`; `stepDetAt_of`,
   `subRead_det_of`, `cmdRead_det_of` give it from one hypothesis per class), `readWord_flag`,
   `readWord_none_flag`; the order inside a class when several readings exist: `subLookup_eq_first`,
   `starLookup_eq_first` (first transition in iteration order); for literals the first id of the literal
   table (`TemplateDfa.readWord_literal_needs_wordDet`); for commands the smallest command number (the
   row is a `BTreeMap`) — that order is NOT characterised here, only "some reading of the class";
2. `walk_sound` (no determinism), `walk_complete`, `walk_spec`;
3. `offer_eq_firstLevel` (the accumulated `candidates` array never matters, as a list, any tables),
   `offerAcc_eq_offer` (so the overwriting `readarray` makes no difference), `mem_offer_iff_level`,
   `offer_spec`, `offer_spec_le`, `offer_nil_iff`;
4. `complete_sound` (no determinism), `complete_none_iff`, `complete_spec`, `mem_complete_spec`;
5. the instance `ofDfa_*` (`ofDfa_subRead_iff`: the within-word readings with the tables of the
   within-word automaton itself).

Only propext, Classical.choice, Quot.sound.
-/
import Complgen.Proofs.TemplateDfa
namespace Complgen.TemplateDfaAll
open Complgen BashRt Complgen.Tables Complgen.TemplateDfa

/-! ### 0. hypotheses -/

/-- the main tables of `S` are the tables of `a` for the command numbering `cmds` and the within-word
numbering `subId`, for some order of the literal table; the three numberings cover the transitions -/
def ScriptOf (S : Script) (a : Auto) (cmds : List String) (subId : Nat → Option Nat) : Prop :=
  ∃ lits, S.main = ofAutoWith lits a cmds subId ∧
    (∀ q txt d lvl t, HasEdge a q (.lit txt d lvl) t → (txt, d) ∈ lits) ∧
    (∀ q c lvl t, HasEdge a q (.cmd c lvl) t → c ∈ cmds) ∧
    (∀ q k lvl t, HasEdge a q (.sub k lvl) t → ∃ j, subId k = some j)

theorem ScriptOf.mainOf {S : Script} {a : Auto} {cmds : List String} {subId : Nat → Option Nat}
    (h : ScriptOf S a cmds subId) : MainOf S a := by
  obtain ⟨lits, hS, hl, _, _⟩ := h
  exact ⟨lits, cmds, subId, hS, hl⟩

theorem scriptOf_ofDfa (d : Dfa) (out : Nat → List String) :
    ScriptOf (ofDfa d out) d.main (commands d) (subIdOf (subOrder d.main)) :=
  ⟨sortedLits d.main, rfl, fun _ _ _ _ _ he => sortedLits_cover_edge he,
    fun _ _ _ _ he => commands_cover_main he, fun _ _ _ _ he => subOrder_cover he⟩

/-! ### 0'. lists and rows -/

theorem toOf_foldl_bInsert_isSome {k : Nat} : ∀ (l m : List (Nat × Nat)),
    ((toOf m k).isSome = true ∨ ∃ p ∈ l, p.1 = k) →
    (toOf (l.foldl (fun m p => bInsert p.1 p.2 m) m) k).isSome = true
  | [], m, h => by
    rcases h with h | ⟨p, hp, _⟩
    · exact h
    · simp at hp
  | x :: xs, m, h => by
    rw [List.foldl_cons]
    apply toOf_foldl_bInsert_isSome xs
    rw [toOf_bInsert]
    by_cases hx : x.1 = k
    · left
      simp [hx]
    · simp only [hx, if_false]
      rcases h with h | ⟨p, hp, hk⟩
      · exact Or.inl h
      · rcases List.mem_cons.mp hp with rfl | hp'
        · exact absurd hk hx
        · exact Or.inr ⟨p, hp', hk⟩

/-- a collected row (`BTreeMap`) has an entry for every id some pair carries -/
theorem toOf_bOfList_isSome {k v : Nat} {l : List (Nat × Nat)} (hm : (k, v) ∈ l) :
    ∃ v', toOf (bOfList l) k = some v' :=
  Option.isSome_iff_exists.mp (toOf_foldl_bInsert_isSome l [] (Or.inr ⟨(k, v), hm, rfl⟩))

theorem cmdId_of_mem {cmds : List String} {c : String} (hc : c ∈ cmds) :
    cmdId cmds c = some (cmds.idxOf c) := by
  simp [cmdId, hc]

theorem cmdId_eq {cmds : List String} {c : String} {k : Nat} (h : cmdId cmds c = some k) :
    k = cmds.idxOf c := by
  unfold cmdId at h
  by_cases hc : c ∈ cmds
  · simp only [hc, if_true, Option.some.injEq] at h
    exact h.symm
  · simp [hc] at h

/-! ### 0''. the embedding facts, for `S` (no determinism assumed) -/

section facts
variable {S : Script} {a : Auto} {cmds : List String} {subId : Nat → Option Nat}

/-- a literal transition out of `q` has an id with an entry in the row of `q` (to the target of SOME
literal transition with the same id) -/
theorem lit_row_some (h : ScriptOf S a cmds subId) {q : Nat} {w : String} {d : Option String} {lvl t : Nat}
    (he : HasEdge a q (.lit w d lvl) t) :
    ∃ row k t', rowOf S.main.litTrans q = some row ∧ S.main.literals[k]? = some w ∧
      toOf row k = some t' := by
  obtain ⟨lits, hS, hl, _, _⟩ := h
  rw [hS]
  obtain ⟨k, hk⟩ := litId_exists (hl q w d lvl t he)
  obtain ⟨t', ht'⟩ := toOf_bOfList_isSome (k := k) (v := t)
    (l := (edges a).filterMap (litPair lits q))
    (List.mem_filterMap.mpr ⟨(q, .lit w d lvl, t), mem_edges.mpr he, by simp [litPair, hk]⟩)
  refine ⟨_, k, t', ?_, lit_name hk, ht'⟩
  rw [litTrans_row]
  simp [state_of_edge he, isEmpty_false_of_toOf ht']

theorem sub_row_mem (h : ScriptOf S a cmds subId) {q k lvl t j : Nat}
    (he : HasEdge a q (.sub k lvl) t) (hk : subId k = some j) :
    ∃ row, rowOf S.main.subTrans q = some row ∧ (j, t) ∈ row := by
  obtain ⟨lits, hS, _, _, _⟩ := h
  rw [hS]
  have hm : (j, t) ∈ (edges a).filterMap (subPair subId q) :=
    List.mem_filterMap.mpr ⟨(q, .sub k lvl, t), mem_edges.mpr he, by simp [subPair, hk]⟩
  refine ⟨_, ?_, hm⟩
  rw [subTrans_row]
  have hne : ((edges a).filterMap (subPair subId q)).isEmpty = false := by
    cases hl : (edges a).filterMap (subPair subId q) with
    | nil => rw [hl] at hm; cases hm
    | cons _ _ => rfl
  simp [state_of_edge he, hne]

theorem sub_row_back (h : ScriptOf S a cmds subId) {q : Nat} {row : List (Nat × Nat)} {j t : Nat}
    (hr : rowOf S.main.subTrans q = some row) (hm : (j, t) ∈ row) :
    ∃ k lvl, HasEdge a q (.sub k lvl) t ∧ subId k = some j := by
  obtain ⟨lits, hS, _, _, _⟩ := h
  rw [hS] at hr
  exact E2_sub_row_backward hr hm

/-- a command transition out of `q` has an entry in the row of `q` under its number (to the target of
SOME command transition out of `q` with the same text) -/
theorem cmd_row_some (h : ScriptOf S a cmds subId) {q : Nat} {c : String} {lvl t : Nat}
    (he : HasEdge a q (.cmd c lvl) t) :
    ∃ row t', rowOf S.main.cmdTrans q = some row ∧ (cmds.idxOf c, t') ∈ row := by
  obtain ⟨lits, hS, _, hc, _⟩ := h
  rw [hS]
  have hk := cmdId_of_mem (hc q c lvl t he)
  obtain ⟨t', ht'⟩ := toOf_bOfList_isSome (k := cmds.idxOf c) (v := t)
    (l := (edges a).filterMap (cmdPair cmds q))
    (List.mem_filterMap.mpr ⟨(q, .cmd c lvl, t), mem_edges.mpr he, by simp [cmdPair, hk]⟩)
  refine ⟨_, t', ?_, mem_of_toOf ht'⟩
  rw [cmdTrans_row]
  simp [state_of_edge he, isEmpty_false_of_toOf ht']

theorem cmd_row_back (h : ScriptOf S a cmds subId) {q : Nat} {row : List (Nat × Nat)} {k t : Nat}
    (hr : rowOf S.main.cmdTrans q = some row) (hm : (k, t) ∈ row) :
    ∃ c lvl, HasEdge a q (.cmd c lvl) t ∧ k = cmds.idxOf c := by
  obtain ⟨lits, hS, _, _, _⟩ := h
  rw [hS] at hr
  obtain ⟨c, lvl, he, hk, _⟩ := E2_cmd_row_backward hr hm
  exact ⟨c, lvl, he, cmdId_eq hk⟩

theorem mem_star_iff (h : ScriptOf S a cmds subId) {q t : Nat} :
    (q, t) ∈ S.main.star ↔ HasEdge a q .star t := by
  obtain ⟨lits, hS, _, _, _⟩ := h
  rw [hS]
  exact E2_star

theorem mem_subLevels_iff (h : ScriptOf S a cmds subId) {q lvl j : Nat} :
    j ∈ idsAt S.main.subLevels lvl q ↔ ∃ k t, HasEdge a q (.sub k lvl) t ∧ subId k = some j := by
  obtain ⟨lits, hS, _, _, _⟩ := h
  rw [hS]
  exact ⟨E2_sub_level_backward, fun ⟨_, _, he, hk⟩ => sub_level he hk⟩

theorem mem_cmdLevels_iff (h : ScriptOf S a cmds subId) {q lvl k : Nat} :
    k ∈ idsAt S.main.cmdLevels lvl q ↔ ∃ c t, HasEdge a q (.cmd c lvl) t ∧ k = cmds.idxOf c := by
  obtain ⟨lits, hS, _, hc, _⟩ := h
  rw [hS]
  constructor
  · intro hm
    obtain ⟨c, t, he, hk, _⟩ := E2_cmd_level_backward hm
    exact ⟨c, t, he, cmdId_eq hk⟩
  · rintro ⟨c, t, he, rfl⟩
    exact cmd_level he (cmdId_of_mem (hc q c lvl t he))

/-- the level of every transition is at most `max_fallback_level` -/
theorem edge_level_le_max (h : ScriptOf S a cmds subId) {q : Nat} {x : Inp} {t l : Nat}
    (he : HasEdge a q x t) (hl : x.level? = some l) : l ≤ S.main.maxLevel := by
  obtain ⟨lits, hS, _, _, _⟩ := h
  rw [hS]
  exact (E3_maxLevel (lits := lits) (cmds := cmds) (subId := subId)).1 q x t l he hl

end facts

/-! ### 1. one complete word

The readings of a typed word `w` at the state `q`, at the level of the automaton: -/

section defs
variable (S : Script) (a : Auto) (cmds : List String) (subId : Nat → Option Nat)

/-- (i) a literal transition out of `q` whose text is the word (any description, any level) -/
def LitRead (q : Nat) (w : String) (t : Nat) : Prop := ∃ dsc lvl, HasEdge a q (.lit w dsc lvl) t

/-- (ii) a within-word transition out of `q` whose function `_subword_<j>` (tables `S.sub j`) matches the
word -/
def SubRead (q : Nat) (w : String) (t : Nat) : Prop :=
  ∃ k lvl j, HasEdge a q (.sub k lvl) t ∧ subId k = some j ∧ subMatches (S.sub j) S.out w = true

/-- (iii) a command transition out of `q` one of whose output lines IS the word (the number of a command
is its position in `cmds`) -/
def CmdRead (q : Nat) (w : String) (t : Nat) : Prop :=
  ∃ c lvl, HasEdge a q (.cmd c lvl) t ∧ w ∈ S.out (cmds.idxOf c)

/-- (iv) the any-word transition out of `q` -/
def StarRead (q : Nat) (t : Nat) : Prop := HasEdge a q .star t

/-- **One step of the template on a complete word**, by priority: literal, else within-word, else
command, else any word.  (Named `WordStep`: `BashRt.Step` is the step of the within-word matcher.)
Inside one class the relation does not choose: see `StepDetAt`. -/
inductive WordStep (q : Nat) (w : String) (t : Nat) : Prop
  | lit : LitRead a q w t → WordStep q w t
  | sub : (∀ t', ¬ LitRead a q w t') → SubRead S a subId q w t → WordStep q w t
  | cmd : (∀ t', ¬ LitRead a q w t') → (∀ t', ¬ SubRead S a subId q w t') → CmdRead S a cmds q w t →
      WordStep q w t
  | star : (∀ t', ¬ LitRead a q w t') → (∀ t', ¬ SubRead S a subId q w t') →
      (∀ t', ¬ CmdRead S a cmds q w t') → StarRead a q t → WordStep q w t

/-- a command expected at `q` prints at least one non-empty line (the flag of the last-word heuristic) -/
def CmdExpected (q : Nat) : Prop :=
  ∃ c lvl t, HasEdge a q (.cmd c lvl) t ∧ ∃ o ∈ S.out (cmds.idxOf c), o ≠ ""

/-- the word has one reading at `q`: all steps agree on the target -/
def StepDetAt (q : Nat) (w : String) : Prop :=
  ∀ t1 t2, WordStep S a cmds subId q w t1 → WordStep S a cmds subId q w t2 → t1 = t2

end defs

section readWord
variable {S : Script} {a : Auto} {cmds : List String} {subId : Nat → Option Nat}

/-- `StepDetAt` from one hypothesis per class: the literal transitions with one text agree on the target
(`WordDetAt`), the within-word transitions that match the word do, the command transitions that print the
word do, and so do the any-word transitions. -/
theorem stepDetAt_of {q : Nat} {w : String} (hl : WordDetAt a q)
    (hs : ∀ t1 t2, SubRead S a subId q w t1 → SubRead S a subId q w t2 → t1 = t2)
    (hc : ∀ t1 t2, CmdRead S a cmds q w t1 → CmdRead S a cmds q w t2 → t1 = t2)
    (hst : ∀ t1 t2, HasEdge a q .star t1 → HasEdge a q .star t2 → t1 = t2) :
    StepDetAt S a cmds subId q w := by
  intro t1 t2 h1 h2
  cases h1 with
  | lit r1 =>
    cases h2 with
    | lit r2 =>
      obtain ⟨d1, l1, e1⟩ := r1
      obtain ⟨d2, l2, e2⟩ := r2
      exact hl w d1 l1 t1 d2 l2 t2 e1 e2
    | sub n _ => exact absurd r1 (n t1)
    | cmd n _ _ => exact absurd r1 (n t1)
    | star n _ _ _ => exact absurd r1 (n t1)
  | sub n1 r1 =>
    cases h2 with
    | lit r2 => exact absurd r2 (n1 t2)
    | sub _ r2 => exact hs t1 t2 r1 r2
    | cmd _ n _ => exact absurd r1 (n t1)
    | star _ n _ _ => exact absurd r1 (n t1)
  | cmd n1 n1' r1 =>
    cases h2 with
    | lit r2 => exact absurd r2 (n1 t2)
    | sub _ r2 => exact absurd r2 (n1' t2)
    | cmd _ _ r2 => exact hc t1 t2 r1 r2
    | star _ _ n _ => exact absurd r1 (n t1)
  | star n1 n1' n1'' r1 =>
    cases h2 with
    | lit r2 => exact absurd r2 (n1 t2)
    | sub _ r2 => exact absurd r2 (n1' t2)
    | cmd _ _ r2 => exact absurd r2 (n1'' t2)
    | star _ _ _ r2 => exact hst t1 t2 r1 r2

/-- "at most one within-word automaton expected at `q` matches the word" (and two transitions into the
same automaton agree on the target, `SubKDetAt`) gives the hypothesis on the within-word class -/
theorem subRead_det_of {q : Nat} {w : String} (hk : SubKDetAt a q)
    (hone : ∀ k l t j k' l' t' j', HasEdge a q (.sub k l) t → HasEdge a q (.sub k' l') t' →
      subId k = some j → subId k' = some j' → subMatches (S.sub j) S.out w = true →
      subMatches (S.sub j') S.out w = true → k = k') :
    ∀ t1 t2, SubRead S a subId q w t1 → SubRead S a subId q w t2 → t1 = t2 := by
  rintro t1 t2 ⟨k, l, j, he, hj, hm⟩ ⟨k', l', j', he', hj', hm'⟩
  have := hone k l t1 j k' l' t2 j' he he' hj hj' hm hm'
  subst this
  exact hk k l t1 l' t2 he he'

/-- "at most one command expected at `q` prints the word" (and two transitions on the same command agree
on the target, `CmdDetAt`) gives the hypothesis on the command class -/
theorem cmdRead_det_of {q : Nat} {w : String} (hk : CmdDetAt a q)
    (hone : ∀ c l t c' l' t', HasEdge a q (.cmd c l) t → HasEdge a q (.cmd c' l') t' →
      w ∈ S.out (cmds.idxOf c) → w ∈ S.out (cmds.idxOf c') → c = c') :
    ∀ t1 t2, CmdRead S a cmds q w t1 → CmdRead S a cmds q w t2 → t1 = t2 := by
  rintro t1 t2 ⟨c, l, he, hm⟩ ⟨c', l', he', hm'⟩
  have := hone c l t1 c' l' t2 he he' hm hm'
  subst this
  exact hk c l t1 l' t2 he he'

/-! #### the four lookups of `readWord` -/

/-- the command lookup of `readWord` -/
def cmdLookup (S : Script) (q : Nat) (word : String) : Option Nat :=
  ((rowOf S.main.cmdTrans q).getD []).findSome?
    fun (cmd, to) => if (S.out cmd).contains word then some to else none

/-- the flag `seen` of `readWord` -/
def seenAt (S : Script) (q : Nat) : Bool :=
  ((rowOf S.main.cmdTrans q).getD []).any fun (cmd, _) => !((S.out cmd).filter (· ≠ "")).isEmpty

/-- `readWord`, with its lookups named -/
theorem readWord_eq' (S : Script) (q : Nat) (word : String) : readWord S q word =
    match litLookup S.main q word with
    | some q' => (some q', false)
    | none =>
      match subLookup S q word with
      | some q' => (some q', false)
      | none =>
        match cmdLookup S q word with
        | some q' => (some q', seenAt S q)
        | none =>
          match S.main.star.find? (·.1 == q) with
          | some (_, q') => (some q', seenAt S q)
          | none => (none, seenAt S q) :=
  rfl

theorem litLookup_total (h : ScriptOf S a cmds subId) {q : Nat} {w : String} {t : Nat}
    (hr : LitRead a q w t) : ∃ t', litLookup S.main q w = some t' := by
  obtain ⟨d, lvl, he⟩ := hr
  obtain ⟨row, k, t', hr, hk, ht⟩ := lit_row_some h he
  exact litLookup_isSome hr hk ht

theorem subLookup_sound (h : ScriptOf S a cmds subId) {q : Nat} {w : String} {t : Nat}
    (hl : subLookup S q w = some t) : SubRead S a subId q w t := by
  unfold subLookup at hl
  cases hr : rowOf S.main.subTrans q with
  | none => simp [hr] at hl
  | some row =>
    simp only [hr] at hl
    obtain ⟨⟨j, t'⟩, hm, hf⟩ := List.exists_of_findSome?_eq_some hl
    simp only at hf
    by_cases hmatch : subMatches (S.sub j) S.out w = true
    · simp only [hmatch, if_true, Option.some.injEq] at hf
      subst hf
      obtain ⟨k, lvl, he, hk⟩ := sub_row_back h hr hm
      exact ⟨k, lvl, j, he, hk, hmatch⟩
    · simp [hmatch] at hf

theorem subLookup_total (h : ScriptOf S a cmds subId) {q : Nat} {w : String} {t : Nat}
    (hs : SubRead S a subId q w t) : ∃ t', subLookup S q w = some t' := by
  obtain ⟨k, lvl, j, he, hk, hmatch⟩ := hs
  obtain ⟨row, hr, hm⟩ := sub_row_mem h he hk
  cases hf : subLookup S q w with
  | some t' => exact ⟨t', rfl⟩
  | none =>
    unfold subLookup at hf
    simp only [hr] at hf
    rw [List.findSome?_eq_none_iff] at hf
    have := hf (j, t) hm
    simp [hmatch] at this

theorem findSome?_filterMap_bind {α β γ} (f : α → Option β) (g : β → Option γ) : ∀ l : List α,
    (l.filterMap f).findSome? g = l.findSome? fun x => (f x).bind g
  | [] => rfl
  | x :: xs => by
    rw [List.filterMap_cons, List.findSome?_cons]
    cases hf : f x with
    | none =>
      simp only [Option.bind_none]
      exact findSome?_filterMap_bind f g xs
    | some y =>
      simp only [Option.bind_some, List.findSome?_cons]
      cases g y with
      | none => exact findSome?_filterMap_bind f g xs
      | some _ => rfl

/-- **the order inside the within-word class** (no determinism assumed): the template follows the FIRST
within-word transition out of `q`, in the iteration order of the transitions (`Tables.edges a`), whose
function matches the word — the row of `subword_transitions` lists the transitions out of `q` in that
order. -/
theorem subLookup_eq_first (h : ScriptOf S a cmds subId) (q : Nat) (w : String) :
    subLookup S q w = (edges a).findSome? fun e => (subPair subId q e).bind fun p =>
      if subMatches (S.sub p.1) S.out w then some p.2 else none := by
  obtain ⟨lits, hS, _, _, _⟩ := h
  unfold subLookup
  rw [hS, subTrans_row, ← findSome?_filterMap_bind]
  by_cases hq : q ∈ normSet ((edges a).map (·.1))
  · cases hl : (edges a).filterMap (subPair subId q) with
    | nil => simp [hq]
    | cons x xs =>
      simp only [hq, List.isEmpty_cons, and_self, if_true]
  · have : (edges a).filterMap (subPair subId q) = [] := by
      rw [List.filterMap_eq_nil_iff]
      intro e he
      have hne : e.1 ≠ q := by
        rintro rfl
        exact hq ((mem_states a).mpr ⟨e.2.1, e.2.2, he⟩)
      simp [subPair, hne]
    simp [hq, this]

theorem cmdLookup_sound (h : ScriptOf S a cmds subId) {q : Nat} {w : String} {t : Nat}
    (hl : cmdLookup S q w = some t) : CmdRead S a cmds q w t := by
  unfold cmdLookup at hl
  cases hr : rowOf S.main.cmdTrans q with
  | none => simp [hr] at hl
  | some row =>
    simp only [hr, Option.getD_some] at hl
    obtain ⟨⟨k, t'⟩, hm, hf⟩ := List.exists_of_findSome?_eq_some hl
    have hf' : w ∈ S.out k ∧ t' = t := by simpa using hf
    obtain ⟨hc, rfl⟩ := hf'
    obtain ⟨c, lvl, he, rfl⟩ := cmd_row_back h hr hm
    exact ⟨c, lvl, he, hc⟩

theorem cmdLookup_total (h : ScriptOf S a cmds subId) {q : Nat} {w : String} {t : Nat}
    (hs : CmdRead S a cmds q w t) : ∃ t', cmdLookup S q w = some t' := by
  obtain ⟨c, lvl, he, hmem⟩ := hs
  obtain ⟨row, t0, hr, hm⟩ := cmd_row_some h he
  cases hf : cmdLookup S q w with
  | some t' => exact ⟨t', rfl⟩
  | none =>
    unfold cmdLookup at hf
    simp only [hr, Option.getD_some] at hf
    rw [List.findSome?_eq_none_iff] at hf
    have := hf (cmds.idxOf c, t0) hm
    simp [hmem] at this

theorem starLookup_sound (h : ScriptOf S a cmds subId) {q : Nat} {p : Nat × Nat}
    (hf : S.main.star.find? (·.1 == q) = some p) : StarRead a q p.2 := by
  have h1 := List.mem_of_find?_eq_some hf
  have h2 : p.1 = q := by simpa using List.find?_some hf
  have : (q, p.2) ∈ S.main.star := by rw [← h2]; exact h1
  exact (mem_star_iff h).mp this

theorem starLookup_total (h : ScriptOf S a cmds subId) {q t : Nat} (hs : StarRead a q t) :
    ∃ p, S.main.star.find? (·.1 == q) = some p := by
  cases hf : S.main.star.find? (·.1 == q) with
  | some p => exact ⟨p, rfl⟩
  | none =>
    rw [List.find?_eq_none] at hf
    have := hf (q, t) ((mem_star_iff h).mpr hs)
    simp at this

/-- **the order inside the any-word class**: the FIRST any-word transition out of `q` in the iteration
order of the transitions -/
theorem starLookup_eq_first (h : ScriptOf S a cmds subId) (q : Nat) :
    S.main.star.find? (·.1 == q) = ((edges a).filterMap starPair).find? (·.1 == q) := by
  obtain ⟨lits, hS, _, _, _⟩ := h
  rw [hS]
  rfl

theorem seenAt_iff (h : ScriptOf S a cmds subId) {q : Nat} :
    seenAt S q = true ↔ CmdExpected S a cmds q := by
  unfold seenAt CmdExpected
  rw [List.any_eq_true]
  constructor
  · rintro ⟨⟨k, t⟩, hm, hf⟩
    cases hr : rowOf S.main.cmdTrans q with
    | none => simp [hr] at hm
    | some row =>
      simp only [hr, Option.getD_some] at hm
      obtain ⟨c, lvl, he, rfl⟩ := cmd_row_back h hr hm
      refine ⟨c, lvl, t, he, ?_⟩
      simp only [Bool.not_eq_true', List.isEmpty_eq_false_iff_exists_mem, List.mem_filter] at hf
      obtain ⟨o, ho, hne⟩ := hf
      exact ⟨o, ho, by simpa using hne⟩
  · rintro ⟨c, lvl, t, he, o, ho, hne⟩
    obtain ⟨row, t0, hr, hm⟩ := cmd_row_some h he
    refine ⟨(cmds.idxOf c, t0), by simp [hr, hm], ?_⟩
    simp only [Bool.not_eq_true', List.isEmpty_eq_false_iff_exists_mem, List.mem_filter]
    exact ⟨o, ho, by simpa using hne⟩

/-- **1 (no determinism assumed).**  Everything `readWord` does at an arbitrary state: the class of the
reading is fixed by the priority, the target is the target of SOME reading of that class (which one: the
first id in the literal table / the first entry of the `subword_transitions` row, i.e. the first such
transition in iteration order / the smallest command number / the first any-word transition), and the
flag is `false` for a literal or within-word reading, `seenAt S q` otherwise. -/
theorem readWord_cases (h : ScriptOf S a cmds subId) (q : Nat) (w : String) :
    (∃ t, LitRead a q w t ∧ readWord S q w = (some t, false)) ∨
    ((∀ t, ¬ LitRead a q w t) ∧
      ((∃ t, SubRead S a subId q w t ∧ readWord S q w = (some t, false)) ∨
       ((∀ t, ¬ SubRead S a subId q w t) ∧
        ((∃ t, CmdRead S a cmds q w t ∧ readWord S q w = (some t, seenAt S q)) ∨
         ((∀ t, ¬ CmdRead S a cmds q w t) ∧
          ((∃ t, StarRead a q t ∧ readWord S q w = (some t, seenAt S q)) ∨
           ((∀ t, ¬ StarRead a q t) ∧ readWord S q w = (none, seenAt S q)))))))) := by
  rw [readWord_eq']
  cases hl : litLookup S.main q w with
  | some t =>
    obtain ⟨d, l, he⟩ := litLookup_sound h.mainOf hl
    exact Or.inl ⟨t, ⟨d, l, he⟩, rfl⟩
  | none =>
    have nl : ∀ t, ¬ LitRead a q w t := fun t hr => by
      obtain ⟨t', ht'⟩ := litLookup_total h hr
      rw [hl] at ht'
      cases ht'
    refine Or.inr ⟨nl, ?_⟩
    cases hs : subLookup S q w with
    | some t => exact Or.inl ⟨t, subLookup_sound h hs, rfl⟩
    | none =>
      have ns : ∀ t, ¬ SubRead S a subId q w t := fun t hr => by
        obtain ⟨t', ht'⟩ := subLookup_total h hr
        rw [hs] at ht'
        cases ht'
      refine Or.inr ⟨ns, ?_⟩
      cases hc : cmdLookup S q w with
      | some t => exact Or.inl ⟨t, cmdLookup_sound h hc, rfl⟩
      | none =>
        have nc : ∀ t, ¬ CmdRead S a cmds q w t := fun t hr => by
          obtain ⟨t', ht'⟩ := cmdLookup_total h hr
          rw [hc] at ht'
          cases ht'
        refine Or.inr ⟨nc, ?_⟩
        cases hst : S.main.star.find? (·.1 == q) with
        | some p => exact Or.inl ⟨p.2, starLookup_sound h hst, rfl⟩
        | none =>
          refine Or.inr ⟨fun t hr => ?_, rfl⟩
          obtain ⟨p, hp⟩ := starLookup_total h hr
          rw [hst] at hp
          cases hp

/-- **1a.** what `readWord` answers is a step of the automaton (no determinism assumed) -/
theorem readWord_sound (h : ScriptOf S a cmds subId) {q : Nat} {w : String} {t : Nat}
    (hr : (readWord S q w).1 = some t) : WordStep S a cmds subId q w t := by
  rcases readWord_cases h q w with ⟨t', r, e⟩ | ⟨nl, ⟨t', r, e⟩ | ⟨ns, ⟨t', r, e⟩ | ⟨nc, ⟨t', r, e⟩ | ⟨_, e⟩⟩⟩⟩ <;>
    rw [e] at hr <;> simp only [Option.some.injEq] at hr
  · subst hr; exact .lit r
  · subst hr; exact .sub nl r
  · subst hr; exact .cmd nl ns r
  · subst hr; exact .star nl ns nc r
  · cases hr

/-- **1b.** when the automaton has a step, `readWord` answers (a step of the same class) -/
theorem readWord_total (h : ScriptOf S a cmds subId) {q : Nat} {w : String} {t : Nat}
    (hs : WordStep S a cmds subId q w t) : ∃ t', (readWord S q w).1 = some t' := by
  rcases readWord_cases h q w with ⟨t', _, e⟩ | ⟨nl, ⟨t', _, e⟩ | ⟨ns, ⟨t', _, e⟩ | ⟨nc, ⟨t', _, e⟩ | ⟨nst, _⟩⟩⟩⟩
  · exact ⟨t', by rw [e]⟩
  · exact ⟨t', by rw [e]⟩
  · exact ⟨t', by rw [e]⟩
  · exact ⟨t', by rw [e]⟩
  · cases hs with
    | lit r => exact absurd r (nl t)
    | sub _ r => exact absurd r (ns t)
    | cmd _ _ r => exact absurd r (nc t)
    | star _ _ _ r => exact absurd r (nst t)

/-- **1c.** the word is not read exactly when the automaton has no step (no determinism assumed) -/
theorem readWord_none_iff (h : ScriptOf S a cmds subId) (q : Nat) (w : String) :
    (readWord S q w).1 = none ↔ ∀ t, ¬ WordStep S a cmds subId q w t := by
  constructor
  · intro hn t hs
    obtain ⟨t', ht'⟩ := readWord_total h hs
    rw [hn] at ht'
    cases ht'
  · intro hno
    cases hr : (readWord S q w).1 with
    | none => rfl
    | some t => exact absurd (readWord_sound h hr) (hno t)

/-- **1 (`readWord_spec`).**  When the word has one reading at `q` (`StepDetAt`, e.g. from
`stepDetAt_of`), `readWord` IS the step of the automaton. -/
theorem readWord_spec (h : ScriptOf S a cmds subId) {q : Nat} {w : String}
    (hdet : StepDetAt S a cmds subId q w) (t : Nat) :
    (readWord S q w).1 = some t ↔ WordStep S a cmds subId q w t := by
  constructor
  · exact readWord_sound h
  · intro hs
    obtain ⟨t', ht'⟩ := readWord_total h hs
    rw [ht', hdet t t' hs (readWord_sound h ht')]

/-- **1d (the flag of the last-word heuristic).**  It is set exactly when the word has no literal and no
within-word reading at `q` and some command expected at `q` prints a non-empty line (whether or not the
word was read as a command output or as any word). -/
theorem readWord_flag (h : ScriptOf S a cmds subId) (q : Nat) (w : String) :
    (readWord S q w).2 = true ↔
      (∀ t, ¬ LitRead a q w t) ∧ (∀ t, ¬ SubRead S a subId q w t) ∧ CmdExpected S a cmds q := by
  rw [← seenAt_iff h]
  rcases readWord_cases h q w with ⟨t', r, e⟩ | ⟨nl, ⟨t', r, e⟩ | ⟨ns, ⟨t', r, e⟩ | ⟨nc, ⟨t', r, e⟩ | ⟨_, e⟩⟩⟩⟩ <;>
    rw [e]
  · simp only [Bool.false_eq_true, false_iff]
    exact fun hh => hh.1 t' r
  · simp only [Bool.false_eq_true, false_iff]
    exact fun hh => hh.2.1 t' r
  · exact ⟨fun hh => ⟨nl, ns, hh⟩, fun hh => hh.2.2⟩
  · exact ⟨fun hh => ⟨nl, ns, hh⟩, fun hh => hh.2.2⟩
  · exact ⟨fun hh => ⟨nl, ns, hh⟩, fun hh => hh.2.2⟩

/-- when the word is not read, the flag is just "a command with output was expected" -/
theorem readWord_none_flag (h : ScriptOf S a cmds subId) {q : Nat} {w : String}
    (hn : (readWord S q w).1 = none) : (readWord S q w).2 = true ↔ CmdExpected S a cmds q := by
  rw [readWord_flag h]
  have hno := (readWord_none_iff h q w).mp hn
  exact ⟨fun hh => hh.2.2, fun hh => ⟨fun t r => hno t (.lit r),
    fun t r => hno t (.sub (fun t' r' => hno t' (.lit r')) r), hh⟩⟩

end readWord

/-! ### 2. the walk over the earlier words -/

section defs2
variable (S : Script) (a : Auto) (cmds : List String) (subId : Nat → Option Nat)

/-- **The run of the automaton on the earlier words, as the template performs it**: steps by priority;
a word without a step ends the run — in `unmatched` (return code 1), except that when it is the LAST word
and a command expected at that state prints something (`CmdExpected`), the run stays at that state (the
last-word heuristic: the word is taken for a value of the command that the command no longer prints). -/
inductive Run : Nat → List String → Walk → Prop
  | nil (q : Nat) : Run q [] (.state q)
  | step {q q' : Nat} {w : String} {ws : List String} {r : Walk} :
      WordStep S a cmds subId q w q' → Run q' ws r → Run q (w :: ws) r
  | stay {q : Nat} {w : String} :
      (∀ t, ¬ WordStep S a cmds subId q w t) → CmdExpected S a cmds q → Run q [w] (.state q)
  | fail {q : Nat} {w : String} {ws : List String} :
      (∀ t, ¬ WordStep S a cmds subId q w t) → ¬ (CmdExpected S a cmds q ∧ ws = []) →
      Run q (w :: ws) .unmatched

/-- `q` is reachable from `q0` by steps -/
inductive Reach : Nat → Nat → Prop
  | refl (q : Nat) : Reach q q
  | step {q q' r : Nat} {w : String} : WordStep S a cmds subId q w q' → Reach q' r → Reach q r

end defs2

section walk
variable {S : Script} {a : Auto} {cmds : List String} {subId : Nat → Option Nat}

/-- **2a.** The walk of the template is a run of the automaton (no determinism assumed: where a word has
several readings of the highest class, the walk follows one of them). -/
theorem walk_sound (h : ScriptOf S a cmds subId) : ∀ (ws : List String) (q0 : Nat),
    Run S a cmds subId q0 ws (walk S q0 ws)
  | [], q0 => .nil q0
  | w :: ws, q0 => by
    cases hrw : readWord S q0 w with
    | mk o b =>
      cases o with
      | some q' =>
        have hs : WordStep S a cmds subId q0 w q' := readWord_sound h (by rw [hrw])
        have : walk S q0 (w :: ws) = walk S q' ws := by simp only [walk, hrw]
        rw [this]
        exact .step hs (walk_sound h ws q')
      | none =>
        have hn : (readWord S q0 w).1 = none := by rw [hrw]
        have hno := (readWord_none_iff h q0 w).mp hn
        have hflag := readWord_none_flag h hn
        rw [hrw] at hflag
        simp only at hflag
        have hw : walk S q0 (w :: ws) = if b && ws.isEmpty then .state q0 else .unmatched := by
          simp only [walk, hrw]
        rw [hw]
        by_cases hb : b = true
        · cases ws with
          | nil =>
            simp only [hb, List.isEmpty_nil, Bool.and_self, if_true]
            exact .stay hno (hflag.mp hb)
          | cons w' ws' =>
            simp only [List.isEmpty_cons, Bool.and_false, Bool.false_eq_true, if_false]
            exact .fail hno (fun hh => by cases hh.2)
        · have hb' : b = false := by simpa using hb
          simp only [hb', Bool.false_and, Bool.false_eq_true, if_false]
          exact .fail hno (fun hh => hb (hflag.mpr hh.1))

/-- **2b.** When every word has one reading at every state the run passes through, the run determines
the walk. -/
theorem walk_complete (h : ScriptOf S a cmds subId) {q0 : Nat} {ws : List String} {r : Walk}
    (hrun : Run S a cmds subId q0 ws r)
    (hdet : ∀ q, Reach S a cmds subId q0 q → ∀ w, StepDetAt S a cmds subId q w) :
    walk S q0 ws = r := by
  induction hrun with
  | nil q => rfl
  | @step q q' w ws r hs _ ih =>
    have hr := (readWord_spec h (hdet q (.refl q) w) q').mpr hs
    cases hrw : readWord S q w with
    | mk o b =>
      rw [hrw] at hr
      simp only at hr
      subst hr
      simp only [walk, hrw]
      exact ih fun q'' hq'' => hdet q'' (.step hs hq'')
  | @stay q w hno hexp =>
    have hn := (readWord_none_iff h q w).mpr hno
    have hflag := (readWord_none_flag h hn).mpr hexp
    cases hrw : readWord S q w with
    | mk o b =>
      rw [hrw] at hn hflag
      simp only at hn hflag
      subst hn hflag
      simp [walk, hrw]
  | @fail q w ws hno hexp =>
    have hn := (readWord_none_iff h q w).mpr hno
    have hflag := readWord_none_flag h hn
    cases hrw : readWord S q w with
    | mk o b =>
      rw [hrw] at hn hflag
      simp only at hn hflag
      subst hn
      simp only [walk, hrw]
      by_cases hb : b = true
      · cases ws with
        | nil => exact absurd ⟨hflag.mp hb, rfl⟩ hexp
        | cons _ _ => simp
      · have hb' : b = false := by simpa using hb
        simp [hb']

/-- **2 (`walk_spec`).**  With one reading per word at the states reachable from `q0`, the walk of the
template IS the run of the automaton. -/
theorem walk_spec (h : ScriptOf S a cmds subId) {q0 : Nat}
    (hdet : ∀ q, Reach S a cmds subId q0 q → ∀ w, StepDetAt S a cmds subId q w)
    (ws : List String) (r : Walk) : walk S q0 ws = r ↔ Run S a cmds subId q0 ws r :=
  ⟨fun hw => hw ▸ walk_sound h ws q0, fun hrun => walk_complete h hrun hdet⟩

end walk

/-! ### 3. the candidates

#### 3.1 the accumulated `candidates` array never matters (any tables)

The loop of the template passes to the next level only when NOTHING of the current level extends the
typed prefix: no accumulated candidate, no literal of the level, no completion inside a word, and no
output line of ANY command of the level — in particular no line of the last command, whose output
`readarray -t candidates` leaves in the array.  So whatever the array holds when a level starts (the
literals of the lower levels, or the lines of the last command of a lower level) is filtered out again:
the result is the output of the first level that has any, computed from that level alone. -/

/-- what ONE level offers for the typed prefix, from the tables of that level alone -/
def levelOut (S : Script) (q : Nat) (p : String) (lvl : Nat) : List String :=
  ((idsAt S.main.litLevels lvl q).map fun id => (S.main.literals[id]?.getD "") ++ " ").filter
      (fun c => isPrefix p.toList c.toList) ++
    ((idsAt S.main.subLevels lvl q).flatMap fun id => subComplete (S.sub id) S.out p) ++
    ((idsAt S.main.cmdLevels lvl q).flatMap fun cmd => (S.out cmd).filter fun o => isPrefix p.toList o.toList)

/-- the output of the first level from `lvl` on (at most `maxLevel`) that offers anything -/
def firstLevel (S : Script) (q : Nat) (p : String) : Nat → Nat → List String
  | 0, _ => []
  | fuel + 1, lvl =>
    if !(levelOut S q p lvl).isEmpty then levelOut S q p lvl
    else if lvl ≥ S.main.maxLevel then [] else firstLevel S q p fuel (lvl + 1)

theorem offer_levels_eq (S : Script) (q : Nat) (p : String) :
    ∀ (fuel lvl : Nat) (cands : List String), (∀ x ∈ cands, isPrefix p.toList x.toList = false) →
      offer.levels S q p S.main p.toList fuel lvl cands = firstLevel S q p fuel lvl
  | 0, lvl, cands, _ => by simp [offer.levels, firstLevel]
  | fuel + 1, lvl, cands, hc => by
    have hfc : cands.filter (fun c => isPrefix p.toList c.toList) = [] := by
      rw [List.filter_eq_nil_iff]
      intro x hx
      simp [hc x hx]
    unfold offer.levels firstLevel
    simp only [List.filter_append, hfc, List.nil_append]
    have hlo : levelOut S q p lvl =
        ((idsAt S.main.litLevels lvl q).map fun id => (S.main.literals[id]?.getD "") ++ " ").filter
          (fun c => isPrefix p.toList c.toList) ++
        ((idsAt S.main.subLevels lvl q).flatMap fun id => subComplete (S.sub id) S.out p) ++
        ((idsAt S.main.cmdLevels lvl q).flatMap fun cmd =>
          (S.out cmd).filter fun o => isPrefix p.toList o.toList) := rfl
    rw [← hlo]
    by_cases hne : (!(levelOut S q p lvl).isEmpty) = true
    · simp only [hne, if_true]
    · simp only [hne]
      by_cases hge : lvl ≥ S.main.maxLevel
      · simp only [hge, if_true]
      · simp only [hge, if_false]
        have hnil : levelOut S q p lvl = [] := by simpa using hne
        rw [hlo, List.append_eq_nil_iff, List.append_eq_nil_iff] at hnil
        obtain ⟨⟨h1, _⟩, h3⟩ := hnil
        apply offer_levels_eq S q p fuel (lvl + 1)
        intro x hx
        cases hpx : isPrefix p.toList x.toList with
        | false => rfl
        | true =>
          exfalso
          split at hx
          · rename_i cmd hlast
            have hmem : cmd ∈ idsAt S.main.cmdLevels lvl q := List.mem_of_getLast? hlast
            have : x ∈ (idsAt S.main.cmdLevels lvl q).flatMap fun cmd =>
                (S.out cmd).filter fun o => isPrefix p.toList o.toList :=
              List.mem_flatMap.mpr ⟨cmd, hmem, List.mem_filter.mpr ⟨hx, hpx⟩⟩
            rw [h3] at this
            cases this
          · rcases List.mem_append.mp hx with hx | hx
            · rw [hc x hx] at hpx
              cases hpx
            · have : x ∈ ((idsAt S.main.litLevels lvl q).map fun id =>
                  (S.main.literals[id]?.getD "") ++ " ").filter (fun c => isPrefix p.toList c.toList) :=
                List.mem_filter.mpr ⟨hx, hpx⟩
              rw [h1] at this
              cases this

/-- **3a.** `offer` is the output of the first level that offers anything, each level computed from its
own tables alone — as a LIST, for any tables, any command outputs. -/
theorem offer_eq_firstLevel (S : Script) (q : Nat) (p : String) :
    offer S q p = firstLevel S q p (S.main.maxLevel + 1) 0 := by
  unfold offer
  simp only
  exact offer_levels_eq S q p _ 0 [] (by simp)

/-- the loop of the template WITHOUT the overwriting `readarray`: the literal candidates just accumulate -/
def offerAcc (S : Script) (q : Nat) (prefix_ : String) : List String :=
  let T := S.main
  let p := prefix_.toList
  let rec levels : Nat → Nat → List String → List String
    | 0, _, _ => []
    | fuel + 1, lvl, cands =>
      let cands := cands ++ (idsAt T.litLevels lvl q).map fun id => (T.literals[id]?.getD "") ++ " "
      let m1 := cands.filter fun c => isPrefix p c.toList
      let m2 := (idsAt T.subLevels lvl q).flatMap fun id => subComplete (S.sub id) S.out prefix_
      let m3 := (idsAt T.cmdLevels lvl q).flatMap fun cmd => (S.out cmd).filter fun o => isPrefix p o.toList
      if !(m1 ++ m2 ++ m3).isEmpty then m1 ++ m2 ++ m3
      else if lvl ≥ T.maxLevel then [] else levels fuel (lvl + 1) cands
  levels (T.maxLevel + 1) 0 []

theorem offerAcc_levels_eq (S : Script) (q : Nat) (p : String) :
    ∀ (fuel lvl : Nat) (cands : List String), (∀ x ∈ cands, isPrefix p.toList x.toList = false) →
      offerAcc.levels S q p S.main p.toList fuel lvl cands = firstLevel S q p fuel lvl
  | 0, lvl, cands, _ => by simp [offerAcc.levels, firstLevel]
  | fuel + 1, lvl, cands, hc => by
    have hfc : cands.filter (fun c => isPrefix p.toList c.toList) = [] := by
      rw [List.filter_eq_nil_iff]
      intro x hx
      simp [hc x hx]
    unfold offerAcc.levels firstLevel
    simp only [List.filter_append, hfc, List.nil_append]
    have hlo : levelOut S q p lvl =
        ((idsAt S.main.litLevels lvl q).map fun id => (S.main.literals[id]?.getD "") ++ " ").filter
          (fun c => isPrefix p.toList c.toList) ++
        ((idsAt S.main.subLevels lvl q).flatMap fun id => subComplete (S.sub id) S.out p) ++
        ((idsAt S.main.cmdLevels lvl q).flatMap fun cmd =>
          (S.out cmd).filter fun o => isPrefix p.toList o.toList) := rfl
    rw [← hlo]
    by_cases hne : (!(levelOut S q p lvl).isEmpty) = true
    · simp only [hne, if_true]
    · simp only [hne]
      by_cases hge : lvl ≥ S.main.maxLevel
      · simp only [hge, if_true]
      · simp only [hge, if_false]
        have hnil : levelOut S q p lvl = [] := by simpa using hne
        rw [hlo, List.append_eq_nil_iff, List.append_eq_nil_iff] at hnil
        obtain ⟨⟨h1, _⟩, _⟩ := hnil
        apply offerAcc_levels_eq S q p fuel (lvl + 1)
        intro x hx
        cases hpx : isPrefix p.toList x.toList with
        | false => rfl
        | true =>
          exfalso
          rcases List.mem_append.mp hx with hx | hx
          · rw [hc x hx] at hpx
            cases hpx
          · have : x ∈ ((idsAt S.main.litLevels lvl q).map fun id =>
                (S.main.literals[id]?.getD "") ++ " ").filter (fun c => isPrefix p.toList c.toList) :=
              List.mem_filter.mpr ⟨hx, hpx⟩
            rw [h1] at this
            cases this

/-- **3a'.** The overwritten array makes NO difference: the loop with `readarray -t candidates`
overwriting the accumulated literals (`offer`, what bash does) and the loop where the literals just
accumulate (`offerAcc`) return the same list, for all tables, states, prefixes and command outputs. -/
theorem offerAcc_eq_offer (S : Script) (q : Nat) (p : String) : offerAcc S q p = offer S q p := by
  rw [offer_eq_firstLevel]
  unfold offerAcc
  simp only
  exact offerAcc_levels_eq S q p _ 0 [] (by simp)

theorem mem_firstLevel (S : Script) (q : Nat) (p c : String) :
    ∀ (fuel lvl : Nat), fuel + lvl = S.main.maxLevel + 1 →
      (c ∈ firstLevel S q p fuel lvl ↔
        ∃ L, lvl ≤ L ∧ L ≤ S.main.maxLevel ∧ c ∈ levelOut S q p L ∧
          ∀ l, lvl ≤ l → l < L → levelOut S q p l = [])
  | 0, lvl, hf => by
    simp only [firstLevel, List.not_mem_nil, false_iff]
    rintro ⟨L, h1, h2, _, _⟩
    omega
  | fuel + 1, lvl, hf => by
    unfold firstLevel
    by_cases hne : (!(levelOut S q p lvl).isEmpty) = true
    · simp only [hne, if_true]
      have hne' : levelOut S q p lvl ≠ [] := by simpa using hne
      constructor
      · intro hc
        exact ⟨lvl, Nat.le_refl _, by omega, hc, fun l h1 h2 => by omega⟩
      · rintro ⟨L, h1, _, hc, hlow⟩
        by_cases hL : L = lvl
        · subst hL
          exact hc
        · exact absurd (hlow lvl (Nat.le_refl _) (by omega)) hne'
    · simp only [hne, Bool.false_eq_true, if_false]
      have hnil : levelOut S q p lvl = [] := by simpa using hne
      by_cases hge : lvl ≥ S.main.maxLevel
      · simp only [hge, if_true, List.not_mem_nil, false_iff]
        rintro ⟨L, h1, h2, hc, _⟩
        have : L = lvl := by omega
        subst this
        rw [hnil] at hc
        cases hc
      · simp only [hge, if_false]
        rw [mem_firstLevel S q p c fuel (lvl + 1) (by omega)]
        constructor
        · rintro ⟨L, h1, h2, hc, hlow⟩
          refine ⟨L, by omega, h2, hc, fun l hl1 hl2 => ?_⟩
          by_cases hl : l = lvl
          · subst hl
            exact hnil
          · exact hlow l (by omega) hl2
        · rintro ⟨L, h1, h2, hc, hlow⟩
          have hL : L ≠ lvl := by
            rintro rfl
            rw [hnil] at hc
            cases hc
          exact ⟨L, by omega, h2, hc, fun l hl1 hl2 => hlow l (by omega) hl2⟩

/-- **3b** (table level).  `c` is offered iff some level `L ≤ maxLevel` offers it and no lower level
offers anything. -/
theorem mem_offer_iff_level (S : Script) (q : Nat) (p c : String) :
    c ∈ offer S q p ↔
      ∃ L, L ≤ S.main.maxLevel ∧ c ∈ levelOut S q p L ∧ ∀ l, l < L → levelOut S q p l = [] := by
  rw [offer_eq_firstLevel, mem_firstLevel S q p c _ 0 (by omega)]
  constructor
  · rintro ⟨L, _, h2, hc, hlow⟩
    exact ⟨L, h2, hc, fun l hl => hlow l (Nat.zero_le _) hl⟩
  · rintro ⟨L, h2, hc, hlow⟩
    exact ⟨L, Nat.zero_le _, h2, hc, fun l _ hl => hlow l hl⟩

/-! #### 3.2 at the level of the automaton -/

section defs3
variable (S : Script) (a : Auto) (cmds : List String) (subId : Nat → Option Nat)

/-- `c` is a candidate of level `lvl` at `q` for the typed prefix `p`:
(a) `txt ++ " "` for a literal transition out of `q` of that level, extending `p`; or
(b) a completion `subComplete` of a within-word transition out of `q` of that level; or
(c) an output line of a command transition out of `q` of that level, extending `p`. -/
def LevelCand (q : Nat) (p : String) (lvl : Nat) (c : String) : Prop :=
  (∃ txt d t, HasEdge a q (.lit txt d lvl) t ∧ c = txt ++ " " ∧ isPrefix p.toList c.toList = true) ∨
  (∃ k t j, HasEdge a q (.sub k lvl) t ∧ subId k = some j ∧ c ∈ subComplete (S.sub j) S.out p) ∨
  (∃ cm t, HasEdge a q (.cmd cm lvl) t ∧ c ∈ S.out (cmds.idxOf cm) ∧ isPrefix p.toList c.toList = true)

/-- `c` is offered: a candidate of the least level that has any -/
def Offered (q : Nat) (p : String) (c : String) : Prop :=
  ∃ L, LevelCand S a cmds subId q p L c ∧ ∀ l c', LevelCand S a cmds subId q p l c' → L ≤ l

end defs3

section offer
variable {S : Script} {a : Auto} {cmds : List String} {subId : Nat → Option Nat}

theorem mem_levelOut (h : ScriptOf S a cmds subId) {q lvl : Nat} {p c : String} :
    c ∈ levelOut S q p lvl ↔ LevelCand S a cmds subId q p lvl c := by
  unfold levelOut LevelCand
  rw [List.mem_append, List.mem_append, List.mem_filter, mem_levelCands h.mainOf, List.mem_flatMap,
    List.mem_flatMap, or_assoc]
  constructor
  · rintro (⟨⟨txt, d, t, he, rfl⟩, hp⟩ | ⟨j, hj, hc⟩ | ⟨k, hk, hc⟩)
    · exact Or.inl ⟨txt, d, t, he, rfl, hp⟩
    · obtain ⟨k, t, he, hkj⟩ := (mem_subLevels_iff h).mp hj
      exact Or.inr (Or.inl ⟨k, t, j, he, hkj, hc⟩)
    · obtain ⟨cm, t, he, rfl⟩ := (mem_cmdLevels_iff h).mp hk
      obtain ⟨hc1, hc2⟩ := List.mem_filter.mp hc
      exact Or.inr (Or.inr ⟨cm, t, he, hc1, hc2⟩)
  · rintro (⟨txt, d, t, he, rfl, hp⟩ | ⟨k, t, j, he, hkj, hc⟩ | ⟨cm, t, he, hc1, hc2⟩)
    · exact Or.inl ⟨⟨txt, d, t, he, rfl⟩, hp⟩
    · exact Or.inr (Or.inl ⟨j, (mem_subLevels_iff h).mpr ⟨k, t, he, hkj⟩, hc⟩)
    · exact Or.inr (Or.inr ⟨_, (mem_cmdLevels_iff h).mpr ⟨cm, t, he, rfl⟩,
        List.mem_filter.mpr ⟨hc1, hc2⟩⟩)

theorem levelCand_le_max (h : ScriptOf S a cmds subId) {q lvl : Nat} {p c : String}
    (hc : LevelCand S a cmds subId q p lvl c) : lvl ≤ S.main.maxLevel := by
  rcases hc with ⟨_, _, _, he, _⟩ | ⟨_, _, _, he, _⟩ | ⟨_, _, he, _⟩
  · exact edge_level_le_max h he rfl
  · exact edge_level_le_max h he rfl
  · exact edge_level_le_max h he rfl

/-- **3 (`offer_spec`).**  At an ARBITRARY state `q`, the candidates offered for the typed prefix `p` are —
as a set — the candidates (a) ∪ (b) ∪ (c) of the level `L`, where `L` is the least level at which
(a) ∪ (b) ∪ (c) is non-empty.  No determinism and no hypothesis on commands at lower levels is needed
(3.1: what `readarray` leaves in the array never extends `p`). -/
theorem offer_spec (h : ScriptOf S a cmds subId) (q : Nat) (p c : String) :
    c ∈ offer S q p ↔
      ∃ L, LevelCand S a cmds subId q p L c ∧ ∀ l c', LevelCand S a cmds subId q p l c' → L ≤ l := by
  rw [mem_offer_iff_level]
  constructor
  · rintro ⟨L, _, hc, hlow⟩
    refine ⟨L, (mem_levelOut h).mp hc, fun l c' hc' => Nat.le_of_not_lt fun hl => ?_⟩
    have := (mem_levelOut h).mpr hc'
    rw [hlow l hl] at this
    cases this
  · rintro ⟨L, hc, hmin⟩
    refine ⟨L, levelCand_le_max h hc, (mem_levelOut h).mpr hc, fun l hl => ?_⟩
    rw [List.eq_nil_iff_forall_not_mem]
    intro c' hc'
    have := hmin l c' ((mem_levelOut h).mp hc')
    omega

/-- the same with "(a) a literal transition of a level ≤ L" (the accumulated array): no difference, a
literal of a lower level extending `p` would have been offered at its own level -/
theorem offer_spec_le (h : ScriptOf S a cmds subId) (q : Nat) (p c : String) :
    c ∈ offer S q p ↔
      ∃ L, ((∃ txt d t l, l ≤ L ∧ HasEdge a q (.lit txt d l) t ∧ c = txt ++ " " ∧
              isPrefix p.toList c.toList = true) ∨
            (∃ k t j, HasEdge a q (.sub k L) t ∧ subId k = some j ∧ c ∈ subComplete (S.sub j) S.out p) ∨
            (∃ cm t, HasEdge a q (.cmd cm L) t ∧ c ∈ S.out (cmds.idxOf cm) ∧
              isPrefix p.toList c.toList = true)) ∧
        (∃ c', LevelCand S a cmds subId q p L c') ∧
        ∀ l c', LevelCand S a cmds subId q p l c' → L ≤ l := by
  rw [offer_spec h]
  constructor
  · rintro ⟨L, hc, hmin⟩
    refine ⟨L, ?_, ⟨c, hc⟩, hmin⟩
    rcases hc with ⟨txt, d, t, he, hx⟩ | hc | hc
    · exact Or.inl ⟨txt, d, t, L, Nat.le_refl _, he, hx⟩
    · exact Or.inr (Or.inl hc)
    · exact Or.inr (Or.inr hc)
  · rintro ⟨L, hc, _, hmin⟩
    refine ⟨L, ?_, hmin⟩
    rcases hc with ⟨txt, d, t, l, hl, he, hx⟩ | hc | hc
    · have := hmin l c (Or.inl ⟨txt, d, t, he, hx⟩)
      have : l = L := by omega
      subst this
      exact Or.inl ⟨txt, d, t, he, hx⟩
    · exact Or.inr (Or.inl hc)
    · exact Or.inr (Or.inr hc)

/-- nothing is offered exactly when no level has a candidate -/
theorem offer_nil_iff (h : ScriptOf S a cmds subId) (q : Nat) (p : String) :
    offer S q p = [] ↔ ∀ l c, ¬ LevelCand S a cmds subId q p l c := by
  constructor
  · intro hnil l c hc
    obtain ⟨l0, ⟨c0, hc0⟩, hmin⟩ :=
      exists_least (P := fun l => ∃ c, LevelCand S a cmds subId q p l c) l ⟨c, hc⟩
    have : c0 ∈ offer S q p := (offer_spec h q p c0).mpr ⟨l0, hc0, fun l' c' h' => hmin l' ⟨c', h'⟩⟩
    rw [hnil] at this
    cases this
  · intro hno
    rw [List.eq_nil_iff_forall_not_mem]
    intro c hc
    obtain ⟨L, hL, _⟩ := (offer_spec h q p c).mp hc
    exact hno L c hL

end offer

/-! ### 4. the whole completion function -/

section complete
variable {S : Script} {a : Auto} {cmds : List String} {subId : Nat → Option Nat}

/-- **4a (no determinism assumed).**  Return code 1 only when the run of the automaton on the earlier
words fails; otherwise COMPREPLY is the stripped candidates of a state a run leads to. -/
theorem complete_sound (h : ScriptOf S a cmds subId) (q0 : Nat) (ws : List String) (p wb : String) :
    (complete S q0 ws p wb = none ∧ Run S a cmds subId q0 ws .unmatched) ∨
    ∃ q, Run S a cmds subId q0 ws (.state q) ∧
      complete S q0 ws p wb = some ((offer S q p).map (strip p wb)) := by
  have hrun := walk_sound h ws q0
  unfold complete
  cases hw : walk S q0 ws with
  | unmatched =>
    rw [hw] at hrun
    exact Or.inl ⟨rfl, hrun⟩
  | state q =>
    rw [hw] at hrun
    exact Or.inr ⟨q, hrun, rfl⟩

/-- **4b.** return code 1 exactly when the run fails -/
theorem complete_none_iff (h : ScriptOf S a cmds subId) {q0 : Nat}
    (hdet : ∀ q, Reach S a cmds subId q0 q → ∀ w, StepDetAt S a cmds subId q w)
    (ws : List String) (p wb : String) :
    complete S q0 ws p wb = none ↔ Run S a cmds subId q0 ws .unmatched := by
  rw [← walk_spec h hdet]
  unfold complete
  cases walk S q0 ws <;> simp

/-- **4c.** otherwise COMPREPLY is the stripped candidates of the state the run ends in -/
theorem complete_spec (h : ScriptOf S a cmds subId) {q0 q : Nat} {ws : List String}
    (hdet : ∀ q, Reach S a cmds subId q0 q → ∀ w, StepDetAt S a cmds subId q w)
    (hrun : Run S a cmds subId q0 ws (.state q)) (p wb : String) :
    complete S q0 ws p wb = some ((offer S q p).map (strip p wb)) := by
  unfold complete
  rw [walk_complete h hrun hdet]
  rfl

/-- **4 (`complete_spec`, as a set).**  … which are the stripped candidates (a) ∪ (b) ∪ (c) of the least
level that has any, at that state. -/
theorem mem_complete_spec (h : ScriptOf S a cmds subId) {q0 q : Nat} {ws : List String}
    (hdet : ∀ q, Reach S a cmds subId q0 q → ∀ w, StepDetAt S a cmds subId q w)
    (hrun : Run S a cmds subId q0 ws (.state q)) (p wb : String) :
    ∃ cs, complete S q0 ws p wb = some cs ∧
      ∀ c, c ∈ cs ↔ ∃ m, Offered S a cmds subId q p m ∧ c = strip p wb m := by
  refine ⟨_, complete_spec h hdet hrun p wb, fun c => ?_⟩
  rw [List.mem_map]
  constructor
  · rintro ⟨m, hm, rfl⟩
    exact ⟨m, (offer_spec h q p m).mp hm, rfl⟩
  · rintro ⟨m, hm, rfl⟩
    exact ⟨m, (offer_spec h q p m).mpr hm, rfl⟩

end complete

/-! ### 5. the instance: the script the emitter writes for `d` -/

section ofDfa
variable (d : Dfa) (out : Nat → List String)

/-- the readings, steps, runs and candidates of `d` (with the command outputs `out`) -/
abbrev DStep := WordStep (ofDfa d out) d.main (commands d) (subIdOf (subOrder d.main))
abbrev DStepDetAt := StepDetAt (ofDfa d out) d.main (commands d) (subIdOf (subOrder d.main))
abbrev DRun := Run (ofDfa d out) d.main (commands d) (subIdOf (subOrder d.main))
abbrev DReach := Reach (ofDfa d out) d.main (commands d) (subIdOf (subOrder d.main))
abbrev DExpected := CmdExpected (ofDfa d out) d.main (commands d)
abbrev DLevelCand := LevelCand (ofDfa d out) d.main (commands d) (subIdOf (subOrder d.main))
abbrev DOffered := Offered (ofDfa d out) d.main (commands d) (subIdOf (subOrder d.main))

/-- the within-word readings, with the tables of the within-word automaton itself -/
theorem ofDfa_subRead_iff
    (hpool : ∀ q k l t, HasEdge d.main q (.sub k l) t → ∃ s, d.subs[k]? = some s)
    (q : Nat) (w : String) (t : Nat) :
    SubRead (ofDfa d out) d.main (subIdOf (subOrder d.main)) q w t ↔
      ∃ k lvl s, HasEdge d.main q (.sub k lvl) t ∧ d.subs[k]? = some s ∧
        subMatches (ofAuto s (commands d) fun _ => none) out w = true := by
  constructor
  · rintro ⟨k, lvl, j, he, hj, hm⟩
    obtain ⟨s, hs⟩ := hpool q k lvl t he
    rw [ofDfa_sub hj hs] at hm
    exact ⟨k, lvl, s, he, hs, hm⟩
  · rintro ⟨k, lvl, s, he, hs, hm⟩
    obtain ⟨j, hj⟩ := subOrder_cover he
    refine ⟨k, lvl, j, he, hj, ?_⟩
    rw [ofDfa_sub hj hs]
    exact hm

theorem ofDfa_readWord_sound {q : Nat} {w : String} {t : Nat}
    (hr : (readWord (ofDfa d out) q w).1 = some t) : DStep d out q w t :=
  readWord_sound (scriptOf_ofDfa d out) hr

theorem ofDfa_readWord_none_iff (q : Nat) (w : String) :
    (readWord (ofDfa d out) q w).1 = none ↔ ∀ t, ¬ DStep d out q w t :=
  readWord_none_iff (scriptOf_ofDfa d out) q w

/-- **1.** -/
theorem ofDfa_readWord_spec {q : Nat} {w : String} (hdet : DStepDetAt d out q w) (t : Nat) :
    (readWord (ofDfa d out) q w).1 = some t ↔ DStep d out q w t :=
  readWord_spec (scriptOf_ofDfa d out) hdet t

theorem ofDfa_readWord_flag (q : Nat) (w : String) :
    (readWord (ofDfa d out) q w).2 = true ↔
      (∀ t, ¬ LitRead d.main q w t) ∧
      (∀ t, ¬ SubRead (ofDfa d out) d.main (subIdOf (subOrder d.main)) q w t) ∧ DExpected d out q :=
  readWord_flag (scriptOf_ofDfa d out) q w

theorem ofDfa_walk_sound (ws : List String) (q0 : Nat) :
    DRun d out q0 ws (walk (ofDfa d out) q0 ws) :=
  walk_sound (scriptOf_ofDfa d out) ws q0

/-- **2.** -/
theorem ofDfa_walk_spec {q0 : Nat} (hdet : ∀ q, DReach d out q0 q → ∀ w, DStepDetAt d out q w)
    (ws : List String) (r : Walk) : walk (ofDfa d out) q0 ws = r ↔ DRun d out q0 ws r :=
  walk_spec (scriptOf_ofDfa d out) hdet ws r

/-- **3.** -/
theorem ofDfa_offer_spec (q : Nat) (p c : String) :
    c ∈ offer (ofDfa d out) q p ↔
      ∃ L, DLevelCand d out q p L c ∧ ∀ l c', DLevelCand d out q p l c' → L ≤ l :=
  offer_spec (scriptOf_ofDfa d out) q p c

/-- **4. The emitted bash script interprets the automaton**: with one reading per word at the states
reachable from the start, return code 1 exactly when the run of the automaton on the earlier words
fails; otherwise COMPREPLY is, as a set, the stripped candidates — literals (text + space), completions
inside a word, command output lines, all extending the typed prefix — of the least level that has any,
at the state the run ends in (possibly by the last-word heuristic). -/
theorem ofDfa_complete_spec
    (hdet : ∀ q, DReach d out d.main.start q → ∀ w, DStepDetAt d out q w)
    (ws : List String) (p wb : String) :
    (complete (ofDfa d out) d.main.start ws p wb = none ↔ DRun d out d.main.start ws .unmatched) ∧
    ∀ q, DRun d out d.main.start ws (.state q) →
      ∃ cs, complete (ofDfa d out) d.main.start ws p wb = some cs ∧
        ∀ c, c ∈ cs ↔ ∃ m, DOffered d out q p m ∧ c = strip p wb m :=
  ⟨complete_none_iff (scriptOf_ofDfa d out) hdet ws p wb,
   fun _ hrun => mem_complete_spec (scriptOf_ofDfa d out) hdet hrun p wb⟩

end ofDfa

end Complgen.TemplateDfaAll

