/-
The automaton built by the subset construction (`buildAuto`) is well-formed in the sense of
`Min.WF` — for EVERY work-list schedule and with no side condition on the regex or on `symOf` —,
hence `Min.minimize` preserves its language (`Min.minimize_lang`).

What is used
  * `Subset.Base` (Subset.lean) after the loop: names are injective both ways and every recorded
    transition `(i,k,j)` is a correct target; this gives determinism and the bound on the input
    indices.
  * a second loop invariant `Inv2` (this file): every id is ≥ 1 and every id in `ids` is reachable
    from id 1 along recorded transitions (`Reach`).  Transitions are only appended, so reachability
    persists.
  * under determinism a recorded transition is what `Auto.step` finds, so `Reach` becomes
    `Auto.run`.
-/
import Complgen.Proofs.Subset
import Complgen.Proofs.Hopcroft
namespace Complgen
namespace BuildWF
open Subset

/-- `q` is reachable from `s` along transitions of `tr` -/
inductive Reach (tr : List (Nat × Nat × Nat)) (s : Nat) : Nat → Prop
  | refl : Reach tr s s
  | step {i k j : Nat} : Reach tr s i → (i, k, j) ∈ tr → Reach tr s j

theorem Reach.mono {tr tr' : List (Nat × Nat × Nat)} {s q : Nat}
    (hsub : ∀ t ∈ tr, t ∈ tr') (h : Reach tr s q) : Reach tr' s q := by
  induction h with
  | refl => exact Reach.refl
  | step _ hm ih => exact Reach.step ih (hsub _ hm)

/-- second invariant of the work-list loop: ids are positive and reachable from id 1 -/
structure Inv2 (st : BuildState) : Prop where
  next : 1 ≤ st.next
  pos : ∀ e ∈ st.ids, 1 ≤ e.2
  reach : ∀ e ∈ st.ids, Reach st.trans 1 e.2

section Loop
variable (follow : Nat → List Nat) (symOf : Nat → Option Inp)

theorem processInputs_inv2 (S : List Nat) (fromId : Nat) (rest : List (Nat × Inp))
    (st : BuildState) (hi : Inv2 st) (hS : (S, fromId) ∈ st.ids) :
    Inv2 (processInputs follow symOf S fromId rest st) := by
  induction rest generalizing st with
  | nil =>
    simp only [processInputs]
    exact hi
  | cons hd rest ih =>
    obtain ⟨i, inp⟩ := hd
    simp only [processInputs]
    split
    · exact ih st hi hS
    · split
      · rename_i T id hfind
        refine ih _ ⟨hi.next, hi.pos, ?_⟩ hS
        intro e he
        exact (hi.reach e he).mono (fun t ht => by simp [ht])
      · refine ih _ ⟨Nat.le_succ_of_le hi.next, ?_, ?_⟩ (by simp [hS])
        · intro e he
          simp only [List.mem_append, List.mem_singleton] at he
          rcases he with he | rfl
          · exact hi.pos e he
          · exact hi.next
        · intro e he
          simp only [List.mem_append, List.mem_singleton] at he
          rcases he with he | rfl
          · exact (hi.reach e he).mono (fun t ht => by simp [ht])
          · have hfrom : Reach (st.trans ++ [(fromId, i, st.next)]) 1 fromId :=
              (hi.reach _ hS).mono (fun t ht => by simp [ht])
            exact Reach.step (k := i) hfrom (by simp)

theorem buildLoop_inv2 (inps : List (Nat × Inp)) (σ : Schedule) (fuel step : Nat)
    (st st' : BuildState) (hi : Inv2 st)
    (h : buildLoop σ follow symOf inps fuel step st = some st') : Inv2 st' := by
  induction fuel generalizing step st with
  | zero =>
    simp only [buildLoop] at h
    split at h
    · cases h; exact hi
    · cases h
  | succ fuel ih =>
    simp only [buildLoop] at h
    split at h
    · cases h; exact hi
    · split at h
      · cases h
      · rename_i state hstate
        split at h
        · cases h
        · rename_i T fromId hfind
          have hmem := List.mem_of_find?_eq_some hfind
          have hT : T = state := by
            have := List.find?_some hfind
            simpa using this
          subst hT
          have hi0 : Inv2
              { st with work := removeNth st.work (σ step st.work.length % st.work.length) } :=
            ⟨hi.next, hi.pos, hi.reach⟩
          exact ih _ _ (processInputs_inv2 follow symOf T fromId inps _ hi0 hmem) h

end Loop

/-! ### From `Reach` to `Auto.run` -/

theorem run_snoc (a : Auto) : ∀ (w : List Nat) (s q k j : Nat),
    a.run s w = some q → a.step q k = some j → a.run s (w ++ [k]) = some j
  | [], s, q, k, j, h, hs => by
    simp only [Auto.run, Option.some.injEq] at h
    subst h
    simp [Auto.run, hs]
  | i :: w, s, q, k, j, h, hs => by
    simp only [Auto.run, List.cons_append] at h ⊢
    cases hst : a.step s i with
    | none => simp [hst] at h
    | some s' =>
      simp only [hst] at h ⊢
      exact run_snoc a w s' q k j h hs

theorem run_of_reach (a : Auto)
    (hdet : ∀ t1 ∈ a.trans, ∀ t2 ∈ a.trans, t1.1 = t2.1 → t1.2.1 = t2.2.1 → t1.2.2 = t2.2.2)
    {s q : Nat} (h : Reach a.trans s q) : ∃ w, a.run s w = some q := by
  induction h with
  | refl => exact ⟨[], rfl⟩
  | step _ hm ih =>
    rename_i i k j _
    obtain ⟨w, hw⟩ := ih
    have hs : a.step i k = some j :=
      Min.step_some_of ⟨_, hm, rfl, rfl⟩ (fun t ht h1 h2 => hdet t ht _ hm h1 h2)
    exact ⟨w ++ [k], run_snoc a w s i k j hw hs⟩

/-! ### The automaton assembled from a terminated run of the loop is well-formed -/

theorem buildLoop_WF (σ : Schedule) (start : List Nat) (follow : Nat → List Nat)
    (symOf : Nat → Option Inp) (endPos : Nat) (inputs : List Inp) (fuel : Nat)
    (st : BuildState) (a : Auto)
    (h : buildLoop σ follow symOf (indexed inputs) fuel 0
      { ids := [(start, 1)], next := 2, work := [start], trans := [] } = some st)
    (ha : a = { start := 1, trans := st.trans,
                acc := (st.ids.filter (fun p => p.1.contains endPos)).map (·.2),
                inputs := inputs }) : Min.WF a := by
  have hb0 : Base follow symOf (indexed inputs)
      { ids := [(start, 1)], next := 2, work := [start], trans := [] } := by
    refine ⟨?_, ?_, ?_, ?_⟩
    · intro e he
      simp only [List.mem_singleton] at he
      subst he
      simp
    · intro e he e' he' _
      simp only [List.mem_singleton] at he he'
      rw [he, he']
    · intro e he e' he' _
      simp only [List.mem_singleton] at he he'
      rw [he, he']
    · intro t ht
      simp at ht
  have hc0 : Closed follow symOf (indexed inputs)
      { ids := [(start, 1)], next := 2, work := [start], trans := [] } := by
    intro S i hSi hSw
    simp only [List.mem_singleton, Prod.mk.injEq] at hSi
    simp only [List.mem_singleton] at hSw
    exact absurd hSi.1 hSw
  have hi0 : Inv2 { ids := [(start, 1)], next := 2, work := [start], trans := [] } := by
    refine ⟨by simp, ?_, ?_⟩
    · intro e he
      simp only [List.mem_singleton] at he
      subst he
      simp
    · intro e he
      simp only [List.mem_singleton] at he
      subst he
      exact Reach.refl
  obtain ⟨hb, _, _, _⟩ := buildLoop_spec follow symOf (indexed inputs) σ fuel 0 _ st hb0 hc0 h
  have hi := buildLoop_inv2 follow symOf (indexed inputs) σ fuel 0 _ st hi0 h
  have hfun : ∀ k x y, (k, x) ∈ indexed inputs → (k, y) ∈ indexed inputs → x = y := by
    intro k x y hx hy
    rw [mem_indexed] at hx hy
    rw [hx] at hy
    exact Option.some.inj hy
  have htr : a.trans = st.trans := by subst ha; rfl
  have hin : a.inputs = inputs := by subst ha; rfl
  have hst : a.start = 1 := by subst ha; rfl
  have hacc : a.acc = (st.ids.filter (fun p => p.1.contains endPos)).map (·.2) := by
    subst ha; rfl
  have hdet : ∀ t1 ∈ a.trans, ∀ t2 ∈ a.trans, t1.1 = t2.1 → t1.2.1 = t2.2.1 →
      t1.2.2 = t2.2.2 := by
    intro t1 h1 t2 h2 e1 e2
    rw [htr] at h1 h2
    obtain ⟨S1, x1, a1, b1, _, d1⟩ := hb.tr t1 h1
    obtain ⟨S2, x2, a2, b2, _, d2⟩ := hb.tr t2 h2
    rw [e1] at a1
    rw [e2] at b1
    have eS : S1 = S2 := hb.inj2 _ a1 _ a2 rfl
    have ex : x1 = x2 := hfun _ _ _ b1 b2
    subst eS ex
    exact hb.inj1 _ d1 _ d2 rfl
  refine ⟨?_, hdet, ?_, ?_⟩
  · intro h0
    rw [Min.mem_states, hst, htr] at h0
    rcases h0 with h0 | ⟨t, ht, h0 | h0⟩
    · cases h0
    · obtain ⟨S, x, a1, _, _, _⟩ := hb.tr t ht
      have := hi.pos _ a1
      simp only at this
      omega
    · obtain ⟨S, x, _, _, _, d1⟩ := hb.tr t ht
      have := hi.pos _ d1
      simp only at this
      omega
  · intro t ht
    rw [htr] at ht
    obtain ⟨S, x, _, b1, _, _⟩ := hb.tr t ht
    rw [mem_indexed] at b1
    rw [hin]
    exact (List.getElem?_eq_some_iff.1 b1).1
  · intro q hq
    rw [hacc, List.mem_map] at hq
    obtain ⟨e, he, rfl⟩ := hq
    have he' : e ∈ st.ids := (List.mem_filter.1 he).1
    rw [hst]
    exact run_of_reach a hdet (htr ▸ hi.reach e he')

end BuildWF

/-- The automaton built by the subset construction is well-formed, for every work-list schedule;
no hypothesis on `r` or `symOf` is needed. -/
theorem buildAuto_WF (σ : Schedule) (r : Regex) (symOf : Nat → Option Inp) (a : Auto)
    (h : buildAuto σ r symOf = some a) : Min.WF a := by
  simp only [buildAuto] at h
  split at h
  · cases h
  · rename_i st hloop
    exact BuildWF.buildLoop_WF σ _ r.follow symOf r.endPos _ _ st a hloop (Option.some.inj h).symm

/-- hence: minimising what the construction builds preserves the language, for all schedules of
both -/
theorem minimize_buildAuto_lang (σ σ' : Schedule) (r : Regex) (symOf : Nat → Option Inp)
    (a m : Auto) (h : buildAuto σ r symOf = some a) (hm : Min.minimize σ' a = some m) :
    ∀ w : List Nat, m.accepts w = a.accepts w :=
  Min.minimize_lang σ' a m (buildAuto_WF σ r symOf a h) hm

end Complgen
