/-
No `|` / `||` node without alternatives: the parser model never builds one (`parse_NEA`), the
validation passes never create one (`validate_NEA`, `validate_NoEmptyAlt`), hence the hypothesis
`Expr.NoEmptyAlt` of the minimality theorems holds of every validated parsed grammar
(`parse_validate_NoEmptyAlt`).

`Expr.NoEmptyAlt` (Proofs/HopcroftMin.lean) does not look inside `.dd` and `.sub`; the invariant
carried through the passes is the stronger `Expr.NEA`, which does.
-/
import Complgen.Proofs.HopcroftMin
import Complgen.Proofs.Ladder
namespace Complgen
open Complgen

mutual
/-- no `alt`/`fb` node without children, anywhere in the tree (also below `.dd` and `.sub`) -/
def Expr.NEA : Expr → Prop
  | .term .. => True
  | .nonterm .. => True
  | .cmd .. => True
  | .seq cs _ => ExprL.NEA cs
  | .alt cs _ => cs ≠ .nil ∧ ExprL.NEA cs
  | .fb cs _ => cs ≠ .nil ∧ ExprL.NEA cs
  | .opt c _ => Expr.NEA c
  | .many1 c _ => Expr.NEA c
  | .dd c _ _ => Expr.NEA c
  | .sub c _ _ => Expr.NEA c
def ExprL.NEA : ExprL → Prop
  | .nil => True
  | .cons e es => Expr.NEA e ∧ ExprL.NEA es
end

mutual
theorem Expr.NEA.noEmptyAlt : ∀ e : Expr, e.NEA → e.NoEmptyAlt
  | .term .., _ => by simp only [Expr.NoEmptyAlt]
  | .nonterm .., _ => by simp only [Expr.NoEmptyAlt]
  | .cmd .., _ => by simp only [Expr.NoEmptyAlt]
  | .seq cs _, h => by
    simp only [Expr.NEA] at h; simp only [Expr.NoEmptyAlt]; exact ExprL.NEA.noEmptyAlt cs h
  | .alt cs _, h => by
    simp only [Expr.NEA] at h; simp only [Expr.NoEmptyAlt]; exact ⟨h.1, ExprL.NEA.noEmptyAlt cs h.2⟩
  | .fb cs _, h => by
    simp only [Expr.NEA] at h; simp only [Expr.NoEmptyAlt]; exact ⟨h.1, ExprL.NEA.noEmptyAlt cs h.2⟩
  | .opt c _, h => by
    simp only [Expr.NEA] at h; simp only [Expr.NoEmptyAlt]; exact Expr.NEA.noEmptyAlt c h
  | .many1 c _, h => by
    simp only [Expr.NEA] at h; simp only [Expr.NoEmptyAlt]; exact Expr.NEA.noEmptyAlt c h
  | .dd .., _ => by simp only [Expr.NoEmptyAlt]
  | .sub .., _ => by simp only [Expr.NoEmptyAlt]
theorem ExprL.NEA.noEmptyAlt : ∀ es : ExprL, es.NEA → es.NoEmptyAlt
  | .nil, _ => by simp only [ExprL.NoEmptyAlt]
  | .cons e es, h => by
    simp only [ExprL.NEA] at h; simp only [ExprL.NoEmptyAlt]
    exact ⟨Expr.NEA.noEmptyAlt e h.1, ExprL.NEA.noEmptyAlt es h.2⟩
end

/-- `ExprL.ofList` of a list of `NEA` expressions -/
theorem ExprL.NEA_ofList : ∀ l : List Expr, (∀ e ∈ l, e.NEA) → (ExprL.ofList l).NEA
  | [], _ => by simp only [ExprL.ofList, ExprL.NEA]
  | e :: es, h => by
    simp only [ExprL.ofList, ExprL.NEA]
    exact ⟨h e List.mem_cons_self, ExprL.NEA_ofList es fun x hx => h x (List.mem_cons_of_mem _ hx)⟩

theorem ExprL.ofList_ne_nil {l : List Expr} (h : l ≠ []) : ExprL.ofList l ≠ .nil := by
  cases l with
  | nil => exact absurd rfl h
  | cons e es => simp [ExprL.ofList]

def Stmt.bodyExpr : Stmt → Expr
  | .call _ _ e => e
  | .defn _ _ _ e => e

namespace Check

/-! ### the passes keep `NEA` -/

mutual
theorem flatten_NEA : ∀ e : Expr, e.NEA → (flatten e).NEA
  | .term .., _ => by simp only [flatten, Expr.NEA]
  | .nonterm .., _ => by simp only [flatten, Expr.NEA]
  | .cmd .., _ => by simp only [flatten, Expr.NEA]
  | .sub c _ _, h => by
    simp only [Expr.NEA] at h; simp only [flatten]; exact flatten_NEA c h
  | .seq cs _, h => by
    simp only [Expr.NEA] at h; simp only [flatten, Expr.NEA]; exact (flattenL_NEA cs h).2
  | .alt cs _, h => by
    simp only [Expr.NEA] at h; simp only [flatten, Expr.NEA]
    exact ⟨(flattenL_NEA cs h.2).1 h.1, (flattenL_NEA cs h.2).2⟩
  | .fb cs _, h => by
    simp only [Expr.NEA] at h; simp only [flatten, Expr.NEA]
    exact ⟨(flattenL_NEA cs h.2).1 h.1, (flattenL_NEA cs h.2).2⟩
  | .opt c _, h => by
    simp only [Expr.NEA] at h; simp only [flatten, Expr.NEA]; exact flatten_NEA c h
  | .many1 c _, h => by
    simp only [Expr.NEA] at h; simp only [flatten, Expr.NEA]; exact flatten_NEA c h
  | .dd c _ _, h => by
    simp only [Expr.NEA] at h; simp only [flatten, Expr.NEA]; exact flatten_NEA c h
theorem flattenL_NEA : ∀ es : ExprL, es.NEA → (es ≠ .nil → flattenL es ≠ .nil) ∧ (flattenL es).NEA
  | .nil, _ => by simp [flattenL, ExprL.NEA]
  | .cons e es, h => by
    simp only [ExprL.NEA] at h
    simp only [flattenL, ExprL.NEA]
    exact ⟨fun _ => by simp, flatten_NEA e h.1, (flattenL_NEA es h.2).2⟩
end

mutual
theorem collapse_NEA : ∀ e : Expr, e.NEA → (collapse e).NEA
  | .term .., _ => by simp only [collapse, Expr.NEA]
  | .nonterm .., _ => by simp only [collapse, Expr.NEA]
  | .cmd .., _ => by simp only [collapse, Expr.NEA]
  | .sub c _ _, h => by
    simp only [Expr.NEA] at h; simp only [collapse, Expr.NEA]; exact flatten_NEA c h
  | .seq cs _, h => by
    simp only [Expr.NEA] at h; simp only [collapse, Expr.NEA]; exact (collapseL_NEA cs h).2
  | .alt cs _, h => by
    simp only [Expr.NEA] at h; simp only [collapse, Expr.NEA]
    exact ⟨(collapseL_NEA cs h.2).1 h.1, (collapseL_NEA cs h.2).2⟩
  | .fb cs _, h => by
    simp only [Expr.NEA] at h; simp only [collapse, Expr.NEA]
    exact ⟨(collapseL_NEA cs h.2).1 h.1, (collapseL_NEA cs h.2).2⟩
  | .opt c _, h => by
    simp only [Expr.NEA] at h; simp only [collapse, Expr.NEA]; exact collapse_NEA c h
  | .many1 c _, h => by
    simp only [Expr.NEA] at h; simp only [collapse, Expr.NEA]; exact collapse_NEA c h
  | .dd c _ _, h => by
    simp only [Expr.NEA] at h; simp only [collapse, Expr.NEA]; exact collapse_NEA c h
theorem collapseL_NEA : ∀ es : ExprL, es.NEA → (es ≠ .nil → collapseL es ≠ .nil) ∧ (collapseL es).NEA
  | .nil, _ => by simp [collapseL, ExprL.NEA]
  | .cons e es, h => by
    simp only [ExprL.NEA] at h
    simp only [collapseL, ExprL.NEA]
    exact ⟨fun _ => by simp, collapse_NEA e h.1, (collapseL_NEA es h.2).2⟩
end

mutual
theorem propagate_NEA : ∀ (e : Expr) (lvl : Nat), e.NEA → (propagate e lvl).NEA
  | .term .., _, _ => by simp only [propagate, Expr.NEA]
  | .nonterm .., _, _ => by simp only [propagate, Expr.NEA]
  | .cmd .., _, _ => by simp only [propagate, Expr.NEA]
  | .sub c _ _, lvl, h => by
    simp only [Expr.NEA] at h; simp only [propagate, Expr.NEA]; exact propagate_NEA c lvl h
  | .seq cs _, lvl, h => by
    simp only [Expr.NEA] at h; simp only [propagate, Expr.NEA]; exact (propagateL_NEA cs lvl h).2
  | .alt cs _, lvl, h => by
    simp only [Expr.NEA] at h; simp only [propagate, Expr.NEA]
    exact ⟨(propagateL_NEA cs lvl h.2).1 h.1, (propagateL_NEA cs lvl h.2).2⟩
  | .fb cs _, _, h => by
    simp only [Expr.NEA] at h; simp only [propagate, Expr.NEA]
    exact ⟨(propagateFb_NEA cs 0 h.2).1 h.1, (propagateFb_NEA cs 0 h.2).2⟩
  | .opt c _, lvl, h => by
    simp only [Expr.NEA] at h; simp only [propagate, Expr.NEA]; exact propagate_NEA c lvl h
  | .many1 c _, lvl, h => by
    simp only [Expr.NEA] at h; simp only [propagate, Expr.NEA]; exact propagate_NEA c lvl h
  | .dd c _ _, _, h => by
    simp only [Expr.NEA] at h; simp only [propagate, Expr.NEA]; exact h
theorem propagateL_NEA : ∀ (es : ExprL) (lvl : Nat), es.NEA →
    (es ≠ .nil → propagateL es lvl ≠ .nil) ∧ (propagateL es lvl).NEA
  | .nil, _, _ => by simp [propagateL, ExprL.NEA]
  | .cons e es, lvl, h => by
    simp only [ExprL.NEA] at h
    simp only [propagateL, ExprL.NEA]
    exact ⟨fun _ => by simp, propagate_NEA e lvl h.1, (propagateL_NEA es lvl h.2).2⟩
theorem propagateFb_NEA : ∀ (es : ExprL) (i : Nat), es.NEA →
    (es ≠ .nil → propagateFb es i ≠ .nil) ∧ (propagateFb es i).NEA
  | .nil, _, _ => by simp [propagateFb, ExprL.NEA]
  | .cons e es, i, h => by
    simp only [ExprL.NEA] at h
    simp only [propagateFb, ExprL.NEA]
    exact ⟨fun _ => by simp, propagate_NEA e i h.1, (propagateFb_NEA es (i + 1) h.2).2⟩
end

mutual
theorem distr_NEA : ∀ (e : Expr) (p : Option String), e.NEA → (distr e p).1.NEA
  | .dd c d _, p, h => by
    simp only [Expr.NEA] at h; simp only [distr]; exact distr_NEA c (some d) h
  | .term t none l s, some d, _ => by simp only [distr, Expr.NEA]
  | .term t (some d') l s, some d, _ => by simp only [distr, Expr.NEA]
  | .term t d l s, none, _ => by cases d <;> simp only [distr, Expr.NEA]
  | .nonterm .., _, _ => by simp only [distr, Expr.NEA]
  | .cmd .., _, _ => by simp only [distr, Expr.NEA]
  | .seq cs _, p, h => by
    simp only [Expr.NEA] at h; simp only [distr, Expr.NEA]; exact (distrSeq_NEA cs p h).2
  | .fb cs _, p, h => by
    simp only [Expr.NEA] at h; simp only [distr, Expr.NEA]
    exact ⟨(distrSeq_NEA cs p h.2).1 h.1, (distrSeq_NEA cs p h.2).2⟩
  | .alt cs _, p, h => by
    simp only [Expr.NEA] at h; simp only [distr, Expr.NEA]
    exact ⟨(distrAlt_NEA cs p h.2).1 h.1, (distrAlt_NEA cs p h.2).2⟩
  | .opt c _, p, h => by
    simp only [Expr.NEA] at h; simp only [distr, Expr.NEA]; exact distr_NEA c p h
  | .many1 c _, p, h => by
    simp only [Expr.NEA] at h; simp only [distr, Expr.NEA]; exact distr_NEA c p h
  | .sub c _ _, p, h => by
    simp only [Expr.NEA] at h; simp only [distr, Expr.NEA]; exact distr_NEA c p h
theorem distrSeq_NEA : ∀ (es : ExprL) (p : Option String), es.NEA →
    (es ≠ .nil → (distrSeq es p).1 ≠ .nil) ∧ (distrSeq es p).1.NEA
  | .nil, _, _ => by simp [distrSeq, ExprL.NEA]
  | .cons e es, p, h => by
    simp only [ExprL.NEA] at h
    simp only [distrSeq, ExprL.NEA]
    exact ⟨fun _ => by simp, distr_NEA e p h.1, (distrSeq_NEA es (distr e p).2 h.2).2⟩
theorem distrAlt_NEA : ∀ (es : ExprL) (p : Option String), es.NEA →
    (es ≠ .nil → (distrAlt es p).1 ≠ .nil) ∧ (distrAlt es p).1.NEA
  | .nil, _, _ => by simp [distrAlt, ExprL.NEA]
  | .cons e es, p, h => by
    simp only [ExprL.NEA] at h
    simp only [distrAlt, ExprL.NEA]
    exact ⟨fun _ => by simp, distr_NEA e p h.1, (distrAlt_NEA es p h.2).2⟩
end

theorem distribute_NEA (e : Expr) (h : e.NEA) : (distribute e).NEA := distr_NEA e none h

mutual
theorem specialize_NEA (sh : Shell) (fbs : AList String) (defined : List String) :
    ∀ (e : Expr) (b : Book), e.NEA → (specialize sh fbs defined e b).1.NEA
  | .term .., _, _ => by simp only [specialize, Expr.NEA]
  | .cmd .., _, _ => by simp only [specialize, Expr.NEA]
  | .nonterm n l s, b, _ => by
    simp only [specialize]
    split <;> simp only [Expr.NEA]
  | .sub c _ _, b, h => by
    simp only [Expr.NEA] at h; simp only [specialize, Expr.NEA]
    exact specialize_NEA sh fbs defined c b h
  | .seq cs _, b, h => by
    simp only [Expr.NEA] at h; simp only [specialize, Expr.NEA]
    exact (specializeL_NEA sh fbs defined cs b h).2
  | .alt cs _, b, h => by
    simp only [Expr.NEA] at h; simp only [specialize, Expr.NEA]
    exact ⟨(specializeL_NEA sh fbs defined cs b h.2).1 h.1, (specializeL_NEA sh fbs defined cs b h.2).2⟩
  | .fb cs _, b, h => by
    simp only [Expr.NEA] at h; simp only [specialize, Expr.NEA]
    exact ⟨(specializeL_NEA sh fbs defined cs b h.2).1 h.1, (specializeL_NEA sh fbs defined cs b h.2).2⟩
  | .opt c _, b, h => by
    simp only [Expr.NEA] at h; simp only [specialize, Expr.NEA]
    exact specialize_NEA sh fbs defined c b h
  | .many1 c _, b, h => by
    simp only [Expr.NEA] at h; simp only [specialize, Expr.NEA]
    exact specialize_NEA sh fbs defined c b h
  | .dd c _ _, _, h => by
    simp only [Expr.NEA] at h; simp only [specialize, Expr.NEA]; exact h
theorem specializeL_NEA (sh : Shell) (fbs : AList String) (defined : List String) :
    ∀ (es : ExprL) (b : Book), es.NEA →
      (es ≠ .nil → (specializeL sh fbs defined es b).1 ≠ .nil) ∧ (specializeL sh fbs defined es b).1.NEA
  | .nil, _, _ => by simp [specializeL, ExprL.NEA]
  | .cons e es, b, h => by
    simp only [ExprL.NEA] at h
    simp only [specializeL, ExprL.NEA]
    exact ⟨fun _ => by simp, specialize_NEA sh fbs defined e b h.1,
      (specializeL_NEA sh fbs defined es _ h.2).2⟩
end

/-- every definition body of the table satisfies `NEA` -/
def DefsNEA (defs : AList (Span × Expr)) : Prop := ∀ p ∈ defs, p.2.2.NEA

theorem DefsNEA.get {defs : AList (Span × Expr)} (h : DefsNEA defs) {n : String} {s : Span} {e : Expr}
    (hg : defs.get? n = some (s, e)) : e.NEA := by
  unfold AList.get? at hg
  cases hf : List.find? (fun x => x.1 == n) defs with
  | none => simp [hf] at hg
  | some p =>
    rw [hf] at hg
    simp only [Option.map_some, Option.some.injEq] at hg
    have := h p (List.mem_of_find?_eq_some hf)
    rw [hg] at this
    exact this

mutual
theorem resolve_NEA (defs : AList (Span × Expr)) (hd : DefsNEA defs) :
    ∀ (e : Expr) (u : AList Span), e.NEA → (resolve defs e u).1.NEA
  | .term .., _, _ => by simp only [resolve, Expr.NEA]
  | .cmd .., _, _ => by simp only [resolve, Expr.NEA]
  | .nonterm n l s, u, _ => by
    simp only [resolve]
    split
    · next sp rhs hg => exact hd.get hg
    · simp only [Expr.NEA]
  | .sub c _ _, u, h => by
    simp only [Expr.NEA] at h; simp only [resolve, Expr.NEA]
    exact resolve_NEA defs hd c u h
  | .seq cs _, u, h => by
    simp only [Expr.NEA] at h; simp only [resolve, Expr.NEA]
    exact (resolveL_NEA defs hd cs u h).2
  | .alt cs _, u, h => by
    simp only [Expr.NEA] at h; simp only [resolve, Expr.NEA]
    exact ⟨(resolveL_NEA defs hd cs u h.2).1 h.1, (resolveL_NEA defs hd cs u h.2).2⟩
  | .fb cs _, u, h => by
    simp only [Expr.NEA] at h; simp only [resolve, Expr.NEA]
    exact ⟨(resolveL_NEA defs hd cs u h.2).1 h.1, (resolveL_NEA defs hd cs u h.2).2⟩
  | .opt c _, u, h => by
    simp only [Expr.NEA] at h; simp only [resolve, Expr.NEA]
    exact resolve_NEA defs hd c u h
  | .many1 c _, u, h => by
    simp only [Expr.NEA] at h; simp only [resolve, Expr.NEA]
    exact resolve_NEA defs hd c u h
  | .dd c _ _, _, h => by
    simp only [Expr.NEA] at h; simp only [resolve, Expr.NEA]; exact h
theorem resolveL_NEA (defs : AList (Span × Expr)) (hd : DefsNEA defs) :
    ∀ (es : ExprL) (u : AList Span), es.NEA →
      (es ≠ .nil → (resolveL defs es u).1 ≠ .nil) ∧ (resolveL defs es u).1.NEA
  | .nil, _, _ => by simp [resolveL, ExprL.NEA]
  | .cons e es, u, h => by
    simp only [ExprL.NEA] at h
    simp only [resolveL, ExprL.NEA]
    exact ⟨fun _ => by simp, resolve_NEA defs hd e u h.1, (resolveL_NEA defs hd es _ h.2).2⟩
end

/-! ### the tables of definitions -/

theorem DefsNEA.nil : DefsNEA [] := fun _ h => by cases h

theorem DefsNEA.append {a b : AList (Span × Expr)} (ha : DefsNEA a) (hb : DefsNEA b) : DefsNEA (a ++ b) :=
  fun p hp => (List.mem_append.mp hp).elim (ha p) (hb p)

theorem collectPlain_NEA : ∀ (l : List (String × Span × Expr)) (acc defs : AList (Span × Expr)),
    (∀ x ∈ l, x.2.2.NEA) → DefsNEA acc → collectPlain l acc = .ok defs → DefsNEA defs
  | [], acc, defs, _, ha, h => by
    simp only [collectPlain, Outcome.ok.injEq] at h
    subst h; exact ha
  | (n, s, e) :: rest, acc, defs, hl, ha, h => by
    unfold collectPlain at h
    cases hg : acc.get? n with
    | some v => rw [hg] at h; cases h
    | none =>
      rw [hg] at h
      simp only at h
      refine collectPlain_NEA rest (acc ++ [(n, (s, e))]) defs
        (fun x hx => hl x (List.mem_cons_of_mem _ hx)) (ha.append ?_) h
      intro p hp
      simp only [List.mem_singleton] at hp
      subst hp
      exact hl (n, s, e) List.mem_cons_self

theorem plainDefs_NEA (g : Grammar) (hg : ∀ st ∈ g, (Stmt.bodyExpr st).NEA) :
    ∀ x ∈ plainDefs g, x.2.2.NEA := by
  intro x hx
  unfold plainDefs at hx
  obtain ⟨st, hst, hx⟩ := List.mem_filterMap.mp hx
  have := hg st hst
  cases st with
  | call n s e => simp at hx
  | defn n s shell e =>
    cases shell with
    | some p => simp at hx
    | none =>
      simp only [Option.some.injEq] at hx
      subst hx
      exact this

theorem callsOf_NEA (g : Grammar) (hg : ∀ st ∈ g, (Stmt.bodyExpr st).NEA) :
    ∀ x ∈ callsOf g, x.2.2.NEA := by
  intro x hx
  unfold callsOf at hx
  obtain ⟨st, hst, hx⟩ := List.mem_filterMap.mp hx
  have := hg st hst
  cases st with
  | defn n s shell e => simp at hx
  | call n s e =>
    simp only [Option.some.injEq] at hx
    subst hx
    exact this

/-- the call variants joined: one variant is taken as it is, two or more become an `.alt`; no
variant at all would give an empty `.alt` (`topExpr_no_calls`), which `commandOf` excludes -/
theorem topExpr_NEA (g : Grammar) (hg : ∀ st ∈ g, (Stmt.bodyExpr st).NEA) (hne : callsOf g ≠ []) :
    (topExpr g).NEA := by
  have hc := callsOf_NEA g hg
  unfold topExpr
  split
  · next n s e heq =>
    exact hc (n, s, e) (by rw [heq]; exact List.mem_singleton.mpr rfl)
  · simp only [Expr.NEA]
    refine ⟨ExprL.ofList_ne_nil (by simpa using hne), ExprL.NEA_ofList _ ?_⟩
    intro e he
    obtain ⟨x, hx, rfl⟩ := List.mem_map.mp he
    exact hc x hx

/-- a grammar without call variants would be joined into an `.alt` without alternatives … -/
theorem topExpr_no_calls : topExpr [] = .alt .nil default := by
  rfl

/-- … but validation refuses it before anything is joined -/
theorem commandOf_ok_calls (g : Grammar) (c : String) (h : commandOf g = .ok c) : callsOf g ≠ [] := by
  intro he
  unfold commandOf at h
  rw [he] at h
  simp at h

theorem specFold_NEA (sh : Shell) (fbs : AList String) (defined : List String) :
    ∀ (l : List (String × Span × Expr)) (acc : AList (Span × Expr) × Book),
      (∀ x ∈ l, x.2.2.NEA) → DefsNEA acc.1 → DefsNEA (l.foldl (specStep sh fbs defined) acc).1
  | [], acc, _, ha => ha
  | x :: rest, acc, hl, ha => by
    simp only [List.foldl_cons]
    refine specFold_NEA sh fbs defined rest _ (fun y hy => hl y (List.mem_cons_of_mem _ hy)) ?_
    unfold specStep
    refine ha.append ?_
    intro p hp
    simp only [List.mem_singleton] at hp
    subst hp
    exact specialize_NEA sh fbs defined x.2.2 acc.2 (hl x List.mem_cons_self)

theorem resStep_NEA (acc : AList (Span × Expr) × AList Span) (n : String) (ha : DefsNEA acc.1) :
    DefsNEA (resStep acc n).1 := by
  unfold resStep
  cases hg : AList.get? acc.1 n with
  | none => exact ha
  | some v =>
    obtain ⟨s, e⟩ := v
    simp only
    intro p hp
    obtain ⟨q, hq, rfl⟩ := List.mem_map.mp hp
    by_cases hqn : (q.1 == n) = true
    · simp only [hqn, if_true]
      exact resolve_NEA acc.1 ha e acc.2 (ha.get hg)
    · simp only [hqn]
      exact ha q hq

theorem resFold_NEA : ∀ (order : List String) (acc : AList (Span × Expr) × AList Span),
    DefsNEA acc.1 → DefsNEA (order.foldl resStep acc).1
  | [], _, ha => ha
  | n :: rest, acc, ha => by
    simp only [List.foldl_cons]
    exact resFold_NEA rest _ (resStep_NEA acc n ha)

theorem finishValidate_NEA (g : Grammar) (sh : Shell) (command : String) (defs0 : AList (Span × Expr))
    (specs : AList UserSpec) (fbs : AList String) (v : Valid)
    (hg : ∀ st ∈ g, (Stmt.bodyExpr st).NEA) (hne : callsOf g ≠ []) (hd : DefsNEA defs0)
    (h : finishValidate g sh command defs0 specs fbs = .ok v) : v.expr.NEA := by
  unfold finishValidate at h
  simp only at h
  have hD : ∀ x ∈ (defs0.map fun x => (x.1, x.2.1, distribute x.2.2)), x.2.2.NEA := by
    intro x hx
    obtain ⟨y, hy, rfl⟩ := List.mem_map.mp hx
    exact distribute_NEA _ (hd y hy)
  have h1 := specFold_NEA sh fbs ((defs0.map fun x => (x.1, x.2.1, distribute x.2.2)).map (·.1))
    (defs0.map fun x => (x.1, x.2.1, distribute x.2.2))
    ([], ⟨specs, (defs0.map fun x => (x.1, x.2.1, distribute x.2.2)).map fun x => (x.1, x.2.1)⟩) hD DefsNEA.nil
  generalize hr1 : (defs0.map fun x => (x.1, x.2.1, distribute x.2.2)).foldl
    (specStep sh fbs ((defs0.map fun x => (x.1, x.2.1, distribute x.2.2)).map (·.1)))
    ([], ⟨specs, (defs0.map fun x => (x.1, x.2.1, distribute x.2.2)).map fun x => (x.1, x.2.1)⟩) = r1 at h h1
  have h2 := specialize_NEA sh fbs ((defs0.map fun x => (x.1, x.2.1, distribute x.2.2)).map (·.1))
    (distribute (topExpr g)) r1.2 (distribute_NEA _ (topExpr_NEA g hg hne))
  generalize hr2 : specialize sh fbs ((defs0.map fun x => (x.1, x.2.1, distribute x.2.2)).map (·.1))
    (distribute (topExpr g)) r1.2 = r2 at h h2
  cases hro : resolutionOrder r1.1 with
  | error spans => rw [hro] at h; cases h
  | ok order =>
    rw [hro] at h
    simp only at h
    have h3 := resFold_NEA order (r1.1, r2.2.unused) h1
    generalize hr3 : order.foldl resStep (r1.1, r2.2.unused) = r3 at h h3
    cases hsp : spaces r3.1 stackFuel r2.1 [] false with
    | overflow => rw [hsp] at h; cases h
    | bad l r t => rw [hsp] at h; cases h
    | fine =>
      rw [hsp] at h
      simp only [Outcome.ok.injEq] at h
      subst h
      simp only
      exact propagate_NEA _ 0 (collapse_NEA _ (resolve_NEA r3.1 h3 r2.1 r3.2 h2))

/-- **Validation creates no empty alternation**: if no statement of the grammar has one, the
validated expression has none (not even inside words and described groups). -/
theorem validate_NEA (g : Grammar) (sh : Shell) (v : Valid) (hg : ∀ st ∈ g, (Stmt.bodyExpr st).NEA)
    (h : validate g sh = .ok v) : v.expr.NEA := by
  unfold validate at h
  cases hcmd : commandOf g with
  | err c s => rw [hcmd] at h; cases h
  | crash s => rw [hcmd] at h; cases h
  | ok command =>
    rw [hcmd] at h
    simp only at h
    cases hcp : collectPlain (plainDefs g) [] with
    | err c s => rw [hcp] at h; cases h
    | crash s => rw [hcp] at h; cases h
    | ok defs =>
      rw [hcp] at h
      simp only at h
      cases hgs : getSpecializations g sh with
      | err c s => rw [hgs] at h; cases h
      | crash s => rw [hgs] at h; cases h
      | ok r =>
        obtain ⟨specs, fbs⟩ := r
        rw [hgs] at h
        simp only at h
        exact finishValidate_NEA g sh command defs specs fbs v hg (commandOf_ok_calls g command hcmd)
          (collectPlain_NEA (plainDefs g) [] defs (plainDefs_NEA g hg) DefsNEA.nil hcp) h

theorem validate_NoEmptyAlt (g : Grammar) (sh : Shell) (v : Valid) (hg : ∀ st ∈ g, (Stmt.bodyExpr st).NEA)
    (h : validate g sh = .ok v) : v.expr.NoEmptyAlt :=
  Expr.NEA.noEmptyAlt _ (validate_NEA g sh v hg h)

/-- a hand-built grammar (no parser output): one call variant whose body is an `.alt` without
alternatives -/
def emptyAltGrammar : Grammar := [.call "c" ⟨1, 1, 2⟩ (.alt .nil ⟨1, 3, 4⟩)]

/-- the hypothesis of `validate_NoEmptyAlt` is needed: validation accepts `emptyAltGrammar` and keeps
the empty alternation -/
theorem validate_keeps_empty_alt :
    ∃ v, validate emptyAltGrammar .bash = .ok v ∧ ¬ v.expr.NoEmptyAlt := by
  refine ⟨⟨"c", .alt .nil ⟨1, 3, 4⟩, [], [], []⟩, by rfl, ?_⟩
  simp [Expr.NoEmptyAlt]

end Check

namespace Parse

/-! ### the parser builds no empty alternation -/

def AllNEA (l : List Expr) : Prop := ∀ e ∈ l, e.NEA

theorem AllNEA.snoc {l : List Expr} {e : Expr} (hl : AllNEA l) (he : e.NEA) : AllNEA (l ++ [e]) := by
  intro x hx
  rcases List.mem_append.mp hx with hx | hx
  · exact hl x hx
  · simp only [List.mem_singleton] at hx; subst hx; exact he

theorem AllNEA.single {e : Expr} (he : e.NEA) : AllNEA [e] := by
  intro x hx
  simp only [List.mem_singleton] at hx; subst hx; exact he

/-- what is proved of every level of the ladder, for one amount of fuel -/
structure Levels (f : Nat) : Prop where
  unary : ∀ s s' e, unary f s = some (s', e) → e.NEA
  optional : ∀ s s' e, optional f s = some (s', e) → e.NEA
  parenthesized : ∀ s s' e, parenthesized f s = some (s', e) → e.NEA
  subwordLoop : ∀ s acc, AllNEA acc → AllNEA (subwordLoop f s acc).2
  subwordSeq : ∀ s s' e, subwordSeq f s = some (s', e) → e.NEA
  sseod : ∀ s s' e, sseod f s = some (s', e) → e.NEA
  sequenceLoop : ∀ s acc, AllNEA acc → AllNEA (sequenceLoop f s acc).2
  sequence : ∀ s s' e, sequence f s = some (s', e) → e.NEA
  alternativeLoop : ∀ s acc, AllNEA acc → acc ≠ [] →
    AllNEA (alternativeLoop f s acc).2 ∧ (alternativeLoop f s acc).2 ≠ []
  alternative : ∀ s s' e, alternative f s = some (s', e) → e.NEA
  fallbackLoop : ∀ s acc, AllNEA acc → acc ≠ [] →
    AllNEA (fallbackLoop f s acc).2 ∧ (fallbackLoop f s acc).2 ≠ []
  fallback : ∀ s s' e, fallback f s = some (s', e) → e.NEA

theorem levels_zero : Levels 0 where
  unary := by intro s s' e h; rw [unary_zero] at h; cases h
  optional := by intro s s' e h; rw [optional_zero] at h; cases h
  parenthesized := by intro s s' e h; rw [parenthesized_zero] at h; cases h
  subwordLoop := by intro s acc h; rw [subwordLoop_zero]; exact h
  subwordSeq := by intro s s' e h; rw [subwordSeq_zero] at h; cases h
  sseod := by intro s s' e h; rw [sseod_zero] at h; cases h
  sequenceLoop := by intro s acc h; rw [sequenceLoop_zero]; exact h
  sequence := by intro s s' e h; rw [sequence_zero] at h; cases h
  alternativeLoop := by intro s acc h hne; rw [alternativeLoop_zero]; exact ⟨h, hne⟩
  alternative := by intro s s' e h; rw [alternative_zero] at h; cases h
  fallbackLoop := by intro s acc h hne; rw [fallbackLoop_zero]; exact ⟨h, hne⟩
  fallback := by intro s s' e h; rw [fallback_zero] at h; cases h

theorem baseP_NEA (f : Nat) (L : Levels f) (s s' : PState) (e : Expr) (h : baseP f s = some (s', e)) :
    e.NEA := by
  unfold baseP at h
  split at h
  · simp only [Option.some.injEq, Prod.mk.injEq] at h
    obtain ⟨_, rfl⟩ := h
    simp only [Expr.NEA]
  · split at h
    · next r hr =>
      simp only [Option.some.injEq] at h
      subst h
      exact L.optional s s' e hr
    · split at h
      · next r hr =>
        simp only [Option.some.injEq] at h
        subst h
        exact L.parenthesized s s' e hr
      · split at h
        · simp only [Option.some.injEq, Prod.mk.injEq] at h
          obtain ⟨_, rfl⟩ := h
          simp only [Expr.NEA]
        · split at h
          · simp only [Option.some.injEq, Prod.mk.injEq] at h
            obtain ⟨_, rfl⟩ := h
            simp only [Expr.NEA]
          · cases h

theorem levels_succ (f : Nat) (L : Levels f) : Levels (f + 1) where
  unary := by
    intro s s' e h
    rw [unary_succ] at h
    cases hb : baseP f s with
    | none => rw [hb] at h; cases h
    | some r =>
      obtain ⟨s1, e1⟩ := r
      rw [hb] at h
      simp only at h
      have h1 := baseP_NEA f L s s1 e1 hb
      split at h
      · simp only [Option.some.injEq, Prod.mk.injEq] at h
        obtain ⟨_, rfl⟩ := h
        simp only [Expr.NEA]; exact h1
      · simp only [Option.some.injEq, Prod.mk.injEq] at h
        obtain ⟨_, rfl⟩ := h
        exact h1
  optional := by
    intro s s' e h
    rw [optional_succ] at h
    split at h
    · cases h
    · split at h
      · cases h
      · next s2 e2 hf =>
        split at h
        · cases h
        · simp only [Option.some.injEq, Prod.mk.injEq] at h
          obtain ⟨_, rfl⟩ := h
          simp only [Expr.NEA]
          exact L.fallback _ _ _ hf
  parenthesized := by
    intro s s' e h
    rw [parenthesized_succ] at h
    split at h
    · cases h
    · split at h
      · cases h
      · next s2 e2 hf =>
        split at h
        · cases h
        · simp only [Option.some.injEq, Prod.mk.injEq] at h
          obtain ⟨_, rfl⟩ := h
          exact L.fallback _ _ _ hf
  subwordLoop := by
    intro s acc hacc
    rw [subwordLoop_succ]
    split
    · next s1 e1 hu => exact L.subwordLoop _ _ (hacc.snoc (L.unary _ _ _ hu))
    · exact hacc
  subwordSeq := by
    intro s s' e h
    rw [subwordSeq_succ] at h
    split at h
    · cases h
    · next s1 left hu =>
      have hl := L.subwordLoop s1 [left] (AllNEA.single (L.unary _ _ _ hu))
      cases hloop : Parse.subwordLoop f s1 [left] with
      | mk s2 factors =>
        rw [hloop] at h hl
        simp only at h hl
        split at h
        · next e1 =>
          simp only [Option.some.injEq, Prod.mk.injEq] at h
          obtain ⟨_, rfl⟩ := h
          exact hl _ (List.mem_singleton.mpr rfl)
        · simp only [Option.some.injEq, Prod.mk.injEq] at h
          obtain ⟨_, rfl⟩ := h
          simp only [Expr.NEA]
          refine ExprL.NEA_ofList _ ?_
          intro x hx
          obtain ⟨y, hy, rfl⟩ := List.mem_map.mp hx
          exact Check.flatten_NEA y (hl y hy)
  sseod := by
    intro s s' e h
    rw [sseod_succ] at h
    split at h
    · cases h
    · next s1 e1 hs =>
      have h1 := L.subwordSeq _ _ _ hs
      split at h
      · simp only [Option.some.injEq, Prod.mk.injEq] at h
        obtain ⟨_, rfl⟩ := h
        simp only [Expr.NEA]; exact h1
      · simp only [Option.some.injEq, Prod.mk.injEq] at h
        obtain ⟨_, rfl⟩ := h
        exact h1
  sequenceLoop := by
    intro s acc hacc
    rw [sequenceLoop_succ]
    split
    · exact hacc
    · split
      · next s2 e2 hu => exact L.sequenceLoop _ _ (hacc.snoc (L.sseod _ _ _ hu))
      · exact hacc
  sequence := by
    intro s s' e h
    rw [sequence_succ] at h
    split at h
    · cases h
    · next s1 left hu =>
      have hl := L.sequenceLoop s1 [left] (AllNEA.single (L.sseod _ _ _ hu))
      cases hloop : Parse.sequenceLoop f s1 [left] with
      | mk s2 factors =>
        rw [hloop] at h hl
        simp only at h hl
        split at h
        · simp only [Option.some.injEq, Prod.mk.injEq] at h
          obtain ⟨_, rfl⟩ := h
          exact hl _ (List.mem_singleton.mpr rfl)
        · simp only [Option.some.injEq, Prod.mk.injEq] at h
          obtain ⟨_, rfl⟩ := h
          simp only [Expr.NEA]
          exact ExprL.NEA_ofList _ hl
  alternativeLoop := by
    intro s acc hacc hne
    rw [alternativeLoop_succ]
    split
    · exact ⟨hacc, hne⟩
    · split
      · next s2 e2 hu =>
        exact L.alternativeLoop _ _ (hacc.snoc (L.sequence _ _ _ hu)) (by simp)
      · exact ⟨hacc, hne⟩
  alternative := by
    intro s s' e h
    rw [alternative_succ] at h
    split at h
    · cases h
    · next s1 left hu =>
      have hl := L.alternativeLoop s1 [left] (AllNEA.single (L.sequence _ _ _ hu)) (by simp)
      cases hloop : Parse.alternativeLoop f s1 [left] with
      | mk s2 elems =>
        rw [hloop] at h hl
        simp only at h hl
        split at h
        · simp only [Option.some.injEq, Prod.mk.injEq] at h
          obtain ⟨_, rfl⟩ := h
          exact hl.1 _ (List.mem_singleton.mpr rfl)
        · simp only [Option.some.injEq, Prod.mk.injEq] at h
          obtain ⟨_, rfl⟩ := h
          simp only [Expr.NEA]
          exact ⟨ExprL.ofList_ne_nil hl.2, ExprL.NEA_ofList _ hl.1⟩
  fallbackLoop := by
    intro s acc hacc hne
    rw [fallbackLoop_succ]
    split
    · exact ⟨hacc, hne⟩
    · split
      · next s2 e2 hu =>
        exact L.fallbackLoop _ _ (hacc.snoc (L.alternative _ _ _ hu)) (by simp)
      · exact ⟨hacc, hne⟩
  fallback := by
    intro s s' e h
    rw [fallback_succ] at h
    split at h
    · cases h
    · next s1 left hu =>
      have hl := L.fallbackLoop s1 [left] (AllNEA.single (L.alternative _ _ _ hu)) (by simp)
      cases hloop : Parse.fallbackLoop f s1 [left] with
      | mk s2 fbs =>
        rw [hloop] at h hl
        simp only at h hl
        split at h
        · simp only [Option.some.injEq, Prod.mk.injEq] at h
          obtain ⟨_, rfl⟩ := h
          exact hl.1 _ (List.mem_singleton.mpr rfl)
        · simp only [Option.some.injEq, Prod.mk.injEq] at h
          obtain ⟨_, rfl⟩ := h
          simp only [Expr.NEA]
          exact ⟨ExprL.ofList_ne_nil hl.2, ExprL.NEA_ofList _ hl.1⟩

theorem levels : ∀ f : Nat, Levels f
  | 0 => levels_zero
  | f + 1 => levels_succ f (levels f)

/-- **every expression the ladder returns is free of empty alternations** -/
theorem fallback_NEA (fuel : Nat) (s s' : PState) (e : Expr) (h : fallback fuel s = some (s', e)) : e.NEA :=
  (levels fuel).fallback s s' e h
theorem alternative_NEA (fuel : Nat) (s s' : PState) (e : Expr) (h : alternative fuel s = some (s', e)) :
    e.NEA := (levels fuel).alternative s s' e h
theorem sequence_NEA (fuel : Nat) (s s' : PState) (e : Expr) (h : sequence fuel s = some (s', e)) : e.NEA :=
  (levels fuel).sequence s s' e h
theorem sseod_NEA (fuel : Nat) (s s' : PState) (e : Expr) (h : sseod fuel s = some (s', e)) : e.NEA :=
  (levels fuel).sseod s s' e h
theorem subwordSeq_NEA (fuel : Nat) (s s' : PState) (e : Expr) (h : subwordSeq fuel s = some (s', e)) :
    e.NEA := (levels fuel).subwordSeq s s' e h
theorem unary_NEA (fuel : Nat) (s s' : PState) (e : Expr) (h : unary fuel s = some (s', e)) : e.NEA :=
  (levels fuel).unary s s' e h

/-! ### statements -/

theorem callVariant_NEA (fuel : Nat) (s s' : PState) (st : Stmt) (h : callVariant fuel s = some (s', st)) :
    (Stmt.bodyExpr st).NEA := by
  unfold callVariant at h
  simp only [Option.bind_eq_bind, Option.bind_eq_some_iff] at h
  obtain ⟨a, _, a1, _, a2, hf, a3, _, h⟩ := h
  simp only [Option.some.injEq, Prod.mk.injEq] at h
  obtain ⟨_, rfl⟩ := h
  obtain ⟨s2, e⟩ := a2
  exact fallback_NEA fuel _ _ _ hf

theorem nontermDef_NEA (fuel : Nat) (s s' : PState) (st : Stmt) (h : nontermDefStatement fuel s = some (s', st)) :
    (Stmt.bodyExpr st).NEA := by
  unfold nontermDefStatement at h
  simp only [Option.bind_eq_bind] at h
  split at h
  · simp only [Option.bind_some, Option.bind_eq_some_iff] at h
    obtain ⟨s3, _, a2, hf, s5, _, h⟩ := h
    simp only [Option.some.injEq, Prod.mk.injEq] at h
    obtain ⟨_, rfl⟩ := h
    obtain ⟨s4, e⟩ := a2
    exact fallback_NEA fuel _ _ _ hf
  · split at h
    · simp only [Option.bind_some, Option.bind_eq_some_iff] at h
      obtain ⟨s3, _, a2, hf, s5, _, h⟩ := h
      simp only [Option.some.injEq, Prod.mk.injEq] at h
      obtain ⟨_, rfl⟩ := h
      obtain ⟨s4, e⟩ := a2
      exact fallback_NEA fuel _ _ _ hf
    · simp only [Option.bind_none] at h
      cases h

theorem statement_NEA (fuel : Nat) (s s' : PState) (st : Stmt) (h : statement fuel s = some (s', st)) :
    (Stmt.bodyExpr st).NEA := by
  unfold statement at h
  split at h
  · next s1 st1 ho =>
    simp only [Option.some.injEq, Prod.mk.injEq] at h
    obtain ⟨_, rfl⟩ := h
    cases hc : callVariant fuel s with
    | some r =>
      rw [hc] at ho
      simp only [Option.orElse_some, Option.some.injEq] at ho
      subst ho
      exact callVariant_NEA fuel s _ _ hc
    | none =>
      rw [hc] at ho
      simp only [Option.orElse_none] at ho
      exact nontermDef_NEA fuel s _ _ ho
  · cases h

theorem statements_NEA : ∀ (n fuel : Nat) (s : PState) (acc : List Stmt),
    (∀ st ∈ acc, (Stmt.bodyExpr st).NEA) → ∀ st ∈ (statements n fuel s acc).2, (Stmt.bodyExpr st).NEA
  | 0, _, _, _, hacc => by simpa only [statements] using hacc
  | n + 1, fuel, s, acc, hacc => by
    unfold statements
    split
    · next s1 st1 hs =>
      split
      · refine statements_NEA n fuel s1 (acc ++ [st1]) ?_
        intro x hx
        rcases List.mem_append.mp hx with hx | hx
        · exact hacc x hx
        · simp only [List.mem_singleton] at hx; subst hx; exact statement_NEA fuel s s1 _ hs
      · exact hacc
    · exact hacc

/-- **The parser never builds an alternation without alternatives.** -/
theorem parse_NEA (input : List Char) (g : Grammar) (h : parse input = .ok g) :
    ∀ st ∈ g, (Stmt.bodyExpr st).NEA := by
  unfold parse at h
  simp only at h
  split at h
  · simp only [Except.ok.injEq] at h
    subst h
    exact statements_NEA _ _ _ [] (fun _ hx => by cases hx)
  · cases h

end Parse

/-- **A parsed grammar that validates has no empty alternation**: the hypothesis of
`minimised_built_is_minimal` (Props/C03.lean) holds of everything the front end lets through. -/
theorem parse_validate_NEA (input : List Char) (g : Grammar) (sh : Shell) (v : Check.Valid)
    (hp : Parse.parse input = .ok g) (hv : Check.validate g sh = .ok v) : v.expr.NEA :=
  Check.validate_NEA g sh v (Parse.parse_NEA input g hp) hv

theorem parse_validate_NoEmptyAlt (input : List Char) (g : Grammar) (sh : Shell) (v : Check.Valid)
    (hp : Parse.parse input = .ok g) (hv : Check.validate g sh = .ok v) : v.expr.NoEmptyAlt :=
  Expr.NEA.noEmptyAlt _ (parse_validate_NEA input g sh v hp hv)

end Complgen
