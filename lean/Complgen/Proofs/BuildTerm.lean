/-
Termination of the subset construction (`buildLoop` / `buildAuto`, the model of `dfa_from_regex`)
and the crash sites of the pipeline model.

  1. `buildAuto_isSome`: if `first` and `follow` mention only positions `≤ endPos`, the loop ends
     within its fuel `2 ^ (n + 1) + 8` (n = number of inputs) for every schedule and every `symOf`.
     Every round pops one work item, every work item was pushed when its set got an id, the keys
     of `ids` are pairwise different strictly increasing lists of positions `< n + 1`, and there
     are at most `2 ^ (n + 1)` of those (`card_le`).
  2. `buildAuto_ofExpr_isSome`, `buildAuto_pool_isSome`: the regexes made by `Regex.ofExpr` (main
     regex and the pool of within-word regexes) satisfy the hypothesis.
  3. `compile_crash_only_stack`: the only `.crash` of `Pipeline.compile` is the one of validation.
-/
import Complgen.Proofs.PipelineMin
namespace Complgen
namespace BuildTerm
open Subset

/-! ### 1. `normSet` yields strictly increasing lists; those are determined by their members -/

theorem insertSorted_sorted (x : Nat) : ∀ (l : List Nat), l.Pairwise (· < ·) →
    (insertSorted x l).Pairwise (· < ·)
  | [], _ => by simp [insertSorted]
  | y :: ys, h => by
    have hy := List.pairwise_cons.1 h
    simp only [insertSorted]
    split
    · rename_i hxy
      refine List.pairwise_cons.2 ⟨?_, h⟩
      intro a ha
      rcases List.mem_cons.1 ha with rfl | ha
      · exact hxy
      · exact Nat.lt_trans hxy (hy.1 a ha)
    · split
      · exact h
      · rename_i h1 h2
        have hne : x ≠ y := by simpa using h2
        refine List.pairwise_cons.2 ⟨?_, insertSorted_sorted x ys hy.2⟩
        intro a ha
        rcases mem_insertSorted.1 ha with rfl | ha
        · omega
        · exact hy.1 a ha

theorem foldl_insertSorted_sorted : ∀ (l init : List Nat), init.Pairwise (· < ·) →
    (l.foldl (fun acc x => insertSorted x acc) init).Pairwise (· < ·)
  | [], _, h => h
  | x :: xs, init, h => by
    simp only [List.foldl_cons]
    exact foldl_insertSorted_sorted xs _ (insertSorted_sorted x init h)

theorem normSet_sorted (l : List Nat) : (normSet l).Pairwise (· < ·) :=
  foldl_insertSorted_sorted l [] List.Pairwise.nil

/-- strictly increasing lists with the same members are equal -/
theorem sorted_ext : ∀ (A B : List Nat), A.Pairwise (· < ·) → B.Pairwise (· < ·) →
    (∀ x, x ∈ A ↔ x ∈ B) → A = B
  | [], [], _, _, _ => rfl
  | [], b :: B, _, _, h => by
    have := (h b).2 (by simp)
    simp at this
  | a :: A, [], _, _, h => by
    have := (h a).1 (by simp)
    simp at this
  | a :: A, b :: B, hA, hB, h => by
    have hA' := List.pairwise_cons.1 hA
    have hB' := List.pairwise_cons.1 hB
    have hab : a = b := by
      have h1 := (h a).1 (by simp)
      have h2 := (h b).2 (by simp)
      rcases List.mem_cons.1 h1 with h1 | h1
      · exact h1
      · rcases List.mem_cons.1 h2 with h2 | h2
        · exact h2.symm
        · have := hB'.1 a h1
          have := hA'.1 b h2
          omega
    subst hab
    have : A = B := by
      refine sorted_ext A B hA'.2 hB'.2 ?_
      intro x
      constructor
      · intro hx
        rcases List.mem_cons.1 ((h x).1 (List.mem_cons_of_mem _ hx)) with rfl | h3
        · exact absurd (hA'.1 x hx) (Nat.lt_irrefl _)
        · exact h3
      · intro hx
        rcases List.mem_cons.1 ((h x).2 (List.mem_cons_of_mem _ hx)) with rfl | h3
        · exact absurd (hB'.1 x hx) (Nat.lt_irrefl _)
        · exact h3
    rw [this]

/-! ### 2. Counting: at most `2 ^ m` sets of numbers below `m` -/

/-- the two lists differ in the membership of some number below `m` -/
def Differ (m : Nat) (A B : List Nat) : Prop := ∃ x, x < m ∧ ¬ (x ∈ A ↔ x ∈ B)

theorem length_filter_add {α} (p : α → Bool) : ∀ (l : List α),
    l.length = (l.filter p).length + (l.filter (fun a => !p a)).length
  | [] => rfl
  | a :: l => by
    have ih := length_filter_add p l
    cases hp : p a <;> simp [hp] <;> omega

/-- a list of lists that differ pairwise below `m` has at most `2 ^ m` entries -/
theorem card_le : ∀ (m : Nat) (L : List (List Nat)), L.Pairwise (Differ m) → L.length ≤ 2 ^ m
  | 0, L, h => by
    match L, h with
    | [], _ => simp
    | [_], _ => simp
    | A :: B :: _, h =>
      have := (List.pairwise_cons.1 h).1 B (by simp)
      obtain ⟨x, hx, _⟩ := this
      omega
  | m + 1, L, h => by
    have h1 : (L.filter (fun A => decide (m ∈ A))).Pairwise (Differ m) := by
      refine List.Pairwise.imp_of_mem ?_ (h.filter _)
      intro A B hA hB hd
      have hA' : m ∈ A := by simpa using (List.mem_filter.1 hA).2
      have hB' : m ∈ B := by simpa using (List.mem_filter.1 hB).2
      obtain ⟨x, hx, hne⟩ := hd
      refine ⟨x, ?_, hne⟩
      rcases Nat.lt_or_eq_of_le (Nat.le_of_lt_succ hx) with hlt | heq
      · exact hlt
      · subst heq
        exact absurd ⟨fun _ => hB', fun _ => hA'⟩ hne
    have h2 : (L.filter (fun A => !decide (m ∈ A))).Pairwise (Differ m) := by
      refine List.Pairwise.imp_of_mem ?_ (h.filter _)
      intro A B hA hB hd
      have hA' : m ∉ A := by simpa using (List.mem_filter.1 hA).2
      have hB' : m ∉ B := by simpa using (List.mem_filter.1 hB).2
      obtain ⟨x, hx, hne⟩ := hd
      refine ⟨x, ?_, hne⟩
      rcases Nat.lt_or_eq_of_le (Nat.le_of_lt_succ hx) with hlt | heq
      · exact hlt
      · subst heq
        exact absurd ⟨fun h => absurd h hA', fun h => absurd h hB'⟩ hne
    have := card_le m _ h1
    have := card_le m _ h2
    have := length_filter_add (fun A : List Nat => decide (m ∈ A)) L
    rw [Nat.pow_succ]
    omega

/-- a strictly increasing list of numbers below `m` -/
def Canon (m : Nat) (K : List Nat) : Prop := K.Pairwise (· < ·) ∧ ∀ x ∈ K, x < m

theorem differ_of_ne {m : Nat} {A B : List Nat} (hA : Canon m A) (hB : Canon m B) (hne : A ≠ B) :
    Differ m A B := by
  apply Classical.byContradiction
  intro hnd
  apply hne
  refine sorted_ext A B hA.1 hB.1 ?_
  intro x
  apply Classical.byContradiction
  intro hx
  apply hnd
  refine ⟨x, ?_, hx⟩
  by_cases hxA : x ∈ A
  · exact hA.2 x hxA
  · by_cases hxB : x ∈ B
    · exact hB.2 x hxB
    · exact absurd ⟨fun h => absurd h hxA, fun h => absurd h hxB⟩ hx

/-- **Counting lemma**: a duplicate-free list of strictly increasing lists of numbers below `m`
has at most `2 ^ m` entries. -/
theorem canon_card_le (m : Nat) (L : List (List Nat)) (hnd : L.Nodup) (hc : ∀ K ∈ L, Canon m K) :
    L.length ≤ 2 ^ m := by
  refine card_le m L ?_
  refine List.Pairwise.imp_of_mem ?_ hnd
  intro A B hA hB hne
  exact differ_of_ne (hc A hA) (hc B hB) hne

theorem normSet_canon {m : Nat} {l : List Nat} (h : ∀ x ∈ l, x < m) : Canon m (normSet l) :=
  ⟨normSet_sorted l, fun x hx => h x (mem_normSet.1 hx)⟩

/-! ### 3. The loop -/

/-- invariant of the work-list loop for termination: the keys of `ids` are pairwise different
canonical sets of positions below `m`, and every pending set has an id -/
structure TInv (m : Nat) (st : BuildState) : Prop where
  nodup : (st.ids.map (·.1)).Nodup
  canon : ∀ e ∈ st.ids, Canon m e.1
  work : ∀ S ∈ st.work, ∃ i, (S, i) ∈ st.ids

section Loop
variable (follow : Nat → List Nat) (symOf : Nat → Option Inp) (m : Nat)

theorem targetSet_canon (hf : ∀ p q, q ∈ follow p → q < m) (S : List Nat) (inp : Inp) :
    Canon m (targetSet follow symOf S inp) := by
  refine ⟨normSet_sorted _, ?_⟩
  intro q hq
  obtain ⟨p, _, _, hqp⟩ := (mem_targetSet follow symOf).1 hq
  exact hf p q hqp

/-- processing the inputs keeps the invariant and pushes exactly the sets that get a new id -/
theorem processInputs_tinv (hf : ∀ p q, q ∈ follow p → q < m) (S : List Nat) (fromId : Nat) :
    ∀ (rest : List (Nat × Inp)) (st : BuildState), TInv m st →
      TInv m (processInputs follow symOf S fromId rest st) ∧
      (processInputs follow symOf S fromId rest st).ids.length + st.work.length
        = st.ids.length + (processInputs follow symOf S fromId rest st).work.length
  | [], st, hi => by
    simp only [processInputs]
    exact ⟨hi, trivial⟩
  | (i, inp) :: rest, st, hi => by
    simp only [processInputs]
    split
    · exact processInputs_tinv hf S fromId rest st hi
    · split
      · rename_i T id hfind
        have hi1 : TInv m { st with trans := st.trans ++ [(fromId, i, id)] } :=
          ⟨hi.nodup, hi.canon, hi.work⟩
        exact processInputs_tinv hf S fromId rest _ hi1
      · rename_i hfind
        have hnone : ∀ e ∈ st.ids, e.1 ≠ targetSet follow symOf S inp := by
          intro e he
          have := (List.find?_eq_none.1 hfind) e he
          simpa using this
        have hi1 : TInv m
            { ids := st.ids ++ [(targetSet follow symOf S inp, st.next)], next := st.next + 1,
              work := st.work ++ [targetSet follow symOf S inp],
              trans := st.trans ++ [(fromId, i, st.next)] } := by
          refine ⟨?_, ?_, ?_⟩
          · simp only [List.map_append, List.map_cons, List.map_nil]
            refine List.nodup_append.2 ⟨hi.nodup, by simp, ?_⟩
            intro a ha b hb
            rw [List.mem_singleton] at hb
            subst hb
            obtain ⟨e, he, rfl⟩ := List.mem_map.1 ha
            exact hnone e he
          · intro e he
            rcases List.mem_append.1 he with he | he
            · exact hi.canon e he
            · rw [List.mem_singleton.1 he]
              exact targetSet_canon follow symOf m hf S inp
          · intro T hT
            rcases List.mem_append.1 hT with hT | hT
            · obtain ⟨j, hj⟩ := hi.work T hT
              exact ⟨j, List.mem_append_left _ hj⟩
            · rw [List.mem_singleton.1 hT]
              exact ⟨st.next, by simp⟩
        obtain ⟨h1, h2⟩ := processInputs_tinv hf S fromId rest _ hi1
        refine ⟨h1, ?_⟩
        simp only [List.length_append, List.length_singleton] at h2
        omega

theorem length_removeNth {α} : ∀ (l : List α) (k : Nat), k < l.length →
    (removeNth l k).length + 1 = l.length
  | [], _, h => by simp at h
  | _ :: xs, 0, _ => by simp [removeNth]
  | x :: xs, k + 1, h => by
    have := length_removeNth xs k (by simpa using h)
    simp only [removeNth, List.length_cons]
    omega

theorem tinv_ids_le {st : BuildState} (hi : TInv m st) : st.ids.length ≤ 2 ^ m := by
  have := canon_card_le m (st.ids.map (·.1)) hi.nodup (by
    intro K hK
    obtain ⟨e, he, rfl⟩ := List.mem_map.1 hK
    exact hi.canon e he)
  simpa using this

/-- the loop ends within its fuel when the rounds done so far (`ids.length - work.length`) plus
the fuel left exceed `2 ^ m` -/
theorem buildLoop_isSome (hf : ∀ p q, q ∈ follow p → q < m) (σ : Schedule)
    (inputs : List (Nat × Inp)) : ∀ (fuel step : Nat) (st : BuildState), TInv m st →
      2 ^ m + st.work.length < st.ids.length + fuel →
      (buildLoop σ follow symOf inputs fuel step st).isSome
  | 0, step, st, hi, hlt => by
    have := tinv_ids_le m hi
    omega
  | fuel + 1, step, st, hi, hlt => by
    simp only [buildLoop]
    split
    · rfl
    · rename_i hne
      have hpos : 0 < st.work.length := by
        cases hw : st.work with
        | nil => simp [hw] at hne
        | cons => simp
      have hk : σ step st.work.length % st.work.length < st.work.length := Nat.mod_lt _ hpos
      split
      · rename_i hnone
        rw [List.getElem?_eq_none_iff] at hnone
        omega
      · rename_i state hstate
        have hmem : state ∈ st.work := List.mem_of_getElem? hstate
        split
        · rename_i hfind
          obtain ⟨j, hj⟩ := hi.work state hmem
          have := (List.find?_eq_none.1 hfind) _ hj
          simp at this
        · have hi0 : TInv m
              { st with work := removeNth st.work (σ step st.work.length % st.work.length) } :=
            ⟨hi.nodup, hi.canon, fun T hT => hi.work T (mem_removeNth_imp hT)⟩
          obtain ⟨h1, h2⟩ := processInputs_tinv follow symOf m hf state _ inputs _ hi0
          refine buildLoop_isSome hf σ inputs fuel (step + 1) _ h1 ?_
          have := length_removeNth st.work _ hk
          simp only at h2
          omega

end Loop

end BuildTerm

/-- **The subset construction terminates** (the loop ends within the fuel `2 ^ (n + 1) + 8`), for
every schedule and every labelling, when `first` and `follow` mention only positions up to the end
marker. -/
theorem buildAuto_isSome (σ : Schedule) (r : Regex) (symOf : Nat → Option Inp)
    (hfollow : ∀ p q, q ∈ r.follow p → q ≤ r.endPos)
    (hfirst : ∀ q ∈ r.first, q ≤ r.endPos) :
    (buildAuto σ r symOf).isSome := by
  have hf : ∀ p q, q ∈ r.follow p → q < r.inputs.length + 1 := fun p q h =>
    Nat.lt_succ_of_le (hfollow p q h)
  have hi0 : BuildTerm.TInv (r.inputs.length + 1)
      { ids := [(normSet r.first, 1)], next := 2, work := [normSet r.first], trans := [] } := by
    have hc : BuildTerm.Canon (r.inputs.length + 1) (normSet r.first) :=
      BuildTerm.normSet_canon (fun x hx => Nat.lt_succ_of_le (hfirst x hx))
    refine ⟨by simp, ?_, ?_⟩
    · intro e he
      rw [List.mem_singleton.1 he]
      exact hc
    · intro S hS
      rw [List.mem_singleton.1 hS]
      exact ⟨1, by simp⟩
  have := BuildTerm.buildLoop_isSome r.follow symOf (r.inputs.length + 1) hf σ
    (indexed (internInps ((List.range r.inputs.length).filterMap symOf)))
    (2 ^ (r.inputs.length + 1) + 8) 0 _ hi0
    (by simp only [List.length_singleton]; omega)
  simp only [buildAuto]
  split
  · rename_i hnone
    rw [hnone] at this
    cases this
  · rfl

/-- the same under the hypothesis that the positions of the expression proper are at most the end
marker (what `Regex.ofExpr` yields: they are `0 … endPos - 1`) -/
theorem buildAuto_isSome_of_positions (σ : Schedule) (r : Regex) (symOf : Nat → Option Inp)
    (hpos : ∀ q ∈ r.root.positions, q ≤ r.endPos) : (buildAuto σ r symOf).isSome := by
  have hfull : ∀ q ∈ r.full.positions, q ≤ r.endPos := by
    intro q hq
    simp only [Regex.full, Rx.positions, Rx.positionsL, List.append_nil, List.mem_append,
      List.mem_singleton] at hq
    rcases hq with hq | rfl
    · exact hpos q hq
    · exact Nat.le_refl _
  exact buildAuto_isSome σ r symOf
    (fun p q hq => hfull q (Rx.follow_sub _ p q hq))
    (fun q hq => hfull q (Rx.first_sub _ q hq))

/-! ### 4. The regexes of `Regex.ofExpr` -/

/-- **The subset construction terminates on the regex of an expression.** -/
theorem buildAuto_ofExpr_isSome (σ : Schedule) (e : Expr) (pool : RxPool)
    (symOf : Nat → Option Inp) : (buildAuto σ (Regex.ofExpr e pool).1 symOf).isSome :=
  buildAuto_isSome σ _ symOf
    (fun p q hq => Regex.ofExpr_full_positions_le e pool q (Rx.follow_sub _ p q hq))
    (fun q hq => Regex.ofExpr_full_positions_le e pool q (Rx.first_sub _ q hq))

/-- the subset construction terminates on every regex of a well-formed pool -/
theorem buildAuto_poolWF_isSome (σ : Schedule) (pool : RxPool) (hwf : Pipeline.PoolWF pool)
    (sr : Regex) (hsr : sr ∈ pool) (symOf : Nat → Option Inp) : (buildAuto σ sr symOf).isSome :=
  buildAuto_isSome_of_positions σ sr symOf (fun q hq => Nat.le_of_lt ((hwf sr hsr).2 q hq))

/-- **The subset construction terminates on every within-word regex** interned while compiling an
expression. -/
theorem buildAuto_pool_isSome (σ : Schedule) (e : Expr) (sr : Regex)
    (hsr : sr ∈ (Regex.ofExpr e []).2) (symOf : Nat → Option Inp) :
    (buildAuto σ sr symOf).isSome :=
  buildAuto_poolWF_isSome σ _ (Pipeline.Regex.ofExpr_poolWF e) sr hsr symOf

/-! ### 5. Within-word inputs refer to entries of the pool -/

namespace Pipeline
open Complgen.Check

theorem intern_mono (pool : RxPool) (r : Regex) : pool.length ≤ (pool.intern r).1.length := by
  unfold RxPool.intern
  split
  · exact Nat.le_refl _
  · simp

theorem intern_lt (pool : RxPool) (r : Regex) : (pool.intern r).2 < (pool.intern r).1.length := by
  unfold RxPool.intern
  split
  · rename_i i hi
    obtain ⟨h, _⟩ := List.findIdx?_eq_some_iff_getElem.1 hi
    exact h
  · simp

/-- every within-word input of `ins` has an index below `n` -/
def SubsBelow (ins : List RxInput) (n : Nat) : Prop :=
  ∀ rid l sp, RxInput.sub rid l sp ∈ ins → rid < n

theorem SubsBelow.mono {ins : List RxInput} {n n' : Nat} (h : SubsBelow ins n) (hn : n ≤ n') :
    SubsBelow ins n' := fun rid l sp hm => Nat.lt_of_lt_of_le (h rid l sp hm) hn

theorem SubsBelow.snoc {ins : List RxInput} {n : Nat} (h : SubsBelow ins n) (i : RxInput)
    (hi : ∀ rid l sp, i = RxInput.sub rid l sp → rid < n) : SubsBelow (ins ++ [i]) n := by
  intro rid l sp hm
  rcases List.mem_append.1 hm with hm | hm
  · exact h rid l sp hm
  · exact hi rid l sp (List.mem_singleton.1 hm).symm

theorem rxOfExpr_sub_ins (c : Expr) (l : Nat) (s : Span) (ins : List RxInput) (pool : RxPool) :
    (rxOfExpr (.sub c l s) (ins, pool)).2.1 =
      ins ++ [.sub ((rxOfExpr c ([], pool)).2.2.intern
        ⟨(rxOfExpr c ([], pool)).1, (rxOfExpr c ([], pool)).2.1⟩).2 l s] := by
  simp only [rxOfExpr]

mutual
/-- `do_from_expr` only extends the pool, and every `.sub rid` it emits carries the index that
`intern` has just returned -/
theorem rxOfExpr_subs : (e : Expr) → (ins : List RxInput) → (pool : RxPool) →
    pool.length ≤ (rxOfExpr e (ins, pool)).2.2.length ∧
    (SubsBelow ins pool.length →
      SubsBelow (rxOfExpr e (ins, pool)).2.1 (rxOfExpr e (ins, pool)).2.2.length)
  | .term .., ins, pool => by
    simp only [rxOfExpr]
    exact ⟨Nat.le_refl _, fun h => h.snoc _ (fun _ _ _ h => by cases h)⟩
  | .nonterm .., ins, pool => by
    simp only [rxOfExpr]
    exact ⟨Nat.le_refl _, fun h => h.snoc _ (fun _ _ _ h => by cases h)⟩
  | .cmd .., ins, pool => by
    simp only [rxOfExpr]
    exact ⟨Nat.le_refl _, fun h => h.snoc _ (fun _ _ _ h => by cases h)⟩
  | .sub c l s, ins, pool => by
    rw [rxOfExpr_sub_pool, rxOfExpr_sub_ins]
    have h1 := (rxOfExpr_subs c [] pool).1
    have h2 := intern_mono (rxOfExpr c ([], pool)).2.2
      ⟨(rxOfExpr c ([], pool)).1, (rxOfExpr c ([], pool)).2.1⟩
    have h3 := intern_lt (rxOfExpr c ([], pool)).2.2
      ⟨(rxOfExpr c ([], pool)).1, (rxOfExpr c ([], pool)).2.1⟩
    refine ⟨Nat.le_trans h1 h2, fun h => (h.mono (Nat.le_trans h1 h2)).snoc _ ?_⟩
    intro rid l' sp heq
    cases heq
    exact h3
  | .seq cs s, ins, pool => by rw [rxOfExpr_seq]; exact rxOfExprL_subs cs ins pool
  | .alt cs s, ins, pool => by rw [rxOfExpr_alt]; exact rxOfExprL_subs cs ins pool
  | .fb cs s, ins, pool => by rw [rxOfExpr_fb]; exact rxOfExprL_subs cs ins pool
  | .opt c s, ins, pool => by rw [rxOfExpr_opt]; exact rxOfExpr_subs c ins pool
  | .many1 c s, ins, pool => by rw [rxOfExpr_many1]; exact rxOfExpr_subs c ins pool
  | .dd c d s, ins, pool => by rw [rxOfExpr_dd]; exact ⟨Nat.le_refl _, fun h => h⟩
theorem rxOfExprL_subs : (es : ExprL) → (ins : List RxInput) → (pool : RxPool) →
    pool.length ≤ (rxOfExprL es (ins, pool)).2.2.length ∧
    (SubsBelow ins pool.length →
      SubsBelow (rxOfExprL es (ins, pool)).2.1 (rxOfExprL es (ins, pool)).2.2.length)
  | .nil, ins, pool => by rw [rxOfExprL_nil]; exact ⟨Nat.le_refl _, fun h => h⟩
  | .cons e es, ins, pool => by
    rw [rxOfExprL_cons]
    have h1 := rxOfExpr_subs e ins pool
    have h2 := rxOfExprL_subs es (rxOfExpr e (ins, pool)).2.1 (rxOfExpr e (ins, pool)).2.2
    exact ⟨Nat.le_trans h1.1 h2.1, fun h => h2.2 (h1.2 h)⟩
end

/-- **Every within-word input of a compiled expression refers to an entry of the pool.** -/
theorem Regex.ofExpr_subs (e : Expr) (pool : RxPool) :
    SubsBelow (Regex.ofExpr e pool).1.inputs (Regex.ofExpr e pool).2.length := by
  have := (rxOfExpr_subs e [] pool).2 (fun _ _ _ h => by cases h)
  simpa only [Regex.ofExpr] using this

/-! ### 6. `symbolsOf` does not crash -/

/-- one step of `symbolsOf.go` on a within-word input, with the reasons of the two crashes -/
theorem go_sub_cases' (σ : Schedule) (pool : RxPool) (rid l : Nat) (sp : Span)
    (rest : List RxInput) (acc : List Inp) (subs : List Auto) (cache : List (Nat × Nat))
    (R : Outcome (List Inp × List Auto))
    (h : symbolsOf.go σ pool (.sub rid l sp :: rest) acc subs cache = R) :
    pool[rid]? = none ∨
    (∃ sr, pool[rid]? = some sr ∧ buildAuto σ sr (subSymOf sr) = none) ∨
    (∃ e, R = ambToOutcome e) ∨
    (∃ k subs' cache', symbolsOf.go σ pool rest (acc ++ [.sub k l]) subs' cache' = R) := by
  rw [symbolsOf.go.eq_5] at h
  split at h
  · rename_i k _
    exact .inr (.inr (.inr ⟨k, _, _, h⟩))
  · split at h
    · rename_i hnone
      exact .inl hnone
    · rename_i sr hsr
      dsimp only at h
      split at h
      · rename_i hraw
        exact .inr (.inl ⟨sr, hsr, hraw⟩)
      · rename_i raw hraw
        split at h
        · rename_i e _
          exact .inr (.inr (.inl ⟨e, h.symm⟩))
        · split at h
          · rename_i hmin
            have := Min.minimize_isSome σ raw (buildAuto_WF σ sr _ raw hraw)
            rw [hmin] at this
            cases this
          · rename_i m hmin
            split at h
            · rename_i e _
              exact .inr (.inr (.inl ⟨e, h.symm⟩))
            · refine .inr (.inr (.inr ?_))
              split at h
              · exact ⟨_, _, _, h⟩
              · exact ⟨_, _, _, h⟩

/-- `symbolsOf.go` does not crash when the within-word inputs refer to entries of a well-formed
pool -/
theorem go_no_crash (σ : Schedule) (pool : RxPool) (hwf : PoolWF pool) :
    ∀ (ins : List RxInput) (acc : List Inp) (subs : List Auto) (cache : List (Nat × Nat))
      (s : String), SubsBelow ins pool.length →
      symbolsOf.go σ pool ins acc subs cache ≠ .crash s := by
  intro ins
  induction ins with
  | nil =>
    intro acc subs cache s _
    rw [symbolsOf.go.eq_1]
    simp
  | cons x rest ih =>
    intro acc subs cache s hsb
    have hsb' : SubsBelow rest pool.length := fun rid l sp hm =>
      hsb rid l sp (List.mem_cons_of_mem _ hm)
    cases x with
    | lit t d l sp => rw [symbolsOf.go.eq_2]; exact ih _ _ _ s hsb'
    | nonterm n l sp => rw [symbolsOf.go.eq_3]; exact ih _ _ _ s hsb'
    | cmd c a l sp => rw [symbolsOf.go.eq_4]; exact ih _ _ _ s hsb'
    | sub rid l sp =>
      have hrid : rid < pool.length := hsb rid l sp (by simp)
      intro h
      rcases go_sub_cases' σ pool rid l sp rest acc subs cache _ h with
        hnone | ⟨sr, hsr, hraw⟩ | ⟨e, he⟩ | ⟨k, subs', cache', h'⟩
      · rw [List.getElem?_eq_none_iff] at hnone
        omega
      · have := buildAuto_poolWF_isSome σ pool hwf sr (List.mem_of_getElem? hsr) (subSymOf sr)
        rw [hraw] at this
        cases this
      · exact ambToOutcome_ne_crash e s he.symm
      · exact ih _ _ _ s hsb' h'

/-- **`symbolsOf` does not crash** on the inputs and the pool of a compiled expression. -/
theorem symbolsOf_ofExpr_no_crash (σ : Schedule) (e : Expr) (s : String) :
    symbolsOf σ (Regex.ofExpr e []).2 (Regex.ofExpr e []).1.inputs ≠ .crash s :=
  go_no_crash σ _ (Regex.ofExpr_poolWF e) _ [] [] [] s (Regex.ofExpr_subs e [])

/-! ### 7. The crash sites of the pipeline -/

/-- **The model of the pipeline crashes only where validation does** (the modelled exhaustion of
the native stack in `check_subword_spaces`): neither `"dfa_from_regex: out of fuel"` (main and
within-word automata) nor `"do_minimize: out of fuel"` nor `"RegexInternPool::lookup"` occurs. -/
theorem compile_crash_only_stack (σ : Schedule) (g : Grammar) (sh : Shell) (s : String)
    (h : compile σ g sh = .crash s) :
    s = "check_subword_spaces: unbounded recursion through cyclic definitions" := by
  unfold compile at h
  split at h
  · cases h
  · rename_i s' hv
    cases h
    exact validate_crash_only_stack g sh s hv
  · rename_i v hv
    split at h
    rename_i regex pool hre
    have hreg : regex = (Regex.ofExpr v.expr []).1 := by rw [hre]
    have hpool : pool = (Regex.ofExpr v.expr []).2 := by rw [hre]
    split at h
    · cases h
    · split at h
      · cases h
      · rename_i s' hs
        rw [hreg, hpool] at hs
        exact absurd hs (symbolsOf_ofExpr_no_crash σ v.expr s')
      · rename_i syms subs hs
        split at h
        · rename_i hraw
          have := buildAuto_ofExpr_isSome σ v.expr [] (fun p => syms[p]?)
          rw [← hreg, hraw] at this
          cases this
        · rename_i raw hraw
          split at h
          · rename_i hmin
            have := Min.minimize_isSome σ raw (buildAuto_WF σ regex _ raw hraw)
            rw [hmin] at this
            cases this
          · split at h
            · exact absurd h (ambToOutcome_ne_crash _ _)
            · cases h

/-- restatement: none of the three internal crash messages is an outcome of `compile` -/
theorem compile_no_internal_crash (σ : Schedule) (g : Grammar) (sh : Shell) :
    compile σ g sh ≠ .crash "dfa_from_regex: out of fuel" ∧
    compile σ g sh ≠ .crash "do_minimize: out of fuel" ∧
    compile σ g sh ≠ .crash "RegexInternPool::lookup" := by
  refine ⟨fun h => ?_, fun h => ?_, fun h => ?_⟩ <;>
    exact absurd (compile_crash_only_stack σ g sh _ h) (by decide)

end Pipeline

end Complgen
