/-
C15: warnings are harmless — a definition that is warned about as unused does not take part in the
grammar's meaning: deleting it leaves what the model of check.rs's validation returns unchanged.
-/
import Complgen.Proofs.Order
import Complgen.Proofs.Cycle
namespace Complgen.Check
open Complgen

/-- `q` selects only definitions of the name `n` (plain ones, ones for some shell, or both) -/
def DefsOf (n : String) (q : Stmt → Bool) : Prop := ∀ st, q st = true → ∃ s shl e, st = .defn n s shl e

/-- the grammar without the statements `q` selects -/
def dropWhere (q : Stmt → Bool) (g : Grammar) : Grammar := g.filter fun st => !q st

/-- the plain definitions of `n` -/
def isPlainDefOf (n : String) : Stmt → Bool
  | .defn m _ none _ => m == n
  | _ => false

/-- the definitions of `n` for the shell `sh` -/
def isSpecDefOf (n : String) (sh : Shell) : Stmt → Bool
  | .defn m _ (some (s, _)) _ => m == n && s == sh.name
  | _ => false

theorem defsOf_plain (n : String) : DefsOf n (isPlainDefOf n) := by
  intro st h
  cases st with
  | call _ _ _ => simp [isPlainDefOf] at h
  | defn m s shl e =>
    cases shl with
    | some p => simp [isPlainDefOf] at h
    | none => simp only [isPlainDefOf, beq_iff_eq] at h; subst h; exact ⟨s, none, e, rfl⟩

theorem defsOf_spec (n : String) (sh : Shell) : DefsOf n (isSpecDefOf n sh) := by
  intro st h
  cases st with
  | call _ _ _ => simp [isSpecDefOf] at h
  | defn m s shl e =>
    cases shl with
    | none => simp [isSpecDefOf] at h
    | some p =>
      obtain ⟨a, b⟩ := p
      simp only [isSpecDefOf, Bool.and_eq_true, beq_iff_eq] at h
      obtain ⟨h1, _⟩ := h
      subst h1; exact ⟨s, some (a, b), e, rfl⟩

theorem findSome?_filter_irrelevant {α β} (f : α → Option β) (p : α → Bool) :
    ∀ l : List α, (∀ a ∈ l, p a = false → f a = none) → (l.filter p).findSome? f = l.findSome? f
  | [], _ => rfl
  | a :: l, h => by
    have ih := findSome?_filter_irrelevant f p l (fun b hb => h b (List.mem_cons_of_mem _ hb))
    by_cases hp : p a = true
    · simp [List.filter_cons, hp, List.findSome?_cons, ih]
    · have hp' : p a = false := by simpa using hp
      have := h a (by simp) hp'
      simp [List.filter_cons, hp', List.findSome?_cons, this, ih]

theorem pick_dropWhere (sh : Shell) (g : Grammar) (n m : String) (q : Stmt → Bool) (hq : DefsOf n q) (hmn : m ≠ n) :
    Spec.pick sh (dropWhere q g) m = Spec.pick sh g m := by
  rw [pick_unfold, pick_unfold]
  unfold dropWhere
  have hb : (n == m) = false := by simpa using (Ne.symm hmn)
  have h1 : (g.filter fun st => !q st).findSome? (specFor sh m) = g.findSome? (specFor sh m) := by
    apply findSome?_filter_irrelevant
    intro st _ hst
    obtain ⟨s, shl, e, rfl⟩ := hq st (by simpa using hst)
    cases shl with
    | none => rfl
    | some p =>
      obtain ⟨a, b⟩ := p
      cases e <;> simp [specFor, hb]
  have h2 : (g.filter fun st => !q st).findSome? (plainFor m) = g.findSome? (plainFor m) := by
    apply findSome?_filter_irrelevant
    intro st _ hst
    obtain ⟨s, shl, e, rfl⟩ := hq st (by simpa using hst)
    cases shl with
    | some p => rfl
    | none => simp [plainFor, hb]
  rw [h1, h2]

/-- no statement of the grammar mentions `n` -/
def Unmentioned (n : String) (g : Grammar) : Prop := n ∉ Spec.referred g

theorem body_avoids (n : String) (g : Grammar) (hu : Unmentioned n g) (sh : Shell) (m : String) (d : Expr)
    (hp : Spec.pick sh g m = .expr d) : n ∉ Spec.names d := by
  -- `d` is the body of a plain definition of the grammar
  have hpu := pick_unfold sh g m
  rw [hp] at hpu
  have hsome : g.findSome? (plainFor m) = some d := by
    cases h1 : g.findSome? (specFor sh m) with
    | some c => rw [h1] at hpu; cases hpu
    | none =>
      rw [h1] at hpu
      cases h2 : g.findSome? (plainFor m) with
      | some e' => rw [h2] at hpu; cases hpu; rfl
      | none =>
        rw [h2] at hpu
        simp only at hpu
        generalize (Option.map (fun x => x.2.2) (List.find? (fun r => r.1 == m && r.2.1 == sh) Gen.builtinTable)) = o at hpu
        cases o <;> cases hpu
  obtain ⟨st, hst, hf⟩ := List.exists_of_findSome?_eq_some hsome
  intro hn
  apply hu
  unfold Spec.referred
  refine List.mem_flatMap.mpr ⟨st, hst, ?_⟩
  cases st with
  | call _ _ _ => simp [plainFor] at hf
  | defn k s shl e =>
    cases shl with
    | some p => simp [plainFor] at hf
    | none =>
      simp only [plainFor] at hf
      split at hf
      · cases hf; exact hn
      · cases hf

theorem expandL_drop_step (sh : Shell) (g : Grammar) (q : Stmt → Bool) (n : String) (k : Nat)
    (hE : ∀ e : Expr, n ∉ Spec.names e → Spec.expand sh (dropWhere q g) k e = Spec.expand sh g k e) :
    ∀ es : ExprL, n ∉ Spec.namesL es → Spec.expandL sh (dropWhere q g) (k + 1) es = Spec.expandL sh g (k + 1) es
  | .nil, _ => by simp [Spec.expandL]
  | .cons e es, h => by
    simp only [Spec.namesL, List.mem_append, not_or] at h
    simp [Spec.expandL, hE e h.1, expandL_drop_step sh g q n k hE es h.2]

/-- expansion never meets an unmentioned name, so the definition of that name is irrelevant to it -/
theorem expand_dropWhere (sh : Shell) (g : Grammar) (n : String) (q : Stmt → Bool) (hq : DefsOf n q)
    (hu : Unmentioned n g) : ∀ k : Nat,
    (∀ e : Expr, n ∉ Spec.names e → Spec.expand sh (dropWhere q g) k e = Spec.expand sh g k e) ∧
    (∀ es : ExprL, n ∉ Spec.namesL es → Spec.expandL sh (dropWhere q g) k es = Spec.expandL sh g k es)
  | 0 => ⟨fun e _ => by simp [Spec.expand], fun es _ => by simp [Spec.expandL]⟩
  | k + 1 => by
    have ih := expand_dropWhere sh g n q hq hu k
    have hE : ∀ e : Expr, n ∉ Spec.names e → Spec.expand sh (dropWhere q g) (k + 1) e = Spec.expand sh g (k + 1) e := by
      intro e hn
      cases e with
      | term t d l s => simp [Spec.expand]
      | cmd c a l s => simp [Spec.expand]
      | nonterm m l s =>
        have hmn : m ≠ n := by
          intro e; apply hn; simp [Spec.names, e]
        simp only [Spec.expand, pick_dropWhere sh g n m q hq hmn]
        cases hp : Spec.pick sh g m with
        | command c a => rfl
        | anyWord => rfl
        | expr d =>
          simp only
          apply ih.1
          have := body_avoids n g hu sh m d hp
          have hnm : Spec.names (Spec.distr d none).1 = Spec.names d := by
            rw [← distr_eq_spec]; exact distr_names d none
          rw [hnm]; exact this
      | dd c d s => simp only [Spec.expand, Spec.names] at hn ⊢; rw [ih.1 c hn]
      | sub c l s => simp only [Spec.expand, Spec.names] at hn ⊢; rw [ih.1 c hn]
      | opt c s => simp only [Spec.expand, Spec.names] at hn ⊢; rw [ih.1 c hn]
      | many1 c s => simp only [Spec.expand, Spec.names] at hn ⊢; rw [ih.1 c hn]
      | seq cs s => simp only [Spec.expand, Spec.names] at hn ⊢; rw [ih.2 cs hn]
      | alt cs s => simp only [Spec.expand, Spec.names] at hn ⊢; rw [ih.2 cs hn]
      | fb cs s => simp only [Spec.expand, Spec.names] at hn ⊢; rw [ih.2 cs hn]
    exact ⟨hE, expandL_drop_step sh g q n k ih.1⟩

end Complgen.Check

namespace Complgen.Check
open Complgen

theorem validate_ok_parts (g : Grammar) (sh : Shell) (v : Valid) (h : validate g sh = .ok v) :
    ∃ n, commandOf g = .ok n ∧ ((plainDefs g).map (·.1)).Nodup ∧
      ∃ specs fbs, getSpecializations g sh = .ok (specs, fbs) := by
  obtain ⟨hnd, specs, fbs, hgs⟩ := validate_ok_inv g sh v h
  unfold validate at h
  cases hcmd : commandOf g with
  | err c s => rw [hcmd] at h; cases h
  | crash s => rw [hcmd] at h; cases h
  | ok n => exact ⟨n, rfl, hnd, specs, fbs, hgs⟩

theorem validate_ok_order (g : Grammar) (sh : Shell) (v : Valid) (h : validate g sh = .ok v) :
    ∃ order, resolutionOrder (tableOf sh g) = .ok order := by
  obtain ⟨n, hcmd, hnd, specs, fbs, hgs⟩ := validate_ok_parts g sh v h
  cases hro : resolutionOrder (tableOf sh g) with
  | ok order => exact ⟨order, rfl⟩
  | error spans =>
    have := finishValidate_cycle g sh n specs fbs hgs spans hro
    rw [validate_after_plain g sh n hcmd hnd, hgs] at h
    simp only at h
    rw [this] at h
    cases h

/-- for a grammar the model accepts, the specification's expansion no longer changes once the fuel
exceeds the explicit bound -/
theorem expand_stable (g : Grammar) (sh : Shell) (v : Valid) (h : validate g sh = .ok v) (e : Expr)
    (hd : NoDD e = true) (k1 k2 : Nat)
    (h1 : depth e + ((plainDefs g).map fun x => 2 * Spec.size x.2.2).sum ≤ k1)
    (h2 : depth e + ((plainDefs g).map fun x => 2 * Spec.size x.2.2).sum ≤ k2) :
    Spec.expand sh g k1 e = Spec.expand sh g k2 e := by
  obtain ⟨_, _, hnd, _, _, _⟩ := validate_ok_parts g sh v h
  obtain ⟨order, hro⟩ := validate_ok_order g sh v h
  rw [expansion_correct sh g order hnd hro e hd [] [] k1 h1, expansion_correct sh g order hnd hro e hd [] [] k2 h2]

theorem filterMap_filter_irrelevant {α β} (f : α → Option β) (p : α → Bool) :
    ∀ l : List α, (∀ a ∈ l, p a = false → f a = none) → (l.filter p).filterMap f = l.filterMap f
  | [], _ => rfl
  | a :: l, h => by
    have ih := filterMap_filter_irrelevant f p l (fun b hb => h b (List.mem_cons_of_mem _ hb))
    by_cases hp : p a = true
    · simp [List.filter_cons, hp, List.filterMap_cons, ih]
    · have hp' : p a = false := by simpa using hp
      have := h a (by simp) hp'
      simp [List.filter_cons, hp', List.filterMap_cons, this, ih]

theorem callsOf_dropWhere (n : String) (q : Stmt → Bool) (hq : DefsOf n q) (g : Grammar) :
    callsOf (dropWhere q g) = callsOf g := by
  unfold callsOf dropWhere
  apply filterMap_filter_irrelevant
  intro st _ hst
  obtain ⟨s, shl, e, rfl⟩ := hq st (by simpa using hst)
  rfl

theorem topOf_dropWhere (sp : Span) (n : String) (q : Stmt → Bool) (hq : DefsOf n q) (g : Grammar) :
    Spec.topOf sp (dropWhere q g) = Spec.topOf sp g := by
  unfold Spec.topOf
  rw [spec_calls, spec_calls, callsOf_dropWhere n q hq]

theorem topOf_names_referred (g : Grammar) (x : String) (h : x ∈ Spec.names (Spec.topOf (topSpan g) g)) :
    x ∈ Spec.referred g := by
  rw [spec_top] at h
  obtain ⟨c, hc, hx⟩ := (topExpr_names g x).mp h
  obtain ⟨cn, cs, ce⟩ := c
  unfold Spec.referred
  exact List.mem_flatMap.mpr ⟨_, (mem_callsOf g cn cs ce).mp hc, hx⟩

/-- **A definition nobody mentions is harmless**: when no statement mentions `n`, deleting definitions
of `n` — the plain one, the one for the target shell, any — does not change the validated expression
(hence neither the automaton nor any script), whenever the model accepts both grammars. -/
theorem validate_dropWhere (g : Grammar) (sh : Shell) (n : String) (q : Stmt → Bool) (hq : DefsOf n q)
    (v v' : Valid) (hu : Unmentioned n g)
    (h : validate g sh = .ok v) (h' : validate (dropWhere q g) sh = .ok v') : v'.expr = v.expr := by
  rw [validate_expr_eq_meaning g sh v h, validate_expr_eq_meaning (dropWhere q g) sh v' h']
  have hts : topSpan (dropWhere q g) = topSpan g := by unfold topSpan; rw [callsOf_dropWhere n q hq]
  rw [hts]
  unfold Spec.meaningAt
  simp only [topOf_dropWhere _ n q hq]
  generalize hA : List.foldl _ 0 (dropWhere q g) = A
  generalize hB : List.foldl _ 0 g = B
  -- both fuels are enough for both grammars' expansions of the call variants
  have hd0 : NoDD (Spec.distr (Spec.topOf (topSpan g) g) none).1 = true := by
    rw [← distr_eq_spec]; exact distr_noDD _ none
  have hfB : depth (Spec.distr (Spec.topOf (topSpan g) g) none).1 +
      ((plainDefs g).map fun x => 2 * Spec.size x.2.2).sum ≤ 2 * B + 8 := by
    have := fuel_enough g
    rw [← spec_top, distribute_eq_spec] at this
    rw [← hB]; exact this
  have hfA : depth (Spec.distr (Spec.topOf (topSpan g) g) none).1 +
      ((plainDefs (dropWhere q g)).map fun x => 2 * Spec.size x.2.2).sum ≤ 2 * A + 8 := by
    have := fuel_enough (dropWhere q g)
    rw [← spec_top, distribute_eq_spec, hts, topOf_dropWhere _ n q hq] at this
    rw [← hA]; exact this
  have hnames : n ∉ Spec.names (Spec.distr (Spec.topOf (topSpan g) g) none).1 := by
    have hnm : Spec.names (Spec.distr (Spec.topOf (topSpan g) g) none).1 = Spec.names (Spec.topOf (topSpan g) g) := by
      rw [← distr_eq_spec]; exact distr_names _ none
    rw [hnm]
    intro hx; exact hu (topOf_names_referred g n hx)
  -- lift both to a common fuel
  have e1 := expand_stable g sh v h _ hd0 (2 * B + 8) (2 * B + 8 + (2 * A + 8)) hfB (by omega)
  have e2 := expand_stable (dropWhere q g) sh v' h' _ hd0 (2 * A + 8) (2 * B + 8 + (2 * A + 8)) hfA (by omega)
  rw [e1, e2, (expand_dropWhere sh g n q hq hu _).1 _ hnames]

end Complgen.Check
